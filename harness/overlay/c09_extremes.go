//go:build verif
// +build verif

package sarama

// C09 overlay, part 5: payloads at the extremes of compressibility, for every codec and both framings
// (record batch v2; legacy wrapper message magic 0/1 around an inner message set).  These run on the real code
// only (the payloads are up to a megabyte): encode, decode, compare field by field, no partial flags.

import (
	"bytes"
	"fmt"
	"time"
)

// VerifPayload builds `size` bytes: shape 0 = one repeated byte, 1 = a short repeated pattern, 2 = pseudo-random
// (incompressible), 3 = long zero run with a few random bytes sprinkled in.
func VerifPayload(shape int, size int, r VerifRand) []byte {
	b := make([]byte, size)
	switch shape {
	case 0:
		c := byte(r.Intn(256))
		for i := range b {
			b[i] = c
		}
	case 1:
		pat := make([]byte, 2+r.Intn(7))
		for i := range pat {
			pat[i] = byte(r.Intn(256))
		}
		for i := range b {
			b[i] = pat[i%len(pat)]
		}
	case 2:
		for i := 0; i < size; i += 8 {
			x := r.U64()
			for j := 0; j < 8 && i+j < size; j++ {
				b[i+j] = byte(x >> uint(8*j))
			}
		}
	default:
		for k := 0; k < 5 && size > 0; k++ {
			b[r.Intn(size)] = byte(r.Intn(256))
		}
	}
	return b
}

func splitPayload(p []byte, n int) [][]byte {
	if n < 1 {
		n = 1
	}
	out := make([][]byte, 0, n)
	step := len(p) / n
	for i := 0; i < n; i++ {
		lo, hi := i*step, (i+1)*step
		if i == n-1 {
			hi = len(p)
		}
		out = append(out, p[lo:hi])
	}
	return out
}

// VerifExtremeBatch: a record batch whose records carry the payload (split over nrec records), encoded and
// decoded with the real code.  Returns bytes on the wire and the first difference ("" = identical).
func VerifExtremeBatch(codec int8, level int, payload []byte, nrec int, inKey bool) (wire int, diff string) {
	b := &RecordBatch{Version: 2, Codec: CompressionCodec(codec), CompressionLevel: level, FirstOffset: 42,
		FirstTimestamp: time.Unix(1600000000, 0), MaxTimestamp: time.Unix(1600000001, 0), ProducerID: -1,
		LastOffsetDelta: int32(nrec - 1)}
	for i, chunk := range splitPayload(payload, nrec) {
		r := &Record{OffsetDelta: int64(i), TimestampDelta: time.Duration(i) * time.Millisecond,
			Headers: []*RecordHeader{{Key: []byte("h"), Value: chunk[:len(chunk)/16]}}}
		if inKey {
			r.Key, r.Value = chunk, []byte{}
		} else {
			r.Key, r.Value = []byte("k"), chunk
		}
		b.Records = append(b.Records, r)
	}
	buf, err := encode(b, nil)
	if err != nil {
		return 0, "encode: " + err.Error()
	}
	wire = len(buf)
	d := &RecordBatch{}
	rd := &realDecoder{raw: buf}
	if err := d.decode(rd); err != nil {
		return wire, "decode: " + err.Error()
	}
	if rd.off != len(buf) {
		return wire, fmt.Sprintf("decode consumed %d of %d bytes", rd.off, len(buf))
	}
	if d.PartialTrailingRecord {
		return wire, fmt.Sprintf("decoded as a partial trailing batch with %d of %d records", len(d.Records), len(b.Records))
	}
	if VerifBatchHdrLine(d) != VerifBatchHdrLine(b) {
		return wire, "batch header: " + VerifBatchHdrLine(d) + " want " + VerifBatchHdrLine(b)
	}
	if len(d.Records) != len(b.Records) {
		return wire, fmt.Sprintf("%d records decoded, %d encoded", len(d.Records), len(b.Records))
	}
	for i, r := range b.Records {
		q := d.Records[i]
		switch {
		case !bytes.Equal(q.Key, r.Key):
			return wire, fmt.Sprintf("record %d: key differs (%d vs %d bytes)", i, len(q.Key), len(r.Key))
		case !bytes.Equal(q.Value, r.Value):
			return wire, fmt.Sprintf("record %d: value differs (%d vs %d bytes)", i, len(q.Value), len(r.Value))
		case q.OffsetDelta != r.OffsetDelta || q.TimestampDelta != r.TimestampDelta || q.Attributes != r.Attributes:
			return wire, fmt.Sprintf("record %d: deltas/attributes differ", i)
		case len(q.Headers) != len(r.Headers):
			return wire, fmt.Sprintf("record %d: %d headers decoded, %d encoded", i, len(q.Headers), len(r.Headers))
		}
		for j, h := range r.Headers {
			if !bytes.Equal(q.Headers[j].Key, h.Key) || !bytes.Equal(q.Headers[j].Value, h.Value) {
				return wire, fmt.Sprintf("record %d header %d differs", i, j)
			}
		}
	}
	// and the decoded batch encodes to the same bytes again
	d.CompressionLevel = level
	buf2, err := encode(d, nil)
	if err != nil {
		return wire, "re-encode: " + err.Error()
	}
	if !bytes.Equal(buf, buf2) {
		return wire, fmt.Sprintf("re-encoded bytes differ (%d vs %d)", len(buf2), len(buf))
	}
	return wire, ""
}

// VerifExtremeWrapper: a legacy message set with one compressed wrapper message (magic 0/1) around an inner
// set whose messages carry the payload.
func VerifExtremeWrapper(magic int8, codec int8, level int, payload []byte, nmsg int) (wire int, diff string) {
	inner := &MessageSet{}
	for i, chunk := range splitPayload(payload, nmsg) {
		m := &Message{Version: magic, Key: []byte{byte(i)}, Value: chunk}
		if magic == 1 {
			m.Timestamp = time.Unix(1600000000+int64(i), 0)
		}
		inner.Messages = append(inner.Messages, &MessageBlock{Offset: int64(i), Msg: m})
	}
	raw, err := encode(inner, nil)
	if err != nil {
		return 0, "encode inner set: " + err.Error()
	}
	w := &Message{Version: magic, Codec: CompressionCodec(codec), CompressionLevel: level, Key: nil, Value: raw}
	if magic == 1 {
		w.Timestamp = time.Unix(1600000100, 0)
	}
	outer := &MessageSet{Messages: []*MessageBlock{{Offset: int64(nmsg - 1), Msg: w}}}
	buf, err := encode(outer, nil)
	if err != nil {
		return 0, "encode: " + err.Error()
	}
	wire = len(buf)
	d := &MessageSet{}
	rd := &realDecoder{raw: buf}
	if err := d.decode(rd); err != nil {
		return wire, "decode: " + err.Error()
	}
	if rd.off != len(buf) {
		return wire, fmt.Sprintf("decode consumed %d of %d bytes", rd.off, len(buf))
	}
	if d.PartialTrailingMessage || d.OverflowMessage || len(d.Messages) != 1 {
		return wire, fmt.Sprintf("outer set: %d messages, partial=%v overflow=%v", len(d.Messages), d.PartialTrailingMessage, d.OverflowMessage)
	}
	dm := d.Messages[0].Msg
	if dm.Codec != w.Codec || dm.Version != magic || d.Messages[0].Offset != int64(nmsg-1) {
		return wire, "wrapper fields differ"
	}
	if !bytes.Equal(dm.Value, raw) {
		return wire, fmt.Sprintf("wrapper value: %d bytes decompressed, %d compressed from", len(dm.Value), len(raw))
	}
	if dm.Set == nil {
		return wire, "no inner set decoded"
	}
	if dm.Set.PartialTrailingMessage || dm.Set.OverflowMessage {
		return wire, fmt.Sprintf("inner set partial=%v overflow=%v with %d of %d messages", dm.Set.PartialTrailingMessage,
			dm.Set.OverflowMessage, len(dm.Set.Messages), len(inner.Messages))
	}
	if len(dm.Set.Messages) != len(inner.Messages) {
		return wire, fmt.Sprintf("%d inner messages decoded, %d encoded", len(dm.Set.Messages), len(inner.Messages))
	}
	for i, mb := range inner.Messages {
		q := dm.Set.Messages[i]
		if q.Offset != mb.Offset || !bytes.Equal(q.Msg.Key, mb.Msg.Key) || !bytes.Equal(q.Msg.Value, mb.Msg.Value) ||
			q.Msg.Version != mb.Msg.Version || !q.Msg.Timestamp.Equal(mb.Msg.Timestamp) {
			return wire, fmt.Sprintf("inner message %d differs", i)
		}
	}
	return wire, ""
}

// ---------------------------------------------------------------------------------------------- encode histories

// VerifFailingEncode runs the package's encode() on an input that must be refused, and returns the error:
//   kind 0: a valid body with MaxRequestSize lowered below its size for the duration of the call (the sizing
//           pass succeeds, the size check refuses)
//   kind 1: a request with a string longer than MaxInt16 (the sizing pass fails half-way)
//   kind 2: a produce request whose message has a timestamp before the epoch (the sizing pass fails inside
//           nested length/CRC fields, i.e. with a non-empty push stack)
//   kind 3: an OffsetFetchRequest that asks for RequireStable below v7 (fails after the partitions were sized)
func VerifFailingEncode(kind int, valid interface{}) error {
	switch kind {
	case 0:
		e, ok := valid.(encoder)
		if !ok {
			return fmt.Errorf("not an encoder")
		}
		old := MaxRequestSize
		MaxRequestSize = 0
		defer func() { MaxRequestSize = old }()
		_, err := encode(e, nil)
		return err
	case 1:
		long := make([]byte, 40000)
		for i := range long {
			long[i] = 'a'
		}
		_, err := encode(&MetadataRequest{Version: 1, Topics: []string{"t1", string(long), "t2"}}, nil)
		return err
	case 2:
		req := &ProduceRequest{Version: 2, RequiredAcks: WaitForAll, Timeout: 100}
		req.AddMessage("topic", 3, &Message{Version: 1, Value: []byte("v"), Timestamp: time.Unix(-5, 0)})
		_, err := encode(req, nil)
		return err
	default:
		req := &OffsetFetchRequest{Version: 3, ConsumerGroup: "g", RequireStable: true}
		req.AddPartition("topic", 1)
		req.AddPartition("other", 2)
		_, err := encode(req, nil)
		return err
	}
}

// ---------------------------------------------------------------------------------------------- very long arrays

// VerifBigArrayCase: a body with one array of n short elements (around and beyond 2*MaxUint16 = 131070), encoded
// and decoded with the real code (oracle only: about a megabyte on the wire).
//   kinds: DeleteTopicsRequest DeleteGroupsRequest DescribeGroupsRequest SaslHandshakeResponse
//          ConsumerGroupMemberMetadata (string arrays), ConsumerGroupMemberAssignment OffsetFetchRequest (int32 arrays),
//          ListPartitionReassignmentsRequest (compact int32 array), CreatePartitionsRequest (nullable array of int32 arrays)
func VerifBigArrayCase(kind string, n int) (wire int, diff string) {
	strs := make([]string, n)
	for i := range strs {
		strs[i] = string([]byte{'a' + byte(i%26), 'a' + byte(i/26%26)})
	}
	ints := make([]int32, n)
	for i := range ints {
		ints[i] = int32(i)
	}
	var v, fresh interface{}
	var ver int16
	switch kind {
	case "DeleteTopicsRequest":
		v, fresh = &DeleteTopicsRequest{Topics: strs, Timeout: time.Second}, &DeleteTopicsRequest{}
	case "DeleteGroupsRequest":
		v, fresh = &DeleteGroupsRequest{Groups: strs}, &DeleteGroupsRequest{}
	case "DescribeGroupsRequest":
		v, fresh = &DescribeGroupsRequest{Groups: strs}, &DescribeGroupsRequest{}
	case "SaslHandshakeResponse":
		v, fresh = &SaslHandshakeResponse{EnabledMechanisms: strs}, &SaslHandshakeResponse{}
	case "ConsumerGroupMemberMetadata":
		v, fresh = &ConsumerGroupMemberMetadata{Version: 1, Topics: strs, UserData: []byte{1}}, &ConsumerGroupMemberMetadata{}
	case "ConsumerGroupMemberAssignment":
		v, fresh = &ConsumerGroupMemberAssignment{Topics: map[string][]int32{"t": ints}}, &ConsumerGroupMemberAssignment{}
	case "OffsetFetchRequest":
		ver = 1
		v, fresh = &OffsetFetchRequest{Version: 1, ConsumerGroup: "g", partitions: map[string][]int32{"t": ints}}, &OffsetFetchRequest{}
	case "ListPartitionReassignmentsRequest":
		r := &ListPartitionReassignmentsRequest{TimeoutMs: 5}
		r.blocks = map[string][]int32{"t": ints}
		v, fresh = r, &ListPartitionReassignmentsRequest{}
	case "CreatePartitionsRequest":
		assign := make([][]int32, n)
		for i := range assign {
			assign[i] = []int32{int32(i)}
		}
		v = &CreatePartitionsRequest{TopicPartitions: map[string]*TopicPartition{"t": {Count: int32(n), Assignment: assign}}}
		fresh = &CreatePartitionsRequest{}
	default:
		return 0, "unknown kind"
	}
	buf, err := encode(v.(encoder), nil)
	if err != nil {
		return 0, "rejected"
	}
	wire = len(buf)
	if err := VerifDecodeBody(buf, fresh, ver); err != nil {
		return wire, "decode: " + err.Error()
	}
	again, err := encode(fresh.(encoder), nil)
	if err != nil {
		return wire, "re-encode: " + err.Error()
	}
	if !bytes.Equal(buf, again) {
		return wire, fmt.Sprintf("re-encoded bytes differ (%d vs %d)", len(again), len(buf))
	}
	if d := VerifEqual(fresh, reflectFreshDecode(buf, kind, ver)); d != "" {
		return wire, "second decode differs at " + d
	}
	return wire, ""
}

// a second, independent decode of the same bytes (decoding is deterministic)
func reflectFreshDecode(buf []byte, kind string, ver int16) interface{} {
	var f interface{}
	switch kind {
	case "DeleteTopicsRequest":
		f = &DeleteTopicsRequest{}
	case "DeleteGroupsRequest":
		f = &DeleteGroupsRequest{}
	case "DescribeGroupsRequest":
		f = &DescribeGroupsRequest{}
	case "SaslHandshakeResponse":
		f = &SaslHandshakeResponse{}
	case "ConsumerGroupMemberMetadata":
		f = &ConsumerGroupMemberMetadata{}
	case "ConsumerGroupMemberAssignment":
		f = &ConsumerGroupMemberAssignment{}
	case "OffsetFetchRequest":
		f = &OffsetFetchRequest{}
	case "ListPartitionReassignmentsRequest":
		f = &ListPartitionReassignmentsRequest{}
	default:
		f = &CreatePartitionsRequest{}
	}
	_ = VerifDecodeBody(buf, f, ver)
	return f
}
