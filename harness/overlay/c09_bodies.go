//go:build verif
// +build verif

package sarama

// C09 overlay, part 2: the table of protocol bodies, reflect-driven population of their fields, and the
// round-trip steps on the REAL encode/decode (the harness in cmd/c09 turns the results into op lines and
// oracle verdicts).

import (
	"fmt"
	"reflect"
	"sort"
	"strings"
	"time"
	"unsafe"
)

// VerifBody describes one protocol body type and the versions it implements.
type VerifBody struct {
	Name   string
	MaxVer int16
	New    func() interface{}
}

func vb(name string, max int16, f func() interface{}) VerifBody { return VerifBody{name, max, f} }

// VerifBodies lists every request and response type of the package with the highest version its
// encode/decode implement (from the version() / requiredVersion() methods and the version conditions).
func VerifBodies() []VerifBody {
	return []VerifBody{
		vb("ProduceRequest", 7, func() interface{} { return &ProduceRequest{} }),
		vb("ProduceResponse", 7, func() interface{} { return &ProduceResponse{} }),
		vb("FetchRequest", 11, func() interface{} { return &FetchRequest{} }),
		vb("FetchResponse", 11, func() interface{} { return &FetchResponse{} }),
		vb("OffsetRequest", 2, func() interface{} { return &OffsetRequest{} }),
		vb("OffsetResponse", 2, func() interface{} { return &OffsetResponse{} }),
		vb("MetadataRequest", 5, func() interface{} { return &MetadataRequest{} }),
		vb("MetadataResponse", 5, func() interface{} { return &MetadataResponse{} }),
		vb("OffsetCommitRequest", 4, func() interface{} { return &OffsetCommitRequest{} }),
		vb("OffsetCommitResponse", 4, func() interface{} { return &OffsetCommitResponse{} }),
		vb("OffsetFetchRequest", 7, func() interface{} { return &OffsetFetchRequest{} }),
		vb("OffsetFetchResponse", 7, func() interface{} { return &OffsetFetchResponse{} }),
		vb("FindCoordinatorRequest", 1, func() interface{} { return &FindCoordinatorRequest{} }),
		vb("FindCoordinatorResponse", 1, func() interface{} { return &FindCoordinatorResponse{} }),
		vb("ConsumerMetadataRequest", 0, func() interface{} { return &ConsumerMetadataRequest{} }),
		vb("ConsumerMetadataResponse", 0, func() interface{} { return &ConsumerMetadataResponse{} }),
		vb("JoinGroupRequest", 2, func() interface{} { return &JoinGroupRequest{} }),
		vb("JoinGroupResponse", 2, func() interface{} { return &JoinGroupResponse{} }),
		vb("HeartbeatRequest", 0, func() interface{} { return &HeartbeatRequest{} }),
		vb("HeartbeatResponse", 0, func() interface{} { return &HeartbeatResponse{} }),
		vb("LeaveGroupRequest", 0, func() interface{} { return &LeaveGroupRequest{} }),
		vb("LeaveGroupResponse", 0, func() interface{} { return &LeaveGroupResponse{} }),
		vb("SyncGroupRequest", 0, func() interface{} { return &SyncGroupRequest{} }),
		vb("SyncGroupResponse", 0, func() interface{} { return &SyncGroupResponse{} }),
		vb("DescribeGroupsRequest", 0, func() interface{} { return &DescribeGroupsRequest{} }),
		vb("DescribeGroupsResponse", 0, func() interface{} { return &DescribeGroupsResponse{} }),
		vb("ListGroupsRequest", 0, func() interface{} { return &ListGroupsRequest{} }),
		vb("ListGroupsResponse", 0, func() interface{} { return &ListGroupsResponse{} }),
		vb("SaslHandshakeRequest", 1, func() interface{} { return &SaslHandshakeRequest{} }),
		vb("SaslHandshakeResponse", 0, func() interface{} { return &SaslHandshakeResponse{} }),
		vb("SaslAuthenticateRequest", 0, func() interface{} { return &SaslAuthenticateRequest{} }),
		vb("SaslAuthenticateResponse", 0, func() interface{} { return &SaslAuthenticateResponse{} }),
		vb("ApiVersionsRequest", 0, func() interface{} { return &ApiVersionsRequest{} }),
		vb("ApiVersionsResponse", 0, func() interface{} { return &ApiVersionsResponse{} }),
		vb("CreateTopicsRequest", 2, func() interface{} { return &CreateTopicsRequest{} }),
		vb("CreateTopicsResponse", 2, func() interface{} { return &CreateTopicsResponse{} }),
		vb("DeleteTopicsRequest", 1, func() interface{} { return &DeleteTopicsRequest{} }),
		vb("DeleteTopicsResponse", 1, func() interface{} { return &DeleteTopicsResponse{} }),
		vb("DeleteRecordsRequest", 0, func() interface{} { return &DeleteRecordsRequest{} }),
		vb("DeleteRecordsResponse", 0, func() interface{} { return &DeleteRecordsResponse{} }),
		vb("InitProducerIDRequest", 0, func() interface{} { return &InitProducerIDRequest{} }),
		vb("InitProducerIDResponse", 0, func() interface{} { return &InitProducerIDResponse{} }),
		vb("AddPartitionsToTxnRequest", 0, func() interface{} { return &AddPartitionsToTxnRequest{} }),
		vb("AddPartitionsToTxnResponse", 0, func() interface{} { return &AddPartitionsToTxnResponse{} }),
		vb("AddOffsetsToTxnRequest", 0, func() interface{} { return &AddOffsetsToTxnRequest{} }),
		vb("AddOffsetsToTxnResponse", 0, func() interface{} { return &AddOffsetsToTxnResponse{} }),
		vb("EndTxnRequest", 0, func() interface{} { return &EndTxnRequest{} }),
		vb("EndTxnResponse", 0, func() interface{} { return &EndTxnResponse{} }),
		vb("TxnOffsetCommitRequest", 0, func() interface{} { return &TxnOffsetCommitRequest{} }),
		vb("TxnOffsetCommitResponse", 0, func() interface{} { return &TxnOffsetCommitResponse{} }),
		vb("DescribeAclsRequest", 1, func() interface{} { return &DescribeAclsRequest{} }),
		vb("DescribeAclsResponse", 1, func() interface{} { return &DescribeAclsResponse{} }),
		vb("CreateAclsRequest", 1, func() interface{} { return &CreateAclsRequest{} }),
		vb("CreateAclsResponse", 0, func() interface{} { return &CreateAclsResponse{} }),
		vb("DeleteAclsRequest", 1, func() interface{} { return &DeleteAclsRequest{} }),
		vb("DeleteAclsResponse", 1, func() interface{} { return &DeleteAclsResponse{} }),
		vb("DescribeConfigsRequest", 2, func() interface{} { return &DescribeConfigsRequest{} }),
		vb("DescribeConfigsResponse", 2, func() interface{} { return &DescribeConfigsResponse{} }),
		vb("AlterConfigsRequest", 0, func() interface{} { return &AlterConfigsRequest{} }),
		vb("AlterConfigsResponse", 0, func() interface{} { return &AlterConfigsResponse{} }),
		vb("IncrementalAlterConfigsRequest", 0, func() interface{} { return &IncrementalAlterConfigsRequest{} }),
		vb("IncrementalAlterConfigsResponse", 0, func() interface{} { return &IncrementalAlterConfigsResponse{} }),
		vb("DescribeLogDirsRequest", 0, func() interface{} { return &DescribeLogDirsRequest{} }),
		vb("DescribeLogDirsResponse", 0, func() interface{} { return &DescribeLogDirsResponse{} }),
		vb("CreatePartitionsRequest", 0, func() interface{} { return &CreatePartitionsRequest{} }),
		vb("CreatePartitionsResponse", 0, func() interface{} { return &CreatePartitionsResponse{} }),
		vb("DeleteGroupsRequest", 0, func() interface{} { return &DeleteGroupsRequest{} }),
		vb("DeleteGroupsResponse", 0, func() interface{} { return &DeleteGroupsResponse{} }),
		vb("AlterPartitionReassignmentsRequest", 0, func() interface{} { return &AlterPartitionReassignmentsRequest{} }),
		vb("AlterPartitionReassignmentsResponse", 0, func() interface{} { return &AlterPartitionReassignmentsResponse{} }),
		vb("ListPartitionReassignmentsRequest", 0, func() interface{} { return &ListPartitionReassignmentsRequest{} }),
		vb("ListPartitionReassignmentsResponse", 0, func() interface{} { return &ListPartitionReassignmentsResponse{} }),
		vb("DescribeUserScramCredentialsRequest", 0, func() interface{} { return &DescribeUserScramCredentialsRequest{} }),
		vb("DescribeUserScramCredentialsResponse", 0, func() interface{} { return &DescribeUserScramCredentialsResponse{} }),
		vb("AlterUserScramCredentialsRequest", 0, func() interface{} { return &AlterUserScramCredentialsRequest{} }),
		vb("AlterUserScramCredentialsResponse", 0, func() interface{} { return &AlterUserScramCredentialsResponse{} }),
		// embedded wire types that are encoded on their own
		vb("ConsumerGroupMemberMetadata", 1, func() interface{} { return &ConsumerGroupMemberMetadata{} }),
		vb("ConsumerGroupMemberAssignment", 0, func() interface{} { return &ConsumerGroupMemberAssignment{} }),
	}
}

// VerifRand is the PRNG interface the population needs (hlib.Rand satisfies it).
type VerifRand interface {
	Intn(n int) int
	U64() uint64
}

// VerifGen holds the knobs of one population.
type VerifGen struct {
	R       VerifRand
	Version int16
	MaxLen  int  // maximal collection length
	SmallMaps bool // at most one entry per map (fixes the iteration order, so bytes must be identical)
	Shape   int  // 0 random, 1 all-zero/nil, 2 all-empty (non-nil), 3 extreme values
	Pairs   [][2][]byte // (uncompressed, compressed) value of every wrapper message built
	Levels  bool        // also draw explicit gzip levels (the level is not on the wire: only for the record streams)
}

var (
	tTime     = reflect.TypeOf(time.Time{})
	tDuration = reflect.TypeOf(time.Duration(0))
	tRecords  = reflect.TypeOf(Records{})
	tMsgSet   = reflect.TypeOf(MessageSet{})
	tBatch    = reflect.TypeOf(RecordBatch{})
	tMessage  = reflect.TypeOf(Message{})
	tRecord   = reflect.TypeOf(Record{})
	tBroker   = reflect.TypeOf(Broker{})
)

func (g *VerifGen) int64v(bits int) int64 {
	max := int64(1)<<(uint(bits)-1) - 1
	min := -max - 1
	switch g.Shape {
	case 1:
		return 0
	case 3:
		if g.R.Intn(2) == 0 {
			return max
		}
		return min
	}
	switch g.R.Intn(8) {
	case 0:
		return 0
	case 1:
		return 1
	case 2:
		return -1
	case 3:
		return max
	case 4:
		return min
	case 5:
		return int64(g.R.Intn(1000))
	default:
		v := int64(g.R.U64())
		if bits < 64 {
			v = v >> uint(64-bits)
		}
		return v
	}
}

func (g *VerifGen) str() string {
	switch g.Shape {
	case 1, 2:
		return ""
	case 3:
		return strings.Repeat("x", 300)
	}
	switch g.R.Intn(7) {
	case 0:
		return ""
	case 1:
		return "a"
	case 2:
		return "topic-" + string(rune('a'+g.R.Intn(26)))
	case 3:
		b := make([]byte, 1+g.R.Intn(40))
		for i := range b {
			b[i] = byte(g.R.Intn(256))
		}
		return string(b)
	case 4:
		return strings.Repeat("é", 1+g.R.Intn(150))
	default:
		return fmt.Sprintf("s%d", g.R.Intn(100000))
	}
}

func (g *VerifGen) bytesv() []byte {
	switch g.Shape {
	case 1:
		return nil
	case 2:
		return []byte{}
	}
	switch g.R.Intn(6) {
	case 0:
		return nil
	case 1:
		return []byte{}
	case 2:
		return []byte{byte(g.R.Intn(256))}
	case 3:
		b := make([]byte, 200+g.R.Intn(200))
		for i := range b {
			b[i] = byte(g.R.Intn(256))
		}
		return b
	default:
		b := make([]byte, 1+g.R.Intn(20))
		for i := range b {
			b[i] = byte(g.R.Intn(256))
		}
		return b
	}
}

// collection length: -1 = nil
func (g *VerifGen) clen() int {
	switch g.Shape {
	case 1:
		return -1
	case 2:
		return 0
	case 3:
		return g.MaxLen
	}
	switch g.R.Intn(6) {
	case 0:
		return -1
	case 1:
		return 0
	case 2:
		return 1
	default:
		return 1 + g.R.Intn(g.MaxLen)
	}
}

// millisecond-aligned wall-clock time at or after the epoch, or the zero time
func (g *VerifGen) timev() time.Time {
	if g.Shape == 1 || g.R.Intn(4) == 0 {
		return time.Time{}
	}
	ms := int64(g.R.U64() % (1 << 41))
	if g.R.Intn(5) == 0 {
		ms = 0
	}
	return time.Unix(ms/1000, (ms%1000)*int64(time.Millisecond))
}

func settable(v reflect.Value) reflect.Value {
	if v.CanSet() {
		return v
	}
	return reflect.NewAt(v.Type(), unsafe.Pointer(v.UnsafeAddr())).Elem()
}

func joinHostPort(host string, port int64) string {
	if strings.Contains(host, ":") {
		return "[" + host + "]:" + fmt.Sprint(port)
	}
	return host + ":" + fmt.Sprint(port)
}

// Populate fills the value (a pointer to a protocol body) field by field.
func (g *VerifGen) Populate(body interface{}) {
	g.fill(reflect.ValueOf(body).Elem(), 0, true)
	g.setVersion(body)
	verifFixup(body)
}

// verifFixup removes what the wire format itself cannot show: inside a FetchResponse partition a legacy
// message set without messages (or an unset Records) occupies zero bytes, so no decoder could bring it back.
func verifFixup(body interface{}) {
	if of, ok := body.(*OffsetFetchRequest); ok && of.Version < 7 {
		of.RequireStable = false // the encoder refuses the flag below v7
	}
	if jg, ok := body.(*JoinGroupRequest); ok && len(jg.GroupProtocols) > 0 && len(jg.OrderedGroupProtocols) > 0 {
		jg.GroupProtocols = nil // the encoder refuses both forms at once
	}
	if ar, ok := body.(*AlterUserScramCredentialsRequest); ok {
		// the encoder runs PBKDF2 with this many iterations: keep it cheap; mechanisms the formatter knows
		for i := range ar.Upsertions {
			u := &ar.Upsertions[i]
			if u.Iterations < 0 {
				u.Iterations = -(u.Iterations + 1)
			}
			u.Iterations %= 64
			if u.Mechanism != SCRAM_MECHANISM_SHA_256 && u.Mechanism != SCRAM_MECHANISM_SHA_512 {
				if u.Iterations%2 == 0 {
					u.Mechanism = SCRAM_MECHANISM_SHA_256
				} else {
					u.Mechanism = SCRAM_MECHANISM_SHA_512
				}
			}
		}
		return
	}
	fr, ok := body.(*FetchResponse)
	if !ok {
		return
	}
	for _, parts := range fr.Blocks {
		for _, b := range parts {
			if b == nil {
				continue
			}
			b.Records = nil
			var keep []*Records
			for _, r := range b.RecordsSet {
				if r == nil || (r.RecordBatch == nil && (r.MsgSet == nil || len(r.MsgSet.Messages) == 0)) {
					continue
				}
				keep = append(keep, r)
			}
			if b.RecordsSet != nil && keep == nil {
				keep = []*Records{}
			}
			b.RecordsSet = keep
		}
	}
}

func (g *VerifGen) setVersion(body interface{}) {
	v := reflect.ValueOf(body).Elem()
	f := v.FieldByName("Version")
	if f.IsValid() && f.CanSet() {
		switch f.Kind() {
		case reflect.Int16, reflect.Int, reflect.Int32, reflect.Int8, reflect.Int64:
			f.SetInt(int64(g.Version))
		}
	}
}

func (g *VerifGen) fill(v reflect.Value, depth int, top bool) {
	t := v.Type()
	switch t {
	case tTime:
		v.Set(reflect.ValueOf(g.timev()))
		return
	case tDuration:
		// carried as int32 milliseconds
		ms := g.int64v(32)
		if ms < 0 && g.R.Intn(2) == 0 {
			ms = -ms / 2
		}
		v.SetInt(ms * int64(time.Millisecond))
		return
	case tRecords:
		v.Set(reflect.ValueOf(g.records()))
		return
	case tMsgSet:
		v.Set(reflect.ValueOf(*g.msgSet(1)))
		return
	case tBatch:
		v.Set(reflect.ValueOf(*g.batch()))
		return
	case tMessage:
		v.Set(reflect.ValueOf(*g.message(1)))
		return
	case tRecord:
		v.Set(reflect.ValueOf(*g.record()))
		return
	case tBroker:
		// a Broker on the wire: id, host, port (kept as "host:port"), rack
		b := settable(v).Addr().Interface().(*Broker)
		b.id = int32(g.int64v(32))
		hosts := []string{"localhost", "kafka-1.example.com", "10.0.0.7", "::1", "fe80::1", "h"}
		host := hosts[g.R.Intn(len(hosts))]
		if g.Shape == 1 || g.Shape == 2 {
			host = ""
		}
		port := g.int64v(32)
		if g.Shape == 0 && g.R.Intn(2) == 0 {
			port = int64(g.R.Intn(65536))
		}
		if host == "" && port == 0 {
			port = 9092 // ":0" is the decoder's own "no coordinator" sentinel
		}
		b.addr = joinHostPort(host, port)
		if g.Shape != 1 && g.R.Intn(2) == 0 {
			r := g.str()
			b.rack = &r
		}
		return
	}
	switch v.Kind() {
	case reflect.Bool:
		v.SetBool(g.Shape != 1 && g.R.Intn(2) == 0)
	case reflect.Int8:
		v.SetInt(g.int64v(8))
	case reflect.Int16:
		v.SetInt(g.int64v(16))
	case reflect.Int32:
		v.SetInt(g.int64v(32))
	case reflect.Int64:
		v.SetInt(g.int64v(64))
	case reflect.Int:
		// Go `int` fields are enums / small numbers that are narrowed when written
		if t.PkgPath() != "" {
			v.SetInt(int64(g.R.Intn(13)))
		} else {
			v.SetInt(g.int64v(16))
		}
	case reflect.Uint8:
		v.SetUint(uint64(g.R.Intn(256)))
	case reflect.Uint16, reflect.Uint32, reflect.Uint64, reflect.Uint:
		v.SetUint(uint64(g.R.Intn(1000)))
	case reflect.String:
		v.SetString(g.str())
	case reflect.Ptr:
		if t.Elem().Kind() == reflect.String {
			if g.Shape == 1 || (g.Shape == 0 && g.R.Intn(3) == 0) {
				v.Set(reflect.Zero(t))
				return
			}
			s := g.str()
			v.Set(reflect.ValueOf(&s))
			return
		}
		if depth > 6 {
			v.Set(reflect.Zero(t))
			return
		}
		p := reflect.New(t.Elem())
		g.fill(p.Elem(), depth+1, false)
		v.Set(p)
	case reflect.Slice:
		if t.Elem().Kind() == reflect.Uint8 {
			v.SetBytes(g.bytesv())
			return
		}
		n := g.clen()
		if n < 0 || depth > 6 {
			v.Set(reflect.Zero(t))
			return
		}
		s := reflect.MakeSlice(t, n, n)
		for i := 0; i < n; i++ {
			g.fill(s.Index(i), depth+1, false)
		}
		v.Set(s)
	case reflect.Map:
		n := g.clen()
		if n < 0 || depth > 6 {
			v.Set(reflect.Zero(t))
			return
		}
		if g.SmallMaps && n > 1 {
			n = 1
		}
		m := reflect.MakeMapWithSize(t, n)
		for i := 0; i < n; i++ {
			k := reflect.New(t.Key()).Elem()
			g.fill(k, depth+1, false)
			e := reflect.New(t.Elem()).Elem()
			g.fill(e, depth+1, false)
			m.SetMapIndex(k, e)
		}
		v.Set(m)
	case reflect.Array:
		for i := 0; i < v.Len(); i++ {
			g.fill(v.Index(i), depth+1, false)
		}
	case reflect.Struct:
		for i := 0; i < t.NumField(); i++ {
			f := t.Field(i)
			fv := v.Field(i)
			if f.PkgPath != "" {
				// unexported: only the data-carrying collections of bodies (maps / slices), never caches or state
				if !(fv.Kind() == reflect.Map || (fv.Kind() == reflect.Slice && fv.Type().Elem().Kind() != reflect.Uint8)) {
					continue
				}
				fv = settable(fv)
			}
			g.fill(fv, depth+1, false)
		}
	case reflect.Interface:
		// left nil
	}
}

// ------------------------------------------------------------------------------ records and message sets

var verifCodecs = []CompressionCodec{CompressionNone, CompressionGZIP, CompressionSnappy, CompressionLZ4, CompressionZSTD}

func (g *VerifGen) codec() CompressionCodec {
	if g.R.Intn(2) == 0 {
		return CompressionNone
	}
	return verifCodecs[g.R.Intn(len(verifCodecs))]
}

func (g *VerifGen) level(c CompressionCodec) int {
	if g.Levels && c == CompressionGZIP && g.R.Intn(2) == 0 {
		return 1 + g.R.Intn(9)
	}
	return CompressionLevelDefault
}

func (g *VerifGen) record() *Record {
	r := &Record{
		Attributes:  int8(g.int64v(8)),
		OffsetDelta: g.int64v(64),
		Key:         g.bytesv(),
		Value:       g.bytesv(),
	}
	// the delta is carried in milliseconds; time.Duration holds ±2^63 ns
	ms := g.int64v(42)
	r.TimestampDelta = time.Duration(ms) * time.Millisecond
	n := g.clen()
	if n >= 0 {
		r.Headers = make([]*RecordHeader, n)
		for i := range r.Headers {
			r.Headers[i] = &RecordHeader{Key: g.bytesv(), Value: g.bytesv()}
		}
	}
	return r
}

func (g *VerifGen) batch() *RecordBatch {
	c := g.codec()
	b := &RecordBatch{
		FirstOffset:          g.int64v(64),
		PartitionLeaderEpoch: int32(g.int64v(32)),
		Version:              2,
		Codec:                c,
		CompressionLevel:     g.level(c),
		Control:              g.R.Intn(4) == 0,
		LogAppendTime:        g.R.Intn(4) == 0,
		IsTransactional:      g.R.Intn(4) == 0,
		LastOffsetDelta:      int32(g.int64v(32)),
		FirstTimestamp:       g.timev(),
		MaxTimestamp:         g.timev(),
		ProducerID:           g.int64v(64),
		ProducerEpoch:        int16(g.int64v(16)),
		FirstSequence:        int32(g.int64v(32)),
	}
	n := g.clen()
	if n >= 0 {
		b.Records = make([]*Record, n)
		for i := range b.Records {
			b.Records[i] = g.record()
		}
	}
	return b
}

// message of a legacy message set; depth > 0 allows a compressed wrapper around an inner set
func (g *VerifGen) message(depth int) *Message {
	m := &Message{Version: int8(g.R.Intn(2)), Key: g.bytesv(), LogAppendTime: g.R.Intn(4) == 0}
	if m.Version == 1 {
		m.Timestamp = g.timev()
	}
	if depth > 0 && g.R.Intn(3) == 0 {
		// wrapper: the value is an encoded inner set
		c := verifCodecs[1+g.R.Intn(4)]
		m.Codec = c
		m.CompressionLevel = g.level(c)
		inner := g.msgSet(depth - 1)
		raw, err := encode(inner, nil)
		if err == nil && len(inner.Messages) > 0 {
			if comp, cerr := compress(c, m.CompressionLevel, raw); cerr == nil {
				m.Value = raw
				g.Pairs = append(g.Pairs, [2][]byte{raw, comp})
				return m
			}
		}
		m.Codec = CompressionNone
		m.CompressionLevel = 0
	}
	m.Value = g.bytesv()
	return m
}

func (g *VerifGen) msgSet(depth int) *MessageSet {
	ms := &MessageSet{}
	n := g.clen()
	for i := 0; i < n; i++ {
		off := g.int64v(64)
		ms.Messages = append(ms.Messages, &MessageBlock{Offset: off, Msg: g.message(depth)})
	}
	return ms
}

func (g *VerifGen) records() Records {
	switch g.R.Intn(12) {
	case 0:
		return Records{}
	case 1, 2:
		return newLegacyRecords(g.msgSet(1))
	default:
		return newDefaultRecords(g.batch())
	}
}

// ------------------------------------------------------------------------------ comparison

// verifEqual compares two decoded values: exported state only for the record types whose unexported fields
// are caches of the encoder; everything else field by field.  Returns the path of the first difference.
func verifEqual(a, b reflect.Value, path string) string {
	if a.Type() != b.Type() {
		return path + ": type"
	}
	t := a.Type()
	if t == tTime {
		ta := a.Interface().(time.Time)
		tb := b.Interface().(time.Time)
		if !ta.Equal(tb) {
			return path + ": time"
		}
		return ""
	}
	switch a.Kind() {
	case reflect.Ptr, reflect.Interface:
		if a.IsNil() != b.IsNil() {
			return path + ": nil-vs-non-nil"
		}
		if a.IsNil() {
			return ""
		}
		return verifEqual(a.Elem(), b.Elem(), path)
	case reflect.Struct:
		cacheType := t == tBatch || t == tMessage || t == tRecord
		for i := 0; i < t.NumField(); i++ {
			f := t.Field(i)
			if f.PkgPath != "" && cacheType {
				continue
			}
			if t == tBroker && f.Name != "id" && f.Name != "addr" && f.Name != "rack" {
				continue
			}
			fa, fb := a.Field(i), b.Field(i)
			if f.PkgPath != "" {
				if !fa.CanAddr() {
					continue
				}
				fa, fb = settable(fa), settable(fb)
			}
			if d := verifEqual(fa, fb, path+"."+f.Name); d != "" {
				return d
			}
		}
		return ""
	case reflect.Slice:
		if a.IsNil() != b.IsNil() {
			return path + ": nil-vs-empty"
		}
		if a.Len() != b.Len() {
			return path + ": len"
		}
		for i := 0; i < a.Len(); i++ {
			if d := verifEqual(a.Index(i), b.Index(i), fmt.Sprintf("%s[%d]", path, i)); d != "" {
				return d
			}
		}
		return ""
	case reflect.Array:
		for i := 0; i < a.Len(); i++ {
			if d := verifEqual(a.Index(i), b.Index(i), fmt.Sprintf("%s[%d]", path, i)); d != "" {
				return d
			}
		}
		return ""
	case reflect.Map:
		if a.IsNil() != b.IsNil() {
			return path + ": nil-vs-empty-map"
		}
		if a.Len() != b.Len() {
			return path + ": maplen"
		}
		for _, k := range a.MapKeys() {
			eb := b.MapIndex(k)
			if !eb.IsValid() {
				return path + ": key"
			}
			// map elements are not addressable: copy
			ca := reflect.New(a.Type().Elem()).Elem()
			ca.Set(a.MapIndex(k))
			cb := reflect.New(a.Type().Elem()).Elem()
			cb.Set(eb)
			if d := verifEqual(ca, cb, fmt.Sprintf("%s[%v]", path, k)); d != "" {
				return d
			}
		}
		return ""
	case reflect.Bool:
		if a.Bool() != b.Bool() {
			return path
		}
	case reflect.Int, reflect.Int8, reflect.Int16, reflect.Int32, reflect.Int64:
		if a.Int() != b.Int() {
			return path
		}
	case reflect.Uint, reflect.Uint8, reflect.Uint16, reflect.Uint32, reflect.Uint64:
		if a.Uint() != b.Uint() {
			return path
		}
	case reflect.String:
		if a.String() != b.String() {
			return path
		}
	case reflect.Float32, reflect.Float64:
		if a.Float() != b.Float() {
			return path
		}
	}
	return ""
}

// VerifEqual compares two bodies (pointers to the same type).
func VerifEqual(a, b interface{}) string {
	return verifEqual(reflect.ValueOf(a), reflect.ValueOf(b), "")
}

// VerifMaxMapLen is the size of the largest map inside the value (bytes are order-determined iff ≤ 1).
func VerifMaxMapLen(x interface{}) int {
	m := 0
	var walk func(v reflect.Value, d int)
	walk = func(v reflect.Value, d int) {
		if d > 12 {
			return
		}
		switch v.Kind() {
		case reflect.Ptr, reflect.Interface:
			if !v.IsNil() {
				walk(v.Elem(), d+1)
			}
		case reflect.Struct:
			for i := 0; i < v.NumField(); i++ {
				walk(v.Field(i), d+1)
			}
		case reflect.Slice, reflect.Array:
			if v.Kind() == reflect.Slice && v.Type().Elem().Kind() == reflect.Uint8 {
				return
			}
			for i := 0; i < v.Len(); i++ {
				walk(v.Index(i), d+1)
			}
		case reflect.Map:
			if v.Len() > m {
				m = v.Len()
			}
			it := v.MapRange()
			for it.Next() {
				walk(it.Value(), d+1)
			}
		}
	}
	walk(reflect.ValueOf(x), 0)
	return m
}

// ------------------------------------------------------------------------------ the steps on the real code

// VerifEncodeBody: all views of encoding a body (or any encoder).
func VerifEncodeBody(body interface{}) VerifEnc {
	e, ok := body.(encoder)
	if !ok {
		return VerifEnc{Err: fmt.Errorf("not an encoder: %T", body)}
	}
	return verifEncode(e)
}

// VerifDecodeBody decodes into a fresh body with the REAL versionedDecode / decode (as shipped).
func VerifDecodeBody(buf []byte, fresh interface{}, version int16) error {
	if buf == nil {
		buf = []byte{}
	}
	switch d := fresh.(type) {
	case versionedDecoder:
		return versionedDecode(buf, d, version)
	case decoder:
		return decode(buf, d)
	}
	return fmt.Errorf("not a decoder: %T", fresh)
}

// VerifDecodeBodyTraced decodes with the recording decoder around the real one.
func VerifDecodeBodyTraced(buf []byte, fresh interface{}, version int16) VerifDec {
	if buf == nil {
		buf = []byte{}
	}
	switch d := fresh.(type) {
	case versionedDecoder:
		return verifDecodeTraced(buf, func(pd packetDecoder) error { return d.decode(pd, version) })
	case decoder:
		return verifDecodeTraced(buf, func(pd packetDecoder) error { return d.decode(pd) })
	}
	return VerifDec{Err: fmt.Errorf("not a decoder: %T", fresh)}
}

// VerifSortedToks: the call sequence as a multiset (for bodies whose maps make the order vary).
func VerifSortedToks(toks string) string {
	parts := strings.Split(toks, " ")
	sort.Strings(parts)
	return strings.Join(parts, " ")
}

// VerifRequestFrame encodes a body inside the request frame (length prefix, header) and decodes it back with
// decodeRequest-like steps; returns the re-decoded body and header fields.
func VerifRequestFrame(body interface{}, correlationID int32, clientID string) (VerifEnc, interface{}, int32, string, error) {
	pb, ok := body.(protocolBody)
	if !ok {
		return VerifEnc{}, nil, 0, "", fmt.Errorf("not a protocolBody")
	}
	req := &request{correlationID: correlationID, clientID: clientID, body: pb}
	enc := verifEncode(req)
	if enc.Err != nil {
		return enc, nil, 0, "", nil
	}
	if len(enc.Direct) < 4 {
		return enc, nil, 0, "", fmt.Errorf("short frame")
	}
	back := &request{}
	err := decode(enc.Direct[4:], back)
	if err != nil {
		return enc, nil, 0, "", err
	}
	return enc, back.body, back.correlationID, back.clientID, nil
}

// VerifIsProtocolBody reports whether the value is a request body (has key/version/header).
func VerifIsRequest(body interface{}) bool {
	pb, ok := body.(protocolBody)
	if !ok {
		return false
	}
	return allocateBody(pb.key(), pb.version()) != nil && reflect.TypeOf(allocateBody(pb.key(), pb.version())) == reflect.TypeOf(body)
}

// VerifNormalizeLevels sets the compression level of every batch / message inside the value to the default:
// the level is not carried by the wire format, a decoded value has the zero level (for gzip: no compression).
func VerifNormalizeLevels(x interface{}) {
	var walk func(v reflect.Value, d int)
	walk = func(v reflect.Value, d int) {
		if d > 16 {
			return
		}
		switch v.Kind() {
		case reflect.Ptr, reflect.Interface:
			if !v.IsNil() {
				walk(v.Elem(), d+1)
			}
		case reflect.Struct:
			if v.Type() == tBatch || v.Type() == tMessage {
				if f := v.FieldByName("CompressionLevel"); f.CanSet() {
					f.SetInt(int64(CompressionLevelDefault))
				}
			}
			for i := 0; i < v.NumField(); i++ {
				f := v.Field(i)
				if v.Type().Field(i).PkgPath != "" {
					if !f.CanAddr() {
						continue
					}
					f = settable(f)
				}
				walk(f, d+1)
			}
		case reflect.Slice, reflect.Array:
			if v.Kind() == reflect.Slice && v.Type().Elem().Kind() == reflect.Uint8 {
				return
			}
			for i := 0; i < v.Len(); i++ {
				walk(v.Index(i), d+1)
			}
		case reflect.Map:
			for _, k := range v.MapKeys() {
				e := v.MapIndex(k)
				if e.Kind() == reflect.Ptr || e.Kind() == reflect.Interface {
					walk(e, d+1)
				} else if e.Kind() == reflect.Struct || e.Kind() == reflect.Map || e.Kind() == reflect.Slice {
					c := reflect.New(e.Type()).Elem()
					c.Set(e)
					walk(c, d+1)
					v.SetMapIndex(k, c)
				}
			}
		}
	}
	walk(reflect.ValueOf(x), 0)
}

// VerifTags names the corner shapes inside a generated value that are known to matter for decoding:
//   empty-records   a ProduceRequest partition whose record set encodes to fewer than 17 bytes
//   snappy-short    a snappy batch / wrapper whose compressed payload is shorter than 8 bytes
//   fetch-empty-batch  a record batch without records inside a FetchResponse
func VerifTags(x interface{}) []string {
	tags := map[string]bool{}
	_, isProduce := x.(*ProduceRequest)
	var walk func(v reflect.Value, d int)
	walk = func(v reflect.Value, d int) {
		if d > 16 {
			return
		}
		switch v.Kind() {
		case reflect.Ptr, reflect.Interface:
			if !v.IsNil() {
				walk(v.Elem(), d+1)
			}
		case reflect.Struct:
			switch v.Type() {
			case tRecords:
				if isProduce {
					r := v.Interface().(Records)
					if b, err := encode(&r, nil); err == nil && len(b) < 17 {
						tags["empty-records"] = true
					}
				}
			case tBatch:
				b := v.Interface().(RecordBatch)
				if len(b.Records) == 0 {
					if _, isFetch := x.(*FetchResponse); isFetch {
						tags["fetch-empty-batch"] = true
					}
				}
				if b.Codec == CompressionSnappy {
					raw, _ := encode(recordsArray(b.Records), nil)
					if c, err := compress(b.Codec, b.CompressionLevel, raw); err == nil && len(c) < 8 {
						tags["snappy-short"] = true
					}
				}
			case tMessage:
				m := v.Interface().(Message)
				if m.Codec == CompressionSnappy && m.Value != nil {
					if c, err := compress(m.Codec, m.CompressionLevel, m.Value); err == nil && len(c) < 8 {
						tags["snappy-short"] = true
					}
				}
			}
			for i := 0; i < v.NumField(); i++ {
				f := v.Field(i)
				if v.Type().Field(i).PkgPath != "" {
					if !f.CanAddr() {
						continue
					}
					f = settable(f)
				}
				walk(f, d+1)
			}
		case reflect.Slice, reflect.Array:
			if v.Kind() == reflect.Slice && v.Type().Elem().Kind() == reflect.Uint8 {
				return
			}
			for i := 0; i < v.Len(); i++ {
				walk(v.Index(i), d+1)
			}
		case reflect.Map:
			for _, k := range v.MapKeys() {
				e := v.MapIndex(k)
				c := reflect.New(e.Type()).Elem()
				c.Set(e)
				walk(c, d+1)
			}
		}
	}
	walk(reflect.ValueOf(x), 0)
	out := make([]string, 0, len(tags))
	for t := range tags {
		out = append(out, t)
	}
	sort.Strings(out)
	return out
}

// VerifVersionOf: the body's own idea of its version (version() of protocol bodies), ok=false for other types.
func VerifVersionOf(x interface{}) (int16, bool) {
	if pb, ok := x.(interface{ version() int16 }); ok {
		return pb.version(), true
	}
	return 0, false
}
