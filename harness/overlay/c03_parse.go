//go:build verif
// +build verif

package sarama

import (
	"errors"
	"time"
)

// VerifMsg is the canonical view of a delivered ConsumerMessage.
type VerifMsg struct {
	Offset  int64
	Key     []byte
	Value   []byte
	Headers [][2][]byte
	TsMilli int64 // -1 = zero time
}

// VerifParseResult is what one call of the real parseResponse did.
type VerifParseResult struct {
	Msgs      []VerifMsg
	Verdict   string   // ok | incomplete | kerr <n> | decode-error <text> | other <text>
	Reported  []string // errors handed to the user through sendError during the call
	Offset    int64
	FetchSize int32
}

// VerifEncode runs the real encoder on a FetchResponse.
func VerifEncode(r *FetchResponse) ([]byte, error) { return encode(r, nil) }

// VerifEncodeMsgSet runs the real encoder on a legacy message set (payload of a compressed wrapper).
func VerifEncodeMsgSet(s *MessageSet) ([]byte, error) { return encode(s, nil) }

// VerifFetchVersion is the FetchRequest version brokerConsumer.fetchNewMessages selects for a Kafka version
// (same chain of IsAtLeast tests; the end-to-end stream exercises the original).
func VerifFetchVersion(v KafkaVersion) int16 {
	var ver int16
	if v.IsAtLeast(V0_9_0_0) {
		ver = 1
	}
	if v.IsAtLeast(V0_10_0_0) {
		ver = 2
	}
	if v.IsAtLeast(V0_10_1_0) {
		ver = 3
	}
	if v.IsAtLeast(V0_11_0_0) {
		ver = 4
	}
	if v.IsAtLeast(V1_1_0_0) {
		ver = 7
	}
	if v.IsAtLeast(V2_1_0_0) {
		ver = 10
	}
	if v.IsAtLeast(V2_3_0_0) {
		ver = 11
	}
	return ver
}

func verifTs(t time.Time) int64 {
	if t.IsZero() {
		return -1
	}
	return t.UnixNano() / int64(time.Millisecond)
}

func verifErrName(err error) string {
	if err == nil {
		return "ok"
	}
	if errors.Is(err, ErrIncompleteResponse) {
		return "incomplete"
	}
	if errors.Is(err, ErrMessageTooLarge) {
		return "message-too-large"
	}
	var ke KError
	if errors.As(err, &ke) {
		return "kerr " + itoa64(int64(ke))
	}
	return "other " + err.Error()
}

func itoa64(c int64) string {
	if c == 0 {
		return "0"
	}
	neg := c < 0
	if neg {
		c = -c
	}
	s := ""
	for c > 0 {
		s = string(rune('0'+c%10)) + s
		c /= 10
	}
	if neg {
		s = "-" + s
	}
	return s
}

// VerifChild is a partitionConsumer without goroutines or network, for driving parseResponse directly.
type VerifChild struct{ c *partitionConsumer }

func VerifNewChild(conf *Config, offset int64, fetchSize int32) *VerifChild {
	conf.Consumer.Return.Errors = true
	c := &consumer{conf: conf}
	child := &partitionConsumer{
		consumer:  c,
		conf:      conf,
		topic:     "t",
		partition: 0,
		messages:  make(chan *ConsumerMessage, 1),
		errors:    make(chan *ConsumerError, 64),
		feeder:    make(chan *FetchResponse, 1),
		trigger:   make(chan none, 1),
		dying:     make(chan none),
		fetchSize: fetchSize,
		offset:    offset,
		broker:    &brokerConsumer{broker: &Broker{id: 1}},
	}
	return &VerifChild{c: child}
}

func (v *VerifChild) Offset() int64    { return v.c.offset }
func (v *VerifChild) FetchSize() int32 { return v.c.fetchSize }

// Parse decodes raw with the real decoder (FetchResponse, given version) and hands the result to the real
// parseResponse of the child.
func (v *VerifChild) Parse(raw []byte, version int16) VerifParseResult {
	res := VerifParseResult{}
	resp := &FetchResponse{}
	if err := versionedDecode(raw, resp, version); err != nil {
		res.Verdict = "decode-error " + err.Error()
		res.Offset, res.FetchSize = v.c.offset, v.c.fetchSize
		return res
	}
	msgs, err := v.c.parseResponse(resp)
	res.Verdict = verifErrName(err)
	for _, m := range msgs {
		vm := VerifMsg{Offset: m.Offset, Key: m.Key, Value: m.Value, TsMilli: verifTs(m.Timestamp)}
		for _, h := range m.Headers {
			vm.Headers = append(vm.Headers, [2][]byte{h.Key, h.Value})
		}
		res.Msgs = append(res.Msgs, vm)
	}
drain:
	for {
		select {
		case e := <-v.c.errors:
			res.Reported = append(res.Reported, verifErrName(e.Err))
		default:
			break drain
		}
	}
	res.Offset, res.FetchSize = v.c.offset, v.c.fetchSize
	return res
}

// VerifChooseStart runs the real chooseStartingOffset against scripted broker answers.
type verifOffsetClient struct {
	Client
	newest, oldest int64
	errN, errO     error
}

func (c *verifOffsetClient) GetOffset(topic string, partition int32, t int64) (int64, error) {
	if t == OffsetNewest {
		return c.newest, c.errN
	}
	return c.oldest, c.errO
}

// VerifChooseStart returns (chosen offset, "ok" | error name).
func VerifChooseStart(offset, newest, oldest int64) (int64, string) {
	child := &partitionConsumer{
		consumer: &consumer{client: &verifOffsetClient{newest: newest, oldest: oldest}},
		topic:    "t",
		offset:   -99,
	}
	err := child.chooseStartingOffset(offset)
	return child.offset, verifErrName(err)
}
