//go:build verif
// +build verif

package sarama

import (
	"errors"
	"sort"
)

// Helpers of the C06 harness: read-only views of the offset manager's unexported state, a scripted
// coordinator on top of MockBroker, and thin entry points to the four functions flushToBroker is made of
// (for the fine-grained stream that places application calls between request construction and response).

// VerifC06PomState reads the fields of a partition offset manager under its lock.
func VerifC06PomState(p PartitionOffsetManager) (offset int64, metadata string, dirty, done bool) {
	pom := p.(*partitionOffsetManager)
	pom.lock.Lock()
	defer pom.lock.Unlock()
	return pom.offset, pom.metadata, pom.dirty, pom.done
}

// VerifC06Managed: is the partition registered in om.poms.
func VerifC06Managed(m OffsetManager, topic string, partition int32) bool {
	return m.(*offsetManager).findPOM(topic, partition) != nil
}

// VerifC06IsLive: is exactly this pom object registered in om.poms.
func VerifC06IsLive(m OffsetManager, p PartitionOffsetManager) bool {
	pom := p.(*partitionOffsetManager)
	return m.(*offsetManager).findPOM(pom.topic, pom.partition) == pom
}

// VerifC06HasBroker: is a coordinator connection cached.
func VerifC06HasBroker(m OffsetManager) bool {
	om := m.(*offsetManager)
	om.brokerLock.RLock()
	defer om.brokerLock.RUnlock()
	return om.broker != nil
}

// VerifC06Block is one block of an OffsetCommitRequest.
type VerifC06Block struct {
	Topic     string
	Partition int32
	Offset    int64
	Timestamp int64
	Metadata  string
}

// VerifC06Blocks lists the blocks of a commit request (sorted by topic, partition).
func VerifC06Blocks(r *OffsetCommitRequest) []VerifC06Block {
	var out []VerifC06Block
	for t, ps := range r.blocks {
		for p, b := range ps {
			out = append(out, VerifC06Block{t, p, b.offset, b.timestamp, b.metadata})
		}
	}
	sort.Slice(out, func(i, j int) bool {
		if out[i].Topic != out[j].Topic {
			return out[i].Topic < out[j].Topic
		}
		return out[i].Partition < out[j].Partition
	})
	return out
}

// VerifC06FetchPartitions lists the partitions an OffsetFetchRequest asks for.
func VerifC06FetchPartitions(r *OffsetFetchRequest) map[string][]int32 { return r.partitions }

type verifC06BadEncoder struct{}

func (verifC06BadEncoder) encode(pe packetEncoder) error { return errors.New("verif: drop connection") }
func (verifC06BadEncoder) headerVersion() int16            { return 0 }

// VerifC06GarbageFetch is returned by onFetch to answer with bytes that do not decode as an OffsetFetchResponse
// (FetchOffset returns an error on the client side; the connection stays usable).
var VerifC06GarbageFetch = &OffsetFetchResponse{Version: -77}

type verifC06Garbage struct{}

func (verifC06Garbage) encode(pe packetEncoder) error { pe.putInt8(1); return nil }
func (verifC06Garbage) headerVersion() int16            { return 0 }

// VerifC06NoAnswer is returned by onCommit to make the broker swallow the request (the client's read times out).
var VerifC06NoAnswer = &OffsetCommitResponse{Version: -77}

// VerifC06Install makes the mock broker a scripted group coordinator. onCommit returning nil makes the
// broker drop the connection without answering (CommitOffset fails on the client side); returning
// VerifC06NoAnswer makes it keep the connection and never answer. Metadata and FindCoordinator requests
// (sent by a real sarama client) are answered with this broker as the only broker and the coordinator.
func VerifC06Install(mb *MockBroker, t TestReporter, onCommit func(*OffsetCommitRequest) *OffsetCommitResponse,
	onFetch func(*OffsetFetchRequest) *OffsetFetchResponse) {
	meta := NewMockMetadataResponse(t).SetBroker(mb.Addr(), mb.BrokerID())
	mb.setHandler(func(req *request) encoderWithHeader {
		switch body := req.body.(type) {
		case *OffsetCommitRequest:
			r := onCommit(body)
			if r == VerifC06NoAnswer {
				return nil
			}
			if r != nil {
				return r
			}
			return verifC06BadEncoder{}
		case *OffsetFetchRequest:
			r := onFetch(body)
			if r == VerifC06GarbageFetch {
				return verifC06Garbage{}
			}
			return r
		case *MetadataRequest:
			return meta.For(body)
		case *FindCoordinatorRequest:
			return NewMockFindCoordinatorResponse(t).SetCoordinator(CoordinatorGroup, body.CoordinatorKey, mb).For(body)
		}
		return nil
	})
}

// VerifC06ResetHistory drops the request history the mock broker accumulates.
func VerifC06ResetHistory(mb *MockBroker) {
	mb.lock.Lock()
	mb.history = nil
	mb.lock.Unlock()
}

// --- fine-grained stream: the four steps of flushToBroker / Commit, one call each

// VerifC06Construct = om.constructRequest()
func VerifC06Construct(m OffsetManager) *OffsetCommitRequest {
	return m.(*offsetManager).constructRequest()
}

// VerifC06Coordinator = om.coordinator(); on failure the error goes to om.handleError as in flushToBroker.
func VerifC06Coordinator(m OffsetManager) bool {
	om := m.(*offsetManager)
	if _, err := om.coordinator(); err != nil {
		om.handleError(err)
		return false
	}
	return true
}

// VerifC06HandleResponse = om.handleResponse(om.broker, req, resp)
func VerifC06HandleResponse(m OffsetManager, req *OffsetCommitRequest, resp *OffsetCommitResponse) {
	om := m.(*offsetManager)
	om.brokerLock.RLock()
	b := om.broker
	om.brokerLock.RUnlock()
	om.handleResponse(b, req, resp)
}

// VerifC06RequestFailed = the error branch of flushToBroker after CommitOffset failed (without closing the socket)
func VerifC06RequestFailed(m OffsetManager, err error) {
	om := m.(*offsetManager)
	om.brokerLock.RLock()
	b := om.broker
	om.brokerLock.RUnlock()
	om.handleError(err)
	om.releaseCoordinator(b)
}

// VerifC06ReleasePOMs = om.releasePOMs(force)
func VerifC06ReleasePOMs(m OffsetManager, force bool) int {
	return m.(*offsetManager).releasePOMs(force)
}
