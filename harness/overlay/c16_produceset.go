//go:build verif
// +build verif

package sarama

import (
	"bytes"
	"errors"
	"sort"
	"time"
)

// Access to the unexported produce-set / broker-producer code for the C16 and C04 harnesses.
// Nothing here re-implements producer logic: every helper calls the real function.

// VerifStub is an asyncProducer that is not connected to anything: configuration, transaction manager and
// buffered result channels only.
type VerifStub struct {
	p *asyncProducer
}

var errVerifNoCluster = errors.New("verif: no cluster behind this stub")

type verifC16Client struct{ Client }

func (c *verifC16Client) Partitions(topic string) ([]int32, error) { return nil, errVerifNoCluster }
func (c *verifC16Client) WritablePartitions(topic string) ([]int32, error) {
	return nil, errVerifNoCluster
}
func (c *verifC16Client) RefreshMetadata(topics ...string) error { return nil }
func (c *verifC16Client) Leader(topic string, p int32) (*Broker, error) {
	return nil, errVerifNoCluster
}

// VerifNewStub builds the stub. pid < 0 means "no producer id" (non-idempotent producer).
func VerifNewStub(conf *Config, pid int64, epoch int16, chanCap int) *VerifStub {
	p := &asyncProducer{
		client:     &verifC16Client{},
		conf:       conf,
		errors:     make(chan *ProducerError, chanCap),
		input:      make(chan *ProducerMessage),
		successes:  make(chan *ProducerMessage, chanCap),
		retries:    make(chan *ProducerMessage, chanCap),
		brokers:    make(map[*Broker]*brokerProducer),
		brokerRefs: make(map[*brokerProducer]int),
		txnmgr:     &transactionManager{producerID: pid, producerEpoch: epoch, sequenceNumbers: map[string]int32{}},
	}
	return &VerifStub{p: p}
}

// VerifSet wraps a real produceSet.
type VerifSet struct {
	ps *produceSet
}

func (s *VerifStub) NewSet() *VerifSet { return &VerifSet{ps: newProduceSet(s.p)} }

func (v *VerifSet) WouldOverflow(m *ProducerMessage) bool { return v.ps.wouldOverflow(m) }
func (v *VerifSet) Add(m *ProducerMessage) error          { return v.ps.add(m) }
func (v *VerifSet) ReadyToFlush() bool                    { return v.ps.readyToFlush() }
func (v *VerifSet) Empty() bool                           { return v.ps.empty() }
func (v *VerifSet) BufferBytes() int                      { return v.ps.bufferBytes }
func (v *VerifSet) BufferCount() int                      { return v.ps.bufferCount }
func (v *VerifSet) BuildRequest() *ProduceRequest         { return v.ps.buildRequest() }
func (v *VerifSet) DropPartition(topic string, partition int32) []*ProducerMessage {
	return v.ps.dropPartition(topic, partition)
}

// Part returns bufferBytes and the messages of one partition set.
func (v *VerifSet) Part(topic string, partition int32) (int, []*ProducerMessage, bool) {
	if v.ps.msgs[topic] == nil || v.ps.msgs[topic][partition] == nil {
		return 0, nil, false
	}
	set := v.ps.msgs[topic][partition]
	return set.bufferBytes, set.msgs, true
}

// VerifTP names a topic-partition.
type VerifTP struct {
	Topic     string
	Partition int32
}

// Parts lists the partition sets in a canonical order.
func (v *VerifSet) Parts() []VerifTP {
	var out []VerifTP
	v.ps.eachPartition(func(topic string, partition int32, pSet *partitionSet) {
		out = append(out, VerifTP{topic, partition})
	})
	sort.Slice(out, func(i, j int) bool {
		if out[i].Topic != out[j].Topic {
			return out[i].Topic < out[j].Topic
		}
		return out[i].Partition < out[j].Partition
	})
	return out
}

func VerifByteSize(m *ProducerMessage, version int) int { return m.byteSize(version) }
func VerifSetSequence(m *ProducerMessage, seq int32)    { m.sequenceNumber = seq; m.hasSequence = false }

// VerifConsts returns producerMessageOverhead, maximumRecordOverhead, recordBatchOverhead.
func VerifConsts() (int, int, int) {
	return producerMessageOverhead, maximumRecordOverhead, recordBatchOverhead
}

// VerifEncodeRequest is what Broker.send does with a request body: the real `encode` of the framed request
// (including its MaxRequestSize check).
func VerifEncodeRequest(req *ProduceRequest, clientID string, correlationID int32) ([]byte, error) {
	return encode(&request{correlationID: correlationID, clientID: clientID, body: req}, nil)
}

// VerifDecodeRequest is what a broker (sarama's MockBroker) does with the bytes: the real decodeRequest.
func VerifDecodeRequest(b []byte) (*ProduceRequest, string, error) {
	r, _, err := decodeRequest(bytes.NewReader(b))
	if err != nil {
		return nil, "", err
	}
	pr, ok := r.body.(*ProduceRequest)
	if !ok {
		return nil, "", errors.New("verif: not a produce request")
	}
	return pr, r.clientID, nil
}

// VerifRecords returns the records of one partition of a (decoded) request.
func VerifRecords(req *ProduceRequest, topic string, partition int32) (Records, bool) {
	if req.records == nil || req.records[topic] == nil {
		return Records{}, false
	}
	r, ok := req.records[topic][partition]
	return r, ok
}

// VerifRequestParts lists the topic-partitions of a request in canonical order.
func VerifRequestParts(req *ProduceRequest) []VerifTP {
	var out []VerifTP
	for t, ps := range req.records {
		for p := range ps {
			out = append(out, VerifTP{t, p})
		}
	}
	sort.Slice(out, func(i, j int) bool {
		if out[i].Topic != out[j].Topic {
			return out[i].Topic < out[j].Topic
		}
		return out[i].Partition < out[j].Partition
	})
	return out
}

// VerifOutcome is what came out of the producer's result channels.
type VerifOutcome struct {
	Successes []*ProducerMessage
	Errors    []*ProducerError
	Retried   []*ProducerMessage
}

func (s *VerifStub) drain() VerifOutcome {
	var o VerifOutcome
	for {
		select {
		case m := <-s.p.successes:
			o.Successes = append(o.Successes, m)
		case e := <-s.p.errors:
			o.Errors = append(o.Errors, e)
		case m := <-s.p.retries:
			o.Retried = append(o.Retried, m)
		default:
			return o
		}
	}
}

// HandleSuccess runs the real brokerProducer.handleSuccess on `sent` with the given response (nil =
// RequiredAcks NoResponse) and returns what reached the Successes / Errors / retries channels.
func (s *VerifStub) HandleSuccess(sent *VerifSet, response *ProduceResponse) VerifOutcome {
	bp := &brokerProducer{
		parent:         s.p,
		broker:         &Broker{id: 1},
		buffer:         newProduceSet(s.p),
		currentRetries: make(map[string]map[int32]error),
	}
	s.p.inFlight.Add(sent.ps.bufferCount)
	bp.handleSuccess(sent.ps, response)
	return s.drain()
}

// Dispatch runs the real asyncProducer.dispatcher over the messages (first pass) and reports, per message,
// "tooLarge", "confErr" or "forward" (the message passed the checks and was handed to a topic producer, which
// fails it with the stub's no-cluster error or the circuit breaker's).
func (s *VerifStub) Dispatch(msgs []*ProducerMessage, timeout time.Duration) []string {
	go s.p.dispatcher()
	out := make([]string, len(msgs))
	idx := map[*ProducerMessage]int{}
	for i, m := range msgs {
		idx[m] = i
		out[i] = "lost"
	}
	got := 0
	deadline := time.After(timeout)
	take := func(e *ProducerError) {
		i, ok := idx[e.Msg]
		if !ok {
			return
		}
		got++
		var ce ConfigurationError
		switch {
		case errors.Is(e.Err, ErrMessageSizeTooLarge):
			out[i] = "tooLarge"
		case errors.As(e.Err, &ce):
			out[i] = "confErr"
		default:
			out[i] = "forward"
		}
	}
	for _, m := range msgs {
	send:
		for {
			select {
			case s.p.input <- m:
				break send
			case e := <-s.p.errors:
				take(e)
			case <-deadline:
				close(s.p.input)
				return out
			}
		}
	}
	for got < len(msgs) {
		select {
		case e := <-s.p.errors:
			take(e)
		case <-deadline:
			close(s.p.input)
			return out
		}
	}
	close(s.p.input)
	return out
}

// VerifBP is a real brokerProducer whose run loop executes with the harness in the place of the partition
// producers (input), of the bridge goroutine (output) and of the broker (responses).
type VerifBP struct {
	s    *VerifStub
	bp   *brokerProducer
	in   chan *ProducerMessage
	out  chan *produceSet
	resp chan *brokerProducerResponse
}

func (s *VerifStub) StartBP() *VerifBP {
	v := &VerifBP{s: s, in: make(chan *ProducerMessage), out: make(chan *produceSet), resp: make(chan *brokerProducerResponse)}
	v.bp = &brokerProducer{
		parent:         s.p,
		broker:         &Broker{id: 1},
		input:          v.in,
		output:         v.out,
		responses:      v.resp,
		stopchan:       make(chan struct{}),
		buffer:         newProduceSet(s.p),
		currentRetries: make(map[string]map[int32]error),
	}
	go v.bp.run()
	return v
}

// Send hands a message to the run loop; false if the loop did not take it within the timeout (it is then
// blocked in waitForSpace with nobody reading the output).
func (v *VerifBP) Send(m *ProducerMessage, timeout time.Duration) bool {
	if m != nil {
		v.s.p.inFlight.Add(1)
	}
	select {
	case v.in <- m:
		return true
	case <-time.After(timeout):
		if m != nil {
			v.s.p.inFlight.Done()
		}
		return false
	}
}

// SendOrTake offers the message and at the same time accepts a set from the output (the bridge becoming free):
// returns (taken set or nil, whether the message was accepted).
func (v *VerifBP) SendOrTake(m *ProducerMessage, timeout time.Duration) (*VerifSet, bool) {
	select {
	case v.in <- m:
		return nil, true
	case set := <-v.out:
		return &VerifSet{ps: set}, false
	case <-time.After(timeout):
		return nil, false
	}
}

func (v *VerifBP) AddInFlight(n int) { v.s.p.inFlight.Add(n) }

// Sync returns once every earlier iteration of the run loop has finished (a nil message is skipped by run).
func (v *VerifBP) Sync(timeout time.Duration) bool {
	return v.Send(nil, timeout) && v.Send(nil, timeout)
}

// Take receives a set from the run loop's output, or nil after the timeout.
func (v *VerifBP) Take(timeout time.Duration) *VerifSet {
	select {
	case set := <-v.out:
		return &VerifSet{ps: set}
	case <-time.After(timeout):
		return nil
	}
}

// Respond delivers a broker response for a set that was taken.
func (v *VerifBP) Respond(set *VerifSet, res *ProduceResponse, timeout time.Duration) bool {
	select {
	case v.resp <- &brokerProducerResponse{set: set.ps, res: res}:
		return true
	case <-time.After(timeout):
		return false
	}
}

// Peek reads the loop's state. Only meaningful right after Sync (the loop is then parked in its select).
func (v *VerifBP) Peek() (armed, fired, ready bool, count int) {
	return v.bp.timer != nil, v.bp.timerFired, v.bp.buffer.readyToFlush(), v.bp.buffer.bufferCount
}

func (v *VerifBP) Buffer() *VerifSet { return &VerifSet{ps: v.bp.buffer} }

func (v *VerifBP) Stop() { close(v.bp.stopchan) }

func (v *VerifBP) Drain() VerifOutcome { return v.s.drain() }
