//go:build verif
// +build verif

package sarama

import (
	"fmt"
	"sort"
	"strings"
	"time"
)

// VerifClient gives the C15 harness access to the unexported metadata cache of a real *client.
type VerifClient struct{ c *client }

// VerifNewBareClient builds a client exactly like NewClient does, minus the initial refresh, with the seed
// brokers in the given order (NewClient shuffles them) and without touching the network.
func VerifNewBareClient(conf *Config, seeds []string) (*VerifClient, error) {
	if err := conf.Validate(); err != nil {
		return nil, err
	}
	c := &client{
		conf:                    conf,
		closer:                  make(chan none),
		closed:                  make(chan none),
		brokers:                 make(map[int32]*Broker),
		metadata:                make(map[string]map[int32]*PartitionMetadata),
		metadataTopics:          make(map[string]none),
		cachedPartitionsResults: make(map[string][maxPartitionIndex][]int32),
		coordinators:            make(map[string]int32),
	}
	for _, a := range seeds {
		c.seedBrokers = append(c.seedBrokers, NewBroker(a))
	}
	go withRecover(c.backgroundMetadataUpdater)
	return &VerifClient{c}, nil
}

// VerifClientOf wraps a Client returned by NewClient.
func VerifClientOf(cl Client) *VerifClient {
	if c, ok := cl.(*client); ok {
		return &VerifClient{c}
	}
	return nil
}

func (v *VerifClient) Client() Client { return v.c }

// UpdateMetadata runs the real client.updateMetadata.
func (v *VerifClient) UpdateMetadata(resp *MetadataResponse, full bool) (bool, error) {
	return v.c.updateMetadata(resp, full)
}

// CachedPartitions runs the real cachedPartitions; isNil tells Go's nil from an empty list.
func (v *VerifClient) CachedPartitions(topic string, writable bool) (list []int32, isNil bool) {
	set := allPartitions
	if writable {
		set = writablePartitions
	}
	l := v.c.cachedPartitions(topic, set)
	return l, l == nil
}

func (v *VerifClient) CachedMetadata(topic string, p int32) *PartitionMetadata {
	return v.c.cachedMetadata(topic, p)
}

func (v *VerifClient) CachedLeader(topic string, p int32) (*Broker, error) {
	return v.c.cachedLeader(topic, p)
}

func (v *VerifClient) CachedController() *Broker { return v.c.cachedController() }

// TryRefresh runs the real tryRefreshMetadata without deadline.
func (v *VerifClient) TryRefresh(topics []string, attempts int) error {
	return v.c.tryRefreshMetadata(topics, attempts, time.Time{})
}

func (v *VerifClient) Any() *Broker { return v.c.any() }

// DeregisterSeedHead calls the real deregisterBroker with the head seed (false when there is none).
func (v *VerifClient) DeregisterSeedHead() bool {
	v.c.lock.RLock()
	var b *Broker
	if len(v.c.seedBrokers) > 0 {
		b = v.c.seedBrokers[0]
	}
	v.c.lock.RUnlock()
	if b == nil {
		return false
	}
	v.c.deregisterBroker(b)
	return true
}

// DeregisterKnown calls the real deregisterBroker with the registered broker of that id (or, when the id is not
// registered, with a fresh Broker object carrying it - which is what a stale handle looks like).
func (v *VerifClient) DeregisterKnown(id int32) {
	v.c.lock.RLock()
	b := v.c.brokers[id]
	v.c.lock.RUnlock()
	if b == nil {
		b = &Broker{id: id, addr: "h0:9092"}
	}
	v.c.deregisterBroker(b)
}

func (v *VerifClient) Resurrect() { v.c.resurrectDeadBrokers() }

func (v *VerifClient) RegisterBroker(id int32, addr string) {
	v.c.lock.Lock()
	defer v.c.lock.Unlock()
	v.c.registerBroker(&Broker{id: id, addr: addr})
}

func (v *VerifClient) DeregisterController() { v.c.deregisterController() }

// SeedOrder = deadSeeds ++ seedBrokers (addresses): the order the seeds were shuffled into.
func (v *VerifClient) SeedOrder() []string {
	v.c.lock.RLock()
	defer v.c.lock.RUnlock()
	var out []string
	for _, b := range v.c.deadSeeds {
		out = append(out, b.addr)
	}
	for _, b := range v.c.seedBrokers {
		out = append(out, b.addr)
	}
	return out
}

// VerifAddrNum maps the symbolic address "h<k>:<port>" to k (the model's address); -1 if it has another form.
func VerifAddrNum(addr string) int {
	if !strings.HasPrefix(addr, "h") {
		return -1
	}
	i := strings.Index(addr, ":")
	if i < 0 {
		return -1
	}
	n := 0
	for _, ch := range addr[1:i] {
		if ch < '0' || ch > '9' {
			return -1
		}
		n = n*10 + int(ch-'0')
	}
	return n
}

func verifInts(xs []int32, sep string) string {
	if len(xs) == 0 {
		return "-"
	}
	s := make([]string, len(xs))
	for i, x := range xs {
		s[i] = fmt.Sprint(x)
	}
	return strings.Join(s, sep)
}

// VerifShowPart is the canonical text of one partition's metadata.
func VerifShowPart(p *PartitionMetadata) string {
	return fmt.Sprintf("%d/%d/%s/%s/%s/%d", p.ID, p.Leader, verifInts(p.Replicas, "."), verifInts(p.Isr, "."),
		verifInts(p.OfflineReplicas, "."), int16(p.Err))
}

func verifAddrs(bs []*Broker) string {
	if len(bs) == 0 {
		return "-"
	}
	s := make([]string, len(bs))
	for i, b := range bs {
		s[i] = fmt.Sprint(VerifAddrNum(b.addr))
	}
	return strings.Join(s, ",")
}

// Dump renders the whole cache state canonically (everything that comes from a map is sorted), read in ONE
// critical section. Topic names are "t<k>" and rendered as k.
func (v *VerifClient) Dump() string {
	c := v.c
	c.lock.RLock()
	defer c.lock.RUnlock()
	var sb strings.Builder
	ids := make([]int, 0, len(c.brokers))
	for id := range c.brokers {
		ids = append(ids, int(id))
	}
	sort.Ints(ids)
	sb.WriteString("B[")
	for i, id := range ids {
		if i > 0 {
			sb.WriteString(",")
		}
		b := c.brokers[int32(id)]
		fmt.Fprintf(&sb, "%d:%d", b.id, VerifAddrNum(b.addr))
	}
	fmt.Fprintf(&sb, "] C%d M[", c.controllerID)
	tn := func(names []string) []int {
		out := make([]int, 0, len(names))
		for _, n := range names {
			k := -1
			fmt.Sscanf(n, "t%d", &k)
			out = append(out, k)
		}
		sort.Ints(out)
		return out
	}
	var names []string
	for n := range c.metadata {
		names = append(names, n)
	}
	for i, k := range tn(names) {
		if i > 0 {
			sb.WriteString(" ")
		}
		pm := c.metadata[fmt.Sprintf("t%d", k)]
		pids := make([]int, 0, len(pm))
		for pid := range pm {
			pids = append(pids, int(pid))
		}
		sort.Ints(pids)
		fmt.Fprintf(&sb, "%d{", k)
		for j, pid := range pids {
			if j > 0 {
				sb.WriteString(";")
			}
			sb.WriteString(VerifShowPart(pm[int32(pid)]))
		}
		sb.WriteString("}")
	}
	sb.WriteString("] L[")
	names = names[:0]
	for n := range c.cachedPartitionsResults {
		names = append(names, n)
	}
	for i, k := range tn(names) {
		if i > 0 {
			sb.WriteString(" ")
		}
		e := c.cachedPartitionsResults[fmt.Sprintf("t%d", k)]
		fmt.Fprintf(&sb, "%d{%s|%s}", k, verifInts(e[allPartitions], ","), verifInts(e[writablePartitions], ","))
	}
	sb.WriteString("] K[")
	names = names[:0]
	for n := range c.metadataTopics {
		names = append(names, n)
	}
	ks := tn(names)
	if len(ks) == 0 {
		sb.WriteString("-")
	}
	for i, k := range ks {
		if i > 0 {
			sb.WriteString(",")
		}
		fmt.Fprint(&sb, k)
	}
	fmt.Fprintf(&sb, "] S[%s] D[%s]", verifAddrs(c.seedBrokers), verifAddrs(c.deadSeeds))
	return sb.String()
}

// VerifSetMetadataHandler makes a MockBroker answer every MetadataRequest with what f returns (nil = no answer:
// the request is swallowed); every other request is swallowed.
func VerifSetMetadataHandler(mb *MockBroker, f func(topics []string) *MetadataResponse) {
	mb.setHandler(func(req *request) encoderWithHeader {
		mr, ok := req.body.(*MetadataRequest)
		if !ok {
			return nil
		}
		r := f(mr.Topics)
		if r == nil {
			return nil
		}
		r.Version = mr.Version
		return r
	})
}

// VerifBroker builds the *Broker a decoded MetadataResponse would carry.
func VerifBroker(id int32, addr string) *Broker { return &Broker{id: id, addr: addr} }
