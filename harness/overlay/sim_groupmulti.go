//go:build verif
// +build verif

package sarama

// Multi-member group coordinator of the simulated cluster (VerifSim.GroupMulti = true): several REAL members share
// one group.  A faithful, minimal rendering of Kafka's coordinator state machine:
//
//   empty -> preparing (first join) -> awaiting sync (every known member has rejoined, or the rebalance deadline
//   passed and the stragglers were removed; generation+1, leader = smallest member id) -> stable (leader's sync
//   arrived; follower syncs are held until then) -> preparing (join of a new member, rejoin, leave, fenced member) ...
//
// Join and sync answers are HELD (the connection's goroutine blocks) exactly like a real coordinator does; heartbeats
// during a rebalance are answered RebalanceInProgress; requests of unknown members UnknownMemberId, of an old
// generation IllegalGeneration.  The fault script (per request kind, n-th request) can override any verdict or drop
// the connection; a scripted fencing verdict makes the coordinator forget the member (as if its session had expired).

import (
	"fmt"
	"sort"
	"sync"
	"time"
)

type simMMember struct {
	id     string
	client string
	meta   []byte
	proto  string
	joined bool // has (re)joined in the current preparing round
}

type simMGroup struct {
	state       string // empty | preparing | awaitsync | stable
	gen         int32
	round       int // number of completed rebalances
	members     map[string]*simMMember
	leader      string
	assignments map[string][]byte
	synced      bool
	deadline    time.Time
	nextMember  int
	store       map[string]int64
	storeMeta   map[string]string
	counts      map[string]int
	cond        *sync.Cond
}

// GroupMulti parameters
type VerifSimMulti struct {
	RebalanceTimeout time.Duration // how long a preparing round waits for known members to rejoin
	SyncTimeout      time.Duration // how long follower syncs wait for the leader's
}

func (s *VerifSim) mgroup(g string) *simMGroup {
	if s.mgroups == nil {
		s.mgroups = map[string]*simMGroup{}
	}
	gr := s.mgroups[g]
	if gr == nil {
		gr = &simMGroup{state: "empty", members: map[string]*simMMember{}, store: map[string]int64{}, storeMeta: map[string]string{}, counts: map[string]int{}}
		gr.cond = sync.NewCond(&s.mu)
		s.mgroups[g] = gr
	}
	return gr
}

// SetGroupStoreMulti pre-sets a committed offset of the multi-member coordinator.
func (s *VerifSim) SetGroupStoreMulti(group, topic string, p int32, off int64) {
	s.mu.Lock()
	defer s.mu.Unlock()
	s.mgroup(group).store[tpKey(topic, p)] = off
}

func (s *VerifSim) GroupStoreMulti(group, topic string, p int32) int64 {
	s.mu.Lock()
	defer s.mu.Unlock()
	o, ok := s.mgroup(group).store[tpKey(topic, p)]
	if !ok {
		return -1
	}
	return o
}

// startRebalance moves the group into the preparing state (caller holds s.mu).
func (s *VerifSim) startRebalance(gr *simMGroup) {
	if gr.state == "preparing" {
		return
	}
	gr.state = "preparing"
	for _, m := range gr.members {
		m.joined = false
	}
	to := s.Multi.RebalanceTimeout
	if to == 0 {
		to = 120 * time.Millisecond
	}
	gr.deadline = time.Now().Add(to)
	round := gr.round
	go func() {
		time.Sleep(to + 2*time.Millisecond)
		s.mu.Lock()
		if gr.round == round && gr.state == "preparing" {
			s.tryComplete(gr, true)
		}
		s.mu.Unlock()
	}()
	gr.cond.Broadcast()
}

// tryComplete ends the preparing round when every known member has rejoined (or the deadline has passed).
func (s *VerifSim) tryComplete(gr *simMGroup, deadlinePassed bool) {
	if gr.state != "preparing" {
		return
	}
	all := true
	for _, m := range gr.members {
		if !m.joined {
			all = false
		}
	}
	if !all && !deadlinePassed && time.Now().Before(gr.deadline) {
		return
	}
	for id, m := range gr.members {
		if !m.joined {
			delete(gr.members, id) // did not rejoin in time: removed from the group
			s.groupReqs = append(s.groupReqs, VerifSimGroupReq{Seq: s.nextGroupSeq(), Kind: "expelled", MemberID: id, ClientID: m.client})
		}
	}
	gr.round++
	if len(gr.members) == 0 {
		gr.state = "empty"
		gr.cond.Broadcast()
		return
	}
	gr.gen++
	var ids []string
	for id := range gr.members {
		ids = append(ids, id)
	}
	sort.Strings(ids)
	gr.leader = ids[0]
	gr.assignments = nil
	gr.synced = false
	gr.state = "awaitsync"
	gen, round := gr.gen, gr.round
	to := s.Multi.SyncTimeout
	if to == 0 {
		to = 120 * time.Millisecond
	}
	go func() {
		time.Sleep(to)
		s.mu.Lock()
		if gr.round == round && gr.gen == gen && gr.state == "awaitsync" {
			s.startRebalance(gr) // the leader never sent its plan
		}
		s.mu.Unlock()
	}()
	gr.cond.Broadcast()
}

func (s *VerifSim) nextGroupSeq() int {
	s.groupSeq++
	return s.groupSeq
}

func (s *VerifSim) mverdict(gr *simMGroup, kind string) (KError, bool) {
	gr.counts[kind]++
	if s.GroupScript == nil {
		return ErrNoError, false
	}
	v := s.GroupScript(kind, gr.counts[kind])
	if v == KError(-2) {
		return ErrNoError, true
	}
	return v, false
}

// forget removes a member (fenced by script, left, or expelled) and starts a rebalance for the others.
func (s *VerifSim) forget(gr *simMGroup, id string) {
	if _, ok := gr.members[id]; !ok {
		return
	}
	delete(gr.members, id)
	if len(gr.members) == 0 {
		gr.state = "empty"
		gr.round++
		gr.cond.Broadcast()
		return
	}
	if gr.state == "preparing" {
		s.tryComplete(gr, false)
	} else {
		s.startRebalance(gr)
	}
}

// handleGroupMulti answers the group-protocol requests of the multi-member coordinator.
func (s *VerifSim) handleGroupMulti(client string, body protocolBody) (res encoderWithHeader, closeConn bool, ok bool) {
	s.mu.Lock()
	defer s.mu.Unlock()
	coord := s.brokers[0]
	switch req := body.(type) {
	case *FindCoordinatorRequest:
		gr := s.mgroup(req.CoordinatorKey)
		v, drop := s.mverdict(gr, "findcoord")
		s.groupReqs = append(s.groupReqs, VerifSimGroupReq{Seq: s.nextGroupSeq(), Kind: "findcoord", Verdict: v, Dropped: drop, ClientID: client})
		if drop {
			return nil, true, true
		}
		r := &FindCoordinatorResponse{Version: req.Version, Err: v}
		if v == ErrNoError {
			r.Coordinator = &Broker{id: coord.id, addr: coord.ln.Addr().String()}
		} else {
			r.Coordinator = &Broker{id: -1, addr: ":0"}
		}
		return r, false, true
	case *ConsumerMetadataRequest:
		gr := s.mgroup(req.ConsumerGroup)
		v, drop := s.mverdict(gr, "findcoord")
		s.groupReqs = append(s.groupReqs, VerifSimGroupReq{Seq: s.nextGroupSeq(), Kind: "findcoord", Verdict: v, Dropped: drop, ClientID: client})
		if drop {
			return nil, true, true
		}
		r := &ConsumerMetadataResponse{Err: v}
		if v == ErrNoError {
			r.Coordinator = &Broker{id: coord.id, addr: coord.ln.Addr().String()}
		} else {
			r.Coordinator = &Broker{id: -1, addr: ":0"}
		}
		return r, false, true
	case *JoinGroupRequest:
		gr := s.mgroup(req.GroupId)
		v, drop := s.mverdict(gr, "join")
		lg := VerifSimGroupReq{Seq: s.nextGroupSeq(), Kind: "join", MemberID: req.MemberId, Verdict: v, Dropped: drop, ClientID: client}
		idx := len(s.groupReqs)
		s.groupReqs = append(s.groupReqs, lg)
		if drop {
			return nil, true, true
		}
		r := &JoinGroupResponse{Version: req.Version, Err: v}
		if v == ErrNoError && req.MemberId != "" && gr.members[req.MemberId] == nil {
			v = ErrUnknownMemberId
		}
		if v != ErrNoError {
			if v == ErrUnknownMemberId || v == ErrIllegalGeneration {
				s.forget(gr, req.MemberId)
			}
			r.Err = v
			s.groupReqs[idx].Verdict = v
			return r, false, true
		}
		id := req.MemberId
		if id == "" {
			gr.nextMember++
			id = fmt.Sprintf("member-%d", gr.nextMember)
			gr.members[id] = &simMMember{id: id, client: client}
		}
		m := gr.members[id]
		m.client = client
		var meta []byte
		for _, gp := range req.OrderedGroupProtocols {
			m.proto = gp.Name
			meta = gp.Metadata
			break
		}
		if meta == nil {
			var names []string
			for n := range req.GroupProtocols {
				names = append(names, n)
			}
			sort.Strings(names)
			if len(names) > 0 {
				m.proto = names[0]
				meta = req.GroupProtocols[names[0]]
			}
		}
		m.meta = meta
		s.startRebalance(gr) // no-op if a round is already being prepared
		m.joined = true
		round := gr.round
		s.tryComplete(gr, false)
		for gr.round == round && !s.closed {
			gr.cond.Wait()
		}
		if s.closed || gr.members[id] == nil || gr.state == "empty" {
			r.Err = ErrUnknownMemberId
			s.groupReqs[idx].Verdict = r.Err
			return r, false, true
		}
		r.GenerationId = gr.gen
		r.MemberId = id
		r.LeaderId = gr.leader
		r.GroupProtocol = m.proto
		r.Members = map[string][]byte{}
		if id == gr.leader {
			for mid, mm := range gr.members {
				r.Members[mid] = mm.meta
			}
		}
		s.groupReqs[idx].IssuedMember, s.groupReqs[idx].IssuedGen = id, gr.gen
		s.groupReqs[idx].AnsweredSeq = s.nextGroupSeq()
		return r, false, true
	case *SyncGroupRequest:
		gr := s.mgroup(req.GroupId)
		v, drop := s.mverdict(gr, "sync")
		idx := len(s.groupReqs)
		s.groupReqs = append(s.groupReqs, VerifSimGroupReq{Seq: s.nextGroupSeq(), Kind: "sync", MemberID: req.MemberId, Generation: req.GenerationId, Verdict: v, Dropped: drop, ClientID: client})
		if drop {
			return nil, true, true
		}
		r := &SyncGroupResponse{Err: v}
		if v == ErrNoError {
			switch {
			case gr.members[req.MemberId] == nil:
				v = ErrUnknownMemberId
			case req.GenerationId != gr.gen:
				v = ErrIllegalGeneration
			case gr.state == "preparing":
				v = ErrRebalanceInProgress
			}
		}
		if v == ErrNoError {
			if req.MemberId == gr.leader && gr.state == "awaitsync" {
				gr.assignments = req.GroupAssignments
				gr.synced = true
				gr.state = "stable"
				gr.cond.Broadcast()
			}
			gen := gr.gen
			for gr.gen == gen && gr.state == "awaitsync" && !s.closed {
				gr.cond.Wait()
			}
			switch {
			case s.closed || gr.members[req.MemberId] == nil:
				v = ErrUnknownMemberId
			case gr.gen != gen || gr.state != "stable":
				v = ErrRebalanceInProgress
			default:
				r.MemberAssignment = gr.assignments[req.MemberId]
				if len(r.MemberAssignment) > 0 {
					a := new(ConsumerGroupMemberAssignment)
					if decode(r.MemberAssignment, a) == nil {
						s.groupReqs[idx].Assigned = a.Topics
					}
				}
			}
		}
		if v == ErrUnknownMemberId || v == ErrIllegalGeneration {
			s.forget(gr, req.MemberId)
		}
		r.Err = v
		s.groupReqs[idx].Verdict = v
		s.groupReqs[idx].AnsweredSeq = s.nextGroupSeq()
		return r, false, true
	case *HeartbeatRequest:
		gr := s.mgroup(req.GroupId)
		v, drop := s.mverdict(gr, "heartbeat")
		if v == ErrNoError && !drop {
			switch {
			case gr.members[req.MemberId] == nil:
				v = ErrUnknownMemberId
			case req.GenerationId != gr.gen:
				v = ErrIllegalGeneration
			case gr.state != "stable":
				v = ErrRebalanceInProgress
			}
		}
		if v == ErrUnknownMemberId || v == ErrIllegalGeneration {
			s.forget(gr, req.MemberId)
		}
		s.groupReqs = append(s.groupReqs, VerifSimGroupReq{Seq: s.nextGroupSeq(), Kind: "heartbeat", MemberID: req.MemberId, Generation: req.GenerationId, Verdict: v, Dropped: drop, ClientID: client})
		if drop {
			return nil, true, true
		}
		return &HeartbeatResponse{Err: v}, false, true
	case *LeaveGroupRequest:
		gr := s.mgroup(req.GroupId)
		v, drop := s.mverdict(gr, "leave")
		s.groupReqs = append(s.groupReqs, VerifSimGroupReq{Seq: s.nextGroupSeq(), Kind: "leave", MemberID: req.MemberId, Verdict: v, Dropped: drop, ClientID: client})
		s.forget(gr, req.MemberId)
		if drop {
			return nil, true, true
		}
		return &LeaveGroupResponse{Err: v}, false, true
	case *OffsetFetchRequest:
		gr := s.mgroup(req.ConsumerGroup)
		v, drop := s.mverdict(gr, "offsetfetch")
		s.groupReqs = append(s.groupReqs, VerifSimGroupReq{Seq: s.nextGroupSeq(), Kind: "offsetfetch", Verdict: v, Dropped: drop, ClientID: client})
		if drop {
			return nil, true, true
		}
		r := &OffsetFetchResponse{Version: req.Version}
		for t, parts := range req.partitions {
			for _, p := range parts {
				b := &OffsetFetchResponseBlock{Offset: -1, Err: v}
				if o, ok := gr.store[tpKey(t, p)]; ok && v == ErrNoError {
					b.Offset = o
					b.Metadata = gr.storeMeta[tpKey(t, p)]
				}
				r.AddBlock(t, p, b)
			}
		}
		return r, false, true
	case *OffsetCommitRequest:
		gr := s.mgroup(req.ConsumerGroup)
		v, drop := s.mverdict(gr, "commit")
		lg := VerifSimGroupReq{Seq: s.nextGroupSeq(), Kind: "commit", MemberID: req.ConsumerID, Generation: req.ConsumerGroupGeneration, Verdict: v, Dropped: drop,
			Offsets: map[string]int64{}, Metadata: map[string]string{}, ClientID: client}
		if v == ErrNoError && !drop && req.Version >= 1 {
			if gr.members[req.ConsumerID] == nil {
				v = ErrUnknownMemberId
			} else if req.ConsumerGroupGeneration != gr.gen {
				v = ErrIllegalGeneration
			}
			lg.Verdict = v
		}
		r := &OffsetCommitResponse{Version: req.Version}
		for t, parts := range req.blocks {
			for p, b := range parts {
				lg.Offsets[tpKey(t, p)] = b.offset
				lg.Metadata[tpKey(t, p)] = b.metadata
				if v == ErrNoError && !drop {
					gr.store[tpKey(t, p)] = b.offset
					gr.storeMeta[tpKey(t, p)] = b.metadata
				}
				r.AddError(t, p, v)
			}
		}
		s.groupReqs = append(s.groupReqs, lg)
		if drop {
			return nil, true, true
		}
		return r, false, true
	}
	return nil, false, false
}
