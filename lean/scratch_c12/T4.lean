import SaramaVerif.Props.C12life
namespace Props.C12life
open Model.Lifecycle

namespace OM
open Model.Lifecycle.OM

local macro "acc" h:ident : tactic =>
  `(tactic| (simp only [step] at $h:ident <;> (repeat' split at $h:ident) <;>
      first | (cases $h:ident; done) | (injection $h:ident with $h:ident; subst $h:ident; simp_all)))

theorem closing_set (s : St) (e : Ev) (s' : St) (h : step s e = .ok s') : (s'.closing = true ↔ s.closing = true ∨ e = .closingClose) := by
  cases e <;> acc h
theorem loop_set (s : St) (e : Ev) (s' : St) (h : step s e = .ok s') : (s'.loopExited = true ↔ s.loopExited = true ∨ e = .closedClose) := by
  cases e <;> acc h
theorem recv_set (s : St) (e : Ev) (s' : St) (h : step s e = .ok s') : (s'.recv = true ↔ s.recv = true ∨ e = .closedRecv) := by
  cases e <;> acc h
theorem async_set (s : St) (e : Ev) (s' : St) (h : step s e = .ok s') : (s'.asyncClosed = true ↔ s.asyncClosed = true ∨ e = .asyncClose) := by
  cases e <;> acc h
theorem final_set (s : St) (e : Ev) (s' : St) (h : step s e = .ok s') : (s'.inFinal = true ↔ s.inFinal = true ∨ ∃ m, e = .finalBegin m) := by
  cases e <;> acc h
theorem forced_set (s : St) (e : Ev) (s' : St) (h : step s e = .ok s') : (s'.forced = true ↔ s.forced = true ∨ e = .releaseForce) := by
  cases e <;> acc h

/-- `closing` is closed at most once (closeOnce), `closed` at most once (mainLoop returns once) -/
theorem never_double_close_om {evs : List Ev} {s : St} (h : run {} evs = .ok s) :
    evs.count .closingClose ≤ 1 ∧ evs.count .closedClose ≤ 1 := by
  constructor
  · have := count_le_one (p := fun e => e = Ev.closingClose) (fun s : St => s.closing) closing_set
      (by intro s e s' he h; subst he; acc h) h
    rw [count_eq_countP]; simpa using this
  · have := count_le_one (p := fun e => e = Ev.closedClose) (fun s : St => s.loopExited) loop_set
      (by intro s e s' he h; subst he; acc h) h
    rw [count_eq_countP]; simpa using this

/-- OffsetManager.Close: closing closed → mainLoop returns and is awaited → POMs marked closed → final flush loop
    (only after both) → forced release → done -/
theorem close_order_om {evs : List Ev} {s : St} (h : run {} evs = .ok s) :
    Precedes (· = .closingClose) (fun _ => False) (· = .closedClose) evs ∧
    Precedes (· = .closedClose) (fun _ => False) (· = .closedRecv) evs ∧
    Precedes (· = .closingClose) (fun _ => False) (· = .asyncClose) evs ∧
    Precedes (· = .asyncClose) (fun _ => False) (fun e => ∃ m, e = .finalBegin m) evs ∧
    Precedes (· = .closedRecv) (fun _ => False) (fun e => ∃ m, e = .finalBegin m) evs ∧
    Precedes (fun e => ∃ m, e = .finalBegin m) (fun _ => False) (fun e => ∃ k, e = .finalFlush k) evs ∧
    Precedes (· = .asyncClose) (fun _ => False) (· = .releaseForce) evs ∧
    Precedes (· = .releaseForce) (fun _ => False) (· = .closeDone) evs := by
  refine ⟨?_, ?_, ?_, ?_, ?_, ?_, ?_, ?_⟩
  · exact needs (fun s : St => s.closing) _ _ _ {} rfl
      (by intro s e s' h hf; have := (closing_set s e s' h).mp hf; simpa using this)
      (by intro s e s' he h; subst he; acc h) h
  · exact needs (fun s : St => s.loopExited) _ _ _ {} rfl
      (by intro s e s' h hf; have := (loop_set s e s' h).mp hf; simpa using this)
      (by intro s e s' he h; subst he; acc h) h
  · exact needs (fun s : St => s.closing) _ _ _ {} rfl
      (by intro s e s' h hf; have := (closing_set s e s' h).mp hf; simpa using this)
      (by intro s e s' he h; subst he; acc h) h
  · exact needs (fun s : St => s.asyncClosed) _ _ _ {} rfl
      (by intro s e s' h hf; have := (async_set s e s' h).mp hf; simpa using this)
      (by intro s e s' he h; rcases he with ⟨m, rfl⟩; acc h) h
  · exact needs (fun s : St => s.recv) _ _ _ {} rfl
      (by intro s e s' h hf; have := (recv_set s e s' h).mp hf; simpa using this)
      (by intro s e s' he h; rcases he with ⟨m, rfl⟩; acc h) h
  · exact needs (fun s : St => s.inFinal) _ _ _ {} rfl
      (by intro s e s' h hf; have := (final_set s e s' h).mp hf; simpa using this)
      (by intro s e s' he h; rcases he with ⟨m, rfl⟩; acc h) h
  · exact needs (fun s : St => s.asyncClosed) _ _ _ {} rfl
      (by intro s e s' h hf; have := (async_set s e s' h).mp hf; simpa using this)
      (by intro s e s' he h; subst he; acc h) h
  · exact needs (fun s : St => s.forced) _ _ _ {} rfl
      (by intro s e s' h hf; have := (forced_set s e s' h).mp hf; simpa using this)
      (by intro s e s' he h; subst he; acc h) h

def isFlush : Ev → Bool | .finalFlush _ => true | _ => false

/-- the final flush loop is bounded: at most Retry.Max + 1 flushes, whatever the coordinator answers -/
theorem final_loop_bounded {evs : List Ev} {s : St} (h : run {} evs = .ok s) :
    evs.countP isFlush = s.attempts ∧ s.attempts ≤ s.max + 1 := by
  have key := run_hist (step := step)
    (fun hst (s : St) => hst.countP isFlush = s.attempts ∧ s.attempts ≤ s.max + 1 ∧ (s.inFinal = false → s.attempts = 0))
    (by intro hst s e s' ⟨h1, h2, h3⟩ hs
        cases e <;> acc hs <;> simp_all [isFlush] <;> omega)
    (h0 := []) h (by simp)
  simp at key; exact ⟨key.1, key.2.1⟩

def isNew : Ev → Bool | .pomNew => true | _ => false
def isRelease : Ev → Bool | .pomRelease => true | _ => false

/-- Close is done only when every registered POM has been released (its errors channel closed) -/
theorem outputs_closed_after_last_event_om {pre : List Ev} {s : St} (h : run {} (pre ++ [.closeDone]) = .ok s) :
    pre.countP isRelease = pre.countP isNew := by
  obtain ⟨s1, h1, h2⟩ := run_append.mp h
  obtain ⟨s2, h3, _⟩ := run_cons.mp h2
  have hp : s1.live = 0 := by acc h3
  have key := run_hist (step := step)
    (fun hst (s : St) => s.live + hst.countP isRelease = hst.countP isNew)
    (by intro hst s e s' ih hs
        cases e <;> acc hs <;> simp_all [isNew, isRelease] <;> omega)
    (h0 := []) h1 (by simp)
  simp at key; omega

/-- after `closing` was closed, Close (or a POM release inside it) can always move until it is done -/
theorem no_deadlock_after_close_om {evs : List Ev} {s : St} (h : run {} evs = .ok s) (hc : s.closing = true) (hd : s.done = false) :
    ∃ e s', internal e = true ∧ step s e = .ok s' := by
  have hb := (final_loop_bounded h).2
  by_cases h1 : s.asyncClosed = true
  · by_cases h2 : s.forced = true
    · by_cases h3 : s.live = 0
      · exact ⟨.closeDone, _, rfl, by simp [step, h2, h3, hd]; rfl⟩
      · exact ⟨.pomRelease, _, rfl, by simp [step, h3]; rfl⟩
    · by_cases h3 : s.inFinal = true ∧ s.clean = false ∧ s.attempts ≠ s.max + 1
      · obtain ⟨h4, h5, h6⟩ := h3
        have h2' : s.forced = false := by simpa using h2
        have : ¬ s.max < s.attempts := by omega
        exact ⟨.finalFlush s.attempts, _, rfl, by simp [step, h4, h5, h2', this]; rfl⟩
      · have h2' : s.forced = false := by simpa using h2
        refine ⟨.releaseForce, { s with forced := true }, rfl, ?_⟩
        simp only [step, h1, h2']
        simp only [not_true_eq_false, ↓reduceIte, Bool.false_eq_true]
        split
        · rename_i hx; exfalso; apply h3; simpa using hx
        · rfl
  · exact ⟨.asyncClose, _, rfl, by simp [step, hc, h1]; rfl⟩

/-- termination measure of Close: every internal move decreases (phase, Retry.Max + 1 - attempts + live POMs)
    lexicographically -/
theorem close_terminates_om (s : St) (e : Ev) (s' : St) (h : step s e = .ok s') (hi : internal e = true) :
    Prod.Lex (· < ·) (· < ·) (phase s', inner s') (phase s, inner s) := by
  have key : phase s' < phase s ∨ (phase s' = phase s ∧ inner s' < inner s) := by
    cases e <;> simp [internal] at hi <;> acc h <;> simp_all [phase, inner] <;> omega
  rcases key with h1 | ⟨h1, h2⟩
  · exact Prod.Lex.left _ _ h1
  · rw [h1]; exact Prod.Lex.right _ h2

theorem close_order_wf : WellFounded (Prod.Lex (· < ·) (· < ·) : Nat × Nat → Nat × Nat → Prop) :=
  (Prod.lex Nat.lt_wfRel Nat.lt_wfRel).wf

example : accepts step {} [.pomNew, .pomNew, .closingClose, .closedClose, .closedRecv, .asyncClose, .finalBegin 2, .finalFlush 0,
    .pomRelease, .finalFlush 1, .finalFlush 2, .releaseForce, .pomRelease, .closeDone] = true := by decide
example : accepts step {} [.pomNew, .closingClose, .asyncClose, .releaseForce, .pomRelease, .closeDone] = true := by decide  -- auto-commit off
example : accepts step {} [.closingClose, .closedClose, .closedRecv, .asyncClose, .finalBegin 1, .finalFlush 0, .finalFlush 1, .finalFlush 2] = false := by decide
example : accepts step {} [.closingClose, .asyncClose, .finalBegin 1] = false := by decide  -- mainLoop not awaited
end OM
end Props.C12life
