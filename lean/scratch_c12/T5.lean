import SaramaVerif.Props.C12life
namespace Props.C12life
open Model.Lifecycle

namespace Grp
open Model.Lifecycle.Grp

local macro "acc" h:ident : tactic =>
  `(tactic| (simp only [step] at $h:ident <;> (repeat' split at $h:ident) <;>
      first | (cases $h:ident; done) | (injection $h:ident with $h:ident; subst $h:ident; simp_all)))

theorem closed_set (s : St) (e : Ev) (s' : St) (h : step s e = .ok s') : (s'.closed = true ↔ s.closed = true ∨ e = .closedClose) := by
  cases e <;> acc h
theorem left_set (s : St) (e : Ev) (s' : St) (h : step s e = .ok s') : (s'.left = true ↔ s.left = true ∨ e = .leaveUnlock) := by
  cases e <;> acc h
theorem errs_set (s : St) (e : Ev) (s' : St) (h : step s e = .ok s') : (s'.errsClosed = true ↔ s.errsClosed = true ∨ e = .errorsClose) := by
  cases e <;> acc h
theorem client_set (s : St) (e : Ev) (s' : St) (h : step s e = .ok s') : (s'.clientClosed = true ↔ s.clientClosed = true ∨ e = .clientClose) := by
  cases e <;> acc h

def isSessStart : Ev → Prop | .sessStart _ => True | _ => False

/-- the group's `closed` and `errors` channels are closed at most once (closeOnce); per session `hbDying` and
    `hbDead` are closed at most once: each close is preceded by the start of its session with no other close of
    the same channel in between -/
theorem never_double_close_group {evs : List Ev} {s : St} (h : run {} evs = .ok s) :
    evs.count .closedClose ≤ 1 ∧ evs.count .errorsClose ≤ 1 ∧
    Precedes isSessStart (fun e => (∃ n, e = .hbDyingClose n) ∨ e = .consumeLock ∨ e = .consumeUnlock) (fun e => ∃ n, e = .hbDyingClose n) evs ∧
    Precedes isSessStart (fun e => (∃ n, e = .hbDeadClose n) ∨ e = .consumeLock ∨ e = .consumeUnlock) (fun e => ∃ n, e = .hbDeadClose n) evs := by
  refine ⟨?_, ?_, ?_, ?_⟩
  · have := count_le_one (p := fun e => e = Ev.closedClose) (fun s : St => s.closed) closed_set
      (by intro s e s' he h; subst he; acc h) h
    rw [count_eq_countP]; simpa using this
  · have := count_le_one (p := fun e => e = Ev.errorsClose) (fun s : St => s.errsClosed) errs_set
      (by intro s e s' he h; subst he; acc h) h
    rw [count_eq_countP]; simpa using this
  · exact needs (fun s : St => s.sess.isSome && !s.hbDying) _ _ _ {} rfl
      (by intro s e s' h hf; cases e <;> acc h <;> simp_all [isSessStart])
      (by intro s e s' he h; rcases he with ⟨n, rfl⟩; acc h) h
  · exact needs (fun s : St => s.sess.isSome && !s.hbDead) _ _ _ {} rfl
      (by intro s e s' h hf; cases e <;> acc h <;> simp_all [isSessStart])
      (by intro s e s' he h; rcases he with ⟨n, rfl⟩; acc h) h

/-- nothing is sent on the group's errors channel after it was closed -/
theorem no_send_after_close_group {pre post : List Ev} {s : St} (h : run {} (pre ++ .errorsClose :: post) = .ok s) :
    ∀ e ∈ post, e ≠ .errorsSend := by
  exact none_after (fun s : St => s.errsClosed) (· = .errorsClose) (· = .errorsSend)
    (by intro s e s' h hf; exact (errs_set s e s' h).mpr (Or.inl hf))
    (by intro s e s' he h; exact (errs_set s e s' h).mpr (Or.inr he))
    (by intro s e s' he h; subst he; acc h) h rfl

structure GInv (s : St) : Prop where
  lock_sess : s.lock ≠ .consume → s.sess = none
  claims_le : s.claimsDone ≤ s.claims

theorem init_inv : GInv {} := ⟨by simp, by simp⟩
theorem step_inv (s : St) (e : Ev) (s' : St) (hi : GInv s) (h : step s e = .ok s') : GInv s' := by
  obtain ⟨h1, h2⟩ := hi
  cases e <;> acc h <;> constructor <;> simp_all <;> omega
theorem reach_inv {evs : List Ev} {s : St} (h : run {} evs = .ok s) : GInv s :=
  run_inv GInv step_inv h init_inv

/-- the group's Errors channel is closed only after leave(), leave() takes the lock only when no session is running:
    every session that was started before has been released completely (release returned); and no session is
    started after leave() -/
theorem outputs_closed_after_last_event_group {evs : List Ev} {s : St} (h : run {} evs = .ok s) :
    Precedes (· = .leaveUnlock) (fun _ => False) (· = .errorsClose) evs ∧
    (∀ pre post, evs = pre ++ .leaveLock :: post → ∀ l n r, pre = l ++ .sessStart n :: r → .releaseDone n ∈ r) ∧
    (∀ pre post, evs = pre ++ .leaveUnlock :: post → ∀ e ∈ post, ∀ n, e ≠ .sessStart n) := by
  refine ⟨?_, ?_, ?_⟩
  · exact needs (fun s : St => s.left) _ _ _ {} rfl
      (by intro s e s' h hf; have := (left_set s e s' h).mp hf; simpa using this)
      (by intro s e s' he h; subst he; acc h) h
  · intro pre post he l n r hp
    subst he
    obtain ⟨s1, h1, h2⟩ := run_append.mp h
    obtain ⟨s2, h3, _⟩ := run_cons.mp h2
    have hfree : s1.lock = .free := by acc h3
    have hinv := reach_inv h1
    have hnone : s1.sess = none := hinv.lock_sess (by simp [hfree])
    have key := run_hist (step := step)
      (fun hst (s : St) => GInv s ∧ ∀ l n r, hst = l ++ .sessStart n :: r → .releaseDone n ∈ r ∨ (s.sess = some n ∧ s.released = false))
      (by
        intro hst s e s' ⟨hi, ih⟩ hs
        refine ⟨step_inv s e s' hi hs, ?_⟩
        intro l n r he
        rcases snoc_eq_append_cons he with ⟨rfl, rfl, rfl⟩ | ⟨r0, rfl, rfl⟩
        · right; acc hs
        · rcases ih l n r0 rfl with hm | ⟨hs1, hs2⟩
          · left; simp [hm]
          · have hl := hi.lock_sess
            cases e <;> acc hs <;> simp_all)
      (h0 := []) h1 ⟨init_inv, by intro l n r he; simp at he⟩
    rcases key.2 l n r (by simpa using hp) with hm | ⟨hs1, _⟩
    · exact hm
    · simp [hnone] at hs1
  · intro pre post he e hmem n hc
    subst he
    exact none_after (fun s : St => s.left) (· = .leaveUnlock) (fun e => ∃ n, e = .sessStart n)
      (by intro s e s' h hf; exact (left_set s e s' h).mpr (Or.inl hf))
      (by intro s e s' he h; exact (left_set s e s' h).mpr (Or.inr he))
      (by intro s e s' he h; rcases he with ⟨n, rfl⟩; acc h) h rfl e hmem ⟨n, hc⟩

/-- ConsumerGroup.Close: closed closed → leave under the lock → errors closed → client closed → done -/
theorem close_order_group {evs : List Ev} {s : St} (h : run {} evs = .ok s) :
    Precedes (· = .closedClose) (fun _ => False) (· = .leaveLock) evs ∧
    Precedes (· = .leaveLock) (fun e => e = .leaveUnlock) (· = .leaveUnlock) evs ∧
    Precedes (· = .leaveUnlock) (fun _ => False) (· = .errorsClose) evs ∧
    Precedes (· = .errorsClose) (fun _ => False) (· = .clientClose) evs ∧
    Precedes (· = .clientClose) (fun _ => False) (· = .closeDone) evs := by
  refine ⟨?_, ?_, ?_, ?_, ?_⟩
  · exact needs (fun s : St => s.closed) _ _ _ {} rfl
      (by intro s e s' h hf; have := (closed_set s e s' h).mp hf; simpa using this)
      (by intro s e s' he h; subst he; acc h) h
  · exact needs (fun s : St => decide (s.lock = .leave)) _ _ _ {} rfl
      (by intro s e s' h hf; cases e <;> acc h)
      (by intro s e s' he h; subst he; acc h) h
  · exact (outputs_closed_after_last_event_group h).1
  · exact needs (fun s : St => s.errsClosed) _ _ _ {} rfl
      (by intro s e s' h hf; have := (errs_set s e s' h).mp hf; simpa using this)
      (by intro s e s' he h; subst he; acc h) h
  · exact needs (fun s : St => s.clientClosed) _ _ _ {} rfl
      (by intro s e s' h hf; have := (client_set s e s' h).mp hf; simpa using this)
      (by intro s e s' he h; subst he; acc h) h

/-- release of a session: cancel → claim goroutines joined → Cleanup (before the offset manager is closed) →
    offsets.Close → hbDying closed → hbDead awaited (the heartbeat loop has closed it) → release returns; all within
    the same session -/
theorem close_order_session {evs : List Ev} {s : St} (h : run {} evs = .ok s) :
    Precedes (fun e => ∃ n, e = .release n) isSessStart (fun e => ∃ n, e = .claimsJoined n) evs ∧
    Precedes (fun e => ∃ n, e = .claimsJoined n) (fun e => isSessStart e ∨ ∃ n, e = .offsetsClose n) (fun e => ∃ n, e = .cleanup n) evs ∧
    Precedes (fun e => ∃ n, e = .claimsJoined n) isSessStart (fun e => ∃ n, e = .offsetsClose n) evs ∧
    Precedes (fun e => ∃ n, e = .offsetsClose n) isSessStart (fun e => ∃ n, e = .hbDyingClose n) evs ∧
    Precedes (fun e => ∃ n, e = .hbDyingClose n) isSessStart (fun e => ∃ n, e = .hbDeadRecv n) evs ∧
    Precedes (fun e => ∃ n, e = .hbDeadClose n) isSessStart (fun e => ∃ n, e = .hbDeadRecv n) evs ∧
    Precedes (fun e => ∃ n, e = .hbDeadRecv n) isSessStart (fun e => ∃ n, e = .releaseDone n) evs := by
  refine ⟨?_, ?_, ?_, ?_, ?_, ?_, ?_⟩
  · exact needs (fun s : St => s.releasing) _ _ _ {} rfl
      (by intro s e s' h hf; cases e <;> acc h <;> simp_all [isSessStart])
      (by intro s e s' he h; rcases he with ⟨n, rfl⟩; acc h) h
  · exact needs (fun s : St => s.joined && !s.omClosed) _ _ _ {} rfl
      (by intro s e s' h hf; cases e <;> acc h <;> simp_all [isSessStart])
      (by intro s e s' he h; rcases he with ⟨n, rfl⟩; acc h) h
  · exact needs (fun s : St => s.joined) _ _ _ {} rfl
      (by intro s e s' h hf; cases e <;> acc h <;> simp_all [isSessStart])
      (by intro s e s' he h; rcases he with ⟨n, rfl⟩; acc h) h
  · exact needs (fun s : St => s.omClosed) _ _ _ {} rfl
      (by intro s e s' h hf; cases e <;> acc h <;> simp_all [isSessStart])
      (by intro s e s' he h; rcases he with ⟨n, rfl⟩; acc h) h
  · exact needs (fun s : St => s.hbDying) _ _ _ {} rfl
      (by intro s e s' h hf; cases e <;> acc h <;> simp_all [isSessStart])
      (by intro s e s' he h; rcases he with ⟨n, rfl⟩; acc h) h
  · exact needs (fun s : St => s.hbDead) _ _ _ {} rfl
      (by intro s e s' h hf; cases e <;> acc h <;> simp_all [isSessStart])
      (by intro s e s' he h; rcases he with ⟨n, rfl⟩; acc h) h
  · exact needs (fun s : St => s.hbRecv) _ _ _ {} rfl
      (by intro s e s' h hf; cases e <;> acc h <;> simp_all [isSessStart])
      (by intro s e s' he h; rcases he with ⟨n, rfl⟩; acc h) h

def isClaimAdd : Ev → Bool | .claimAdd _ => true | _ => false
def isClaimDone : Ev → Bool | .claimDone _ => true | _ => false

/-- blocked claims: when waitGroup.Wait() returns in release, every ConsumeClaim goroutine of the session has returned -/
theorem claims_joined_after_all_claims_done {pre : List Ev} {n : Nat} {s : St} (h : run {} (pre ++ [.claimsJoined n]) = .ok s) :
    ∀ l r, pre = l ++ .sessStart n :: r → (∀ m, .sessStart m ∉ r) → r.countP isClaimDone = r.countP isClaimAdd := by
  obtain ⟨s1, h1, h2⟩ := run_append.mp h
  obtain ⟨s2, h3, _⟩ := run_cons.mp h2
  have hp : s1.claimsDone = s1.claims := by acc h3
  have key := run_hist (step := step)
    (fun hst (s : St) => ∀ l n r, hst = l ++ .sessStart n :: r → (∀ m, .sessStart m ∉ r) →
        s.claimsDone = r.countP isClaimDone ∧ s.claims = r.countP isClaimAdd)
    (by
      intro hst s e s' ih hs l n r he hno
      rcases snoc_eq_append_cons he with ⟨rfl, rfl, rfl⟩ | ⟨r0, rfl, rfl⟩
      · acc hs
      · have hno0 : ∀ m, .sessStart m ∉ r0 := by intro m hc; exact hno m (by simp [hc])
        have hne : ∀ m, e ≠ .sessStart m := by intro m hc; exact hno m (by simp [hc])
        have := ih l n r0 rfl hno0
        cases e <;> acc hs <;> simp_all [isClaimAdd, isClaimDone])
    (h0 := []) h1 (by intro l n r he; simp at he)
  intro l r he hno
  have := key l n r (by simpa using he) hno
  omega

/-- after Close started (closed closed) some goroutine of the group can always move until Close is done -/
theorem no_deadlock_after_close_group {evs : List Ev} {s : St} (h : run {} evs = .ok s) (hc : s.closed = true) (hd : s.done = false) :
    ∃ e s', internal e = true ∧ step s e = .ok s' := by
  have hi := reach_inv h
  cases hl : s.lock with
  | leave => exact ⟨.leaveUnlock, _, rfl, by simp [step, hl]; rfl⟩
  | free =>
    by_cases h1 : s.left = true
    · by_cases h2 : s.errsClosed = true
      · by_cases h3 : s.clientClosed = true
        · exact ⟨.closeDone, _, rfl, by simp [step, h3, hd]; rfl⟩
        · exact ⟨.clientClose, _, rfl, by simp [step, h2, h3]; rfl⟩
      · exact ⟨.errorsClose, _, rfl, by simp [step, h1, h2]; rfl⟩
    · exact ⟨.leaveLock, _, rfl, by simp [step, hc, hl, h1]; rfl⟩
  | consume =>
    cases hs : s.sess with
    | none => exact ⟨.consumeUnlock, _, rfl, by simp [step, hl, hs]; rfl⟩
    | some n =>
      by_cases h1 : s.released = true
      · exact ⟨.consumeUnlock, _, rfl, by simp [step, hl, hs, h1]; rfl⟩
      by_cases h2 : s.hbRecv = true
      · exact ⟨.releaseDone n, _, rfl, by simp [step, hs, h2]; rfl⟩
      by_cases h3 : s.hbDying = true
      · by_cases h4 : s.hbDead = true
        · exact ⟨.hbDeadRecv n, _, rfl, by simp [step, hs, h3, h4]; rfl⟩
        · exact ⟨.hbDeadClose n, _, rfl, by simp [step, hs, h4]; rfl⟩
      by_cases h4 : s.omClosed = true
      · exact ⟨.hbDyingClose n, _, rfl, by simp [step, hs, h3, h4]; rfl⟩
      by_cases h5 : s.joined = true
      · exact ⟨.offsetsClose n, _, rfl, by simp [step, hs, h4, h5]; rfl⟩
      by_cases h6 : s.releasing = true
      · by_cases h7 : s.claimsDone = s.claims
        · exact ⟨.claimsJoined n, _, rfl, by simp [step, hs, h6, h7]; rfl⟩
        · have := hi.claims_le
          have h8 : ¬ s.claims ≤ s.claimsDone := by omega
          exact ⟨.claimDone n, _, rfl, by simp [step, hs, h8]; rfl⟩
      · exact ⟨.release n, _, rfl, by simp [step, hs]; rfl⟩

example : accepts step {} [.consumeLock, .sessStart 1, .claimAdd 1, .claimAdd 1, .errorsSend, .closedClose, .claimDone 1, .release 1,
    .claimDone 1, .claimsJoined 1, .cleanup 1, .offsetsClose 1, .hbDyingClose 1, .hbDeadClose 1, .hbDeadRecv 1, .releaseDone 1,
    .consumeUnlock, .leaveLock, .leaveUnlock, .errorsClose, .clientClose, .closeDone] = true := by decide
example : accepts step {} [.consumeLock, .sessStart 1, .release 1, .claimsJoined 1, .offsetsClose 1, .hbDyingClose 1, .hbDeadRecv 1] = false := by decide  -- release did not wait for the heartbeat loop
example : accepts step {} [.consumeLock, .sessStart 1, .closedClose, .leaveLock] = false := by decide    -- leave while a session holds the lock
example : accepts step {} [.closedClose, .leaveLock, .leaveUnlock, .errorsClose, .errorsSend] = false := by decide
example : accepts step {} [.closedClose, .closedClose] = false := by decide
end Grp
end Props.C12life
