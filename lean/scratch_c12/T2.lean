import SaramaVerif.Props.C12life
namespace Props.C12life
open Model.Lifecycle

theorem snoc_eq_append_cons {ε : Type} {h l r : List ε} {e a : ε} (he : h ++ [e] = l ++ a :: r) :
    (r = [] ∧ h = l ∧ e = a) ∨ ∃ r0, r = r0 ++ [e] ∧ h = l ++ a :: r0 := by
  rcases List.eq_nil_or_concat r with rfl | ⟨r0, x, rfl⟩
  · left
    have : h ++ [e] = l ++ [a] := by simpa using he
    have := List.append_inj' this rfl
    simp_all
  · right
    have h1 : h ++ [e] = (l ++ a :: r0) ++ [x] := by simpa using he
    have := List.append_inj' h1 rfl
    refine ⟨r0, ?_, this.1⟩
    have h2 : [e] = [x] := this.2
    simp_all

namespace Br
open Model.Lifecycle.Br

local macro "acc" h:ident : tactic =>
  `(tactic| (simp only [step] at $h:ident <;> (repeat' split at $h:ident) <;>
      first | (cases $h:ident; done) | (injection $h:ident with $h:ident; subst $h:ident; simp_all)))

/-- `responses` exists and is open -/
def respOpen (s : St) : Bool := s.conn && !s.respClosed
/-- the response receiver is draining after `responses` was closed -/
def draining (s : St) : Bool := s.respClosed && !s.doneClosed

structure BInv (s : St) : Prop where
  resp_conn : s.respClosed = true → s.conn = true
  done_resp : s.doneClosed = true → s.respClosed = true ∧ s.pending = 0

theorem init_inv : BInv {} := ⟨by simp, by simp⟩
theorem step_inv (s : St) (e : Ev) (s' : St) (hi : BInv s) (h : step s e = .ok s') : BInv s' := by
  obtain ⟨h1, h2⟩ := hi
  cases e <;> acc h <;> constructor <;> simp_all
theorem reach_inv {evs : List Ev} {s : St} (h : run {} evs = .ok s) : BInv s :=
  run_inv BInv step_inv h init_inv

/-- per connection, `responses` and `done` are closed at most once: every close is preceded by the Open of this
    connection (resp. the close of `responses`) with no other close of the same channel in between -/
theorem never_double_close_broker {evs : List Ev} {s : St} (h : run {} evs = .ok s) :
    Precedes (· = .open_) (fun e => e = .respClose ∨ e = .connClose) (· = .respClose) evs ∧
    Precedes (· = .respClose) (fun e => e = .doneClose ∨ e = .connClose) (· = .doneClose) evs := by
  constructor
  · exact needs respOpen _ _ _ {} rfl
      (by intro s e s' h hf; cases e <;> acc h <;> simp_all [respOpen])
      (by intro s e s' he h; subst he; acc h; simp_all [respOpen]) h
  · exact needs draining _ _ _ {} rfl
      (by intro s e s' h hf; cases e <;> acc h <;> simp_all [draining])
      (by intro s e s' he h; subst he; acc h; simp_all [draining]) h

/-- a promise is only sent on `responses` of the current connection while it is open -/
theorem no_send_after_close_broker {evs : List Ev} {s : St} (h : run {} evs = .ok s) :
    Precedes (· = .open_) (fun e => e = .respClose ∨ e = .connClose) (· = .send) evs := by
  exact needs respOpen _ _ _ {} rfl
      (by intro s e s' h hf; cases e <;> acc h <;> simp_all [respOpen])
      (by intro s e s' he h; subst he; acc h; simp_all [respOpen]) h

/-- Close: `responses` closed, then the receiver closes `done` (awaited), then the connection is closed -/
theorem close_order_broker {evs : List Ev} {s : St} (h : run {} evs = .ok s) :
    Precedes (· = .respClose) (fun e => e = .doneClose ∨ e = .connClose) (· = .doneClose) evs ∧
    Precedes (· = .doneClose) (fun e => e = .connClose) (· = .connClose) evs := by
  refine ⟨(never_double_close_broker h).2, ?_⟩
  exact needs (fun s : St => s.doneClosed) _ _ _ {} rfl
      (by intro s e s' h hf; cases e <;> acc h)
      (by intro s e s' he h; subst he; acc h) h

/-- the receiver drains: when `done` is closed every promise sent on this connection has been taken -/
theorem outputs_closed_after_last_event_broker {pre : List Ev} {s : St} (h : run {} (pre ++ [.doneClose]) = .ok s) :
    ∀ l r, pre = l ++ .open_ :: r → .open_ ∉ r → r.count .recv = r.count .send := by
  obtain ⟨s1, h1, h2⟩ := run_append.mp h
  obtain ⟨s2, h3, _⟩ := run_cons.mp h2
  have hp : s1.pending = 0 := by acc h3
  have key := run_hist (step := step)
    (fun hst (s : St) => ∀ l r, hst = l ++ .open_ :: r → .open_ ∉ r → s.pending + r.count .recv = r.count .send)
    (by
      intro hst s e s' ih hs l r he hno
      rcases snoc_eq_append_cons he with ⟨rfl, rfl, rfl⟩ | ⟨r0, rfl, rfl⟩
      · acc hs
      · have hne : e ≠ .open_ := by intro hc; apply hno; simp [hc]
        have hno0 : .open_ ∉ r0 := by intro hc; apply hno; simp [hc]
        cases e <;> acc hs <;> (try (have := ih l r0 rfl hno0; omega)))
    (h0 := []) h1 (by intro l r he; simp at he)
  intro l r he hno
  have := key l r (by simpa using he) hno
  omega

/-- a second Close finds the broker not connected and touches nothing -/
theorem close_twice_harmless_broker (s s' : St) (h : step s .closeNotConn = .ok s') : s.conn = false ∧ s' = s := by
  acc h

/-- once `responses` is closed, the receiver or Close can always move until the connection is closed -/
theorem no_deadlock_after_close_broker {evs : List Ev} {s : St} (h : run {} evs = .ok s) (hc : s.respClosed = true) :
    ∃ e s', internal e = true ∧ step s e = .ok s' := by
  have hi := reach_inv h
  by_cases hd : s.doneClosed = true
  · exact ⟨.connClose, _, rfl, by simp [step, hd]; rfl⟩
  · by_cases hp : s.pending = 0
    · exact ⟨.doneClose, _, rfl, by simp [step, hc, hp, hd]; rfl⟩
    · exact ⟨.recv, _, rfl, by simp [step, hp, hd]; rfl⟩

/-- ... and each such move decreases the rank (promises still to drain + steps of Close) -/
theorem close_terminates_broker {evs : List Ev} {s : St} (h : run {} evs = .ok s) (hc : s.respClosed = true)
    (e : Ev) (s' : St) (hs : step s e = .ok s') (hi : internal e = true) : rank s' < rank s := by
  have hv := reach_inv h
  have hconn := hv.resp_conn hc
  cases e <;> simp [internal] at hi <;> acc hs <;> simp_all [rank] <;> omega

example : accepts step {} [.closeNotConn, .open_, .send, .send, .recv, .respClose, .recv, .doneClose, .connClose, .closeNotConn,
    .open_, .send, .respClose, .recv, .doneClose, .connClose] = true := by decide
example : accepts step {} [.open_, .send, .respClose, .doneClose] = false := by decide   -- done closed with a promise pending
example : accepts step {} [.open_, .respClose, .connClose] = false := by decide         -- Close did not wait for the receiver
example : accepts step {} [.open_, .respClose, .respClose] = false := by decide         -- double close
example : accepts step {} [.open_, .respClose, .send] = false := by decide              -- send on closed channel

end Br
end Props.C12life
