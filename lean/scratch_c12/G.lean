import SaramaVerif.Model.Lifecycle
namespace Props.C12life
open Model.Lifecycle

section Generic
variable {σ ε : Type} {step : σ → ε → Except String σ}

theorem run_cons {s : σ} {e : ε} {es : List ε} {s'' : σ} :
    runWith step s (e :: es) = .ok s'' ↔ ∃ s', step s e = .ok s' ∧ runWith step s' es = .ok s'' := by
  simp only [runWith]
  cases h : step s e with
  | ok s' => simp
  | error m => simp

theorem run_append {s : σ} {xs ys : List ε} {s'' : σ} :
    runWith step s (xs ++ ys) = .ok s'' ↔ ∃ s', runWith step s xs = .ok s' ∧ runWith step s' ys = .ok s'' := by
  induction xs generalizing s with
  | nil => simp [runWith]
  | cons x xs ih =>
    simp only [List.cons_append, run_cons, ih]
    constructor
    · rintro ⟨s1, h1, s2, h2, h3⟩; exact ⟨s2, ⟨s1, h1, h2⟩, h3⟩
    · rintro ⟨s2, ⟨s1, h1, h2⟩, h3⟩; exact ⟨s1, h1, s2, h2, h3⟩

/-- the acceptors are prefix-closed -/
theorem run_prefix {s : σ} {xs ys : List ε} {s'' : σ} (h : runWith step s (xs ++ ys) = .ok s'') :
    ∃ s', runWith step s xs = .ok s' := by
  obtain ⟨s', h1, _⟩ := run_append.mp h; exact ⟨s', h1⟩

/-- state invariants are preserved along accepted runs -/
theorem run_inv (P : σ → Prop) (hstep : ∀ s e s', P s → step s e = .ok s' → P s')
    {s : σ} {evs : List ε} {s' : σ} (h : runWith step s evs = .ok s') (h0 : P s) : P s' := by
  induction evs generalizing s with
  | nil => simp [runWith] at h; exact h ▸ h0
  | cons e es ih =>
    obtain ⟨s1, h1, h2⟩ := run_cons.mp h
    exact ih h2 (hstep s e s1 h0 h1)

/-- history-aware invariants -/
theorem run_hist (P : List ε → σ → Prop) (hstep : ∀ h s e s', P h s → step s e = .ok s' → P (h ++ [e]) s')
    {evs : List ε} : ∀ {h0 : List ε} {s s' : σ}, runWith step s evs = .ok s' → P h0 s → P (h0 ++ evs) s' := by
  induction evs with
  | nil => intro h0 s s' h hp; simp [runWith] at h; simpa [h] using h ▸ hp
  | cons e es ih =>
    intro h0 s s' h hp
    obtain ⟨s1, h1, h2⟩ := run_cons.mp h
    have := ih h2 (hstep h0 s e s1 hp h1)
    simpa using this

/-- `pre` contains an event satisfying `pa` after which no event satisfying `pr` occurs -/
def Since (pa pr : ε → Prop) (pre : List ε) : Prop := ∃ l a r, pre = l ++ a :: r ∧ pa a ∧ ∀ x ∈ r, ¬ pr x

/-- where a flag comes from: it was set by a `pa` event and not reset (`pr`) since -/
theorem flag_origin (f : σ → Bool) (pa pr : ε → Prop)
    (hset : ∀ s e s', step s e = .ok s' → f s' = true → (f s = true ∧ ¬ pr e) ∨ pa e)
    {evs : List ε} : ∀ {s s' : σ}, runWith step s evs = .ok s' → f s' = true →
      (f s = true ∧ ∀ x ∈ evs, ¬ pr x) ∨ Since pa pr evs := by
  induction evs with
  | nil => intro s s' h hf; simp [runWith] at h; subst h; left; exact ⟨hf, by simp⟩
  | cons e es ih =>
    intro s s' h hf
    obtain ⟨s1, h1, h2⟩ := run_cons.mp h
    rcases ih h2 hf with ⟨hf1, hno⟩ | ⟨l, a, r, he, hpa, hr⟩
    · rcases hset s e s1 h1 hf1 with ⟨hf0, hnr⟩ | hpa
      · left; refine ⟨hf0, ?_⟩
        intro x hx; rcases List.mem_cons.mp hx with rfl | hx
        · exact hnr
        · exact hno x hx
      · right; exact ⟨[], e, es, rfl, hpa, hno⟩
    · right; exact ⟨e :: l, a, r, by simp [he], hpa, hr⟩

/-- an event that requires a flag is preceded by the event that sets it (with no reset in between) -/
theorem needs (f : σ → Bool) (pa pr pb : ε → Prop) (init : σ) (hinit : f init = false)
    (hset : ∀ s e s', step s e = .ok s' → f s' = true → (f s = true ∧ ¬ pr e) ∨ pa e)
    (hreq : ∀ s e s', pb e → step s e = .ok s' → f s = true)
    {evs : List ε} {s' : σ} (h : runWith step init evs = .ok s') :
    ∀ pre b post, evs = pre ++ b :: post → pb b → Since pa pr pre := by
  intro pre b post he hb
  subst he
  obtain ⟨s1, h1, h2⟩ := run_append.mp h
  obtain ⟨s2, h3, _⟩ := run_cons.mp h2
  have hf := hreq s1 b s2 hb h3
  rcases flag_origin f pa pr hset h1 hf with ⟨hf0, _⟩ | hs
  · simp [hinit] at hf0
  · exact hs

/-- a flag that is set by the `p` events only, never reset, and must be clear for a `p` event: at most one `p` event -/
theorem count_le_one [DecidablePred p] (f : σ → Bool)
    (hset : ∀ s e s', step s e = .ok s' → (f s' = true ↔ f s = true ∨ p e))
    (hreq : ∀ s e s', p e → step s e = .ok s' → f s = false)
    {evs : List ε} : ∀ {s s' : σ}, runWith step s evs = .ok s' →
      evs.countP (fun e => decide (p e)) + (if f s then 1 else 0) ≤ 1 := by
  induction evs with
  | nil => intro s s' _; simp; split <;> omega
  | cons e es ih =>
    intro s s' h
    obtain ⟨s1, h1, h2⟩ := run_cons.mp h
    have ih' := ih h2
    have hs := hset s e s1 h1
    by_cases hp : p e
    · have hf0 := hreq s e s1 hp h1
      have hf1 : f s1 = true := hs.mpr (Or.inr hp)
      simp only [List.countP_cons, hp, decide_true, ↓reduceIte, hf0, hf1] at ih' ⊢
      simp at ih' ⊢; omega
    · simp only [List.countP_cons, hp, decide_false] at ih' ⊢
      by_cases hf0 : f s = true
      · have hf1 : f s1 = true := hs.mpr (Or.inl hf0)
        simp [hf0, hf1] at ih' ⊢; omega
      · have hf0' : f s = false := by simpa using hf0
        simp [hf0'] 
        split at ih' <;> omega

/-- once a flag is set and never reset, an event that needs it clear is not accepted any more -/
theorem none_after (f : σ → Bool) (pc pb : ε → Prop)
    (hkeep : ∀ s e s', step s e = .ok s' → f s = true → f s' = true)
    (hclose : ∀ s e s', pc e → step s e = .ok s' → f s' = true)
    (hreq : ∀ s e s', pb e → step s e = .ok s' → f s = false)
    {init : σ} {pre post : List ε} {c : ε} {s' : σ} (h : runWith step init (pre ++ c :: post) = .ok s') (hc : pc c) :
    ∀ e ∈ post, ¬ pb e := by
  obtain ⟨s1, _, h2⟩ := run_append.mp h
  obtain ⟨s2, h3, h4⟩ := run_cons.mp h2
  have hf2 := hclose s1 c s2 hc h3
  clear h h2 h3
  induction post generalizing s2 with
  | nil => simp
  | cons x xs ih =>
    obtain ⟨s3, h5, h6⟩ := run_cons.mp h4
    intro e he
    rcases List.mem_cons.mp he with rfl | he
    · intro hb; have := hreq s2 e s3 hb h5; simp [hf2] at this
    · exact ih s3 h6 (hkeep s2 x s3 h5 hf2) e he

end Generic
end Props.C12life
