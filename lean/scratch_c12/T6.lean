import SaramaVerif.Props.C12life
namespace Props.C12life
open Model.Lifecycle

/-- `none_after` with a state invariant available to the guard argument -/
theorem none_after_inv {σ ε : Type} {step : σ → ε → Except String σ} (I : σ → Prop) (f : σ → Bool) (pc pb : ε → Prop)
    (hI : ∀ s e s', I s → step s e = .ok s' → I s')
    (hkeep : ∀ s e s', step s e = .ok s' → f s = true → f s' = true)
    (hclose : ∀ s e s', pc e → step s e = .ok s' → f s' = true)
    (hreq : ∀ s e s', I s → pb e → step s e = .ok s' → f s = false)
    {init : σ} (h0 : I init) {pre post : List ε} {c : ε} {s' : σ} (h : runWith step init (pre ++ c :: post) = .ok s') (hc : pc c) :
    ∀ e ∈ post, ¬ pb e := by
  obtain ⟨s1, h1, h2⟩ := run_append.mp h
  obtain ⟨s2, h3, h4⟩ := run_cons.mp h2
  have hi2 : I s2 := hI s1 c s2 (run_inv I hI h1 h0) h3
  have hf2 := hclose s1 c s2 hc h3
  clear h h2 h3 h1
  induction post generalizing s2 with
  | nil => simp
  | cons x xs ih =>
    obtain ⟨s3, h5, h6⟩ := run_cons.mp h4
    intro e he
    rcases List.mem_cons.mp he with rfl | he
    · intro hb; have := hreq s2 e s3 hi2 hb h5; simp [hf2] at this
    · exact ih s3 h6 (hI s2 x s3 hi2 h5) (hkeep s2 x s3 h5 hf2) e he

namespace PC
open Model.Lifecycle.PC

local macro "acc" h:ident : tactic =>
  `(tactic| (simp only [step] at $h:ident <;> (repeat' split at $h:ident) <;>
      first | (cases $h:ident; done) | (injection $h:ident with $h:ident; subst $h:ident; simp_all)))

/-- the ownership discipline of the hand-shake (who holds the child decides who may touch its channels) -/
structure PInv (s : St) : Prop where
  nobody_   : s.owner = .nobody → s.ref = none ∧ s.trigClosed = false
  bc_       : ∀ b, s.owner = .bc b → s.trigClosed = false ∧ s.ref.isSome = true
  feeder_   : s.owner = .feeder → s.trigClosed = false ∧ s.slow = true ∧ s.ref.isSome = true
  busy_     : s.busy = true → s.owner = .disp ∧ s.token = false
  token_    : s.token = true → s.owner = .disp ∧ s.trigClosed = false
  disp_     : s.owner = .disp → s.trigClosed = false → s.busy = true ∨ s.token = true
  slow_     : s.slow = true → s.owner = .feeder
  trig_     : s.trigClosed = true → s.owner = .disp
  exiting_  : s.exiting = true → s.trigClosed = true ∧ s.ref = none
  removed_  : s.removed = true → s.exiting = true ∧ s.ref = none
  fclosed_  : s.feederClosed = true → s.removed = true
  fexited_  : s.feederExited = true → s.feederClosed = true ∧ s.inflight = false ∧ s.feeding = false
  mclosed_  : s.msgsClosed = true → s.feederExited = true
  eclosed_  : s.errsClosed = true → s.msgsClosed = true
  dying_    : s.dying = true → s.started = true
  started_  : s.started = false → s.owner = .nobody

theorem init_inv : PInv {} := by constructor <;> simp

theorem step_inv (s : St) (e : Ev) (s' : St) (hi : PInv s) (h : step s e = .ok s') : PInv s' := by
  obtain ⟨i1, i2, i3, i4, i5, i6, i7, i8, i9, i10, i11, i12, i13, i14, i15, i16⟩ := hi
  cases e with
  | inputSend w b => cases w <;> acc h <;> constructor <;> simp_all
  | _ => acc h <;> constructor <;> simp_all

theorem reach_inv {evs : List Ev} {s : St} (h : run {} evs = .ok s) : PInv s :=
  run_inv PInv step_inv h init_inv

theorem dying_set (s : St) (e : Ev) (s' : St) (h : step s e = .ok s') : (s'.dying = true ↔ s.dying = true ∨ e = .dyingClose) := by
  cases e with
  | inputSend w b => cases w <;> acc h
  | _ => acc h
def isTrigClose : Ev → Prop | .trigCloseDisp => True | .trigCloseBc _ _ => True | _ => False
def isTrigSend : Ev → Prop | .trigSendDisp => True | .trigSendBc _ => True | _ => False
instance : DecidablePred isTrigClose := fun e => by cases e <;> simp [isTrigClose] <;> infer_instance
theorem trig_set (s : St) (e : Ev) (s' : St) (h : step s e = .ok s') : (s'.trigClosed = true ↔ s.trigClosed = true ∨ isTrigClose e) := by
  cases e with
  | inputSend w b => cases w <;> acc h <;> simp [isTrigClose]
  | _ => acc h <;> simp_all [isTrigClose]
theorem removed_set (s : St) (e : Ev) (s' : St) (h : step s e = .ok s') : (s'.removed = true ↔ s.removed = true ∨ e = .remove) := by
  cases e with
  | inputSend w b => cases w <;> acc h
  | _ => acc h
theorem fclosed_set (s : St) (e : Ev) (s' : St) (h : step s e = .ok s') : (s'.feederClosed = true ↔ s.feederClosed = true ∨ e = .feederClose) := by
  cases e with
  | inputSend w b => cases w <;> acc h
  | _ => acc h
theorem fexited_set (s : St) (e : Ev) (s' : St) (h : step s e = .ok s') : (s'.feederExited = true ↔ s.feederExited = true ∨ e = .feederExit) := by
  cases e with
  | inputSend w b => cases w <;> acc h
  | _ => acc h
theorem mclosed_set (s : St) (e : Ev) (s' : St) (h : step s e = .ok s') : (s'.msgsClosed = true ↔ s.msgsClosed = true ∨ e = .msgsClose) := by
  cases e with
  | inputSend w b => cases w <;> acc h
  | _ => acc h
theorem eclosed_set (s : St) (e : Ev) (s' : St) (h : step s e = .ok s') : (s'.errsClosed = true ↔ s.errsClosed = true ∨ e = .errsClose) := by
  cases e with
  | inputSend w b => cases w <;> acc h
  | _ => acc h

/-- every channel of a partition consumer is closed at most once: dying (closeOnce), trigger (by whoever holds the
    child: its dispatcher or the broker worker), feeder, messages, errors -/
theorem never_double_close_pc {evs : List Ev} {s : St} (h : run {} evs = .ok s) :
    evs.count .dyingClose ≤ 1 ∧ evs.countP (fun e => decide (isTrigClose e)) ≤ 1 ∧ evs.count .feederClose ≤ 1 ∧
    evs.count .msgsClose ≤ 1 ∧ evs.count .errsClose ≤ 1 := by
  refine ⟨?_, ?_, ?_, ?_, ?_⟩
  · have := count_le_one (p := fun e => e = Ev.dyingClose) (fun s : St => s.dying) dying_set
      (by intro s e s' he h; subst he; acc h) h
    rw [count_eq_countP]; simpa using this
  · have := count_le_one (p := isTrigClose) (fun s : St => s.trigClosed) trig_set
      (by intro s e s' he h; cases e <;> simp [isTrigClose] at he <;> acc h) h
    simpa using this
  · have := count_le_one (p := fun e => e = Ev.feederClose) (fun s : St => s.feederClosed) fclosed_set
      (by intro s e s' he h; subst he; acc h) h
    rw [count_eq_countP]; simpa using this
  · have := count_le_one (p := fun e => e = Ev.msgsClose) (fun s : St => s.msgsClosed) mclosed_set
      (by intro s e s' he h; subst he; acc h) h
    rw [count_eq_countP]; simpa using this
  · have := count_le_one (p := fun e => e = Ev.errsClose) (fun s : St => s.errsClosed) eclosed_set
      (by intro s e s' he h; subst he; acc h) h
    rw [count_eq_countP]; simpa using this

/-- no send on a closed channel: nothing on trigger after it was closed (by either side), no response into feeder
    after the dispatcher closed it, no message after Messages() was closed, no error after Errors() was closed -/
theorem no_send_after_close_pc {pre post : List Ev} {c : Ev} {s : St} (h : run {} (pre ++ c :: post) = .ok s) :
    (isTrigClose c → ∀ e ∈ post, ¬ isTrigSend e) ∧
    (c = .feederClose → ∀ e ∈ post, ∀ b, e ≠ .feederSend b) ∧
    (c = .msgsClose → ∀ e ∈ post, e ≠ .msgSend) ∧
    (c = .errsClose → ∀ e ∈ post, e ≠ .errSend) := by
  refine ⟨?_, ?_, ?_, ?_⟩
  · intro hc
    exact none_after (fun s : St => s.trigClosed) isTrigClose isTrigSend
      (by intro s e s' h hf; exact (trig_set s e s' h).mpr (Or.inl hf))
      (by intro s e s' he h; exact (trig_set s e s' h).mpr (Or.inr he))
      (by intro s e s' he h; cases e <;> simp [isTrigSend] at he <;> acc h) h hc
  · intro hc e he b hb
    exact none_after (fun s : St => s.feederClosed) (· = .feederClose) (fun e => ∃ b, e = .feederSend b)
      (by intro s e s' h hf; exact (fclosed_set s e s' h).mpr (Or.inl hf))
      (by intro s e s' he h; exact (fclosed_set s e s' h).mpr (Or.inr he))
      (by intro s e s' he h; rcases he with ⟨b, rfl⟩; acc h) h hc e he ⟨b, hb⟩
  · intro hc
    exact none_after (fun s : St => s.msgsClosed) (· = .msgsClose) (· = .msgSend)
      (by intro s e s' h hf; exact (mclosed_set s e s' h).mpr (Or.inl hf))
      (by intro s e s' he h; exact (mclosed_set s e s' h).mpr (Or.inr he))
      (by intro s e s' he h; subst he; acc h) h hc
  · intro hc
    exact none_after (fun s : St => s.errsClosed) (· = .errsClose) (· = .errSend)
      (by intro s e s' h hf; exact (eclosed_set s e s' h).mpr (Or.inl hf))
      (by intro s e s' he h; exact (eclosed_set s e s' h).mpr (Or.inr he))
      (by intro s e s' he h; subst he; acc h) h hc

/-- the ownership discipline makes the closed-channel guards redundant: whoever holds the child finds the channels
    it may touch open.  (A broker worker that holds it: trigger, feeder, errors open and trigger empty; the
    dispatcher handling a token before it closed trigger: trigger empty, errors open; the feeder with a response in
    hand or on the slow path: messages open.) -/
theorem holder_finds_channels_open {evs : List Ev} {s : St} (h : run {} evs = .ok s) :
    (∀ b, s.owner = .bc b → s.trigClosed = false ∧ s.token = false ∧ s.feederClosed = false ∧ s.errsClosed = false) ∧
    (s.busy = true → s.trigClosed = false → s.token = false ∧ s.errsClosed = false) ∧
    (s.slow = true → s.msgsClosed = false ∧ s.trigClosed = false) := by
  have hi := reach_inv h
  refine ⟨?_, ?_, ?_⟩
  · intro b hb
    have h1 := (hi.bc_ b hb).1
    have h2 : s.token = false := by
      cases ht : s.token with
      | false => rfl
      | true => have := (hi.token_ ht).1; simp [hb] at this
    have h3 : s.feederClosed = false := by
      cases hf : s.feederClosed with
      | false => rfl
      | true =>
        have := (hi.exiting_ (hi.removed_ (hi.fclosed_ hf)).1).1
        simp [h1] at this
    have h4 : s.errsClosed = false := by
      cases he : s.errsClosed with
      | false => rfl
      | true =>
        have := (hi.fexited_ (hi.mclosed_ (hi.eclosed_ he))).1
        simp [h3] at this
    exact ⟨h1, h2, h3, h4⟩
  · intro hb ht
    refine ⟨(hi.busy_ hb).2, ?_⟩
    cases he : s.errsClosed with
    | false => rfl
    | true =>
      have := (hi.exiting_ (hi.removed_ (hi.fclosed_ (hi.fexited_ (hi.mclosed_ (hi.eclosed_ he))).1)).1).1
      simp [ht] at this
  · intro hs
    have ho := hi.slow_ hs
    have ht := (hi.feeder_ ho).1
    refine ⟨?_, ht⟩
    cases hm : s.msgsClosed with
    | false => rfl
    | true =>
      have := (hi.exiting_ (hi.removed_ (hi.fclosed_ (hi.fexited_ (hi.mclosed_ hm)).1)).1).1
      simp [ht] at this

/-- Messages()/Errors() are closed after the feeder's last delivery: the feeder leaves its loop only when the
    dispatcher closed the feeder channel and no response is in flight or in hand, and after that nothing is taken
    from the feeder channel, acknowledged or delivered any more -/
theorem outputs_closed_after_last_event_pc {evs : List Ev} {s : St} (h : run {} evs = .ok s) :
    Precedes (· = .feederExit) (fun _ => False) (· = .msgsClose) evs ∧
    Precedes (· = .msgsClose) (fun _ => False) (· = .errsClose) evs ∧
    (∀ pre post, evs = pre ++ .feederExit :: post → ∀ e ∈ post, e ≠ .msgSend ∧ e ≠ .feederRecv ∧ (∀ w, e ≠ .ack w) ∧ ∀ b, e ≠ .feederSend b) := by
  refine ⟨?_, ?_, ?_⟩
  · exact needs (fun s : St => s.feederExited) _ _ _ {} rfl
      (by intro s e s' h hf; have := (fexited_set s e s' h).mp hf; simpa using this)
      (by intro s e s' he h; subst he; acc h) h
  · exact needs (fun s : St => s.msgsClosed) _ _ _ {} rfl
      (by intro s e s' h hf; have := (mclosed_set s e s' h).mp hf; simpa using this)
      (by intro s e s' he h; subst he; acc h) h
  · intro pre post he e hmem
    subst he
    have key := none_after_inv PInv (fun s : St => s.feederExited) (· = .feederExit)
      (fun e => e = .msgSend ∨ e = .feederRecv ∨ (∃ w, e = .ack w) ∨ ∃ b, e = .feederSend b)
      step_inv
      (by intro s e s' h hf; exact (fexited_set s e s' h).mpr (Or.inl hf))
      (by intro s e s' he h; exact (fexited_set s e s' h).mpr (Or.inr he))
      (by
        intro s e s' hi he h
        cases hx : s.feederExited with
        | false => rfl
        | true =>
          exfalso
          obtain ⟨h1, h2, h3⟩ := hi.fexited_ hx
          have h4 : s.slow = false := by
            cases hs : s.slow with
            | false => rfl
            | true =>
              have := (hi.feeder_ (hi.slow_ hs)).1
              have := (hi.exiting_ (hi.removed_ (hi.fclosed_ h1)).1).1
              simp_all
          rcases he with rfl | rfl | ⟨w, rfl⟩ | ⟨b, rfl⟩ <;> acc h)
      init_inv h rfl e hmem
    refine ⟨fun hc => key (Or.inl hc), fun hc => key (Or.inr (Or.inl hc)), fun w hc => key (Or.inr (Or.inr (Or.inl ⟨w, hc⟩))),
      fun b hc => key (Or.inr (Or.inr (Or.inr ⟨b, hc⟩)))⟩

/-- the documented order of the tear-down: dying closed (AsyncClose) → trigger closed (by the dispatcher or the broker
    worker, whoever holds the child; only an out-of-range shutdown closes it without dying) → child removed from the
    consumer → feeder channel closed → feeder leaves its loop → Messages() closed → Errors() closed -/
theorem close_order_pc {evs : List Ev} {s : St} (h : run {} evs = .ok s) :
    Precedes (· = .dyingClose) (fun _ => False) (fun e => e = .trigCloseDisp ∨ ∃ b, e = .trigCloseBc b false) evs ∧
    Precedes isTrigClose (fun _ => False) (· = .remove) evs ∧
    Precedes (· = .remove) (fun _ => False) (· = .feederClose) evs ∧
    Precedes (· = .feederClose) (fun _ => False) (· = .feederExit) evs ∧
    Precedes (· = .feederExit) (fun _ => False) (· = .msgsClose) evs ∧
    Precedes (· = .msgsClose) (fun _ => False) (· = .errsClose) evs := by
  refine ⟨?_, ?_, ?_, ?_, (outputs_closed_after_last_event_pc h).1, (outputs_closed_after_last_event_pc h).2.1⟩
  · exact needs (fun s : St => s.dying) _ _ _ {} rfl
      (by intro s e s' h hf; have := (dying_set s e s' h).mp hf; simpa using this)
      (by intro s e s' he h; rcases he with rfl | ⟨b, rfl⟩ <;> acc h) h
  · exact needs (fun s : St => s.trigClosed) _ _ _ {} rfl
      (by intro s e s' h hf; have := (trig_set s e s' h).mp hf; simpa using this)
      (by intro s e s' he h; subst he; acc h) h
  · exact needs (fun s : St => s.removed) _ _ _ {} rfl
      (by intro s e s' h hf; have := (removed_set s e s' h).mp hf; simpa using this)
      (by intro s e s' he h; subst he; acc h) h
  · exact needs (fun s : St => s.feederClosed) _ _ _ {} rfl
      (by intro s e s' h hf; have := (fclosed_set s e s' h).mp hf; simpa using this)
      (by intro s e s' he h; subst he; acc h) h

/-- no deadlock after AsyncClose: in every reachable state in which dying is closed and Errors() is still open, one of
    the partition consumer's goroutines (dispatcher, feeder) or the broker worker holding it has an enabled step -/
theorem no_deadlock_after_close_pc {evs : List Ev} {s : St} (h : run {} evs = .ok s) (hd : s.dying = true) (he : s.errsClosed = false) :
    ∃ e s', internal e = true ∧ step s e = .ok s' := by
  have hi := reach_inv h
  have hst := hi.dying_ hd
  cases ho : s.owner with
  | nobody => exact ⟨.inputSend .new 0, _, rfl, by simp [step, hst, ho]; rfl⟩
  | bc b =>
    have ht := (hi.bc_ b ho).1
    exact ⟨.trigCloseBc b false, _, rfl, by simp [step, ho, hd, ht]; rfl⟩
  | feeder =>
    obtain ⟨_, _, hr⟩ := hi.feeder_ ho
    obtain ⟨b, hb⟩ := Option.isSome_iff_exists.mp hr
    exact ⟨.inputSend .feeder b, _, rfl, by simp [step, ho, hb]; rfl⟩
  | disp =>
    cases ht : s.trigClosed with
    | false =>
      cases hb : s.busy with
      | true => exact ⟨.trigCloseDisp, _, rfl, by simp [step, hb, ho, hd, ht]; rfl⟩
      | false =>
        have htok : s.token = true := by
          rcases hi.disp_ ho ht with h1 | h1
          · simp [hb] at h1
          · exact h1
        have hex : s.exiting = false := by
          cases hx : s.exiting with
          | false => rfl
          | true => have := (hi.exiting_ hx).1; simp [ht] at this
        exact ⟨.dispToken, _, rfl, by simp [step, htok, hb, hex, ho]; rfl⟩
    | true =>
      cases hrm : s.removed with
      | false =>
        cases hr : s.ref with
        | none => exact ⟨.remove, _, rfl, by simp [step, ht, ho, hrm, hr]; rfl⟩
        | some b =>
          cases hx : s.exiting with
          | false => exact ⟨.unrefExit b, _, rfl, by simp [step, ht, ho, hx, hr]; rfl⟩
          | true =>
            exfalso
            have := (hi.exiting_ hx).2
            simp [hr] at this
      | true =>
        cases hfc : s.feederClosed with
        | false => exact ⟨.feederClose, _, rfl, by simp [step, hrm, hfc]; rfl⟩
        | true =>
          cases hfe : s.feederExited with
          | false =>
            cases hin : s.inflight with
            | true => exact ⟨.feederRecv, _, rfl, by simp [step, hin]; rfl⟩
            | false =>
              cases hfd : s.feeding with
              | true => exact ⟨.ack 0, _, rfl, by simp [step, hfd]; rfl⟩
              | false =>
                have hsl : s.slow = false := by
                  cases hs : s.slow with
                  | false => rfl
                  | true => have := hi.slow_ hs; simp [ho] at this
                exact ⟨.feederExit, _, rfl, by simp [step, hfc, hin, hfd, hsl, hfe]; rfl⟩
          | true =>
            cases hm : s.msgsClosed with
            | false => exact ⟨.msgsClose, _, rfl, by simp [step, hfe, hm]; rfl⟩
            | true => exact ⟨.errsClose, _, rfl, by simp [step, hm, he]; rfl⟩

example : accepts step {} [.start, .inputSend .new 7, .feederSend 7, .feederRecv, .msgSend, .msgSend, .ack 0, .dyingClose,
    .feederSend 7, .feederRecv, .msgSend, .ack 1, .trigCloseBc 7 false, .unrefExit 7, .remove, .feederClose, .feederExit,
    .msgsClose, .errsClose] = true := by decide
-- slow reader, broker worker aborts, redispatch fails once, then closed at the dispatcher
example : accepts step {} [.start, .inputSend .new 7, .feederSend 7, .feederRecv, .ack 2, .msgSend, .inputSend .feeder 7, .errSend,
    .trigSendBc 7, .dispToken, .unrefRedispatch 7, .errSend, .trigSendDisp, .dyingClose, .dispToken, .trigCloseDisp, .remove,
    .feederClose, .feederExit, .msgsClose, .errsClose] = true := by decide
example : accepts step {} [.start, .inputSend .new 7, .dyingClose, .dyingClose] = false := by decide   -- AsyncClose without closeOnce
example : accepts step {} [.start, .inputSend .new 7, .dyingClose, .trigCloseBc 7 false, .unrefExit 7, .remove, .feederClose,
    .msgsClose] = false := by decide   -- messages closed before the feeder left its loop
example : accepts step {} [.start, .inputSend .new 7, .dyingClose, .trigCloseBc 7 false, .trigSendBc 7] = false := by decide
example : accepts step {} [.start, .inputSend .new 7, .feederSend 7, .dyingClose, .trigCloseBc 7 false, .unrefExit 7, .remove,
    .feederClose, .feederExit] = false := by decide   -- feeder left with a response still in the channel

end PC
end Props.C12life
