import SaramaVerif.Props.C12life
namespace Props.C12life
open Model.Lifecycle

theorem count_eq_countP {ε : Type} [DecidableEq ε] (a : ε) (l : List ε) :
    l.count a = l.countP (fun e => decide (e = a)) := by
  induction l with
  | nil => rfl
  | cons x xs ih => simp only [List.count_cons, List.countP_cons, ih, beq_iff_eq, decide_eq_true_eq]

/-- every occurrence of an event satisfying `pb` is preceded by one satisfying `pa`, with no `pr` in between -/
def Precedes {ε : Type} (pa pr pb : ε → Prop) (evs : List ε) : Prop :=
  ∀ pre b post, evs = pre ++ b :: post → pb b → Since pa pr pre

namespace Cli
open Model.Lifecycle.Cli

local macro "acc" h:ident : tactic =>
  `(tactic| (simp only [step] at $h:ident <;> (repeat' split at $h:ident) <;> simp_all <;> (try (subst $h:ident; simp_all))))

theorem closer_set (s : St) (e : Ev) (s' : St) (h : step s e = .ok s') : (s'.closer = true ↔ s.closer = true ∨ e = .closerClose) := by
  cases e <;> acc h
theorem closed_set (s : St) (e : Ev) (s' : St) (h : step s e = .ok s') : (s'.closed = true ↔ s.closed = true ∨ e = .closedClose) := by
  cases e <;> acc h
theorem waited_set (s : St) (e : Ev) (s' : St) (h : step s e = .ok s') : (s'.waited = true ↔ s.waited = true ∨ e = .closedRecv) := by
  cases e <;> acc h
theorem nilled_set (s : St) (e : Ev) (s' : St) (h : step s e = .ok s') : (s'.nilled = true ↔ s.nilled = true ∨ e = .mapsNil) := by
  cases e <;> acc h

/-- `closer` and `closed` are closed at most once, the maps are dropped at most once (a second close of `closer` -
    e.g. a Close that does not notice the client is closed already - is not accepted) -/
theorem never_double_close_client {evs : List Ev} {s : St} (h : run {} evs = .ok s) :
    evs.count .closerClose ≤ 1 ∧ evs.count .closedClose ≤ 1 ∧ evs.count .mapsNil ≤ 1 := by
  refine ⟨?_, ?_, ?_⟩
  · have := count_le_one (p := fun e => e = Ev.closerClose) (fun s : St => s.closer) closer_set
      (by intro s e s' he h; subst he; acc h) h
    rw [count_eq_countP]; simpa using this
  · have := count_le_one (p := fun e => e = Ev.closedClose) (fun s : St => s.closed) closed_set
      (by intro s e s' he h; subst he; acc h) h
    rw [count_eq_countP]; simpa using this
  · have := count_le_one (p := fun e => e = Ev.mapsNil) (fun s : St => s.nilled) nilled_set
      (by intro s e s' he h; subst he; acc h) h
    rw [count_eq_countP]; simpa using this

/-- the documented order of Client.Close: closer closed, then the background updater's `closed` awaited (and the
    updater has closed it before), then the brokers are closed, then the maps are dropped; ErrClosedClient only
    from a client whose maps were dropped -/
theorem close_order_client {evs : List Ev} {s : St} (h : run {} evs = .ok s) :
    Precedes (· = .closerClose) (fun _ => False) (· = .closedRecv) evs ∧
    Precedes (· = .closedClose) (fun _ => False) (· = .closedRecv) evs ∧
    Precedes (· = .closedRecv) (fun _ => False) (· = .brokerClose) evs ∧
    Precedes (· = .closedRecv) (fun _ => False) (· = .mapsNil) evs ∧
    Precedes (· = .mapsNil) (fun _ => False) (· = .closeAgain) evs := by
  refine ⟨?_, ?_, ?_, ?_, ?_⟩
  · exact needs (fun s : St => s.closer) _ _ _ {} rfl
      (by intro s e s' h hf; have := (closer_set s e s' h).mp hf; simpa using this)
      (by intro s e s' he h; subst he; acc h) h
  · exact needs (fun s : St => s.closed) _ _ _ {} rfl
      (by intro s e s' h hf; have := (closed_set s e s' h).mp hf; simpa using this)
      (by intro s e s' he h; subst he; acc h) h
  · exact needs (fun s : St => s.waited) _ _ _ {} rfl
      (by intro s e s' h hf; have := (waited_set s e s' h).mp hf; simpa using this)
      (by intro s e s' he h; subst he; acc h) h
  · exact needs (fun s : St => s.waited) _ _ _ {} rfl
      (by intro s e s' h hf; have := (waited_set s e s' h).mp hf; simpa using this)
      (by intro s e s' he h; subst he; acc h) h
  · exact needs (fun s : St => s.nilled) _ _ _ {} rfl
      (by intro s e s' h hf; have := (nilled_set s e s' h).mp hf; simpa using this)
      (by intro s e s' he h; subst he; acc h) h

/-- no broker is closed through the client after its maps were dropped -/
theorem no_broker_close_after_maps_nil {pre post : List Ev} {s : St} (h : run {} (pre ++ .mapsNil :: post) = .ok s) :
    ∀ e ∈ post, e ≠ .brokerClose := by
  exact none_after (fun s : St => s.nilled) (· = .mapsNil) (· = .brokerClose)
    (by intro s e s' h hf; exact (nilled_set s e s' h).mpr (Or.inl hf))
    (by intro s e s' he h; exact (nilled_set s e s' h).mpr (Or.inr he))
    (by intro s e s' he h; subst he; acc h) h rfl

/-- closing twice is harmless: the second Close touches no channel -/
theorem close_twice_harmless_client (s s' : St) (h : step s .closeAgain = .ok s') :
    s.nilled = true ∧ s' = { s with again := s.again + 1 } := by
  acc h

/-- after Close started (closer closed) and until the maps are dropped, Close or the updater can always move -/
theorem no_deadlock_after_close_client (s : St) (hc : s.closer = true) (hn : s.nilled = false) :
    ∃ e s', internal e = true ∧ step s e = .ok s' := by
  by_cases h1 : s.closed = true
  · by_cases h2 : s.waited = true
    · exact ⟨.mapsNil, { s with nilled := true }, rfl, by simp [step, h2, hn]⟩
    · exact ⟨.closedRecv, { s with waited := true }, rfl, by simp [step, hc, h1, h2]⟩
  · exact ⟨.closedClose, { s with closed := true }, rfl, by simp [step, h1]⟩

/-- ... and every such move except closing one more broker (a loop over the finite broker maps) decreases the rank -/
theorem close_terminates_client (s : St) (e : Ev) (s' : St) (h : step s e = .ok s') (hi : internal e = true) :
    (e ≠ .brokerClose → rank s' < rank s) ∧ (e = .brokerClose → rank s' = rank s) := by
  cases e <;> simp [internal] at hi <;> simp only [step] at h <;> (repeat' split at h) <;>
    first
    | (cases h; done)
    | (injection h with h; subst h; simp_all [rank])

example : accepts step {} [.closedClose, .closerClose, .closedRecv, .brokerClose, .brokerClose, .mapsNil, .closeAgain] = true := by decide
example : accepts step {} [.closerClose, .closedClose, .closedRecv, .mapsNil, .closerClose] = false := by decide  -- closer closed twice
example : accepts step {} [.closerClose, .closedRecv] = false := by decide  -- Close went on before the updater returned

end Cli
end Props.C12life
