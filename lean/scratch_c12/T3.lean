import SaramaVerif.Props.C12life
namespace Props.C12life
open Model.Lifecycle

namespace POM
open Model.Lifecycle.POM

local macro "acc" h:ident : tactic =>
  `(tactic| (simp only [step] at $h:ident <;> (repeat' split at $h:ident) <;>
      first | (cases $h:ident; done) | (injection $h:ident with $h:ident; subst $h:ident; simp_all)))

theorem closed_set (s : St) (e : Ev) (s' : St) (h : step s e = .ok s') : (s'.closed = true ↔ s.closed = true ∨ e = .errClose) := by
  cases e <;> acc h

/-- the errors channel of a partition offset manager is closed at most once (releaseOnce) -/
theorem never_double_close_pom {evs : List Ev} {s : St} (h : run {} evs = .ok s) : evs.count .errClose ≤ 1 := by
  have := count_le_one (p := fun e => e = Ev.errClose) (fun s : St => s.closed) closed_set
    (by intro s e s' he h; subst he; acc h) h
  rw [count_eq_countP]; simpa using this

/-- the errors channel is closed after the last handleError: no send is accepted after the close -/
theorem outputs_closed_after_last_event_pom {pre post : List Ev} {s : St} (h : run {} (pre ++ .errClose :: post) = .ok s) :
    ∀ e ∈ post, e ≠ .errSend := by
  exact none_after (fun s : St => s.closed) (· = .errClose) (· = .errSend)
    (by intro s e s' h hf; exact (closed_set s e s' h).mpr (Or.inl hf))
    (by intro s e s' he h; exact (closed_set s e s' h).mpr (Or.inr he))
    (by intro s e s' he h; subst he; acc h) h rfl

/-- a POM is released only after it was closed by its owner (AsyncClose / asyncClosePOMs) -/
theorem close_order_pom {evs : List Ev} {s : St} (h : run {} evs = .ok s) :
    Precedes (· = .done) (fun _ => False) (· = .errClose) evs := by
  exact needs (fun s : St => s.done) _ _ _ {} rfl
    (by intro s e s' h hf; cases e <;> acc h)
    (by intro s e s' he h; subst he; acc h) h

example : accepts step {} [.new, .errSend, .done, .errSend, .done, .errClose] = true := by decide
example : accepts step {} [.new, .done, .errClose, .errSend] = false := by decide
example : accepts step {} [.new, .done, .errClose, .errClose] = false := by decide
end POM

namespace BC
open Model.Lifecycle.BC

local macro "acc" h:ident : tactic =>
  `(tactic| (simp only [step] at $h:ident <;> (repeat' split at $h:ident) <;>
      first | (cases $h:ident; done) | (injection $h:ident with $h:ident; subst $h:ident; simp_all)))

theorem input_set (s : St) (e : Ev) (s' : St) (h : step s e = .ok s') : (s'.inputClosed = true ↔ s.inputClosed = true ∨ e = .inputClose) := by
  cases e <;> acc h
theorem wait_set (s : St) (e : Ev) (s' : St) (h : step s e = .ok s') : (s'.waitClosed = true ↔ s.waitClosed = true ∨ e = .waitClose) := by
  cases e <;> acc h
theorem newsubs_set (s : St) (e : Ev) (s' : St) (h : step s e = .ok s') : (s'.newsubsClosed = true ↔ s.newsubsClosed = true ∨ e = .newsubsClose) := by
  cases e <;> acc h

/-- `input`, `wait` and `newSubscriptions` of a broker worker are closed at most once -/
theorem never_double_close_bc {evs : List Ev} {s : St} (h : run {} evs = .ok s) :
    evs.count .inputClose ≤ 1 ∧ evs.count .waitClose ≤ 1 ∧ evs.count .newsubsClose ≤ 1 := by
  refine ⟨?_, ?_, ?_⟩
  · have := count_le_one (p := fun e => e = Ev.inputClose) (fun s : St => s.inputClosed) input_set
      (by intro s e s' he h; subst he; acc h) h
    rw [count_eq_countP]; simpa using this
  · have := count_le_one (p := fun e => e = Ev.waitClose) (fun s : St => s.waitClosed) wait_set
      (by intro s e s' he h; subst he; acc h) h
    rw [count_eq_countP]; simpa using this
  · have := count_le_one (p := fun e => e = Ev.newsubsClose) (fun s : St => s.newsubsClosed) newsubs_set
      (by intro s e s' he h; subst he; acc h) h
    rw [count_eq_countP]; simpa using this

/-- no partition consumer sends itself on `input` after it was closed; no new reference is handed out either;
    nothing is sent on `newSubscriptions` after it was closed -/
theorem no_send_after_close_bc {pre post : List Ev} {s : St} :
    (run {} (pre ++ .inputClose :: post) = .ok s → ∀ e ∈ post, e ≠ .inputSend ∧ ∀ n, e ≠ .ref n) ∧
    (run {} (pre ++ .newsubsClose :: post) = .ok s → ∀ e ∈ post, ∀ n, e ≠ .flush n) := by
  constructor
  · intro h e he
    have := none_after (fun s : St => s.inputClosed) (· = .inputClose) (fun e => e = .inputSend ∨ ∃ n, e = .ref n)
      (by intro s e s' h hf; exact (input_set s e s' h).mpr (Or.inl hf))
      (by intro s e s' he h; exact (input_set s e s' h).mpr (Or.inr he))
      (by intro s e s' he h; rcases he with rfl | ⟨n, rfl⟩ <;> acc h) h rfl e he
    constructor
    · intro hc; exact this (Or.inl hc)
    · intro n hc; exact this (Or.inr ⟨n, hc⟩)
  · intro h e he n hc
    exact none_after (fun s : St => s.newsubsClosed) (· = .newsubsClose) (fun e => ∃ n, e = .flush n)
      (by intro s e s' h hf; exact (newsubs_set s e s' h).mpr (Or.inl hf))
      (by intro s e s' he h; exact (newsubs_set s e s' h).mpr (Or.inr he))
      (by intro s e s' he h; rcases he with ⟨n, rfl⟩; acc h) h rfl e he ⟨n, hc⟩

def isRef : Ev → Bool | .ref _ => true | _ => false
def isUnref : Ev → Bool | .unref _ => true | _ => false

/-- `input` is closed exactly when every reference that was handed out has been returned -/
theorem input_closed_when_unreferenced {pre : List Ev} {s : St} (h : run {} (pre ++ [.inputClose]) = .ok s) :
    pre.countP isUnref = pre.countP isRef := by
  obtain ⟨s1, h1, h2⟩ := run_append.mp h
  obtain ⟨s2, h3, _⟩ := run_cons.mp h2
  have hp : s1.refs = 0 := by acc h3
  have key := run_hist (step := step)
    (fun hst (s : St) => s.refs + hst.countP isUnref = hst.countP isRef)
    (by intro hst s e s' ih hs
        cases e <;> acc hs <;> simp_all [isRef, isUnref] <;> omega)
    (h0 := []) h1 (by simp)
  simp at key; omega

/-- the wind-down of a broker worker: input closed (last reference returned), then the subscription manager closes
    `wait`, then `newSubscriptions`; the worker goroutine returns only after that -/
theorem close_order_bc {evs : List Ev} {s : St} (h : run {} evs = .ok s) :
    Precedes (· = .inputClose) (fun _ => False) (· = .waitClose) evs ∧
    Precedes (· = .waitClose) (fun _ => False) (· = .newsubsClose) evs ∧
    Precedes (· = .newsubsClose) (fun _ => False) (fun e => ∃ a, e = .exit a) evs := by
  refine ⟨?_, ?_, ?_⟩
  · exact needs (fun s : St => s.inputClosed) _ _ _ {} rfl
      (by intro s e s' h hf; have := (input_set s e s' h).mp hf; simpa using this)
      (by intro s e s' he h; subst he; acc h) h
  · exact needs (fun s : St => s.waitClosed) _ _ _ {} rfl
      (by intro s e s' h hf; have := (wait_set s e s' h).mp hf; simpa using this)
      (by intro s e s' he h; subst he; acc h) h
  · exact needs (fun s : St => s.newsubsClosed) _ _ _ {} rfl
      (by intro s e s' h hf; have := (newsubs_set s e s' h).mp hf; simpa using this)
      (by intro s e s' he h; rcases he with ⟨a, rfl⟩; acc h) h

/-- once `input` is closed the worker's goroutines can always move until the worker has returned -/
theorem no_deadlock_after_close_bc (s : St) (hc : s.inputClosed = true) (hx : s.exited = false) :
    ∃ e s', internal e = true ∧ step s e = .ok s' := by
  by_cases h1 : s.waitClosed = true
  · by_cases h2 : s.newsubsClosed = true
    · exact ⟨.exit s.aborted, _, rfl, by simp [step, hx, h2]; rfl⟩
    · exact ⟨.newsubsClose, _, rfl, by simp [step, h1, h2]; rfl⟩
  · exact ⟨.waitClose, _, rfl, by simp [step, hc, h1]; rfl⟩

/-- ... and each of their moves decreases the rank -/
theorem close_terminates_bc (s : St) (e : Ev) (s' : St) (h : step s e = .ok s') (hi : internal e = true) : rank s' < rank s := by
  cases e <;> simp [internal] at hi <;> acc h <;> simp_all [rank] <;> omega

example : accepts step {} [.new, .ref 0, .inputSend, .subAdd, .ref 1, .inputSend, .unref 2, .subAdd, .unref 1, .inputClose,
    .waitClose, .newsubsClose, .exit false] = true := by decide
example : accepts step {} [.new, .ref 0, .inputSend, .subAdd, .abort, .unref 1, .inputClose, .waitClose, .flush 1, .newsubsClose, .exit true] = true := by decide
example : accepts step {} [.new, .ref 0, .unref 1, .inputClose, .inputSend] = false := by decide   -- send on closed input
example : accepts step {} [.new, .ref 0, .ref 1, .unref 2, .inputClose] = false := by decide        -- closed while referenced
end BC

namespace Cons
open Model.Lifecycle.Cons

local macro "acc" h:ident : tactic =>
  `(tactic| (simp only [step] at $h:ident <;> (repeat' split at $h:ident) <;>
      first | (cases $h:ident; done) | (injection $h:ident with $h:ident; subst $h:ident; simp_all)))

/-- the documented order: when Consumer.Close is accepted every partition consumer that was registered has been
    removed again (its dispatcher has finished) -/
theorem close_order_consumer {pre : List Ev} {s : St} (h : run {} (pre ++ [.close]) = .ok s) :
    ∀ c, pre.count (.childAdd c) = pre.count (.childRemove c) := by
  obtain ⟨s1, h1, h2⟩ := run_append.mp h
  obtain ⟨s2, h3, _⟩ := run_cons.mp h2
  have hp : s1.live = [] := by acc h3
  have key := run_hist (step := step)
    (fun hst (s : St) => s.live.Nodup ∧ ∀ c, hst.count (.childAdd c) = hst.count (.childRemove c) + (if c ∈ s.live then 1 else 0))
    (by intro hst s e s' ⟨hnd, ih⟩ hs
        cases e with
        | childAdd c0 =>
          simp only [step] at hs
          split at hs; · cases hs
          split at hs; · cases hs
          rename_i _ hnotin
          injection hs with hs; subst hs
          refine ⟨List.nodup_cons.mpr ⟨hnotin, hnd⟩, ?_⟩
          intro c
          have := ih c
          simp only [List.count_append, List.count_cons, List.count_nil, List.mem_cons]
          by_cases hc : c = c0
          · subst hc; simp [hnotin] at this ⊢; omega
          · have hc' : ¬ c0 = c := fun h => hc h.symm
            simp [hc, hc'] at this ⊢; omega
        | childRemove c0 =>
          simp only [step] at hs
          split at hs; · cases hs
          rename_i hin
          have hin : c0 ∈ s.live := by simpa using hin
          injection hs with hs; subst hs
          refine ⟨hnd.erase _, ?_⟩
          intro c
          have := ih c
          simp only [List.count_append, List.count_cons, List.count_nil]
          by_cases hc : c = c0
          · subst hc
            have hne : c ∉ s.live.erase c := fun hm => ((List.Nodup.mem_erase_iff hnd).mp hm).1 rfl
            simp [hin, hne] at this ⊢; omega
          · have hc' : ¬ c0 = c := fun h => hc h.symm
            have hiff : c ∈ s.live.erase c0 ↔ c ∈ s.live := List.mem_erase_of_ne hc
            simp [hc', hiff] at this ⊢; omega
        | close =>
          simp only [step] at hs
          split at hs; · cases hs
          injection hs with hs; subst hs
          refine ⟨hnd, ?_⟩
          intro c; have := ih c
          simp only [List.count_append, List.count_cons, List.count_nil]
          simp at this ⊢; omega)
    (h0 := []) h1 (by simp)
  intro c
  have := key.2 c
  simp [hp] at this
  exact this

example : accepts step {} [.childAdd 1, .childAdd 2, .childRemove 1, .childRemove 2, .close, .close] = true := by decide
example : accepts step {} [.childAdd 1, .close] = false := by decide
end Cons
end Props.C12life
