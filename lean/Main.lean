import SaramaVerif.Driver.Util
import SaramaVerif.Driver.C17
/-
  svdrv <model>: reads one operation per line on stdin, prints one canonical answer per line.
-/
def main (args : List String) : IO UInt32 := do
  let i ← IO.getStdin
  let o ← IO.getStdout
  match args with
  | ["C17"] => Driver.loop i o Driver.C17.step (); return 0
  | _ => IO.eprintln "usage: svdrv <model>"; return 2
