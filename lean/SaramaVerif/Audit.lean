import Lean
/-
  `#audit_module M`: prints one line per theorem declared in module `M`
      AUDIT <module> <theorem> <axiom>,<axiom>,…
  used by /verif/check to (a) enumerate the proof obligations a property depends on and (b) verify that no
  theorem depends on anything but propext / Classical.choice / Quot.sound (in particular: no sorryAx, no
  native_decide / bv_decide axioms).
-/
open Lean Elab Command

elab "#audit_module " id:ident : command => do
  let env ← getEnv
  let modName := id.getId
  let some modIdx := env.getModuleIdx? modName
    | throwError "audit: unknown module {modName}"
  let consts := env.header.moduleData[modIdx.toNat]!.constNames
  for c in consts do
    if c.isInternalDetail then continue
    match env.find? c with
    | some (.thmInfo _) =>
      let axs ← Lean.collectAxioms c
      let axl := ",".intercalate (axs.toList.map toString)
      IO.println s!"AUDIT {modName} {c} {axl}"
    | _ => pure ()
