import SaramaVerif.Gen.C08
import SaramaVerif.Model.BalanceStickyPieces
/-
  Bridge obligations for C08: what the translator can take from balance_strategy.go (loop-free, integer/boolean).
  The strategies themselves are loops over maps and slices, and the range bounds are float arithmetic — those are
  tied by differential execution (harness) instead; see lib/props_C08.py.
-/
namespace Bridge.C08
open Model.Balance

/-- the generation key for user data without generation, as the source has it now -/
theorem defaultGeneration_eq : Gen.C08.defaultGeneration = Model.Balance.defaultGeneration := rfl

/-- `canTopicPartitionParticipateInReassignment` as the source has it now is the model's test on the number of
    potential consumers -/
theorem canTopicPartitionParticipate_eq (pot : Asg) (p : TP) :
    Gen.C08.canTopicPartitionParticipate ((consumersOf pot p).length : Int) = canPartitionParticipate pot p := by
  unfold Gen.C08.canTopicPartitionParticipate canPartitionParticipate
  simp only [ge_iff_le, decide_eq_decide]
  omega

end Bridge.C08
