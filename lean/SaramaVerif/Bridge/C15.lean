import SaramaVerif.Gen.C15
import SaramaVerif.Lemmas.C15Update
/-
  Bridge obligations for C15: the definitions regenerated from client.go / errors.go on this run
  (Gen.C15.*) agree with the hand-written model (Model.Metadata).

  Pointers / slices / maps of the Go code are opaque integers in the generated definitions (`nilv` = Go's nil);
  each obligation fixes how a model value is represented and shows the generated code takes the same branch
  and returns the representation of the model's result.

  NOT covered here (the translator takes loop-free code without `continue`, and does not look into type
  switches): the bodies of the clauses of `switch topic.Err` (only its label table is extracted), the loops of
  updateBroker / setPartitionCache / tryRefreshMetadata and the error type switch of tryRefreshMetadata — those
  are tied by differential execution (harness/cmd/c15).
-/
namespace Bridge.C15
open Model.Metadata Lemmas.C15

/-! ### constants -/
theorem consts_eq :
    Gen.C15.cErrNoError = errNone ∧ Gen.C15.cErrUnknownTopicOrPartition = errUnknownTopicOrPartition ∧
    Gen.C15.cErrLeaderNotAvailable = errLeaderNotAvailable ∧ Gen.C15.cErrReplicaNotAvailable = errReplicaNotAvailable ∧
    Gen.C15.cErrInvalidTopic = errInvalidTopic ∧ Gen.C15.cErrTopicAuthorizationFailed = errTopicAuthorizationFailed ∧
    Gen.C15.cErrClusterAuthorizationFailed = errClusterAuthorizationFailed ∧
    Gen.C15.cErrSASLAuthenticationFailed = errSASLAuthenticationFailed := by
  decide

/-- the partition cache has exactly the two lists of the model: index 0 = all, 1 = writable -/
theorem partition_sets_eq :
    Gen.C15.cAllPartitions = 0 ∧ Gen.C15.cWritablePartitions = 1 ∧ Gen.C15.cMaxPartitionIndex = 2 := by
  decide

/-! ### `switch topic.Err` of updateMetadata: the label table is the model's classification -/
theorem topicErrCases_eq :
    Gen.C15.topicErrCases =
      [[errNone], [errInvalidTopic, errTopicAuthorizationFailed], [errUnknownTopicOrPartition], [errLeaderNotAvailable]] := by
  decide

/-- the model's class of an error is decided by the clause (in source order) whose labels contain it; errors in no
    clause fall to `default` (= forget, no retry) -/
theorem topicClass_by_cases (e : Int) :
    topicClass e =
      if e ∈ Gen.C15.topicErrCases[0]! then .store
      else if e ∈ Gen.C15.topicErrCases[1]! then .forget
      else if e ∈ Gen.C15.topicErrCases[2]! then .forgetRetry
      else if e ∈ Gen.C15.topicErrCases[3]! then .storeRetry
      else .forget := by
  rw [topicErrCases_eq]
  unfold topicClass
  simp only [List.getElem!_cons_zero, List.getElem!_cons_succ, List.mem_cons, List.not_mem_nil, or_false]

/-! ### cachedLeader -/
/-- representation of the model's verdict: (broker pointer, error) -/
def encLeader (nilv brk : Int) : LeaderRes → Int × Int
  | .broker _ _ => (brk, nilv)
  | .leaderNotAvailable => (nilv, errLeaderNotAvailable)
  | .unknownTopicOrPartition => (nilv, errUnknownTopicOrPartition)

/-- topic not in `client.metadata` -/
theorem cachedLeader_topic_absent (nilv md perr brk : Int) (found : Bool) (brokers : List (Int × Addr)) :
    Gen.C15.cachedLeader nilv nilv found md perr brk = encLeader nilv brk (leaderVerdict none brokers) := by
  simp [Gen.C15.cachedLeader, leaderVerdict, encLeader, errUnknownTopicOrPartition]

/-- partition not in the topic's map -/
theorem cachedLeader_partition_absent (nilv te md perr brk : Int) (hte : te ≠ nilv) (brokers : List (Int × Addr)) :
    Gen.C15.cachedLeader nilv te false md perr brk = encLeader nilv brk (leaderVerdict none brokers) := by
  simp [Gen.C15.cachedLeader, leaderVerdict, encLeader, errUnknownTopicOrPartition, hte]

/-- partition metadata `pm` found; `brk` is what `client.brokers[pm.Leader]` yields: nil iff the model's lookup
    fails -/
theorem cachedLeader_found (nilv te md brk : Int) (hte : te ≠ nilv) (pm : PartMeta) (brokers : List (Int × Addr))
    (hbrk : brk = nilv ↔ kget Prod.fst pm.leader brokers = none) :
    Gen.C15.cachedLeader nilv te true md pm.err brk = encLeader nilv brk (leaderVerdict (some pm) brokers) := by
  unfold Gen.C15.cachedLeader leaderVerdict
  simp only [ne_eq, hte, not_false_eq_true, ↓reduceIte, errLeaderNotAvailable]
  by_cases h5 : pm.err = 5
  · simp [h5, encLeader, errLeaderNotAvailable]
  · simp only [h5, ↓reduceIte]
    cases hk : kget Prod.fst pm.leader brokers with
    | none =>
      have : brk = nilv := hbrk.mpr hk
      simp [this, encLeader, errLeaderNotAvailable]
    | some b =>
      have : ¬ brk = nilv := fun e => by
        have := hbrk.mp e
        rw [hk] at this
        cases this
      simp [this, encLeader]

/-! ### Replicas / InSyncReplicas / OfflineReplicas -/
def encList (nilv lst : Int) : ListRes → Int × Int
  | .ok _ => (lst, nilv)
  | .okReplicaNotAvailable _ => (lst, errReplicaNotAvailable)
  | .err e => (nilv, e)

theorem replicasTail_eq (nilv lst : Int) (pm : PartMeta) (sel : PartMeta → List Int) :
    Gen.C15.replicasTail nilv pm.err lst = encList nilv lst (replicasVerdict sel (some pm)) ∧
    Gen.C15.isrTail nilv pm.err lst = encList nilv lst (replicasVerdict sel (some pm)) ∧
    Gen.C15.offlineTail nilv pm.err lst = encList nilv lst (replicasVerdict sel (some pm)) := by
  unfold Gen.C15.replicasTail Gen.C15.isrTail Gen.C15.offlineTail replicasVerdict
  by_cases h : pm.err = 9
  · simp [h, encList, errReplicaNotAvailable]
  · simp [h, encList, errReplicaNotAvailable]

/-! ### Partitions / WritablePartitions (after the optional refresh) -/
theorem partitionsTail_eq (nilv parts : Int) (c : Option (List Int)) :
    Gen.C15.partitionsTail nilv ((c.getD []).length) parts = encList nilv parts (partitionsVerdict c) := by
  unfold Gen.C15.partitionsTail partitionsVerdict
  by_cases h : (c.getD []).length = 0
  · simp [h, encList, errUnknownTopicOrPartition]
  · simp [h, encList]

/-- `parts` is nil exactly when the cache has no entry for the topic -/
theorem writableTail_eq (nilv parts : Int) (c : Option (List Int)) (hp : parts = nilv ↔ c = none) :
    Gen.C15.writableTail nilv parts = encList nilv parts (writableVerdict c) := by
  unfold Gen.C15.writableTail writableVerdict
  cases c with
  | none => simp [hp.mpr rfl, encList, errUnknownTopicOrPartition]
  | some l =>
    have : ¬ parts = nilv := fun e => by have := hp.mp e; cases this
    simp [this, encList]

/-! ### updateBroker / registerBroker: one entry -/
/-- `pOld` = the registered *Broker (non-nil), `pNew` = the one from the response. The generated test keeps the old
    object exactly when the model leaves the map unchanged, and installs the new one exactly when the model stores. -/
theorem reconcileBroker_eq (nilv pOld pNew : Int) (_hOld : pOld ≠ nilv) (m : List (Int × Addr)) (b : Int × Addr) :
    (kget Prod.fst b.1 m = none →
        Gen.C15.reconcileBroker nilv nilv 0 pNew b.2 = pNew ∧ Gen.C15.registerBroker nilv nilv 0 pNew b.2 = pNew ∧
        regBroker m b = kset Prod.fst b m) ∧
    (∀ old, kget Prod.fst b.1 m = some old → b.2 ≠ old.2 →
        Gen.C15.reconcileBroker nilv pOld old.2 pNew b.2 = pNew ∧ Gen.C15.registerBroker nilv pOld old.2 pNew b.2 = pNew ∧
        regBroker m b = kset Prod.fst b m) ∧
    (∀ old, kget Prod.fst b.1 m = some old → b.2 = old.2 →
        Gen.C15.reconcileBroker nilv pOld old.2 pNew b.2 = pOld ∧ Gen.C15.registerBroker nilv pOld old.2 pNew b.2 = pOld ∧
        regBroker m b = m) := by
  refine ⟨?_, ?_, ?_⟩
  · intro h
    simp [Gen.C15.reconcileBroker, Gen.C15.registerBroker, regBroker, h]
  · intro old h hne
    simp [Gen.C15.reconcileBroker, Gen.C15.registerBroker, regBroker, h, hne, _hOld]
  · intro old h he
    simp [Gen.C15.reconcileBroker, Gen.C15.registerBroker, regBroker, h, he, _hOld]

/-! ### leaderless partitions ask for a retry -/
theorem partitionRetry_eq (ps : List PartMeta) (acc : Bool) :
    ps.foldl (fun r p => Gen.C15.partitionRetry p.err r) acc = (acc || partsRetry ps) := by
  unfold partsRetry
  induction ps generalizing acc with
  | nil => simp
  | cons p ps ih =>
    simp only [List.foldl_cons, List.any_cons]
    rw [ih]
    unfold Gen.C15.partitionRetry errLeaderNotAvailable
    by_cases h : p.err = 5
    · simp [h]
    · simp [h]

/-! ### deregisterBroker -/
/-- `E`/`EB` represent seed lists / the broker map. Head seed → the model's `deregisterSeed`; anything else → the
    model's `deregisterKnown`. -/
theorem deregisterBroker_eq (E : List Addr → Int) (EB : List (Int × Addr) → Int) (s : State) (bptr seed0 : Int)
    (id : Int) :
    (∀ a rest, s.seeds = a :: rest → bptr = seed0 →
      Gen.C15.deregisterBroker s.seeds.length bptr seed0 (E s.seeds) (E rest) (E s.dead) (E (s.dead ++ [a]))
          (EB s.brokers) (EB (kerase Prod.fst id s.brokers)) =
        (E (deregisterSeed s).seeds, E (deregisterSeed s).dead, EB (deregisterSeed s).brokers)) ∧
    (∀ rest deadPlus, (s.seeds = [] ∨ bptr ≠ seed0) →
      Gen.C15.deregisterBroker s.seeds.length bptr seed0 (E s.seeds) rest (E s.dead) deadPlus
          (EB s.brokers) (EB (kerase Prod.fst id s.brokers)) =
        (E (deregisterKnown s id).seeds, E (deregisterKnown s id).dead, EB (deregisterKnown s id).brokers)) := by
  constructor
  · intro a rest hs hb
    simp [Gen.C15.deregisterBroker, deregisterSeed, hs, hb]
  · intro rest deadPlus h
    rcases h with h | h
    · simp [Gen.C15.deregisterBroker, deregisterKnown, h]
    · simp [Gen.C15.deregisterBroker, deregisterKnown, h]

/-! ### clause bodies of `switch topic.Err` (loop-body fragment; leading Int: 0 = falls through to the store
       part, 1 = `continue`) -/
theorem topicSwitch_eq (terr err : Int) (retry : Bool) :
    Gen.C15.topicSwitch terr err retry =
      match topicClass terr with
      | .store => (0, err, retry)
      | .storeRetry => (0, err, true)
      | .forget => (1, terr, retry)
      | .forgetRetry => (1, terr, true) := by
  unfold Gen.C15.topicSwitch topicClass errNone errInvalidTopic errTopicAuthorizationFailed
    errUnknownTopicOrPartition errLeaderNotAvailable
  by_cases h0 : terr = 0
  · simp [h0]
  · by_cases h1 : terr = 17 ∨ terr = 29
    · simp [h0, h1]
    · by_cases h3 : terr = 3
      · simp [h3]
      · by_cases h5 : terr = 5
        · simp [h5]
        · simp [h0, h1, h3, h5]

/-- … and the model's per-topic step is that switch followed (when it does not `continue`) by the store part:
    the topic is kept exactly when the switch falls through, `err` is the switch's, `retry` the switch's or-ed
    with the leaderless-partition test of the store loop. -/
theorem applyTopic_by_switch (a : Acc) (tm : TopicMeta) :
    ((Gen.C15.topicSwitch tm.err a.err a.retry).1 = 0 ↔ (topicClass tm.err).stores = true) ∧
    (applyTopic a tm).err = (Gen.C15.topicSwitch tm.err a.err a.retry).2.1 ∧
    (applyTopic a tm).retry =
      ((Gen.C15.topicSwitch tm.err a.err a.retry).2.2 || ((topicClass tm.err).stores && partsRetry tm.parts)) ∧
    (applyTopic a tm).s =
      if (Gen.C15.topicSwitch tm.err a.err a.retry).1 = 0 then storeTopic (forgetTopic a.s tm.name) tm
      else forgetTopic a.s tm.name := by
  rw [topicSwitch_eq]
  unfold applyTopic
  cases topicClass tm.err <;> simp [TopicClass.stores]

/-! ### tryRefreshMetadata: a KError from GetMetadata (leading Int: 3 = `return err`, 0 = falls off the clause
       after `deregisterBroker`) -/
theorem kerrorVerdict_eq (e : Int) :
    Gen.C15.kerrorVerdict e false true =
      if kerrorDeregisters e then (0, 0, true) else (3, e, false) := by
  unfold Gen.C15.kerrorVerdict kerrorDeregisters errSASLAuthenticationFailed errTopicAuthorizationFailed
  by_cases h1 : e = 58
  · simp [h1]
  · by_cases h2 : e = 29
    · simp [h2]
    · simp [h1, h2]

/-- exactly ErrSASLAuthenticationFailed and ErrTopicAuthorizationFailed are returned at once (the model's
    `Reach.fatal`); every other KError sets the candidate aside (`Reach.fail`) -/
theorem kerror_fatal_iff (e : Int) :
    (Gen.C15.kerrorVerdict e false true).1 = 3 ↔ (e = errSASLAuthenticationFailed ∨ e = errTopicAuthorizationFailed) := by
  rw [kerrorVerdict_eq]
  unfold kerrorDeregisters errSASLAuthenticationFailed errTopicAuthorizationFailed
  by_cases h1 : e = 58
  · simp [h1]
  · by_cases h2 : e = 29
    · simp [h2]
    · simp [h1, h2]

/-! ### tryRefreshMetadata: a candidate answered -/
/-- the response is applied as a full refresh exactly when no topics were asked for; the call returns
    `retry(err)` when updateMetadata wants a retry and its `err` otherwise — the model's `attempt` on an answer:
    (state, retry wanted, `fromUpdate err`). -/
theorem answeredVerdict_eq (nTopics retried : Int) (akm0 : Bool) (s : State) (r : Resp) :
    Gen.C15.answeredVerdict nTopics akm0 retried
        (updateMetadata s r (decide (nTopics = 0))).retry (updateMetadata s r (decide (nTopics = 0))).err =
      (if (updateMetadata s r (decide (nTopics = 0))).retry then retried
       else (updateMetadata s r (decide (nTopics = 0))).err, decide (nTopics = 0)) := by
  unfold Gen.C15.answeredVerdict
  cases (updateMetadata s r (decide (nTopics = 0))).retry <;> simp

/-! ### lock discipline (presence facts) -/
/-- Each of these definitions is generated from the lock / deferred-unlock statement of the named function and
    exists only if that statement is in the source: `updateMetadata`, `deregisterBroker` and `resurrectDeadBrokers`
    take `client.lock.Lock()` with a deferred `Unlock()`, the cached getters, `Brokers` and `any` take `RLock()` with a
    deferred `RUnlock()`. (Presence only; that the critical sections exclude each other is what the race-detector
    run of the harness observes.) -/
theorem lock_statements_present :
    (Gen.C15.lockUpdateMetadata,
     Gen.C15.lockCachedPartitions,
     Gen.C15.lockCachedMetadata,
     Gen.C15.lockCachedLeader,
     Gen.C15.lockBrokers,
     Gen.C15.lockAny,
     Gen.C15.lockDeregisterBroker,
     Gen.C15.lockResurrectDeadBrokers,
     Gen.C15.unlockUpdateMetadata,
     Gen.C15.unlockCachedPartitions,
     Gen.C15.unlockCachedMetadata,
     Gen.C15.unlockCachedLeader,
     Gen.C15.unlockBrokers,
     Gen.C15.unlockAny,
     Gen.C15.unlockDeregisterBroker,
     Gen.C15.unlockResurrectDeadBrokers) = ((), (), (), (), (), (), (), (), (), (), (), (), (), (), (), ()) := rfl

end Bridge.C15
