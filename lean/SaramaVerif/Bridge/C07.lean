import SaramaVerif.Gen.C07
import SaramaVerif.Model.Group
/-
  Bridge obligations for C07: the verdict classes of the model are the case labels of the three switches in
  consumer_group.go as the source has them now (regenerated Gen.C07.*).
-/
namespace Bridge.C07
open Model.Group

/-- newSession, `switch join.Err`: clause 0 = success, 1 = reset member id and rejoin, 2 = retry with coordinator
    refresh, 3 = retry after back-off; everything else is returned to the caller -/
theorem joinErrCases_eq : Gen.C07.joinErrCases = [[0], [25, 22], [16], [27]] := by decide

theorem syncErrCases_eq : Gen.C07.syncErrCases = [[0], [25, 22], [16], [27]] := by decide

/-- heartbeatLoop, `switch resp.Err`: clause 0 = keep going, clause 1 = end the session silently -/
theorem heartbeatErrCases_eq : Gen.C07.heartbeatErrCases = [[0], [27, 25, 22]] := by decide

/-- the model's classification agrees with the clauses, label by label -/
theorem classOfCode_matches_join :
    (Gen.C07.joinErrCases.map (fun cl => cl.map classOfCode)) =
      [[.ok], [.fence, .fence], [.notCoord], [.rebalance]] := by decide

theorem classOfCode_matches_sync :
    (Gen.C07.syncErrCases.map (fun cl => cl.map classOfCode)) =
      [[.ok], [.fence, .fence], [.notCoord], [.rebalance]] := by decide

/-- every code that ends a session through the heartbeat is a rebalance / fence class -/
theorem heartbeat_end_classes :
    ((Gen.C07.heartbeatErrCases.getD 1 []).map classOfCode) = [.rebalance, .fence, .fence] := by decide

end Bridge.C07
