import SaramaVerif.Gen.C20
import SaramaVerif.Model.Mocks
/-
  Bridge obligations for C20: the loop-free parts of package mocks, re-translated from /repo on every run
  (Gen.C20.*), compute what the hand-written model computes.

    * (*SyncProducer).SendMessage       = Model.Mocks.syncSend / syncHandle  (whole method; the variant flag
                                           `retChosen` is whatever the source has now: the obligation is
                                           `∃ rc, ∀ inputs, …`, proved for the pinned or the documented text)
    * (*SyncProducer).Close             = closeReports (leftover check)
    * (*Consumer).ConsumePartition      = cStep … (.pc k (.consume off)) (decision table incl. both Errorf calls)
    * (*PartitionConsumer).HighWaterMarkOffset = PC.hwmAnswer

  Go values the translator treats as opaque (`val`: errors, slices, pointers) are arbitrary integers here; `Errorf`
  call sites are made visible by a ghost variable `reported` that each call statement overwrites with its own
  marker (spec: tools/extract/specs/C20.json).  Everything with a loop, a goroutine or a channel (the async mock's
  goroutine, SendMessages, PartitionConsumer.Close/Yield*) is tied by differential execution only.
-/
namespace Bridge.C20
open Go Model.Mocks

/-- which `Errorf` call site of `SendMessage` fired: 0 none, 1 partitioner, 2 checker, 3 no expectation -/
def repCode : List Report → Int
  | [] => 0
  | [.partitionerError _] => 1
  | [.checkerFailed _] => 2
  | [.noExpectation] => 3
  | _ => 99

/-- the Go error value `SendMessage` returns, given the values of the partitioner error, the checker result and
    `expectation.Result` -/
def goErr (c : Except Int Int) (v : Option Int) (r : Option Int) (perr chkRes result nilv : Int) : Int :=
  match c with
  | .error _ => perr
  | .ok _ =>
    match v with
    | some _ => chkRes
    | none => match r with | none => nilv | some _ => result

def verdictOf (e : Exp) (m : Msg) (c : Except Int Int) : Option Int :=
  match c with
  | .error _ => none
  | .ok p => checkVerdict e m p

/-- `SendMessage` with at least one expectation left, as the source has it now, is `syncHandle` for one of the
    two variants (the message enters with `Partition = m.part0`, `Offset = 0`; `tail` is `sp.expectations[1:]`). -/
theorem sendMessage_eq :
    ∃ rc : Bool, ∀ (e : Exp) (m : Msg) (c : Except Int Int) (lo : Int) (n exps tail topic chkRes result eSucc eOOE nilv
        pchoice perr : Int),
      0 < n → InI64 (lo + 1) →
      (perr ≠ nilv ↔ ∃ pc, c = .error pc) → (∀ p, c = .ok p → pchoice = p) →
      (chkRes ≠ nilv ↔ ∃ cc, verdictOf e m c = some cc) → (e.check = none → verdictOf e m c = none) →
      (result = eSucc ↔ e.result = none) →
      Gen.C20.sendMessage n exps tail topic e.check.isSome chkRes result eSucc eOOE nilv lo m.part0 0 0
          pchoice perr 1 2 3 =
        ((syncHandle rc e m c lo).2.1.retPartition, (syncHandle rc e m c lo).2.1.retOffset,
         goErr c (verdictOf e m c) e.result perr chkRes result nilv, tail, (syncHandle rc e m c lo).1,
         (syncHandle rc e m c lo).2.1.msgPartition, (syncHandle rc e m c lo).2.1.msgOffset,
         repCode (syncHandle rc e m c lo).2.2) := by
  first
  | refine ⟨false, ?_⟩
    intro e m c lo n exps tail topic chkRes result eSucc eOOE nilv pchoice perr hn hlo hperr hch hchk hnochk hres
    unfold Gen.C20.sendMessage syncHandle goErr
    have hadd : add64 lo 1 = lo + 1 := wrap64_id hlo
    simp only [hn, ↓reduceIte, hadd]
    cases c with
    | error pc =>
      have : perr ≠ nilv := hperr.mpr ⟨pc, rfl⟩
      simp [this, repCode]
    | ok p =>
      have hp : ¬ perr ≠ nilv := fun h => by obtain ⟨pc, h2⟩ := hperr.mp h; cases h2
      have hpc : pchoice = p := hch p rfl
      simp only [verdictOf] at hchk hnochk ⊢
      obtain ⟨v, hv⟩ : ∃ v, checkVerdict e m p = v := ⟨_, rfl⟩
      obtain ⟨r, hr⟩ : ∃ r, e.result = r := ⟨_, rfl⟩
      obtain ⟨ck, hck⟩ : ∃ ck, e.check = ck := ⟨_, rfl⟩
      cases v <;> cases r <;> cases ck <;> simp_all [repCode]
  | refine ⟨true, ?_⟩
    intro e m c lo n exps tail topic chkRes result eSucc eOOE nilv pchoice perr hn hlo hperr hch hchk hnochk hres
    unfold Gen.C20.sendMessage syncHandle goErr
    have hadd : add64 lo 1 = lo + 1 := wrap64_id hlo
    simp only [hn, ↓reduceIte, hadd]
    cases c with
    | error pc =>
      have : perr ≠ nilv := hperr.mpr ⟨pc, rfl⟩
      simp [this, repCode]
    | ok p =>
      have hp : ¬ perr ≠ nilv := fun h => by obtain ⟨pc, h2⟩ := hperr.mp h; cases h2
      have hpc : pchoice = p := hch p rfl
      simp only [verdictOf] at hchk hnochk ⊢
      obtain ⟨v, hv⟩ : ∃ v, checkVerdict e m p = v := ⟨_, rfl⟩
      obtain ⟨r, hr⟩ : ∃ r, e.result = r := ⟨_, rfl⟩
      obtain ⟨ck, hck⟩ : ∃ ck, e.check = ck := ⟨_, rfl⟩
      cases v <;> cases r <;> cases ck <;> simp_all [repCode]

/-- `SendMessage` without expectations: nothing changes, `errOutOfExpectations`, the third call site fires -/
theorem sendMessage_no_expectation {σ : Type} (P : Part σ) (rc : Bool) (s : PState σ) (hs : s.exps = []) (m : Msg)
    (exps tail topic chkRes result eSucc eOOE nilv pchoice perr : Int) (hasChk : Bool) :
    Gen.C20.sendMessage 0 exps tail topic hasChk chkRes result eSucc eOOE nilv s.lastOffset m.part0 0 0 pchoice perr 1 2 3 =
      ((syncSend P rc s m).2.1.retPartition, (syncSend P rc s m).2.1.retOffset, eOOE, exps, (syncSend P rc s m).1.lastOffset,
       (syncSend P rc s m).2.1.msgPartition, (syncSend P rc s m).2.1.msgOffset, repCode (syncSend P rc s m).2.2) := by
  unfold Gen.C20.sendMessage syncSend
  simp [hs, repCode]

/-- `SyncProducer.Close` calls `Errorf` (marker 1) iff expectations are left – `closeReports` -/
theorem syncClose_eq {σ : Type} (s : PState σ) (nilErr : Int) :
    Gen.C20.syncClose s.exps.length nilErr 0 1 = (nilErr, if closeReports s = [] then 0 else 1) := by
  unfold Gen.C20.syncClose closeReports
  by_cases h : s.exps.length > 0
  · simp [h]
  · simp [h]

/-- `Consumer.ConsumePartition` on a registered partition = `pcStep … (.consume off)`: result (the registered
    handle / nil), error (nil / "already being consumed"), the `consumed` flag, and the offset-mismatch `Errorf`
    (marker 2) exactly when the model reports `unexpectedOffset` -/
theorem consumePartition_registered (buf : Nat) (k : Key) (pc : PC) (off handle nilv eOOE eDup : Int) :
    Gen.C20.consumePartition false handle pc.consumed pc.offset anyOffset off nilv eOOE eDup 0 1 2 =
      (match (pcStep buf k pc (.consume off)).2.1 with | .consumeOk => handle | _ => nilv,
       match (pcStep buf k pc (.consume off)).2.1 with | .alreadyConsumed => eDup | _ => nilv,
       (pcStep buf k pc (.consume off)).1.consumed,
       if (pcStep buf k pc (.consume off)).2.2 = [] then 0 else 2) := by
  unfold Gen.C20.consumePartition pcStep
  by_cases hc : pc.consumed = true
  · simp [hc]
  · by_cases ho : pc.offset ≠ anyOffset ∧ pc.offset ≠ off
    · simp [hc, ho]
    · simp [hc, ho]

/-- … and on a partition that was never registered = the `.consume` row of `cStep`: nil, errOutOfExpectations,
    nothing changes, the first `Errorf` call site (marker 1) fires -/
theorem consumePartition_unregistered (buf : Nat) (s : CState) (k : Key) (hk : k ∉ s.keys) (off handle poff nilv eOOE eDup : Int)
    (consumed : Bool) :
    Gen.C20.consumePartition true handle consumed poff anyOffset off nilv eOOE eDup 0 1 2 = (nilv, eOOE, consumed, 1) ∧
    cStep buf s (.pc k (.consume off)) = (s, .consumeNoExpectation, [.noPartitionExpectation k]) := by
  unfold Gen.C20.consumePartition cStep
  simp [hk]

/-- `HighWaterMarkOffset()` = `highWaterMarkOffset + 1` = `PC.hwmAnswer` (no int64 wrap below 2^63-1 yields) -/
theorem hwmOffset_eq (pc : PC) (h : InI64 ((pc.hwm : Int) + 1)) :
    Gen.C20.hwmOffset pc.hwm = pc.hwmAnswer := by
  unfold Gen.C20.hwmOffset PC.hwmAnswer add64
  rw [wrap64_id h]
  omega

end Bridge.C20
