import SaramaVerif.Gen.C19
import SaramaVerif.Model.Admin
/-
  Bridge obligations for C19: what tools/extract regenerated from admin.go / errors.go / *_request.go on this
  run (Gen.C19.*) is what the hand-written model uses.

  Translated: the request-version selection chains, the `requiredVersion` tables, the error-code constants,
  the tail of `DeleteConsumerGroup`, the body of `retryOnError`'s loop (with its exit: return / continue), the
  clauses of `isErrNoController`'s type switch, the complete closures CreateTopic / DeleteTopic /
  CreatePartitions pass to `retryOnError`, and the loop-free pieces of the AlterPartitionReassignments closure
  (NOT_CONTROLLER test, top-level test, per-partition test, final result).
  Still tied by correspondence (harness) only: the loop condition of `retryOnError` (a `for` header is not a
  statement), which clause of the type switch a Go error value selects, the `range` loops of the reassignment
  closure and the grouping loops of DeleteRecords / DescribeConsumerGroups.
-/
namespace Bridge.C19
open Model.Admin

/-- NOT_CONTROLLER is code 41, "no error" is 0, `ErrUnsupportedVersion` is 35 -/
theorem errNotController_eq : Gen.C19.errNotController = NOT_CONTROLLER := rfl
theorem errNoError_eq : Gen.C19.errNoError = 0 := rfl
theorem errUnsupportedVersion_eq : Gen.C19.errUnsupportedVersion = 35 := rfl

/-- `CreateTopic`: the two version `if`s, run in source order on the zero value, select the model's version -/
theorem createTopicsVersion_eq (ge011 ge100 : Bool) :
    Gen.C19.createTopicVer2 ge100 (Gen.C19.createTopicVer1 ge011 0) =
      (createTopicsVersionOf ge011 ge100 : Int) := by
  cases ge011 <;> cases ge100 <;> rfl

/-- `DeleteTopic`: version `if` -/
theorem deleteTopicsVersion_eq (ge011 : Bool) :
    Gen.C19.deleteTopicVer ge011 0 = (deleteTopicsVersionOf ge011 : Int) := by
  cases ge011 <;> rfl

/-- `ListConsumerGroupOffsets`: version if / else-if chain -/
theorem offsetFetchVersion_eq (ge0102 ge0822 : Bool) :
    Gen.C19.offsetFetchVer ge0102 ge0822 0 = (offsetFetchVersionOf ge0102 ge0822 : Int) := by
  cases ge0102 <;> cases ge0822 <;> rfl

/-- `requiredVersion` of the two versioned requests: the switch tables (labels and results; the Kafka
    versions are opaque values `enc V…`) -/
theorem createTopicsRequiredCases_eq : Gen.C19.createTopicsRequiredCases = [[2], [1]] := rfl
theorem deleteTopicsRequiredCases_eq : Gen.C19.deleteTopicsRequiredCases = [[1]] := rfl

theorem createTopicsRequired_eq (enc : List Nat → Int) (ver : Nat) :
    Gen.C19.createTopicsRequired ver (enc V1_0_0_0) (enc V0_11_0_0) (enc V0_10_1_0) =
      enc (createTopicsRequired ver) := by
  unfold Gen.C19.createTopicsRequired createTopicsRequired
  by_cases h2 : ver = 2
  · subst h2; rfl
  · by_cases h1 : ver = 1
    · subst h1; rfl
    · have e2 : ¬ ((ver : Int) = 2) := by omega
      have e1 : ¬ ((ver : Int) = 1) := by omega
      simp only [h2, h1, e2, e1, ↓reduceIte]

theorem deleteTopicsRequired_eq (enc : List Nat → Int) (ver : Nat) :
    Gen.C19.deleteTopicsRequired ver (enc V0_11_0_0) (enc V0_10_1_0) = enc (deleteTopicsRequired ver) := by
  unfold Gen.C19.deleteTopicsRequired deleteTopicsRequired
  by_cases h1 : ver = 1
  · subst h1; rfl
  · have e1 : ¬ ((ver : Int) = 1) := by omega
    simp only [h1, e1, ↓reduceIte]

/-- the unversioned requests demand the Kafka version the model's gate uses (the named version variable is
    returned as it is) -/
theorem createPartitionsRequired_eq (enc : List Nat → Int) (kv : List Nat) :
    Gen.C19.createPartitionsRequired (enc V1_0_0_0) = enc (required .createPartitions kv) := rfl
theorem reassignRequired_eq (enc : List Nat → Int) (n : Nat) (kv : List Nat) :
    Gen.C19.reassignRequired (enc V2_4_0_0) = enc (required (.reassign n) kv) := rfl
theorem deleteRecordsRequired_eq (v : Int) : Gen.C19.deleteRecordsRequired v = v := rfl
theorem deleteGroupsRequired_eq (v : Int) : Gen.C19.deleteGroupsRequired v = v := rfl

/-- errors as the opaque values the translated fragment handles: `nil`, `ErrIncompleteResponse`, a KError -/
def encOutcome (eInc nilErr : Int) : Outcome → Int
  | none => nilErr
  | some .incomplete => eInc
  | some (.kerr c) => c
  | some _ => 0

/-- tail of `DeleteConsumerGroup` (after the coordinator answered): item missing → ErrIncompleteResponse,
    code ≠ 0 → that code, else nil — the model's `deleteGroup` … -/
theorem deleteGroupInspect_eq (eInc nilErr code : Int) (present : Bool) (kv : List Nat) (b : Nat)
    (hkv : isAtLeast kv V1_1_0_0 = true) :
    Gen.C19.deleteGroupInspect eInc nilErr code present =
      encOutcome eInc nilErr (deleteGroup kv (.ok b) (if present then .code code else .missing)).1 := by
  unfold Gen.C19.deleteGroupInspect
  cases present
  · simp [deleteGroup, hkv, encOutcome]
  · by_cases hc : code = 0
    · subst hc; simp [deleteGroup, hkv, encOutcome]
    · simp [deleteGroup, hkv, encOutcome, hc]

/-- … which is also the decision table `inspectItem` (closures of CreateTopic / DeleteTopic / CreatePartitions)
    applies to its topic -/
theorem deleteGroupInspect_eq_inspectItem (eInc nilErr code : Int) (present : Bool) :
    Gen.C19.deleteGroupInspect eInc nilErr code present =
      encOutcome eInc nilErr (inspectItem (.resp 0 (if present then [(0, code)] else []))).1 := by
  unfold Gen.C19.deleteGroupInspect
  cases present
  · simp [inspectItem, encOutcome]
  · by_cases hc : code = 0
    · subst hc; simp [inspectItem, encOutcome]
    · simp [inspectItem, encOutcome, hc]

/-! ## `retryOnError`: one pass through the loop body -/

/-- The loop body as the source has it now (`err = fn()`, test, log, sleep, `continue`): exit code 3 =
    `return err`, 1 = `continue`. For any encoding of errors as opaque values in which only `nil` encodes "no
    error", one iteration of the model's `retryLoop` does what the translated body says: it returns the attempt's
    result exactly when that is nil or not retryable, otherwise it goes round again with that result as `err`. -/
theorem retryLoopBody_eq {σ : Type} (retryable : Err → Bool) (fn : σ → σ × Outcome) (fuel : Nat) (s : σ)
    (last : Outcome) (enc : Outcome → Int) (nilErr err0 : Int) (henc : ∀ o, enc o = nilErr ↔ o = none) :
    (Gen.C19.retryLoopBody err0 nilErr
        (match (fn s).2 with | some e => retryable e | none => false) (enc (fn s).2) = (3, enc (fn s).2) ∧
      retryLoop retryable fn (fuel + 1) s last = fn s) ∨
    (Gen.C19.retryLoopBody err0 nilErr
        (match (fn s).2 with | some e => retryable e | none => false) (enc (fn s).2) = (1, 0) ∧
      retryLoop retryable fn (fuel + 1) s last = retryLoop retryable fn fuel (fn s).1 (fn s).2) := by
  unfold Gen.C19.retryLoopBody
  rcases hfs : fn s with ⟨s', o⟩
  cases o with
  | none =>
    left
    have : enc none = nilErr := (henc none).mpr rfl
    simp [retryLoop, hfs, this]
  | some e =>
    have hne : enc (some e) ≠ nilErr := fun h => by have := (henc (some e)).mp h; cases this
    by_cases hr : retryable e = true
    · right; simp [retryLoop, hfs, hr, hne]
    · left; simp [retryLoop, hfs, hr, hne]

/-! ## `isErrNoController`: the clauses of the type switch -/

/-- `*TopicError` / `*TopicPartitionError` clause (`e.Err == ErrNotController`; both clauses have this text) -/
theorem isNoCtrlTopicError_eq (c : Int) : Gen.C19.isNoCtrlTopicError c = isErrNoController (.kerr c) := by
  by_cases h : c = 41 <;> simp [Gen.C19.isNoCtrlTopicError, isErrNoController, NOT_CONTROLLER, h]

/-- `KError` clause (`e == ErrNotController`) -/
theorem isNoCtrlKError_eq (c : Int) : Gen.C19.isNoCtrlKError c = isErrNoController (.kerr c) := by
  by_cases h : c = 41 <;> simp [Gen.C19.isNoCtrlKError, isErrNoController, NOT_CONTROLLER, h]

/-- every other error type: `return false` -/
theorem isNoCtrlDefault_eq (e : Err) (h : ∀ c, e ≠ .kerr c) : Gen.C19.isNoCtrlDefault = isErrNoController e := by
  cases e <;> first | rfl | exact absurd rfl (h _)

/-! ## The closures passed to `retryOnError` -/

/-- errors as opaque values, with `eT` the error of a failed broker call -/
def encOutcomeT (eInc nilErr eT : Int) : Outcome → Int
  | none => nilErr
  | some .incomplete => eInc
  | some .transport => eT
  | some (.kerr c) => c
  | some _ => 0

/-- what the model calls the answer, given what the Go closure saw: the broker call failed (`sendErr ≠ nil`), or a
    response in which the topic is present with `code`, or absent -/
def replyOf (nilErr sendErr : Int) (present : Bool) (code : Int) : Reply :=
  if sendErr ≠ nilErr then .transport else .resp 0 (if present then [(0, code)] else [])

private theorem closure_table (nilErr eInc sendErr code : Int) (present : Bool) :
    (if sendErr ≠ nilErr then (sendErr, false)
     else if ¬ (present = true) then (eInc, false)
     else if code ≠ 0 then (if code = 41 then (code, true) else (code, false))
     else (nilErr, false)) =
    (encOutcomeT eInc nilErr sendErr (inspectItem (replyOf nilErr sendErr present code)).1,
     (inspectItem (replyOf nilErr sendErr present code)).2) := by
  unfold replyOf
  by_cases hs : sendErr = nilErr
  · cases present
    · simp [hs, inspectItem, encOutcomeT]
    · by_cases hc : code = 0
      · subst hc; simp [hs, inspectItem, encOutcomeT]
      · by_cases h41 : code = 41
        · subst h41; simp [hs, inspectItem, encOutcomeT, NOT_CONTROLLER]
        · simp [hs, inspectItem, encOutcomeT, hc, h41, NOT_CONTROLLER]
  · simp [hs, inspectItem, encOutcomeT]

/-- the CreateTopic closure as the source has it now, from `ca.Controller()` (succeeding) to its last return:
    returned error and "did it call refreshController" are the model's `inspectItem` on the answer.
    (The `*TopicError` it returns is represented by its code.) -/
theorem createTopicClosure_eq (nilErr eInc sendErr code : Int) (present : Bool) :
    Gen.C19.createTopicClosure nilErr eInc false true nilErr sendErr present code code =
      (encOutcomeT eInc nilErr sendErr (inspectItem (replyOf nilErr sendErr present code)).1,
       (inspectItem (replyOf nilErr sendErr present code)).2) := by
  rw [← closure_table]; unfold Gen.C19.createTopicClosure
  simp only [ne_eq, not_true_eq_false, ↓reduceIte]

theorem deleteTopicClosure_eq (nilErr eInc sendErr code : Int) (present : Bool) :
    Gen.C19.deleteTopicClosure nilErr eInc false true nilErr sendErr present code =
      (encOutcomeT eInc nilErr sendErr (inspectItem (replyOf nilErr sendErr present code)).1,
       (inspectItem (replyOf nilErr sendErr present code)).2) := by
  rw [← closure_table]; unfold Gen.C19.deleteTopicClosure
  simp only [ne_eq, not_true_eq_false, ↓reduceIte]

theorem createPartitionsClosure_eq (nilErr eInc sendErr code : Int) (present : Bool) :
    Gen.C19.createPartitionsClosure nilErr eInc false true nilErr sendErr present code code =
      (encOutcomeT eInc nilErr sendErr (inspectItem (replyOf nilErr sendErr present code)).1,
       (inspectItem (replyOf nilErr sendErr present code)).2) := by
  rw [← closure_table]; unfold Gen.C19.createPartitionsClosure
  simp only [ne_eq, not_true_eq_false, ↓reduceIte]

/-- a failing `ca.Controller()` ends the closure with that error, nothing refreshed (all three closures) -/
theorem closures_controller_error (nilErr eInc ctlErr sendErr code terr : Int) (present one : Bool)
    (h : ctlErr ≠ nilErr) :
    Gen.C19.createTopicClosure nilErr eInc false one ctlErr sendErr present code terr = (ctlErr, false) ∧
    Gen.C19.deleteTopicClosure nilErr eInc false one ctlErr sendErr present code = (ctlErr, false) ∧
    Gen.C19.createPartitionsClosure nilErr eInc false one ctlErr sendErr present code terr = (ctlErr, false) := by
  simp [Gen.C19.createTopicClosure, Gen.C19.deleteTopicClosure, Gen.C19.createPartitionsClosure, h]

/-! ## The loop-free pieces of the AlterPartitionReassignments closure (tree with the repairs) -/

/-- top-level NOT_CONTROLLER: refresh the controller and return the code itself (exit code 3); anything else
    falls through (0) — the first branch of `inspectReassign` for a variant with `reassignRetries` -/
theorem reassignNotController_eq (v : Variant) (hv : v.reassignRetries = true) (n : Nat) (top : Int)
    (items : List (Nat × Int)) :
    Gen.C19.reassignNotController top false true =
      (if top = NOT_CONTROLLER then ((3 : Int), top, true) else (0, 0, false)) ∧
    (top = NOT_CONTROLLER → inspectReassign v n (.resp top items) = (some (.kerr top), true)) := by
  refine ⟨by by_cases h : top = 41 <;> simp [Gen.C19.reassignNotController, NOT_CONTROLLER, h], ?_⟩
  intro h; simp [inspectReassign, hv, h]

/-- top-level error test: an entry is appended exactly when the model's `topCauses` (variant with
    `reassignTopNonzero`) has one -/
theorem reassignTopError_eq (v : Variant) (hv : v.reassignTopNonzero = true) (top errs0 appended : Int) :
    Gen.C19.reassignTopError top errs0 appended = (if topCauses v top = [] then errs0 else appended) := by
  by_cases h : top = 0
  · subst h; simp [Gen.C19.reassignTopError, topCauses, hv]
  · simp [Gen.C19.reassignTopError, topCauses, hv, h]

/-- per-partition test: an entry is appended exactly when `itemCauses` has one for that partition -/
theorem reassignPartitionError_eq (p : Nat) (code errs0 txt appended : Int) :
    Gen.C19.reassignPartitionError code errs0 txt appended =
      (if itemCauses [(p, code)] = [] then errs0 else appended) := by
  by_cases h : code = 0
  · subst h; simp [Gen.C19.reassignPartitionError, itemCauses]
  · simp [Gen.C19.reassignPartitionError, itemCauses, h]

/-- end of the closure: no collected cause → nil, otherwise the wrapped aggregate -/
theorem reassignResult_eq (cs : List Cause) (wrapped nilErr : Int) :
    Gen.C19.reassignResult cs.length wrapped nilErr = (if cs = [] then nilErr else wrapped) := by
  cases cs with
  | nil => simp [Gen.C19.reassignResult]
  | cons c cs =>
    have : ((c :: cs).length : Int) > 0 := by simp only [List.length_cons]; omega
    simp only [Gen.C19.reassignResult, this, ↓reduceIte, reduceCtorEq]

end Bridge.C19
