import SaramaVerif.Gen.C19
import SaramaVerif.Model.Admin
/-
  Bridge obligations for C19: what tools/extract regenerated from admin.go / errors.go / *_request.go on this
  run (Gen.C19.*) is what the hand-written model uses.

  Only loop-free, closure-free fragments can be translated: the request-version selection chains, the
  `requiredVersion` tables, the error-code constants and the tail of `DeleteConsumerGroup` (the same
  decision table the closures of CreateTopic / DeleteTopic / CreatePartitions apply to their item).
  `retryOnError` (loop), `isErrNoController` (type switch), the closures passed to `retryOnError` and the
  grouping loops are tied by correspondence (harness) only.
-/
namespace Bridge.C19
open Model.Admin

/-- NOT_CONTROLLER is code 41, "no error" is 0, `ErrUnsupportedVersion` is 35 -/
theorem errNotController_eq : Gen.C19.errNotController = NOT_CONTROLLER := rfl
theorem errNoError_eq : Gen.C19.errNoError = 0 := rfl
theorem errUnsupportedVersion_eq : Gen.C19.errUnsupportedVersion = 35 := rfl

/-- `CreateTopic`: the two version `if`s, run in source order on the zero value, select the model's version -/
theorem createTopicsVersion_eq (ge011 ge100 : Bool) :
    Gen.C19.createTopicVer2 ge100 (Gen.C19.createTopicVer1 ge011 0) =
      (createTopicsVersionOf ge011 ge100 : Int) := by
  cases ge011 <;> cases ge100 <;> rfl

/-- `DeleteTopic`: version `if` -/
theorem deleteTopicsVersion_eq (ge011 : Bool) :
    Gen.C19.deleteTopicVer ge011 0 = (deleteTopicsVersionOf ge011 : Int) := by
  cases ge011 <;> rfl

/-- `ListConsumerGroupOffsets`: version if / else-if chain -/
theorem offsetFetchVersion_eq (ge0102 ge0822 : Bool) :
    Gen.C19.offsetFetchVer ge0102 ge0822 0 = (offsetFetchVersionOf ge0102 ge0822 : Int) := by
  cases ge0102 <;> cases ge0822 <;> rfl

/-- `requiredVersion` of the two versioned requests: the switch tables (labels and results; the Kafka
    versions are opaque values `enc V…`) -/
theorem createTopicsRequiredCases_eq : Gen.C19.createTopicsRequiredCases = [[2], [1]] := rfl
theorem deleteTopicsRequiredCases_eq : Gen.C19.deleteTopicsRequiredCases = [[1]] := rfl

theorem createTopicsRequired_eq (enc : List Nat → Int) (ver : Nat) :
    Gen.C19.createTopicsRequired ver (enc V1_0_0_0) (enc V0_11_0_0) (enc V0_10_1_0) =
      enc (createTopicsRequired ver) := by
  unfold Gen.C19.createTopicsRequired createTopicsRequired
  by_cases h2 : ver = 2
  · subst h2; rfl
  · by_cases h1 : ver = 1
    · subst h1; rfl
    · have e2 : ¬ ((ver : Int) = 2) := by omega
      have e1 : ¬ ((ver : Int) = 1) := by omega
      simp only [h2, h1, e2, e1, ↓reduceIte]

theorem deleteTopicsRequired_eq (enc : List Nat → Int) (ver : Nat) :
    Gen.C19.deleteTopicsRequired ver (enc V0_11_0_0) (enc V0_10_1_0) = enc (deleteTopicsRequired ver) := by
  unfold Gen.C19.deleteTopicsRequired deleteTopicsRequired
  by_cases h1 : ver = 1
  · subst h1; rfl
  · have e1 : ¬ ((ver : Int) = 1) := by omega
    simp only [h1, e1, ↓reduceIte]

/-- the unversioned requests demand the Kafka version the model's gate uses (the named version variable is
    returned as it is) -/
theorem createPartitionsRequired_eq (enc : List Nat → Int) (kv : List Nat) :
    Gen.C19.createPartitionsRequired (enc V1_0_0_0) = enc (required .createPartitions kv) := rfl
theorem reassignRequired_eq (enc : List Nat → Int) (n : Nat) (kv : List Nat) :
    Gen.C19.reassignRequired (enc V2_4_0_0) = enc (required (.reassign n) kv) := rfl
theorem deleteRecordsRequired_eq (v : Int) : Gen.C19.deleteRecordsRequired v = v := rfl
theorem deleteGroupsRequired_eq (v : Int) : Gen.C19.deleteGroupsRequired v = v := rfl

/-- errors as the opaque values the translated fragment handles: `nil`, `ErrIncompleteResponse`, a KError -/
def encOutcome (eInc nilErr : Int) : Outcome → Int
  | none => nilErr
  | some .incomplete => eInc
  | some (.kerr c) => c
  | some _ => 0

/-- tail of `DeleteConsumerGroup` (after the coordinator answered): item missing → ErrIncompleteResponse,
    code ≠ 0 → that code, else nil — the model's `deleteGroup` … -/
theorem deleteGroupInspect_eq (eInc nilErr code : Int) (present : Bool) (kv : List Nat) (b : Nat)
    (hkv : isAtLeast kv V1_1_0_0 = true) :
    Gen.C19.deleteGroupInspect eInc nilErr code present =
      encOutcome eInc nilErr (deleteGroup kv (.ok b) (if present then .code code else .missing)).1 := by
  unfold Gen.C19.deleteGroupInspect
  cases present
  · simp [deleteGroup, hkv, encOutcome]
  · by_cases hc : code = 0
    · subst hc; simp [deleteGroup, hkv, encOutcome]
    · simp [deleteGroup, hkv, encOutcome, hc]

/-- … which is also the decision table `inspectItem` (closures of CreateTopic / DeleteTopic / CreatePartitions)
    applies to its topic -/
theorem deleteGroupInspect_eq_inspectItem (eInc nilErr code : Int) (present : Bool) :
    Gen.C19.deleteGroupInspect eInc nilErr code present =
      encOutcome eInc nilErr (inspectItem (.resp 0 (if present then [(0, code)] else []))).1 := by
  unfold Gen.C19.deleteGroupInspect
  cases present
  · simp [inspectItem, encOutcome]
  · by_cases hc : code = 0
    · subst hc; simp [inspectItem, encOutcome]
    · simp [inspectItem, encOutcome, hc]

end Bridge.C19
