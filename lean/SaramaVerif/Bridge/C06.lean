import SaramaVerif.Gen.C06
import SaramaVerif.Model.OffsetMgr
/-
  Bridge obligations for C06: the definitions regenerated from offset_manager.go on this run (Gen.C06.*)
  compute what the hand-written model's field-level transition functions compute, on all inputs.
  offset is int64, metadata strings are opaque values (only copied and compared), so no range hypotheses
  are needed: the functions contain comparisons and copies only.
-/
namespace Bridge.C06
open Model.OffsetMgr

/-- `MarkOffset` as the source has it now is the model's `markOffset` -/
theorem markOffset_eq (pOffset pMeta : Int) (pDirty : Bool) (offset metadata : Int) :
    Gen.C06.markOffset pOffset pMeta pDirty offset metadata = markOffset pOffset pMeta pDirty offset metadata := by
  unfold Gen.C06.markOffset markOffset
  split <;> rfl

/-- `ResetOffset` -/
theorem resetOffset_eq (pOffset pMeta : Int) (pDirty : Bool) (offset metadata : Int) :
    Gen.C06.resetOffset pOffset pMeta pDirty offset metadata = resetOffset pOffset pMeta pDirty offset metadata := by
  unfold Gen.C06.resetOffset resetOffset
  split <;> rfl

/-- `updateCommitted` touches only the dirty flag, and clears it exactly when the committed pair equals the
    pending pair -/
theorem updateCommitted_eq (pOffset pMeta : Int) (pDirty : Bool) (offset metadata : Int) :
    Gen.C06.updateCommitted pOffset pMeta pDirty offset metadata =
      (pOffset, pMeta, updateCommitted pOffset pMeta pDirty offset metadata) := by
  unfold Gen.C06.updateCommitted updateCommitted
  split <;> rfl

/-- `NextOffset` (the empty string is the metadata code 0) -/
theorem nextOffset_eq (pOffset pMeta initial : Int) :
    Gen.C06.nextOffset pOffset pMeta initial 0 = nextOffset pOffset pMeta initial := by
  unfold Gen.C06.nextOffset nextOffset
  split <;> rfl

/-- `AsyncClose` sets `done` -/
theorem asyncClose_eq (pDone : Bool) : Gen.C06.asyncClose pDone = true := rfl

/-- the release condition of `releasePOMs` -/
theorem releaseDue_eq (pDone force pDirty rd : Bool) :
    Gen.C06.releaseDue pDone force pDirty rd = releaseDue pDone force pDirty := by
  unfold Gen.C06.releaseDue releaseDue
  cases pDone <;> cases force <;> cases pDirty <;> rfl

/-- `constructRequest` adds a block for a partition exactly when it is dirty (the statement that adds the
    block — `r.AddBlock(pom.topic, pom.partition, pom.offset, perPartitionTimestamp, pom.metadata)` — is
    matched literally by the extractor, so a change of its arguments breaks the extraction) -/
theorem snapshotIf_eq (pDirty : Bool) : Gen.C06.snapshotIf pDirty false true = pDirty := by
  unfold Gen.C06.snapshotIf
  cases pDirty <;> rfl

/-- the case labels of `switch err` in handleResponse are the model's table -/
theorem respCases_eq : Gen.C06.respCases = respCases := rfl

/-- the model's pstep uses exactly these functions: MarkOffset -/
theorem pstep_mark_fields (p : PState) (o m : Int) (h : p.obj = true) :
    ((pstep p (.mark o m)).offset, (pstep p (.mark o m)).md, (pstep p (.mark o m)).dirty) =
      Gen.C06.markOffset p.offset p.md p.dirty o m := by
  rw [markOffset_eq]
  simp only [pstep, markOffset, h, true_and]
  split <;> rfl

/-- … ResetOffset -/
theorem pstep_reset_fields (p : PState) (o m : Int) (h : p.obj = true) :
    ((pstep p (.reset o m)).offset, (pstep p (.reset o m)).md, (pstep p (.reset o m)).dirty) =
      Gen.C06.resetOffset p.offset p.md p.dirty o m := by
  rw [resetOffset_eq]
  simp only [pstep, resetOffset, h, true_and]
  split <;> rfl

/-- … the successful end of a commit attempt applies updateCommitted with the block of the request -/
theorem pstep_verdict_ok_fields (p : PState) (c : Pair) (h : p.inflight = some c) :
    ((pstep p (.verdict .ok)).offset, (pstep p (.verdict .ok)).md, (pstep p (.verdict .ok)).dirty) =
      Gen.C06.updateCommitted p.offset p.md p.dirty c.1 c.2 := by
  rw [updateCommitted_eq]
  simp only [pstep, h]

/-- … releasePOMs -/
theorem pstep_release_live (p : PState) (f rd : Bool) (h : p.live = true) (hi : p.inflight = none) :
    (pstep p (.release f)).live = !(Gen.C06.releaseDue p.done f p.dirty rd) := by
  rw [releaseDue_eq]
  simp only [pstep, h, hi, true_and, and_true]
  split
  · rename_i hd; simp [hd]
  · rename_i hd; simp at hd; simp [hd, h]

/-- … constructRequest visits a registered partition -/
theorem pstep_snap_block (p : PState) (h : p.live = true) (hi : p.inflight = none) :
    (pstep p .snap).inflight.isSome = Gen.C06.snapshotIf p.dirty false true := by
  rw [snapshotIf_eq]
  simp only [pstep, h, true_and]
  split
  · rename_i hd; simp [hd]
  · rename_i hd; simp at hd; simp [hd, hi]

/-- … NextOffset -/
theorem nextAnswer_eq (s : Sys) (i : Nat) (ini : Int) (q : PState) (h : s.parts[i]? = some q) (ho : q.obj = true) :
    nextAnswer s i ini = some (Gen.C06.nextOffset q.offset q.md ini 0) := by
  rw [nextOffset_eq]
  simp [nextAnswer, h, ho]

end Bridge.C06
