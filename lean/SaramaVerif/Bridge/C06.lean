import SaramaVerif.Gen.C06
import SaramaVerif.Model.OffsetMgr
/-
  Bridge obligations for C06: the definitions regenerated from offset_manager.go on this run (Gen.C06.*)
  compute what the hand-written model's field-level transition functions compute, on all inputs.
  offset is int64, metadata strings are opaque values (only copied and compared), so no range hypotheses
  are needed: the functions contain comparisons and copies only.
-/
set_option linter.unusedSimpArgs false
namespace Bridge.C06
open Model.OffsetMgr

/-- `MarkOffset` as the source has it now is the model's `markOffset` -/
theorem markOffset_eq (pOffset pMeta : Int) (pDirty : Bool) (offset metadata : Int) :
    Gen.C06.markOffset pOffset pMeta pDirty offset metadata = markOffset pOffset pMeta pDirty offset metadata := by
  unfold Gen.C06.markOffset markOffset
  split <;> rfl

/-- `ResetOffset` -/
theorem resetOffset_eq (pOffset pMeta : Int) (pDirty : Bool) (offset metadata : Int) :
    Gen.C06.resetOffset pOffset pMeta pDirty offset metadata = resetOffset pOffset pMeta pDirty offset metadata := by
  unfold Gen.C06.resetOffset resetOffset
  split <;> rfl

/-- `updateCommitted` touches only the dirty flag, and clears it exactly when the committed pair equals the
    pending pair -/
theorem updateCommitted_eq (pOffset pMeta : Int) (pDirty : Bool) (offset metadata : Int) :
    Gen.C06.updateCommitted pOffset pMeta pDirty offset metadata =
      (pOffset, pMeta, updateCommitted pOffset pMeta pDirty offset metadata) := by
  unfold Gen.C06.updateCommitted updateCommitted
  split <;> rfl

/-- `NextOffset` (the empty string is the metadata code 0) -/
theorem nextOffset_eq (pOffset pMeta initial : Int) :
    Gen.C06.nextOffset pOffset pMeta initial 0 = nextOffset pOffset pMeta initial := by
  unfold Gen.C06.nextOffset nextOffset
  split <;> rfl

/-- `AsyncClose` sets `done` -/
theorem asyncClose_eq (pDone : Bool) : Gen.C06.asyncClose pDone = true := rfl

/-- the release condition of `releasePOMs` -/
theorem releaseDue_eq (pDone force pDirty rd : Bool) :
    Gen.C06.releaseDue pDone force pDirty rd = releaseDue pDone force pDirty := by
  unfold Gen.C06.releaseDue releaseDue
  cases pDone <;> cases force <;> cases pDirty <;> rfl

/-- `constructRequest` adds a block for a partition exactly when it is dirty (the statement that adds the
    block — `r.AddBlock(pom.topic, pom.partition, pom.offset, perPartitionTimestamp, pom.metadata)` — is
    matched literally by the extractor, so a change of its arguments breaks the extraction) -/
theorem snapshotIf_eq (pDirty : Bool) : Gen.C06.snapshotIf pDirty false true = pDirty := by
  unfold Gen.C06.snapshotIf
  cases pDirty <;> rfl

/-- the case labels of `switch err` in handleResponse are the model's table -/
theorem respCases_eq : Gen.C06.respCases = respCases := rfl

/-- the model's pstep uses exactly these functions: MarkOffset -/
theorem pstep_mark_fields (p : PState) (o m : Int) (h : p.obj = true) :
    ((pstep p (.mark o m)).offset, (pstep p (.mark o m)).md, (pstep p (.mark o m)).dirty) =
      Gen.C06.markOffset p.offset p.md p.dirty o m := by
  rw [markOffset_eq]
  simp only [pstep, markOffset, h, true_and]
  split <;> rfl

/-- … ResetOffset -/
theorem pstep_reset_fields (p : PState) (o m : Int) (h : p.obj = true) :
    ((pstep p (.reset o m)).offset, (pstep p (.reset o m)).md, (pstep p (.reset o m)).dirty) =
      Gen.C06.resetOffset p.offset p.md p.dirty o m := by
  rw [resetOffset_eq]
  simp only [pstep, resetOffset, h, true_and]
  split <;> rfl

/-- … the successful end of a commit attempt applies updateCommitted with the block of the request -/
theorem pstep_verdict_ok_fields (p : PState) (c : Pair) (h : p.inflight = some c) :
    ((pstep p (.verdict .ok)).offset, (pstep p (.verdict .ok)).md, (pstep p (.verdict .ok)).dirty) =
      Gen.C06.updateCommitted p.offset p.md p.dirty c.1 c.2 := by
  rw [updateCommitted_eq]
  simp only [pstep, h]

/-- … releasePOMs -/
theorem pstep_release_live (p : PState) (f rd : Bool) (h : p.live = true) (hi : p.inflight = none) :
    (pstep p (.release f)).live = !(Gen.C06.releaseDue p.done f p.dirty rd) := by
  rw [releaseDue_eq]
  simp only [pstep, h, hi, true_and, and_true]
  split
  · rename_i hd; simp [hd]
  · rename_i hd; simp at hd; simp [hd, h]

/-- … constructRequest visits a registered partition -/
theorem pstep_snap_block (p : PState) (h : p.live = true) (hi : p.inflight = none) :
    (pstep p .snap).inflight.isSome = Gen.C06.snapshotIf p.dirty false true := by
  rw [snapshotIf_eq]
  simp only [pstep, h, true_and]
  split
  · rename_i hd; simp [hd]
  · rename_i hd; simp at hd; simp [hd, hi]

/-- … NextOffset -/
theorem nextAnswer_eq (s : Sys) (i : Nat) (ini : Int) (q : PState) (h : s.parts[i]? = some q) (ho : q.obj = true) :
    nextAnswer s i ini = some (Gen.C06.nextOffset q.offset q.md ini 0) := by
  rw [nextOffset_eq]
  simp [nextAnswer, h, ho]


/-! ### the body of handleResponse's loop (regenerated incl. the `fallthrough` clause) -/

/-- reading of the ghost variable `told` (last error handed to the partition): `told0` = none yet,
    `eInc` = ErrIncompleteResponse, a KError = its code -/
def encTold (told0 eInc : Int) : Option Err → Int
  | some .incomplete => eInc
  | some (.code k) => k
  | _ => told0

private theorem classify_cases (k : Int) :
    classify k =
      if k = 0 then .commit
      else if k = 6 ∨ k = 5 ∨ k = 15 ∨ k = 16 then .redispatch
      else if k = 12 ∨ k = 28 then .tellUser
      else if k = 14 then .nothing
      else .tellRedispatch := by
  by_cases h0 : k = 0; · subst h0; decide
  by_cases h6 : k = 6; · subst h6; decide
  by_cases h5 : k = 5; · subst h5; decide
  by_cases h15 : k = 15; · subst h15; decide
  by_cases h16 : k = 16; · subst h16; decide
  by_cases h12 : k = 12; · subst h12; decide
  by_cases h28 : k = 28; · subst h28; decide
  by_cases h14 : k = 14; · subst h14; decide
  by_cases h3 : k = 3; · subst h3; decide
  simp [classify, clauseOf, respCases, h0, h6, h5, h15, h16, h12, h28, h14, h3]

/-- a partition that is not in the request is skipped: `continue`, no effect -/
theorem respBody_not_in_request (topicMissing present : Bool) (code told0 : Int) (released0 committed0 : Bool)
    (eInc errTold : Int) (relNow comNow : Bool) :
    Gen.C06.respBody true topicMissing present code told0 released0 committed0 eInc errTold relNow comNow =
      (1, told0, released0, committed0) := by
  simp [Gen.C06.respBody]

/-- For a partition that is in the request, the loop body as the source has it now — missing topic, missing
    partition entry, and every clause of `switch err` incl. the fallthrough of ErrUnknownTopicOrPartition
    into default — does exactly what the model's `verdictEffects` says: whether updateCommitted is called
    (with the request's block: the call statement is matched literally), whether the coordinator is
    released, which error is handed to the partition; exit code 1 (`continue`) exactly for a missing entry. -/
theorem respBody_in_request (topicMissing present : Bool) (code told0 eInc : Int) :
    Gen.C06.respBody false topicMissing present code told0 false false eInc code true true =
      ((if topicMissing = true ∨ present = false then 1 else 0),
       encTold told0 eInc
         (verdictEffects (if topicMissing = true ∨ present = false then .missing else .code code)).2.2,
       (verdictEffects (if topicMissing = true ∨ present = false then .missing else .code code)).2.1,
       (verdictEffects (if topicMissing = true ∨ present = false then .missing else .code code)).1) := by
  cases topicMissing <;> cases present <;>
    simp only [Gen.C06.respBody, Bool.false_eq_true, ↓reduceIte, not_true_eq_false, not_false_eq_true,
      or_false, or_true, false_or, true_or, verdictEffects, encTold]
  -- the entry is present: the clauses of the switch
  simp only [Bool.true_eq_false, ↓reduceIte]
  rw [classify_cases]
  by_cases h0 : code = 0
  · simp [h0, encTold]
  by_cases hr : code = 6 ∨ code = 5 ∨ code = 15 ∨ code = 16
  · have hr' : ((code = 6 ∨ code = 5) ∨ code = 15) ∨ code = 16 := by omega
    simp [h0, hr, hr', encTold]
  have hr' : ¬ (((code = 6 ∨ code = 5) ∨ code = 15) ∨ code = 16) := by omega
  by_cases ht : code = 12 ∨ code = 28
  · simp [h0, hr, hr', ht, encTold]
  by_cases hn : code = 14
  · simp [h0, hr, hr', ht, hn, encTold]
  by_cases h3 : code = 3
  · simp [h0, hr, hr', ht, hn, h3, encTold]
  · simp [h0, hr, hr', ht, hn, h3, encTold]

/-- the model's reply step is made of `verdictEffects`: success of the attempt for the partition … -/
theorem pverdictFor_respond (vs : List Verdict) (i : Nat) :
    pverdictFor (.respond vs) i = if (verdictEffects (verdictAt vs i)).1 = true then .ok else .fail := by
  simp only [pverdictFor, verdictEffects]
  cases verdictAt vs i with
  | missing => simp
  | code k => cases h : classify k <;> simp [h]

/-- … dropping the cached coordinator … -/
theorem replyDrops_respond (parts : List PState) (vs : List Verdict) :
    replyDrops parts (.respond vs) =
      parts.zipIdx.any fun (p, i) => p.inflight.isSome && (verdictEffects (verdictAt vs i)).2.1 := by
  simp only [replyDrops]
  congr 1
  funext ⟨p, i⟩
  simp only [verdictEffects]
  cases verdictAt vs i with
  | missing => simp
  | code k => cases h : classify k <;> simp [h]

/-- … and the errors handed to the partitions -/
theorem stepErrs_respond (s : Sys) (vs : List Verdict) (h : s.active = true) :
    stepErrs s (.reply (.respond vs)) =
      s.parts.zipIdx.map fun (p, i) =>
        if p.inflight.isSome then (verdictEffects (verdictAt vs i)).2.2.toList else [] := by
  simp only [stepErrs, h, ↓reduceIte]
  congr 1
  funext ⟨p, i⟩
  simp only [verdictEffects]
  cases verdictAt vs i with
  | missing => simp
  | code k => cases hc : classify k <;> simp [hc]


/-- the case labels of `switch block.Err` in fetchInitialOffset (NoError / coordinator moved / loading) are
    the model's table; what the retry loop around it does is tied by correspondence (fault scripts that
    outlast Metadata.Retry.Max) — it contains recursion and a select the translator does not take -/
theorem fetchCases_eq : Gen.C06.fetchCases = fetchCases := rfl

end Bridge.C06
