import SaramaVerif.Gen.C17
import SaramaVerif.Model.Partitioner
/-
  Bridge obligations for C17: the definitions regenerated from partitioner.go / async_producer.go on this
  run (Gen.C17.*) compute what the hand-written model computes, on all inputs in the Go types' ranges.
-/
namespace Bridge.C17
open Go Model.Partitioner

private theorem tmod_abs (a n : Int) (hn : 0 < n) : -n < Int.tmod a n ∧ Int.tmod a n < n := by
  constructor
  · rcases Int.le_total 0 a with h | h
    · have := Int.tmod_nonneg n h; omega
    · have h1 : Int.tmod (-a) n < n := Int.tmod_lt_of_pos (-a) hn
      rw [Int.neg_tmod] at h1; omega
  · exact Int.tmod_lt_of_pos a hn

private theorem tmod_in32 (a n : Int) (hn : 0 < n) (hn2 : InI32 n) : InI32 (Int.tmod a n) := by
  have := tmod_abs a n hn
  unfold InI32 at *; omega

/-- the arithmetic tail of `hashPartitioner.Partition`, as the source has it now, is `hashChoice` -/
theorem hashTail_eq (refAbs : Bool) (h n part : Int) (hh : InU32 h) (hn : 0 < n) (hn2 : InI32 n) :
    Gen.C17.hashTail refAbs (wrap32 h) n part = hashChoice refAbs h n := by
  unfold Gen.C17.hashTail hashChoice
  cases refAbs
  · have hr := tmod_in32 (wrap32 h) n hn hn2
    have hneg : InI32 (-(wrap32 h).tmod n) := by
      have := tmod_abs (wrap32 h) n hn
      unfold InI32 at *; omega
    simp only [Bool.false_eq_true, ↓reduceIte, rem32, neg32, wrap32_id hr, wrap32_id hneg]
  · simp only [↓reduceIte, rem32]
    rw [and32_mask31_of_u32 h hh]
    exact wrap32_id (tmod_in32 _ n hn hn2)

/-- `roundRobinPartitioner.Partition` as the source has it now is `rrStep` (no int32 wrap can occur on the
    invariant 0 ≤ p ≤ 2^31-1 because the increment happens only below `n`) -/
theorem rrPartition_eq (p n e : Int) (hp : 0 ≤ p) (hp2 : InI32 p) (hn : 0 < n) (hn2 : InI32 n) :
    Gen.C17.rrPartition p n e = ((rrStep p n).1, e, (rrStep p n).2) := by
  unfold Gen.C17.rrPartition rrStep add32 InI32 at *
  split
  · simp [wrap32]
  · rw [wrap32_id (by unfold InI32; omega)]

/-- the checks of `partitionMessage` after the partition list was fetched, as the source has them now,
    are the model's decision table (errors as opaque values; `nilErr` is Go's nil): partitioner answered
    with a choice `c` -/
theorem routeCheck_ok (parts : List Int) (c nilErr eLNA eInv mp : Int) :
    Gen.C17.routeCheck parts.length 0 nilErr eLNA eInv mp (parts.getD c.toNat 0) c nilErr =
    match partitionMessage true (.ok parts) (.ok []) (fun _ => .ok c) with
    | .sent p => (nilErr, p)
    | .errLeaderNotAvailable => (eLNA, mp)
    | .errInvalidPartition => (eInv, mp)
    | _ => (0, 0) := by
  unfold partitionMessage Gen.C17.routeCheck
  simp only [↓reduceIte, ne_eq, not_true_eq_false]
  by_cases h0 : (parts.length : Int) = 0
  · simp only [h0, ↓reduceIte]
  · simp only [h0, ↓reduceIte]
    by_cases hr : c < 0 ∨ c ≥ (parts.length : Int)
    · simp only [hr, ↓reduceIte]
    · simp only [hr, ↓reduceIte]

/-- … partitioner answered with an error `pe` (any value other than nil) -/
theorem routeCheck_err (parts : List Int) (pc pe nilErr eLNA eInv mp looked : Int) (hpe : pe ≠ nilErr) :
    Gen.C17.routeCheck parts.length 0 nilErr eLNA eInv mp looked pc pe =
    match partitionMessage true (.ok parts) (.ok []) (fun _ => .error pe) with
    | .errLeaderNotAvailable => (eLNA, mp)
    | .errPartitioner e => (e, mp)
    | _ => (0, 0) := by
  unfold partitionMessage Gen.C17.routeCheck
  simp only [↓reduceIte, ne_eq, hpe, not_false_eq_true]
  by_cases h0 : (parts.length : Int) = 0
  · simp only [h0, ↓reduceIte]
  · simp only [h0, ↓reduceIte]

end Bridge.C17
