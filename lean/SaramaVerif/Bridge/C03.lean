import SaramaVerif.Gen.C03
import SaramaVerif.Model.ConsumerParse
/-
  Bridge obligations for C03 (and the parse model shared with C11): the loop-free fragments of consumer.go
  regenerated on this run (Gen.C03.*) compute what the hand-written model computes, for all inputs in the
  ranges of the Go types (offsets are int64 values that do not overflow: the model uses unbounded integers).
  The loops themselves (`range batch.Records`, `range block.RecordsSet`, the aborted-index loop with `break`,
  the `continue` filters) are outside the translator and tied by differential execution.
-/
namespace Bridge.C03
open Go Model.ConsumerParse

theorem offsetNewest_eq : Gen.C03.offsetNewest = offsetNewest := rfl
theorem offsetOldest_eq : Gen.C03.offsetOldest = offsetOldest := rfl

/-- the `switch` of chooseStartingOffset as the source has it now is the model's decision table
    (`nilErr`/`eOOR` are the opaque values of `nil` and `ErrOffsetOutOfRange`; the offset is left alone on error) -/
theorem chooseStart_eq (offset newest oldest cur nilErr eOOR : Int) :
    Gen.C03.chooseStart offset newest oldest cur nilErr eOOR =
      match chooseStart offset newest oldest with
      | some o => (nilErr, o)
      | none => (eOOR, cur) := by
  unfold Gen.C03.chooseStart chooseStart offsetNewest offsetOldest
  by_cases h1 : offset = -1
  · simp only [h1, ↓reduceIte]
  · by_cases h2 : offset = -2
    · simp only [h2, ↓reduceIte]; rfl
    · by_cases h3 : offset ≥ oldest ∧ offset ≤ newest
      · simp only [h1, h2, h3, and_self, ↓reduceIte]
      · simp only [h1, h2, h3, ↓reduceIte]

/-- the partial-trailing-message block of parseResponse (fetch-size doubling with the int32 overflow check, the
    Fetch.Max cap, the ErrMessageTooLarge skip) as the source has it now is what `parseBlock` does on a data
    block without records -/
theorem partialTrailing_eq (cfg : Cfg) (st : PState) (es : List Entry) (ab : List (Int × Int)) (pt : Bool)
    (hn : nRecs es = 0) (ho : InI64 (st.offset + 1)) :
    Gen.C03.partialTrailing pt cfg.fetchMax st.fetchSize st.offset 2147483647 =
      ((parseBlock cfg st (.data es pt ab)).2.1.offset, (parseBlock cfg st (.data es pt ab)).2.1.fetchSize) := by
  unfold Gen.C03.partialTrailing
  simp only [parseBlock, hn, ↓reduceIte, growFetch]
  cases pt
  · simp
  · simp only [↓reduceIte]
    by_cases h : cfg.fetchMax > 0 ∧ st.fetchSize = cfg.fetchMax
    · simp only [h, and_self, ↓reduceIte, add64, wrap64_id ho]
    · simp only [h, ↓reduceIte]
      by_cases h2 : mul32 st.fetchSize 2 < 0
      · simp only [h2, ↓reduceIte]
        split <;> rfl
      · simp only [h2, ↓reduceIte]
        split <;> rfl

/-- `offset := batch.FirstOffset + rec.OffsetDelta` is the absolute offset `batchRecs` assigns -/
theorem recordOffset_eq (base delta o0 : Int) (h : InI64 (base + delta)) :
    Gen.C03.recordOffset base delta o0 = base + delta := by
  unfold Gen.C03.recordOffset add64; exact wrap64_id h

/-- `child.offset = offset + 1` (parseRecords and parseMessages) is the `r.off + 1` of `scan` -/
theorem recordAdvance_eq (offset cur : Int) (h : InI64 (offset + 1)) :
    Gen.C03.recordAdvance offset cur = offset + 1 ∧ Gen.C03.messageAdvance offset cur = offset + 1 := by
  unfold Gen.C03.recordAdvance Gen.C03.messageAdvance add64; exact ⟨wrap64_id h, wrap64_id h⟩

/-- `if len(messages) == 0 { child.offset++ }` (parseRecords and parseMessages) is `bump` -/
theorem bump_eq (msgs : List SRec) (cur : Int) (h : InI64 (cur + 1)) :
    Gen.C03.recordsBump msgs.length cur = (bump (msgs, cur)).2 ∧
    Gen.C03.messagesBump msgs.length cur = (bump (msgs, cur)).2 := by
  unfold Gen.C03.recordsBump Gen.C03.messagesBump bump add64
  cases msgs with
  | nil => simp [wrap64_id h]
  | cons m ms =>
    have : ((ms.length : Int) + 1 = 0) ↔ False := ⟨fun h => by omega, fun h => h.elim⟩
    simp [this]

/-- the version-1 branch of parseMessages (rebasing of relative inner offsets on the wrapper, log-append
    timestamp) as the source has it now is `innerRec` of ONE of the two model variants: the pinned tree decides
    by the inner message's attribute (`tsFromWrapper = false`), the repaired code by the wrapper's -/
theorem legacyRebase_eq :
    (∀ (blk : LBlock) (last : Int) (m : LMsg), InI64 (blk.off - last) → InI64 (m.off + (blk.off - last)) →
      Gen.C03.legacyRebase m.ver blk.off last m.off m.logAppend blk.logAppend m.ts blk.ts =
        ((innerRec false blk last m).off, (innerRec false blk last m).ts)) ∨
    (∀ (blk : LBlock) (last : Int) (m : LMsg), InI64 (blk.off - last) → InI64 (m.off + (blk.off - last)) →
      Gen.C03.legacyRebase m.ver blk.off last m.off m.logAppend blk.logAppend m.ts blk.ts =
        ((innerRec true blk last m).off, (innerRec true blk last m).ts)) := by
  first
  | refine Or.inl (fun blk last m h1 h2 => ?_)
    unfold Gen.C03.legacyRebase innerRec sub64 add64
    simp only [wrap64_id h1, wrap64_id h2]
    by_cases hv : m.ver ≥ 1 <;> cases hl : m.logAppend <;> simp [hv]
    done
  | refine Or.inr (fun blk last m h1 h2 => ?_)
    unfold Gen.C03.legacyRebase innerRec sub64 add64
    simp only [wrap64_id h1, wrap64_id h2]
    by_cases hv : m.ver ≥ 1 <;> cases hl : blk.logAppend <;> simp [hv]
    done

end Bridge.C03
