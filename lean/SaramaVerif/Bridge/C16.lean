import SaramaVerif.Gen.C16
import SaramaVerif.Model.ProduceSet
import SaramaVerif.Lemmas.C16Sets
/-
  Bridge obligations for C16: the definitions regenerated from produce_set.go / async_producer.go on this run
  (Gen.C16.*) compute what the hand-written model computes, on all inputs in the Go types' ranges.
  Loops (the header loops of byteSize and add) are tied through their extracted bodies folded over the list;
  that the loops visit every header once and the control flow of `add` between the extracted fragments are
  tied by the differential run of the harness.  The constants maximumRecordOverhead (through
  binary.MaxVarintLen32/64) and the initial value of MaxRequestSize are extracted.
-/
namespace Bridge.C16
open Go Model.ProduceSet Lemmas.C16

theorem producerMessageOverhead_eq : Gen.C16.producerMessageOverhead = producerMessageOverhead := rfl
theorem recordBatchOverhead_eq : Gen.C16.recordBatchOverhead = recordBatchOverhead := rfl
theorem maximumRecordOverhead_eq : Gen.C16.maximumRecordOverhead = maximumRecordOverhead := rfl
theorem maxRequestSizeDefault_eq : Gen.C16.maxRequestSizeDefault = defaultMaxRequestSize := rfl

private theorem add64_id {a b : Int} (h : InI64 (a + b)) : add64 a b = a + b := wrap64_id h
private theorem sub64_id {a b : Int} (h : InI64 (a - b)) : sub64 a b = a - b := wrap64_id h
private theorem sub32_id {a b : Int} (h : InI32 (a - b)) : sub32 a b = a - b := wrap32_id h

/-- `produceSet.wouldOverflow` as the source has it now is the model's predicate; the `version` it passes to
    byteSize is `sizeVersion`.  `tPresent`/`pPresent` are the two nil tests on the nested map, `pbb` the
    partition set's bufferBytes when it exists. -/
theorem wouldOverflow_eq (c : Conf) (s : State) (m : Msg) (tPresent pPresent : Bool) (pbb v0 : Int)
    (hpres : (tPresent = true ∧ pPresent = true) ↔ (lookup m.tp s.parts).isSome = true)
    (hpbb : ∀ p, lookup m.tp s.parts = some p → pbb = p.bufferBytes)
    (h1 : InI64 (s.bufferBytes + byteSize (sizeVersion c) m))
    (h2 : InI64 (pbb + byteSize (sizeVersion c) m))
    (h3 : InI32 (c.maxRequestSize - 10 * 1024)) :
    Gen.C16.wouldOverflow c.v2 s.bufferBytes (byteSize (sizeVersion c) m) c.maxRequestSize tPresent pPresent pbb
      c.maxMessageBytes c.maxMessages s.bufferCount v0 = (wouldOverflow c s m, sizeVersion c) := by
  have hv : sizeVersion c = if c.v2 = true then 2 else 1 := by unfold sizeVersion; cases c.v2 <;> rfl
  have hbody : ∀ v : Int,
      (if s.bufferBytes + byteSize (sizeVersion c) m ≥ c.maxRequestSize - 10 * 1024 then (true, v)
       else if ((tPresent = true ∧ pPresent = true) ∧ pbb + byteSize (sizeVersion c) m ≥ c.maxMessageBytes) then (true, v)
       else if (c.maxMessages > 0 ∧ s.bufferCount ≥ c.maxMessages) then (true, v) else (false, v))
      = (wouldOverflow c s m, v) := by
    intro v
    unfold wouldOverflow safetyMargin partBytes
    by_cases hA : s.bufferBytes + byteSize (sizeVersion c) m ≥ c.maxRequestSize - 10 * 1024
    · have hA' : s.bufferBytes + byteSize (sizeVersion c) m ≥ c.maxRequestSize - 10240 := by omega
      simp only [hA, hA', ↓reduceIte]
    · have hA' : ¬ (s.bufferBytes + byteSize (sizeVersion c) m ≥ c.maxRequestSize - 10240) := by omega
      simp only [hA, hA', ↓reduceIte]
      cases hl : lookup m.tp s.parts with
      | none =>
        have : ¬ (tPresent = true ∧ pPresent = true) := by rw [hpres, hl]; simp
        simp only [this, false_and, ↓reduceIte, Option.map_none, Bool.false_eq_true]
        split <;> rfl
      | some p =>
        have hp : tPresent = true ∧ pPresent = true := by rw [hpres, hl]; simp
        have hb := hpbb p hl
        subst hb
        simp only [hp, and_self, true_and, Option.map_some, decide_eq_true_eq]
        split
        · rfl
        · split <;> rfl
  unfold Gen.C16.wouldOverflow
  simp only [add64_id h1, add64_id h2, sub32_id h3]
  cases hc2 : c.v2
  · simp only [Bool.false_eq_true, ↓reduceIte]
    have := hbody 1
    simp only [hv, hc2, Bool.false_eq_true, ↓reduceIte] at this ⊢
    exact this
  · simp only [↓reduceIte]
    have := hbody 2
    simp only [hv, hc2, ↓reduceIte] at this ⊢
    exact this

/-- `produceSet.readyToFlush` -/
theorem readyToFlush_eq (c : Conf) (s : State) :
    Gen.C16.readyToFlush (isEmpty s) c.flushFrequency c.flushBytes c.flushMessages s.bufferCount s.bufferBytes
      = readyToFlush c s := by
  unfold Gen.C16.readyToFlush readyToFlush
  simp only [and_assoc]

/-- `produceSet.empty` -/
theorem empty_eq (s : State) : Gen.C16.empty s.bufferCount = isEmpty s := rfl

/-- the header loop body of byteSize / add, folded over the headers -/
def hdrFold (step : Int → Int → Int → Int) (size : Int) : List (Nat × Nat) → Int
  | [] => size
  | h :: t => hdrFold step (step size h.1 h.2) t

private theorem hdrFold_eq (step : Int → Int → Int → Int)
    (hstep : ∀ size hk hv, step size hk hv = add64 size (add64 (add64 hk hv) (2 * 5)))
    (hs : List (Nat × Nat)) (size : Int) (h0 : 0 ≤ size) (hr : size + headersSize hs ≤ 9223372036854775807) :
    hdrFold step size hs = size + headersSize hs := by
  induction hs generalizing size with
  | nil => simp [hdrFold, headersSize]
  | cons a t ih =>
    have hn := headersSize_nonneg t
    simp only [headersSize, maxVarintLen32] at hr
    have e1 : (2 : Int) * 5 = 10 := by decide
    have e2 : add64 (a.1 : Int) (a.2 : Int) = (a.1 : Int) + (a.2 : Int) := add64_id (by unfold InI64; omega)
    have e3 : add64 ((a.1 : Int) + (a.2 : Int)) 10 = (a.1 : Int) + (a.2 : Int) + 10 := add64_id (by unfold InI64; omega)
    have e4 : add64 size ((a.1 : Int) + (a.2 : Int) + 10) = size + ((a.1 : Int) + (a.2 : Int) + 10) :=
      add64_id (by unfold InI64; omega)
    simp only [hdrFold, hstep, e1, e2, e3, e4]
    rw [ih _ (by omega) (by omega)]
    simp only [headersSize, maxVarintLen32]; omega

/-- `ProducerMessage.byteSize`: with the header loop's result being its extracted body folded over the
    headers from `maximumRecordOverhead`, the source computes the model's byteSize.
    (maximumRecordOverhead and binary.MaxVarintLen32 are evaluated by the translator.) -/
theorem byteSize_eq (version : Int) (m : Msg) (keyPresent valPresent : Bool)
    (hk : keyPresent = false → m.keyLen = 0) (hvl : valPresent = false → m.valLen = 0)
    (hr : byteSize version m ≤ 9223372036854775807) :
    Gen.C16.byteSize version keyPresent valPresent m.keyLen m.valLen
      (hdrFold Gen.C16.byteSizeHeaderStep Gen.C16.maximumRecordOverhead m.headers) = byteSize version m := by
  have hn := headersSize_nonneg m.headers
  unfold Gen.C16.byteSize Gen.C16.maximumRecordOverhead
  unfold byteSize maximumRecordOverhead producerMessageOverhead at *
  by_cases hver : version ≥ 2
  · simp only [hver, ↓reduceIte] at hr ⊢
    rw [hdrFold_eq Gen.C16.byteSizeHeaderStep (fun _ _ _ => rfl) m.headers 36 (by omega) (by omega)]
    cases keyPresent <;> cases valPresent <;> simp only [Bool.false_eq_true, ↓reduceIte]
    · have := hk rfl; have := hvl rfl; omega
    · have := hk rfl
      rw [add64_id (by unfold InI64; omega)]; omega
    · have := hvl rfl
      rw [add64_id (by unfold InI64; omega)]; omega
    · rw [add64_id (a := 36 + headersSize m.headers) (by unfold InI64; omega), add64_id (by unfold InI64; omega)]
  · simp only [hver, ↓reduceIte] at hr ⊢
    cases keyPresent <;> cases valPresent <;> simp only [Bool.false_eq_true, ↓reduceIte]
    · have := hk rfl; have := hvl rfl; omega
    · have := hk rfl
      rw [add64_id (by unfold InI64; omega)]; omega
    · have := hvl rfl
      rw [add64_id (by unfold InI64; omega)]; omega
    · rw [add64_id (a := 26) (by unfold InI64; omega), add64_id (by unfold InI64; omega)]

/-- the dispatcher's two checks (each ends in `continue` when it rejects) are the model's `dispatch` -/
theorem dispatch_eq (c : Conf) (hnn : Bool) (m : Msg) :
    let r1 := Gen.C16.dispatchVersion c.v2 hnn 1 false true
    (r1.1 = sizeVersion c) ∧
    (dispatch c hnn m =
      if r1.2 = true then .errHeadersNeedV011
      else if Gen.C16.dispatchSize (byteSize r1.1 m) c.maxMessageBytes false true = true then .errMessageSizeTooLarge
      else .forward) := by
  unfold Gen.C16.dispatchVersion Gen.C16.dispatchSize dispatch sizeVersion
  cases c.v2 <;> cases hnn <;> simp <;> split <;> simp_all

/-- the `size` computation of `add`, assembled from its extracted assignments -/
theorem addSize_eq_gen (c : Conf) (isNew : Bool) (m : Msg) (hr : addSize c isNew m ≤ 9223372036854775807) :
    addSize c isNew m =
      if c.v2 = true then
        hdrFold Gen.C16.addHeaderStep
          (Gen.C16.addRecordPayload
            (Gen.C16.addRecordOverhead (if isNew = true then Gen.C16.addBatchOverhead 0 else 0))
            m.keyLen m.valLen) m.headers
      else Gen.C16.addLegacySize 0 m.keyLen m.valLen := by
  have hn := headersSize_nonneg m.headers
  unfold addSize maximumRecordOverhead recordBatchOverhead producerMessageOverhead at *
  unfold Gen.C16.addLegacySize Gen.C16.addRecordPayload Gen.C16.addRecordOverhead Gen.C16.addBatchOverhead
  cases hv : c.v2
  · simp only [hv, Bool.false_eq_true, ↓reduceIte] at hr ⊢
    rw [add64_id (a := 26) (by unfold InI64; omega), add64_id (by unfold InI64; omega)]
  · simp only [hv, ↓reduceIte] at hr ⊢
    cases isNew
    · simp only [Bool.false_eq_true, ↓reduceIte] at hr ⊢
      have e1 : add64 0 36 = 36 := by decide
      rw [e1, add64_id (a := (m.keyLen : Int)) (by unfold InI64; omega), add64_id (by unfold InI64; omega)]
      rw [hdrFold_eq Gen.C16.addHeaderStep (fun _ _ _ => rfl) m.headers _ (by omega) (by omega)]
      omega
    · simp only [↓reduceIte] at hr ⊢
      have e1 : add64 49 36 = 85 := by decide
      rw [e1, add64_id (a := (m.keyLen : Int)) (by unfold InI64; omega), add64_id (by unfold InI64; omega)]
      rw [hdrFold_eq Gen.C16.addHeaderStep (fun _ _ _ => rfl) m.headers _ (by omega) (by omega)]
      omega

/-- the three `+=` at the end of `add` -/
theorem addAccumulate_eq (size pbb bb bc nilErr : Int) (h1 : InI64 (pbb + size)) (h2 : InI64 (bb + size)) (h3 : InI64 (bc + 1)) :
    Gen.C16.addAccumulate size pbb bb bc nilErr = (nilErr, pbb + size, bb + size, bc + 1) := by
  unfold Gen.C16.addAccumulate
  simp only [add64_id h1, add64_id h2, add64_id h3]

/-- the two `-=` of dropPartition -/
theorem dropAccumulate_eq (s : State) (p : PSet) (msgs : Int) (h1 : InI64 (s.bufferBytes - p.bufferBytes))
    (h2 : InI64 (s.bufferCount - (p.msgs.length : Int))) (tp : Nat × Nat) (hl : lookup tp s.parts = some p) :
    Gen.C16.dropAccumulate p.bufferBytes p.msgs.length s.bufferBytes s.bufferCount msgs =
      (msgs, (dropPartition s tp).bufferBytes, (dropPartition s tp).bufferCount) := by
  unfold Gen.C16.dropAccumulate dropPartition
  simp only [sub64_id h1, sub64_id h2, hl]

/-- the tail of the run loop: `output` is bp.output exactly when the model enables the output -/
theorem runOutputTail_eq (c : Conf) (b : BP) (out bpOutput nilChan : Int) (hne : bpOutput ≠ nilChan) :
    (Gen.C16.runOutputTail b.timerFired (readyToFlush c b.buffer) out bpOutput nilChan = bpOutput) ↔
      (BP.tail c b).outputEnabled = true := by
  unfold Gen.C16.runOutputTail BP.tail
  cases b.timerFired <;> cases readyToFlush c b.buffer <;> simp [Ne.symm hne]

/-- rollOver: timer cleared, timerFired cleared, fresh buffer -/
theorem rollOver_eq (b : BP) (timer buffer nilTimer fresh : Int) :
    Gen.C16.rollOver timer b.timerFired buffer nilTimer fresh = (nilTimer, b.rollOver.timerFired, fresh) ∧
    b.rollOver.timerArmed = false ∧ b.rollOver.buffer = State.empty := by
  unfold Gen.C16.rollOver BP.rollOver
  simp

/-- the message branch of the run loop (from the overflow test to the arming of the timer; result: exit code
    0 = falls through to the loop tail, 1 = `continue`, and bp.timer), non-idempotent producer (no producer id),
    `timerVal`/`armedT` stand for bp.timer and the channel `time.After` returns, 0 for nil.
    A message that does not overflow: added, timer armed if there is a frequency and none is running; a failing
    add `continue`s and leaves everything as it was. -/
theorem runMsgBranch_fits (c : Conf) (b : BP) (now : Int) (m : Msg) (timerVal armedT e1 e2 w1 w2 : Int)
    (ht : timerVal ≠ 0 ↔ b.timerArmed = true) (ha : armedT ≠ 0) (hwo : wouldOverflow c b.buffer m = false) :
    (addOk c b.buffer m = true →
      (Gen.C16.runMsgBranch false (-1) e1 e2 c.flushFrequency timerVal 0 w1 w2 0 armedT).1 = 0 ∧
      ((Gen.C16.runMsgBranch false (-1) e1 e2 c.flushFrequency timerVal 0 w1 w2 0 armedT).2 ≠ 0 ↔
        (BP.step c b (.msg now m)).1.timerArmed = true) ∧
      (BP.step c b (.msg now m)).1.buffer = add c b.buffer now m) ∧
    (addOk c b.buffer m = false → ∀ addErr, addErr ≠ 0 →
      Gen.C16.runMsgBranch false (-1) e1 e2 c.flushFrequency timerVal 0 w1 w2 addErr armedT = (1, timerVal) ∧
      BP.step c b (.msg now m) = (b, [])) := by
  unfold Gen.C16.runMsgBranch
  refine ⟨?_, ?_⟩
  · intro hok
    simp only [BP.step, hwo, hok, Bool.false_eq_true, ↓reduceIte, BP.tail, ne_eq, not_true_eq_false, false_and]
    by_cases hf : c.flushFrequency > 0
    · by_cases h0 : timerVal = 0
      · have : b.timerArmed = false := by
          cases hb : b.timerArmed
          · rfl
          · exact absurd h0 (ht.mpr hb)
        simp [hf, h0, ha, this]
      · simp [hf, h0, ht.mp h0]
    · by_cases h0 : timerVal = 0
      · have : b.timerArmed = false := by
          cases hb : b.timerArmed
          · rfl
          · exact absurd h0 (ht.mpr hb)
        simp [hf, h0, this]
      · simp [hf, h0, ht.mp h0]
  · intro hok addErr hne
    simp [BP.step, hwo, hok, hne]

/-- … a message that would overflow: waitForSpace hands the buffer over and rolls over (bp.timer is nil
    afterwards), the add into the fresh buffer cannot fail, the timer is armed iff there is a frequency -/
theorem runMsgBranch_overflow (c : Conf) (b : BP) (now : Int) (m : Msg) (armedT e1 e2 w2 : Int)
    (ha : armedT ≠ 0) (hwo : wouldOverflow c b.buffer m = true) :
    (Gen.C16.runMsgBranch true (-1) e1 e2 c.flushFrequency 0 0 0 w2 0 armedT).1 = 0 ∧
    ((Gen.C16.runMsgBranch true (-1) e1 e2 c.flushFrequency 0 0 0 w2 0 armedT).2 ≠ 0 ↔
      (BP.step c b (.msg now m)).1.timerArmed = true) ∧
    (BP.step c b (.msg now m)).2 = [b.buffer] ∧
    (BP.step c b (.msg now m)).1.buffer = add c State.empty now m := by
  unfold Gen.C16.runMsgBranch
  simp only [BP.step, hwo, ↓reduceIte, BP.tail, ne_eq, not_true_eq_false, false_and]
  by_cases hf : c.flushFrequency > 0 <;> simp [hf, ha]

end Bridge.C16
