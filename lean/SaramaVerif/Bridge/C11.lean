import SaramaVerif.Gen.C11
import SaramaVerif.Model.Txn
/-
  Bridge obligations for C11: the request-building ladder of brokerConsumer.fetchNewMessages, regenerated from
  consumer.go on this run (Gen.C11.fetchLadder; the seven `Config.Version.IsAtLeast(…)` tests are Boolean
  parameters), equals the expected table `Model.Txn.fetchRequestSpec` for every configuration: which request
  version is used and which of MaxBytes / Isolation / SessionID / SessionEpoch / RackID are set.
  In particular the configured isolation level is sent with every request version that has the field (v4+),
  which is what entitles the consumer to a read-committed answer (`FaithfulTxnData`) from a broker.
-/
namespace Bridge.C11
open Model.Txn

/-- the ladder as the source has it now, for a configuration reaching `level` of the seven thresholds
    (zero-valued request fields on entry) -/
theorem fetchLadder_eq (level : Nat) (hl : level ≤ 7) (mrs cfgIso cfgRack : Int) :
    Gen.C11.fetchLadder (decide (1 ≤ level)) (decide (2 ≤ level)) (decide (3 ≤ level)) (decide (4 ≤ level))
      (decide (5 ≤ level)) (decide (6 ≤ level)) (decide (7 ≤ level)) 0 0 mrs 0 cfgIso 0 0 0 cfgRack =
    fetchRequestSpec level mrs cfgIso cfgRack := by
  have h : level = 0 ∨ level = 1 ∨ level = 2 ∨ level = 3 ∨ level = 4 ∨ level = 5 ∨ level = 6 ∨ level = 7 := by omega
  rcases h with h | h | h | h | h | h | h | h <;> subst h <;> rfl

/-- every request version that can carry an isolation level (Kafka ≥ 0.11: fetch v4, v7, v10, v11) carries the
    configured one -/
theorem isolation_level_is_sent (level : Nat) (hl : level ≤ 7) (h4 : 4 ≤ level) (mrs cfgIso cfgRack : Int) :
    (Gen.C11.fetchLadder (decide (1 ≤ level)) (decide (2 ≤ level)) (decide (3 ≤ level)) (decide (4 ≤ level))
      (decide (5 ≤ level)) (decide (6 ≤ level)) (decide (7 ≤ level)) 0 0 mrs 0 cfgIso 0 0 0 cfgRack).2.2.1 = cfgIso := by
  rw [fetchLadder_eq level hl]
  simp [fetchRequestSpec, h4]

end Bridge.C11
