import SaramaVerif.Gen.C14
import SaramaVerif.Model.BrokerConn
/-
  Bridge obligations for C14: the loop-free pieces of the receive path, re-translated from broker.go /
  response_header.go on this run (Gen.C14.*), compute what the hand-written model uses.
  (`MaxResponseSize` is a package variable, not a constant: it is a parameter here and the harness passes the
  run-time value to the model on every `case` line.  The tagged-field check of header version 1 and the body
  buffer size `length - headerLength + 4` sit in code the translator does not take (`if` with init statement,
  `make`); they are tied by trace correspondence: header-v1 requests with good and bad tag bytes, bodies of
  all sizes.)
-/
namespace Bridge.C14
open Go Model.BrokerConn

/-- `getHeaderLength` as the source has it now is the model's `headerLength` -/
theorem getHeaderLength_eq (hv : Int) : Gen.C14.getHeaderLength hv = (headerLength hv : Int) := by
  unfold Gen.C14.getHeaderLength headerLength
  split <;> simp

/-- the 8 header bytes of version 0 are the length field plus the correlation id; version 1 adds the one byte
    of the empty tagged-field array -/
theorem header_sizes :
    (headerLength 0 : Int) = Gen.C14.responseLengthSize + Gen.C14.correlationIDSize ∧
    (headerLength 1 : Int) = Gen.C14.responseLengthSize + Gen.C14.correlationIDSize + 1 := by
  decide

/-- the length check and the reading of the correlation id in `responseHeader.decode`, as the source has them
    now: error `eLen` and untouched id when the length is ≤ 4 or above MaxResponseSize, otherwise the id that
    was read and the error of that read -/
theorem headerDecodeTail_eq (len maxResp cid err eLen version cidRead eCid : Int) :
    Gen.C14.headerDecodeTail len maxResp cid err eLen version cidRead eCid =
      if lengthBad maxResp len = true then (eLen, cid) else (eCid, cidRead) := by
  unfold Gen.C14.headerDecodeTail lengthBad
  by_cases h : len ≤ 4 ∨ len > maxResp
  · simp only [h, ↓reduceIte, decide_true]
  · simp only [h, ↓reduceIte, decide_false, Bool.false_eq_true]

/-- … and therefore the model's `decodeHeader` for header version 0 is what the source computes on the 8
    header bytes (`nilErr` = Go's nil, `eLen` any other value) -/
theorem decodeHeader_v0_eq (maxResp : Int) (hdr : Bytes) (cid err eLen nilErr version : Int) (hne : eLen ≠ nilErr) :
    decodeHeader maxResp 0 hdr =
      (if (Gen.C14.headerDecodeTail (be32 hdr 0) maxResp cid err eLen version (be32 hdr 4) nilErr).1 = nilErr
       then .ok (be32 hdr 0) (Gen.C14.headerDecodeTail (be32 hdr 0) maxResp cid err eLen version (be32 hdr 4) nilErr).2
       else .bad .badLength) := by
  rw [headerDecodeTail_eq]
  unfold decodeHeader
  by_cases h : lengthBad maxResp (be32 hdr 0) = true
  · simp only [h, ↓reduceIte, hne]
  · simp only [h, Bool.false_eq_true, ↓reduceIte]
    simp

end Bridge.C14
