import SaramaVerif.Gen.C09
import SaramaVerif.Model.CodecMachine
import SaramaVerif.Model.CodecRecords
/-
  Bridge obligations for C09: what tools/extract regenerated from /repo on this run (constants of record.go /
  record_batch.go / records.go / message.go / crc32_field.go; the loop-free arithmetic of length_field.go,
  prep_encoder.go and real_decoder.go) is what the hand model computes.
-/
namespace Bridge.C09
open Go Model.Codec

/-! ### constants -/

/-- `recordBatchOverhead` (record_batch.go) is the model's 49 = bytes between the length prefix and the records -/
theorem recordBatchOverhead_eq : Gen.C09.recordBatchOverhead = (Model.Codec.recordBatchOverhead : Int) := by decide

/-- `maximumRecordOverhead` (record.go): 5·MaxVarintLen32 + MaxVarintLen64 + 1 -/
theorem maximumRecordOverhead_eq : Gen.C09.maximumRecordOverhead = (Model.Codec.maximumRecordOverhead : Int) := by decide

/-- `magicOffset` (records.go): the byte `recordsKind` / `decSet` look at -/
theorem magicOffset_eq : Gen.C09.magicOffset = 16 ∧
    (∀ bs : Bytes, recordsKind bs =
      if bs.length < Gen.C09.magicOffset.toNat + 1 then none
      else if toS 1 (fromBE ((bs.drop Gen.C09.magicOffset.toNat).take 1)) < 2 then some .legacy else some .default) :=
  ⟨by decide, fun _ => rfl⟩

/-- attribute masks (message.go, record.go) as `Batch.attributes` / `Msg.attributes` / the decoders use them -/
theorem attribute_masks_eq :
    Gen.C09.compressionCodecMask = 7 ∧ Gen.C09.timestampTypeMask = 8 ∧ Gen.C09.controlMask = 32 ∧
    Gen.C09.isTransactionalMask = 16 ∧
    (∀ b : Batch, b.attributes = b.codec % (Gen.C09.compressionCodecMask + 1) +
        (if b.control then Gen.C09.controlMask else 0) + (if b.logAppendTime then Gen.C09.timestampTypeMask else 0) +
        (if b.isTransactional then Gen.C09.isTransactionalMask else 0)) ∧
    (∀ m : Msg, m.attributes = m.codec % (Gen.C09.compressionCodecMask + 1) +
        (if m.logAppendTime then Gen.C09.timestampTypeMask else 0)) :=
  ⟨by decide, by decide, by decide, by decide, fun _ => rfl, fun _ => rfl⟩

/-- the CRC polynomial tags and the records-type tags are distinct (IEEE ≠ Castagnoli, legacy ≠ default) -/
theorem tags_distinct : Gen.C09.crcIEEE ≠ Gen.C09.crcCastagnoli ∧ Gen.C09.legacyRecords ≠ Gen.C09.defaultRecords := by
  decide

/-! ### prep encoder: fixed-width putters add the width the real encoder writes -/

theorem prepPutInt_eq (length : Int) (h : InI64 length) (h' : InI64 (length + 8)) :
    Gen.C09.prepPutInt8 length = length + (sizeP .i8 (.int 0) : Nat) ∧
    Gen.C09.prepPutInt16 length = length + (sizeP .i16 (.int 0) : Nat) ∧
    Gen.C09.prepPutInt32 length = length + (sizeP .i32 (.int 0) : Nat) ∧
    Gen.C09.prepPutInt64 length = length + (sizeP .i64 (.int 0) : Nat) ∧
    Gen.C09.prepPutBool length = length + (sizeP .bool (.int 0) : Nat) := by
  unfold InI64 at h h'
  simp only [Gen.C09.prepPutInt8, Gen.C09.prepPutInt16, Gen.C09.prepPutInt32, Gen.C09.prepPutInt64,
    Gen.C09.prepPutBool, sizeP, add64]
  refine ⟨?_, ?_, ?_, ?_, ?_⟩ <;> (rw [wrap64_id (by unfold InI64; omega)]; rfl)

/-! ### push/pop fields -/

/-- `lengthField.check` is the model decoder's pop condition (offsets fit an int32: buffers are ≤ MaxResponseSize) -/
theorem lengthFieldCheck_eq (cur start len eInvalid nilErr : Int) (h1 : InI64 (cur - start)) (h2 : InI32 (cur - start - 4)) :
    Gen.C09.lengthFieldCheck cur start len eInvalid nilErr = (if cur - start - 4 = len then nilErr else eInvalid) := by
  unfold InI64 at h1; unfold InI32 at h2
  unfold Gen.C09.lengthFieldCheck
  have e1 : wrap64 (cur - start) = cur - start := wrap64_id (by unfold InI64; omega)
  have e2 : wrap64 (cur - start - 4) = cur - start - 4 := wrap64_id (by unfold InI64; omega)
  have e3 : wrap32 (cur - start - 4) = cur - start - 4 := wrap32_id (by unfold InI32; omega)
  simp only [sub64, toI32, e1, e2, e3]
  by_cases h : cur - start - 4 = len <;> simp [h]

/-- `varintLengthField.adjustLength`: stores `cur − start − oldFieldSize` and returns the difference of the two
    field sizes – the pop case of the model's prep machine -/
theorem varintAdjust_eq (cur start len oldSize newSize : Int) (h1 : InI64 (cur - start)) (h2 : InI64 (cur - start - oldSize))
    (h3 : InI64 (newSize - oldSize)) :
    Gen.C09.varintAdjust cur start len oldSize newSize = (newSize - oldSize, cur - start - oldSize) := by
  unfold Gen.C09.varintAdjust
  simp only [sub64]
  rw [wrap64_id h1, wrap64_id h2, wrap64_id h3]

/-- … as used by `prepStep`: popping a varint length frame adds what `adjustLength` returns and the field
    keeps the body size -/
theorem prep_pop_varlen (s : PrepSt) (f : PrepFrame) (st : List PrepFrame) (hk : f.kind = .varlen) (hs : s.stack = f :: st)
    (h1 : InI64 (s.length - f.start)) (h2 : InI64 (s.length - f.start - reserveLength .varlen f.fieldLen))
    (h3 : InI64 (reserveLength .varlen (s.length - f.start - reserveLength .varlen f.fieldLen) - reserveLength .varlen f.fieldLen)) :
    (prepStep s .pop).length = s.length +
      (Gen.C09.varintAdjust s.length f.start f.fieldLen (reserveLength .varlen f.fieldLen)
        (reserveLength .varlen (s.length - f.start - reserveLength .varlen f.fieldLen))).1 ∧
    (adjustLength s.length f.start f.fieldLen).1 =
      (Gen.C09.varintAdjust s.length f.start f.fieldLen (reserveLength .varlen f.fieldLen)
        (reserveLength .varlen (s.length - f.start - reserveLength .varlen f.fieldLen))).2 := by
  rw [varintAdjust_eq _ _ _ _ _ h1 h2 h3]
  simp only [prepStep, hs, hk, adjustLength, and_self]

/-- `varintLengthField.check` (measures the varint as it was read, `fieldSize` > 0 bytes) is the model decoder's
    pop condition for a varint length frame: the bytes after the field up to the current offset are `len` many -/
theorem varintCheck_eq (cur start len fieldSize eInvalid nilErr : Int) (hf : 0 < fieldSize) (h1 : InI64 (cur - start))
    (h2 : InI64 (cur - start - fieldSize)) :
    Gen.C09.varintCheck cur start len fieldSize eInvalid nilErr =
      (if cur - (start + fieldSize) = len then nilErr else eInvalid) := by
  unfold Gen.C09.varintCheck
  simp only [sub64, wrap64_id h1, wrap64_id h2, show ¬ fieldSize ≤ 0 by omega, false_or]
  have e : cur - (start + fieldSize) = cur - start - fieldSize := by omega
  rw [e]
  by_cases h : cur - start - fieldSize = len <;> simp [h]

/-! ### decoder guards -/

/-- `getCompactArrayLength` after the uvarint: 0 (null) gives 0; otherwise n − 1, which must not exceed the
    remaining bytes – the model's `getCompactArrayLength` -/
theorem compactArrayLength_eq (bs : Bytes) (n : Nat) (rest : Bytes) (nilErr off rawLen eIns : Int) (h : InI64 n)
    (hg : getUVarint bs = some (n, rest)) :
    Gen.C09.compactArrayLength n nilErr nilErr rest.length off rawLen eIns =
      (match getCompactArrayLength bs with
       | some (m, _) => ((m : Int), nilErr, off)
       | none => (0, eIns, rawLen)) := by
  unfold InI64 at h
  unfold Gen.C09.compactArrayLength getCompactArrayLength
  simp only [hg, ne_eq, not_true_eq_false, ↓reduceIte, sub64]
  by_cases h0 : (n : Int) = 0
  · have hn : n = 0 := by omega
    subst hn
    simp
  · have e : wrap64 ((n : Int) - 1) = ((n - 1 : Nat) : Int) := by
      rw [wrap64_id (by unfold InI64; omega)]; omega
    simp only [h0, ↓reduceIte, e]
    by_cases h1 : n - 1 > rest.length
    · have : ((n - 1 : Nat) : Int) > (rest.length : Int) := by omega
      simp only [h1, ↓reduceIte, this, or_true]
    · have h2 : ¬ (((n - 1 : Nat) : Int) < 0 ∨ ((n - 1 : Nat) : Int) > (rest.length : Int)) := by omega
      simp only [h1, ↓reduceIte, h2]

theorem compactArrayLength_err (n err nilErr rem off rawLen eIns : Int) (h : err ≠ nilErr) :
    Gen.C09.compactArrayLength n err nilErr rem off rawLen eIns = (0, err, off) := by
  unfold Gen.C09.compactArrayLength
  simp only [ne_eq, h, not_false_eq_true, ↓reduceIte]

/-- the plausibility guards of `getArrayLength` after the int32 was read: the count must not exceed the
    remaining bytes nor 2·MaxUint16, and must not be below −1 – exactly the conditions of the model's
    `getArrayLength` (math.MaxUint16 is evaluated by the translator; error values are opaque) -/
theorem arrayLengthGuard_eq (bs : Bytes) (n : Int) (rest : Bytes) (off rawLen eIns eInv nilErr : Int)
    (hg : getInt 4 bs = some (n, rest)) :
    Gen.C09.arrayLengthGuard n rest.length off rawLen eIns eInv nilErr =
      (match getArrayLength bs with
       | some (m, _) => (m, nilErr, off)
       | none => if n > rest.length then (-1, eIns, rawLen) else (-1, eInv, off)) := by
  unfold getArrayLength Gen.C09.arrayLengthGuard
  simp only [hg, show (2 : Int) * 65535 = 131070 by decide]
  by_cases h1 : n > (rest.length : Int)
  · simp only [h1, ↓reduceIte]
  · by_cases h2 : n > 131070 ∨ n < -1
    · simp only [h1, h2, ↓reduceIte]
    · simp only [h1, h2, ↓reduceIte]

end Bridge.C09
