import SaramaVerif.Gen.C10
import SaramaVerif.Model.DecoderFmt
/-
  Bridge obligations for C10: the loop-free bounds logic of the getters of real_decoder.go, of the length-field
  push-decoders, of decode/versionedDecode and of responseHeader.decode, regenerated from /repo on this run
  (Gen.C10.*), computes what the hand-written model (Model/Decoder.lean) computes.  Go values that the translator
  cannot see (the bytes read, the error values, slices) are parameters; errors are opaque values.
  The obligations are stated for the variant of the model that /repo has now: the repaired (`checked`) getters.
  When a guard is removed again the regenerated definition changes and the obligation no longer proves; the harness
  then observes the `pinned` behaviour and reports the crash with a concrete input.
-/
namespace Bridge.C10
open Go Model.Decoder

/-- rendering of a model outcome as the (value, error, rd.off) triple of the Go getter -/
def triple (dflt : Int) (nilErr : Int) (errv : Err → Int) : Res Int → Int × Int × Int
  | .ok v off _ => (v, nilErr, off)
  | .err e off _ => (dflt, errv e, off)
  | .panic _ => (0, 0, 0)
  | .hang => (0, 0, 0)

private theorem add64_nat (a b : Nat) (h : a + b ≤ 4294967296 + 4294967296) : add64 (a : Int) (b : Int) = ((a + b : Nat) : Int) := by
  unfold add64 wrap64; omega

theorem getInt8_eq (raw : Bytes) (off : Nat) (hlen : raw.length ≤ 4294967296) (h : off ≤ raw.length) (eI nilE : Int) :
    Gen.C10.getInt8 (rem raw off) off raw.length (sgn8 (beU raw off 1)) eI nilE
      = triple (-1) nilE (fun _ => eI) (getInt8 raw off) := by
  unfold Gen.C10.getInt8 getInt8 triple
  split
  · rfl
  · simp only []; rw [show (1 : Int) = ((1 : Nat) : Int) from rfl, add64_nat off 1 (by omega)]

theorem getInt16_eq (raw : Bytes) (off : Nat) (hlen : raw.length ≤ 4294967296) (h : off ≤ raw.length) (eI nilE : Int) :
    Gen.C10.getInt16 (rem raw off) off raw.length (sgn16 (beU raw off 2)) eI nilE
      = triple (-1) nilE (fun _ => eI) (getInt16 raw off) := by
  unfold Gen.C10.getInt16 getInt16 triple
  split
  · rfl
  · simp only []; rw [show (2 : Int) = ((2 : Nat) : Int) from rfl, add64_nat off 2 (by omega)]

theorem getInt32_eq (raw : Bytes) (off : Nat) (hlen : raw.length ≤ 4294967296) (h : off ≤ raw.length) (eI nilE : Int) :
    Gen.C10.getInt32 (rem raw off) off raw.length (sgn32 (beU raw off 4)) eI nilE
      = triple (-1) nilE (fun _ => eI) (getInt32 raw off) := by
  unfold Gen.C10.getInt32 getInt32 triple
  split
  · rfl
  · simp only []; rw [show (4 : Int) = ((4 : Nat) : Int) from rfl, add64_nat off 4 (by omega)]

theorem getInt64_eq (raw : Bytes) (off : Nat) (hlen : raw.length ≤ 4294967296) (h : off ≤ raw.length) (eI nilE : Int) :
    Gen.C10.getInt64 (rem raw off) off raw.length (sgn64 (beU raw off 8)) eI nilE
      = triple (-1) nilE (fun _ => eI) (getInt64 raw off) := by
  unfold Gen.C10.getInt64 getInt64 triple
  split
  · rfl
  · simp only []; rw [show (8 : Int) = ((8 : Nat) : Int) from rfl, add64_nat off 8 (by omega)]

/-- getArrayLength after the read, as the source has it now = the checked model: lengths below -1 are rejected -/
theorem arrayLengthTail_eq (tmp : Int) (len off : Nat) (eI eA nilE : Int) :
    Gen.C10.arrayLengthTail tmp ((len : Int) - off) off len 131070 eI eA nilE
      = triple (-1) nilE (fun e => if e = .insufficient then eI else eA) (arrayLengthTail .checked tmp len off) := by
  unfold Gen.C10.arrayLengthTail arrayLengthTail triple
  split
  · simp only [↓reduceIte]
  · by_cases h1 : tmp > 131070
    · simp only [h1, true_or, ↓reduceIte, reduceCtorEq]
    · by_cases h2 : tmp < -1
      · simp only [h1, h2, or_true, and_self, ↓reduceIte, reduceCtorEq]
      · simp only [h1, h2, or_self, and_false, ↓reduceIte]

/-- the function getCompactArrayLength applies to the uvarint it read (checked model) -/
def compactArrayLengthModel (raw : Bytes) (n : Nat) (off1 : Nat) : Res Int :=
  if n = 0 then .ok 0 off1 0
  else if Variant.checked = .checked ∧ (compactLen n < 0 ∨ compactLen n > rem raw off1) then .err .insufficient raw.length 0
  else .ok (compactLen n) off1 0

theorem compactArrayLengthModel_is_model (raw : Bytes) (off : Nat) :
    getCompactArrayLength .checked raw off = (getUVarint raw off).bind (compactArrayLengthModel raw) := rfl

/-- getCompactArrayLength after the uvarint, as the source has it now: `int(n) - 1` must be within [0, remaining()] -/
theorem compactArrayLengthTail_eq (raw : Bytes) (n : Nat) (hn : n < 18446744073709551616) (off1 : Nat) (eI nilE : Int) :
    Gen.C10.compactArrayLengthTail (wrap64 n) (rem raw off1) off1 raw.length eI nilE
      = triple 0 nilE (fun _ => eI) (compactArrayLengthModel raw n off1) := by
  unfold Gen.C10.compactArrayLengthTail compactArrayLengthModel triple
  have hs : sub64 (wrap64 (n : Int)) 1 = compactLen n := by unfold sub64 compactLen; rfl
  rw [hs]
  generalize compactLen n = L
  by_cases h : n = 0
  · have h0 : wrap64 (n : Int) = 0 := by rw [h]; unfold wrap64; omega
    rw [if_pos h0, if_pos h]
  · have h2 : ¬ wrap64 (n : Int) = 0 := by unfold wrap64; omega
    rw [if_neg h2, if_neg h]
    rcases Classical.em (L < 0 ∨ L > rem raw off1) with h3 | h3
    · rw [if_pos h3, if_pos ⟨rfl, h3⟩]
    · rw [if_neg h3, if_neg (fun hh => h3 hh.2)]

theorem getBoolTail_eq (b : Int) (nilE eB : Int) :
    Gen.C10.getBoolTail b nilE nilE eB = (if b = 0 then (false, nilE) else if b ≠ 1 then (false, eB) else (true, nilE)) := by
  unfold Gen.C10.getBoolTail
  by_cases h0 : b = 0
  · simp [h0]
  · by_cases h1 : b = 1
    · simp [h1]
    · simp [h0, h1]

theorem stringLengthTail_eq (n : Int) (len off : Nat) (eI eS nilE : Int) :
    Gen.C10.stringLengthTail n ((len : Int) - off) off len eI eS nilE
      = triple 0 nilE (fun e => if e = .insufficient then eI else eS) (stringLengthTail n len off) := by
  unfold Gen.C10.stringLengthTail stringLengthTail triple
  simp only []
  split
  · simp only [reduceCtorEq, ↓reduceIte]
  · split
    · simp only [↓reduceIte]
    · rfl

/-- getRawBytes: (slice-or-nil, error, rd.off) -/
theorem getRawBytes_eq (raw : Bytes) (off : Nat) (length : Int) (hlen : raw.length ≤ 4294967296) (h : off ≤ raw.length)
    (sl eI eB nilV : Int) :
    Gen.C10.getRawBytes length (rem raw off) off raw.length sl eI eB nilV
      = match getRawBytes raw off length with
        | .ok _ off' _ => (sl, nilV, (off' : Int))
        | .err e off' _ => (nilV, (if e = .insufficient then eI else eB), (off' : Int))
        | _ => (0, 0, 0) := by
  unfold Gen.C10.getRawBytes getRawBytes
  split
  · simp only [reduceCtorEq, ↓reduceIte]
  · split
    · simp only [↓reduceIte]
    · rename_i h1 h2
      unfold rem at h2
      simp only []
      have : add64 (off : Int) length = ((off + length.toNat : Nat) : Int) := by
        unfold add64 wrap64; omega
      rw [this]

/-- peek: the guard is `remaining < offset+length` and nothing else (negative arguments are not rejected) -/
theorem peek_guard_eq (raw : Bytes) (off : Nat) (o l : Int) (ho : 0 ≤ o) (hl : 0 ≤ l) (ho2 : o ≤ 4294967296) (hl2 : l ≤ 4294967296)
    (sub eI nilV : Int) :
    Gen.C10.peek o l (rem raw off) off sub eI nilV
      = (if rem raw off < o + l then (nilV, eI) else (sub, nilV)) := by
  unfold Gen.C10.peek
  have : add64 o l = o + l := by unfold add64 wrap64; omega
  rw [this]

theorem peekInt8_guard_eq (raw : Bytes) (off : Nat) (o : Int) (ho : 0 ≤ o) (ho2 : o ≤ 4294967296) (val eI nilV : Int) :
    Gen.C10.peekInt8 o 1 (rem raw off) val eI nilV
      = (if rem raw off < o + 1 then (-1, eI) else (val, nilV)) := by
  unfold Gen.C10.peekInt8
  have : add64 o 1 = o + 1 := by unfold add64 wrap64; omega
  rw [this]

/-- lengthField.decode after getInt32 -/
theorem lengthFieldDecodeTail_eq (raw : Bytes) (off1 : Nat) (l eI nilE : Int) :
    Gen.C10.lengthFieldDecodeTail l (rem raw off1) eI nilE = (if l > wrap32 (rem raw off1) then eI else nilE) := by
  unfold Gen.C10.lengthFieldDecodeTail toI32
  rfl

/-- lengthField.check = `pop` of a length frame -/
theorem lengthFieldCheck_eq (v : Variant) (crcf : Bool → Bytes → Nat) (raw : Bytes) (start cur : Nat) (stored eLF nilE : Int)
    (h : start ≤ 4294967296) (hc : cur ≤ 4294967296) :
    Gen.C10.lengthFieldCheck cur start stored eLF nilE
      = match pop v crcf raw (.length start stored) cur with
        | .ok _ _ _ => nilE
        | _ => eLF := by
  unfold Gen.C10.lengthFieldCheck pop toI32
  have : sub64 (sub64 (cur : Int) start) 4 = (cur : Int) - start - 4 := by unfold sub64 wrap64; omega
  rw [this]
  simp only []
  split <;> rfl

/-- varintLengthField.check = `pop` of a varint length frame in the CHECKED variant: the size subtracted is the
    number of bytes the varint occupies in the buffer (`binary.Varint(buf[l.startOffset:])`), not reserveLength() -/
theorem varintLengthFieldCheck_eq (crcf : Bool → Bytes → Nat) (raw : Bytes) (start cur fl : Nat) (stored eLF nilE : Int)
    (hfl : 0 < fl) :
    Gen.C10.varintLengthFieldCheck cur start stored eLF nilE fl
      = match pop .checked crcf raw (.varintLength start stored fl) cur with
        | .ok _ _ _ => nilE
        | _ => eLF := by
  unfold Gen.C10.varintLengthFieldCheck pop
  simp only []
  have : sub64 (sub64 (cur : Int) start) (fl : Int) = wrap64 ((cur : Int) - start - (fl : Int)) := by
    unfold sub64 wrap64; omega
  rw [this]
  have hpos : ¬ ((fl : Int) ≤ 0) := by omega
  simp only [hpos, false_or, ↓reduceIte]
  split <;> rfl

/-- getCompactString after the uvarint, as the source has it now: negative length → errInvalidStringLength,
    length > remaining() → ErrInsufficientData, otherwise the copy of `length` bytes -/
theorem compactStringTail_eq (raw : Bytes) (n : Nat) (off1 : Nat) (h : off1 ≤ raw.length) (hlen : raw.length ≤ 4294967296)
    (eS strV eInv eI nilE : Int) :
    Gen.C10.compactStringTail (wrap64 n) (rem raw off1) off1 raw.length eS strV eInv eI nilE
      = match (if Variant.checked = .checked ∧ compactLen' n < 0 then (Res.err .invalidStringLength off1 0 : Res Bytes)
               else if Variant.checked = .checked ∧ compactLen' n > rem raw off1 then .err .insufficient raw.length 0
               else takeString raw off1 (compactLen' n)) with
        | .ok _ off' _ => (strV, nilE, (off' : Int))
        | .err e off' _ => (eS, (if e = .insufficient then eI else eInv), (off' : Int))
        | _ => (0, 0, 0) := by
  unfold Gen.C10.compactStringTail
  have hs : sub64 (wrap64 (n : Int)) 1 = compactLen' n := by
    unfold sub64 compactLen' wrap64; omega
  rw [hs]
  generalize compactLen' n = L
  simp only [true_and]
  by_cases h1 : L < 0
  · simp only [h1, ↓reduceIte, reduceCtorEq]
  · by_cases h2 : L > rem raw off1
    · simp only [h1, h2, ↓reduceIte]
    · unfold rem at h2
      have hc : sliceOK raw off1 (off1 + L) := ⟨by omega, by omega, by omega⟩
      have ha : add64 (off1 : Int) L = ((off1 + L.toNat : Nat) : Int) := by unfold add64 wrap64; omega
      simp only [h1, rem, h2, ↓reduceIte, takeString, hc, ha]

/-- getCompactNullableString after the uvarint -/
theorem compactNullableStringTail_eq (raw : Bytes) (n : Nat) (off1 : Nat) (h : off1 ≤ raw.length) (hlen : raw.length ≤ 4294967296)
    (strV ptr eI nilV : Int) :
    Gen.C10.compactNullableStringTail (wrap64 n) (rem raw off1) off1 raw.length nilV strV ptr eI nilV
      = match (if compactLen' n < 0 then (Res.ok none off1 0 : Res (Option Bytes))
               else if Variant.checked = .checked ∧ compactLen' n > rem raw off1 then .err .insufficient raw.length 0
               else (takeString raw off1 (compactLen' n)).map some) with
        | .ok none off' _ => (nilV, nilV, (off' : Int))
        | .ok (some _) off' _ => (ptr, nilV, (off' : Int))
        | .err _ off' _ => (nilV, eI, (off' : Int))
        | _ => (0, 0, 0) := by
  unfold Gen.C10.compactNullableStringTail
  have hs : sub64 (wrap64 (n : Int)) 1 = compactLen' n := by
    unfold sub64 compactLen' wrap64; omega
  rw [hs]
  generalize compactLen' n = L
  simp only [true_and]
  by_cases h1 : L < 0
  · simp only [h1, ↓reduceIte]
  · by_cases h2 : L > rem raw off1
    · simp only [h1, h2, ↓reduceIte]
    · unfold rem at h2
      have hc : sliceOK raw off1 (off1 + L) := ⟨by omega, by omega, by omega⟩
      have ha : add64 (off1 : Int) L = ((off1 + L.toNat : Nat) : Int) := by unfold add64 wrap64; omega
      simp only [h1, rem, h2, ↓reduceIte, takeString, hc, ha, Res.map]

/-- the whole-buffer check of decode() and versionedDecode() = `topLevel` -/
theorem decodeTrailing_eq {α : Type} (v : α) (off len a : Nat) (eLen nilE : Int) :
    Gen.C10.decodeTrailing off len eLen nilE
      = match topLevel (.ok v off a) len with
        | .ok _ _ _ => nilE
        | _ => eLen := by
  unfold Gen.C10.decodeTrailing topLevel
  by_cases h : off = len
  · subst h; simp
  · have : ¬ ((off : Int) = (len : Int)) := by omega
    simp [h, this]

theorem versionedDecodeTrailing_eq {α : Type} (v : α) (off len a : Nat) (eLen nilE : Int) :
    Gen.C10.versionedDecodeTrailing off len eLen nilE
      = match topLevel (.ok v off a) len with
        | .ok _ _ _ => nilE
        | _ => eLen := by
  unfold Gen.C10.versionedDecodeTrailing topLevel
  by_cases h : off = len
  · subst h; simp
  · have : ¬ ((off : Int) = (len : Int)) := by omega
    simp [h, this]

/-- the size check of responseHeader.decode = the first test of `decodeHeader` -/
theorem headerLengthCheck_eq (length maxResp eHdr cid0 cid cidErr : Int) :
    Gen.C10.headerLengthCheck length maxResp eHdr cid0 cid cidErr
      = (if length ≤ 4 ∨ length > maxResp then eHdr else cidErr) := by
  unfold Gen.C10.headerLengthCheck
  split <;> rfl

theorem getHeaderLength_eq (version : Int) : Gen.C10.getHeaderLength version = headerLength version := by
  unfold Gen.C10.getHeaderLength headerLength
  rfl

end Bridge.C10
