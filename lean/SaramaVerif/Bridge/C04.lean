import SaramaVerif.Gen.C04
import SaramaVerif.Model.ProduceSet
/-
  Bridge obligations for C04: the fragments of produceSet.buildRequest / add regenerated from /repo on this run
  (request version selection, LastOffsetDelta, OffsetDelta and relative inner offsets, wrapper format and
  timestamp, message format of legacy sets) and the case labels of handleSuccess's `switch block.Err` are what
  the model uses; the body of the closure handleSuccess passes to eachPartition (the whole per-block verdict,
  including `msg.Offset = block.Offset + int64(i)` and the log-append-time override) is bridged too.
-/
namespace Bridge.C04
open Go Model.ProduceSet

/-- handleSuccess's switch: success on 0, duplicate on 46, the retriable codes -/
theorem handleSuccessCases_eq :
    Gen.C04.handleSuccessCases = [[0], [errDuplicateSequenceNumber], retriable] := by decide

/-- the three successive assignments to req.Version -/
theorem reqVersion_eq (c : Conf) :
    Gen.C04.reqVersionZstd c.codec c.v21 (Gen.C04.reqVersionV011 c.v2 (Gen.C04.reqVersionV010 c.v1 0)) = reqVersion c := by
  unfold Gen.C04.reqVersionZstd Gen.C04.reqVersionV011 Gen.C04.reqVersionV010 reqVersion
  cases c.v1 <;> cases c.v2 <;> cases c.v21 <;> simp

/-- `rb.LastOffsetDelta = int32(len(rb.Records) - 1)` under `len > 0` (a fresh batch has LastOffsetDelta 0) -/
theorem lastOffsetDelta_eq (c : Conf) (p : PSet) (h3 : reqVersion c ≥ 3) (hn : (p.recs.length : Int) ≤ 2147483648) :
    ∃ recs, buildBatch c p = .recordBatch p.firstTs (Gen.C04.batchOffsets p.recs.length 0) c.codec recs := by
  refine ⟨renumber 0 p.recs, ?_⟩
  unfold buildBatch Gen.C04.batchOffsets
  simp only [h3, ↓reduceIte]
  by_cases hl : p.recs.length > 0
  · have hl' : (p.recs.length : Int) > 0 := by omega
    have e1 : sub64 (p.recs.length : Int) 1 = (p.recs.length : Int) - 1 := wrap64_id (by unfold InI64; omega)
    have e2 : toI32 ((p.recs.length : Int) - 1) = (p.recs.length : Int) - 1 := wrap32_id (by unfold InI32; omega)
    simp only [hl, hl', ↓reduceIte, e1, e2]
  · have hl' : ¬ (p.recs.length : Int) > 0 := by omega
    simp only [hl, hl', ↓reduceIte]

/-- a `for i, x := range xs` loop whose body is the extracted assignment `step i x.offset` -/
def rangeLoop (step : Int → Int → Int) : Int → List Rec → List Rec
  | _, [] => []
  | j, r :: t => { r with offset := step j r.offset } :: rangeLoop step (j + 1) t

/-- `record.OffsetDelta = int64(i)` (record batches) and `msg.Offset = int64(i)` (format-1 wrapper), run over
    the records, are the model's `renumber` -/
theorem renumber_eq_gen (rs : List Rec) (i : Int) :
    renumber i rs = rangeLoop Gen.C04.recordOffsetDelta i rs ∧
    renumber i rs = rangeLoop Gen.C04.innerOffset i rs := by
  induction rs generalizing i with
  | nil => simp [renumber, rangeLoop]
  | cons a t ih =>
    simp only [renumber, rangeLoop, Gen.C04.recordOffsetDelta, Gen.C04.innerOffset]
    exact ⟨by rw [(ih (i + 1)).1], by rw [(ih (i + 1)).2]⟩

/-- the compressed wrapper of a legacy set: format 1 with the first inner message's timestamp and
    renumbered inner offsets from 0.10 on, format 0 with untouched offsets before
    (marker values: 0 = zero time, 1 = `Messages[0].Msg.Timestamp`; false/true = inner loop not run / run) -/
theorem wrapper_eq (c : Conf) (p : PSet) (h3 : ¬ reqVersion c ≥ 3) (hc : c.codec ≠ 0) :
    buildBatch c p =
      .wrapper c.codec (Gen.C04.wrapperV1 c.v1 0 0 1).1
        (if (Gen.C04.wrapperV1 c.v1 0 0 1).2 = 1 then headTs p.recs else none)
        (if Gen.C04.innerOffsetsGate c.v1 false true = true then renumber 0 p.recs else p.recs) := by
  unfold buildBatch Gen.C04.wrapperV1 Gen.C04.innerOffsetsGate
  cases c.v1 <;> simp [h3, hc]

/-- message format of a legacy set built by `add`: format 1 with the timestamp from 0.10 on, else format 0
    (marker values: 0 = zero time, 1 = the `timestamp` local of add) -/
theorem legacy_message_eq (c : Conf) (now fts : Int) (m : Msg) (hv : c.v2 = false) (p : PSet) (h3 : ¬ reqVersion c ≥ 3)
    (hc : c.codec = 0) :
    (mkRec c now fts m).ts = (if (Gen.C04.addMsgV1 c.v1 0 0 1).2 = 1 then some (effTs now m) else none) ∧
    buildBatch c p = .msgSet (Gen.C04.addMsgV1 c.v1 0 0 1).1 p.recs := by
  unfold mkRec buildBatch Gen.C04.addMsgV1
  cases c.v1 <;> simp [hv, h3, hc]

/-- `msg.Offset = block.Offset + int64(i)` run over the messages of a partition set -/
def offsetLoop (base : Int) : Int → List Msg → List (Nat × Int)
  | _, [] => []
  | i, m :: t => (m.id, Gen.C04.successOffset base i 0) :: offsetLoop base (i + 1) t

/-- handleSuccess's offset loop, as the source has it now, is the model's `assignOffsets`
    (no int64 wrap as long as the last assigned offset is representable) -/
theorem assignOffsets_eq_gen (base : Int) (msgs : List Msg) (i : Int) (hi : 0 ≤ i)
    (h0 : InI64 (base + i)) (h1 : InI64 (base + i + (msgs.length : Int))) :
    assignOffsets base i msgs = offsetLoop base i msgs := by
  induction msgs generalizing i with
  | nil => rfl
  | cons m t ih =>
    simp only [List.length_cons] at h1
    have e : Gen.C04.successOffset base i 0 = base + i := by
      unfold Gen.C04.successOffset; exact wrap64_id h0
    have h0' : InI64 (base + (i + 1)) := by unfold InI64 at *; omega
    have h1' : InI64 (base + (i + 1) + (t.length : Int)) := by unfold InI64 at *; omega
    simp only [assignOffsets, offsetLoop, e, ih (i + 1) (by omega) h0' h1']

/-- reading of the model's verdict in the marker values given to the regenerated closure body:
    (1 returnSuccesses | 2 returnErrors(ErrIncompleteResponse) | 3 returnErrors(block.Err) | 4 retry,
     offsets assigned, timestamps replaced by the block's log-append time) -/
def verdictCode : Verdict → Int × Bool × Bool
  | .successes _ lat => (1, true, lat.isSome)
  | .successesUnassigned _ => (1, false, false)
  | .errors e _ => (if e = errIncompleteResponse then 2 else 3, false, false)
  | .retry _ _ => (4, false, false)

/-- the body of the closure in handleSuccess (one partition set), as the source has it now, is the model's
    `handleBlock` in its pinned variant: response present, block present -/
theorem handleBlock_eq_block (c : Conf) (retryMax err base : Int) (lat : Option Int) (msgs : List Msg)
    (he : err ≠ errIncompleteResponse) :
    Gen.C04.handleBlock false false err c.v1 lat.isNone retryMax 0 false false 1 2 3 4 true true =
      verdictCode (handleBlock c false retryMax true (some (err, base, lat)) msgs) := by
  unfold Gen.C04.handleBlock handleBlock
  simp only [Bool.false_eq_true, ↓reduceIte, Bool.not_true, errDuplicateSequenceNumber]
  by_cases h0 : err = 0
  · subst h0
    cases c.v1 <;> cases lat <;> simp [verdictCode]
  · by_cases h46 : err = 46
    · subst h46; simp [verdictCode]
    · by_cases hr : err ∈ retriable
      · have hr' : ((((((err = 2) ∨ (err = 3)) ∨ (err = 5)) ∨ (err = 6)) ∨ (err = 7)) ∨ (err = 19)) ∨ (err = 20) := by
          simp only [retriable, List.mem_cons, List.not_mem_nil, or_false] at hr; omega
        by_cases hm : retryMax ≤ 0 <;> simp [h0, h46, hr, hr', hm, verdictCode, he]
      · have hr' : ¬ (((((((err = 2) ∨ (err = 3)) ∨ (err = 5)) ∨ (err = 6)) ∨ (err = 7)) ∨ (err = 19)) ∨ (err = 20)) := by
          simp only [retriable, List.mem_cons, List.not_mem_nil, or_false] at hr; omega
        by_cases hm : retryMax ≤ 0 <;> simp [h0, h46, hr, hr', hm, verdictCode, he]

/-- … no response at all (RequiredAcks NoResponse), or a response without a block for this partition -/
theorem handleBlock_eq_missing (c : Conf) (retryMax err : Int) (isV1 latZero noBlock : Bool) (msgs : List Msg)
    (blk : Option (Int × Int × Option Int)) :
    Gen.C04.handleBlock true noBlock err isV1 latZero retryMax 0 false false 1 2 3 4 true true =
      verdictCode (handleBlock c false retryMax false blk msgs) ∧
    Gen.C04.handleBlock false true err isV1 latZero retryMax 0 false false 1 2 3 4 true true =
      verdictCode (handleBlock c false retryMax true none msgs) := by
  unfold Gen.C04.handleBlock handleBlock
  simp [verdictCode]

end Bridge.C04
