import SaramaVerif.GoSem
/-! REGENERATED on every check run from /repo by /verif/tools/extract (spec: tools/extract/specs/C17.json). Do not edit. -/
set_option linter.unusedVariables false
namespace Gen.C17

/-- generated from partitioner.go (*hashPartitioner).Partition (fragment starting at `if p.referenceAbs`) -/
def hashTail (refAbs : Bool) (hs : Int) (n : Int) (partition : Int) : Int :=
  if (refAbs = true) then
    let partition_v1 : Int := (Go.rem32 (Go.and32 hs 2147483647) n)
    partition_v1
  else
    let partition_v2 : Int := (Go.rem32 hs n)
    if (partition_v2 < 0) then
      let partition_v3 : Int := (Go.neg32 partition_v2)
      partition_v3
    else
      partition_v2

/-- generated from partitioner.go (*roundRobinPartitioner).Partition -/
def rrPartition (p : Int) (n : Int) (nilErr : Int) : Int × Int × Int :=
  if (p ≥ n) then
    let p_v1 : Int := 0
    let ret_v1 : Int := p_v1
    let p_v2 : Int := (Go.add32 p_v1 1)
    (ret_v1, nilErr, p_v2)
  else
    let ret_v2 : Int := p
    let p_v3 : Int := (Go.add32 p 1)
    (ret_v2, nilErr, p_v3)

/-- generated from async_producer.go (*topicProducer).partitionMessage (fragment starting at `if numPartitions == 0`) -/
def routeCheck (n : Int) (err : Int) (nilErr : Int) (eLNA : Int) (eInv : Int) (mp : Int) (looked : Int) (pchoice : Int) (perr : Int) : Int × Int :=
  if (n = 0) then
    (eLNA, mp)
  else
    let choice_v1 : Int := pchoice
    let err_v1 : Int := perr
    if (err_v1 ≠ nilErr) then
      (err_v1, mp)
    else
      if ((choice_v1 < 0) ∨ (choice_v1 ≥ n)) then
        (eInv, mp)
      else
        let mp_v1 : Int := looked
        (nilErr, mp_v1)

end Gen.C17
