import SaramaVerif.GoSem
/-! REGENERATED on every check run from /repo by /verif/tools/extract (spec: tools/extract/specs/C09.json). Do not edit. -/
set_option linter.unusedVariables false
namespace Gen.C09

/-- constant recordBatchOverhead -/
def recordBatchOverhead : Int := 49

/-- constant magicOffset -/
def magicOffset : Int := 16

/-- constant compressionCodecMask -/
def compressionCodecMask : Int := 7

/-- constant timestampTypeMask -/
def timestampTypeMask : Int := 8

/-- constant controlMask -/
def controlMask : Int := 32

/-- constant isTransactionalMask -/
def isTransactionalMask : Int := 16

/-- constant crcIEEE -/
def crcIEEE : Int := 0

/-- constant crcCastagnoli -/
def crcCastagnoli : Int := 1

/-- constant legacyRecords -/
def legacyRecords : Int := 1

/-- constant defaultRecords -/
def defaultRecords : Int := 2

/-- constant maximumRecordOverhead -/
def maximumRecordOverhead : Int := 36

/-- generated from length_field.go (*lengthField).check -/
def lengthFieldCheck (cur : Int) (start : Int) (len : Int) (eInvalid : Int) (nilErr : Int) : Int :=
  if ((Go.toI32 (Go.sub64 (Go.sub64 cur start) 4)) ≠ len) then
    eInvalid
  else
    nilErr

/-- generated from length_field.go (*varintLengthField).adjustLength -/
def varintAdjust (cur : Int) (start : Int) (len : Int) (oldSize : Int) (newSize : Int) : Int × Int :=
  let oldFieldSize_v1 : Int := oldSize
  let len_v1 : Int := (Go.sub64 (Go.sub64 cur start) oldFieldSize_v1)
  ((Go.sub64 newSize oldFieldSize_v1), len_v1)

/-- generated from length_field.go (*varintLengthField).check -/
def varintCheck (cur : Int) (start : Int) (len : Int) (fieldSize : Int) (eInvalid : Int) (nilErr : Int) : Int :=
  let fieldSize_v1 : Int := fieldSize
  if ((fieldSize_v1 ≤ 0) ∨ ((Go.sub64 (Go.sub64 cur start) fieldSize_v1) ≠ len)) then
    eInvalid
  else
    nilErr

/-- generated from prep_encoder.go (*prepEncoder).putInt8 -/
def prepPutInt8 (length : Int) : Int :=
  let length_v1 : Int := (Go.add64 length 1)
  length_v1

/-- generated from prep_encoder.go (*prepEncoder).putInt16 -/
def prepPutInt16 (length : Int) : Int :=
  let length_v1 : Int := (Go.add64 length 2)
  length_v1

/-- generated from prep_encoder.go (*prepEncoder).putInt32 -/
def prepPutInt32 (length : Int) : Int :=
  let length_v1 : Int := (Go.add64 length 4)
  length_v1

/-- generated from prep_encoder.go (*prepEncoder).putInt64 -/
def prepPutInt64 (length : Int) : Int :=
  let length_v1 : Int := (Go.add64 length 8)
  length_v1

/-- generated from prep_encoder.go (*prepEncoder).putBool -/
def prepPutBool (length : Int) : Int :=
  let length_v1 : Int := (Go.add64 length 1)
  length_v1

/-- generated from real_decoder.go (*realDecoder).getCompactArrayLength -/
def compactArrayLength (n : Int) (err : Int) (nilErr : Int) (rem : Int) (off : Int) (rawLen : Int) (eInsufficient : Int) : Int × Int × Int :=
  let err_v1 : Int := err
  let n_v1 : Int := n
  if (err_v1 ≠ nilErr) then
    (0, err_v1, off)
  else
    if (n_v1 = 0) then
      (0, nilErr, off)
    else
      let length_v1 : Int := (Go.sub64 n_v1 1)
      if ((length_v1 < 0) ∨ (length_v1 > rem)) then
        let off_v1 : Int := rawLen
        (0, eInsufficient, off_v1)
      else
        (length_v1, nilErr, off)

/-- generated from real_decoder.go (*realDecoder).getArrayLength (fragment starting at `if tmp > rd.remaining()`) -/
def arrayLengthGuard (tmp : Int) (rem : Int) (off : Int) (rawLen : Int) (eInsufficient : Int) (eInvalid : Int) (nilErr : Int) : Int × Int × Int :=
  if (tmp > rem) then
    let off_v1 : Int := rawLen
    ((-1), eInsufficient, off_v1)
  else
    if ((tmp > (2 * 65535)) ∨ (tmp < (-1))) then
      ((-1), eInvalid, off)
    else
      (tmp, nilErr, off)

end Gen.C09
