import SaramaVerif.GoSem
/-! REGENERATED on every check run from /repo by /verif/tools/extract (spec: tools/extract/specs/C09.json). Do not edit. -/
set_option linter.unusedVariables false
namespace Gen.C09

/-- constant recordBatchOverhead -/
def recordBatchOverhead : Int := 49

/-- constant magicOffset -/
def magicOffset : Int := 16

/-- constant compressionCodecMask -/
def compressionCodecMask : Int := 7

/-- constant timestampTypeMask -/
def timestampTypeMask : Int := 8

/-- constant controlMask -/
def controlMask : Int := 32

/-- constant isTransactionalMask -/
def isTransactionalMask : Int := 16

/-- constant crcIEEE -/
def crcIEEE : Int := 0

/-- constant crcCastagnoli -/
def crcCastagnoli : Int := 1

/-- constant legacyRecords -/
def legacyRecords : Int := 1

/-- constant defaultRecords -/
def defaultRecords : Int := 2

/-- generated from length_field.go (*lengthField).check -/
def lengthFieldCheck (cur : Int) (start : Int) (len : Int) (eInvalid : Int) (nilErr : Int) : Int :=
  if ((Go.toI32 (Go.sub64 (Go.sub64 cur start) 4)) ≠ len) then
    eInvalid
  else
    nilErr

/-- generated from length_field.go (*varintLengthField).adjustLength -/
def varintAdjust (cur : Int) (start : Int) (len : Int) (oldSize : Int) (newSize : Int) : Int × Int :=
  let oldFieldSize_v1 : Int := oldSize
  let len_v1 : Int := (Go.sub64 (Go.sub64 cur start) oldFieldSize_v1)
  ((Go.sub64 newSize oldFieldSize_v1), len_v1)

/-- generated from length_field.go (*varintLengthField).check -/
def varintCheck (cur : Int) (start : Int) (len : Int) (fieldSize : Int) (eInvalid : Int) (nilErr : Int) : Int :=
  if ((Go.sub64 (Go.sub64 cur start) fieldSize) ≠ len) then
    eInvalid
  else
    nilErr

/-- generated from prep_encoder.go (*prepEncoder).putInt8 -/
def prepPutInt8 (length : Int) : Int :=
  let length_v1 : Int := (Go.add64 length 1)
  length_v1

/-- generated from prep_encoder.go (*prepEncoder).putInt16 -/
def prepPutInt16 (length : Int) : Int :=
  let length_v1 : Int := (Go.add64 length 2)
  length_v1

/-- generated from prep_encoder.go (*prepEncoder).putInt32 -/
def prepPutInt32 (length : Int) : Int :=
  let length_v1 : Int := (Go.add64 length 4)
  length_v1

/-- generated from prep_encoder.go (*prepEncoder).putInt64 -/
def prepPutInt64 (length : Int) : Int :=
  let length_v1 : Int := (Go.add64 length 8)
  length_v1

/-- generated from prep_encoder.go (*prepEncoder).putBool -/
def prepPutBool (length : Int) : Int :=
  let length_v1 : Int := (Go.add64 length 1)
  length_v1

-- fun compactArrayLength: NOT TRANSLATED: call rd.remaining() is not declared in vars

/-- generated from real_decoder.go (*realDecoder).getArrayLength (fragment starting at `if tmp > rd.remaining()`) -/
def arrayLengthGuard (tmp : Int) (rem : Int) (off : Int) (rawLen : Int) (maxU16 : Int) (eInsufficient : Int) (eInvalid : Int) (nilErr : Int) : Int × Int × Int :=
  if (tmp > rem) then
    let off_v1 : Int := rawLen
    ((-1), eInsufficient, off_v1)
  else
    if ((tmp > (Go.mul64 2 maxU16)) ∨ (tmp < (-1))) then
      ((-1), eInvalid, off)
    else
      (tmp, nilErr, off)

end Gen.C09
