import SaramaVerif.GoSem
/-! REGENERATED on every check run from /repo by /verif/tools/extract (spec: tools/extract/specs/C07.json). Do not edit. -/
set_option linter.unusedVariables false
namespace Gen.C07

/-- case labels of `switch join.Err` in consumer_group.go (*consumerGroup).newSession, one list per clause in source order (default omitted) -/
def joinErrCases : List (List Int) :=
  [[0],
   [25, 22],
   [16],
   [27]]

/-- case labels of `switch groupRequest.Err` in consumer_group.go (*consumerGroup).newSession, one list per clause in source order (default omitted) -/
def syncErrCases : List (List Int) :=
  [[0],
   [25, 22],
   [16],
   [27]]

/-- case labels of `switch resp.Err` in consumer_group.go (*consumerGroupSession).heartbeatLoop, one list per clause in source order (default omitted) -/
def heartbeatErrCases : List (List Int) :=
  [[0],
   [27, 25, 22]]

end Gen.C07
