import SaramaVerif.GoSem
/-! REGENERATED on every check run from /repo by /verif/tools/extract (spec: tools/extract/specs/C20.json). Do not edit. -/
set_option linter.unusedVariables false
namespace Gen.C20

/-- generated from mocks/consumer.go (*PartitionConsumer).HighWaterMarkOffset -/
def hwmOffset (h : Int) : Int :=
  (Go.add64 h 1)

/-- generated from mocks/sync_producer.go (*SyncProducer).Close -/
def syncClose (n : Int) (nilErr : Int) (rep0 : Int) (rep : Int) : Int × Int :=
  if (n > 0) then
    let rep0_v1 : Int := rep
    (nilErr, rep0_v1)
  else
    (nilErr, rep0)

/-- generated from mocks/consumer.go (*Consumer).ConsumePartition -/
def consumePartition (unreg : Bool) (handle : Int) (consumed : Bool) (poff : Int) (anyOff : Int) (off : Int) (nilv : Int) (eOOE : Int) (eDup : Int) (rep0 : Int) (repNoExp : Int) (repOff : Int) : Int × Int × Bool × Int :=
  if (unreg = true) then
    let rep0_v1 : Int := repNoExp
    (nilv, eOOE, consumed, rep0_v1)
  else
    let pc_v1 : Int := handle
    if (consumed = true) then
      (nilv, eDup, consumed, rep0)
    else
      if ((poff ≠ anyOff) ∧ (poff ≠ off)) then
        let rep0_v2 : Int := repOff
        let consumed_v1 : Bool := true
        (pc_v1, nilv, consumed_v1, rep0_v2)
      else
        let consumed_v2 : Bool := true
        (pc_v1, nilv, consumed_v2, rep0)

/-- generated from mocks/sync_producer.go (*SyncProducer).SendMessage -/
def sendMessage (n : Int) (exps : Int) (tailExps : Int) (topic0 : Int) (hasChk : Bool) (chkRes : Int) (result : Int) (eSucc : Int) (eOOE : Int) (nilv : Int) (lo : Int) (mp : Int) (mo : Int) (rep0 : Int) (pchoice : Int) (perr : Int) (repPart : Int) (repChk : Int) (repNoExp : Int) : Int × Int × Int × Int × Int × Int × Int × Int :=
  if (n > 0) then
    let exps_v1 : Int := tailExps
    let topic_v1 : Int := topic0
    let err_v1 : Int := perr
    let partition_v1 : Int := pchoice
    if (err_v1 ≠ nilv) then
      let rep0_v1 : Int := repPart
      ((-1), (-1), err_v1, exps_v1, lo, mp, mo, rep0_v1)
    else
      let mp_v1 : Int := partition_v1
      if (hasChk = true) then
        let errCheck_v1 : Int := chkRes
        if (errCheck_v1 ≠ nilv) then
          let rep0_v2 : Int := repChk
          ((-1), (-1), errCheck_v1, exps_v1, lo, mp_v1, mo, rep0_v2)
        else
          if (result = eSucc) then
            let lo_v1 : Int := (Go.add64 lo 1)
            let mo_v1 : Int := lo_v1
            (0, mo_v1, nilv, exps_v1, lo_v1, mp_v1, mo_v1, rep0)
          else
            ((-1), (-1), result, exps_v1, lo, mp_v1, mo, rep0)
      else
        if (result = eSucc) then
          let lo_v2 : Int := (Go.add64 lo 1)
          let mo_v2 : Int := lo_v2
          (0, mo_v2, nilv, exps_v1, lo_v2, mp_v1, mo_v2, rep0)
        else
          ((-1), (-1), result, exps_v1, lo, mp_v1, mo, rep0)
  else
    let rep0_v3 : Int := repNoExp
    ((-1), (-1), eOOE, exps, lo, mp, mo, rep0_v3)

end Gen.C20
