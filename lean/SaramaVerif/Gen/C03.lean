import SaramaVerif.GoSem
/-! REGENERATED on every check run from /repo by /verif/tools/extract (spec: tools/extract/specs/C03.json). Do not edit. -/
set_option linter.unusedVariables false
namespace Gen.C03

/-- constant OffsetNewest -/
def offsetNewest : Int := (-1)

/-- constant OffsetOldest -/
def offsetOldest : Int := (-2)

/-- generated from consumer.go (*partitionConsumer).chooseStartingOffset (fragment starting at `switch {`) -/
def chooseStart (offset : Int) (newest : Int) (oldest : Int) (cur : Int) (nilErr : Int) (eOOR : Int) : Int × Int :=
  if (offset = (-1)) then
    let cur_v1 : Int := newest
    (nilErr, cur_v1)
  else
    if (offset = (-2)) then
      let cur_v2 : Int := oldest
      (nilErr, cur_v2)
    else
      if ((offset ≥ oldest) ∧ (offset ≤ newest)) then
        let cur_v3 : Int := offset
        (nilErr, cur_v3)
      else
        (eOOR, cur)

/-- generated from consumer.go (*partitionConsumer).parseResponse (fragment starting at `if partialTrailingMessage`) -/
def partialTrailing (pt : Bool) (fmax : Int) (fs : Int) (off : Int) (maxI32 : Int) : Int × Int :=
  if (pt = true) then
    if ((fmax > 0) ∧ (fs = fmax)) then
      let off_v1 : Int := (Go.add64 off 1)
      (off_v1, fs)
    else
      let fs_v1 : Int := (Go.mul32 fs 2)
      if (fs_v1 < 0) then
        let fs_v2 : Int := maxI32
        if ((fmax > 0) ∧ (fs_v2 > fmax)) then
          let fs_v3 : Int := fmax
          (off, fs_v3)
        else
          (off, fs_v2)
      else
        if ((fmax > 0) ∧ (fs_v1 > fmax)) then
          let fs_v4 : Int := fmax
          (off, fs_v4)
        else
          (off, fs_v1)
  else
    (off, fs)

/-- generated from consumer.go (*partitionConsumer).parseRecords (fragment starting at `offset := batch.FirstOffset + rec.OffsetDelta`) -/
def recordOffset (base : Int) (delta : Int) (offset0 : Int) : Int :=
  let offset0_v1 : Int := (Go.add64 base delta)
  offset0_v1

/-- generated from consumer.go (*partitionConsumer).parseRecords (fragment starting at `child.offset = offset + 1`) -/
def recordAdvance (offset : Int) (cur : Int) : Int :=
  let cur_v1 : Int := (Go.add64 offset 1)
  cur_v1

/-- generated from consumer.go (*partitionConsumer).parseRecords (fragment starting at `if len(messages) == 0`) -/
def recordsBump (n : Int) (cur : Int) : Int :=
  if (n = 0) then
    let cur_v1 : Int := (Go.add64 cur 1)
    cur_v1
  else
    cur

/-- generated from consumer.go (*partitionConsumer).parseMessages (fragment starting at `if len(messages) == 0`) -/
def messagesBump (n : Int) (cur : Int) : Int :=
  if (n = 0) then
    let cur_v1 : Int := (Go.add64 cur 1)
    cur_v1
  else
    cur

/-- generated from consumer.go (*partitionConsumer).parseMessages (fragment starting at `if msg.Msg.Version >= 1`) -/
def legacyRebase (ver : Int) (wrapOff : Int) (lastOff : Int) (offset : Int) (innerLA : Bool) (wrapLA : Bool) (ts : Int) (wrapTs : Int) : Int × Int :=
  if (ver ≥ 1) then
    let baseOffset_v1 : Int := (Go.sub64 wrapOff lastOff)
    let offset_v1 : Int := (Go.add64 offset baseOffset_v1)
    if (wrapLA = true) then
      let ts_v1 : Int := wrapTs
      (offset_v1, ts_v1)
    else
      (offset_v1, ts)
  else
    (offset, ts)

/-- generated from consumer.go (*partitionConsumer).parseMessages (fragment starting at `child.offset = offset + 1`) -/
def messageAdvance (offset : Int) (cur : Int) : Int :=
  let cur_v1 : Int := (Go.add64 offset 1)
  cur_v1

end Gen.C03
