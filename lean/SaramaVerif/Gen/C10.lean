import SaramaVerif.GoSem
/-! REGENERATED on every check run from /repo by /verif/tools/extract (spec: tools/extract/specs/C10.json). Do not edit. -/
set_option linter.unusedVariables false
namespace Gen.C10

/-- generated from real_decoder.go (*realDecoder).getInt8 -/
def getInt8 (rem : Int) (off : Int) (len : Int) (val : Int) (eInsuf : Int) (nilErr : Int) : Int × Int × Int :=
  if (rem < 1) then
    let off_v1 : Int := len
    ((-1), eInsuf, off_v1)
  else
    let tmp_v1 : Int := val
    let off_v2 : Int := (Go.add64 off 1)
    (tmp_v1, nilErr, off_v2)

/-- generated from real_decoder.go (*realDecoder).getInt16 -/
def getInt16 (rem : Int) (off : Int) (len : Int) (val : Int) (eInsuf : Int) (nilErr : Int) : Int × Int × Int :=
  if (rem < 2) then
    let off_v1 : Int := len
    ((-1), eInsuf, off_v1)
  else
    let tmp_v1 : Int := val
    let off_v2 : Int := (Go.add64 off 2)
    (tmp_v1, nilErr, off_v2)

/-- generated from real_decoder.go (*realDecoder).getInt32 -/
def getInt32 (rem : Int) (off : Int) (len : Int) (val : Int) (eInsuf : Int) (nilErr : Int) : Int × Int × Int :=
  if (rem < 4) then
    let off_v1 : Int := len
    ((-1), eInsuf, off_v1)
  else
    let tmp_v1 : Int := val
    let off_v2 : Int := (Go.add64 off 4)
    (tmp_v1, nilErr, off_v2)

/-- generated from real_decoder.go (*realDecoder).getInt64 -/
def getInt64 (rem : Int) (off : Int) (len : Int) (val : Int) (eInsuf : Int) (nilErr : Int) : Int × Int × Int :=
  if (rem < 8) then
    let off_v1 : Int := len
    ((-1), eInsuf, off_v1)
  else
    let tmp_v1 : Int := val
    let off_v2 : Int := (Go.add64 off 8)
    (tmp_v1, nilErr, off_v2)

/-- generated from real_decoder.go (*realDecoder).getArrayLength (fragment starting at `if tmp > rd.remaining()`) -/
def arrayLengthTail (tmp : Int) (rem : Int) (off : Int) (len : Int) (maxArr : Int) (eInsuf : Int) (eInvArr : Int) (nilErr : Int) : Int × Int × Int :=
  if (tmp > rem) then
    let off_v1 : Int := len
    ((-1), eInsuf, off_v1)
  else
    if ((tmp > maxArr) ∨ (tmp < (-1))) then
      ((-1), eInvArr, off)
    else
      (tmp, nilErr, off)

/-- generated from real_decoder.go (*realDecoder).getCompactArrayLength (fragment starting at `if n == 0`) -/
def compactArrayLengthTail (n : Int) (rem : Int) (off : Int) (len : Int) (eInsuf : Int) (nilErr : Int) : Int × Int × Int :=
  if (n = 0) then
    (0, nilErr, off)
  else
    let length_v1 : Int := (Go.sub64 n 1)
    if ((length_v1 < 0) ∨ (length_v1 > rem)) then
      let off_v1 : Int := len
      (0, eInsuf, off_v1)
    else
      (length_v1, nilErr, off)

/-- generated from real_decoder.go (*realDecoder).getBool (fragment starting at `if err != nil || b == 0`) -/
def getBoolTail (b : Int) (err : Int) (nilErr : Int) (eBool : Int) : Bool × Int :=
  if ((err ≠ nilErr) ∨ (b = 0)) then
    (false, err)
  else
    if (b ≠ 1) then
      (false, eBool)
    else
      (true, nilErr)

/-- generated from real_decoder.go (*realDecoder).getStringLength (fragment starting at `n := int(length)`) -/
def stringLengthTail (length : Int) (rem : Int) (off : Int) (len : Int) (eInsuf : Int) (eInvStr : Int) (nilErr : Int) : Int × Int × Int :=
  let n_v1 : Int := length
  if (n_v1 < (-1)) then
    (0, eInvStr, off)
  else
    if (n_v1 > rem) then
      let off_v1 : Int := len
      (0, eInsuf, off_v1)
    else
      (n_v1, nilErr, off)

/-- generated from real_decoder.go (*realDecoder).getRawBytes -/
def getRawBytes (length : Int) (rem : Int) (off : Int) (len : Int) (slice : Int) (eInsuf : Int) (eInvBytes : Int) (nilv : Int) : Int × Int × Int :=
  if (length < 0) then
    (nilv, eInvBytes, off)
  else
    if (length > rem) then
      let off_v1 : Int := len
      (nilv, eInsuf, off_v1)
    else
      let start_v1 : Int := off
      let off_v2 : Int := (Go.add64 off length)
      (slice, nilv, off_v2)

/-- generated from real_decoder.go (*realDecoder).peek -/
def peek (offset : Int) (length : Int) (rem : Int) (rdoff : Int) (sub : Int) (eInsuf : Int) (nilv : Int) : Int × Int :=
  if (rem < (Go.add64 offset length)) then
    (nilv, eInsuf)
  else
    let off_v1 : Int := (Go.add64 rdoff offset)
    (sub, nilv)

/-- generated from real_decoder.go (*realDecoder).peekInt8 (fragment starting at `if rd.remaining() < offset+byteLen`) -/
def peekInt8 (offset : Int) (byteLen : Int) (rem : Int) (val : Int) (eInsuf : Int) (nilv : Int) : Int × Int :=
  if (rem < (Go.add64 offset byteLen)) then
    ((-1), eInsuf)
  else
    (val, nilv)

/-- generated from length_field.go (*lengthField).decode (fragment starting at `if l.length > int32(pd.remaining())`) -/
def lengthFieldDecodeTail (length : Int) (rem : Int) (eInsuf : Int) (nilErr : Int) : Int :=
  if (length > (Go.toI32 rem)) then
    eInsuf
  else
    nilErr

/-- generated from length_field.go (*lengthField).check -/
def lengthFieldCheck (cur : Int) (start : Int) (length : Int) (eLF : Int) (nilErr : Int) : Int :=
  if ((Go.toI32 (Go.sub64 (Go.sub64 cur start) 4)) ≠ length) then
    eLF
  else
    nilErr

/-- generated from length_field.go (*varintLengthField).check -/
def varintLengthFieldCheck (cur : Int) (start : Int) (length : Int) (eLF : Int) (nilErr : Int) (fieldSize : Int) : Int :=
  let fieldSize_v1 : Int := fieldSize
  if ((fieldSize_v1 ≤ 0) ∨ ((Go.sub64 (Go.sub64 cur start) fieldSize_v1) ≠ length)) then
    eLF
  else
    nilErr

/-- generated from encoder_decoder.go decode (fragment starting at `if helper.off != len(buf)`) -/
def decodeTrailing (off : Int) (len : Int) (eLen : Int) (nilErr : Int) : Int :=
  if (off ≠ len) then
    eLen
  else
    nilErr

/-- generated from encoder_decoder.go versionedDecode (fragment starting at `if helper.off != len(buf)`) -/
def versionedDecodeTrailing (off : Int) (len : Int) (eLen : Int) (nilErr : Int) : Int :=
  if (off ≠ len) then
    eLen
  else
    nilErr

/-- generated from response_header.go (*responseHeader).decode (fragment starting at `if r.length <= 4 || r.length > MaxResponseSize`) -/
def headerLengthCheck (length : Int) (maxResp : Int) (eHdr : Int) (cid0 : Int) (cid : Int) (cidErr : Int) : Int :=
  if ((length ≤ 4) ∨ (length > maxResp)) then
    eHdr
  else
    let err_v1 : Int := cidErr
    let cid0_v1 : Int := cid
    err_v1

/-- generated from broker.go getHeaderLength -/
def getHeaderLength (version : Int) : Int :=
  if (version < 1) then
    8
  else
    9

/-- generated from real_decoder.go (*realDecoder).getCompactString (fragment starting at `length := int(n - 1)`) -/
def compactStringTail (n : Int) (rem : Int) (off : Int) (len : Int) (emptyStr : Int) (str : Int) (eInvStr : Int) (eInsuf : Int) (nilErr : Int) : Int × Int × Int :=
  let length_v1 : Int := (Go.sub64 n 1)
  if (length_v1 < 0) then
    (emptyStr, eInvStr, off)
  else
    if (length_v1 > rem) then
      let off_v1 : Int := len
      (emptyStr, eInsuf, off_v1)
    else
      let tmpStr_v1 : Int := str
      let off_v2 : Int := (Go.add64 off length_v1)
      (tmpStr_v1, nilErr, off_v2)

/-- generated from real_decoder.go (*realDecoder).getCompactNullableString (fragment starting at `length := int(n - 1)`) -/
def compactNullableStringTail (n : Int) (rem : Int) (off : Int) (len : Int) (err : Int) (str : Int) (ptr : Int) (eInsuf : Int) (nilv : Int) : Int × Int × Int :=
  let length_v1 : Int := (Go.sub64 n 1)
  if (length_v1 < 0) then
    (nilv, err, off)
  else
    if (length_v1 > rem) then
      let off_v1 : Int := len
      (nilv, eInsuf, off_v1)
    else
      let tmpStr_v1 : Int := str
      let off_v2 : Int := (Go.add64 off length_v1)
      (ptr, err, off_v2)

end Gen.C10
