import SaramaVerif.GoSem
/-! REGENERATED on every check run from /repo by /verif/tools/extract (spec: tools/extract/specs/C04.json). Do not edit. -/
set_option linter.unusedVariables false
namespace Gen.C04

/-- case labels of `switch block.Err` in async_producer.go (*brokerProducer).handleSuccess, one list per clause in source order (default omitted) -/
def handleSuccessCases : List (List Int) :=
  [[0],
   [46],
   [2, 3, 5, 6, 7, 19, 20]]

/-- generated from produce_set.go (*produceSet).buildRequest (fragment starting at `if ps.parent.conf.Version.IsAtLeast(V0_10_0_0)`) -/
def reqVersionV010 (isV1 : Bool) (rv : Int) : Int :=
  if (isV1 = true) then
    let rv_v1 : Int := 2
    rv_v1
  else
    rv

/-- generated from produce_set.go (*produceSet).buildRequest (fragment starting at `if ps.parent.conf.Version.IsAtLeast(V0_11_0_0)`) -/
def reqVersionV011 (isV2 : Bool) (rv : Int) : Int :=
  if (isV2 = true) then
    let rv_v1 : Int := 3
    rv_v1
  else
    rv

/-- generated from produce_set.go (*produceSet).buildRequest (fragment starting at `if ps.parent.conf.Producer.Compression == CompressionZSTD`) -/
def reqVersionZstd (codec : Int) (isV21 : Bool) (rv : Int) : Int :=
  if ((codec = 4) ∧ (isV21 = true)) then
    let rv_v1 : Int := 7
    rv_v1
  else
    rv

/-- generated from produce_set.go (*produceSet).buildRequest (fragment starting at `if len(rb.Records) > 0`) -/
def batchOffsets (n : Int) (lod : Int) : Int :=
  if (n > 0) then
    let lod_v1 : Int := (Go.toI32 (Go.sub64 n 1))
    lod_v1
  else
    lod

/-- generated from produce_set.go (*produceSet).buildRequest (fragment starting at `record.OffsetDelta = int64(i)`) -/
def recordOffsetDelta (i : Int) (od : Int) : Int :=
  let od_v1 : Int := i
  od_v1

/-- generated from produce_set.go (*produceSet).buildRequest (fragment starting at `msg.Offset = int64(i)`) -/
def innerOffset (i : Int) (off : Int) : Int :=
  let off_v1 : Int := i
  off_v1

/-- generated from produce_set.go (*produceSet).buildRequest (fragment starting at `if ps.parent.conf.Version.IsAtLeast(V0_10_0_0) { compMsg.Version`) -/
def wrapperV1 (isV1 : Bool) (magic : Int) (wts : Int) (firstTs : Int) : Int × Int :=
  if (isV1 = true) then
    let magic_v1 : Int := 1
    let wts_v1 : Int := firstTs
    (magic_v1, wts_v1)
  else
    (magic, wts)

/-- generated from produce_set.go (*produceSet).buildRequest (fragment starting at `if ps.parent.conf.Version.IsAtLeast(V0_10_0_0) { for i, msg`) -/
def innerOffsetsGate (isV1 : Bool) (renumbered0 : Bool) (yes : Bool) : Bool :=
  if (isV1 = true) then
    let renumbered0_v1 : Bool := yes
    renumbered0_v1
  else
    renumbered0

/-- generated from produce_set.go (*produceSet).add (fragment starting at `if ps.parent.conf.Version.IsAtLeast(V0_10_0_0) { msgToSend.Timestamp`) -/
def addMsgV1 (isV1 : Bool) (magic : Int) (mts : Int) (timestamp : Int) : Int × Int :=
  if (isV1 = true) then
    let mts_v1 : Int := timestamp
    let magic_v1 : Int := 1
    (magic_v1, mts_v1)
  else
    (magic, mts)

/-- generated from async_producer.go (*brokerProducer).handleSuccess (fragment starting at `msg.Offset = block.Offset + int64(i)`) -/
def successOffset (base : Int) (i : Int) (off : Int) : Int :=
  let off_v1 : Int := (Go.add64 base i)
  off_v1

/-- generated from async_producer.go (*brokerProducer).handleSuccess (fragment starting at `if response == nil`) -/
def handleBlock (noResp : Bool) (noBlock : Bool) (err : Int) (isV1 : Bool) (latZero : Bool) (retryMax : Int) (verdict0 : Int) (assigned0 : Bool) (overridden0 : Bool) (vSucc : Int) (vIncomplete : Int) (vErr : Int) (vRetry : Int) (yesA : Bool) (yesO : Bool) : Int × Bool × Bool :=
  if (noResp = true) then
    let verdict0_v1 : Int := vSucc
    (verdict0_v1, assigned0, overridden0)
  else
    if (noBlock = true) then
      let verdict0_v2 : Int := vIncomplete
      (verdict0_v2, assigned0, overridden0)
    else
      if (err = 0) then
        if ((isV1 = true) ∧ (¬ (latZero = true))) then
          let overridden0_v1 : Bool := yesO
          let assigned0_v1 : Bool := yesA
          let verdict0_v3 : Int := vSucc
          (verdict0_v3, assigned0_v1, overridden0_v1)
        else
          let assigned0_v2 : Bool := yesA
          let verdict0_v4 : Int := vSucc
          (verdict0_v4, assigned0_v2, overridden0)
      else
        if (err = 46) then
          let verdict0_v5 : Int := vSucc
          (verdict0_v5, assigned0, overridden0)
        else
          if (((((((err = 2) ∨ (err = 3)) ∨ (err = 5)) ∨ (err = 6)) ∨ (err = 7)) ∨ (err = 19)) ∨ (err = 20)) then
            if (retryMax ≤ 0) then
              let verdict0_v6 : Int := vErr
              (verdict0_v6, assigned0, overridden0)
            else
              let verdict0_v7 : Int := vRetry
              (verdict0_v7, assigned0, overridden0)
          else
            if (retryMax ≤ 0) then
              let verdict0_v8 : Int := vErr
              (verdict0_v8, assigned0, overridden0)
            else
              let verdict0_v9 : Int := vErr
              (verdict0_v9, assigned0, overridden0)

end Gen.C04
