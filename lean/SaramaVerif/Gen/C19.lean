import SaramaVerif.GoSem
/-! REGENERATED on every check run from /repo by /verif/tools/extract (spec: tools/extract/specs/C19.json). Do not edit. -/
set_option linter.unusedVariables false
namespace Gen.C19

/-- constant ErrNotController -/
def errNotController : Int := 41

/-- constant ErrNoError -/
def errNoError : Int := 0

/-- constant ErrUnsupportedVersion -/
def errUnsupportedVersion : Int := 35

/-- case labels of `switch c.Version` in create_topics_request.go (*CreateTopicsRequest).requiredVersion, one list per clause in source order (default omitted) -/
def createTopicsRequiredCases : List (List Int) :=
  [[2],
   [1]]

/-- case labels of `switch d.Version` in delete_topics_request.go (*DeleteTopicsRequest).requiredVersion, one list per clause in source order (default omitted) -/
def deleteTopicsRequiredCases : List (List Int) :=
  [[1]]

/-- generated from admin.go (*clusterAdmin).CreateTopic (fragment starting at `if ca.conf.Version.IsAtLeast(V0_11_0_0)`) -/
def createTopicVer1 (ge011 : Bool) (ver : Int) : Int :=
  if (ge011 = true) then
    let ver_v1 : Int := 1
    ver_v1
  else
    ver

/-- generated from admin.go (*clusterAdmin).CreateTopic (fragment starting at `if ca.conf.Version.IsAtLeast(V1_0_0_0)`) -/
def createTopicVer2 (ge100 : Bool) (ver : Int) : Int :=
  if (ge100 = true) then
    let ver_v1 : Int := 2
    ver_v1
  else
    ver

/-- generated from admin.go (*clusterAdmin).DeleteTopic (fragment starting at `if ca.conf.Version.IsAtLeast(V0_11_0_0)`) -/
def deleteTopicVer (ge011 : Bool) (ver : Int) : Int :=
  if (ge011 = true) then
    let ver_v1 : Int := 1
    ver_v1
  else
    ver

/-- generated from admin.go (*clusterAdmin).ListConsumerGroupOffsets (fragment starting at `if ca.conf.Version.IsAtLeast(V0_10_2_0)`) -/
def offsetFetchVer (ge0102 : Bool) (ge0822 : Bool) (ver : Int) : Int :=
  if (ge0102 = true) then
    let ver_v1 : Int := 2
    ver_v1
  else
    if (ge0822 = true) then
      let ver_v2 : Int := 1
      ver_v2
    else
      ver

/-- generated from create_topics_request.go (*CreateTopicsRequest).requiredVersion -/
def createTopicsRequired (ver : Int) (v100 : Int) (v011 : Int) (v0101 : Int) : Int :=
  if (ver = 2) then
    v100
  else
    if (ver = 1) then
      v011
    else
      v0101

/-- generated from delete_topics_request.go (*DeleteTopicsRequest).requiredVersion -/
def deleteTopicsRequired (ver : Int) (v011 : Int) (v0101 : Int) : Int :=
  if (ver = 1) then
    v011
  else
    v0101

/-- generated from admin.go (*clusterAdmin).DeleteConsumerGroup (fragment starting at `groupErr, ok := resp.GroupErrorCodes[group]`) -/
def deleteGroupInspect (eInc : Int) (nilErr : Int) (code : Int) (present : Bool) : Int :=
  let groupErr_v1 : Int := code
  let ok_v1 : Bool := present
  if (¬ (ok_v1 = true)) then
    eInc
  else
    if (groupErr_v1 ≠ 0) then
      groupErr_v1
    else
      nilErr

/-- generated from create_partitions_request.go (*CreatePartitionsRequest).requiredVersion -/
def createPartitionsRequired (v100 : Int) : Int :=
  v100

/-- generated from alter_partition_reassignments_request.go (*AlterPartitionReassignmentsRequest).requiredVersion -/
def reassignRequired (v240 : Int) : Int :=
  v240

/-- generated from delete_records_request.go (*DeleteRecordsRequest).requiredVersion -/
def deleteRecordsRequired (v011 : Int) : Int :=
  v011

/-- generated from delete_groups_request.go (*DeleteGroupsRequest).requiredVersion -/
def deleteGroupsRequired (v110 : Int) : Int :=
  v110

/-- generated from admin.go (*clusterAdmin).retryOnError (fragment starting at `err = fn()`) -/
def retryLoopBody (err0 : Int) (nilErr : Int) (retry : Bool) (r : Int) : Int × Int :=
  let err0_v1 : Int := r
  if ((err0_v1 = nilErr) ∨ (¬ (retry = true))) then
    (3, err0_v1)
  else
    (1, 0)

/-- generated from admin.go isErrNoController (fragment starting at `return e.Err == ErrNotController`) -/
def isNoCtrlTopicError (code : Int) : Bool :=
  (decide (code = 41))

/-- generated from admin.go isErrNoController (fragment starting at `return e == ErrNotController`) -/
def isNoCtrlKError (code : Int) : Bool :=
  (decide (code = 41))

/-- generated from admin.go isErrNoController (fragment starting at `return false`) -/
def isNoCtrlDefault  : Bool :=
  false

/-- generated from admin.go (*clusterAdmin).CreateTopic (fragment starting at `b, err := ca.Controller()`) -/
def createTopicClosure (nilErr : Int) (eInc : Int) (r0 : Bool) (one : Bool) (ctlErr : Int) (sendErr : Int) (present : Bool) (code : Int) (terr : Int) : Int × Bool :=
  let err_v1 : Int := ctlErr
  if (err_v1 ≠ nilErr) then
    (err_v1, r0)
  else
    let err_v2 : Int := sendErr
    if (err_v2 ≠ nilErr) then
      (err_v2, r0)
    else
      let ok_v1 : Bool := present
      let topicErr_v1 : Int := terr
      if (¬ (ok_v1 = true)) then
        (eInc, r0)
      else
        if (code ≠ 0) then
          if (code = 41) then
            let r0_v1 : Bool := one
            (topicErr_v1, r0_v1)
          else
            (topicErr_v1, r0)
        else
          (nilErr, r0)

/-- generated from admin.go (*clusterAdmin).DeleteTopic (fragment starting at `b, err := ca.Controller()`) -/
def deleteTopicClosure (nilErr : Int) (eInc : Int) (r0 : Bool) (one : Bool) (ctlErr : Int) (sendErr : Int) (present : Bool) (code : Int) : Int × Bool :=
  let err_v1 : Int := ctlErr
  if (err_v1 ≠ nilErr) then
    (err_v1, r0)
  else
    let err_v2 : Int := sendErr
    if (err_v2 ≠ nilErr) then
      (err_v2, r0)
    else
      let ok_v1 : Bool := present
      let topicErr_v1 : Int := code
      if (¬ (ok_v1 = true)) then
        (eInc, r0)
      else
        if (topicErr_v1 ≠ 0) then
          if (topicErr_v1 = 41) then
            let r0_v1 : Bool := one
            (topicErr_v1, r0_v1)
          else
            (topicErr_v1, r0)
        else
          (nilErr, r0)

/-- generated from admin.go (*clusterAdmin).CreatePartitions (fragment starting at `b, err := ca.Controller()`) -/
def createPartitionsClosure (nilErr : Int) (eInc : Int) (r0 : Bool) (one : Bool) (ctlErr : Int) (sendErr : Int) (present : Bool) (code : Int) (terr : Int) : Int × Bool :=
  let err_v1 : Int := ctlErr
  if (err_v1 ≠ nilErr) then
    (err_v1, r0)
  else
    let err_v2 : Int := sendErr
    if (err_v2 ≠ nilErr) then
      (err_v2, r0)
    else
      let ok_v1 : Bool := present
      let topicErr_v1 : Int := terr
      if (¬ (ok_v1 = true)) then
        (eInc, r0)
      else
        if (code ≠ 0) then
          if (code = 41) then
            let r0_v1 : Bool := one
            (topicErr_v1, r0_v1)
          else
            (topicErr_v1, r0)
        else
          (nilErr, r0)

/-- generated from admin.go (*clusterAdmin).AlterPartitionReassignments (fragment starting at `if rsp.ErrorCode == ErrNotController`) -/
def reassignNotController (top : Int) (r0 : Bool) (one : Bool) : Int × Int × Bool :=
  if (top = 41) then
    let r0_v1 : Bool := one
    (3, top, r0_v1)
  else
    (0, 0, r0)

/-- generated from admin.go (*clusterAdmin).AlterPartitionReassignments (fragment starting at `if rsp.ErrorCode != ErrNoError`) -/
def reassignTopError (top : Int) (errs0 : Int) (appended : Int) : Int :=
  if (top ≠ 0) then
    let errs0_v1 : Int := appended
    errs0_v1
  else
    errs0

/-- generated from admin.go (*clusterAdmin).AlterPartitionReassignments (fragment starting at `if partitionError.errorCode != ErrNoError`) -/
def reassignPartitionError (code : Int) (errs0 : Int) (txt : Int) (appended : Int) : Int :=
  if (code ≠ 0) then
    let errStr_v1 : Int := txt
    let errs0_v1 : Int := appended
    errs0_v1
  else
    errs0

/-- generated from admin.go (*clusterAdmin).AlterPartitionReassignments (fragment starting at `if len(errs) > 0`) -/
def reassignResult (n : Int) (wrapped : Int) (nilErr : Int) : Int :=
  if (n > 0) then
    wrapped
  else
    nilErr

end Gen.C19
