import SaramaVerif.GoSem
/-! REGENERATED on every check run from /repo by /verif/tools/extract (spec: tools/extract/specs/C11.json). Do not edit. -/
set_option linter.unusedVariables false
namespace Gen.C11

/-- generated from consumer.go (*brokerConsumer).fetchNewMessages (fragment starting at `if bc.consumer.conf.Version.IsAtLeast(V0_9_0_0)`) -/
def fetchLadder (ge0_9 : Bool) (ge0_10 : Bool) (ge0_10_1 : Bool) (ge0_11 : Bool) (ge1_1 : Bool) (ge2_1 : Bool) (ge2_3 : Bool) (ver : Int) (maxBytes : Int) (mrs : Int) (iso : Int) (cfgIso : Int) (sid : Int) (sep : Int) (rack : Int) (cfgRack : Int) : Int × Int × Int × Int × Int × Int :=
  if (ge0_9 = true) then
    let ver_v1 : Int := 1
    if (ge0_10 = true) then
      let ver_v2 : Int := 2
      if (ge0_10_1 = true) then
        let ver_v3 : Int := 3
        let maxBytes_v1 : Int := mrs
        if (ge0_11 = true) then
          let ver_v4 : Int := 4
          let iso_v1 : Int := cfgIso
          if (ge1_1 = true) then
            let ver_v5 : Int := 7
            let sid_v1 : Int := 0
            let sep_v1 : Int := (-1)
            if (ge2_1 = true) then
              let ver_v6 : Int := 10
              if (ge2_3 = true) then
                let ver_v7 : Int := 11
                let rack_v1 : Int := cfgRack
                (ver_v7, maxBytes_v1, iso_v1, sid_v1, sep_v1, rack_v1)
              else
                (ver_v6, maxBytes_v1, iso_v1, sid_v1, sep_v1, rack)
            else
              if (ge2_3 = true) then
                let ver_v8 : Int := 11
                let rack_v2 : Int := cfgRack
                (ver_v8, maxBytes_v1, iso_v1, sid_v1, sep_v1, rack_v2)
              else
                (ver_v5, maxBytes_v1, iso_v1, sid_v1, sep_v1, rack)
          else
            if (ge2_1 = true) then
              let ver_v9 : Int := 10
              if (ge2_3 = true) then
                let ver_v10 : Int := 11
                let rack_v3 : Int := cfgRack
                (ver_v10, maxBytes_v1, iso_v1, sid, sep, rack_v3)
              else
                (ver_v9, maxBytes_v1, iso_v1, sid, sep, rack)
            else
              if (ge2_3 = true) then
                let ver_v11 : Int := 11
                let rack_v4 : Int := cfgRack
                (ver_v11, maxBytes_v1, iso_v1, sid, sep, rack_v4)
              else
                (ver_v4, maxBytes_v1, iso_v1, sid, sep, rack)
        else
          if (ge1_1 = true) then
            let ver_v12 : Int := 7
            let sid_v2 : Int := 0
            let sep_v2 : Int := (-1)
            if (ge2_1 = true) then
              let ver_v13 : Int := 10
              if (ge2_3 = true) then
                let ver_v14 : Int := 11
                let rack_v5 : Int := cfgRack
                (ver_v14, maxBytes_v1, iso, sid_v2, sep_v2, rack_v5)
              else
                (ver_v13, maxBytes_v1, iso, sid_v2, sep_v2, rack)
            else
              if (ge2_3 = true) then
                let ver_v15 : Int := 11
                let rack_v6 : Int := cfgRack
                (ver_v15, maxBytes_v1, iso, sid_v2, sep_v2, rack_v6)
              else
                (ver_v12, maxBytes_v1, iso, sid_v2, sep_v2, rack)
          else
            if (ge2_1 = true) then
              let ver_v16 : Int := 10
              if (ge2_3 = true) then
                let ver_v17 : Int := 11
                let rack_v7 : Int := cfgRack
                (ver_v17, maxBytes_v1, iso, sid, sep, rack_v7)
              else
                (ver_v16, maxBytes_v1, iso, sid, sep, rack)
            else
              if (ge2_3 = true) then
                let ver_v18 : Int := 11
                let rack_v8 : Int := cfgRack
                (ver_v18, maxBytes_v1, iso, sid, sep, rack_v8)
              else
                (ver_v3, maxBytes_v1, iso, sid, sep, rack)
      else
        if (ge0_11 = true) then
          let ver_v19 : Int := 4
          let iso_v2 : Int := cfgIso
          if (ge1_1 = true) then
            let ver_v20 : Int := 7
            let sid_v3 : Int := 0
            let sep_v3 : Int := (-1)
            if (ge2_1 = true) then
              let ver_v21 : Int := 10
              if (ge2_3 = true) then
                let ver_v22 : Int := 11
                let rack_v9 : Int := cfgRack
                (ver_v22, maxBytes, iso_v2, sid_v3, sep_v3, rack_v9)
              else
                (ver_v21, maxBytes, iso_v2, sid_v3, sep_v3, rack)
            else
              if (ge2_3 = true) then
                let ver_v23 : Int := 11
                let rack_v10 : Int := cfgRack
                (ver_v23, maxBytes, iso_v2, sid_v3, sep_v3, rack_v10)
              else
                (ver_v20, maxBytes, iso_v2, sid_v3, sep_v3, rack)
          else
            if (ge2_1 = true) then
              let ver_v24 : Int := 10
              if (ge2_3 = true) then
                let ver_v25 : Int := 11
                let rack_v11 : Int := cfgRack
                (ver_v25, maxBytes, iso_v2, sid, sep, rack_v11)
              else
                (ver_v24, maxBytes, iso_v2, sid, sep, rack)
            else
              if (ge2_3 = true) then
                let ver_v26 : Int := 11
                let rack_v12 : Int := cfgRack
                (ver_v26, maxBytes, iso_v2, sid, sep, rack_v12)
              else
                (ver_v19, maxBytes, iso_v2, sid, sep, rack)
        else
          if (ge1_1 = true) then
            let ver_v27 : Int := 7
            let sid_v4 : Int := 0
            let sep_v4 : Int := (-1)
            if (ge2_1 = true) then
              let ver_v28 : Int := 10
              if (ge2_3 = true) then
                let ver_v29 : Int := 11
                let rack_v13 : Int := cfgRack
                (ver_v29, maxBytes, iso, sid_v4, sep_v4, rack_v13)
              else
                (ver_v28, maxBytes, iso, sid_v4, sep_v4, rack)
            else
              if (ge2_3 = true) then
                let ver_v30 : Int := 11
                let rack_v14 : Int := cfgRack
                (ver_v30, maxBytes, iso, sid_v4, sep_v4, rack_v14)
              else
                (ver_v27, maxBytes, iso, sid_v4, sep_v4, rack)
          else
            if (ge2_1 = true) then
              let ver_v31 : Int := 10
              if (ge2_3 = true) then
                let ver_v32 : Int := 11
                let rack_v15 : Int := cfgRack
                (ver_v32, maxBytes, iso, sid, sep, rack_v15)
              else
                (ver_v31, maxBytes, iso, sid, sep, rack)
            else
              if (ge2_3 = true) then
                let ver_v33 : Int := 11
                let rack_v16 : Int := cfgRack
                (ver_v33, maxBytes, iso, sid, sep, rack_v16)
              else
                (ver_v2, maxBytes, iso, sid, sep, rack)
    else
      if (ge0_10_1 = true) then
        let ver_v34 : Int := 3
        let maxBytes_v2 : Int := mrs
        if (ge0_11 = true) then
          let ver_v35 : Int := 4
          let iso_v3 : Int := cfgIso
          if (ge1_1 = true) then
            let ver_v36 : Int := 7
            let sid_v5 : Int := 0
            let sep_v5 : Int := (-1)
            if (ge2_1 = true) then
              let ver_v37 : Int := 10
              if (ge2_3 = true) then
                let ver_v38 : Int := 11
                let rack_v17 : Int := cfgRack
                (ver_v38, maxBytes_v2, iso_v3, sid_v5, sep_v5, rack_v17)
              else
                (ver_v37, maxBytes_v2, iso_v3, sid_v5, sep_v5, rack)
            else
              if (ge2_3 = true) then
                let ver_v39 : Int := 11
                let rack_v18 : Int := cfgRack
                (ver_v39, maxBytes_v2, iso_v3, sid_v5, sep_v5, rack_v18)
              else
                (ver_v36, maxBytes_v2, iso_v3, sid_v5, sep_v5, rack)
          else
            if (ge2_1 = true) then
              let ver_v40 : Int := 10
              if (ge2_3 = true) then
                let ver_v41 : Int := 11
                let rack_v19 : Int := cfgRack
                (ver_v41, maxBytes_v2, iso_v3, sid, sep, rack_v19)
              else
                (ver_v40, maxBytes_v2, iso_v3, sid, sep, rack)
            else
              if (ge2_3 = true) then
                let ver_v42 : Int := 11
                let rack_v20 : Int := cfgRack
                (ver_v42, maxBytes_v2, iso_v3, sid, sep, rack_v20)
              else
                (ver_v35, maxBytes_v2, iso_v3, sid, sep, rack)
        else
          if (ge1_1 = true) then
            let ver_v43 : Int := 7
            let sid_v6 : Int := 0
            let sep_v6 : Int := (-1)
            if (ge2_1 = true) then
              let ver_v44 : Int := 10
              if (ge2_3 = true) then
                let ver_v45 : Int := 11
                let rack_v21 : Int := cfgRack
                (ver_v45, maxBytes_v2, iso, sid_v6, sep_v6, rack_v21)
              else
                (ver_v44, maxBytes_v2, iso, sid_v6, sep_v6, rack)
            else
              if (ge2_3 = true) then
                let ver_v46 : Int := 11
                let rack_v22 : Int := cfgRack
                (ver_v46, maxBytes_v2, iso, sid_v6, sep_v6, rack_v22)
              else
                (ver_v43, maxBytes_v2, iso, sid_v6, sep_v6, rack)
          else
            if (ge2_1 = true) then
              let ver_v47 : Int := 10
              if (ge2_3 = true) then
                let ver_v48 : Int := 11
                let rack_v23 : Int := cfgRack
                (ver_v48, maxBytes_v2, iso, sid, sep, rack_v23)
              else
                (ver_v47, maxBytes_v2, iso, sid, sep, rack)
            else
              if (ge2_3 = true) then
                let ver_v49 : Int := 11
                let rack_v24 : Int := cfgRack
                (ver_v49, maxBytes_v2, iso, sid, sep, rack_v24)
              else
                (ver_v34, maxBytes_v2, iso, sid, sep, rack)
      else
        if (ge0_11 = true) then
          let ver_v50 : Int := 4
          let iso_v4 : Int := cfgIso
          if (ge1_1 = true) then
            let ver_v51 : Int := 7
            let sid_v7 : Int := 0
            let sep_v7 : Int := (-1)
            if (ge2_1 = true) then
              let ver_v52 : Int := 10
              if (ge2_3 = true) then
                let ver_v53 : Int := 11
                let rack_v25 : Int := cfgRack
                (ver_v53, maxBytes, iso_v4, sid_v7, sep_v7, rack_v25)
              else
                (ver_v52, maxBytes, iso_v4, sid_v7, sep_v7, rack)
            else
              if (ge2_3 = true) then
                let ver_v54 : Int := 11
                let rack_v26 : Int := cfgRack
                (ver_v54, maxBytes, iso_v4, sid_v7, sep_v7, rack_v26)
              else
                (ver_v51, maxBytes, iso_v4, sid_v7, sep_v7, rack)
          else
            if (ge2_1 = true) then
              let ver_v55 : Int := 10
              if (ge2_3 = true) then
                let ver_v56 : Int := 11
                let rack_v27 : Int := cfgRack
                (ver_v56, maxBytes, iso_v4, sid, sep, rack_v27)
              else
                (ver_v55, maxBytes, iso_v4, sid, sep, rack)
            else
              if (ge2_3 = true) then
                let ver_v57 : Int := 11
                let rack_v28 : Int := cfgRack
                (ver_v57, maxBytes, iso_v4, sid, sep, rack_v28)
              else
                (ver_v50, maxBytes, iso_v4, sid, sep, rack)
        else
          if (ge1_1 = true) then
            let ver_v58 : Int := 7
            let sid_v8 : Int := 0
            let sep_v8 : Int := (-1)
            if (ge2_1 = true) then
              let ver_v59 : Int := 10
              if (ge2_3 = true) then
                let ver_v60 : Int := 11
                let rack_v29 : Int := cfgRack
                (ver_v60, maxBytes, iso, sid_v8, sep_v8, rack_v29)
              else
                (ver_v59, maxBytes, iso, sid_v8, sep_v8, rack)
            else
              if (ge2_3 = true) then
                let ver_v61 : Int := 11
                let rack_v30 : Int := cfgRack
                (ver_v61, maxBytes, iso, sid_v8, sep_v8, rack_v30)
              else
                (ver_v58, maxBytes, iso, sid_v8, sep_v8, rack)
          else
            if (ge2_1 = true) then
              let ver_v62 : Int := 10
              if (ge2_3 = true) then
                let ver_v63 : Int := 11
                let rack_v31 : Int := cfgRack
                (ver_v63, maxBytes, iso, sid, sep, rack_v31)
              else
                (ver_v62, maxBytes, iso, sid, sep, rack)
            else
              if (ge2_3 = true) then
                let ver_v64 : Int := 11
                let rack_v32 : Int := cfgRack
                (ver_v64, maxBytes, iso, sid, sep, rack_v32)
              else
                (ver_v1, maxBytes, iso, sid, sep, rack)
  else
    if (ge0_10 = true) then
      let ver_v65 : Int := 2
      if (ge0_10_1 = true) then
        let ver_v66 : Int := 3
        let maxBytes_v3 : Int := mrs
        if (ge0_11 = true) then
          let ver_v67 : Int := 4
          let iso_v5 : Int := cfgIso
          if (ge1_1 = true) then
            let ver_v68 : Int := 7
            let sid_v9 : Int := 0
            let sep_v9 : Int := (-1)
            if (ge2_1 = true) then
              let ver_v69 : Int := 10
              if (ge2_3 = true) then
                let ver_v70 : Int := 11
                let rack_v33 : Int := cfgRack
                (ver_v70, maxBytes_v3, iso_v5, sid_v9, sep_v9, rack_v33)
              else
                (ver_v69, maxBytes_v3, iso_v5, sid_v9, sep_v9, rack)
            else
              if (ge2_3 = true) then
                let ver_v71 : Int := 11
                let rack_v34 : Int := cfgRack
                (ver_v71, maxBytes_v3, iso_v5, sid_v9, sep_v9, rack_v34)
              else
                (ver_v68, maxBytes_v3, iso_v5, sid_v9, sep_v9, rack)
          else
            if (ge2_1 = true) then
              let ver_v72 : Int := 10
              if (ge2_3 = true) then
                let ver_v73 : Int := 11
                let rack_v35 : Int := cfgRack
                (ver_v73, maxBytes_v3, iso_v5, sid, sep, rack_v35)
              else
                (ver_v72, maxBytes_v3, iso_v5, sid, sep, rack)
            else
              if (ge2_3 = true) then
                let ver_v74 : Int := 11
                let rack_v36 : Int := cfgRack
                (ver_v74, maxBytes_v3, iso_v5, sid, sep, rack_v36)
              else
                (ver_v67, maxBytes_v3, iso_v5, sid, sep, rack)
        else
          if (ge1_1 = true) then
            let ver_v75 : Int := 7
            let sid_v10 : Int := 0
            let sep_v10 : Int := (-1)
            if (ge2_1 = true) then
              let ver_v76 : Int := 10
              if (ge2_3 = true) then
                let ver_v77 : Int := 11
                let rack_v37 : Int := cfgRack
                (ver_v77, maxBytes_v3, iso, sid_v10, sep_v10, rack_v37)
              else
                (ver_v76, maxBytes_v3, iso, sid_v10, sep_v10, rack)
            else
              if (ge2_3 = true) then
                let ver_v78 : Int := 11
                let rack_v38 : Int := cfgRack
                (ver_v78, maxBytes_v3, iso, sid_v10, sep_v10, rack_v38)
              else
                (ver_v75, maxBytes_v3, iso, sid_v10, sep_v10, rack)
          else
            if (ge2_1 = true) then
              let ver_v79 : Int := 10
              if (ge2_3 = true) then
                let ver_v80 : Int := 11
                let rack_v39 : Int := cfgRack
                (ver_v80, maxBytes_v3, iso, sid, sep, rack_v39)
              else
                (ver_v79, maxBytes_v3, iso, sid, sep, rack)
            else
              if (ge2_3 = true) then
                let ver_v81 : Int := 11
                let rack_v40 : Int := cfgRack
                (ver_v81, maxBytes_v3, iso, sid, sep, rack_v40)
              else
                (ver_v66, maxBytes_v3, iso, sid, sep, rack)
      else
        if (ge0_11 = true) then
          let ver_v82 : Int := 4
          let iso_v6 : Int := cfgIso
          if (ge1_1 = true) then
            let ver_v83 : Int := 7
            let sid_v11 : Int := 0
            let sep_v11 : Int := (-1)
            if (ge2_1 = true) then
              let ver_v84 : Int := 10
              if (ge2_3 = true) then
                let ver_v85 : Int := 11
                let rack_v41 : Int := cfgRack
                (ver_v85, maxBytes, iso_v6, sid_v11, sep_v11, rack_v41)
              else
                (ver_v84, maxBytes, iso_v6, sid_v11, sep_v11, rack)
            else
              if (ge2_3 = true) then
                let ver_v86 : Int := 11
                let rack_v42 : Int := cfgRack
                (ver_v86, maxBytes, iso_v6, sid_v11, sep_v11, rack_v42)
              else
                (ver_v83, maxBytes, iso_v6, sid_v11, sep_v11, rack)
          else
            if (ge2_1 = true) then
              let ver_v87 : Int := 10
              if (ge2_3 = true) then
                let ver_v88 : Int := 11
                let rack_v43 : Int := cfgRack
                (ver_v88, maxBytes, iso_v6, sid, sep, rack_v43)
              else
                (ver_v87, maxBytes, iso_v6, sid, sep, rack)
            else
              if (ge2_3 = true) then
                let ver_v89 : Int := 11
                let rack_v44 : Int := cfgRack
                (ver_v89, maxBytes, iso_v6, sid, sep, rack_v44)
              else
                (ver_v82, maxBytes, iso_v6, sid, sep, rack)
        else
          if (ge1_1 = true) then
            let ver_v90 : Int := 7
            let sid_v12 : Int := 0
            let sep_v12 : Int := (-1)
            if (ge2_1 = true) then
              let ver_v91 : Int := 10
              if (ge2_3 = true) then
                let ver_v92 : Int := 11
                let rack_v45 : Int := cfgRack
                (ver_v92, maxBytes, iso, sid_v12, sep_v12, rack_v45)
              else
                (ver_v91, maxBytes, iso, sid_v12, sep_v12, rack)
            else
              if (ge2_3 = true) then
                let ver_v93 : Int := 11
                let rack_v46 : Int := cfgRack
                (ver_v93, maxBytes, iso, sid_v12, sep_v12, rack_v46)
              else
                (ver_v90, maxBytes, iso, sid_v12, sep_v12, rack)
          else
            if (ge2_1 = true) then
              let ver_v94 : Int := 10
              if (ge2_3 = true) then
                let ver_v95 : Int := 11
                let rack_v47 : Int := cfgRack
                (ver_v95, maxBytes, iso, sid, sep, rack_v47)
              else
                (ver_v94, maxBytes, iso, sid, sep, rack)
            else
              if (ge2_3 = true) then
                let ver_v96 : Int := 11
                let rack_v48 : Int := cfgRack
                (ver_v96, maxBytes, iso, sid, sep, rack_v48)
              else
                (ver_v65, maxBytes, iso, sid, sep, rack)
    else
      if (ge0_10_1 = true) then
        let ver_v97 : Int := 3
        let maxBytes_v4 : Int := mrs
        if (ge0_11 = true) then
          let ver_v98 : Int := 4
          let iso_v7 : Int := cfgIso
          if (ge1_1 = true) then
            let ver_v99 : Int := 7
            let sid_v13 : Int := 0
            let sep_v13 : Int := (-1)
            if (ge2_1 = true) then
              let ver_v100 : Int := 10
              if (ge2_3 = true) then
                let ver_v101 : Int := 11
                let rack_v49 : Int := cfgRack
                (ver_v101, maxBytes_v4, iso_v7, sid_v13, sep_v13, rack_v49)
              else
                (ver_v100, maxBytes_v4, iso_v7, sid_v13, sep_v13, rack)
            else
              if (ge2_3 = true) then
                let ver_v102 : Int := 11
                let rack_v50 : Int := cfgRack
                (ver_v102, maxBytes_v4, iso_v7, sid_v13, sep_v13, rack_v50)
              else
                (ver_v99, maxBytes_v4, iso_v7, sid_v13, sep_v13, rack)
          else
            if (ge2_1 = true) then
              let ver_v103 : Int := 10
              if (ge2_3 = true) then
                let ver_v104 : Int := 11
                let rack_v51 : Int := cfgRack
                (ver_v104, maxBytes_v4, iso_v7, sid, sep, rack_v51)
              else
                (ver_v103, maxBytes_v4, iso_v7, sid, sep, rack)
            else
              if (ge2_3 = true) then
                let ver_v105 : Int := 11
                let rack_v52 : Int := cfgRack
                (ver_v105, maxBytes_v4, iso_v7, sid, sep, rack_v52)
              else
                (ver_v98, maxBytes_v4, iso_v7, sid, sep, rack)
        else
          if (ge1_1 = true) then
            let ver_v106 : Int := 7
            let sid_v14 : Int := 0
            let sep_v14 : Int := (-1)
            if (ge2_1 = true) then
              let ver_v107 : Int := 10
              if (ge2_3 = true) then
                let ver_v108 : Int := 11
                let rack_v53 : Int := cfgRack
                (ver_v108, maxBytes_v4, iso, sid_v14, sep_v14, rack_v53)
              else
                (ver_v107, maxBytes_v4, iso, sid_v14, sep_v14, rack)
            else
              if (ge2_3 = true) then
                let ver_v109 : Int := 11
                let rack_v54 : Int := cfgRack
                (ver_v109, maxBytes_v4, iso, sid_v14, sep_v14, rack_v54)
              else
                (ver_v106, maxBytes_v4, iso, sid_v14, sep_v14, rack)
          else
            if (ge2_1 = true) then
              let ver_v110 : Int := 10
              if (ge2_3 = true) then
                let ver_v111 : Int := 11
                let rack_v55 : Int := cfgRack
                (ver_v111, maxBytes_v4, iso, sid, sep, rack_v55)
              else
                (ver_v110, maxBytes_v4, iso, sid, sep, rack)
            else
              if (ge2_3 = true) then
                let ver_v112 : Int := 11
                let rack_v56 : Int := cfgRack
                (ver_v112, maxBytes_v4, iso, sid, sep, rack_v56)
              else
                (ver_v97, maxBytes_v4, iso, sid, sep, rack)
      else
        if (ge0_11 = true) then
          let ver_v113 : Int := 4
          let iso_v8 : Int := cfgIso
          if (ge1_1 = true) then
            let ver_v114 : Int := 7
            let sid_v15 : Int := 0
            let sep_v15 : Int := (-1)
            if (ge2_1 = true) then
              let ver_v115 : Int := 10
              if (ge2_3 = true) then
                let ver_v116 : Int := 11
                let rack_v57 : Int := cfgRack
                (ver_v116, maxBytes, iso_v8, sid_v15, sep_v15, rack_v57)
              else
                (ver_v115, maxBytes, iso_v8, sid_v15, sep_v15, rack)
            else
              if (ge2_3 = true) then
                let ver_v117 : Int := 11
                let rack_v58 : Int := cfgRack
                (ver_v117, maxBytes, iso_v8, sid_v15, sep_v15, rack_v58)
              else
                (ver_v114, maxBytes, iso_v8, sid_v15, sep_v15, rack)
          else
            if (ge2_1 = true) then
              let ver_v118 : Int := 10
              if (ge2_3 = true) then
                let ver_v119 : Int := 11
                let rack_v59 : Int := cfgRack
                (ver_v119, maxBytes, iso_v8, sid, sep, rack_v59)
              else
                (ver_v118, maxBytes, iso_v8, sid, sep, rack)
            else
              if (ge2_3 = true) then
                let ver_v120 : Int := 11
                let rack_v60 : Int := cfgRack
                (ver_v120, maxBytes, iso_v8, sid, sep, rack_v60)
              else
                (ver_v113, maxBytes, iso_v8, sid, sep, rack)
        else
          if (ge1_1 = true) then
            let ver_v121 : Int := 7
            let sid_v16 : Int := 0
            let sep_v16 : Int := (-1)
            if (ge2_1 = true) then
              let ver_v122 : Int := 10
              if (ge2_3 = true) then
                let ver_v123 : Int := 11
                let rack_v61 : Int := cfgRack
                (ver_v123, maxBytes, iso, sid_v16, sep_v16, rack_v61)
              else
                (ver_v122, maxBytes, iso, sid_v16, sep_v16, rack)
            else
              if (ge2_3 = true) then
                let ver_v124 : Int := 11
                let rack_v62 : Int := cfgRack
                (ver_v124, maxBytes, iso, sid_v16, sep_v16, rack_v62)
              else
                (ver_v121, maxBytes, iso, sid_v16, sep_v16, rack)
          else
            if (ge2_1 = true) then
              let ver_v125 : Int := 10
              if (ge2_3 = true) then
                let ver_v126 : Int := 11
                let rack_v63 : Int := cfgRack
                (ver_v126, maxBytes, iso, sid, sep, rack_v63)
              else
                (ver_v125, maxBytes, iso, sid, sep, rack)
            else
              if (ge2_3 = true) then
                let ver_v127 : Int := 11
                let rack_v64 : Int := cfgRack
                (ver_v127, maxBytes, iso, sid, sep, rack_v64)
              else
                (ver, maxBytes, iso, sid, sep, rack)

end Gen.C11
