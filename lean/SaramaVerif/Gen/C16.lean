import SaramaVerif.GoSem
/-! REGENERATED on every check run from /repo by /verif/tools/extract (spec: tools/extract/specs/C16.json). Do not edit. -/
set_option linter.unusedVariables false
namespace Gen.C16

/-- constant producerMessageOverhead -/
def producerMessageOverhead : Int := 26

/-- constant recordBatchOverhead -/
def recordBatchOverhead : Int := 49

/-- constant maximumRecordOverhead -/
def maximumRecordOverhead : Int := 36

/-- constant MaxRequestSize -/
def maxRequestSizeDefault : Int := 104857600

/-- generated from produce_set.go (*produceSet).wouldOverflow -/
def wouldOverflow (isV2 : Bool) (bufferBytes : Int) (bs : Int) (mrs : Int) (topicPresent : Bool) (partPresent : Bool) (pbb : Int) (mmb : Int) (maxm : Int) (bufferCount : Int) (version : Int) : Bool × Int :=
  let version_v1 : Int := 1
  if (isV2 = true) then
    let version_v2 : Int := 2
    if ((Go.add64 bufferBytes bs) ≥ (Go.sub32 mrs (10 * 1024))) then
      (true, version_v2)
    else
      if (((topicPresent = true) ∧ (partPresent = true)) ∧ ((Go.add64 pbb bs) ≥ mmb)) then
        (true, version_v2)
      else
        if ((maxm > 0) ∧ (bufferCount ≥ maxm)) then
          (true, version_v2)
        else
          (false, version_v2)
  else
    if ((Go.add64 bufferBytes bs) ≥ (Go.sub32 mrs (10 * 1024))) then
      (true, version_v1)
    else
      if (((topicPresent = true) ∧ (partPresent = true)) ∧ ((Go.add64 pbb bs) ≥ mmb)) then
        (true, version_v1)
      else
        if ((maxm > 0) ∧ (bufferCount ≥ maxm)) then
          (true, version_v1)
        else
          (false, version_v1)

/-- generated from produce_set.go (*produceSet).readyToFlush -/
def readyToFlush (isEmpty : Bool) (freq : Int) (fbytes : Int) (fmsgs : Int) (bufferCount : Int) (bufferBytes : Int) : Bool :=
  if (isEmpty = true) then
    false
  else
    if (((freq = 0) ∧ (fbytes = 0)) ∧ (fmsgs = 0)) then
      true
    else
      if ((fmsgs > 0) ∧ (bufferCount ≥ fmsgs)) then
        true
      else
        if ((fbytes > 0) ∧ (bufferBytes ≥ fbytes)) then
          true
        else
          false

/-- generated from produce_set.go (*produceSet).empty -/
def empty (bufferCount : Int) : Bool :=
  (decide (bufferCount = 0))

/-- generated from async_producer.go (*ProducerMessage).byteSize -/
def byteSize (version : Int) (keyPresent : Bool) (valPresent : Bool) (klen : Int) (vlen : Int) (sizeAfterHeaders : Int) : Int :=
  let size_v1 : Int := 0
  if (version ≥ 2) then
    let size_v2 : Int := 36
    let size_v3 : Int := sizeAfterHeaders
    if (keyPresent = true) then
      let size_v4 : Int := (Go.add64 size_v3 klen)
      if (valPresent = true) then
        let size_v5 : Int := (Go.add64 size_v4 vlen)
        size_v5
      else
        size_v4
    else
      if (valPresent = true) then
        let size_v6 : Int := (Go.add64 size_v3 vlen)
        size_v6
      else
        size_v3
  else
    let size_v7 : Int := 26
    if (keyPresent = true) then
      let size_v8 : Int := (Go.add64 size_v7 klen)
      if (valPresent = true) then
        let size_v9 : Int := (Go.add64 size_v8 vlen)
        size_v9
      else
        size_v8
    else
      if (valPresent = true) then
        let size_v10 : Int := (Go.add64 size_v7 vlen)
        size_v10
      else
        size_v7

/-- generated from async_producer.go (*ProducerMessage).byteSize (fragment starting at `size += len(h.Key)`) -/
def byteSizeHeaderStep (size : Int) (hk : Int) (hv : Int) : Int :=
  let size_v1 : Int := (Go.add64 size (Go.add64 (Go.add64 hk hv) (2 * 5)))
  size_v1

/-- generated from async_producer.go (*asyncProducer).dispatcher (fragment starting at `if p.conf.Version.IsAtLeast(V0_11_0_0)`) -/
def dispatchVersion (isV2 : Bool) (headersNonNil : Bool) (version : Int) (rejected0 : Bool) (yes : Bool) : Int × Bool :=
  if (isV2 = true) then
    let version_v1 : Int := 2
    (version_v1, rejected0)
  else
    if (headersNonNil = true) then
      let rejected0_v1 : Bool := yes
      (version, rejected0_v1)
    else
      (version, rejected0)

/-- generated from async_producer.go (*asyncProducer).dispatcher (fragment starting at `if msg.byteSize(version) > p.conf.Producer.MaxMessageBytes`) -/
def dispatchSize (bs : Int) (mmb : Int) (rejected0 : Bool) (yes : Bool) : Bool :=
  if (bs > mmb) then
    let rejected0_v1 : Bool := yes
    rejected0_v1
  else
    rejected0

/-- generated from produce_set.go (*produceSet).add (fragment starting at `size = producerMessageOverhead + len(key) + len(val)`) -/
def addLegacySize (size : Int) (klen : Int) (vlen : Int) : Int :=
  let size_v1 : Int := (Go.add64 (Go.add64 26 klen) vlen)
  size_v1

/-- generated from produce_set.go (*produceSet).add (fragment starting at `size = recordBatchOverhead`) -/
def addBatchOverhead (size : Int) : Int :=
  let size_v1 : Int := 49
  size_v1

/-- generated from produce_set.go (*produceSet).add (fragment starting at `size += maximumRecordOverhead`) -/
def addRecordOverhead (size : Int) : Int :=
  let size_v1 : Int := (Go.add64 size 36)
  size_v1

/-- generated from produce_set.go (*produceSet).add (fragment starting at `size += len(key) + len(val)`) -/
def addRecordPayload (size : Int) (klen : Int) (vlen : Int) : Int :=
  let size_v1 : Int := (Go.add64 size (Go.add64 klen vlen))
  size_v1

/-- generated from produce_set.go (*produceSet).add (fragment starting at `size += len(rec.Headers[i].Key)`) -/
def addHeaderStep (size : Int) (hk : Int) (hv : Int) : Int :=
  let size_v1 : Int := (Go.add64 size (Go.add64 (Go.add64 hk hv) (2 * 5)))
  size_v1

/-- generated from produce_set.go (*produceSet).add (fragment starting at `set.bufferBytes += size`) -/
def addAccumulate (size : Int) (pbb : Int) (bufferBytes : Int) (bufferCount : Int) (nilErr : Int) : Int × Int × Int × Int :=
  let pbb_v1 : Int := (Go.add64 pbb size)
  let bufferBytes_v1 : Int := (Go.add64 bufferBytes size)
  let bufferCount_v1 : Int := (Go.add64 bufferCount 1)
  (nilErr, pbb_v1, bufferBytes_v1, bufferCount_v1)

/-- generated from produce_set.go (*produceSet).dropPartition (fragment starting at `ps.bufferBytes -= set.bufferBytes`) -/
def dropAccumulate (pbb : Int) (n : Int) (bufferBytes : Int) (bufferCount : Int) (msgs : Int) : Int × Int × Int :=
  let bufferBytes_v1 : Int := (Go.sub64 bufferBytes pbb)
  let bufferCount_v1 : Int := (Go.sub64 bufferCount n)
  (msgs, bufferBytes_v1, bufferCount_v1)

/-- generated from async_producer.go (*brokerProducer).run (fragment starting at `if bp.timerFired || bp.buffer.readyToFlush()`) -/
def runOutputTail (timerFired : Bool) (ready : Bool) (output : Int) (bpOutput : Int) (nilChan : Int) : Int :=
  if ((timerFired = true) ∨ (ready = true)) then
    let output_v1 : Int := bpOutput
    output_v1
  else
    let output_v2 : Int := nilChan
    output_v2

/-- generated from async_producer.go (*brokerProducer).rollOver -/
def rollOver (timer : Int) (timerFired : Bool) (buffer : Int) (nilTimer : Int) (fresh : Int) : Int × Bool × Int :=
  let timer_v1 : Int := nilTimer
  let timerFired_v1 : Bool := false
  let buffer_v1 : Int := fresh
  (timer_v1, timerFired_v1, buffer_v1)

/-- generated from async_producer.go (*brokerProducer).run (fragment starting at `if bp.buffer.wouldOverflow(msg)`) -/
def runMsgBranch (wo : Bool) (pid : Int) (bufEpoch : Int) (msgEpoch : Int) (freq : Int) (timer : Int) (nilv : Int) (wfsErr1 : Int) (wfsErr2 : Int) (addErr : Int) (armedTimer : Int) : Int × Int :=
  if (wo = true) then
    let err_v1 : Int := wfsErr1
    if (err_v1 ≠ nilv) then
      (1, timer)
    else
      if ((pid ≠ (-1)) ∧ (bufEpoch ≠ msgEpoch)) then
        let err_v2 : Int := wfsErr2
        if (err_v2 ≠ nilv) then
          (1, timer)
        else
          let err_v3 : Int := addErr
          if (err_v3 ≠ nilv) then
            (1, timer)
          else
            if ((freq > 0) ∧ (timer = nilv)) then
              let timer_v1 : Int := armedTimer
              (0, timer_v1)
            else
              (0, timer)
      else
        let err_v4 : Int := addErr
        if (err_v4 ≠ nilv) then
          (1, timer)
        else
          if ((freq > 0) ∧ (timer = nilv)) then
            let timer_v2 : Int := armedTimer
            (0, timer_v2)
          else
            (0, timer)
  else
    if ((pid ≠ (-1)) ∧ (bufEpoch ≠ msgEpoch)) then
      let err_v5 : Int := wfsErr2
      if (err_v5 ≠ nilv) then
        (1, timer)
      else
        let err_v6 : Int := addErr
        if (err_v6 ≠ nilv) then
          (1, timer)
        else
          if ((freq > 0) ∧ (timer = nilv)) then
            let timer_v3 : Int := armedTimer
            (0, timer_v3)
          else
            (0, timer)
    else
      let err_v7 : Int := addErr
      if (err_v7 ≠ nilv) then
        (1, timer)
      else
        if ((freq > 0) ∧ (timer = nilv)) then
          let timer_v4 : Int := armedTimer
          (0, timer_v4)
        else
          (0, timer)

end Gen.C16
