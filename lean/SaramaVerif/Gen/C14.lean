import SaramaVerif.GoSem
/-! REGENERATED on every check run from /repo by /verif/tools/extract (spec: tools/extract/specs/C14.json). Do not edit. -/
set_option linter.unusedVariables false
namespace Gen.C14

/-- constant responseLengthSize -/
def responseLengthSize : Int := 4

/-- constant correlationIDSize -/
def correlationIDSize : Int := 4

/-- generated from broker.go getHeaderLength -/
def getHeaderLength (hv : Int) : Int :=
  if (hv < 1) then
    8
  else
    9

/-- generated from response_header.go (*responseHeader).decode (fragment starting at `if r.length <= 4`) -/
def headerDecodeTail (len : Int) (maxResp : Int) (cid : Int) (err : Int) (eLen : Int) (version : Int) (cidRead : Int) (eCid : Int) : Int × Int :=
  if ((len ≤ 4) ∨ (len > maxResp)) then
    (eLen, cid)
  else
    let err_v1 : Int := eCid
    let cid_v1 : Int := cidRead
    (err_v1, cid_v1)

end Gen.C14
