import SaramaVerif.GoSem
/-! REGENERATED on every check run from /repo by /verif/tools/extract (spec: tools/extract/specs/C06.json). Do not edit. -/
set_option linter.unusedVariables false
namespace Gen.C06

/-- case labels of `switch err` in offset_manager.go (*offsetManager).handleResponse, one list per clause in source order (default omitted) -/
def respCases : List (List Int) :=
  [[0],
   [6, 5, 15, 16],
   [12, 28],
   [14],
   [3]]

/-- generated from offset_manager.go (*partitionOffsetManager).MarkOffset -/
def markOffset (pOffset : Int) (pMeta : Int) (pDirty : Bool) (offset : Int) (metadata : Int) : Int × Int × Bool :=
  if (offset > pOffset) then
    let pOffset_v1 : Int := offset
    let pMeta_v1 : Int := metadata
    let pDirty_v1 : Bool := true
    (pOffset_v1, pMeta_v1, pDirty_v1)
  else
    (pOffset, pMeta, pDirty)

/-- generated from offset_manager.go (*partitionOffsetManager).ResetOffset -/
def resetOffset (pOffset : Int) (pMeta : Int) (pDirty : Bool) (offset : Int) (metadata : Int) : Int × Int × Bool :=
  if (offset ≤ pOffset) then
    let pOffset_v1 : Int := offset
    let pMeta_v1 : Int := metadata
    let pDirty_v1 : Bool := true
    (pOffset_v1, pMeta_v1, pDirty_v1)
  else
    (pOffset, pMeta, pDirty)

/-- generated from offset_manager.go (*partitionOffsetManager).updateCommitted -/
def updateCommitted (pOffset : Int) (pMeta : Int) (pDirty : Bool) (offset : Int) (metadata : Int) : Int × Int × Bool :=
  if ((pOffset = offset) ∧ (pMeta = metadata)) then
    let pDirty_v1 : Bool := false
    (pOffset, pMeta, pDirty_v1)
  else
    (pOffset, pMeta, pDirty)

/-- generated from offset_manager.go (*partitionOffsetManager).NextOffset -/
def nextOffset (pOffset : Int) (pMeta : Int) (initial : Int) (emptyStr : Int) : Int × Int :=
  if (pOffset ≥ 0) then
    (pOffset, pMeta)
  else
    (initial, emptyStr)

/-- generated from offset_manager.go (*partitionOffsetManager).AsyncClose -/
def asyncClose (pDone : Bool) : Bool :=
  let pDone_v1 : Bool := true
  pDone_v1

/-- generated from offset_manager.go (*offsetManager).releasePOMs (fragment starting at `releaseDue :=`) -/
def releaseDue (pDone : Bool) (force : Bool) (pDirty : Bool) (rd : Bool) : Bool :=
  let rd_v1 : Bool := (decide ((pDone = true) ∧ ((force = true) ∨ (¬ (pDirty = true)))))
  rd_v1

/-- generated from offset_manager.go (*offsetManager).constructRequest (fragment starting at `if pom.dirty`) -/
def snapshotIf (pDirty : Bool) (added : Bool) (addedNow : Bool) : Bool :=
  if (pDirty = true) then
    let added_v1 : Bool := addedNow
    added_v1
  else
    added

end Gen.C06
