import SaramaVerif.GoSem
/-! REGENERATED on every check run from /repo by /verif/tools/extract (spec: tools/extract/specs/C06.json). Do not edit. -/
set_option linter.unusedVariables false
namespace Gen.C06

/-- case labels of `switch err` in offset_manager.go (*offsetManager).handleResponse, one list per clause in source order (default omitted) -/
def respCases : List (List Int) :=
  [[0],
   [6, 5, 15, 16],
   [12, 28],
   [14],
   [3]]

/-- case labels of `switch block.Err` in offset_manager.go (*offsetManager).fetchInitialOffset, one list per clause in source order (default omitted) -/
def fetchCases : List (List Int) :=
  [[0],
   [16],
   [14]]

/-- generated from offset_manager.go (*partitionOffsetManager).MarkOffset -/
def markOffset (pOffset : Int) (pMeta : Int) (pDirty : Bool) (offset : Int) (metadata : Int) : Int × Int × Bool :=
  if (offset > pOffset) then
    let pOffset_v1 : Int := offset
    let pMeta_v1 : Int := metadata
    let pDirty_v1 : Bool := true
    (pOffset_v1, pMeta_v1, pDirty_v1)
  else
    (pOffset, pMeta, pDirty)

/-- generated from offset_manager.go (*partitionOffsetManager).ResetOffset -/
def resetOffset (pOffset : Int) (pMeta : Int) (pDirty : Bool) (offset : Int) (metadata : Int) : Int × Int × Bool :=
  if (offset ≤ pOffset) then
    let pOffset_v1 : Int := offset
    let pMeta_v1 : Int := metadata
    let pDirty_v1 : Bool := true
    (pOffset_v1, pMeta_v1, pDirty_v1)
  else
    (pOffset, pMeta, pDirty)

/-- generated from offset_manager.go (*partitionOffsetManager).updateCommitted -/
def updateCommitted (pOffset : Int) (pMeta : Int) (pDirty : Bool) (offset : Int) (metadata : Int) : Int × Int × Bool :=
  if ((pOffset = offset) ∧ (pMeta = metadata)) then
    let pDirty_v1 : Bool := false
    (pOffset, pMeta, pDirty_v1)
  else
    (pOffset, pMeta, pDirty)

/-- generated from offset_manager.go (*partitionOffsetManager).NextOffset -/
def nextOffset (pOffset : Int) (pMeta : Int) (initial : Int) (emptyStr : Int) : Int × Int :=
  if (pOffset ≥ 0) then
    (pOffset, pMeta)
  else
    (initial, emptyStr)

/-- generated from offset_manager.go (*partitionOffsetManager).AsyncClose -/
def asyncClose (pDone : Bool) : Bool :=
  let pDone_v1 : Bool := true
  pDone_v1

/-- generated from offset_manager.go (*offsetManager).releasePOMs (fragment starting at `releaseDue :=`) -/
def releaseDue (pDone : Bool) (force : Bool) (pDirty : Bool) (rd : Bool) : Bool :=
  let rd_v1 : Bool := (decide ((pDone = true) ∧ ((force = true) ∨ (¬ (pDirty = true)))))
  rd_v1

/-- generated from offset_manager.go (*offsetManager).constructRequest (fragment starting at `if pom.dirty`) -/
def snapshotIf (pDirty : Bool) (added : Bool) (addedNow : Bool) : Bool :=
  if (pDirty = true) then
    let added_v1 : Bool := addedNow
    added_v1
  else
    added

/-- generated from offset_manager.go (*offsetManager).handleResponse (fragment starting at `if req.blocks[pom.topic] == nil`) -/
def respBody (notInReq : Bool) (topicMissing : Bool) (present : Bool) (code : Int) (told0 : Int) (released0 : Bool) (committed0 : Bool) (eIncomplete : Int) (errTold : Int) (relNow : Bool) (comNow : Bool) : Int × Int × Bool × Bool :=
  if (notInReq = true) then
    (1, told0, released0, committed0)
  else
    if (topicMissing = true) then
      let told0_v1 : Int := eIncomplete
      (1, told0_v1, released0, committed0)
    else
      let err_v1 : Int := code
      let ok_v1 : Bool := present
      if (¬ (ok_v1 = true)) then
        let told0_v2 : Int := eIncomplete
        (1, told0_v2, released0, committed0)
      else
        if (err_v1 = 0) then
          let committed0_v1 : Bool := comNow
          (0, told0, released0, committed0_v1)
        else
          if ((((err_v1 = 6) ∨ (err_v1 = 5)) ∨ (err_v1 = 15)) ∨ (err_v1 = 16)) then
            let released0_v1 : Bool := relNow
            (0, told0, released0_v1, committed0)
          else
            if ((err_v1 = 12) ∨ (err_v1 = 28)) then
              let told0_v3 : Int := errTold
              (0, told0_v3, released0, committed0)
            else
              if (err_v1 = 14) then
                (0, told0, released0, committed0)
              else
                if (err_v1 = 3) then
                  let told0_v4 : Int := errTold
                  let released0_v2 : Bool := relNow
                  (0, told0_v4, released0_v2, committed0)
                else
                  let told0_v5 : Int := errTold
                  let released0_v3 : Bool := relNow
                  (0, told0_v5, released0_v3, committed0)

end Gen.C06
