import SaramaVerif.GoSem
/-! REGENERATED on every check run from /repo by /verif/tools/extract (spec: tools/extract/specs/C08.json). Do not edit. -/
set_option linter.unusedVariables false
namespace Gen.C08

/-- constant defaultGeneration -/
def defaultGeneration : Int := (-1)

/-- generated from balance_strategy.go canTopicPartitionParticipateInReassignment -/
def canTopicPartitionParticipate (n : Int) : Bool :=
  (decide (n ≥ 2))

end Gen.C08
