import SaramaVerif.GoSem
/-! REGENERATED on every check run from /repo by /verif/tools/extract (spec: tools/extract/specs/C15.json). Do not edit. -/
set_option linter.unusedVariables false
namespace Gen.C15

/-- constant ErrNoError -/
def cErrNoError : Int := 0

/-- constant ErrUnknownTopicOrPartition -/
def cErrUnknownTopicOrPartition : Int := 3

/-- constant ErrLeaderNotAvailable -/
def cErrLeaderNotAvailable : Int := 5

/-- constant ErrReplicaNotAvailable -/
def cErrReplicaNotAvailable : Int := 9

/-- constant ErrInvalidTopic -/
def cErrInvalidTopic : Int := 17

/-- constant ErrTopicAuthorizationFailed -/
def cErrTopicAuthorizationFailed : Int := 29

/-- constant ErrClusterAuthorizationFailed -/
def cErrClusterAuthorizationFailed : Int := 31

/-- constant ErrSASLAuthenticationFailed -/
def cErrSASLAuthenticationFailed : Int := 58

/-- constant allPartitions -/
def cAllPartitions : Int := 0

/-- constant writablePartitions -/
def cWritablePartitions : Int := 1

/-- constant maxPartitionIndex -/
def cMaxPartitionIndex : Int := 2

/-- case labels of `switch topic.Err` in client.go (*client).updateMetadata, one list per clause in source order (default omitted) -/
def topicErrCases : List (List Int) :=
  [[0],
   [17, 29],
   [3],
   [5]]

/-- generated from client.go (*client).cachedLeader -/
def cachedLeader (nilv : Int) (topicEntry : Int) (found : Bool) (md : Int) (perr : Int) (brk : Int) : Int × Int :=
  let partitions_v1 : Int := topicEntry
  if (partitions_v1 ≠ nilv) then
    let metadata_v1 : Int := md
    let ok_v1 : Bool := found
    if (ok_v1 = true) then
      if (perr = 5) then
        (nilv, 5)
      else
        let b_v1 : Int := brk
        if (b_v1 = nilv) then
          (nilv, 5)
        else
          (b_v1, nilv)
    else
      (nilv, 3)
  else
    (nilv, 3)

/-- generated from client.go (*client).Replicas (fragment starting at `if metadata.Err == ErrReplicaNotAvailable`) -/
def replicasTail (nilv : Int) (perr : Int) (lst : Int) : Int × Int :=
  if (perr = 9) then
    (lst, perr)
  else
    (lst, nilv)

/-- generated from client.go (*client).InSyncReplicas (fragment starting at `if metadata.Err == ErrReplicaNotAvailable`) -/
def isrTail (nilv : Int) (perr : Int) (lst : Int) : Int × Int :=
  if (perr = 9) then
    (lst, perr)
  else
    (lst, nilv)

/-- generated from client.go (*client).OfflineReplicas (fragment starting at `if metadata.Err == ErrReplicaNotAvailable`) -/
def offlineTail (nilv : Int) (perr : Int) (lst : Int) : Int × Int :=
  if (perr = 9) then
    (lst, perr)
  else
    (lst, nilv)

/-- generated from client.go (*client).Partitions (fragment starting at `if len(partitions) == 0 { return`) -/
def partitionsTail (nilv : Int) (n : Int) (parts : Int) : Int × Int :=
  if (n = 0) then
    (nilv, 3)
  else
    (parts, nilv)

/-- generated from client.go (*client).WritablePartitions (fragment starting at `if partitions == nil`) -/
def writableTail (nilv : Int) (parts : Int) : Int × Int :=
  if (parts = nilv) then
    (nilv, 3)
  else
    (parts, nilv)

/-- generated from client.go (*client).updateBroker (fragment starting at `if client.brokers[broker.ID()] == nil`) -/
def reconcileBroker (nilv : Int) (cur : Int) (curAddr : Int) (b : Int) (newAddr : Int) : Int :=
  if (cur = nilv) then
    let cur_v1 : Int := b
    cur_v1
  else
    if (newAddr ≠ curAddr) then
      let cur_v2 : Int := b
      cur_v2
    else
      cur

/-- generated from client.go (*client).registerBroker (fragment starting at `if client.brokers[broker.ID()] == nil`) -/
def registerBroker (nilv : Int) (cur : Int) (curAddr : Int) (b : Int) (newAddr : Int) : Int :=
  if (cur = nilv) then
    let cur_v1 : Int := b
    cur_v1
  else
    if (newAddr ≠ curAddr) then
      let cur_v2 : Int := b
      cur_v2
    else
      cur

/-- generated from client.go (*client).updateMetadata (fragment starting at `if partition.Err == ErrLeaderNotAvailable`) -/
def partitionRetry (perr : Int) (retry : Bool) : Bool :=
  if (perr = 5) then
    let retry_v1 : Bool := true
    retry_v1
  else
    retry

/-- generated from client.go (*client).deregisterBroker (fragment starting at `if len(client.seedBrokers) > 0 && broker == client.seedBrokers[0]`) -/
def deregisterBroker (nSeeds : Int) (b : Int) (seed0 : Int) (seeds : Int) (seedsTail : Int) (dead : Int) (deadPlus : Int) (brokers : Int) (brokersMinus : Int) : Int × Int × Int :=
  if ((nSeeds > 0) ∧ (b = seed0)) then
    let dead_v1 : Int := deadPlus
    let seeds_v1 : Int := seedsTail
    (seeds_v1, dead_v1, brokers)
  else
    let brokers_v1 : Int := brokersMinus
    (seeds, dead, brokers_v1)

/-- generated from client.go (*client).updateMetadata (fragment starting at `client.lock.Lock()`) -/
def lockUpdateMetadata  : Unit :=
  ()

/-- generated from client.go (*client).updateMetadata (fragment starting at `defer client.lock.Unlock()`) -/
def unlockUpdateMetadata  : Unit :=
  ()

/-- generated from client.go (*client).cachedPartitions (fragment starting at `client.lock.RLock()`) -/
def lockCachedPartitions  : Unit :=
  ()

/-- generated from client.go (*client).cachedPartitions (fragment starting at `defer client.lock.RUnlock()`) -/
def unlockCachedPartitions  : Unit :=
  ()

/-- generated from client.go (*client).cachedMetadata (fragment starting at `client.lock.RLock()`) -/
def lockCachedMetadata  : Unit :=
  ()

/-- generated from client.go (*client).cachedMetadata (fragment starting at `defer client.lock.RUnlock()`) -/
def unlockCachedMetadata  : Unit :=
  ()

/-- generated from client.go (*client).cachedLeader (fragment starting at `client.lock.RLock()`) -/
def lockCachedLeader  : Unit :=
  ()

/-- generated from client.go (*client).cachedLeader (fragment starting at `defer client.lock.RUnlock()`) -/
def unlockCachedLeader  : Unit :=
  ()

/-- generated from client.go (*client).Brokers (fragment starting at `client.lock.RLock()`) -/
def lockBrokers  : Unit :=
  ()

/-- generated from client.go (*client).Brokers (fragment starting at `defer client.lock.RUnlock()`) -/
def unlockBrokers  : Unit :=
  ()

/-- generated from client.go (*client).any (fragment starting at `client.lock.RLock()`) -/
def lockAny  : Unit :=
  ()

/-- generated from client.go (*client).any (fragment starting at `defer client.lock.RUnlock()`) -/
def unlockAny  : Unit :=
  ()

/-- generated from client.go (*client).deregisterBroker (fragment starting at `client.lock.Lock()`) -/
def lockDeregisterBroker  : Unit :=
  ()

/-- generated from client.go (*client).deregisterBroker (fragment starting at `defer client.lock.Unlock()`) -/
def unlockDeregisterBroker  : Unit :=
  ()

/-- generated from client.go (*client).resurrectDeadBrokers (fragment starting at `client.lock.Lock()`) -/
def lockResurrectDeadBrokers  : Unit :=
  ()

/-- generated from client.go (*client).resurrectDeadBrokers (fragment starting at `defer client.lock.Unlock()`) -/
def unlockResurrectDeadBrokers  : Unit :=
  ()

/-- generated from client.go (*client).updateMetadata (fragment starting at `switch topic.Err`) -/
def topicSwitch (terr : Int) (err : Int) (retry : Bool) : Int × Int × Bool :=
  if (terr = 0) then
    (0, err, retry)
  else
    if ((terr = 17) ∨ (terr = 29)) then
      let err_v1 : Int := terr
      (1, err_v1, retry)
    else
      if (terr = 3) then
        let err_v2 : Int := terr
        let retry_v1 : Bool := true
        (1, err_v2, retry_v1)
      else
        if (terr = 5) then
          let retry_v2 : Bool := true
          (0, err, retry_v2)
        else
          let err_v3 : Int := terr
          (1, err_v3, retry)

/-- generated from client.go (*client).tryRefreshMetadata (fragment starting at `if err == ErrSASLAuthenticationFailed`) -/
def kerrorVerdict (kerr : Int) (d0 : Bool) (d1 : Bool) : Int × Int × Bool :=
  if (kerr = 58) then
    (3, kerr, d0)
  else
    if (kerr = 29) then
      (3, kerr, d0)
    else
      let d0_v1 : Bool := d1
      (0, 0, d0_v1)

/-- generated from client.go (*client).tryRefreshMetadata (fragment starting at `allKnownMetaData := len(topics) == 0`) -/
def answeredVerdict (nTopics : Int) (akm0 : Bool) (retried : Int) (sr : Bool) (uerr : Int) : Int × Bool :=
  let akm0_v1 : Bool := (decide (nTopics = 0))
  let err_v1 : Int := uerr
  let shouldRetry_v1 : Bool := sr
  if (shouldRetry_v1 = true) then
    (retried, akm0_v1)
  else
    (err_v1, akm0_v1)

end Gen.C15
