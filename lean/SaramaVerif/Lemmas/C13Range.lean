import SaramaVerif.Lemmas.C08Range
/-
  What each member holds after the range plan: exactly its slice.
-/
namespace Model.Balance

theorem heldOf_rangeCoreFrom_other_topic (r : Nat → Nat) (t t' : Topic) (ps : List Int) (m : Member) (h : t' ≠ t) :
    ∀ (ms : List Member) (i : Nat) (plan : Plan),
      heldOf (rangeCoreFrom r t' ps i ms plan) m t = heldOf plan m t := by
  intro ms
  induction ms with
  | nil => intro i plan; rfl
  | cons m' ms ih =>
    intro i plan
    rw [rangeCoreFrom, ih, heldOf_add]
    simp [h]

theorem heldOf_rangeCoreFrom_not_mem (r : Nat → Nat) (t t' : Topic) (ps : List Int) (m : Member) :
    ∀ (ms : List Member) (i : Nat) (plan : Plan), m ∉ ms →
      heldOf (rangeCoreFrom r t' ps i ms plan) m t = heldOf plan m t := by
  intro ms
  induction ms with
  | nil => intro i plan _; rfl
  | cons m' ms ih =>
    intro i plan hm
    simp only [List.mem_cons, not_or] at hm
    rw [rangeCoreFrom, ih _ _ hm.2, heldOf_add]
    have : ¬ (m' = m) := fun e => hm.1 e.symm
    simp [this]

theorem heldOf_rangeCoreFrom_mem (r : Nat → Nat) (t : Topic) (ps : List Int) (m : Member) :
    ∀ (ms : List Member) (i k : Nat) (plan : Plan), ms.Nodup → ms[k]? = some m →
      heldOf (rangeCoreFrom r t ps i ms plan) m t = heldOf plan m t ++ slice r ps (i + k) := by
  intro ms
  induction ms with
  | nil => intro i k plan _ hk; simp at hk
  | cons m' ms ih =>
    intro i k plan hnd hk
    rw [List.nodup_cons] at hnd
    rw [rangeCoreFrom]
    cases k with
    | zero =>
      simp only [List.getElem?_cons_zero, Option.some.injEq] at hk
      subst hk
      rw [heldOf_rangeCoreFrom_not_mem r t t ps m' ms _ _ hnd.1, heldOf_add]
      simp
    | succ k =>
      simp only [List.getElem?_cons_succ] at hk
      have hne : m' ≠ m := by
        intro e; subst e
        exact hnd.1 (List.mem_of_getElem? hk)
      rw [ih (i + 1) k _ hnd.2 hk, heldOf_add]
      simp only [hne, false_and, ↓reduceIte, List.append_nil]
      congr 2
      omega

/-- after the whole range plan, the member at position `k` of topic `t`'s (duplicate-free) list holds slice `k` -/
theorem heldOf_rangePlan (r : Topic → Nat → Nat) (ts : Topics) (t : Topic) (m : Member) (ms : List Member) (k : Nat)
    (hms : ms.Nodup) (hk : ms[k]? = some m) :
    ∀ (mbt : AL Member) (plan : Plan), (AL.keys mbt).Nodup → (t, ms) ∈ mbt →
      heldOf (rangePlan r ts mbt plan) m t = heldOf plan m t ++ slice (r t) (partsOf ts t) k := by
  intro mbt
  induction mbt with
  | nil => intro plan _ h; simp at h
  | cons e rest ih =>
    intro plan hnd hmem
    obtain ⟨t', ms'⟩ := e
    simp only [AL.keys, List.map_cons, List.nodup_cons] at hnd
    rw [rangePlan]
    rcases List.mem_cons.mp hmem with heq | hmem
    · injection heq with h1 h2
      subst h1; subst h2
      -- the remaining entries are about other topics
      have hrest : ∀ (rest : AL Member) (plan : Plan), t ∉ AL.keys rest →
          heldOf (rangePlan r ts rest plan) m t = heldOf plan m t := by
        intro rest
        induction rest with
        | nil => intro plan _; rfl
        | cons e' rest' ih' =>
          intro plan hnk
          obtain ⟨t2, ms2⟩ := e'
          simp only [AL.keys, List.map_cons, List.mem_cons, not_or] at hnk
          rw [rangePlan, ih' _ hnk.2]
          exact heldOf_rangeCoreFrom_other_topic (r t2) t t2 _ m (fun e => hnk.1 e.symm) ms2 0 plan
      rw [hrest rest _ hnd.1]
      unfold rangeCore
      rw [heldOf_rangeCoreFrom_mem (r t) t _ m ms 0 k plan hms hk, Nat.zero_add]
    · have hne : t' ≠ t := by
        intro e; subst e
        exact hnd.1 (List.mem_map.mpr ⟨(t', ms), hmem, rfl⟩)
      rw [ih _ hnd.2 hmem]
      unfold rangeCore
      rw [heldOf_rangeCoreFrom_other_topic (r t') t t' _ m hne ms' 0 plan]

theorem slice_length {n m : Nat} {r : Nat → Nat} (hb : RangeBoundary n m r) {ps : List Int} (hn : ps.length = n)
    {i : Nat} (hi : i < m) : (slice r ps i).length = r (i + 1) - r i := by
  unfold slice
  rw [List.length_take, List.length_drop, hn]
  have := hb.le_n (i := i + 1) (by omega)
  have := hb.step_le hi
  omega

theorem slice_isRun {n m : Nat} {r : Nat → Nat} (hb : RangeBoundary n m r) {ps : List Int} (hn : ps.length = n)
    {i : Nat} (hi : i < m) : isRun ps (slice r ps i) = true := by
  unfold isRun
  rw [List.any_eq_true]
  refine ⟨r i, ?_, ?_⟩
  · rw [List.mem_range, slice_length hb hn hi, hn]
    have := hb.le_n (i := i + 1) (by omega)
    have := hb.step_le hi
    omega
  · rw [slice_length hb hn hi]
    unfold slice
    exact beq_self_eq_true _

end Model.Balance
