/-
  C02 composition: the tie between a system state (`Model.Pipeline.Sys`, one broker worker: worker 0) and its
  `View`, phase by phase, and the full invariant `Good`.
-/
import SaramaVerif.Lemmas.C02sysLive
import SaramaVerif.Lemmas.C02sysBP

set_option linter.unusedSimpArgs false

namespace Lemmas.C02sys
open Model Model.Pipeline

def AllData (l : List Tok) : Prop := ∀ t ∈ l, t.kind = .data

/-- the input queue of the worker without the syn markers -/
def nosynq (q : List Tok) : List Tok := q.filter (fun t => !(t.kind == .syn))

abbrev W (s : Sys) : Worker := s.wk 0
abbrev ins (s : Sys) : List Tok := insideB (W s).bp

/-- the view of a system state, by the phase of worker 0:
    closed  - the worker is closing: it bounces everything, for ever;
    normal  - the worker accepts the partition (a syn may still be on its way);
    failed  - the worker bounced the partition and the partition producer has not noticed yet;
    reopen  - the chaser `fin k` is in the worker's queue: what is before it will be bounced, what is behind it
              (after a syn) will be accepted. -/
inductive Rep (M : Nat) (s : Sys) : View → Prop
  | closed : (W s).bp.closing = true → ins s = [] →
      Rep M s ⟨s.pp, [], s.pq ++ s.dq ++ s.ret ++ bumpF M (nosynq (W s).inq), false⟩
  | normal (mk G : List Tok) : (W s).bp.closing = false → (W s).bp.cr 0 = false → (W s).inq = mk ++ G →
      AllData G → (mk = [] ∨ (mk = [synTok] ∧ ins s = [])) →
      (s.cur = some 0 ∨ (s.cur = none ∧ (W s).inq = [] ∧ ins s = [])) →
      Rep M s ⟨s.pp, ins s ++ G, s.pq ++ s.dq ++ s.ret, true⟩
  | failed : (W s).bp.closing = false → (W s).bp.cr 0 = true → ins s = [] → AllData (W s).inq →
      s.cur = some 0 →
      Rep M s ⟨s.pp, [], s.pq ++ s.dq ++ s.ret ++ bumpF M (W s).inq, false⟩
  | reopen (D : List Tok) (k : Nat) (mk G : List Tok) : (W s).bp.closing = false → (W s).bp.cr 0 = true →
      ins s = [] → (W s).inq = D ++ finTok k :: (mk ++ G) → AllData D → AllData G →
      ((mk = [] ∧ G = [] ∧ s.cur = none) ∨ (mk = [synTok] ∧ s.cur = some 0)) →
      Rep M s ⟨s.pp, G, s.pq ++ s.dq ++ s.ret ++ (bumpF M D ++ [finTok (k + 1)]), true⟩

theorem rep_pp {M : Nat} {s : Sys} {v : View} (h : Rep M s v) : v.pp = s.pp := by
  cases h <;> rfl

theorem rep_av {M : Nat} {s : Sys} {v : View} (h : Rep M s v) : ∃ tl, v.av = s.pq ++ s.dq ++ s.ret ++ tl ∧
    (∀ t ∈ tl, 1 ≤ t.retries) := by
  cases h with
  | closed => exact ⟨_, rfl, fun t ht => by obtain ⟨y, _, rfl⟩ := mem_bumpF ht; simp [bump_retries]⟩
  | normal => exact ⟨[], by simp, fun t ht => by cases ht⟩
  | failed => exact ⟨_, rfl, fun t ht => by obtain ⟨y, _, rfl⟩ := mem_bumpF ht; simp [bump_retries]⟩
  | reopen D k mk G =>
    refine ⟨_, rfl, fun t ht => ?_⟩
    rcases List.mem_append.1 ht with ht | ht
    · obtain ⟨y, _, rfl⟩ := mem_bumpF ht; simp [bump_retries]
    · rw [List.mem_singleton.1 ht]; simp [finTok]

/-- concrete side conditions (worker 0 is the only worker that is ever used) -/
structure Conc (M : Nat) (s : Sys) (v : View) : Prop where
  pinv  : Props.C02bp.PInv (W s).bp
  p0    : P0 (s.pq ++ s.dq ++ s.ret ++ (W s).inq ++ ins s)
  lvl   : ∀ t ∈ s.pq ++ s.dq ++ s.ret, t.retries ≤ M
  finq  : ∀ t ∈ (W s).inq, t.kind = .fin → t.retries < M
  ret1  : ∀ t ∈ s.ret, 1 ≤ t.retries
  cur01 : s.cur = none ∨ s.cur = some 0
  capN  : s.cur = none → ∀ x ∈ data v.av, x.retries ≤ v.pp.hwm
  crash : s.crash = false

/-- the log and the successes against the live tokens of the view -/
structure LogInv (s : Sys) (v : View) : Prop where
  K    : ∀ b ∈ s.log, ∀ a, LiveId v a → a < b → a ∈ s.log
  J    : ∀ a b, a < b → a ∈ s.log → b ∈ s.log → s.log.idxOf a < s.log.idxOf b
  S1   : ∀ p ∈ s.succ, ∀ a, LiveId v a → p.1 < a
  S3   : ∀ p ∈ s.succ, ∀ q ∈ s.succ, p.1 < q.1 → p.2 < q.2
  S5   : ∀ p ∈ s.succ, p.2 < s.log.length
  S6   : ∀ p ∈ s.succ, p.1 < (s.next : Int)
  idlt : ∀ a, LiveId v a → a < (s.next : Int)
  Llt  : ∀ b ∈ s.log, b < (s.next : Int)
  pend : ∀ vd base, (W s).pend = some (vd, base) →
    ∃ sent, (W s).bp.sets = [sent] ∧ (∀ p ∈ s.succ, p.2 < base) ∧
      (vd = .ok → base + sent.length ≤ s.log.length)

structure Good (M : Nat) (s : Sys) (v : View) : Prop where
  rep  : Rep M s v
  vinv : VInv v
  conc : Conc M s v
  log  : LogInv s v

/-- a choice that concerns worker 0 only, with leader lookups that can only find worker 0 -/
def OneW : Choice → Prop
  | .ppRecv lks => ∀ l ∈ lks, l = none ∨ l = some 0
  | .bpRecv w _ => w = 0
  | .handover w => w = 0
  | .broker w _ => w = 0
  | .deliver w _ => w = 0
  | .closeW _ => False   -- outside the single-worker scope (see Props/C02chain.lean)
  | _ => True

end Lemmas.C02sys
