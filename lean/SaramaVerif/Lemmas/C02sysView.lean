/-
  C02 composition, abstract layer.  A `View` is what matters for the order argument about one broker worker:
    gw   - the tokens the worker holds or will accept (its `inside` ++ the acceptable part of its input queue),
    av   - the virtual arrival stream of the partition producer: pp.input ++ p.input ++ retries ++ the tokens the
           worker is going to bounce (already counted with their next retry level), data tokens and fin chasers,
    pp   - the partition producer state, good - whether the worker accepts what the partition producer forwards.
  `VInv` is the ordering invariant; the theorems of this file show that every abstract transition keeps it.
  Pure list reasoning; the tie to `Model.Pipeline.sysStep` is in Lemmas/C02sysRep.lean.
-/
import SaramaVerif.Model.Pipeline
import SaramaVerif.Props.C02

namespace Lemmas.C02sys
open Model Model.Pipeline

abbrev Tok := BrokerProd.Tok

def isData (t : Tok) : Bool := t.kind == .data
def isFin (t : Tok) : Bool := t.kind == .fin
def data (l : List Tok) : List Tok := l.filter isData
def bump (t : Tok) : Tok := { t with retries := t.retries + 1 }

/-- what retryMessage does to a bounced token in the view: next level, or gone when the budget is spent -/
def bumpF (M : Nat) (l : List Tok) : List Tok :=
  (l.filter (fun t => decide (t.retries < M))).map bump

def ofPP (t : PartProd.Tok) : Tok := mkTok t.id t.retries t.fin

structure View where
  pp   : PartProd.St
  gw   : List Tok
  av   : List Tok
  good : Bool

def View.buf (v : View) (k : Nat) : List Tok := (v.pp.bufs k).map ofPP

/-- `a` is offered before `b`: higher (or equal) retry level first, and then the smaller rank -/
def R (a b : Tok) : Prop := (b.retries ≤ a.retries → a.id < b.id) ∧ (a.retries < b.retries → b.id < a.id)

def Desc (l : List Tok) : Prop := l.Pairwise (fun a b => b.retries ≤ a.retries)

/-- a data token `b` behind the fin chaser `a`: fresh, or above the chaser's level, or at most at the level of a
    lower chaser that is still expected (a token of an older broker worker that is still draining) -/
def Cov (e : Nat → Bool) (a b : Tok) : Prop :=
  a.kind = .fin → b.kind = .data →
    b.retries = 0 ∨ a.retries < b.retries ∨ ∃ k, k < a.retries ∧ e k = true ∧ b.retries ≤ k

def Beh (e : Nat → Bool) (l : List Tok) : Prop := l.Pairwise (Cov e)

def finLevels (l : List Tok) : List Nat := (l.filter isFin).map (·.retries)

structure VInv (v : View) : Prop where
  ord   : ∀ k, (v.gw ++ v.buf k ++ data v.av).Pairwise R
  bufx  : ∀ k k' a b, a ∈ v.buf k → b ∈ v.buf k' → k < k' → b.id < a.id
  low   : ∀ g ∈ v.gw, ∀ x, (x ∈ data v.av ∨ ∃ k, x ∈ v.buf k) → g.id < x.id
  ghw   : ∀ g ∈ v.gw, v.pp.hwm ≤ g.retries
  gdesc : Desc v.gw
  gdata : ∀ g ∈ v.gw, g.kind = .data
  gbad  : v.good = false → v.gw = []
  hi    : Desc ((data v.av).filter (fun t => decide (v.pp.hwm < t.retries)))
  cap   : v.good = true → ∀ x ∈ data v.av, x.retries ≤ v.pp.hwm
  beh   : Beh v.pp.expect v.av
  fin1  : ∀ f ∈ v.av, f.kind = .fin → 1 ≤ f.retries ∧ f.retries ≤ v.pp.hwm ∧ v.pp.expect f.retries = true
  fin2  : (finLevels v.av).Nodup
  nosyn : ∀ x ∈ v.av, x.kind ≠ .syn
  pinv  : Props.C02.PPInv v.pp

theorem data_append (a b : List Tok) : data (a ++ b) = data a ++ data b := by simp [data]

theorem mem_data {x : Tok} {l : List Tok} : x ∈ data l ↔ x ∈ l ∧ x.kind = .data := by
  simp [data, isData]

theorem data_sublist {a b : List Tok} (h : a.Sublist b) : (data a).Sublist (data b) := h.filter _

/-- tokens dropped from the view (terminal outcomes); the chasers all stay -/
structure Shrink (v' v : View) : Prop where
  pp   : v'.pp = v.pp
  good : v'.good = v.good
  gw   : v'.gw.Sublist v.gw
  av   : v'.av.Sublist v.av
  fins : v'.av.filter isFin = v.av.filter isFin

theorem VInv.shrink {v' v : View} (h : VInv v) (s : Shrink v' v) : VInv v' := by
  have hb : ∀ k, v'.buf k = v.buf k := fun k => by simp [View.buf, s.pp]
  refine ⟨fun k => ?_, ?_, ?_, ?_, ?_, ?_, ?_, ?_, ?_, ?_, ?_, ?_, ?_, ?_⟩
  · rw [hb]
    exact (h.ord k).sublist ((s.gw.append (List.Sublist.refl _)).append (data_sublist s.av))
  · intro k k' a b ha hb'; rw [hb] at ha; rw [hb] at hb'; exact h.bufx k k' a b ha hb'
  · intro g hg x hx
    refine h.low g (s.gw.subset hg) x ?_
    rcases hx with hx | ⟨k, hx⟩
    · exact Or.inl ((data_sublist s.av).subset hx)
    · exact Or.inr ⟨k, by rw [← hb]; exact hx⟩
  · intro g hg; rw [s.pp]; exact h.ghw g (s.gw.subset hg)
  · exact h.gdesc.sublist s.gw
  · intro g hg; exact h.gdata g (s.gw.subset hg)
  · intro hg; have := h.gbad (by rw [← s.good]; exact hg); have h2 := s.gw; rw [this] at h2; exact List.eq_nil_of_sublist_nil h2
  · rw [s.pp]; exact h.hi.sublist ((data_sublist s.av).filter _)
  · intro hg x hx; rw [s.pp]; exact h.cap (by rw [← s.good]; exact hg) x ((data_sublist s.av).subset hx)
  · rw [s.pp]; exact h.beh.sublist s.av
  · intro f hf hk; rw [s.pp]; exact h.fin1 f (s.av.subset hf) hk
  · simp only [finLevels, s.fins]; exact h.fin2
  · intro x hx; exact h.nosyn x (s.av.subset hx)
  · rw [s.pp]; exact h.pinv

theorem pairwise_insert {α : Type} {r : α → α → Prop} {A B : List α} {x : α} (h : (A ++ B).Pairwise r)
    (h1 : ∀ a ∈ A, r a x) (h2 : ∀ b ∈ B, r x b) : (A ++ x :: B).Pairwise r := by
  rw [List.pairwise_append] at h ⊢
  refine ⟨h.1, List.pairwise_cons.2 ⟨h2, h.2.1⟩, ?_⟩
  intro a ha b hb
  rcases List.mem_cons.1 hb with rfl | hb
  · exact h1 a ha
  · exact h.2.2 a ha b hb

def freshTok (n : Int) : Tok := mkTok n 0 false

theorem freshTok_data (n : Int) : isData (freshTok n) = true := by simp [freshTok, mkTok, isData]
theorem freshTok_fin (n : Int) : isFin (freshTok n) = false := by simp [freshTok, mkTok, isFin]

theorem data_cons_data {x : Tok} (l : List Tok) (h : isData x = true) : data (x :: l) = x :: data l := by
  simp [data, h]
theorem data_cons_not {x : Tok} (l : List Tok) (h : isData x = false) : data (x :: l) = data l := by
  simp [data, h]

/-- a fresh submission enters the arrival stream in front of the bounced tokens -/
theorem VInv.fresh {v : View} (h : VInv v) (l1 l2 : List Tok) (n : Int) (hav : v.av = l1 ++ l2)
    (hn : ∀ x, (x ∈ v.gw ∨ x ∈ data v.av ∨ ∃ k, x ∈ v.buf k) → x.id < n)
    (h2 : ∀ x ∈ data l2, 1 ≤ x.retries) :
    VInv { v with av := l1 ++ freshTok n :: l2 } := by
  have hd : data (l1 ++ freshTok n :: l2) = data l1 ++ freshTok n :: data l2 := by
    rw [data_append, data_cons_data _ (freshTok_data n)]
  have hd0 : data v.av = data l1 ++ data l2 := by rw [hav, data_append]
  have hf : (l1 ++ freshTok n :: l2).filter isFin = v.av.filter isFin := by
    rw [hav]; simp [List.filter_cons, freshTok_fin]
  refine ⟨fun k => ?_, h.bufx, ?_, h.ghw, h.gdesc, h.gdata, h.gbad, ?_, ?_, ?_, ?_, ?_, ?_, h.pinv⟩
  · show (v.gw ++ v.buf k ++ data (l1 ++ freshTok n :: l2)).Pairwise R
    rw [hd, ← List.append_assoc]
    have h0 := h.ord k
    rw [hd0, ← List.append_assoc] at h0
    refine pairwise_insert h0 ?_ ?_
    · intro a ha
      have : a.id < n := by
        apply hn
        simp only [List.mem_append] at ha
        rcases ha with (ha | ha) | ha
        · exact Or.inl ha
        · exact Or.inr (Or.inr ⟨k, ha⟩)
        · exact Or.inr (Or.inl (by rw [hd0]; exact List.mem_append_left _ ha))
      exact ⟨fun _ => by simpa [freshTok, mkTok] using this, fun hlt => by simp [freshTok, mkTok] at hlt⟩
    · intro b hb
      have h1 := h2 b hb
      have : b.id < n := hn b (Or.inr (Or.inl (by rw [hd0]; exact List.mem_append_right _ hb)))
      exact ⟨fun hle => by simp [freshTok, mkTok] at hle; omega, fun _ => by simpa [freshTok, mkTok] using this⟩
  · intro g hg x hx
    rcases hx with hx | hx
    · change x ∈ data (l1 ++ freshTok n :: l2) at hx
      rw [hd] at hx
      simp only [List.mem_append, List.mem_cons] at hx
      rcases hx with hx | rfl | hx
      · exact h.low g hg x (Or.inl (by rw [hd0]; exact List.mem_append_left _ hx))
      · simpa [freshTok, mkTok] using hn g (Or.inl hg)
      · exact h.low g hg x (Or.inl (by rw [hd0]; exact List.mem_append_right _ hx))
    · exact h.low g hg x (Or.inr hx)
  · show Desc ((data (l1 ++ freshTok n :: l2)).filter _)
    rw [hd, List.filter_append, List.filter_cons]
    have : decide (v.pp.hwm < (freshTok n).retries) = false := by simp [freshTok, mkTok]
    rw [this]
    have h0 := h.hi
    rw [hd0, List.filter_append] at h0
    simpa using h0
  · intro hg x hx
    change x ∈ data (l1 ++ freshTok n :: l2) at hx
    rw [hd] at hx
    simp only [List.mem_append, List.mem_cons] at hx
    rcases hx with hx | rfl | hx
    · exact h.cap hg x (by rw [hd0]; exact List.mem_append_left _ hx)
    · simp [freshTok, mkTok]
    · exact h.cap hg x (by rw [hd0]; exact List.mem_append_right _ hx)
  · have h0 := h.beh
    rw [hav] at h0
    refine pairwise_insert h0 ?_ ?_
    · intro a _ _ _; left; simp [freshTok, mkTok]
    · intro b _ hk; simp [freshTok, mkTok] at hk
  · intro f hf' hk
    refine h.fin1 f ?_ hk
    rw [hav]
    simp only [List.mem_append, List.mem_cons] at hf' ⊢
    rcases hf' with hf' | rfl | hf'
    · exact Or.inl hf'
    · simp [freshTok, mkTok] at hk
    · exact Or.inr hf'
  · show (finLevels (l1 ++ freshTok n :: l2)).Nodup
    simp only [finLevels, hf]; exact h.fin2
  · intro x hx
    simp only [List.mem_append, List.mem_cons] at hx
    rcases hx with hx | rfl | hx
    · exact h.nosyn x (by rw [hav]; exact List.mem_append_left _ hx)
    · simp [freshTok, mkTok]
    · exact h.nosyn x (by rw [hav]; exact List.mem_append_right _ hx)

theorem buf_typed {v : View} (h : VInv v) {k : Nat} {a : Tok} (ha : a ∈ v.buf k) :
    a.retries = k ∧ a.kind = .data := by
  simp only [View.buf, List.mem_map] at ha
  obtain ⟨t, ht, rfl⟩ := ha
  have := h.pinv.typed k t ht
  simp [ofPP, mkTok, this.1, this.2]

theorem buf_above {v : View} (h : VInv v) {k : Nat} (hk : v.pp.hwm ≤ k) : v.buf k = [] := by
  simp [View.buf, h.pinv.above k hk]

def parkV (v : View) (px : PartProd.Tok) (rest : List Tok) : View :=
  ⟨{ v.pp with bufs := PartProd.setBuf v.pp.bufs px.retries (v.pp.bufs px.retries ++ [px]) }, v.gw, rest, v.good⟩

theorem parkV_buf (v : View) (px : PartProd.Tok) (rest : List Tok) (k : Nat) :
    (parkV v px rest).buf k = if k = px.retries then v.buf k ++ [ofPP px] else v.buf k := by
  by_cases hk : k = px.retries
  · subst hk; simp [parkV, View.buf, PartProd.setBuf]
  · simp [parkV, View.buf, PartProd.setBuf, hk]

theorem parkV_mem {v : View} {px : PartProd.Tok} {rest : List Tok} {k : Nat} {a : Tok}
    (ha : a ∈ (parkV v px rest).buf k) : a ∈ v.buf k ∨ (a = ofPP px ∧ k = px.retries) := by
  rw [parkV_buf] at ha
  split at ha
  · rename_i hk; simp only [List.mem_append, List.mem_singleton] at ha
    rcases ha with ha | ha
    · exact Or.inl ha
    · exact Or.inr ⟨ha, hk⟩
  · exact Or.inl ha

theorem ofPP_retries (px : PartProd.Tok) : (ofPP px).retries = px.retries := rfl
theorem ofPP_id (px : PartProd.Tok) : (ofPP px).id = px.id := rfl
theorem ofPP_data {px : PartProd.Tok} (h : px.fin = false) : isData (ofPP px) = true := by
  simp [ofPP, mkTok, isData, h]

/-- the head of the arrival stream is a data token below the high watermark: it is parked -/
theorem VInv.park {v : View} (h : VInv v) (px : PartProd.Tok) (rest : List Tok) (hav : v.av = ofPP px :: rest)
    (hf : px.fin = false) (hl : px.retries < v.pp.hwm) : VInv (parkV v px rest) := by
  have hx := ofPP_data hf
  have hd0 : data v.av = ofPP px :: data rest := by rw [hav, data_cons_data _ hx]
  have hsub : (data rest).Sublist (data v.av) := by rw [hd0]; exact List.sublist_cons_self _ _
  refine ⟨fun k => ?_, ?_, ?_, h.ghw, h.gdesc, h.gdata, h.gbad, ?_, ?_, ?_, ?_, ?_, ?_, ?_⟩
  · rw [parkV_buf]
    have h0 := h.ord k
    split
    · rw [hd0] at h0
      simpa [parkV, List.append_assoc] using h0
    · exact h0.sublist ((List.Sublist.refl _).append hsub)
  · intro k k' a b ha hb hkk
    rcases parkV_mem ha with ha | ⟨rfl, rfl⟩ <;> rcases parkV_mem hb with hb | ⟨rfl, rfl⟩
    · exact h.bufx k k' a b ha hb hkk
    · have h0 := h.ord k
      rw [hd0, List.pairwise_append] at h0
      have := h0.2.2 a (List.mem_append_right _ ha) (ofPP px) (List.mem_cons_self ..)
      exact this.2 (by rw [(buf_typed h ha).1]; exact hkk)
    · have h0 := h.ord k'
      rw [hd0, List.pairwise_append] at h0
      have := h0.2.2 b (List.mem_append_right _ hb) (ofPP px) (List.mem_cons_self ..)
      exact this.1 (by rw [(buf_typed h hb).1, ofPP_retries]; omega)
    · omega
  · intro g hg x hx'
    refine h.low g hg x ?_
    rcases hx' with hx' | ⟨k, hx'⟩
    · exact Or.inl (hsub.subset hx')
    · rcases parkV_mem hx' with hx' | ⟨rfl, _⟩
      · exact Or.inr ⟨k, hx'⟩
      · exact Or.inl (by rw [hd0]; exact List.mem_cons_self ..)
  · show Desc ((data rest).filter _)
    have h0 := h.hi
    rw [hd0, List.filter_cons] at h0
    have : decide (v.pp.hwm < (ofPP px).retries) = false := by rw [ofPP_retries, decide_eq_false_iff_not]; omega
    rw [this] at h0
    exact h0
  · intro hg x hx'; exact h.cap hg x (hsub.subset hx')
  · have h0 := h.beh; rw [hav] at h0; exact (List.pairwise_cons.1 h0).2
  · intro f hf' hk; exact h.fin1 f (by rw [hav]; exact List.mem_cons_of_mem _ hf') hk
  · have h0 := h.fin2
    have : isFin (ofPP px) = false := by simp [ofPP, mkTok, isFin, hf]
    rw [hav] at h0; simpa [parkV, finLevels, List.filter_cons, this] using h0
  · intro x hx'; exact h.nosyn x (by rw [hav]; exact List.mem_cons_of_mem _ hx')
  · refine ⟨fun l hl' => ?_, fun l t ht => ?_⟩
    · have : ¬ l = px.retries := by have : v.pp.hwm ≤ l := hl'; omega
      simp only [parkV, PartProd.setBuf, this, ↓reduceIte]
      exact h.pinv.above l hl'
    · simp only [parkV, PartProd.setBuf] at ht
      split at ht
      · rename_i hk
        simp only [List.mem_append, List.mem_singleton] at ht
        rcases ht with ht | rfl
        · rw [← hk] at ht; exact h.pinv.typed l t ht
        · exact ⟨hk.symm, hf⟩
      · exact h.pinv.typed l t ht

/-- consume the fin chaser at the head of the arrival stream: its level stops expecting one -/
def finV (v : View) (l : Nat) (rest : List Tok) : View :=
  ⟨{ v.pp with expect := PartProd.setExp v.pp.expect l false }, v.gw, rest, v.good⟩

theorem VInv.finDrop {v : View} (h : VInv v) (f : Tok) (rest : List Tok) (hav : v.av = f :: rest)
    (hf : f.kind = .fin) : VInv (finV v f.retries rest) := by
  have hnd : isData f = false := by simp [isData, hf]
  have hd0 : data v.av = data rest := by rw [hav, data_cons_not _ hnd]
  have hfin : isFin f = true := by simp [isFin, hf]
  refine ⟨fun k => ?_, h.bufx, ?_, h.ghw, h.gdesc, h.gdata, h.gbad, ?_, ?_, ?_, ?_, ?_, ?_, ?_⟩
  · have := h.ord k; rw [hd0] at this; exact this
  · intro g hg x hx; refine h.low g hg x ?_; rw [hd0]; exact hx
  · have := h.hi; rw [hd0] at this; exact this
  · intro hg x hx; exact h.cap hg x (by rw [hd0]; exact hx)
  · have h0 := h.beh; rw [hav] at h0
    obtain ⟨hhead, htail⟩ := List.pairwise_cons.1 h0
    refine List.Pairwise.imp_of_mem ?_ htail
    intro a b _ hb hab ha hbk
    rcases hab ha hbk with h1 | h1 | ⟨k, hk1, hk2, hk3⟩
    · exact Or.inl h1
    · exact Or.inr (Or.inl h1)
    · by_cases hkf : k = f.retries
      · subst hkf
        rcases hhead b hb hf hbk with g1 | g1 | ⟨k2, g1, g2, g3⟩
        · exact Or.inl g1
        · omega
        · refine Or.inr (Or.inr ⟨k2, by omega, ?_, g3⟩)
          have : ¬ k2 = f.retries := by omega
          simp only [finV, PartProd.setExp, this, ↓reduceIte]; exact g2
      · refine Or.inr (Or.inr ⟨k, hk1, ?_, hk3⟩)
        simp only [finV, PartProd.setExp, hkf, ↓reduceIte]; exact hk2
  · intro g hg hk
    have h1 := h.fin1 g (by rw [hav]; exact List.mem_cons_of_mem _ hg) hk
    refine ⟨h1.1, h1.2.1, ?_⟩
    have h2 := h.fin2
    rw [hav] at h2
    simp only [finLevels, List.filter_cons, hfin, ↓reduceIte, List.map_cons, List.nodup_cons, List.mem_map,
      List.mem_filter] at h2
    have : ¬ g.retries = f.retries := fun e => h2.1 ⟨g, ⟨hg, by simp [isFin, hk]⟩, e⟩
    simp only [finV, PartProd.setExp, this, ↓reduceIte]
    exact h1.2.2
  · have h2 := h.fin2
    rw [hav] at h2
    simp only [finLevels, List.filter_cons, hfin, ↓reduceIte, List.map_cons, List.nodup_cons] at h2
    exact h2.2
  · intro x hx; exact h.nosyn x (by rw [hav]; exact List.mem_cons_of_mem _ hx)
  · exact ⟨h.pinv.above, h.pinv.typed⟩

theorem finDrop_Z {v : View} (h : VInv v) (f : Tok) (rest : List Tok) (hav : v.av = f :: rest)
    (hf : f.kind = .fin) : ∀ y ∈ data rest, y.retries = 0 ∨ f.retries < y.retries ∨
      ∃ k, k < f.retries ∧ v.pp.expect k = true ∧ y.retries ≤ k := by
  intro y hy
  have h0 := h.beh
  rw [hav] at h0
  exact (List.pairwise_cons.1 h0).1 y (mem_data.1 hy).1 hf (mem_data.1 hy).2

theorem pairwise_move_left {α : Type} {r : α → α → Prop} {A B C : List α} {x : α}
    (h : (A ++ B ++ x :: C).Pairwise r) (h1 : ∀ b ∈ B, r x b) : (A ++ x :: (B ++ C)).Pairwise r := by
  have hs : (A ++ (B ++ C)).Sublist (A ++ B ++ x :: C) := by
    rw [List.append_assoc]
    exact (List.Sublist.refl A).append ((List.Sublist.refl B).append (List.sublist_cons_self x C))
  refine pairwise_insert (h.sublist hs) ?_ ?_
  · intro a ha
    rw [List.pairwise_append] at h
    exact h.2.2 a (List.mem_append_left _ ha) x (List.mem_cons_self ..)
  · intro b hb
    rcases List.mem_append.1 hb with hb | hb
    · exact h1 b hb
    · rw [List.pairwise_append] at h
      exact (List.pairwise_cons.1 h.2.1).1 b hb

theorem kind_of_data {x : Tok} (h : isData x = true) : x.kind = .data := by simpa [isData] using h
theorem notFin_of_data {x : Tok} (h : isData x = true) : isFin x = false := by
  simp [isFin, kind_of_data h]

/-- facts about the head `x` of the arrival stream when it is a data token of the current level -/
theorem head_vs_buf {v : View} (h : VInv v) {x : Tok} {rest : List Tok} (hav : v.av = x :: rest)
    (hx : isData x = true) (hl : v.pp.hwm ≤ x.retries) {k : Nat} {b : Tok} (hb : b ∈ v.buf k) :
    x.id < b.id ∧ b.retries < x.retries := by
  have hk : k < v.pp.hwm := by
    apply Nat.lt_of_not_le; intro hle; rw [buf_above h hle] at hb; simp at hb
  have h0 := h.ord k
  rw [hav, data_cons_data _ hx, List.pairwise_append] at h0
  have := h0.2.2 b (List.mem_append_right _ hb) x (List.mem_cons_self ..)
  have hbk := (buf_typed h hb).1
  exact ⟨this.2 (by omega), by omega⟩

theorem head_vs_rest {v : View} (h : VInv v) {x : Tok} {rest : List Tok} (hav : v.av = x :: rest)
    (hx : isData x = true) {y : Tok} (hy : y ∈ data rest) : R x y := by
  have h0 := h.ord 0
  rw [hav, data_cons_data _ hx, List.pairwise_append] at h0
  exact (List.pairwise_cons.1 h0.2.1).1 y hy

/-- dropping a data head that is not above the high watermark keeps the stream clauses -/
theorem tail_clauses {v : View} (h : VInv v) {x : Tok} {rest : List Tok} (hav : v.av = x :: rest)
    (hx : isData x = true) (hl : x.retries ≤ v.pp.hwm) :
    Desc ((data rest).filter (fun t => decide (v.pp.hwm < t.retries))) ∧
    (v.good = true → ∀ y ∈ data rest, y.retries ≤ v.pp.hwm) ∧ Beh v.pp.expect rest ∧
    (∀ f ∈ rest, f.kind = .fin → 1 ≤ f.retries ∧ f.retries ≤ v.pp.hwm ∧ v.pp.expect f.retries = true) ∧
    (finLevels rest).Nodup ∧ (∀ y ∈ rest, y.kind ≠ .syn) := by
  have hd0 : data v.av = x :: data rest := by rw [hav, data_cons_data _ hx]
  refine ⟨?_, ?_, ?_, ?_, ?_, ?_⟩
  · have h0 := h.hi
    rw [hd0, List.filter_cons] at h0
    have : decide (v.pp.hwm < x.retries) = false := by rw [decide_eq_false_iff_not]; omega
    rw [this] at h0; exact h0
  · intro hg y hy; exact h.cap hg y (by rw [hd0]; exact List.mem_cons_of_mem _ hy)
  · have h0 := h.beh; rw [hav] at h0; exact (List.pairwise_cons.1 h0).2
  · intro f hf hk; exact h.fin1 f (by rw [hav]; exact List.mem_cons_of_mem _ hf) hk
  · have h0 := h.fin2
    rw [hav] at h0; simpa [finLevels, List.filter_cons, notFin_of_data hx] using h0
  · intro y hy; exact h.nosyn y (by rw [hav]; exact List.mem_cons_of_mem _ hy)

/-- the head of the arrival stream is a data token of the current level and the worker accepts it -/
theorem VInv.emitGood {v : View} (h : VInv v) (x : Tok) (rest : List Tok) (hav : v.av = x :: rest)
    (hx : isData x = true) (hl : x.retries = v.pp.hwm) (hg : v.good = true) :
    VInv ⟨v.pp, v.gw ++ [x], rest, v.good⟩ := by
  have hd0 : data v.av = x :: data rest := by rw [hav, data_cons_data _ hx]
  have hsub : (data rest).Sublist (data v.av) := by rw [hd0]; exact List.sublist_cons_self _ _
  have hxlow : ∀ y, (y ∈ data rest ∨ ∃ k, y ∈ v.buf k) → x.id < y.id := by
    intro y hy
    rcases hy with hy | ⟨k, hy⟩
    · exact (head_vs_rest h hav hx hy).1 (by rw [hl]; exact h.cap hg y (hsub.subset hy))
    · exact (head_vs_buf h hav hx (by omega) hy).1
  refine ⟨fun k => ?_, h.bufx, ?_, ?_, ?_, ?_, ?_, ?_, ?_, ?_, ?_, ?_, ?_, h.pinv⟩
  · show (v.gw ++ [x] ++ v.buf k ++ data rest).Pairwise R
    have h0 := h.ord k
    rw [hd0] at h0
    have := pairwise_move_left h0 (fun b hb =>
      (⟨fun _ => (head_vs_buf h hav hx (by omega) hb).1,
        fun hlt => by have := (head_vs_buf h hav hx (by omega) hb).2; omega⟩ : R x b))
    simpa [List.append_assoc] using this
  · intro g hg' y hy
    have hy' : y ∈ data rest ∨ ∃ k, y ∈ v.buf k := hy
    rcases List.mem_append.1 hg' with hg' | hg'
    · refine h.low g hg' y ?_
      rcases hy' with hy' | hy'
      · exact Or.inl (hsub.subset hy')
      · exact Or.inr hy'
    · rw [List.mem_singleton.1 hg']; exact hxlow y hy'
  · intro g hg'
    rcases List.mem_append.1 hg' with hg' | hg'
    · exact h.ghw g hg'
    · rw [List.mem_singleton.1 hg']; exact Nat.le_of_eq hl.symm
  · refine List.pairwise_append.2 ⟨h.gdesc, List.pairwise_singleton _ _, ?_⟩
    intro a ha b hb
    rw [List.mem_singleton.1 hb, hl]; exact h.ghw a ha
  · intro g hg'
    rcases List.mem_append.1 hg' with hg' | hg'
    · exact h.gdata g hg'
    · rw [List.mem_singleton.1 hg']; exact kind_of_data hx
  · intro hb; rw [hg] at hb; cases hb
  · exact (tail_clauses h hav hx (by omega)).1
  · exact (tail_clauses h hav hx (by omega)).2.1
  · exact (tail_clauses h hav hx (by omega)).2.2.1
  · exact (tail_clauses h hav hx (by omega)).2.2.2.1
  · exact (tail_clauses h hav hx (by omega)).2.2.2.2.1
  · exact (tail_clauses h hav hx (by omega)).2.2.2.2.2

theorem data_of_all {D : List Tok} (h : ∀ d ∈ D, isData d = true) : data D = D := by
  simp only [data, List.filter_eq_self]; exact h

theorem fins_of_all {D : List Tok} (h : ∀ d ∈ D, isData d = true) : D.filter isFin = [] := by
  simp only [List.filter_eq_nil_iff]; intro d hd; simp [notFin_of_data (h d hd)]

/-- tokens the worker is going to bounce are appended (with their next level) to the arrival stream -/
theorem VInv.appendBad {v : View} (h : VInv v) (D : List Tok)
    (hD : ∀ d ∈ D, isData d = true ∧ v.pp.hwm < d.retries) (hDesc : Desc D)
    (hcross : ∀ a ∈ data v.av, v.pp.hwm < a.retries → ∀ d ∈ D, d.retries ≤ a.retries)
    (hord : ∀ k, (v.buf k ++ (data v.av ++ D)).Pairwise R) :
    VInv ⟨v.pp, [], v.av ++ D, false⟩ := by
  have hdD : data D = D := data_of_all (fun d hd => (hD d hd).1)
  have hdd : data (v.av ++ D) = data v.av ++ D := by rw [data_append, hdD]
  refine ⟨fun k => ?_, h.bufx, ?_, ?_, List.Pairwise.nil, ?_, fun _ => rfl, ?_, ?_, ?_, ?_, ?_, ?_, h.pinv⟩
  · show ([] ++ v.buf k ++ data (v.av ++ D)).Pairwise R
    rw [hdd]; simpa using hord k
  · intro g hg; cases hg
  · intro g hg; cases hg
  · intro g hg; cases hg
  · show Desc ((data (v.av ++ D)).filter _)
    rw [hdd, List.filter_append]
    have : D.filter (fun t => decide (v.pp.hwm < t.retries)) = D := by
      simp only [List.filter_eq_self, decide_eq_true_eq]; exact fun d hd => (hD d hd).2
    rw [this]
    refine List.pairwise_append.2 ⟨h.hi, hDesc, ?_⟩
    intro a ha d hd
    simp only [List.mem_filter, decide_eq_true_eq] at ha
    exact hcross a ha.1 ha.2 d hd
  · intro hg; cases hg
  · refine List.pairwise_append.2 ⟨h.beh, ?_, ?_⟩
    · refine List.Pairwise.imp_of_mem ?_ (List.pairwise_of_forall (l := D) (fun _ _ => trivial) : D.Pairwise fun _ _ => True)
      intro a b ha _ _ hk
      have := kind_of_data (hD a ha).1; rw [this] at hk; cases hk
    · intro f hf d hd hk _
      right
      have := (h.fin1 f hf hk).2.1
      have := (hD d hd).2
      omega
  · intro f hf hk
    rcases List.mem_append.1 hf with hf | hf
    · exact h.fin1 f hf hk
    · have := kind_of_data (hD f hf).1; rw [this] at hk; cases hk
  · show (finLevels (v.av ++ D)).Nodup
    simp only [finLevels, List.filter_append, fins_of_all (fun d hd => (hD d hd).1), List.append_nil]
    exact h.fin2
  · intro x hx
    rcases List.mem_append.1 hx with hx | hx
    · exact h.nosyn x hx
    · rw [kind_of_data (hD x hx).1]; simp

theorem mem_bumpF {M : Nat} {l : List Tok} {d : Tok} (h : d ∈ bumpF M l) : ∃ t ∈ l, d = bump t := by
  simp only [bumpF, List.mem_map, List.mem_filter] at h
  obtain ⟨t, ⟨ht, _⟩, rfl⟩ := h
  exact ⟨t, ht, rfl⟩

theorem bump_data {t : Tok} (h : isData t = true) : isData (bump t) = true := by simpa [bump, isData] using h
theorem bump_retries (t : Tok) : (bump t).retries = t.retries + 1 := rfl
theorem bump_id (t : Tok) : (bump t).id = t.id := rfl

theorem bumpF_append (M : Nat) (a b : List Tok) : bumpF M (a ++ b) = bumpF M a ++ bumpF M b := by
  simp [bumpF]

theorem R_bump {a b : Tok} (h : R a b) : R (bump a) (bump b) := by
  simp only [R, bump_retries, bump_id] at *
  exact ⟨fun h1 => h.1 (by omega), fun h1 => h.2 (by omega)⟩

/-- bouncing keeps the relative order: `bumpF` of an `R`-sorted list is `R`-sorted -/
theorem pairwise_bumpF {M : Nat} {l : List Tok} (h : l.Pairwise R) : (bumpF M l).Pairwise R := by
  simp only [bumpF]
  exact List.Pairwise.map _ (fun _ _ => R_bump) (h.sublist List.filter_sublist)

end Lemmas.C02sys
