/-
  C02 composition, handover chain: the answer of the broker reaches a worker (`deliver`).
-/
import SaramaVerif.Lemmas.C02chStepR
import SaramaVerif.Lemmas.C02sysStepD2

set_option linter.unusedSimpArgs false

namespace Lemmas.C02sys
open Model Model.Pipeline

/-- the system after worker `w` (new state `b'`) has handled an answer: `X` was bounced -/
def deliverSw (M : Nat) (s : Sys) (w : Nat) (b' : BrokerProd.St) (X : List Tok) (sc : List (Int × Nat))
    (e : List Int) : Sys :=
  { afterWw s w ⟨(s.wk w).inq, b', none⟩ with ret := s.ret ++ bumpF M X, succ := sc, errs := e }

theorem wk_deliverSw_same (M : Nat) (s : Sys) (w : Nat) (b' : BrokerProd.St) (X : List Tok) (sc : List (Int × Nat))
    (e : List Int) : (deliverSw M s w b' X sc e).wk w = ⟨(s.wk w).inq, b', none⟩ := wk_afterWw_same s w _

theorem wk_deliverSw_other (M : Nat) (s : Sys) {w u : Nat} (b' : BrokerProd.St) (X : List Tok) (sc : List (Int × Nat))
    (e : List Int) (h : u ≠ w) : (deliverSw M s w b' X sc e).wk u = s.wk u := wk_afterWw_other s _ h

theorem deliverW_split {M : Nat} {s s' : Sys} {w : Nat} {still : Bool} (h : sysStep M s (.deliver w still) = some s') :
    ∃ vd base, (s.wk w).pend = some (vd, base) ∧
      (BrokerProd.step M (s.wk w).bp (.resp vd.toResp still)).2 ≠ [.disabled] ∧
      s' = bpActs (deliverSw M s w (BrokerProd.step M (s.wk w).bp (.resp vd.toResp still)).1 [] s.succ s.errs) base
        (BrokerProd.step M (s.wk w).bp (.resp vd.toResp still)).2 := by
  simp only [sysStep] at h
  cases hp : (s.wk w).pend with
  | none => simp [hp] at h
  | some p =>
    obtain ⟨vd, base⟩ := p
    simp only [hp] at h
    obtain ⟨hd, he⟩ := bpRunW_eq h
    refine ⟨vd, base, rfl, hd, ?_⟩
    rw [he]; simp [deliverSw, afterWw, bumpF_nil]

/-- what an answer does to a worker that holds nothing (an old worker, or the current one while it refuses the
    partition): at most `closing` is switched on -/
theorem empty_resp {M : Nat} (hM : 1 ≤ M) (b : BrokerProd.St) (hpi : Props.C02bp.PInv b) (hin : insideB b = [])
    (vd : Pipeline.Verdict) (still : Bool) (hd : (BrokerProd.step M b (.resp vd.toResp still)).2 ≠ [.disabled]) :
    (BrokerProd.step M b (.resp vd.toResp still)).1.cr = b.cr ∧
    insideB (BrokerProd.step M b (.resp vd.toResp still)).1 = [] ∧
    ((BrokerProd.step M b (.resp vd.toResp still)).1.closing = true ∨
      (BrokerProd.step M b (.resp vd.toResp still)).1.closing = b.closing) ∧
    ∀ (s : Sys) (off : Nat), bpActs s off (BrokerProd.step M b (.resp vd.toResp still)).2 = s := by
  obtain ⟨sent, hsets⟩ := resp_disabled M b vd.toResp still hpi.one hd
  have hin' : sent ++ (b.buffer ++ b.wait.toList) = [] := by
    simpa [insideB, Props.C02bp.inside, hsets] using hin
  have hsent : sent = [] := (List.append_eq_nil_iff.1 hin').1
  have hbw := (List.append_eq_nil_iff.1 hin').2
  have hbuf : b.buffer = [] := (List.append_eq_nil_iff.1 hbw).1
  have hwait : b.wait = none := by
    have := (List.append_eq_nil_iff.1 hbw).2
    cases hw : b.wait with
    | none => rfl
    | some w => rw [hw] at this; simp at this
  subst hsent
  obtain ⟨a1, _, a3, a4, a5⟩ := resp_empty_spec M hM b vd still hsets hbuf hwait
  exact ⟨a1, a3, a4, a5⟩

/-- an old worker is replaced by one with the same queue that still holds nothing and still refuses -/
theorem partsC_oldW {M : Nat} {s : Sys} {olds : List Nat} {v : View} (hr : RepC M s olds v) (hco : ConcC M s olds v)
    (w : Nat) (hw : w ∈ olds) (x : Worker) (hq : x.inq = (s.wk w).inq) (hi : insideB x.bp = [])
    (hn : BrokerProd.needsRetry (s.wk w).bp 0 = true → BrokerProd.needsRetry x.bp 0 = true)
    (hpinv : Props.C02bp.PInv x.bp) : RepC M (afterWw s w x) olds v ∧ ConcC M (afterWw s w x) olds v := by
  have hinq : ∀ u, ((afterWw s w x).wk u).inq = (s.wk u).inq := by
    intro u
    by_cases e : u = w
    · subst e; rw [wk_afterWw_same]; exact hq
    · rw [wk_afterWw_other s x e]
  have hnec : ∀ c, s.cur = some c → c ≠ w := fun c hcc e => hco.curNo c hcc (e ▸ hw)
  have hsame : ∀ u, u ≠ w → (afterWw s w x).wk u = s.wk u := fun u hu => wk_afterWw_other s x hu
  obtain ⟨gw, tc, g, hcur, hv⟩ := hr
  refine ⟨⟨gw, tc, g, curRep_other hcur rfl (fun c hcc => hsame c (hnec c hcc)),
    by rw [hv, lanes_sameInq hinq]; rfl⟩, ⟨?_, ?_⟩⟩
  · refine concE_workerStep hco.toConcE w (Or.inl hw) rfl rfl rfl rfl hsame
      (by rw [wk_afterWw_same]; exact hpinv) (by rw [hinq w]; exact fun y hy => hy)
      (by intro y hy; simp [insW, wk_afterWw_same, hi] at hy) (fun y hy => Or.inl hy)
  · refine ⟨?_, bands_sameInq hinq _ _ hco.bands, ?_, ?_, hco.capN⟩
    · intro u hu
      by_cases e : u = w
      · subst e
        obtain ⟨a, b⟩ := hco.oldok u hu
        refine ⟨by simp [insW, wk_afterWw_same, hi], ?_⟩
        rw [wk_afterWw_same, hq]
        rcases b with b | ⟨b1, b2⟩
        · exact Or.inl b
        · exact Or.inr ⟨hn b1, b2⟩
      · exact oldOK_other (hco.oldok u hu) (hsame u e)
    · intro c hc
      rw [hsame c (hnec c hc)]; exact hco.tcHi c hc
    · intro c hc
      rw [hsame c (hnec c hc)]; exact hco.noFin c hc

/-- assembly for an answer that bounces nothing and reports nothing -/
theorem goodC_deliver_noop {M : Nat} {s : Sys} {olds : List Nat} {v v' : View} (h : GoodC M s olds v) (w : Nat)
    (b' : BrokerProd.St)
    (hparts : RepC M (afterWw s w ⟨(s.wk w).inq, b', none⟩) olds v' ∧ ConcC M (afterWw s w ⟨(s.wk w).inq, b', none⟩) olds v')
    (hvi' : VInv v') (hlive : ∀ a, LiveId v' a → LiveId v a) :
    GoodC M (deliverSw M s w b' [] s.succ s.errs) olds v' := by
  have hp := partsC_congr (s' := deliverSw M s w b' [] s.succ s.errs) hparts.1 hparts.2 rfl rfl rfl rfl rfl rfl
    (by simp [deliverSw, afterWw, bumpF_nil])
  refine ⟨hp.1, hvi', hp.2, logC_same h.log rfl rfl rfl hlive ?_⟩
  intro u vd base hpp
  by_cases e : u = w
  · subst e; rw [wk_deliverSw_same] at hpp; cases hpp
  · rw [wk_deliverSw_other M s b' [] s.succ s.errs e] at hpp ⊢; exact ⟨hpp, rfl⟩

theorem goodC_deliver_old {M : Nat} (hM : 1 ≤ M) {s s' : Sys} {olds : List Nat} {v : View} {w : Nat} {still : Bool}
    (h : GoodC M s olds v) (hw : w ∈ olds) (hs : sysStep M s (.deliver w still) = some s') :
    GoodC M s' olds v := by
  obtain ⟨vd, base, _, hd, rfl⟩ := deliverW_split hs
  obtain ⟨hin, hq⟩ := h.conc.oldok w hw
  obtain ⟨a1, a3, a4, a5⟩ := empty_resp hM (s.wk w).bp (h.conc.pinv w) hin vd still hd
  have hpinv := (Props.C02bp.step_fifo M (s.wk w).bp (.resp vd.toResp still) (h.conc.pinv w)).2
  rw [a5]
  refine goodC_deliver_noop h w _ (partsC_oldW h.rep h.conc w hw _ rfl a3 ?_ hpinv) h.vinv (fun a ha => ha)
  intro hn
  rw [needsRetry_iff] at hn ⊢
  rw [a1]
  rcases a4 with e | e
  · rw [e]; rfl
  · rw [e]; exact hn

end Lemmas.C02sys
