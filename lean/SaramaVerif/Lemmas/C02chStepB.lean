/-
  C02 composition, handover chain: steps of a broker worker (the current one or an old one that drains) -
  frame lemmas and the token-arrival step `bpRecv`.
-/
import SaramaVerif.Lemmas.C02chStepA
import SaramaVerif.Lemmas.C02sysStepB

set_option linter.unusedSimpArgs false

namespace Lemmas.C02sys
open Model Model.Pipeline

/-- worker `w` replaced -/
def afterWw (s : Sys) (w : Nat) (x : Worker) : Sys := { s with wk := setW s.wk w x }

theorem wk_afterWw_same (s : Sys) (w : Nat) (x : Worker) : (afterWw s w x).wk w = x := by simp [afterWw, setW]
theorem wk_afterWw_other (s : Sys) {w w' : Nat} (x : Worker) (h : w' ≠ w) : (afterWw s w x).wk w' = s.wk w' := by
  simp [afterWw, setW, h]

/-- the system after worker `w` (new state `b'`) has bounced the head `t` of its queue -/
def bounceWw (M : Nat) (s : Sys) (w : Nat) (r : List Tok) (b' : BrokerProd.St) (t : Tok) : Sys :=
  { afterWw s w ⟨r, b', (s.wk w).pend⟩ with ret := s.ret ++ bumpF M [t], errs := s.errs ++ errOut M [t] }

theorem bpRunW_eq {M : Nat} {s s' : Sys} {w : Nat} {q : List Tok} {pend : Option (Pipeline.Verdict × Nat)}
    {off : Nat} {i : BrokerProd.In} (h : bpRun M s w q pend off i = some s') :
    (BrokerProd.step M (s.wk w).bp i).2 ≠ [.disabled] ∧
    s' = bpActs (afterWw s w ⟨q, (BrokerProd.step M (s.wk w).bp i).1, pend⟩) off
      (BrokerProd.step M (s.wk w).bp i).2 := by
  simp only [bpRun] at h
  split at h
  · cases h
  · rename_i hd
    exact ⟨hd, by simpa [afterWw] using h.symm⟩

theorem bpRecvW_split {M : Nat} {s s' : Sys} {w : Nat} {ov : Bool} (h : sysStep M s (.bpRecv w ov) = some s') :
    ∃ t r, (s.wk w).inq = t :: r ∧ (s.wk w).bp.wait = none ∧
      s' = bpActs (afterWw s w ⟨r, (BrokerProd.step M (s.wk w).bp (.recv t ov)).1, (s.wk w).pend⟩) 0
        (BrokerProd.step M (s.wk w).bp (.recv t ov)).2 := by
  simp only [sysStep] at h
  cases hq : (s.wk w).inq with
  | nil => simp [hq] at h
  | cons t r =>
    simp only [hq] at h
    obtain ⟨hd, he⟩ := bpRunW_eq h
    exact ⟨t, r, rfl, recv_disabled M _ t ov hd, he⟩

/-- the simple side conditions survive a step that touches one used worker and appends bounced tokens to retries -/
theorem concE_workerStep {M : Nat} {s s' : Sys} {olds : List Nat} (hc : ConcE M s olds) (w : Nat)
    (hused : w ∈ olds ∨ s.cur = some w)
    (e_pq : s'.pq = s.pq) (e_dq : s'.dq = s.dq) (e_cur : s'.cur = s.cur) (e_crash : s'.crash = s.crash)
    (hother : ∀ w', w' ≠ w → s'.wk w' = s.wk w')
    (hpinv : Props.C02bp.PInv (s'.wk w).bp)
    (hq : ∀ x ∈ (s'.wk w).inq, x ∈ (s.wk w).inq)
    (hins : ∀ x ∈ insW s' w, x ∈ insW s w ∨ x ∈ (s.wk w).inq)
    (hret : ∀ x ∈ s'.ret, x ∈ s.ret ∨ ∃ y, (y ∈ (s.wk w).inq ∨ y ∈ insW s w) ∧ y.retries < M ∧ x = bump y) :
    ConcE M s' olds := by
  refine ⟨?_, ?_, ?_, ?_, ?_, ?_, hc.nodup, by rw [e_cur]; exact hc.curNo, ?_, by rw [e_crash]; exact hc.crash⟩
  · intro w'
    by_cases h : w' = w
    · rw [h]; exact hpinv
    · rw [hother w' h]; exact hc.pinv w'
  · intro x hx
    rw [e_pq, e_dq] at hx
    simp only [List.mem_append] at hx
    rcases hx with (hx | hx) | hx
    · exact hc.p0q x (by simp [hx])
    · exact hc.p0q x (by simp [hx])
    · rcases hret x hx with hx | ⟨y, hy, _, rfl⟩
      · exact hc.p0q x (by simp [hx])
      · show y.part = 0
        rcases hy with hy | hy
        · exact hc.p0w w y (List.mem_append_left _ hy)
        · exact hc.p0w w y (List.mem_append_right _ hy)
  · intro w'
    by_cases h : w' = w
    · subst h
      intro x hx
      rcases List.mem_append.1 hx with hx | hx
      · exact hc.p0w w' x (List.mem_append_left _ (hq x hx))
      · rcases hins x hx with hx | hx
        · exact hc.p0w w' x (List.mem_append_right _ hx)
        · exact hc.p0w w' x (List.mem_append_left _ hx)
    · have := hc.p0w w'; simpa [insW, hother w' h] using this
  · intro x hx
    rw [e_pq, e_dq] at hx
    simp only [List.mem_append] at hx
    rcases hx with (hx | hx) | hx
    · exact hc.lvl x (by simp [hx])
    · exact hc.lvl x (by simp [hx])
    · rcases hret x hx with hx | ⟨y, _, hy, rfl⟩
      · exact hc.lvl x (by simp [hx])
      · rw [bump_retries]; omega
  · intro w'
    by_cases h : w' = w
    · subst h; intro x hx hk; exact hc.finq w' x (hq x hx) hk
    · rw [hother w' h]; exact hc.finq w'
  · intro x hx
    rcases hret x hx with hx | ⟨y, _, _, rfl⟩
    · exact hc.ret1 x hx
    · simp [bump_retries]
  · intro w' h1 h2
    have hne : w' ≠ w := by
      intro e; subst e
      rcases hused with h | h
      · exact h1 h
      · rw [e_cur] at h2; exact h2 h
    rw [hother w' hne]; exact hc.fresh w' h1 (by rw [← e_cur]; exact h2)

/-- the log clauses survive a step that changes neither the log nor the successes nor pending answers -/
theorem logC_same {s s' : Sys} {v v' : View} (hl : LogInvC s v) (e_next : s'.next = s.next) (e_log : s'.log = s.log)
    (e_succ : s'.succ = s.succ) (hlive : ∀ a, LiveId v' a → LiveId v a)
    (hpend : ∀ w vd base, (s'.wk w).pend = some (vd, base) →
      (s.wk w).pend = some (vd, base) ∧ (s'.wk w).bp.sets = (s.wk w).bp.sets) : LogInvC s' v' := by
  refine ⟨by rw [e_log]; exact fun b hb a ha => hl.K b hb a (hlive a ha), by rw [e_log]; exact hl.J,
    by rw [e_succ]; exact fun p hp a ha => hl.S1 p hp a (hlive a ha), by rw [e_succ]; exact hl.S3,
    by rw [e_succ, e_log]; exact hl.S5, by rw [e_succ, e_next]; exact hl.S6,
    by rw [e_next]; exact fun a ha => hl.idlt a (hlive a ha), by rw [e_log, e_next]; exact hl.Llt, ?_⟩
  intro w vd base hp
  obtain ⟨h1, h2⟩ := hpend w vd base hp
  obtain ⟨sent, a, b⟩ := hl.pend w vd base h1
  exact ⟨sent, by rw [h2]; exact a, by rw [e_succ, e_log]; exact b⟩

theorem curRep_other {M : Nat} {s s' : Sys} {gw tc : List Tok} {g : Bool} (h : CurRep M s gw tc g)
    (hc : s'.cur = s.cur) (hw : ∀ c, s.cur = some c → s'.wk c = s.wk c) : CurRep M s' gw tc g := by
  cases h with
  | none h1 => exact CurRep.none (by rw [hc]; exact h1)
  | closed c h1 h2 h3 h4 =>
    have e := hw c h1
    have := CurRep.closed (M := M) (s := s') c (by rw [hc]; exact h1) (by rw [e]; exact h2) (by simpa [insW, e] using h3)
      (by rw [e]; exact h4)
    simpa [e] using this
  | normal c mk G h1 h2 h3 h4 h5 h6 =>
    have e := hw c h1
    have := CurRep.normal (M := M) (s := s') c mk G (by rw [hc]; exact h1) (by rw [e]; exact h2) (by rw [e]; exact h3)
      (by rw [e]; exact h4) h5 (by rw [e]; exact h6)
    simpa [insW, e] using this
  | failed c h1 h2 h3 h4 h5 =>
    have e := hw c h1
    have := CurRep.failed (M := M) (s := s') c (by rw [hc]; exact h1) (by rw [e]; exact h2) (by rw [e]; exact h3)
      (by simpa [insW, e] using h4) (by rw [e]; exact h5)
    simpa [e] using this

theorem lanes_other {M : Nat} {s s' : Sys} : ∀ (l : List Nat), (∀ u ∈ l, s'.wk u = s.wk u) →
    lanes M s' l = lanes M s l := by
  intro l
  induction l with
  | nil => intro _; rfl
  | cons u r ih =>
    intro h
    rw [lanes_cons, lanes_cons, ih (fun x hx => h x (List.mem_cons_of_mem _ hx))]
    simp [lane, h u (List.mem_cons_self ..)]

theorem snoc_inj {D D' : List Tok} {k k' : Nat} (h : D ++ [finTok k] = D' ++ [finTok k']) : D = D' ∧ k = k' := by
  have := List.append_inj' h rfl
  refine ⟨this.1, ?_⟩
  have h2 := this.2
  simp [finTok] at h2
  exact h2

/-- the bands survive when one worker's lane loses its head (or is drained completely) -/
theorem bands_shrink {M : Nat} {s s' : Sys} (w : Nat) (hsame : ∀ u, u ≠ w → s'.wk u = s.wk u)
    (hw : (s'.wk w).inq = [] ∨ ∃ d D' k, (s.wk w).inq = d :: D' ++ [finTok k] ∧ (s'.wk w).inq = D' ++ [finTok k]) :
    ∀ (l : List Nat) (prev : Nat), Bands M s prev l → Bands M s' prev l := by
  intro l
  induction l with
  | nil => intro _ _; trivial
  | cons u r ih =>
    intro prev h
    by_cases hu : u = w
    · subst hu
      rcases h with ⟨h1, h2⟩ | ⟨D, k, h1, h2, h3, h4, h5, h6⟩
      · rcases hw with hw | ⟨d, D', k, e1, _⟩
        · exact Or.inl ⟨hw, ih prev h2⟩
        · rw [h1] at e1; simp at e1
      · rcases hw with hw | ⟨d, D', k', e1, e2⟩
        · exact Or.inl ⟨hw, ih prev (Bands.mono (by omega) h6)⟩
        · rw [h1] at e1
          have e1' : D ++ [finTok k] = (d :: D') ++ [finTok k'] := by simpa using e1
          obtain ⟨rfl, rfl⟩ := snoc_inj e1'
          exact Or.inr ⟨D', k, e2, fun x hx => h2 x (List.mem_cons_of_mem _ hx), h3, h4,
            fun x hx hm => h5 x (List.mem_cons_of_mem _ hx) hm, ih _ h6⟩
    · rcases h with ⟨h1, h2⟩ | ⟨D, k, h1, h2, h3, h4, h5, h6⟩
      · exact Or.inl ⟨by rw [hsame u hu]; exact h1, ih prev h2⟩
      · exact Or.inr ⟨D, k, by rw [hsame u hu]; exact h1, h2, h3, h4, h5, ih _ h6⟩

theorem repC_av {M : Nat} {s : Sys} {olds : List Nat} {v : View} (h : RepC M s olds v) :
    ∃ tc, v.av = s.pq ++ s.dq ++ s.ret ++ (lanes M s olds ++ tc) ∧ v.pp = s.pp := by
  obtain ⟨gw, tc, g, _, hv⟩ := h
  exact ⟨tc, by rw [hv], by rw [hv]⟩

/-- the lanes in front of an old worker `w`: their tokens are at most at the high watermark and each is covered
    by an expected chaser whose level is at most the lower bound `p` of `w`'s band -/
theorem lanes_pre_facts {M : Nat} {s : Sys} {olds : List Nat} {v : View} (h : GoodC M s olds v)
    (pre : List Nat) (w : Nat) (post : List Nat) (ho : olds = pre ++ w :: post) :
    ∃ p, Bands M s p (w :: post) ∧ ∀ y ∈ lanes M s pre, y.retries ≤ v.pp.hwm ∧
      ∃ hj, y.retries ≤ hj ∧ hj ≤ p ∧ hj ≤ v.pp.hwm ∧ v.pp.expect hj = true := by
  have hb := h.conc.bands
  rw [ho] at hb
  obtain ⟨p, _, hbp, hy⟩ := bands_pre pre 0 w post hb
  obtain ⟨tc, hav, _⟩ := repC_av h.rep
  refine ⟨p, hbp, fun y hyy => ?_⟩
  obtain ⟨hj, a, b, c⟩ := hy y hyy
  have hmem : finTok hj ∈ v.av := by
    rw [hav, ho, lanes_append]
    simp only [List.mem_append]
    exact Or.inr (Or.inl (Or.inl a))
  have := h.vinv.fin1 (finTok hj) hmem rfl
  have e : (finTok hj).retries = hj := rfl
  rw [e] at this
  exact ⟨by omega, hj, b, c, this.2.1, this.2.2⟩

end Lemmas.C02sys
