import SaramaVerif.Lemmas.C14Inv
/-
  C14 helper development, part 2: invariants about the request log of the wire, the correlation ids and the
  promise log (what `Broker.send` does under the connection lock).
-/
namespace Lemmas.C14
open Model.BrokerConn

structure InvA (s : State) : Prop where
  wire_enq : (s.wire.filter (·.2)).map (·.1) = s.enq ++ holderWritten s
  cid_next : s.nextCid = s.cid0 + s.wire.length
  cid_lt : ∀ w ∈ s.wire, w.1.cid < s.nextCid
  cid_sorted : s.wire.Pairwise (fun a b => a.1.cid < b.1.cid)
  cid_exact : s.wire.map (·.1.cid) = (List.range s.wire.length).map (fun (i : Nat) => s.cid0 + (i : Int))

theorem invA_init (cfg : Cfg) (c0 : Int) : InvA (init cfg c0) := by
  refine ⟨by simp [init, holderWritten], by simp [init], by simp [init], by simp [init], by simp [init]⟩

theorem hw_of_free {s : State} (h : s.holder = .free) : holderWritten s = [] := by
  simp [holderWritten, h]

theorem invA_step {s s' : State} {e : Event} (h : step s e = .ok s') (I : InvA s) : InvA s' := by
  cases e <;> simp only [step] at h
  case sendBegin c hv ex =>
    obtain ⟨hf, ⟨_, rfl⟩ | ⟨_, rfl⟩⟩ := sendBegin_inv h
    · exact ⟨I.1, I.2, I.3, I.4, I.5⟩
    · refine ⟨?_, I.2, I.3, I.4, I.5⟩
      have := I.1; rw [hw_of_free hf] at this
      simpa [holderWritten] using this
  case write c =>
    obtain ⟨hv, ex, hh, ⟨_, _, rfl⟩ | ⟨_, rfl⟩⟩ := write_inv h
    all_goals
      have h1 := I.1
      have hw : holderWritten s = [] := by simp [holderWritten, hh]
      rw [hw] at h1
      refine ⟨?_, ?_, ?_, ?_, ?_⟩
      · simp [holderWritten, List.filter_append, h1]
      · simp [I.2]; omega
      · intro w hw'
        simp only [List.mem_append, List.mem_singleton] at hw'
        rcases hw' with hw' | rfl
        · have := I.3 w hw'; simp only; omega
        · simp only; omega
      · simp only [List.pairwise_append, I.4, true_and]
        refine ⟨by simp, ?_⟩
        intro a ha b hb
        simp only [List.mem_singleton] at hb
        subst hb
        exact I.3 a ha
      · simp only [List.map_append, List.length_append, List.length_singleton, List.range_succ, I.5, I.2]
        simp
  case writeFail c =>
    obtain ⟨hv, ex, hh, rfl⟩ := writeFail_inv h
    refine ⟨?_, I.2, I.3, I.4, I.5⟩
    have := I.1
    simpa [holderWritten, hh] using this
  case enqueue c =>
    obtain ⟨p, hh, _, _, rfl⟩ := enqueue_inv h
    refine ⟨?_, I.2, I.3, I.4, I.5⟩
    have := I.1
    simpa [holderWritten, hh] using this
  case recvDeq =>
    obtain ⟨_, _, p, rest, _, ⟨e, _, rfl⟩ | ⟨_, rfl⟩⟩ := recvDeq_inv h <;> exact ⟨I.1, I.2, I.3, I.4, I.5⟩
  case recvHeader =>
    obtain ⟨p, _, _, ⟨e, _, rfl⟩ | ⟨len, _, rfl⟩⟩ := recvHeader_inv h <;> exact ⟨I.1, I.2, I.3, I.4, I.5⟩
  case recvBody =>
    obtain ⟨p, hdr, need, _, _, rfl⟩ := recvBody_inv h
    exact ⟨I.1, I.2, I.3, I.4, I.5⟩
  case recvEOF =>
    obtain ⟨p, ph, _, _, _, rfl⟩ := recvEOF_inv h
    exact ⟨I.1, I.2, I.3, I.4, I.5⟩
  case recvTimeout =>
    obtain ⟨p, ph, _, _, rfl⟩ := recvTimeout_inv h
    exact ⟨I.1, I.2, I.3, I.4, I.5⟩
  case srvBytes bs =>
    obtain ⟨_, rfl⟩ := srvBytes_inv h
    exact ⟨I.1, I.2, I.3, I.4, I.5⟩
  case srvClose =>
    obtain ⟨_, rfl⟩ := srvClose_inv h
    exact ⟨I.1, I.2, I.3, I.4, I.5⟩
  case closeBegin =>
    obtain ⟨hf, _, rfl⟩ := closeBegin_inv h
    refine ⟨?_, I.2, I.3, I.4, I.5⟩
    have := I.1; rw [hw_of_free hf] at this
    simpa [holderWritten] using this
  case recvExit =>
    obtain ⟨_, _, _, _, rfl⟩ := recvExit_inv h
    exact ⟨I.1, I.2, I.3, I.4, I.5⟩
  case closeEnd =>
    obtain ⟨hc, _, rfl⟩ := closeEnd_inv h
    refine ⟨?_, I.2, I.3, I.4, I.5⟩
    have := I.1
    simpa [holderWritten, hc] using this

end Lemmas.C14
