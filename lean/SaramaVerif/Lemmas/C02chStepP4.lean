/-
  C02 composition, handover chain: the retry-level change - the partition producer sends the chaser to the current
  worker and leaves it (it becomes the newest OLD worker), then selects a fresh worker for the token.
-/
import SaramaVerif.Lemmas.C02chStepP3

set_option linter.unusedSimpArgs false

namespace Lemmas.C02sys
open Model Model.Pipeline

/-- newHighWatermark: chaser `fin k` to the current worker `c`, which is then dropped -/
def leaveS (s : Sys) (c k : Nat) : Sys := { pushSw s c (finTok k) with cur := none }

theorem wk_leaveS_same (s : Sys) (c k : Nat) :
    (leaveS s c k).wk c = ⟨(s.wk c).inq ++ [finTok k], (s.wk c).bp, (s.wk c).pend⟩ := wk_pushSw_same s c _

theorem wk_leaveS_other (s : Sys) {c u : Nat} (k : Nat) (h : u ≠ c) : (leaveS s c k).wk u = s.wk u :=
  wk_pushSw_other s _ h

/-- the bands with a new last lane whose band starts at `H`, above every chaser of the older lanes -/
theorem bands_snoc {M : Nat} {s s' : Sys} (c : Nat) (H : Nat) (D : List Tok) (k : Nat)
    (hq : (s'.wk c).inq = D ++ [finTok k]) (hD : AllData D) (hk : k < M) (hHk : H ≤ k)
    (hb : ∀ d ∈ D, d.retries < M → H ≤ d.retries ∧ d.retries ≤ k) :
    ∀ (olds : List Nat) (prev : Nat), c ∉ olds → (∀ u ∈ olds, s'.wk u = s.wk u) → prev ≤ H →
      (∀ hj, finTok hj ∈ lanes M s olds → hj ≤ H) → Bands M s prev olds → Bands M s' prev (olds ++ [c]) := by
  intro olds
  induction olds with
  | nil =>
    intro prev _ _ hp _ _
    exact Or.inr ⟨D, k, hq, hD, hk, by omega, fun d hd hm => ⟨by have := (hb d hd hm).1; omega, (hb d hd hm).2⟩, trivial⟩
  | cons u r ih =>
    intro prev hc hs hp hfin hbd
    have hu : s'.wk u = s.wk u := hs u (List.mem_cons_self ..)
    have hcr : c ∉ r := fun h => hc (List.mem_cons_of_mem _ h)
    have hsr : ∀ x ∈ r, s'.wk x = s.wk x := fun x hx => hs x (List.mem_cons_of_mem _ hx)
    rcases hbd with ⟨h1, h2⟩ | ⟨D0, k0, h1, h2, h3, h4, h5, h6⟩
    · refine Or.inl ⟨by rw [hu]; exact h1, ih prev hcr hsr hp ?_ h2⟩
      intro hj hm; apply hfin hj; rw [lanes_cons]; exact List.mem_append_right _ hm
    · have hk0 : k0 + 1 ≤ H := by
        apply hfin (k0 + 1)
        rw [lanes_cons, lane_of_shape h1 h2 h3]; simp
      refine Or.inr ⟨D0, k0, by rw [hu]; exact h1, h2, h3, h4, h5, ih (k0 + 1) hcr hsr hk0 ?_ h6⟩
      intro hj hm; apply hfin hj; rw [lanes_cons]; exact List.mem_append_right _ hm

theorem concP_leave {M : Nat} {s : Sys} {olds : List Nat} (hp : ConcP M s olds) (t : Tok) (r : List Tok)
    (hq : s.pq = t :: r) (c : Nat) (hc : s.cur = some c) (hn : BrokerProd.needsRetry (s.wk c).bp 0 = true)
    (hins : insW s c = []) (hall : AllData (s.wk c).inq) (pp' : PartProd.St) (k : Nat) (hk : k < M)
    (hHk : s.pp.hwm ≤ k) (hub : ∀ d ∈ (s.wk c).inq, d.retries < M → d.retries ≤ k)
    (hfins : ∀ hj, finTok hj ∈ lanes M s olds → hj ≤ s.pp.hwm) :
    ConcP M (leaveS (popS s r pp') c k) (olds ++ [c]) := by
  have hww : (leaveS (popS s r pp') c k).wk c = ⟨(s.wk c).inq ++ [finTok k], (s.wk c).bp, (s.wk c).pend⟩ :=
    wk_leaveS_same (popS s r pp') c k
  have hother : ∀ u, u ≠ c → (leaveS (popS s r pp') c k).wk u = s.wk u := fun u hu => wk_leaveS_other (popS s r pp') k hu
  have hcn : c ∉ olds := hp.curNo c hc
  have holds : ∀ u ∈ olds, (leaveS (popS s r pp') c k).wk u = s.wk u := fun u hu => hother u (fun e => hcn (e ▸ hu))
  refine ⟨⟨?_, ?_, ?_, ?_, ?_, hp.ret1, ?_, ?_, ?_, hp.crash⟩, ?_, ?_, ?_, ?_⟩
  · intro u
    by_cases e : u = c
    · subst e; rw [hww]; exact hp.pinv u
    · rw [hother u e]; exact hp.pinv u
  · intro x hx; apply hp.p0q x
    simp only [leaveS, pushSw, popS, List.mem_append] at hx
    simp only [hq, List.mem_append, List.mem_cons]; grind
  · intro u
    by_cases e : u = c
    · subst e
      intro y hy
      have : insW (leaveS (popS s r pp') u k) u = insW s u := by simp [insW, hww]
      rw [hww, this] at hy
      simp only [List.mem_append, List.mem_singleton] at hy
      rcases hy with (hy | hy) | hy
      · exact hp.p0w u y (List.mem_append_left _ hy)
      · rw [hy]; rfl
      · exact hp.p0w u y (List.mem_append_right _ hy)
    · have := hp.p0w u; simpa [insW, hother u e] using this
  · intro x hx; apply hp.lvl x
    simp only [leaveS, pushSw, popS, List.mem_append] at hx
    simp only [hq, List.mem_append, List.mem_cons]; grind
  · intro u
    by_cases e : u = c
    · subst e
      intro y hy hk'
      rw [hww] at hy
      rcases List.mem_append.1 hy with hy | hy
      · exact hp.finq u y hy hk'
      · rw [List.mem_singleton.1 hy]; exact hk
    · rw [hother u e]; exact hp.finq u
  · exact List.nodup_append.2 ⟨hp.nodup, by simp, fun a ha b hb => by
      rw [List.mem_singleton.1 hb]; exact fun e => hcn (e ▸ ha)⟩
  · intro c' hc'; simp [leaveS] at hc'
  · intro u h1 _
    have hu1 : u ∉ olds := fun h => h1 (List.mem_append_left _ h)
    have hu2 : u ≠ c := fun e => h1 (by rw [e]; simp)
    rw [hother u hu2]; exact hp.fresh u hu1 (by rw [hc]; intro e; cases e; exact hu2 rfl)
  · intro u hu
    rcases List.mem_append.1 hu with hu | hu
    · exact oldOK_other (hp.oldok u hu) (holds u hu)
    · rw [List.mem_singleton.1 hu]
      refine ⟨by simp [insW, hww]; exact hins, Or.inr ⟨by rw [hww]; exact hn, (s.wk c).inq, k, by rw [hww], hall, hk⟩⟩
  · refine bands_snoc c s.pp.hwm (s.wk c).inq k (by rw [hww]) hall hk hHk ?_ olds 0 hcn holds (Nat.zero_le _) hfins hp.bands
    intro d hd hm
    exact ⟨hp.tcHi c hc hn d hd (hall d hd), hub d hd hm⟩
  · intro c' hc'; simp [leaveS] at hc'
  · intro c' hc'; simp [leaveS] at hc'

theorem ppC_case_rise {M : Nat} {s : Sys} {olds : List Nat} {v : View} (h : GoodC M s olds v) (t : Tok) (r : List Tok)
    (hq : s.pq = t :: r) (lks : List (Option Nat))
    (hl : ∀ w, some w ∈ lks → w ∉ olds ∧ s.cur ≠ some w) (hk : t.kind = .data) (hgt : t.retries > s.pp.hwm) :
    ∃ olds' v', GoodC M (ppActs (popS s r (PartProd.recv s.pp (toPP t)).1) lks (PartProd.recv s.pp (toPP t)).2) olds' v' ∧
      ∀ w ∈ olds', w ∈ olds ∨ s.cur = some w := by
  obtain ⟨hp0, hns, hM, _, hvp, gw, tc, g, hcur, hv, hav⟩ := head_factsC h t r hq
  have hd : isData t = true := by simp [isData, hk]
  have hrec : PartProd.recv s.pp (toPP t) = (risePP s.pp t.retries,
      [.finSend (t.retries - 1), .emit t.id t.retries false]) := by
    rw [recv_rise s.pp (toPP t) hgt]; simp [risePP, toPP, isFin_data hk]
  rw [hrec]
  have hgt' : v.pp.hwm < t.retries := by rw [hvp]; exact hgt
  have hbad := rise_bad h.vinv hav hd hgt'
  have hcap := rise_cap h.vinv hav hd hgt'
  -- the current worker: it exists and refuses the partition
  have hcc : ∃ c, s.cur = some c := by
    rcases Option.eq_none_or_eq_some s.cur with hc | hc
    · have := h.conc.capN hc t (by rw [hav, data_cons_data _ hd]; exact List.mem_cons_self ..)
      omega
    · exact hc
  obtain ⟨c, hc⟩ := hcc
  have hgd : v.good = g := by rw [hv]
  have hphase : BrokerProd.needsRetry (s.wk c).bp 0 = true ∧ insW s c = [] ∧ AllData (s.wk c).inq ∧
      gw = [] ∧ tc = bumpF M (s.wk c).inq := by
    cases hcur with
    | none h1 => rw [hc] at h1; cases h1
    | normal c' mk G h1 => rw [hgd] at hbad; cases hbad
    | closed c' h1 h2 h3 h4 =>
      rw [hc] at h1; cases h1
      exact ⟨by rw [needsRetry_iff, h2]; rfl, h3, h4, rfl, rfl⟩
    | failed c' h1 h2 h3 h4 h5 =>
      rw [hc] at h1; cases h1
      exact ⟨by rw [needsRetry_iff, h2, h3]; rfl, h4, h5, rfl, rfl⟩
  obtain ⟨hn, hins, hall, rfl, rfl⟩ := hphase
  have hl1 : t.retries - 1 + 1 = t.retries := by omega
  have hact : ppActs (popS s r (risePP s.pp t.retries)) lks
      [.finSend (t.retries - 1), .emit t.id t.retries false] =
      ppActs (leaveS (popS s r (risePP s.pp t.retries)) c (t.retries - 1)) lks ([t].map emitA) := by
    simp [ppActs, ppAct, popS, hc, leaveS, pushSw, emitA]
  rw [hact]
  have hle := lanes_le_hwm h
  have hp1 := concP_leave (concP_of_C h.conc hvp) t r hq c hc hn hins hall (risePP s.pp t.retries) (t.retries - 1)
    (by omega) (by omega)
    (by
      intro d hd' hm
      have : bump d ∈ data v.av := by
        rw [hv, mem_data]
        refine ⟨?_, by simp [bump, hall d hd']⟩
        simp only [List.mem_append]
        refine Or.inr (Or.inr ?_)
        simp only [bumpF, List.mem_map, List.mem_filter, decide_eq_true_eq]
        exact ⟨d, ⟨hd', hm⟩, rfl⟩
      have := hcap _ this
      rw [bump_retries] at this; omega)
    (fun hj hm => by have := hle _ hm; rw [hvp] at this; exact this)
  have hv1 := h.vinv.rise t _ hav hd hgt' true
  have hav1 : (riseV v t.retries true).av =
      t :: ((r ++ s.dq ++ s.ret ++ (lanes M s olds ++ bumpF M (s.wk c).inq)) ++ [finTok t.retries]) := by
    simp [riseV, hav]
  have hww := wk_leaveS_same (popS s r (risePP s.pp t.retries)) c (t.retries - 1)
  have hcn : c ∉ olds := h.conc.curNo c hc
  have hlanes : lanes M (leaveS (popS s r (risePP s.pp t.retries)) c (t.retries - 1)) (olds ++ [c]) =
      lanes M s olds ++ (bumpF M (s.wk c).inq ++ [finTok t.retries]) := by
    rw [lanes_append, lanes_other olds (fun u hu => wk_leaveS_other (popS s r (risePP s.pp t.retries)) (t.retries - 1)
      (fun e : u = c => hcn (e ▸ hu)))]
    simp only [lanes, List.flatMap_cons, List.flatMap_nil, List.append_nil]
    rw [lane_of_shape (by rw [hww]; rfl) hall (by omega), hl1]
    rfl
  have hgw : v.gw = [] := by rw [hv]
  suffices hmain : ∃ v', GoodC M (ppActs (leaveS (popS s r (risePP s.pp t.retries)) c (t.retries - 1)) lks
      ([t].map emitA)) (olds ++ [c]) v' by
    obtain ⟨v', hg⟩ := hmain
    refine ⟨olds ++ [c], v', hg, fun w hw => ?_⟩
    rcases List.mem_append.1 hw with hw | hw
    · exact Or.inl hw
    · rw [List.mem_singleton.1 hw]; exact Or.inr hc
  refine goodC_pp_emits (s1 := leaveS (popS s r (risePP s.pp t.retries)) c (t.retries - 1)) (olds1 := olds ++ [c]) h
    (CurRep.none rfl) hp1 rfl rfl rfl ?_ ?_ [t] (fun x hx => by rw [List.mem_singleton.1 hx]; exact ⟨hk, hp0⟩)
    (fun x hx => by rw [List.mem_singleton.1 hx]; exact Nat.le_refl _) lks ?_ ?_ ?_
  · intro u
    by_cases e : u = c
    · subst e; rw [hww]; rfl
    · rw [wk_leaveS_other _ _ e]; rfl
  · intro u
    by_cases e : u = c
    · subst e; rw [hww]; rfl
    · rw [wk_leaveS_other _ _ e]; rfl
  · intro w hw
    obtain ⟨a, b⟩ := hl w hw
    intro hm
    rcases List.mem_append.1 hm with hm | hm
    · exact a hm
    · rw [List.mem_singleton.1 hm] at b; exact b hc
  · intro kept hkept
    have e : (⟨(leaveS (popS s r (risePP s.pp t.retries)) c (t.retries - 1)).pp, [],
        (leaveS (popS s r (risePP s.pp t.retries)) c (t.retries - 1)).pq ++
        (leaveS (popS s r (risePP s.pp t.retries)) c (t.retries - 1)).dq ++
        (leaveS (popS s r (risePP s.pp t.retries)) c (t.retries - 1)).ret ++
        (lanes M (leaveS (popS s r (risePP s.pp t.retries)) c (t.retries - 1)) (olds ++ [c]) ++ []), true⟩ : View) =
        ⟨(riseV v t.retries true).pp, (riseV v t.retries true).gw,
          (r ++ s.dq ++ s.ret ++ (lanes M s olds ++ bumpF M (s.wk c).inq)) ++ [finTok t.retries],
          (riseV v t.retries true).good⟩ := by
      rw [hlanes]
      simp [riseV, risePP, hvp, hgw, leaveS, pushSw, popS, List.append_assoc]
    rw [e]
    have := vinv_push1 hv1 M t _ hav1 hd rfl kept (sublist_single hkept)
    exact ⟨this.1, fun a ha => live_rise t.retries true (this.2 a ha)⟩
  · intro _ x hx
    rw [hlanes] at hx
    show x.retries ≤ t.retries
    have hx' : x ∈ data v.av := by
      rw [mem_data] at hx ⊢
      refine ⟨?_, hx.2⟩
      have h1 := hx.1
      rw [hav]
      simp only [leaveS, pushSw, popS, List.mem_append, List.mem_cons, List.mem_singleton, List.append_nil] at h1 ⊢
      rcases h1 with ((h1 | h1) | h1) | h1 | h1 | h1
      · exact Or.inr (Or.inl (Or.inl (Or.inl h1)))
      · exact Or.inr (Or.inl (Or.inl (Or.inr h1)))
      · exact Or.inr (Or.inl (Or.inr h1))
      · exact Or.inr (Or.inr (Or.inl h1))
      · exact Or.inr (Or.inr (Or.inr h1))
      · rcases h1 with h1 | h1
        · rw [h1] at hx; simp [finTok] at hx
        · cases h1
    exact hcap x hx'

theorem goodC_ppRecv {M : Nat} {s s' : Sys} {olds : List Nat} {v : View} {lks : List (Option Nat)}
    (h : GoodC M s olds v) (hl : ∀ w, some w ∈ lks → w ∉ olds ∧ s.cur ≠ some w)
    (hs : sysStep M s (.ppRecv lks) = some s') :
    ∃ olds' v', GoodC M s' olds' v' ∧ ∀ w ∈ olds', w ∈ olds ∨ s.cur = some w := by
  obtain ⟨t, r, hq, rfl⟩ := ppRecv_split hs
  obtain ⟨_, hns, _, hmem, hvp, _⟩ := head_factsC h t r hq
  have hfl : FreshLks olds lks := fun w hw => (hl w hw).1
  rcases kind_cases t with hk | hk | hk
  · by_cases hgt : t.retries > s.pp.hwm
    · exact ppC_case_rise h t r hq lks hl hk hgt
    · by_cases hlt : t.retries < s.pp.hwm
      · obtain ⟨v', hg⟩ := ppC_case_park h t r hq lks hk hlt
        exact ⟨olds, v', hg, fun w hw => Or.inl hw⟩
      · obtain ⟨v', hg⟩ := ppC_case_emit h t r hq lks hfl hk (by omega)
        exact ⟨olds, v', hg, fun w hw => Or.inl hw⟩
  · exact absurd hk hns
  · have hf1 := h.vinv.fin1 t hmem hk
    rw [hvp] at hf1
    by_cases hlt : t.retries < s.pp.hwm
    · obtain ⟨v', hg⟩ := ppC_case_finLow h t r hq lks hk hlt
      exact ⟨olds, v', hg, fun w hw => Or.inl hw⟩
    · obtain ⟨v', hg⟩ := ppC_case_finTop h t r hq lks hfl hk (by omega)
      exact ⟨olds, v', hg, fun w hw => Or.inl hw⟩

end Lemmas.C02sys
