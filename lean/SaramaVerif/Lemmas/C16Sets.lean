import SaramaVerif.Model.ProduceSet
/-
  Helper development for C16 / C04: structural lemmas about the produce-set model (lookup / addTo / removeTp,
  the running sums, the per-partition estimate) and the state invariant `SInv` that every reachable set has.
-/
namespace Lemmas.C16
open Model.ProduceSet

/-! ### sums over the partition sets -/

def sumBytes : List PSet → Int
  | [] => 0
  | p :: t => p.bufferBytes + sumBytes t

def sumCount : List PSet → Int
  | [] => 0
  | p :: t => (p.msgs.length : Int) + sumCount t

/-- key+value bytes of a list of messages -/
def payload : List Msg → Int
  | [] => 0
  | m :: t => ((m.keyLen : Int) + (m.valLen : Int)) + payload t

/-- what `add` accumulates for the 2nd, 3rd, … message of a partition set -/
def restBytes (c : Conf) : List Msg → Int
  | [] => 0
  | m :: t => addSize c false m + restBytes c t

/-- what `add` accumulates for the messages of one partition set -/
def estimate (c : Conf) : List Msg → Int
  | [] => 0
  | m :: t => addSize c true m + restBytes c t

/-- Σ byteSize -/
def sumByteSize (v : Int) : List Msg → Int
  | [] => 0
  | m :: t => byteSize v m + sumByteSize v t

theorem length_pos_int {α : Type} {l : List α} (h : l ≠ []) : 1 ≤ (l.length : Int) := by
  cases l with
  | nil => exact absurd rfl h
  | cons a t => simp only [List.length_cons]; omega

theorem headersSize_nonneg (hs : List (Nat × Nat)) : 0 ≤ headersSize hs := by
  induction hs with
  | nil => simp [headersSize]
  | cons h t ih => simp only [headersSize, maxVarintLen32]; omega

theorem byteSize_ge (v : Int) (m : Msg) : 26 + (m.keyLen : Int) + (m.valLen : Int) ≤ byteSize v m := by
  have := headersSize_nonneg m.headers
  unfold byteSize maximumRecordOverhead producerMessageOverhead
  split <;> omega

/-- `add` and `byteSize` compute the same size, up to the batch overhead of a new record batch -/
theorem addSize_eq (c : Conf) (isNew : Bool) (m : Msg) :
    addSize c isNew m = byteSize (sizeVersion c) m + (if c.v2 = true ∧ isNew = true then recordBatchOverhead else 0) := by
  unfold addSize byteSize sizeVersion
  cases hv : c.v2 <;> cases isNew <;> simp <;> omega

theorem addSize_ge (c : Conf) (isNew : Bool) (m : Msg) : 26 + (m.keyLen : Int) + (m.valLen : Int) ≤ addSize c isNew m := by
  rw [addSize_eq]
  have := byteSize_ge (sizeVersion c) m
  unfold recordBatchOverhead
  split <;> omega

theorem restBytes_ge (c : Conf) (ms : List Msg) : payload ms + 26 * (ms.length : Int) ≤ restBytes c ms := by
  induction ms with
  | nil => simp [payload, restBytes]
  | cons m t ih =>
    have := addSize_ge c false m
    simp only [payload, restBytes, List.length_cons]; omega

theorem estimate_ge (c : Conf) (ms : List Msg) : payload ms + 26 * (ms.length : Int) ≤ estimate c ms := by
  cases ms with
  | nil => simp [payload, estimate]
  | cons m t =>
    have := addSize_ge c true m
    have := restBytes_ge c t
    simp only [payload, estimate, List.length_cons]; omega

theorem restBytes_append (c : Conf) (ms : List Msg) (m : Msg) :
    restBytes c (ms ++ [m]) = restBytes c ms + addSize c false m := by
  induction ms with
  | nil => simp [restBytes]
  | cons a t ih => simp only [List.cons_append, restBytes, ih]; omega

theorem estimate_append (c : Conf) (ms : List Msg) (m : Msg) (h : ms ≠ []) :
    estimate c (ms ++ [m]) = estimate c ms + addSize c false m := by
  cases ms with
  | nil => exact absurd rfl h
  | cons a t => simp only [List.cons_append, estimate, restBytes_append]; omega

theorem estimate_eq_sumByteSize (c : Conf) (ms : List Msg) (h : ms ≠ []) :
    estimate c ms = sumByteSize (sizeVersion c) ms + (if c.v2 = true then recordBatchOverhead else 0) := by
  cases ms with
  | nil => exact absurd rfl h
  | cons a t =>
    have hr : ∀ l : List Msg, restBytes c l = sumByteSize (sizeVersion c) l := by
      intro l
      induction l with
      | nil => rfl
      | cons x l ih => simp only [restBytes, sumByteSize, ih, addSize_eq]; simp
    simp only [estimate, sumByteSize, hr, addSize_eq]
    by_cases hv : c.v2 = true <;> simp [hv] <;> omega

/-! ### lookup / addTo / removeTp -/

theorem lookup_some {tp : Nat × Nat} {ps : List PSet} {p : PSet} (h : lookup tp ps = some p) :
    p ∈ ps ∧ p.tp = tp := by
  induction ps with
  | nil => simp [lookup] at h
  | cons q t ih =>
    simp only [lookup] at h
    split at h
    · cases h; exact ⟨List.mem_cons_self, by assumption⟩
    · exact ⟨List.mem_cons_of_mem _ (ih h).1, (ih h).2⟩

theorem mem_addTo {c : Conf} {now : Int} {m : Msg} {ps : List PSet} {p' : PSet} (h : p' ∈ addTo c now m ps) :
    p' ∈ ps ∨ (lookup m.tp ps = none ∧ p' = newPSet c now m) ∨
      (∃ p, lookup m.tp ps = some p ∧ p' = extend c now p m) := by
  induction ps with
  | nil =>
    simp only [addTo, List.mem_singleton] at h
    exact Or.inr (Or.inl ⟨rfl, h⟩)
  | cons q t ih =>
    simp only [addTo] at h
    by_cases hq : q.tp = m.tp
    · simp only [hq, ↓reduceIte, List.mem_cons] at h
      rcases h with h | h
      · exact Or.inr (Or.inr ⟨q, by simp [lookup, hq], h⟩)
      · exact Or.inl (List.mem_cons_of_mem _ h)
    · simp only [hq, ↓reduceIte, List.mem_cons] at h
      rcases h with h | h
      · exact Or.inl (h ▸ List.mem_cons_self)
      · rcases ih h with h1 | ⟨h1, h2⟩ | ⟨p, h1, h2⟩
        · exact Or.inl (List.mem_cons_of_mem _ h1)
        · exact Or.inr (Or.inl ⟨by simp [lookup, hq, h1], h2⟩)
        · exact Or.inr (Or.inr ⟨p, by simp [lookup, hq, h1], h2⟩)

theorem sumBytes_addTo (c : Conf) (now : Int) (m : Msg) (ps : List PSet) :
    sumBytes (addTo c now m ps) = sumBytes ps + addSize c (lookup m.tp ps).isNone m := by
  induction ps with
  | nil => simp [addTo, sumBytes, lookup, newPSet]
  | cons q t ih =>
    by_cases hq : q.tp = m.tp
    · simp only [addTo, lookup, hq, ↓reduceIte, sumBytes, extend, Option.isNone_some]; omega
    · simp only [addTo, lookup, hq, ↓reduceIte, sumBytes, ih]; omega

theorem sumCount_addTo (c : Conf) (now : Int) (m : Msg) (ps : List PSet) :
    sumCount (addTo c now m ps) = sumCount ps + 1 := by
  induction ps with
  | nil => simp [addTo, sumCount, newPSet]
  | cons q t ih =>
    by_cases hq : q.tp = m.tp
    · simp only [addTo, hq, ↓reduceIte, sumCount, extend, List.length_append, List.length_singleton]; omega
    · simp only [addTo, hq, ↓reduceIte, sumCount, ih]; omega

theorem mem_removeTp {tp : Nat × Nat} {ps : List PSet} {p : PSet} (h : p ∈ removeTp tp ps) : p ∈ ps := by
  induction ps with
  | nil => simp [removeTp] at h
  | cons q t ih =>
    simp only [removeTp] at h
    split at h
    · exact List.mem_cons_of_mem _ h
    · rcases List.mem_cons.mp h with h | h
      · exact h ▸ List.mem_cons_self
      · exact List.mem_cons_of_mem _ (ih h)

theorem sums_removeTp {tp : Nat × Nat} {ps : List PSet} {p : PSet} (h : lookup tp ps = some p) :
    sumBytes (removeTp tp ps) = sumBytes ps - p.bufferBytes ∧
    sumCount (removeTp tp ps) = sumCount ps - (p.msgs.length : Int) := by
  induction ps with
  | nil => simp [lookup] at h
  | cons q t ih =>
    simp only [lookup] at h
    by_cases hq : q.tp = tp
    · simp only [hq, ↓reduceIte, Option.some.injEq] at h
      subst h
      simp only [removeTp, hq, ↓reduceIte, sumBytes, sumCount]; omega
    · simp only [hq, ↓reduceIte] at h
      have := ih h
      simp only [removeTp, hq, ↓reduceIte, sumBytes, sumCount]; omega

/-! ### the invariant of every produce set -/

/-- size-relevant fields of a record / of the message it was made from -/
def recSizes (r : Rec) : Nat × Nat × List (Nat × Nat) := (r.keyLen, r.valLen, r.headers)
def msgSizes (c : Conf) (m : Msg) : Nat × Nat × List (Nat × Nat) :=
  (m.keyLen, m.valLen, if c.v2 then m.headers else [])

structure PInv (c : Conf) (p : PSet) : Prop where
  nonempty : p.msgs ≠ []
  bytes : p.bufferBytes = estimate c p.msgs
  sizes : p.recs.map recSizes = p.msgs.map (msgSizes c)
  ids : p.recs.map (·.id) = p.msgs.map (·.id)
  tps : ∀ m ∈ p.msgs, m.tp = p.tp

structure SInv (c : Conf) (s : State) : Prop where
  parts : ∀ p ∈ s.parts, PInv c p
  bytes : s.bufferBytes = sumBytes s.parts
  count : s.bufferCount = sumCount s.parts

theorem PInv.bytes_pos {c : Conf} {p : PSet} (h : PInv c p) : 26 ≤ p.bufferBytes := by
  have := estimate_ge c p.msgs
  have hp : 0 ≤ payload p.msgs := by
    generalize p.msgs = l
    induction l with
    | nil => simp [payload]
    | cons a t ih => simp only [payload]; omega
  have hl : 1 ≤ (p.msgs.length : Int) := length_pos_int h.nonempty
  rw [h.bytes]; omega

theorem payload_nonneg (l : List Msg) : 0 ≤ payload l := by
  induction l with
  | nil => simp [payload]
  | cons a t ih => simp only [payload]; omega

theorem pinv_new (c : Conf) (now : Int) (m : Msg) : PInv c (newPSet c now m) where
  nonempty := by simp [newPSet]
  bytes := by simp [newPSet, estimate, restBytes]
  sizes := by
    simp only [newPSet, List.map_cons, List.map_nil, recSizes, msgSizes, mkRec]
  ids := by simp [newPSet, mkRec]
  tps := by simp [newPSet]

theorem pinv_extend {c : Conf} {p : PSet} (now : Int) (m : Msg) (h : PInv c p) (ht : p.tp = m.tp) :
    PInv c (extend c now p m) where
  nonempty := by simp [extend]
  bytes := by simp only [extend, estimate_append c p.msgs m h.nonempty, h.bytes]
  sizes := by
    simp only [extend, List.map_append, h.sizes, List.map_cons, List.map_nil, recSizes, msgSizes, mkRec]
  ids := by simp [extend, h.ids, mkRec]
  tps := by
    intro x hx
    simp only [extend, List.mem_append, List.mem_singleton] at hx
    rcases hx with hx | hx
    · exact h.tps x hx
    · simp [extend, hx, ht]

theorem sinv_empty (c : Conf) : SInv c State.empty where
  parts := by simp [State.empty]
  bytes := rfl
  count := rfl

theorem sinv_add {c : Conf} {s : State} (now : Int) (m : Msg) (h : SInv c s) : SInv c (add c s now m) := by
  unfold add
  split
  · refine ⟨?_, ?_, ?_⟩
    · intro p' hp'
      rcases mem_addTo hp' with h1 | ⟨_, h2⟩ | ⟨p, h1, h2⟩
      · exact h.parts p' h1
      · exact h2 ▸ pinv_new c now m
      · have := lookup_some h1
        exact h2 ▸ pinv_extend now m (h.parts p this.1) this.2
    · simp only [sumBytes_addTo, h.bytes]
    · simp only [sumCount_addTo, h.count]
  · exact h

theorem sinv_drop {c : Conf} {s : State} (tp : Nat × Nat) (h : SInv c s) : SInv c (dropPartition s tp) := by
  unfold dropPartition
  split
  · exact h
  · rename_i p hl
    have hs := sums_removeTp hl
    exact ⟨fun q hq => h.parts q (mem_removeTp hq), by simp only [hs.1, h.bytes], by simp only [hs.2, h.count]⟩

theorem sinv_single {c : Conf} {s : State} {p : PSet} (h : SInv c s) (hp : p ∈ s.parts) : SInv c (State.single p) where
  parts := by
    intro q hq
    simp only [State.single, List.mem_singleton] at hq
    exact hq ▸ h.parts p hp
  bytes := by simp [State.single, sumBytes]
  count := by simp [State.single, sumCount]

/-- a member's size and count are bounded by the totals -/
theorem member_le_sums {c : Conf} {ps : List PSet} (h : ∀ p ∈ ps, PInv c p) {p : PSet} (hp : p ∈ ps) :
    p.bufferBytes ≤ sumBytes ps ∧ (p.msgs.length : Int) ≤ sumCount ps ∧ 0 ≤ sumBytes ps ∧ 0 ≤ sumCount ps := by
  induction ps with
  | nil => simp at hp
  | cons q t ih =>
    have hq := (h q List.mem_cons_self).bytes_pos
    have ht : 0 ≤ sumBytes t ∧ 0 ≤ sumCount t := by
      clear hp ih
      induction t with
      | nil => simp [sumBytes, sumCount]
      | cons a t iht =>
        have := (h a (by simp)).bytes_pos
        have := iht (fun x hx => h x (by
          rcases List.mem_cons.mp hx with hx | hx
          · exact hx ▸ List.mem_cons_self
          · exact List.mem_cons_of_mem _ (List.mem_cons_of_mem _ hx)))
        simp only [sumBytes, sumCount]; omega
    simp only [sumBytes, sumCount]
    rcases List.mem_cons.mp hp with hp | hp
    · subst hp; omega
    · have := ih (fun x hx => h x (List.mem_cons_of_mem _ hx)) hp
      omega

theorem sums_nonneg {c : Conf} {ps : List PSet} (h : ∀ p ∈ ps, PInv c p) : 0 ≤ sumBytes ps ∧ 0 ≤ sumCount ps := by
  induction ps with
  | nil => simp [sumBytes, sumCount]
  | cons q t ih =>
    have := (h q List.mem_cons_self).bytes_pos
    have := ih (fun x hx => h x (List.mem_cons_of_mem _ hx))
    simp only [sumBytes, sumCount]; omega

/-- an empty count means there are no partition sets -/
theorem parts_nil_of_count_zero {c : Conf} {s : State} (h : SInv c s) (h0 : s.bufferCount = 0) : s.parts = [] := by
  cases hp : s.parts with
  | nil => rfl
  | cons q t =>
    exfalso
    have hq := h.parts q (by simp [hp])
    have hl : 1 ≤ (q.msgs.length : Int) := length_pos_int hq.nonempty
    have := sums_nonneg (c := c) (ps := t) (fun x hx => h.parts x (by simp [hp, hx]))
    have hc := h.count
    rw [hp] at hc
    simp only [sumCount] at hc
    omega

end Lemmas.C16
