/-
  C02 composition, handover chain: `ppRecv` keeps the chain invariant, branch by branch of `Model.PartProd.recv`.
-/
import SaramaVerif.Lemmas.C02chStepP2

set_option linter.unusedSimpArgs false

namespace Lemmas.C02sys
open Model Model.Pipeline

theorem concP_pop {M : Nat} {s : Sys} {olds : List Nat} (h : ConcP M s olds) (t : Tok) (r : List Tok)
    (hq : s.pq = t :: r) (pp' : PartProd.St) (hh : pp'.hwm ≤ s.pp.hwm) : ConcP M (popS s r pp') olds := by
  refine ⟨⟨h.pinv, ?_, h.p0w, ?_, h.finq, h.ret1, h.nodup, h.curNo, h.fresh, h.crash⟩, h.oldok,
    bands_congr (s := s) (s' := popS s r pp') rfl _ _ h.bands, ?_, h.noFin⟩
  · intro x hx; apply h.p0q x
    simp only [popS, List.mem_append] at hx
    simp only [hq, List.mem_append, List.mem_cons]; grind
  · intro x hx; apply h.lvl x
    simp only [popS, List.mem_append] at hx
    simp only [hq, List.mem_append, List.mem_cons]; grind
  · intro c hc hn x hx hk
    have := h.tcHi c hc hn x hx hk
    show pp'.hwm ≤ x.retries
    omega

theorem repC_parts {M : Nat} {s : Sys} {olds : List Nat} {v : View} (h : RepC M s olds v) :
    ∃ gw tc g, CurRep M s gw tc g ∧ v = ⟨s.pp, gw, s.pq ++ s.dq ++ s.ret ++ (lanes M s olds ++ tc), g⟩ := h

/-- facts about the head of pp.input in a chain state -/
theorem head_factsC {M : Nat} {s : Sys} {olds : List Nat} {v : View} (h : GoodC M s olds v) (t : Tok) (r : List Tok)
    (hq : s.pq = t :: r) :
    t.part = 0 ∧ t.kind ≠ .syn ∧ t.retries ≤ M ∧ t ∈ v.av ∧ v.pp = s.pp ∧
      ∃ gw tc g, CurRep M s gw tc g ∧ v = ⟨s.pp, gw, s.pq ++ s.dq ++ s.ret ++ (lanes M s olds ++ tc), g⟩ ∧
        v.av = t :: (r ++ s.dq ++ s.ret ++ (lanes M s olds ++ tc)) := by
  obtain ⟨gw, tc, g, hcur, hv⟩ := h.rep
  have hav : v.av = t :: (r ++ s.dq ++ s.ret ++ (lanes M s olds ++ tc)) := by rw [hv]; simp [hq]
  have hm : t ∈ v.av := by rw [hav]; exact List.mem_cons_self ..
  exact ⟨h.conc.p0q t (by simp [hq]), h.vinv.nosyn t hm, h.conc.lvl t (by simp [hq]), hm, by rw [hv],
    gw, tc, g, hcur, hv, hav⟩

/-- the partition producer step when nothing is forwarded (park, or a chaser below the watermark) -/
theorem goodC_pp_quiet {M : Nat} {s : Sys} {olds : List Nat} {v v' : View} (h : GoodC M s olds v) (t : Tok)
    (r : List Tok) (hq : s.pq = t :: r) (pp' : PartProd.St) (hh : pp'.hwm = v.pp.hwm)
    (hv' : ∀ rest, v.av = t :: rest → v' = ⟨pp', v.gw, rest, v.good⟩)
    (hvi : VInv v') (hlive : ∀ a, LiveId v' a → LiveId v a) : GoodC M (popS s r pp') olds v' := by
  obtain ⟨_, _, _, _, hvp, gw, tc, g, hcur, hv, hav⟩ := head_factsC h t r hq
  have hve := hv' _ hav
  have hgw : v.gw = gw := by rw [hv]
  have hgd : v.good = g := by rw [hv]
  have hp := concP_pop (concP_of_C h.conc hvp) t r hq pp' (by rw [hh, hvp]; exact Nat.le_refl _)
  refine ⟨⟨gw, tc, g, curRep_congr hcur rfl rfl, ?_⟩, hvi, concC_of_P hp (by rw [hve]; rfl) ?_,
    logC_same h.log rfl rfl rfl hlive (fun u vd base hp' => ⟨hp', rfl⟩)⟩
  · rw [hve, hgw, hgd, lanes_congr (s' := popS s r pp') (s := s) rfl olds]; rfl
  · intro hcn x hx
    rw [hve] at hx ⊢
    have hx' : x ∈ data v.av := by rw [hav]; exact (data_sublist (List.sublist_cons_self _ _)).subset hx
    show x.retries ≤ pp'.hwm
    rw [hh]; exact h.conc.capN hcn x hx'

theorem ppC_case_park {M : Nat} {s : Sys} {olds : List Nat} {v : View} (h : GoodC M s olds v) (t : Tok) (r : List Tok)
    (hq : s.pq = t :: r) (lks : List (Option Nat)) (hk : t.kind = .data) (hlt : t.retries < s.pp.hwm) :
    ∃ v', GoodC M (ppActs (popS s r (PartProd.recv s.pp (toPP t)).1) lks (PartProd.recv s.pp (toPP t)).2) olds v' := by
  obtain ⟨hp0, hns, _, _, hvp, gw, tc, g, _, _, hav⟩ := head_factsC h t r hq
  have hfin : (toPP t).fin = false := isFin_data hk
  have hrec := recv_park s.pp (toPP t) (by show ¬ t.retries > s.pp.hwm; omega) hlt hfin
  rw [hrec]
  have hav' : v.av = ofPP (toPP t) :: (r ++ s.dq ++ s.ret ++ (lanes M s olds ++ tc)) := by
    rw [ofPP_toPP t hp0 hns]; exact hav
  refine ⟨parkV v (toPP t) (r ++ s.dq ++ s.ret ++ (lanes M s olds ++ tc)), ?_⟩
  have := goodC_pp_quiet (v' := parkV v (toPP t) (r ++ s.dq ++ s.ret ++ (lanes M s olds ++ tc))) h t r hq
    { s.pp with bufs := PartProd.setBuf s.pp.bufs (toPP t).retries (s.pp.bufs (toPP t).retries ++ [toPP t]) }
    (by rw [hvp])
    (by intro rest hr; rw [hav] at hr; have := (List.cons.inj hr).2; subst this; simp [parkV, hvp])
    (h.vinv.park (toPP t) _ hav' hfin (by rw [hvp]; exact hlt))
    (fun a ha => live_park (toPP t) _ hav' hfin ha)
  simpa [ppActs, ppAct] using this

theorem ppC_case_finLow {M : Nat} {s : Sys} {olds : List Nat} {v : View} (h : GoodC M s olds v) (t : Tok)
    (r : List Tok) (hq : s.pq = t :: r) (lks : List (Option Nat)) (hk : t.kind = .fin) (hlt : t.retries < s.pp.hwm) :
    ∃ v', GoodC M (ppActs (popS s r (PartProd.recv s.pp (toPP t)).1) lks (PartProd.recv s.pp (toPP t)).2) olds v' := by
  obtain ⟨_, _, _, _, hvp, gw, tc, g, _, _, hav⟩ := head_factsC h t r hq
  have hfin : (toPP t).fin = true := isFin_fin hk
  have hrec := recv_finLow s.pp (toPP t) (by show ¬ t.retries > s.pp.hwm; omega) hlt hfin
  rw [hrec]
  refine ⟨finV v t.retries (r ++ s.dq ++ s.ret ++ (lanes M s olds ++ tc)), ?_⟩
  have := goodC_pp_quiet (v' := finV v t.retries (r ++ s.dq ++ s.ret ++ (lanes M s olds ++ tc))) h t r hq
    { s.pp with expect := PartProd.setExp s.pp.expect (toPP t).retries false }
    (by rw [hvp])
    (by intro rest hr; rw [hav] at hr; have := (List.cons.inj hr).2; subst this; simp [finV, hvp, toPP])
    (h.vinv.finDrop t _ hav hk) (fun a ha => live_finV t _ hav ha)
  simpa [ppActs, ppAct] using this

theorem ppC_case_emit {M : Nat} {s : Sys} {olds : List Nat} {v : View} (h : GoodC M s olds v) (t : Tok) (r : List Tok)
    (hq : s.pq = t :: r) (lks : List (Option Nat)) (hl : FreshLks olds lks) (hk : t.kind = .data)
    (heq : t.retries = s.pp.hwm) :
    ∃ v', GoodC M (ppActs (popS s r (PartProd.recv s.pp (toPP t)).1) lks (PartProd.recv s.pp (toPP t)).2) olds v' := by
  obtain ⟨hp0, hns, _, _, hvp, gw, tc, g, hcur, hv, hav⟩ := head_factsC h t r hq
  have hfin : (toPP t).fin = false := isFin_data hk
  have hrec := recv_emit s.pp (toPP t) (by show ¬ t.retries > s.pp.hwm; omega)
    (Or.inr ⟨by show ¬ t.retries < s.pp.hwm; omega, hfin⟩)
  rw [hrec]
  have hact : [PartProd.Action.emit (toPP t).id (toPP t).retries (toPP t).fin] = [t].map emitA := by
    simp [emitA, toPP, isFin_data hk]
  rw [hact]
  have hd : isData t = true := by simp [isData, hk]
  have hgw : v.gw = gw := by rw [hv]
  have hgd : v.good = g := by rw [hv]
  have hp := concP_pop (concP_of_C h.conc hvp) t r hq s.pp (Nat.le_refl _)
  refine goodC_pp_emits (s1 := popS s r s.pp) (olds1 := olds) h (curRep_congr hcur rfl rfl) hp rfl rfl rfl
    (fun _ => rfl) (fun _ => rfl) [t] (fun x hx => by rw [List.mem_singleton.1 hx]; exact ⟨hk, hp0⟩)
    (fun x hx => by rw [List.mem_singleton.1 hx]; show s.pp.hwm ≤ t.retries; omega) lks hl ?_ ?_
  · intro kept hkept
    have := vinv_push1 h.vinv M t _ hav hd (by rw [hvp]; exact heq) kept (sublist_single hkept)
    have e : (⟨(popS s r s.pp).pp, gw, (popS s r s.pp).pq ++ (popS s r s.pp).dq ++ (popS s r s.pp).ret ++
        (lanes M (popS s r s.pp) olds ++ tc), g⟩ : View) =
        ⟨v.pp, v.gw, r ++ s.dq ++ s.ret ++ (lanes M s olds ++ tc), v.good⟩ := by
      rw [hvp, hgw, hgd, lanes_congr (s' := popS s r s.pp) (s := s) rfl olds]; rfl
    rw [e]; exact this
  · intro hcn x hx
    have hx' : x ∈ data v.av := by
      rw [hav]
      refine (data_sublist (List.sublist_cons_self _ _)).subset ?_
      rw [lanes_congr (s' := popS s r s.pp) (s := s) rfl olds] at hx; exact hx
    have := h.conc.capN hcn x hx'
    rw [hvp] at this; exact this

theorem flush_le : ∀ (h : Nat) (bufs : Nat → List PartProd.Tok) (e : Nat → Bool), (PartProd.flush h bufs e).1 ≤ h := by
  intro h
  induction h with
  | zero => intro bufs e; simp [PartProd.flush]
  | succ n ih =>
    intro bufs e
    rw [PartProd.flush]
    split
    · show n ≤ n + 1; omega
    · split
      · show 0 ≤ n + 1; omega
      · have := ih (PartProd.setBuf bufs n []) e
        show (PartProd.flush n (PartProd.setBuf bufs n []) e).1 ≤ n + 1; omega

/-- every token flushRetryBuffers forwards is at or above the level it stops at -/
theorem flush_levels : ∀ (h : Nat) (bufs : Nat → List PartProd.Tok) (e : Nat → Bool),
    (∀ l, ∀ t ∈ bufs l, t.retries = l) →
    ∀ x ∈ emToks (PartProd.flush h bufs e).2.2, (PartProd.flush h bufs e).1 ≤ x.retries := by
  intro h
  induction h with
  | zero => intro bufs e _ x hx; simp [PartProd.flush, emToks] at hx
  | succ n ih =>
    intro bufs e hty x hx
    have hhead : ∀ y ∈ emToks ((bufs n).map (fun t => PartProd.Action.emit t.id t.retries t.fin)), y.retries = n := by
      intro y hy
      rw [emToks_buf] at hy
      obtain ⟨t, ht, rfl⟩ := List.mem_map.1 hy
      exact hty n t ht
    rw [PartProd.flush] at hx ⊢
    split at hx
    · rename_i h1; simp only [h1, ↓reduceIte]; rw [hhead x hx]; exact Nat.le_refl _
    · rename_i h1
      split at hx
      · rename_i h2; subst h2; rw [if_neg h1]; simp
      · rename_i h2
        simp only [h1, h2, ↓reduceIte]
        rw [emToks_append] at hx
        rcases List.mem_append.1 hx with hx | hx
        · rw [hhead x hx]; exact flush_le n _ _
        · refine ih (PartProd.setBuf bufs n []) e ?_ x hx
          intro l t ht
          simp only [PartProd.setBuf] at ht
          split at ht
          · cases ht
          · exact hty l t ht

theorem ppC_case_finTop {M : Nat} {s : Sys} {olds : List Nat} {v : View} (h : GoodC M s olds v) (t : Tok)
    (r : List Tok) (hq : s.pq = t :: r) (lks : List (Option Nat)) (hl : FreshLks olds lks) (hk : t.kind = .fin)
    (heq : t.retries = s.pp.hwm) :
    ∃ v', GoodC M (ppActs (popS s r (PartProd.recv s.pp (toPP t)).1) lks (PartProd.recv s.pp (toPP t)).2) olds v' := by
  obtain ⟨_, _, _, hmem, hvp, gw, tc, g, hcur, hv, hav⟩ := head_factsC h t r hq
  have hf1 := h.vinv.fin1 t hmem hk
  have hpos : s.pp.hwm > 0 := by rw [← heq]; omega
  have hrec : PartProd.recv s.pp (toPP t) = (flushPP s.pp, .finDone :: flushActs s.pp) :=
    recv_finTop s.pp (toPP t) heq hpos (isFin_fin hk)
  rw [hrec]
  have htyped : ∀ l, ∀ px ∈ s.pp.bufs l, px.retries = l ∧ px.fin = false := by
    intro l px hpx; exact h.vinv.pinv.typed l px (by rw [hvp]; exact hpx)
  have hform : ∀ a ∈ flushActs s.pp, ∃ id l, a = PartProd.Action.emit id l false := by
    intro a ha
    obtain ⟨l, px, hpx, rfl⟩ := flush_all_emit _ _ _ a ha
    exact ⟨px.id, px.retries, by rw [(htyped l px hpx).2]⟩
  have hact : ppActs (popS s r (flushPP s.pp)) lks (.finDone :: flushActs s.pp) =
      ppActs (popS s r (flushPP s.pp)) lks ((emToks (flushActs s.pp)).map emitA) := by
    rw [← emits_normal hform]; simp [ppActs, ppAct]
  rw [hact]
  have hED := emToks_data hform
  have hvfin := h.vinv.finDrop t _ hav hk
  have hzv : ZV (finV v t.retries (r ++ s.dq ++ s.ret ++ (lanes M s olds ++ tc))) := by
    intro y hy
    rcases finDrop_Z h.vinv t _ hav hk y hy with g1 | g1 | ⟨k, k1, k2, k3⟩
    · exact Or.inl g1
    · right; left; show v.pp.hwm < y.retries; rw [hvp, ← heq]; exact g1
    · refine Or.inr (Or.inr ⟨k, by show k < v.pp.hwm; rw [hvp, ← heq]; exact k1, ?_, k3⟩)
      have : ¬ k = t.retries := by omega
      simp only [finV, PartProd.setExp, this, ↓reduceIte]; exact k2
  have hgw : v.gw = gw := by rw [hv]
  have hgd : v.good = g := by rw [hv]
  have hflush : flushV M (finV v t.retries (r ++ s.dq ++ s.ret ++ (lanes M s olds ++ tc))) =
      pushV M ⟨flushPP s.pp, v.gw, r ++ s.dq ++ s.ret ++ (lanes M s olds ++ tc), v.good⟩ (emToks (flushActs s.pp)) := by
    simp [flushV, finV, pushV, flushPP, flushActs, hvp, heq]
  have hvall : VInv (flushV M (finV v t.retries (r ++ s.dq ++ s.ret ++ (lanes M s olds ++ tc)))) := by
    refine VInv.flushAll M (s.pp.hwm - 1) hvfin hzv ?_ ?_
    · show v.pp.hwm = s.pp.hwm - 1 + 1; rw [hvp]; omega
    · show PartProd.setExp v.pp.expect t.retries false (s.pp.hwm - 1 + 1) = false
      have : s.pp.hwm - 1 + 1 = t.retries := by omega
      simp [PartProd.setExp, this]
  have hp := concP_pop (concP_of_C h.conc hvp) t r hq (flushPP s.pp) (by simp only [flushPP]; exact flush_le _ _ _)
  refine goodC_pp_emits (s1 := popS s r (flushPP s.pp)) (olds1 := olds) h (curRep_congr hcur rfl rfl) hp rfl rfl rfl
    (fun _ => rfl) (fun _ => rfl) (emToks (flushActs s.pp)) hED ?_ lks hl ?_ ?_
  · intro x hx
    exact flush_levels _ _ _ (fun l px hpx => (htyped l px hpx).1) x hx
  · intro kept hkept
    have e : (⟨(popS s r (flushPP s.pp)).pp, gw, (popS s r (flushPP s.pp)).pq ++ (popS s r (flushPP s.pp)).dq ++
        (popS s r (flushPP s.pp)).ret ++ (lanes M (popS s r (flushPP s.pp)) olds ++ tc), g⟩ : View) =
        ⟨flushPP s.pp, v.gw, r ++ s.dq ++ s.ret ++ (lanes M s olds ++ tc), v.good⟩ := by
      rw [hgw, hgd, lanes_congr (s' := popS s r (flushPP s.pp)) (s := s) rfl olds]; rfl
    rw [e]
    have hsh := shrink_pushV M ⟨flushPP s.pp, v.gw, r ++ s.dq ++ s.ret ++ (lanes M s olds ++ tc), v.good⟩ hkept
      (fun x hx => (hED x hx).1)
    rw [← hflush] at hsh
    refine ⟨hvall.shrink hsh, fun a ha => ?_⟩
    have h1 := live_shrink hsh ha
    have h2 := live_flushV M (s.pp.hwm - 1) (v := finV v t.retries (r ++ s.dq ++ s.ret ++ (lanes M s olds ++ tc)))
      (by show v.pp.hwm = s.pp.hwm - 1 + 1; rw [hvp]; omega) h1
    exact live_finV t _ hav h2
  · intro hcn x hx
    rw [lanes_congr (s' := popS s r (flushPP s.pp)) (s := s) rfl olds] at hx
    have hx' : x ∈ data v.av := by rw [hav]; exact (data_sublist (List.sublist_cons_self _ _)).subset hx
    have h1 := h.conc.capN hcn x hx'
    rw [hvp] at h1
    rcases finDrop_Z h.vinv t _ hav hk x hx with g1 | g1 | ⟨k, k1, k2, k3⟩
    · rw [g1]; exact Nat.zero_le _
    · omega
    · have hk' : k ≠ s.pp.hwm := by omega
      have := flush_hwm_ge s.pp.hwm s.pp.bufs (PartProd.setExp s.pp.expect s.pp.hwm false) k (by omega)
        (by simp only [PartProd.setExp, hk', ↓reduceIte]; rw [← hvp]; exact k2)
      show x.retries ≤ (flushPP s.pp).hwm
      simp only [flushPP]; omega

end Lemmas.C02sys
