/-
  C02 composition, handover chain: steps of any worker that change neither its input queue nor its mode nor what
  it holds (`handover`, the broker's processing of the set at the bridge): the view stays the same.
-/
import SaramaVerif.Lemmas.C02chStepB3
import SaramaVerif.Lemmas.C02sysStepR

set_option linter.unusedSimpArgs false

namespace Lemmas.C02sys
open Model Model.Pipeline

/-- same queue, same mode, same content -/
def SameShape (x y : Worker) : Prop :=
  x.inq = y.inq ∧ x.bp.closing = y.bp.closing ∧ x.bp.cr = y.bp.cr ∧ insideB x.bp = insideB y.bp

theorem lane_sameInq {M : Nat} {s s' : Sys} {u : Nat} (h : (s'.wk u).inq = (s.wk u).inq) : lane M s' u = lane M s u := by
  simp [lane, h]

theorem lanes_sameInq {M : Nat} {s s' : Sys} (h : ∀ u, (s'.wk u).inq = (s.wk u).inq) (l : List Nat) :
    lanes M s' l = lanes M s l := by
  induction l with
  | nil => rfl
  | cons u r ih => rw [lanes_cons, lanes_cons, ih, lane_sameInq (h u)]

theorem bands_sameInq {M : Nat} {s s' : Sys} (h : ∀ u, (s'.wk u).inq = (s.wk u).inq) : ∀ (l : List Nat) (p : Nat),
    Bands M s p l → Bands M s' p l := by
  intro l
  induction l with
  | nil => intro _ _; trivial
  | cons u r ih =>
    intro p hb
    rcases hb with ⟨h1, h2⟩ | ⟨D, k, h1, h2, h3, h4, h5, h6⟩
    · exact Or.inl ⟨by rw [h u]; exact h1, ih p h2⟩
    · exact Or.inr ⟨D, k, by rw [h u]; exact h1, h2, h3, h4, h5, ih _ h6⟩

theorem curRep_sameShape {M : Nat} {s s' : Sys} {gw tc : List Tok} {g : Bool} (h : CurRep M s gw tc g)
    (hc : s'.cur = s.cur) (hw : ∀ c, s.cur = some c → SameShape (s'.wk c) (s.wk c))
    (hsyn : ∀ c, s.cur = some c → (s.wk c).bp = {} → (s'.wk c).bp = {}) : CurRep M s' gw tc g := by
  cases h with
  | none h1 => exact CurRep.none (by rw [hc]; exact h1)
  | closed c h1 h2 h3 h4 =>
    obtain ⟨e1, e2, e3, e4⟩ := hw c h1
    have := CurRep.closed (M := M) (s := s') c (by rw [hc]; exact h1) (by rw [e2]; exact h2)
      (by show insideB (s'.wk c).bp = []; rw [e4]; exact h3) (by rw [e1]; exact h4)
    rw [e1] at this; exact this
  | normal c mk G h1 h2 h3 h4 h5 h6 =>
    obtain ⟨e1, e2, e3, e4⟩ := hw c h1
    have e4' : insW s' c = insW s c := e4
    have := CurRep.normal (M := M) (s := s') c mk G (by rw [hc]; exact h1) (by rw [e2]; exact h2)
      (by rw [e3]; exact h3) (by rw [e1]; exact h4) h5
      (by
        rcases h6 with e | ⟨e, eb⟩
        · exact Or.inl e
        · exact Or.inr ⟨e, hsyn c h1 eb⟩)
    rw [e4'] at this; exact this
  | failed c h1 h2 h3 h4 h5 =>
    obtain ⟨e1, e2, e3, e4⟩ := hw c h1
    have := CurRep.failed (M := M) (s := s') c (by rw [hc]; exact h1) (by rw [e2]; exact h2) (by rw [e3]; exact h3)
      (by show insideB (s'.wk c).bp = []; rw [e4]; exact h4) (by rw [e1]; exact h5)
    rw [e1] at this; exact this

theorem sameShape_afterWw (s : Sys) (w : Nat) (x : Worker) (hx : SameShape x (s.wk w)) :
    ∀ u, SameShape ((afterWw s w x).wk u) (s.wk u) := by
  intro u
  by_cases e : u = w
  · subst e; rw [wk_afterWw_same]; exact hx
  · rw [wk_afterWw_other s x e]; exact ⟨rfl, rfl, rfl, rfl⟩

/-- worker `w` (current or old) is replaced by a worker of the same shape: same view, same side conditions -/
theorem partsC_sameW {M : Nat} {s : Sys} {olds : List Nat} {v : View} (hr : RepC M s olds v)
    (hco : ConcC M s olds v) (w : Nat)
    (hused : w ∈ olds ∨ s.cur = some w) (x : Worker) (hx : SameShape x (s.wk w)) (hpinv : Props.C02bp.PInv x.bp)
    (hsyn : (s.wk w).bp = {} → x.bp = {}) :
    RepC M (afterWw s w x) olds v ∧ ConcC M (afterWw s w x) olds v := by
  have hss := sameShape_afterWw s w x hx
  have hinq : ∀ u, ((afterWw s w x).wk u).inq = (s.wk u).inq := fun u => (hss u).1
  have hnr : ∀ u, BrokerProd.needsRetry ((afterWw s w x).wk u).bp 0 = BrokerProd.needsRetry (s.wk u).bp 0 := by
    intro u; rw [needsRetry_iff, needsRetry_iff, (hss u).2.1, (hss u).2.2.1]
  obtain ⟨gw, tc, g, hcur, hv⟩ := hr
  have hsyn' : ∀ c, s.cur = some c → (s.wk c).bp = {} → ((afterWw s w x).wk c).bp = {} := by
    intro c _ hb
    by_cases e : c = w
    · subst e; rw [wk_afterWw_same]; exact hsyn hb
    · rw [wk_afterWw_other s x e]; exact hb
  refine ⟨⟨gw, tc, g, curRep_sameShape hcur rfl (fun c _ => hss c) hsyn', by rw [hv, lanes_sameInq hinq]; rfl⟩, ⟨?_, ?_⟩⟩
  · refine concE_workerStep hco.toConcE w hused rfl rfl rfl rfl (fun u hu => wk_afterWw_other s x hu)
      (by rw [wk_afterWw_same]; exact hpinv) (by rw [hinq w]; exact fun y hy => hy)
      (by intro y hy; left; have : insW (afterWw s w x) w = insW s w := (hss w).2.2.2; rw [← this]; exact hy)
      (fun y hy => Or.inl hy)
  · refine ⟨?_, bands_sameInq hinq _ _ hco.bands, ?_, ?_, hco.capN⟩
    · intro u hu
      obtain ⟨a, b⟩ := hco.oldok u hu
      have e4 : insW (afterWw s w x) u = insW s u := (hss u).2.2.2
      exact ⟨by rw [e4]; exact a, by rw [hinq u, hnr u]; exact b⟩
    · intro c hc hn t ht hk
      rw [hnr c] at hn; rw [hinq c] at ht
      exact hco.tcHi c hc hn t ht hk
    · intro c hc t ht
      rw [hinq c] at ht
      exact hco.noFin c hc t ht

theorem goodC_sameW {M : Nat} {s : Sys} {olds : List Nat} {v : View} (h : GoodC M s olds v) (w : Nat)
    (hused : w ∈ olds ∨ s.cur = some w) (x : Worker) (hx : SameShape x (s.wk w)) (hpinv : Props.C02bp.PInv x.bp)
    (hsyn : (s.wk w).bp = {} → x.bp = {})
    (hlog : LogInvC (afterWw s w x) v) : GoodC M (afterWw s w x) olds v :=
  ⟨(partsC_sameW h.rep h.conc w hused x hx hpinv hsyn).1, h.vinv,
   (partsC_sameW h.rep h.conc w hused x hx hpinv hsyn).2, hlog⟩

theorem fresh_no_handover (M : Nat) : (BrokerProd.step M ({} : BrokerProd.St) .handover).2 = [.disabled] := by
  simp [BrokerProd.step, BrokerProd.handover]

theorem goodC_handover {M : Nat} {s s' : Sys} {olds : List Nat} {v : View} {w : Nat} (h : GoodC M s olds v)
    (hs : sysStep M s (.handover w) = some s') : GoodC M s' olds v := by
  simp only [sysStep] at hs
  obtain ⟨hd, rfl⟩ := bpRunW_eq hs
  have hused : w ∈ olds ∨ s.cur = some w := by
    by_cases ho : w ∈ olds
    · exact Or.inl ho
    · by_cases hc : s.cur = some w
      · exact Or.inr hc
      · have := h.conc.fresh w ho hc
        rw [this] at hd
        exact absurd (fresh_no_handover M) hd
  obtain ⟨a1, a2, a3, a4, _, a6⟩ := handover_spec M (s.wk w).bp hd
  have hpinv := (Props.C02bp.step_fifo M (s.wk w).bp .handover (h.conc.pinv w)).2
  rw [a6]
  refine goodC_sameW h w hused _ ⟨rfl, a1, a2, a3⟩ hpinv
    (fun hb => by rw [hb] at hd; exact absurd (fresh_no_handover M) hd) ?_
  refine logC_same h.log rfl rfl rfl (fun a ha => ha) ?_
  intro u vd base hp
  by_cases e : u = w
  · subst e
    rw [wk_afterWw_same] at hp
    obtain ⟨sent, hx, _⟩ := h.log.pend u vd base hp
    rw [a4] at hx; cases hx
  · rw [wk_afterWw_other s _ e] at hp ⊢; exact ⟨hp, rfl⟩

/-- the representation and the side conditions do not look at the log and the outcomes -/
theorem partsC_congr {M : Nat} {s s' : Sys} {olds : List Nat} {v : View} (hr : RepC M s olds v)
    (hco : ConcC M s olds v)
    (hpp : s'.pp = s.pp) (hc : s'.cur = s.cur) (hw : s'.wk = s.wk) (hcr : s'.crash = s.crash)
    (hpq : s'.pq = s.pq) (hdq : s'.dq = s.dq) (hret : s'.ret = s.ret) :
    RepC M s' olds v ∧ ConcC M s' olds v := by
  obtain ⟨gw, tc, g, hcur, hv⟩ := hr
  refine ⟨⟨gw, tc, g, curRep_congr hcur hc hw, ?_⟩, ?_⟩
  · rw [hv, hpp, hpq, hdq, hret, lanes_congr hw]
  · refine ⟨⟨by rw [hw]; exact hco.pinv, by rw [hpq, hdq, hret]; exact hco.p0q, by simpa [insW, hw] using hco.p0w,
      by rw [hpq, hdq, hret]; exact hco.lvl, by rw [hw]; exact hco.finq, by rw [hret]; exact hco.ret1, hco.nodup,
      by rw [hc]; exact hco.curNo, by rw [hc, hw]; exact hco.fresh, by rw [hcr]; exact hco.crash⟩,
      ⟨?_, bands_congr hw _ _ hco.bands, by rw [hc, hw]; exact hco.tcHi, by rw [hc, hw]; exact hco.noFin,
       by rw [hc]; exact hco.capN⟩⟩
    intro w hwo
    have := hco.oldok w hwo
    simpa [OldOK, insW, hw] using this

end Lemmas.C02sys
