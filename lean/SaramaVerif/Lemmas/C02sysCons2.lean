/-
  C02 composition: conservation of tokens - the census is kept by every step of the single-worker system
  (queue moves, worker 0 steps).
-/
import SaramaVerif.Lemmas.C02sysCons
import SaramaVerif.Lemmas.C02sysStepR
import SaramaVerif.Lemmas.C02sysStepD2
import SaramaVerif.Lemmas.C02sysStepA

set_option linter.unusedSimpArgs false

namespace Lemmas.C02sys
open Model Model.Pipeline

/-- every submitted id is counted exactly once (in a place or as a terminal outcome), nothing else is counted -/
def Cons (M : Nat) (s : Sys) : Prop :=
  ∀ i : Int, census M s i = if 0 ≤ i ∧ i < (s.next : Int) then 1 else 0

theorem cons_of_eq {M : Nat} {s s' : Sys} (h : Cons M s) (hn : s'.next = s.next)
    (he : ∀ i, census M s' i = census M s i) : Cons M s' := by
  intro i; rw [he i, hn]; exact h i

theorem cons_submit {M : Nat} {s : Sys} (h : Cons M s) : Cons M (submitS s) := by
  intro i
  have e : census M (submitS s) i = census M s i + [(s.next : Int)].count i := by
    simp only [census, submitS, dataIds_append, List.count_append, ins, W]
    have : dataIds [mkTok (s.next : Int) 0 false] = [(s.next : Int)] := by simp [dataIds, mkTok]
    rw [this]; omega
  rw [e, h i]
  have hn : ((submitS s).next : Int) = (s.next : Int) + 1 := by simp [submitS]
  rw [hn]
  by_cases hi : (s.next : Int) = i
  · subst hi; simp; omega
  · have : ¬ i = (s.next : Int) := fun e => hi e.symm
    simp only [List.count_cons, List.count_nil, beq_iff_eq, hi, ↓reduceIte, Nat.add_zero]
    by_cases h1 : 0 ≤ i ∧ i < (s.next : Int)
    · have : 0 ≤ i ∧ i < (s.next : Int) + 1 := ⟨h1.1, by omega⟩
      simp [h1, this]
    · have : ¬ (0 ≤ i ∧ i < (s.next : Int) + 1) := by omega
      simp [h1, this]

theorem count_dataIds_cons (t : Tok) (r : List Tok) (i : Int) :
    (dataIds (t :: r)).count i = (dataIds [t]).count i + (dataIds r).count i := by
  have : t :: r = [t] ++ r := rfl
  rw [this, dataIds_append, List.count_append]

theorem cons_retryOut {M : Nat} {s : Sys} (h : Cons M s) (t : Tok) (r : List Tok) (hr : s.ret = t :: r) :
    Cons M { s with ret := r, dq := s.dq ++ [t] } := by
  refine cons_of_eq h rfl (fun i => ?_)
  simp only [census, hr, dataIds_append, List.count_append, count_dataIds_cons t r, ins, W]
  omega

theorem cons_dispatch {M : Nat} {s : Sys} (h : Cons M s) (t : Tok) (r : List Tok) (hr : s.dq = t :: r) :
    Cons M { s with dq := r, pq := s.pq ++ [t] } := by
  refine cons_of_eq h rfl (fun i => ?_)
  simp only [census, hr, dataIds_append, List.count_append, count_dataIds_cons t r, ins, W]
  omega

/-- census of a state that differs from `s` in worker 0, the retries queue and the outcomes -/
theorem census_deliverS (M : Nat) (s : Sys) (b' : BrokerProd.St) (X : List Tok) (sc : List (Int × Nat))
    (e : List Int) (i : Int) :
    census M (deliverS M s b' X sc e) i =
      (dataIds s.pq).count i + (dataIds s.dq).count i + ((dataIds s.ret).count i + (dataIds (bumpF M X)).count i) +
      (dataIds (W s).inq).count i + (dataIds (insideB b')).count i + (bufIdsUpTo (M + 1) s.pp.bufs).count i +
      (sc.map (·.1)).count i + e.count i := by
  simp only [census, ins, W_deliverS]
  simp [deliverS, afterW, dataIds_append, List.count_append]

theorem census_ins (M : Nat) (s : Sys) (i : Int) :
    census M s i = (dataIds s.pq).count i + (dataIds s.dq).count i + (dataIds s.ret).count i +
      (dataIds (W s).inq).count i + (dataIds (ins s)).count i + (bufIdsUpTo (M + 1) s.pp.bufs).count i +
      (s.succ.map (·.1)).count i + s.errs.count i := rfl

theorem census_deliverS_same {M : Nat} {s : Sys} {b' : BrokerProd.St} {X : List Tok} {sc : List (Int × Nat)}
    {e : List Int} {i : Int}
    (h : (dataIds (bumpF M X)).count i + (dataIds (insideB b')).count i + (sc.map (·.1)).count i + e.count i =
      (dataIds (ins s)).count i + (s.succ.map (·.1)).count i + s.errs.count i) :
    census M (deliverS M s b' X sc e) i = census M s i := by
  rw [census_deliverS, census_ins]; omega

theorem cons_deliver {M : Nat} (hM : 1 ≤ M) {s s' : Sys} {v : View} {still : Bool} (h : Good M s v)
    (hcs : Cons M s) (hs : sysStep M s (.deliver 0 still) = some s') : Cons M s' := by
  obtain ⟨vd, base, hpend, hd, rfl⟩ := deliver_split hs
  obtain ⟨sent, hsets, _, _⟩ := h.log.pend vd base hpend
  have hP : P0 (insideB (W s).bp) := ins_P0 h.conc
  have hN : NoSyn (insideB (W s).bp) := fun t ht => by rw [h.conc.pinv.data t ht]; simp
  have hins : ins s = sent ++ ((W s).bp.buffer ++ (W s).bp.wait.toList) := by
    simp [ins, insideB, Props.C02bp.inside, hsets]
  have hsd : dataIds sent = sent.map (·.id) := dataIds_allData (fun t ht =>
    h.conc.pinv.data t (by simp [Props.C02bp.inside, hsets, ht]))
  have hb0 : ∀ i : Int, (dataIds (bumpF M ([] : List Tok))).count i = 0 := fun _ => rfl
  rw [mid_deliverS]
  cases hn : BrokerProd.needsRetry (W s).bp 0 with
  | false =>
    cases vd with
    | ok =>
      obtain ⟨a1, a2, a3, a4, a5⟩ := resp_ok_spec M (W s).bp sent still hsets hn hP
      rw [a5]
      refine cons_of_eq hcs rfl (fun i => ?_)
      show census M (deliverS M s _ [] (s.succ ++ offs sent base) s.errs) i = census M s i
      refine census_deliverS_same ?_
      have ho : (offs sent base).map (·.1) = dataIds sent := by rw [offs_ids, hsd]
      simp only [a4, hins, dataIds_append, List.count_append, List.map_append, ho]
      have := hb0 i; omega
    | fatal =>
      obtain ⟨a1, a2, a3, a4, a5⟩ := resp_fatal_spec M hM (W s).bp sent still hsets hn hP
      rw [a5]
      refine cons_of_eq hcs rfl (fun i => ?_)
      show census M (deliverS M s _ [] s.succ (s.errs ++ sent.map (·.id))) i = census M s i
      refine census_deliverS_same ?_
      simp only [a4, hins, dataIds_append, List.count_append, ← hsd]
      have := hb0 i; omega
    | retriable a =>
      cases sent with
      | nil =>
        obtain ⟨a1, a2, a3, a4, a5⟩ := resp_retr_nil_spec M (W s).bp a still hsets hn hP
        rw [a5]
        refine cons_of_eq hcs rfl (fun i => ?_)
        refine census_deliverS_same ?_
        simp only [a4, hins, dataIds_append, List.count_append]
        have := hb0 i
        have : (dataIds ([] : List Tok)).count i = 0 := rfl
        omega
      | cons t r =>
        obtain ⟨a1, a2, a3, a4, a5⟩ := resp_retr_cons_spec M hM (W s).bp t r a still hsets hP hN
        rw [a5]
        suffices hg : Cons M (deliverS M s (BrokerProd.step M (W s).bp
            (.resp (Pipeline.Verdict.retriable a).toResp still)).1 (ins s) s.succ (s.errs ++ errOut M (ins s))) by
          simpa [deliverS, bumpF_nil] using hg
        refine cons_of_eq hcs rfl (fun i => ?_)
        refine census_deliverS_same ?_
        have h1 := count_bounce M (ins s) i
        have h2 : (dataIds ([] : List Tok)).count i = 0 := rfl
        simp only [a4, List.count_append]
        omega
    | conn a =>
      obtain ⟨a1, a2, a3, a4, a5⟩ := resp_conn_spec M (W s).bp sent a still hsets hP hN
      rw [a5]
      suffices hg : Cons M (deliverS M s (BrokerProd.step M (W s).bp
          (.resp (Pipeline.Verdict.conn a).toResp still)).1 (ins s) s.succ (s.errs ++ errOut M (ins s))) by
        simpa [deliverS, bumpF_nil] using hg
      refine cons_of_eq hcs rfl (fun i => ?_)
      refine census_deliverS_same ?_
      have h1 := count_bounce M (ins s) i
      have h2 : (dataIds ([] : List Tok)).count i = 0 := rfl
      simp only [a4, List.count_append]
      omega
  | true =>
    have hempty : ins s = [] := by
      have := h.conc.pinv.quiet 0 hn
      rwa [onPart_P0 hP] at this
    rw [hempty] at hins
    have hsent : sent = [] := (List.append_eq_nil_iff.1 hins.symm).1
    have hbw := (List.append_eq_nil_iff.1 hins.symm).2
    have hbuf : (W s).bp.buffer = [] := (List.append_eq_nil_iff.1 hbw).1
    have hwait : (W s).bp.wait = none := by
      have := (List.append_eq_nil_iff.1 hbw).2
      cases hw : (W s).bp.wait with
      | none => rfl
      | some w => rw [hw] at this; simp at this
    subst hsent
    obtain ⟨a1, a2, a3, a4, a5⟩ := resp_empty_spec M hM (W s).bp vd still hsets hbuf hwait
    rw [a5]
    refine cons_of_eq hcs rfl (fun i => ?_)
    refine census_deliverS_same ?_
    have h2 : (dataIds ([] : List Tok)).count i = 0 := rfl
    have := hb0 i
    simp only [a3, hempty]
    omega

theorem census_afterW (M : Nat) (s : Sys) (q : List Tok) (b' : BrokerProd.St)
    (p : Option (Pipeline.Verdict × Nat)) (i : Int) :
    census M (afterW s ⟨q, b', p⟩) i =
      (dataIds s.pq).count i + (dataIds s.dq).count i + (dataIds s.ret).count i + (dataIds q).count i +
      (dataIds (insideB b')).count i + (bufIdsUpTo (M + 1) s.pp.bufs).count i + (s.succ.map (·.1)).count i +
      s.errs.count i := by
  simp [census, ins, W, afterW, setW]

theorem cons_handover {M : Nat} {s s' : Sys} (hcs : Cons M s)
    (hs : sysStep M s (.handover 0) = some s') : Cons M s' := by
  simp only [sysStep] at hs
  obtain ⟨hd, rfl⟩ := bpRun_eq hs
  obtain ⟨a1, a2, a3, a4, _, a6⟩ := handover_spec M (W s).bp hd
  rw [a6]
  refine cons_of_eq hcs rfl (fun i => ?_)
  show census M (afterW s ⟨(W s).inq, _, (W s).pend⟩) i = census M s i
  rw [census_afterW, a3]; rfl

theorem cons_broker {M : Nat} {s s' : Sys} {vd : Pipeline.Verdict} (hcs : Cons M s)
    (hs : sysStep M s (.broker 0 vd) = some s') : Cons M s' := by
  obtain ⟨sent, rest, _, _, rfl⟩ := broker_split hs
  refine cons_of_eq hcs rfl (fun i => ?_)
  simp [census, brokerS, ins, W, setW]

theorem census_bounceS (M : Nat) (s : Sys) (r : List Tok) (b' : BrokerProd.St) (t : Tok) (i : Int) :
    census M (bounceS M s r b' t) i =
      (dataIds s.pq).count i + (dataIds s.dq).count i +
      ((dataIds s.ret).count i + (dataIds (bumpF M [t])).count i) + (dataIds r).count i +
      (dataIds (insideB b')).count i + (bufIdsUpTo (M + 1) s.pp.bufs).count i + (s.succ.map (·.1)).count i +
      (s.errs.count i + (errOut M [t]).count i) := by
  simp [census, ins, W, bounceS, afterW, setW, dataIds_append, List.count_append]

theorem cons_bpRecv {M : Nat} {s s' : Sys} {v : View} {ov : Bool} (h : Good M s v) (hcs : Cons M s)
    (hs : sysStep M s (.bpRecv 0 ov) = some s') : Cons M s' := by
  obtain ⟨t, r, hq, hw, rfl⟩ := bpRecv_split hs
  have htp : t.part = 0 := h.conc.p0 t (by simp [hq])
  have hcq : ∀ i, (dataIds (W s).inq).count i = (dataIds [t]).count i + (dataIds r).count i := by
    intro i; rw [hq, count_dataIds_cons]
  rcases kind_cases t with hk | hk | hk
  · cases hn : BrokerProd.needsRetry (W s).bp 0 with
    | true =>
      have hst := recv_refuse_spec M (W s).bp t ov hw hk htp hn
      have hs' : bpActs (midS M s r (W s).pend (.recv t ov)) 0 (BrokerProd.step M (W s).bp (.recv t ov)).2 =
          bounceS M s r (W s).bp t := by
        rw [hst, bpActs_bounce1 M t (by rw [hk]; simp)]; simp [midS, hst, bounceS, afterW]
      rw [hs']
      refine cons_of_eq hcs rfl (fun i => ?_)
      rw [census_bounceS, census_ins]
      have := count_bounce M [t] i
      have := hcq i
      show _ = _ + _ + _ + _ + (dataIds (insideB (W s).bp)).count i + _ + _ + _
      omega
    | false =>
      obtain ⟨a1, a2, a3, a4, a5, _⟩ := recv_add_spec M (W s).bp t ov hw hk htp hn
      have hs' : bpActs (midS M s r (W s).pend (.recv t ov)) 0 (BrokerProd.step M (W s).bp (.recv t ov)).2 =
          afterW s ⟨r, (BrokerProd.step M (W s).bp (.recv t ov)).1, (W s).pend⟩ := by
        rw [a5]; rfl
      rw [hs']
      refine cons_of_eq hcs rfl (fun i => ?_)
      rw [census_afterW, census_ins, a4, dataIds_append, List.count_append]
      have := hcq i
      show _ = _ + _ + _ + _ + (dataIds (insideB (W s).bp)).count i + _ + _ + _
      omega
  · have hst := recv_syn_spec M (W s).bp t ov hw hk htp
    have hs' : bpActs (midS M s r (W s).pend (.recv t ov)) 0 (BrokerProd.step M (W s).bp (.recv t ov)).2 =
        afterW s ⟨r, { (W s).bp with cr := BrokerProd.setCr (W s).bp.cr 0 false }, (W s).pend⟩ := by
      rw [hst]; simp [midS, hst, afterW, bpActs, bpAct]
    rw [hs']
    refine cons_of_eq hcs rfl (fun i => ?_)
    rw [census_afterW, census_ins]
    have := hcq i
    have h0 : (dataIds [t]).count i = 0 := by simp [dataIds, hk]
    have e : insideB { (W s).bp with cr := BrokerProd.setCr (W s).bp.cr 0 false } = ins s := rfl
    rw [e]
    omega
  · obtain ⟨f1, f2, f3, f4, f5, f6⟩ := recv_fin_spec M (W s).bp t ov hw hk htp
    have hs' : bpActs (midS M s r (W s).pend (.recv t ov)) 0 (BrokerProd.step M (W s).bp (.recv t ov)).2 =
        bounceS M s r (BrokerProd.step M (W s).bp (.recv t ov)).1 t := by
      rw [f1, bpActs_bounce1 M t (by rw [hk]; simp)]; simp [midS, bounceS, afterW]
    rw [hs']
    have hins : insideB (BrokerProd.step M (W s).bp (.recv t ov)).1 = ins s := by
      simp [ins, insideB, Props.C02bp.inside, f3, f4, f5]
    refine cons_of_eq hcs rfl (fun i => ?_)
    rw [census_bounceS, census_ins, hins]
    have := count_bounce M [t] i
    have := hcq i
    omega

end Lemmas.C02sys
