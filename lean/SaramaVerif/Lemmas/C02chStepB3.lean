/-
  C02 composition, handover chain: steps of the CURRENT broker worker - frame lemma and token arrival.
-/
import SaramaVerif.Lemmas.C02chStepB2

set_option linter.unusedSimpArgs false

namespace Lemmas.C02sys
open Model Model.Pipeline

theorem bands_other {M : Nat} {s s' : Sys} : ∀ (l : List Nat) (p : Nat), (∀ u ∈ l, s'.wk u = s.wk u) →
    Bands M s p l → Bands M s' p l := by
  intro l
  induction l with
  | nil => intro _ _ _; trivial
  | cons u r ih =>
    intro p hs h
    have hu := hs u (List.mem_cons_self ..)
    have hr := fun x hx => hs x (List.mem_cons_of_mem _ hx)
    rcases h with ⟨h1, h2⟩ | ⟨D, k, h1, h2, h3, h4, h5, h6⟩
    · exact Or.inl ⟨by rw [hu]; exact h1, ih p hr h2⟩
    · exact Or.inr ⟨D, k, by rw [hu]; exact h1, h2, h3, h4, h5, ih _ hr h6⟩

/-- a step of the current worker `c`: representation and side conditions -/
theorem partsC_cur_frame {M : Nat} {s s' : Sys} {olds : List Nat} {v v' : View} (hco : ConcC M s olds v) (c : Nat)
    (hc : s.cur = some c)
    (e_pq : s'.pq = s.pq) (e_dq : s'.dq = s.dq) (e_cur : s'.cur = s.cur)
    (e_crash : s'.crash = s.crash) (hother : ∀ u, u ≠ c → s'.wk u = s.wk u)
    (hpinv : Props.C02bp.PInv (s'.wk c).bp)
    (hq : ∀ x ∈ (s'.wk c).inq, x ∈ (s.wk c).inq)
    (hins : ∀ x ∈ insW s' c, x ∈ insW s c ∨ x ∈ (s.wk c).inq)
    (hret : ∀ x ∈ s'.ret, x ∈ s.ret ∨ ∃ y, (y ∈ (s.wk c).inq ∨ y ∈ insW s c) ∧ y.retries < M ∧ x = bump y)
    (gw' tc' : List Tok) (g' : Bool) (hcur' : CurRep M s' gw' tc' g')
    (hv' : v' = ⟨s'.pp, gw', s'.pq ++ s'.dq ++ s'.ret ++ (lanes M s olds ++ tc'), g'⟩)
    (htc : BrokerProd.needsRetry (s'.wk c).bp 0 = true → ∀ t ∈ (s'.wk c).inq, t.kind = .data → v'.pp.hwm ≤ t.retries) :
    RepC M s' olds v' ∧ ConcC M s' olds v' := by
  have hcn : c ∉ olds := hco.curNo c hc
  have holds : ∀ u ∈ olds, s'.wk u = s.wk u := fun u hu => hother u (fun e => hcn (e ▸ hu))
  refine ⟨⟨gw', tc', g', hcur', by rw [hv', lanes_other olds holds]⟩, ⟨?_, ?_⟩⟩
  · exact concE_workerStep hco.toConcE c (Or.inr hc) e_pq e_dq e_cur e_crash hother hpinv hq hins hret
  · refine ⟨fun u hu => oldOK_other (hco.oldok u hu) (holds u hu), bands_other _ _ holds hco.bands, ?_, ?_, ?_⟩
    · intro c' hc'
      rw [e_cur, hc] at hc'; cases hc'
      exact htc
    · intro c' hc' t ht
      rw [e_cur, hc] at hc'; cases hc'
      exact hco.noFin c hc t (hq t ht)
    · intro hn; rw [e_cur, hc] at hn; cases hn

/-- a step of the current worker `c`: everything but the view-specific facts -/
theorem goodC_cur_frame {M : Nat} {s s' : Sys} {olds : List Nat} {v v' : View} (h : GoodC M s olds v) (c : Nat)
    (hc : s.cur = some c)
    (e_pp : s'.pp = s.pp) (e_pq : s'.pq = s.pq) (e_dq : s'.dq = s.dq) (e_cur : s'.cur = s.cur)
    (e_crash : s'.crash = s.crash) (hother : ∀ u, u ≠ c → s'.wk u = s.wk u)
    (hpinv : Props.C02bp.PInv (s'.wk c).bp)
    (hq : ∀ x ∈ (s'.wk c).inq, x ∈ (s.wk c).inq)
    (hins : ∀ x ∈ insW s' c, x ∈ insW s c ∨ x ∈ (s.wk c).inq)
    (hret : ∀ x ∈ s'.ret, x ∈ s.ret ∨ ∃ y, (y ∈ (s.wk c).inq ∨ y ∈ insW s c) ∧ y.retries < M ∧ x = bump y)
    (gw' tc' : List Tok) (g' : Bool) (hcur' : CurRep M s' gw' tc' g')
    (hv' : v' = ⟨s'.pp, gw', s'.pq ++ s'.dq ++ s'.ret ++ (lanes M s olds ++ tc'), g'⟩)
    (hvi' : VInv v')
    (htc : BrokerProd.needsRetry (s'.wk c).bp 0 = true → ∀ t ∈ (s'.wk c).inq, t.kind = .data → v'.pp.hwm ≤ t.retries)
    (hlog : LogInvC s' v') : GoodC M s' olds v' := by
  have hp := partsC_cur_frame h.conc c hc e_pq e_dq e_cur e_crash hother hpinv hq hins hret gw' tc' g' hcur' hv' htc
  have _ := e_pp
  exact ⟨hp.1, hvi', hp.2, hlog⟩

theorem bands_all {M : Nat} {s : Sys} : ∀ (l : List Nat) (prev : Nat), Bands M s prev l →
    ∀ y ∈ lanes M s l, ∃ hj, finTok hj ∈ lanes M s l ∧ y.retries ≤ hj := by
  intro l
  induction l with
  | nil => intro _ _ y hy; simp [lanes] at hy
  | cons u r ih =>
    intro prev h y hyy
    rcases h with ⟨h1, h2⟩ | ⟨D, k, h1, h2, h3, h4, h5, h6⟩
    · rw [lanes_cons, lane_nil h1, List.nil_append] at hyy ⊢
      exact ih prev h2 y hyy
    · rw [lanes_cons, lane_of_shape h1 h2 h3] at hyy ⊢
      have hfin : finTok (k + 1) ∈ bumpF M D ++ [finTok (k + 1)] ++ lanes M s r := by simp
      rcases List.mem_append.1 hyy with hyy | hyy
      · rcases List.mem_append.1 hyy with hyy | hyy
        · obtain ⟨d, hd, hdm, rfl⟩ := mem_bumpF' hyy
          exact ⟨k + 1, hfin, by rw [bump_retries]; have := (h5 d hd hdm).2; omega⟩
        · rw [List.mem_singleton.1 hyy]; exact ⟨k + 1, hfin, Nat.le_refl _⟩
      · obtain ⟨hj, a, b⟩ := ih _ h6 y hyy
        exact ⟨hj, List.mem_append_right _ a, b⟩

/-- every token of every lane is at most at the high watermark -/
theorem lanes_le_hwm {M : Nat} {s : Sys} {olds : List Nat} {v : View} (h : GoodC M s olds v) :
    ∀ y ∈ lanes M s olds, y.retries ≤ v.pp.hwm := by
  intro y hy
  obtain ⟨hj, a, b⟩ := bands_all olds 0 h.conc.bands y hy
  obtain ⟨tc, hav, _⟩ := repC_av h.rep
  have hmem : finTok hj ∈ v.av := by
    rw [hav]; simp only [List.mem_append]; exact Or.inr (Or.inl a)
  have := (h.vinv.fin1 (finTok hj) hmem rfl).2.1
  have e : (finTok hj).retries = hj := rfl
  omega

/-- the current worker refuses the partition and bounces the data token at the head of its queue: in the view the
    token jumps over all the lanes of the old workers -/
theorem goodC_cur_bounce {M : Nat} {s : Sys} {olds : List Nat} {v : View} (h : GoodC M s olds v) (c : Nat)
    (hc : s.cur = some c) (t : Tok) (r : List Tok) (hq : (s.wk c).inq = t :: r) (hk : t.kind = .data)
    (hn : BrokerProd.needsRetry (s.wk c).bp 0 = true) :
    ∃ v', GoodC M (bounceWw M s c r (s.wk c).bp t) olds v' := by
  have hns : t.kind ≠ .syn := by rw [hk]; simp
  have hww : (bounceWw M s c r (s.wk c).bp t).wk c = ⟨r, (s.wk c).bp, (s.wk c).pend⟩ := wk_afterWw_same s c _
  have hsame : ∀ u, u ≠ c → (bounceWw M s c r (s.wk c).bp t).wk u = s.wk u := fun u hu => wk_afterWw_other s _ hu
  have hlo := h.log
  have hthi := h.conc.tcHi c hc hn t (by rw [hq]; exact List.mem_cons_self ..) hk
  -- common part, once the old and the new tail of the current worker are known
  have common : ∀ (gw tc' : List Tok), v = ⟨s.pp, gw, s.pq ++ s.dq ++ s.ret ++ (lanes M s olds ++ (bumpF M [t] ++ tc')), false⟩ →
      gw = [] → CurRep M (bounceWw M s c r (s.wk c).bp t) [] tc' false →
      ∃ v', GoodC M (bounceWw M s c r (s.wk c).bp t) olds v' := by
    intro gw tc' hv hgw hcur'
    subst hgw
    have finish : ∀ v' : View, VInv v' →
        v' = ⟨s.pp, [], s.pq ++ s.dq ++ (s.ret ++ bumpF M [t]) ++ (lanes M s olds ++ tc'), false⟩ →
        (∀ a, LiveId v' a → LiveId v a) → ∃ v', GoodC M (bounceWw M s c r (s.wk c).bp t) olds v' := by
      intro v' hvi' hv' hlive
      refine ⟨v', goodC_cur_frame h c hc rfl rfl rfl rfl rfl hsame (by rw [hww]; exact h.conc.pinv c)
        (by rw [hww, hq]; intro x hx; exact List.mem_cons_of_mem _ hx)
        (by intro x hx; left; simpa [insW, hww] using hx) ?_ [] tc' false hcur' hv' hvi' ?_ ?_⟩
      · intro x hx
        rcases List.mem_append.1 hx with hx | hx
        · exact Or.inl hx
        · right
          simp only [bumpF, List.mem_map, List.mem_filter, decide_eq_true_eq, List.mem_singleton] at hx
          obtain ⟨y, ⟨rfl, hy⟩, rfl⟩ := hx
          exact ⟨y, Or.inl (by rw [hq]; exact List.mem_cons_self ..), hy, rfl⟩
      · intro _ x hx hxk
        rw [hww] at hx
        have : v'.pp.hwm = v.pp.hwm := by rw [hv', hv]
        rw [this]
        exact h.conc.tcHi c hc hn x (by rw [hq]; exact List.mem_cons_of_mem _ hx) hxk
      · refine logC_same hlo rfl rfl rfl hlive ?_
        intro u vd base hp
        by_cases e : u = c
        · subst e; rw [hww] at hp ⊢; exact ⟨hp, rfl⟩
        · rw [hsame u e] at hp ⊢; exact ⟨hp, rfl⟩
    rcases bumpF_single M t with hb | hb
    · refine finish v h.vinv ?_ (fun a ha => ha)
      rw [hv, hb]; simp [List.append_assoc]
    · rw [hb] at hv
      have hav : v.av = (s.pq ++ s.dq ++ s.ret) ++ lanes M s olds ++ bump t :: tc' := by
        rw [hv]; simp [List.append_assoc]
      have hle := lanes_le_hwm h
      have hpp : v.pp.hwm = s.pp.hwm := by rw [hv]
      have hmv := h.vinv.moveLeft (s.pq ++ s.dq ++ s.ret) (lanes M s olds) tc' (bump t) hav
        (fun _ y hy => by rw [bump_retries]; have := hle y (mem_data.1 hy).1; omega)
        (fun y hy => hle y (mem_data.1 hy).1)
        (fun hk' => by simp [bump, hk] at hk')
      refine finish _ hmv ?_ (fun a ha => live_move _ _ _ _ hav ha)
      rw [hb]; simp [moveV, hv, List.append_assoc]
  obtain ⟨gw, tc, g, hcur, hv⟩ := h.rep
  cases hcur with
  | none h1 => rw [hc] at h1; cases h1
  | normal c' mk G h1 h2 h3 h4 h5 h6 =>
    rw [hc] at h1; cases h1
    rw [needsRetry_iff, h2, h3] at hn; cases hn
  | closed c' h1 h2 h3 h4 =>
    rw [hc] at h1; cases h1
    refine common [] (bumpF M r) ?_ rfl ?_
    · rw [hv, hq, bumpF_cons]
    · have := CurRep.closed (M := M) (s := bounceWw M s c r (s.wk c).bp t) c hc (by rw [hww]; exact h2)
        (by simpa [insW, hww] using h3)
        (by rw [hww]; intro x hx; exact h4 x (by rw [hq]; exact List.mem_cons_of_mem _ hx))
      rw [hww] at this; exact this
  | failed c' h1 h2 h3 h4 h5 =>
    rw [hc] at h1; cases h1
    refine common [] (bumpF M r) ?_ rfl ?_
    · rw [hv, hq, bumpF_cons]
    · have := CurRep.failed (M := M) (s := bounceWw M s c r (s.wk c).bp t) c hc (by rw [hww]; exact h2)
        (by rw [hww]; exact h3) (by simpa [insW, hww] using h4)
        (by rw [hww]; intro x hx; exact h5 x (by rw [hq]; exact List.mem_cons_of_mem _ hx))
      rw [hww] at this; exact this

/-- a step of the current worker that does not change the view -/
theorem goodC_cur_same {M : Nat} {s : Sys} {olds : List Nat} {v : View} (h : GoodC M s olds v) (c : Nat)
    (hc : s.cur = some c) (x : Worker) (hpinv : Props.C02bp.PInv x.bp)
    (hq : ∀ y ∈ x.inq, y ∈ (s.wk c).inq) (hins : ∀ y ∈ insideB x.bp, y ∈ insW s c ∨ y ∈ (s.wk c).inq)
    (gw tc : List Tok) (g : Bool)
    (hv : v = ⟨s.pp, gw, s.pq ++ s.dq ++ s.ret ++ (lanes M s olds ++ tc), g⟩)
    (hcur' : CurRep M (afterWw s c x) gw tc g)
    (htc : BrokerProd.needsRetry x.bp 0 = true → ∀ t ∈ x.inq, t.kind = .data → v.pp.hwm ≤ t.retries)
    (hlog : LogInvC (afterWw s c x) v) : GoodC M (afterWw s c x) olds v := by
  have hww : (afterWw s c x).wk c = x := wk_afterWw_same s c x
  refine goodC_cur_frame h c hc rfl rfl rfl rfl rfl (fun u hu => wk_afterWw_other s x hu) (by rw [hww]; exact hpinv)
    (by rw [hww]; exact hq) (by simpa [insW, hww] using hins) (fun y hy => Or.inl hy) gw tc g hcur' hv h.vinv
    (by rw [hww]; exact htc) hlog

theorem logC_afterWw {s : Sys} {v : View} (hl : LogInvC s v) (c : Nat) (x : Worker) (hp : x.pend = (s.wk c).pend)
    (hs : x.bp.sets = (s.wk c).bp.sets) : LogInvC (afterWw s c x) v := by
  refine logC_same hl rfl rfl rfl (fun a ha => ha) ?_
  intro u vd base hpp
  by_cases e : u = c
  · subst e; rw [wk_afterWw_same] at hpp ⊢; exact ⟨by rw [← hp]; exact hpp, hs⟩
  · rw [wk_afterWw_other s x e] at hpp ⊢; exact ⟨hpp, rfl⟩

theorem goodC_cur_recv {M : Nat} {s s' : Sys} {olds : List Nat} {v : View} {w : Nat} {ov : Bool}
    (h : GoodC M s olds v) (hc : s.cur = some w) (hs : sysStep M s (.bpRecv w ov) = some s') :
    ∃ v', GoodC M s' olds v' := by
  obtain ⟨t, r, hq, hwait, rfl⟩ := bpRecvW_split hs
  have htp : t.part = 0 := h.conc.p0w w t (by simp [hq])
  have hpinv := (Props.C02bp.step_fifo M (s.wk w).bp (.recv t ov) (h.conc.pinv w)).2
  have hsub : ∀ y ∈ r, y ∈ (s.wk w).inq := fun y hy => by rw [hq]; exact List.mem_cons_of_mem _ hy
  rcases kind_cases t with hk | hk | hk
  · cases hn : BrokerProd.needsRetry (s.wk w).bp 0 with
    | true =>
      have hst := recv_refuse_spec M (s.wk w).bp t ov hwait hk htp hn
      have hs' : bpActs (afterWw s w ⟨r, (BrokerProd.step M (s.wk w).bp (.recv t ov)).1, (s.wk w).pend⟩) 0
          (BrokerProd.step M (s.wk w).bp (.recv t ov)).2 = bounceWw M s w r (s.wk w).bp t := by
        rw [hst, bpActs_bounce1 M t (by rw [hk]; simp)]; simp [bounceWw, afterWw, hst]
      rw [hs']
      exact goodC_cur_bounce h w hc t r hq hk hn
    | false =>
      obtain ⟨a1, a2, a3, a4, a5, _⟩ := recv_add_spec M (s.wk w).bp t ov hwait hk htp hn
      rw [a5]
      obtain ⟨gw, tc, g, hcur, hv⟩ := h.rep
      cases hcur with
      | none h1 => rw [hc] at h1; cases h1
      | closed c' h1 h2 h3 h4 => rw [hc] at h1; cases h1; rw [needsRetry_iff, h2] at hn; cases hn
      | failed c' h1 h2 h3 h4 h5 => rw [hc] at h1; cases h1; rw [needsRetry_iff, h2, h3] at hn; cases hn
      | normal c' mk G h1 h2 h3 h4 h5 h6 =>
        rw [hc] at h1; cases h1
        have hmk : mk = [] := by
          rcases h6 with e | ⟨e, _⟩
          · exact e
          · rw [e, hq] at h4; simp only [List.cons_append, List.nil_append, List.cons.injEq] at h4
            rw [h4.1] at hk; cases hk
        subst hmk
        rw [hq] at h4; simp only [List.nil_append] at h4
        subst h4
        refine ⟨v, goodC_cur_same h w hc _ hpinv hsub ?_ _ _ _ hv ?_ ?_ (logC_afterWw h.log w _ rfl a3)⟩
        · intro y hy
          rw [a4] at hy
          rcases List.mem_append.1 hy with hy | hy
          · exact Or.inl hy
          · rw [List.mem_singleton.1 hy, hq]; exact Or.inr (List.mem_cons_self ..)
        · have := CurRep.normal (M := M) (s := afterWw s w ⟨r, (BrokerProd.step M (s.wk w).bp (.recv t ov)).1,
            (s.wk w).pend⟩) w [] r hc (by rw [wk_afterWw_same]; rw [a1]; exact h2)
            (by rw [wk_afterWw_same]; rw [a2]; exact h3) (by rw [wk_afterWw_same]; rfl)
            (fun x hx => h5 x (List.mem_cons_of_mem _ hx)) (Or.inl rfl)
          simpa [insW, wk_afterWw_same, a4, List.append_assoc] using this
        · intro hnr; rw [needsRetry_iff, a1, a2, ← needsRetry_iff, hn] at hnr; cases hnr
  · have hst := recv_syn_spec M (s.wk w).bp t ov hwait hk htp
    have hs' : bpActs (afterWw s w ⟨r, (BrokerProd.step M (s.wk w).bp (.recv t ov)).1, (s.wk w).pend⟩) 0
        (BrokerProd.step M (s.wk w).bp (.recv t ov)).2 =
        afterWw s w ⟨r, { (s.wk w).bp with cr := BrokerProd.setCr (s.wk w).bp.cr 0 false }, (s.wk w).pend⟩ := by
      rw [hst]; simp [afterWw, bpActs, bpAct]
    rw [hs']
    rw [hst] at hpinv
    obtain ⟨gw, tc, g, hcur, hv⟩ := h.rep
    have hinsb : insideB { (s.wk w).bp with cr := BrokerProd.setCr (s.wk w).bp.cr 0 false } = insW s w := rfl
    refine ⟨v, goodC_cur_same h w hc _ hpinv hsub (fun y hy => Or.inl hy) gw tc g hv ?_ ?_
      (logC_afterWw h.log w _ rfl rfl)⟩
    · cases hcur with
      | none h1 => rw [hc] at h1; cases h1
      | failed c' h1 h2 h3 h4 h5 =>
        rw [hc] at h1; cases h1
        have := h5 t (by rw [hq]; exact List.mem_cons_self ..); rw [hk] at this; cases this
      | closed c' h1 h2 h3 h4 =>
        rw [hc] at h1; cases h1
        have := h4 t (by rw [hq]; exact List.mem_cons_self ..); rw [hk] at this; cases this
      | normal c' mk G h1 h2 h3 h4 h5 h6 =>
        rw [hc] at h1; cases h1
        rcases h6 with e | ⟨e, hi⟩
        · subst e
          rw [hq] at h4; simp only [List.nil_append] at h4
          have := h5 t (by rw [← h4]; exact List.mem_cons_self ..); rw [hk] at this; cases this
        · subst e
          rw [hq] at h4; simp only [List.cons_append, List.nil_append, List.cons.injEq] at h4
          obtain ⟨_, rfl⟩ := h4
          have := CurRep.normal (M := M) (s := afterWw s w ⟨r, { (s.wk w).bp with
            cr := BrokerProd.setCr (s.wk w).bp.cr 0 false }, (s.wk w).pend⟩) w [] r hc
            (by rw [wk_afterWw_same]; exact h2) (by rw [wk_afterWw_same]; simp [BrokerProd.setCr])
            (by rw [wk_afterWw_same]; rfl) h5 (Or.inl rfl)
          simpa [insW, wk_afterWw_same, hinsb] using this
    · intro hnr x hx hxk
      have hcl : (s.wk w).bp.closing = true := by
        simpa [needsRetry_iff, BrokerProd.setCr] using hnr
      exact h.conc.tcHi w hc (by rw [needsRetry_iff, hcl]; rfl) x (hsub x hx) hxk
  · exact absurd hk (h.conc.noFin w hc t (by rw [hq]; exact List.mem_cons_self ..))

theorem goodC_bpRecv {M : Nat} {s s' : Sys} {olds : List Nat} {v : View} {w : Nat} {ov : Bool}
    (h : GoodC M s olds v) (hs : sysStep M s (.bpRecv w ov) = some s') : ∃ v', GoodC M s' olds v' := by
  by_cases hc : s.cur = some w
  · exact goodC_cur_recv h hc hs
  · by_cases ho : w ∈ olds
    · exact goodC_old_recv h ho hs
    · have := h.conc.fresh w ho hc
      simp [sysStep, this] at hs

end Lemmas.C02sys
