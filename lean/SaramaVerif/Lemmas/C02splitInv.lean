/-
  C02 composition, per-stay split (simulation of runs with re-selection by handover chains), general invariants of
  EVERY run of `Model.Pipeline`: all tokens are of partition 0, and no worker has a retry mark outside partition 0.
-/
import SaramaVerif.Lemmas.C02termPP

set_option linter.unusedSimpArgs false

namespace Lemmas.C02sys
open Model Model.Pipeline Model.BrokerProd

/-- the requeue actions of a list are all of partition 0 -/
def ActsP0 (as : List Action) : Prop := ∀ a ∈ as, ∀ id p r f, a = Action.requeue id p r f → p = 0

theorem actsP0_nil : ActsP0 [] := fun _ h => by cases h

theorem ActsP0.append {a b : List Action} (ha : ActsP0 a) (hb : ActsP0 b) : ActsP0 (a ++ b) := by
  intro x hx; rcases List.mem_append.1 hx with h | h
  · exact ha x h
  · exact hb x h

theorem ActsP0.cons {x : Action} {l : List Action} (hx : ∀ id p r f, x = Action.requeue id p r f → p = 0)
    (hl : ActsP0 l) : ActsP0 (x :: l) := by
  intro a ha; rcases List.mem_cons.1 ha with e | e
  · subst e; exact hx
  · exact hl a e

theorem retryMsg_p0 (M : Nat) {t : Tok} (ht : t.part = 0) :
    ∀ id p r f, retryMsg M t = Action.requeue id p r f → p = 0 := by
  intro id p r f h
  simp only [retryMsg] at h
  split at h
  · cases h
  · simp only [Action.requeue.injEq] at h; rw [← h.2.1]; exact ht

theorem actsP0_retryMsgs (M : Nat) {l : List Tok} (hl : P0 l) : ActsP0 (retryMsgs M l) := by
  intro a ha
  obtain ⟨t, ht, rfl⟩ := List.mem_map.1 ha
  exact retryMsg_p0 M (hl t ht)

theorem actsP0_map {α : Type} (l : List α) (f : α → Action) (hf : ∀ x id p r g, f x ≠ Action.requeue id p r g) :
    ActsP0 (l.map f) := by
  intro a ha id p r g e
  obtain ⟨x, _, rfl⟩ := List.mem_map.1 ha
  exact absurd e (hf x id p r g)

/-- the worker's actions keep the retries queue in partition 0 -/
theorem bpActs_retP0 (as : List Action) : ∀ (s : Sys) (off : Nat), ActsP0 as → P0 s.ret → P0 (bpActs s off as).ret := by
  induction as with
  | nil => intro s off _ h; exact h
  | cons a r ih =>
    intro s off ha h
    refine ih _ _ (fun x hx => ha x (List.mem_cons_of_mem _ hx)) ?_
    cases a <;> try exact h
    case requeue id p rr fin =>
      have hp := ha _ (List.mem_cons_self ..) id p rr fin rfl
      simp only [bpAct]
      exact P0_append.2 ⟨h, fun t ht => by rw [List.mem_singleton.1 ht]; exact hp⟩

theorem P0_inside {b : St} : P0 (insideB b) ↔ P0 b.sets.flatten ∧ P0 b.buffer ∧ P0 b.wait.toList := by
  simp only [insideB, Props.C02bp.inside, P0_append]; exact and_assoc

theorem setCr_off (c : Int → Bool) (v : Bool) {p : Int} (hp : p ≠ 0) : setCr c 0 v p = c p := by simp [setCr, hp]

/-- a token of partition 0 taken from the input channel -/
theorem recv_p0 (M : Nat) (b : St) (t : Tok) (ov : Bool) (hP : P0 (insideB b)) (ht : t.part = 0) :
    P0 (insideB (step M b (.recv t ov)).1) ∧ (∀ p, p ≠ 0 → (step M b (.recv t ov)).1.cr p = b.cr p) ∧
    ActsP0 (step M b (.recv t ov)).2 := by
  obtain ⟨h1, h2, h3⟩ := P0_inside.1 hP
  have hbounce : ActsP0 [Action.refuse t.id, retryMsg M t] :=
    ActsP0.cons (fun _ _ _ _ e => by cases e) (ActsP0.cons (retryMsg_p0 M ht) actsP0_nil)
  have ht1 : P0 [t] := fun x hx => by rw [List.mem_singleton.1 hx]; exact ht
  cases hw : b.wait with
  | some w =>
    have e : step M b (.recv t ov) = (b, [.disabled]) := by simp [step, recv, hw]
    rw [e]; exact ⟨hP, fun _ _ => rfl, ActsP0.cons (fun _ _ _ _ e => by cases e) actsP0_nil⟩
  | none =>
    by_cases hk : t.kind = .syn
    · have e : step M b (.recv t ov) = ({ b with cr := setCr b.cr t.part false }, [.ackSyn t.part]) := by
        simp [step, recv, hw, hk]
      rw [e]
      exact ⟨hP, fun p hp => by simp only; rw [ht]; exact setCr_off _ _ hp,
        ActsP0.cons (fun _ _ _ _ e => by cases e) actsP0_nil⟩
    · cases hn : needsRetry b t.part with
      | true =>
        have e2 : (step M b (.recv t ov)).2 = [.refuse t.id, retryMsg M t] := by simp [step, recv, hw, hk, hn]
        have e1 : (step M b (.recv t ov)).1 = (if (!b.closing && decide (t.kind = .fin)) = true then
            { b with cr := setCr b.cr t.part false } else b) := by simp [step, recv, hw, hk, hn]
        rw [e1, e2]
        split
        · exact ⟨hP, fun p hp => by simp only; rw [ht]; exact setCr_off _ _ hp, hbounce⟩
        · exact ⟨hP, fun _ _ => rfl, hbounce⟩
      | false =>
        by_cases hf : t.kind = .fin
        · have e : step M b (.recv t ov) = (b, [.refuse t.id, retryMsg M t]) := by simp [step, recv, hw, hk, hn, hf]
          rw [e]; exact ⟨hP, fun _ _ => rfl, hbounce⟩
        · cases ov with
          | true =>
            have e : step M b (.recv t true) = ({ b with wait := some t }, []) := by simp [step, recv, hw, hk, hf, hn]
            rw [e]
            exact ⟨P0_inside.2 ⟨h1, h2, ht1⟩, fun _ _ => rfl, actsP0_nil⟩
          | false =>
            have e : step M b (.recv t false) = ({ b with buffer := b.buffer ++ [t], stale := false }, [.add t.id t.part]) := by
              simp [step, recv, hw, hk, hf, hn]
            rw [e]
            exact ⟨P0_inside.2 ⟨h1, P0_append.2 ⟨h2, ht1⟩, h3⟩, fun _ _ => rfl,
              ActsP0.cons (fun _ _ _ _ e => by cases e) actsP0_nil⟩

theorem handover_p0 (M : Nat) (b : St) (hP : P0 (insideB b)) :
    P0 (insideB (step M b .handover).1) ∧ (∀ p, p ≠ 0 → (step M b .handover).1.cr p = b.cr p) ∧
    ActsP0 (step M b .handover).2 := by
  obtain ⟨h1, h2, h3⟩ := P0_inside.1 hP
  have hno : ∀ a : Action, (∀ id p r f, a ≠ Action.requeue id p r f) → ActsP0 [a] :=
    fun a ha => ActsP0.cons (fun id p r f e => absurd e (ha id p r f)) actsP0_nil
  cases hs : b.sets with
  | cons x r =>
    have e : step M b .handover = (b, [.disabled]) := by simp [step, handover, hs]
    rw [e]; exact ⟨hP, fun _ _ => rfl, hno _ (by simp)⟩
  | nil =>
    cases hw : b.wait with
    | some t =>
      have e : step M b .handover =
          ({ b with sets := [b.buffer], buffer := [t], wait := none, stale := false }, [.add t.id t.part]) := by
        simp [step, handover, hs, hw]
      rw [e]; rw [hw] at h3
      exact ⟨P0_inside.2 ⟨by simpa using h2, by simpa using h3, by simp [P0]⟩, fun _ _ => rfl, hno _ (by simp)⟩
    | none =>
      by_cases hd : (b.buffer.isEmpty && !b.stale) = true
      · have e : step M b .handover = (b, [.disabled]) := by simp [step, handover, hs, hw, hd]
        rw [e]; exact ⟨hP, fun _ _ => rfl, hno _ (by simp)⟩
      · have e : step M b .handover = ({ b with sets := [b.buffer], buffer := [], stale := false }, []) := by
          simp [step, handover, hs, hw, hd]
        rw [e]
        exact ⟨P0_inside.2 ⟨by simpa using h2, by simp [P0], by simp [hw, P0]⟩, fun _ _ => rfl, actsP0_nil⟩

/-- handling an answer (the four verdicts of the system model) -/
theorem handle_p0 (M : Nat) (hM : 1 ≤ M) (b0 : St) (sent : List Tok) (v : Pipeline.Verdict)
    (hP : P0 sent) (hb : P0 b0.buffer) :
    P0 (handle M b0 sent v.toResp).1.buffer ∧ (handle M b0 sent v.toResp).1.wait = b0.wait ∧
    (handle M b0 sent v.toResp).1.sets = b0.sets ∧
    (∀ p, p ≠ 0 → (handle M b0 sent v.toResp).1.cr p = b0.cr p) ∧ ActsP0 (handle M b0 sent v.toResp).2 := by
  cases v with
  | ok => rw [handle_ok M b0 hP]; exact ⟨hb, rfl, rfl, fun _ _ => rfl, actsP0_map _ _ (by simp)⟩
  | fatal => rw [handle_fatal M hM b0 hP]; exact ⟨hb, rfl, rfl, fun _ _ => rfl, actsP0_map _ _ (by simp)⟩
  | retriable a =>
    cases sent with
    | nil => rw [handle_retr_nil]; exact ⟨hb, rfl, rfl, fun _ _ => rfl, actsP0_nil⟩
    | cons t r =>
      rw [handle_retr_cons M hM b0 t r hP hb a]
      refine ⟨by simp [P0], rfl, rfl, fun p hp => setCr_off _ _ hp, ?_⟩
      exact ActsP0.append (actsP0_retryMsgs M hP)
        (ActsP0.cons (fun _ _ _ _ e => by cases e) (actsP0_retryMsgs M hb))
  | conn a =>
    rw [handle_conn M b0 hP hb a]
    refine ⟨by simp [P0], rfl, rfl, fun _ _ => rfl, ?_⟩
    exact ActsP0.cons (fun _ _ _ _ e => by cases e) (ActsP0.cons (fun _ _ _ _ e => by cases e)
      (ActsP0.append (actsP0_retryMsgs M hP) (actsP0_retryMsgs M hb)))

theorem recheck_p0 (M : Nat) (b : St) (acts : List Action) (still : Bool) (hP : P0 (insideB b)) (ha : ActsP0 acts) :
    P0 (insideB (recheck M b acts still).1) ∧ (recheck M b acts still).1.cr = b.cr ∧
    ActsP0 (recheck M b acts still).2 := by
  obtain ⟨h1, h2, h3⟩ := P0_inside.1 hP
  simp only [recheck]
  cases hw : b.wait with
  | none => exact ⟨P0_inside.2 ⟨h1, h2, by simp [hw, P0]⟩, rfl, ha⟩
  | some t =>
    rw [hw] at h3
    have ht : t.part = 0 := h3 t (by simp)
    simp only
    split
    · exact ⟨P0_inside.2 ⟨h1, h2, by simp [P0]⟩, rfl,
        ActsP0.append ha (ActsP0.cons (retryMsg_p0 M ht) actsP0_nil)⟩
    · split
      · exact ⟨hP, rfl, ha⟩
      · exact ⟨P0_inside.2 ⟨h1, P0_append.2 ⟨h2, by simpa using h3⟩, by simp [P0]⟩, rfl,
          ActsP0.append ha (ActsP0.cons (fun _ _ _ _ e => by cases e) actsP0_nil)⟩

theorem resp_p0 (M : Nat) (hM : 1 ≤ M) (b : St) (v : Pipeline.Verdict) (still : Bool) (hP : P0 (insideB b)) :
    P0 (insideB (step M b (.resp v.toResp still)).1) ∧
    (∀ p, p ≠ 0 → (step M b (.resp v.toResp still)).1.cr p = b.cr p) ∧
    ActsP0 (step M b (.resp v.toResp still)).2 := by
  obtain ⟨h1, h2, h3⟩ := P0_inside.1 hP
  cases hs : b.sets with
  | nil =>
    have e : step M b (.resp v.toResp still) = (b, [.disabled]) := by simp [step, resp, hs]
    rw [e]; exact ⟨hP, fun _ _ => rfl, ActsP0.cons (fun _ _ _ _ e => by cases e) actsP0_nil⟩
  | cons sent rest =>
    rw [hs] at h1
    have hsent : P0 sent := fun t ht => h1 t (by simp [ht])
    have hrest : P0 rest.flatten := fun t ht => h1 t (by simp only [List.flatten_cons, List.mem_append]; exact Or.inr ht)
    obtain ⟨g1, g2, g3, g4, g5⟩ := handle_p0 M hM { b with sets := rest } sent v hsent h2
    have hin : P0 (insideB (handle M { b with sets := rest } sent v.toResp).1) :=
      P0_inside.2 ⟨by rw [g3]; exact hrest, g1, by rw [g2]; exact h3⟩
    obtain ⟨r1, r2, r3⟩ := recheck_p0 M _ _ still hin g5
    have e : step M b (.resp v.toResp still) =
        recheck M (handle M { b with sets := rest } sent v.toResp).1 (handle M { b with sets := rest } sent v.toResp).2
          still := by simp [step, resp, hs]
    rw [e]
    exact ⟨r1, fun p hp => by rw [r2]; exact g4 p hp, r3⟩

/-- all tokens are of partition 0, and no worker has a retry mark outside partition 0 -/
structure P0Inv (s : Sys) : Prop where
  q  : P0 (s.pq ++ s.dq ++ s.ret)
  w  : ∀ w, P0 ((s.wk w).inq ++ insideB (s.wk w).bp)
  cr : ∀ w p, p ≠ 0 → (s.wk w).bp.cr p = false

theorem p0Inv_init : P0Inv {} :=
  ⟨by simp [P0], fun _ => by simp [P0, insideB, Props.C02bp.inside], fun _ _ _ => rfl⟩

theorem pushW_p0 (f : Nat → Worker) (w : Nat) (t : Tok) (ht : t.part = 0) (h : ∀ k, P0 (f k).inq) :
    ∀ k, P0 (pushW f w t k).inq := by
  intro k
  by_cases hk : k = w
  · subst hk
    simp only [pushW, setW, if_true]
    exact P0_append.2 ⟨h k, fun x hx => by rw [List.mem_singleton.1 hx]; exact ht⟩
  · simpa [pushW, setW, hk] using h k

theorem ppAct_p0 (s : Sys) (lks : List (Option Nat)) (a : PartProd.Action) (h : ∀ k, P0 (s.wk k).inq) :
    ∀ k, P0 ((ppAct s lks a).1.wk k).inq := by
  cases a with
  | finSend l =>
    simp only [ppAct]; split
    · exact h
    · exact pushW_p0 _ _ _ rfl h
  | emit id l fin =>
    simp only [ppAct]; split
    · exact pushW_p0 _ _ _ rfl h
    · split
      · exact pushW_p0 _ _ _ rfl (pushW_p0 _ _ _ rfl h)
      · exact h
  | park id => exact h
  | finDone => exact h

theorem ppActs_p0 (as : List PartProd.Action) : ∀ (s : Sys) (lks : List (Option Nat)), (∀ k, P0 (s.wk k).inq) →
    ∀ k, P0 ((ppActs s lks as).wk k).inq := by
  induction as with
  | nil => intro s lks h; exact h
  | cons a r ih => intro s lks h; exact ih _ _ (ppAct_p0 s lks a h)

theorem p0Inv_bpRun {M : Nat} {s s' : Sys} {w : Nat} {q : List Tok} {pend : Option (Pipeline.Verdict × Nat)}
    {off : Nat} {i : In} (h : P0Inv s) (hq : P0 q)
    (hstep : P0 (insideB (step M (s.wk w).bp i).1) ∧ (∀ p, p ≠ 0 → (step M (s.wk w).bp i).1.cr p = (s.wk w).bp.cr p) ∧
      ActsP0 (step M (s.wk w).bp i).2)
    (hs : bpRun M s w q pend off i = some s') : P0Inv s' := by
  obtain ⟨hwk, _, _, hd⟩ := bpRun_keep hs
  obtain ⟨hpq, hdq, _, _⟩ := bpRun_frame hs
  simp only [bpRun, hd, if_false, Option.some.injEq] at hs
  have hq3 := (P0_append.1 h.q)
  have hret : P0 s'.ret := by
    rw [← hs]; exact bpActs_retP0 _ _ _ hstep.2.2 hq3.2
  refine ⟨?_, ?_, ?_⟩
  · rw [hpq, hdq]; exact P0_append.2 ⟨hq3.1, hret⟩
  · intro k
    rw [hwk]
    by_cases hk : k = w
    · subst hk; simp only [setW, if_true]; exact P0_append.2 ⟨hq, hstep.1⟩
    · simpa [setW, hk] using h.w k
  · intro k p hp
    rw [hwk]
    by_cases hk : k = w
    · subst hk; simp only [setW, if_true]; rw [hstep.2.1 p hp]; exact h.cr k p hp
    · simpa [setW, hk] using h.cr k p hp

theorem p0Inv_step {M : Nat} (hM : 1 ≤ M) {s s' : Sys} {c : Choice} (h : P0Inv s) (hs : sysStep M s c = some s') :
    P0Inv s' := by
  cases c with
  | submit =>
    simp only [sysStep, Option.some.injEq] at hs; subst hs
    refine ⟨?_, h.w, h.cr⟩
    have := h.q
    simp only [P0, List.mem_append] at this ⊢
    intro t ht
    rcases ht with (ht | ht | ht) | ht
    · exact this t (Or.inl (Or.inl ht))
    · exact this t (Or.inl (Or.inr ht))
    · rw [List.mem_singleton.1 ht]; rfl
    · exact this t (Or.inr ht)
  | retryOut =>
    cases hr : s.ret with
    | nil => simp [sysStep, hr] at hs
    | cons t r =>
      simp only [sysStep, hr, Option.some.injEq] at hs; subst hs
      refine ⟨?_, h.w, h.cr⟩
      have := h.q; rw [hr] at this
      simp only [P0, List.mem_append, List.mem_cons] at this ⊢
      intro x hx; apply this; grind
  | dispatch =>
    cases hr : s.dq with
    | nil => simp [sysStep, hr] at hs
    | cons t r =>
      simp only [sysStep, hr, Option.some.injEq] at hs; subst hs
      refine ⟨?_, h.w, h.cr⟩
      have := h.q; rw [hr] at this
      simp only [P0, List.mem_append, List.mem_cons] at this ⊢
      intro x hx; apply this; grind
  | ppRecv lks =>
    cases hq : s.pq with
    | nil => simp [sysStep, hq] at hs
    | cons t r =>
      simp only [sysStep, hq, Option.some.injEq] at hs
      obtain ⟨f1, f2, f3⟩ := ppActs_frame (PartProd.recv s.pp (toPP t)).2
        { s with pq := r, pp := (PartProd.recv s.pp (toPP t)).1 } lks
      obtain ⟨k1, _, _⟩ := ppActs_keep (PartProd.recv s.pp (toPP t)).2
        { s with pq := r, pp := (PartProd.recv s.pp (toPP t)).1 } lks
      have hp := ppActs_p0 (PartProd.recv s.pp (toPP t)).2
        { s with pq := r, pp := (PartProd.recv s.pp (toPP t)).1 } lks (fun k => (P0_append.1 (h.w k)).1)
      rw [hs] at f1 f2 f3 k1 hp
      simp only at f1 f2 f3 k1
      refine ⟨?_, fun k => ?_, fun k p hp' => ?_⟩
      · have := h.q; rw [hq] at this
        rw [f1, f2, f3]
        simp only [P0, List.mem_append, List.mem_cons] at this ⊢
        intro x hx; apply this; grind
      · rw [k1 k]; exact P0_append.2 ⟨hp k, (P0_append.1 (h.w k)).2⟩
      · rw [k1 k]; exact h.cr k p hp'
  | bpRecv w ov =>
    cases hq : (s.wk w).inq with
    | nil => simp [sysStep, hq] at hs
    | cons t r =>
      simp only [sysStep, hq] at hs
      have hw := h.w w; rw [hq] at hw
      have hw' := P0_append.1 hw
      exact p0Inv_bpRun h (P0_cons hw'.1).2 (recv_p0 M _ t ov hw'.2 (P0_cons hw'.1).1) hs
  | handover w =>
    simp only [sysStep] at hs
    exact p0Inv_bpRun h (P0_append.1 (h.w w)).1 (handover_p0 M _ (P0_append.1 (h.w w)).2) hs
  | broker w v =>
    simp only [sysStep] at hs
    split at hs
    · split at hs
      · cases hs
      · simp only [Option.some.injEq] at hs; subst hs
        refine ⟨h.q, fun k => ?_, fun k p hp => ?_⟩
        · by_cases hk : k = w
          · subst hk; simpa [setW] using h.w k
          · simpa [setW, hk] using h.w k
        · by_cases hk : k = w
          · subst hk; simpa [setW] using h.cr k p hp
          · simpa [setW, hk] using h.cr k p hp
    · cases hs
  | deliver w still =>
    simp only [sysStep] at hs
    split at hs
    · cases hs
    · exact p0Inv_bpRun h (P0_append.1 (h.w w)).1 (resp_p0 M hM _ _ still (P0_append.1 (h.w w)).2) hs
  | moveLeader b =>
    simp only [sysStep, Option.some.injEq] at hs; subst hs; exact ⟨h.q, h.w, h.cr⟩
  | closeW w =>
    obtain ⟨_, rfl⟩ := closeW_spec hs
    refine ⟨h.q, fun k => ?_, fun k p hp => ?_⟩
    · by_cases hk : k = w
      · subst hk; simpa [setW, closeBp, insideB, Props.C02bp.inside] using h.w k
      · simpa [setW, hk] using h.w k
    · by_cases hk : k = w
      · subst hk; simpa [setW, closeBp] using h.cr k p hp
      · simpa [setW, hk] using h.cr k p hp

theorem p0Inv_run {M : Nat} (hM : 1 ≤ M) (cs : List Choice) : ∀ {s s' : Sys}, P0Inv s → run M s cs = some s' → P0Inv s' := by
  induction cs with
  | nil => intro s s' h hr; simp only [run, Option.some.injEq] at hr; rw [← hr]; exact h
  | cons c cs ih =>
    intro s s' h hr
    simp only [run] at hr
    cases hs : sysStep M s c with
    | none => simp [hs] at hr
    | some s1 => simp only [hs] at hr; exact ih (p0Inv_step hM h hs) hr

end Lemmas.C02sys
