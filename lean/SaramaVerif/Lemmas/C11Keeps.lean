import SaramaVerif.Lemmas.C11Truth
import SaramaVerif.Lemmas.C03Hist
/-
  C11: the keep decisions of parseResponse under read-committed with a faithful index are the ground truth.
-/
namespace Lemmas.C11
open Model.ConsumerParse Model.Txn Lemmas.C03

/-- ground-truth keep flags of the entries of a response followed in the log by `post` -/
def truthKeeps (rc : Bool) : List Entry → List LUnit → List Bool
  | [], _ => []
  | .legacy _ :: es, post => true :: truthKeeps rc es post
  | .batch b :: es, post => keepIso rc (.bat b) (es.flatMap entryUnits ++ post) :: truthKeeps rc es post

/-- state of the abort filter after the entries `P` of the response -/
structure JInv (idx : List (Int × Int)) (P : List Entry) (rem : List (Int × Int)) (abs : List Int) : Prop where
  sorted : SortedA rem
  rem_iff : ∀ t, t ∈ rem ↔ t ∈ idx ∧ ∀ c, Entry.batch c ∈ P → batchLast c < t.2
  abs_iff : ∀ p, p ∈ abs ↔ ∃ f, (p, f) ∈ idx ∧ (∃ c, Entry.batch c ∈ P ∧ f ≤ batchLast c) ∧
    ∀ c, Entry.batch c ∈ P → isAbortMarker p c → batchLast c < f

theorem JInv.init (idx : List (Int × Int)) : JInv idx [] (sortAborted idx) [] where
  sorted := sorted_sortAborted idx
  rem_iff := fun t => by simp [mem_sortAborted]
  abs_iff := fun p => by simp

theorem JInv.legacy {idx P rem abs} (h : JInv idx P rem abs) (blks : List LBlock) :
    JInv idx (P ++ [Entry.legacy blks]) rem abs where
  sorted := h.sorted
  rem_iff := fun t => by simpa using h.rem_iff t
  abs_iff := fun p => by simpa using h.abs_iff p

/-- membership in the aborted set right after the index was consumed up to batch `b` -/
theorem JInv.consumed {idx P rem abs} (h : JInv idx P rem abs) (b : Batch)
    (hP : ∀ c, Entry.batch c ∈ P → batchLast c < batchLast b) (p : Int) :
    p ∈ (consumeAborted (batchLast b) rem abs).2 ↔
      ∃ f, (p, f) ∈ idx ∧ f ≤ batchLast b ∧ ∀ c, Entry.batch c ∈ P → isAbortMarker p c → batchLast c < f := by
  have ⟨_, _, c3⟩ := consume_spec (batchLast b) rem abs h.sorted
  rw [c3 p]
  constructor
  · rintro (hp | ⟨f, hf, hle⟩)
    · obtain ⟨f, hf, ⟨c, hc, hfc⟩, hclean⟩ := (h.abs_iff p).1 hp
      exact ⟨f, hf, by have := hP c hc; omega, hclean⟩
    · have ⟨hi, hnc⟩ := (h.rem_iff (p, f)).1 hf
      exact ⟨f, hi, hle, fun c hc _ => hnc c hc⟩
  · rintro ⟨f, hf, hle, hclean⟩
    by_cases hcons : ∃ c, Entry.batch c ∈ P ∧ f ≤ batchLast c
    · exact Or.inl ((h.abs_iff p).2 ⟨f, hf, hcons, hclean⟩)
    · refine Or.inr ⟨f, (h.rem_iff (p, f)).2 ⟨hf, ?_⟩, hle⟩
      intro c hc
      by_cases hlt : batchLast c < f
      · exact hlt
      · exact absurd ⟨c, hc, by omega⟩ hcons

theorem JInv.step {idx P rem abs} (h : JInv idx P rem abs) (b : Batch)
    (hP : ∀ c, Entry.batch c ∈ P → batchLast c < batchLast b) :
    JInv idx (P ++ [Entry.batch b]) (consumeAborted (batchLast b) rem abs).1
      (if b.control = true then absAfter b (consumeAborted (batchLast b) rem abs).2
       else (consumeAborted (batchLast b) rem abs).2) := by
  have ⟨c1, c2, _⟩ := consume_spec (batchLast b) rem abs h.sorted
  have hmem := h.consumed b hP
  refine ⟨c1, ?_, ?_⟩
  · intro t
    rw [c2 t, h.rem_iff t]
    constructor
    · rintro ⟨⟨hi, hnc⟩, hlt⟩
      refine ⟨hi, ?_⟩
      intro c hc
      rcases List.mem_append.1 hc with hc | hc
      · exact hnc c hc
      · simp only [List.mem_singleton, Entry.batch.injEq] at hc; subst hc; exact hlt
    · rintro ⟨hi, hnc⟩
      exact ⟨⟨hi, fun c hc => hnc c (List.mem_append_left _ hc)⟩, hnc b (by simp)⟩
  · intro p
    -- membership in the new aborted set: consumed-membership minus the abort marker's producer
    have hnew : p ∈ (if b.control = true then absAfter b (consumeAborted (batchLast b) rem abs).2
        else (consumeAborted (batchLast b) rem abs).2) ↔
        p ∈ (consumeAborted (batchLast b) rem abs).2 ∧ ¬ isAbortMarker p b := by
      unfold isAbortMarker absAfter
      by_cases hc : b.control = true
      · by_cases ha : b.ctl = Ctl.abort
        · simp only [hc, ha, ↓reduceIte, List.mem_filter, decide_eq_true_eq, true_and, and_true, ne_eq]
          constructor
          · rintro ⟨h1, h2⟩; exact ⟨h1, fun h => h2 h.symm⟩
          · rintro ⟨h1, h2⟩; exact ⟨h1, fun h => h2 h.symm⟩
        · simp [hc, ha]
      · simp [hc]
    rw [hnew, hmem p]
    constructor
    · rintro ⟨⟨f, hf, hle, hclean⟩, hnb⟩
      refine ⟨f, hf, ⟨b, by simp, hle⟩, ?_⟩
      intro c hc hcm
      rcases List.mem_append.1 hc with hc | hc
      · exact hclean c hc hcm
      · simp only [List.mem_singleton, Entry.batch.injEq] at hc; subst hc; exact absurd hcm hnb
    · rintro ⟨f, hf, ⟨c, hc, hfc⟩, hclean⟩
      have hfb : f ≤ batchLast b := by
        rcases List.mem_append.1 hc with hc | hc
        · have := hP c hc; omega
        · simp only [List.mem_singleton, Entry.batch.injEq] at hc; subst hc; exact hfc
      refine ⟨⟨f, hf, hfb, fun c hc hcm => hclean c (List.mem_append_left _ hc) hcm⟩, ?_⟩
      intro hbm
      have := hclean b (by simp) hbm
      omega

theorem mem_units_bat {c : Batch} : ∀ {es : List Entry}, LUnit.bat c ∈ es.flatMap entryUnits ↔ Entry.batch c ∈ es
  | [] => by simp
  | .legacy blks :: es => by
      simp only [List.flatMap_cons, List.mem_append, List.mem_cons, reduceCtorEq, false_or, mem_units_bat (es := es)]
      constructor
      · rintro (h | h)
        · simp [entryUnits] at h
        · exact h
      · exact Or.inr
  | .batch b :: es => by
      simp only [List.flatMap_cons, List.mem_append, List.mem_cons, Entry.batch.injEq, mem_units_bat (es := es)]
      simp [entryUnits]

/-- **the keep decisions are the ground truth** (read-committed, faithful index) -/
theorem keeps_truth (cfg : Cfg) (hrc : cfg.readCommitted = true) (L pre post : List LUnit) (esAll : List Entry)
    (idx : List (Int × Int)) (o hiEnd : Int)
    (hL : L = pre ++ esAll.flatMap entryUnits ++ post) (hs : HiSorted L) (hbase : BaseWF L)
    (hidx : FaithfulIndex L o hiEnd idx) (hpre : ∀ u ∈ pre, unitHi u < o)
    (hrun : ∀ u ∈ esAll.flatMap entryUnits, o ≤ unitHi u)
    (hend : ∀ b, Entry.batch b ∈ esAll → batchLast b ≤ hiEnd) :
    ∀ (Q P : List Entry) (rem : List (Int × Int)) (abs : List Int), esAll = P ++ Q → JInv idx P rem abs →
      keeps cfg Q rem abs = truthKeeps true Q post
  | [], _, _, _, _, _ => rfl
  | .legacy blks :: Q', P, rem, abs, hPQ, hJ => by
      have ih := keeps_truth cfg hrc L pre post esAll idx o hiEnd hL hs hbase hidx hpre hrun hend Q'
        (P ++ [Entry.legacy blks]) rem abs (by simp [hPQ]) (hJ.legacy blks)
      simp [keeps, truthKeeps, ih]
  | .batch b :: Q', P, rem, abs, hPQ, hJ => by
      -- the log around b
      have hL' : L = (pre ++ P.flatMap entryUnits) ++ LUnit.bat b :: (Q'.flatMap entryUnits ++ post) := by
        rw [hL, hPQ]; simp [List.flatMap_append, entryUnits, List.append_assoc]
      have hs' := hs
      rw [hL'] at hs'
      unfold HiSorted at hs'
      rw [List.pairwise_append] at hs'
      obtain ⟨_, hbs, hab⟩ := hs'
      have hP : ∀ c, Entry.batch c ∈ P → batchLast c < batchLast b := by
        intro c hc
        have := hab (LUnit.bat c) (List.mem_append_right _ (mem_units_bat.2 hc)) _ List.mem_cons_self
        simpa [unitHi] using this
      have hbL : LUnit.bat b ∈ L := by rw [hL']; simp
      have hbAll : Entry.batch b ∈ esAll := by rw [hPQ]; simp
      have ih := keeps_truth cfg hrc L pre post esAll idx o hiEnd hL hs hbase hidx hpre hrun hend Q'
        (P ++ [Entry.batch b]) _ _ (by simp [hPQ]) (hJ.step b hP)
      unfold keeps truthKeeps
      by_cases hc : b.control = true
      · simp only [hc, ↓reduceIte] at ih ⊢
        rw [ih]
        simp [keepIso, keepRC, hc]
      · simp only [hc, Bool.false_eq_true, ↓reduceIte] at ih ⊢
        rw [ih]
        congr 1
        have hcf : b.control = false := by simpa using hc
        by_cases ht : b.txn = true
        · -- transactional data batch: aborted-set membership ⟺ next marker is an abort marker
          have hd : isTxnData b.pid b := ⟨hcf, ht, rfl⟩
          have hagree := index_agrees L o hiEnd idx b.pid b (fun c => Entry.batch c ∈ P) hs hbase hidx hbL hd
            (by have := hrun (LUnit.bat b) (mem_units_bat.2 hbAll); simpa [unitHi] using this) (hend b hbAll)
            (fun c hc => ⟨by rw [hL']; exact List.mem_append_left _ (List.mem_append_right _ (mem_units_bat.2 hc)), hP c hc⟩)
            (by
              intro c hcL hco hcb
              rw [hL'] at hcL
              rcases List.mem_append.1 hcL with h | h
              · rcases List.mem_append.1 h with h | h
                · have := hpre _ h; simp only [unitHi] at this; omega
                · exact mem_units_bat.1 h
              · rcases List.mem_cons.1 h with h | h
                · cases h; omega
                · have := (List.pairwise_cons.1 hbs).1 _ h; simp only [unitHi] at this; omega)
          have htruth := nextMarker_nextAbort b.pid (pre ++ P.flatMap entryUnits) (Q'.flatMap entryUnits ++ post) b
            (by rw [← hL']; exact hs)
          rw [← hL'] at htruth
          have hmem := hJ.consumed b hP b.pid
          have hiff : b.pid ∈ (consumeAborted (batchLast b) rem abs).2 ↔
              nextMarker b.pid (Q'.flatMap entryUnits ++ post) = some Ctl.abort := by
            rw [hmem, hagree, htruth]
          by_cases hin : b.pid ∈ (consumeAborted (batchLast b) rem abs).2
          · have := hiff.1 hin
            simp [keepIso, keepRC, hcf, ht, hrc, hin, this]
          · have : ¬ nextMarker b.pid (Q'.flatMap entryUnits ++ post) = some Ctl.abort := fun h => hin (hiff.2 h)
            simp [keepIso, keepRC, hcf, ht, hrc, hin, this]
        · have htf : b.txn = false := by simpa using ht
          simp [keepIso, keepRC, hcf, htf]

end Lemmas.C11
