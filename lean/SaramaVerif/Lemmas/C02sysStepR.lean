/-
  C02 composition: the broker processing the set at the bridge (log append) keeps `Good`.
-/
import SaramaVerif.Lemmas.C02sysLog
import SaramaVerif.Lemmas.C02sysStepB

set_option linter.unusedSimpArgs false

namespace Lemmas.C02sys
open Model Model.Pipeline

theorem dataIds_allData {l : List Tok} (h : ∀ t ∈ l, t.kind = .data) : dataIds l = l.map (·.id) := by
  simp only [dataIds]
  congr 1
  simp only [List.filter_eq_self]
  intro t ht; simp [h t ht]

/-- the system after the broker of worker 0 has processed the set `sent` with verdict `vd` -/
def brokerS (s : Sys) (vd : Pipeline.Verdict) (sent : List Tok) : Sys :=
  { s with log := if vd.appends then s.log ++ dataIds sent else s.log,
           wk := setW s.wk 0 { s.wk 0 with pend := some (vd, s.log.length) } }

theorem broker_split {M : Nat} {s s' : Sys} {vd : Pipeline.Verdict} (h : sysStep M s (.broker 0 vd) = some s') :
    ∃ sent rest, (W s).bp.sets = sent :: rest ∧ (W s).pend = none ∧ s' = brokerS s vd sent := by
  simp only [sysStep] at h
  split at h
  · rename_i sent rest hs hp
    split at h
    · cases h
    · exact ⟨sent, rest, hs, hp, by simpa [brokerS] using h.symm⟩
  · cases h

theorem good_broker {M : Nat} {s s' : Sys} {v : View} {vd : Pipeline.Verdict} (h : Good M s v)
    (hs : sysStep M s (.broker 0 vd) = some s') : Good M s' v := by
  obtain ⟨sent, rest, hsets, hpend, rfl⟩ := broker_split hs
  have hrest : rest = [] := by
    have := h.conc.pinv.one; rw [hsets] at this
    simp only [List.length_cons] at this
    exact List.eq_nil_of_length_eq_zero (by omega)
  subst hrest
  have hW : W (brokerS s vd sent) = ⟨(W s).inq, (W s).bp, some (vd, s.log.length)⟩ := by
    simp [brokerS, W, setW]
  have hrep : Rep M (brokerS s vd sent) v := by
    have h1 := rep_sameW h.rep (W s).bp (some (vd, s.log.length)) rfl rfl rfl
    exact rep_congr h1 rfl rfl rfl rfl rfl (by simp [brokerS, afterW, setW])
  have hconc : Conc M (brokerS s vd sent) v := by
    have hc := h.conc
    refine ⟨by rw [hW]; exact hc.pinv, ?_, hc.lvl, ?_, hc.ret1, hc.cur01, hc.capN, hc.crash⟩
    · show P0 (s.pq ++ s.dq ++ s.ret ++ (W (brokerS s vd sent)).inq ++ ins (brokerS s vd sent))
      rw [show ins (brokerS s vd sent) = ins s from by simp [ins, hW],
        show (W (brokerS s vd sent)).inq = (W s).inq from by rw [hW]]
      exact hc.p0
    · rw [hW]; exact hc.finq
  obtain ⟨rest, hgw⟩ := sent_prefix h.rep sent hsets
  have hsd : ∀ t ∈ sent, t.kind = .data := fun t ht => h.vinv.gdata t (by rw [hgw]; exact List.mem_append_left _ ht)
  have hids : dataIds sent = sent.map (·.id) := dataIds_allData hsd
  have hsorted := gw_sorted h.vinv
  rw [hgw, List.pairwise_append] at hsorted
  have hl := h.log
  have F3 : ∀ x ∈ sent, LiveId v x.id := fun x hx =>
    ⟨x, Or.inl (by rw [hgw]; exact List.mem_append_left _ hx), rfl⟩
  have F1 : ∀ x ∈ sent, ∀ a, LiveId v a → a < x.id → a ∈ sent.map (·.id) := by
    intro x hx a ⟨y, hy, hya⟩ hax
    have hxg : x ∈ v.gw := by rw [hgw]; exact List.mem_append_left _ hx
    rcases hy with hy | hy
    · rw [hgw] at hy
      rcases List.mem_append.1 hy with hy | hy
      · exact List.mem_map.2 ⟨y, hy, hya⟩
      · have := hsorted.2.2 x hx y hy; omega
    · have := h.vinv.low x hxg y hy; omega
  have F2 : (sent.map (·.id)).Pairwise (· < ·) := by
    rw [List.pairwise_map]; exact hsorted.1
  have hpend : ∀ vd' base, (W (brokerS s vd sent)).pend = some (vd', base) →
      vd' = vd ∧ base = s.log.length := by
    intro vd' base hp; rw [hW] at hp; simp at hp; exact ⟨hp.1.symm, hp.2.symm⟩
  refine ⟨hrep, h.vinv, hconc, ?_⟩
  cases ha : vd.appends with
  | false =>
    have hlog : (brokerS s vd sent).log = s.log := by simp [brokerS, ha]
    refine ⟨by rw [hlog]; exact hl.K, by rw [hlog]; exact hl.J, hl.S1, hl.S3, by rw [hlog]; exact hl.S5, hl.S6,
      hl.idlt, by rw [hlog]; exact hl.Llt, ?_⟩
    intro vd' base hp
    obtain ⟨rfl, rfl⟩ := hpend vd' base hp
    refine ⟨sent, by rw [hW]; exact hsets, hl.S5, ?_⟩
    intro hok; rw [hok] at ha; cases ha
  | true =>
    have hlog : (brokerS s vd sent).log = s.log ++ sent.map (·.id) := by simp [brokerS, ha, hids]
    refine ⟨?_, ?_, hl.S1, hl.S3, ?_, hl.S6, hl.idlt, ?_, ?_⟩
    · rw [hlog]; intro b hb a hla hab
      rcases List.mem_append.1 hb with hb | hb
      · exact List.mem_append_left _ (hl.K b hb a hla hab)
      · obtain ⟨x, hx, rfl⟩ := List.mem_map.1 hb
        exact List.mem_append_right _ (F1 x hx a hla hab)
    · rw [hlog]
      refine J_append hl.J F2 ?_
      intro b hb a ha' hab
      obtain ⟨x, hx, rfl⟩ := List.mem_map.1 ha'
      exact hl.K b hb x.id (F3 x hx) hab
    · rw [hlog]; intro p hp; have := hl.S5 p hp; simp only [List.length_append]; omega
    · rw [hlog]; intro b hb
      rcases List.mem_append.1 hb with hb | hb
      · exact hl.Llt b hb
      · obtain ⟨x, hx, rfl⟩ := List.mem_map.1 hb
        exact hl.idlt x.id (F3 x hx)
    · intro vd' base hp
      obtain ⟨rfl, rfl⟩ := hpend vd' base hp
      refine ⟨sent, by rw [hW]; exact hsets, hl.S5, ?_⟩
      intro _; rw [hlog]; simp

end Lemmas.C02sys
