/-
  C02 composition, abstract layer: no transition of the view creates a token id (except a fresh submission).
-/
import SaramaVerif.Lemmas.C02sysView2

namespace Lemmas.C02sys
open Model Model.Pipeline

/-- `i` is the id of a data token of the view -/
def LiveId (v : View) (i : Int) : Prop :=
  ∃ x, (x ∈ v.gw ∨ x ∈ data v.av ∨ ∃ k, x ∈ v.buf k) ∧ x.id = i

theorem live_shrink {v' v : View} (s : Shrink v' v) {i : Int} (h : LiveId v' i) : LiveId v i := by
  obtain ⟨x, hx, rfl⟩ := h
  refine ⟨x, ?_, rfl⟩
  rcases hx with hx | hx | ⟨k, hx⟩
  · exact Or.inl (s.gw.subset hx)
  · exact Or.inr (Or.inl ((data_sublist s.av).subset hx))
  · exact Or.inr (Or.inr ⟨k, by simpa [View.buf, s.pp] using hx⟩)

theorem live_fresh {v : View} (l1 l2 : List Tok) (n : Int) (hav : v.av = l1 ++ l2) {i : Int}
    (h : LiveId { v with av := l1 ++ freshTok n :: l2 } i) : LiveId v i ∨ i = n := by
  obtain ⟨x, hx, rfl⟩ := h
  rcases hx with hx | hx | ⟨k, hx⟩
  · exact Or.inl ⟨x, Or.inl hx, rfl⟩
  · change x ∈ data (l1 ++ freshTok n :: l2) at hx
    rw [data_append, data_cons_data _ (freshTok_data n)] at hx
    simp only [List.mem_append, List.mem_cons] at hx
    rcases hx with hx | rfl | hx
    · exact Or.inl ⟨x, Or.inr (Or.inl (by rw [hav, data_append]; exact List.mem_append_left _ hx)), rfl⟩
    · right; rfl
    · exact Or.inl ⟨x, Or.inr (Or.inl (by rw [hav, data_append]; exact List.mem_append_right _ hx)), rfl⟩
  · exact Or.inl ⟨x, Or.inr (Or.inr ⟨k, hx⟩), rfl⟩

theorem live_park {v : View} (px : PartProd.Tok) (rest : List Tok) (hav : v.av = ofPP px :: rest)
    (hf : px.fin = false) {i : Int} (h : LiveId (parkV v px rest) i) : LiveId v i := by
  obtain ⟨x, hx, rfl⟩ := h
  have hhead : ofPP px ∈ data v.av := by rw [hav, data_cons_data _ (ofPP_data hf)]; exact List.mem_cons_self ..
  rcases hx with hx | hx | ⟨k, hx⟩
  · exact ⟨x, Or.inl hx, rfl⟩
  · refine ⟨x, Or.inr (Or.inl ?_), rfl⟩
    change x ∈ data rest at hx
    rw [hav]; exact (data_sublist (List.sublist_cons_self _ _)).subset hx
  · rcases parkV_mem hx with hx | ⟨rfl, _⟩
    · exact ⟨x, Or.inr (Or.inr ⟨k, hx⟩), rfl⟩
    · exact ⟨_, Or.inr (Or.inl hhead), rfl⟩

theorem live_finV {v : View} (f : Tok) (rest : List Tok) (hav : v.av = f :: rest) {i : Int}
    (h : LiveId (finV v f.retries rest) i) : LiveId v i := by
  obtain ⟨x, hx, rfl⟩ := h
  rcases hx with hx | hx | ⟨k, hx⟩
  · exact ⟨x, Or.inl hx, rfl⟩
  · refine ⟨x, Or.inr (Or.inl ?_), rfl⟩
    change x ∈ data rest at hx
    rw [hav]; exact (data_sublist (List.sublist_cons_self _ _)).subset hx
  · exact ⟨x, Or.inr (Or.inr ⟨k, hx⟩), rfl⟩

theorem live_emitGood {v : View} (x : Tok) (rest : List Tok) (hav : v.av = x :: rest) (hx : isData x = true)
    {i : Int} (h : LiveId ⟨v.pp, v.gw ++ [x], rest, v.good⟩ i) : LiveId v i := by
  obtain ⟨y, hy, rfl⟩ := h
  have hhead : x ∈ data v.av := by rw [hav, data_cons_data _ hx]; exact List.mem_cons_self ..
  rcases hy with hy | hy | ⟨k, hy⟩
  · rcases List.mem_append.1 hy with hy | hy
    · exact ⟨y, Or.inl hy, rfl⟩
    · rw [List.mem_singleton.1 hy]; exact ⟨x, Or.inr (Or.inl hhead), rfl⟩
  · refine ⟨y, Or.inr (Or.inl ?_), rfl⟩
    change y ∈ data rest at hy
    rw [hav]; exact (data_sublist (List.sublist_cons_self _ _)).subset hy
  · exact ⟨y, Or.inr (Or.inr ⟨k, hy⟩), rfl⟩

/-- generic: the new view has no gw, the old buffers, and a stream made of old stream tokens and bumped old tokens -/
theorem live_bad {v : View} {pp' : PartProd.St} {av' : List Tok} {i : Int}
    (hb : ∀ k x, x ∈ View.buf ⟨pp', [], av', false⟩ k → x ∈ v.buf k)
    (ha : ∀ x ∈ data av', x ∈ data v.av ∨ ∃ y, (y ∈ v.gw ∨ y ∈ data v.av ∨ ∃ k, y ∈ v.buf k) ∧ x = bump y)
    (h : LiveId ⟨pp', [], av', false⟩ i) : LiveId v i := by
  obtain ⟨x, hx, rfl⟩ := h
  rcases hx with hx | hx | ⟨k, hx⟩
  · cases hx
  · rcases ha x hx with hx | ⟨y, hy, rfl⟩
    · exact ⟨x, Or.inr (Or.inl hx), rfl⟩
    · exact ⟨y, hy, rfl⟩
  · exact ⟨x, Or.inr (Or.inr ⟨k, hb k x hx⟩), rfl⟩

theorem mem_data_bumpF {M : Nat} {l : List Tok} {x : Tok} (h : x ∈ data (bumpF M l)) : ∃ y ∈ l, x = bump y :=
  mem_bumpF (mem_data.1 h).1

theorem live_emitBad {v : View} (M : Nat) (x : Tok) (rest : List Tok) (hav : v.av = x :: rest)
    (hx : isData x = true) {i : Int} (h : LiveId ⟨v.pp, [], rest ++ bumpF M [x], false⟩ i) : LiveId v i := by
  have hhead : x ∈ data v.av := by rw [hav, data_cons_data _ hx]; exact List.mem_cons_self ..
  refine live_bad (fun _ _ hx => hx) ?_ h
  intro y hy
  rw [data_append] at hy
  rcases List.mem_append.1 hy with hy | hy
  · left; rw [hav]; exact (data_sublist (List.sublist_cons_self _ _)).subset hy
  · obtain ⟨z, hz, rfl⟩ := mem_data_bumpF hy
    rw [List.mem_singleton.1 hz]
    exact Or.inr ⟨x, Or.inr (Or.inl hhead), rfl⟩

theorem live_rise {v : View} (l : Nat) (g' : Bool) {i : Int} (h : LiveId (riseV v l g') i) : LiveId v i := by
  obtain ⟨x, hx, rfl⟩ := h
  rcases hx with hx | hx | ⟨k, hx⟩
  · exact ⟨x, Or.inl hx, rfl⟩
  · refine ⟨x, Or.inr (Or.inl ?_), rfl⟩
    change x ∈ data (v.av ++ [finTok l]) at hx
    rw [data_append, data_cons_not _ (finTok_notData _)] at hx
    simpa [data] using hx
  · exact ⟨x, Or.inr (Or.inr ⟨k, hx⟩), rfl⟩

theorem live_fail {v : View} (M : Nat) {i : Int} (h : LiveId ⟨v.pp, [], v.av ++ bumpF M v.gw, false⟩ i) :
    LiveId v i := by
  refine live_bad (fun _ _ hx => hx) ?_ h
  intro y hy
  rw [data_append] at hy
  rcases List.mem_append.1 hy with hy | hy
  · exact Or.inl hy
  · obtain ⟨z, hz, rfl⟩ := mem_data_bumpF hy
    exact Or.inr ⟨z, Or.inl hz, rfl⟩

theorem live_stepV {v : View} (M : Nat) (j : Nat) {i : Int} (h : LiveId (stepV M v j) i) : LiveId v i := by
  obtain ⟨x, hx, rfl⟩ := h
  rcases hx with hx | hx | ⟨k, hx⟩
  · rcases List.mem_append.1 hx with hx | hx
    · exact ⟨x, Or.inl hx, rfl⟩
    · split at hx
      · exact ⟨x, Or.inr (Or.inr ⟨j, hx⟩), rfl⟩
      · cases hx
  · change x ∈ data (v.av ++ _) at hx
    rw [data_append] at hx
    rcases List.mem_append.1 hx with hx | hx
    · exact ⟨x, Or.inr (Or.inl hx), rfl⟩
    · split at hx
      · simp [data] at hx
      · obtain ⟨z, hz, rfl⟩ := mem_data_bumpF hx
        exact ⟨z, Or.inr (Or.inr ⟨j, hz⟩), rfl⟩
  · exact ⟨x, Or.inr (Or.inr ⟨k, (down_mem hx).1⟩), rfl⟩

theorem live_flushV (M : Nat) : ∀ (n : Nat) {v : View} {i : Int}, v.pp.hwm = n + 1 →
    LiveId (flushV M v) i → LiveId v i := by
  intro n
  induction n with
  | zero =>
    intro v i hj h
    rw [flushV_stop M v 0 hj (Or.inr rfl)] at h
    exact live_stepV M 0 h
  | succ n ih =>
    intro v i hj h
    by_cases hs : v.pp.expect (n + 1) = true
    · rw [flushV_stop M v (n + 1) hj (Or.inl hs)] at h; exact live_stepV M _ h
    · have hs' : v.pp.expect (n + 1) = false := by simpa using hs
      rw [flushV_cont M v (n + 1) hj hs' (by omega)] at h
      exact live_stepV M _ (ih (v := stepV M v (n + 1)) rfl h)

end Lemmas.C02sys
