/-
  C02 composition, handover chain - abstract layer: a token of an OLD broker worker (still draining its queue)
  or of the current worker reaches the retries queue while tokens of older workers are still to come: in the
  canonical arrival stream  pp.input ++ p.input ++ retries ++ lanes of the old workers (oldest first) ++ tail of the
  current worker  it jumps to the left over the lanes in between.  The ordering invariant `VInv` survives because
  lanes occupy disjoint retry-level bands.
-/
import SaramaVerif.Lemmas.C02sysLive

namespace Lemmas.C02sys
open Model Model.Pipeline

theorem data_move (X Y Z : List Tok) (t : Tok) :
    data (X ++ t :: (Y ++ Z)) = if isData t then data X ++ t :: (data Y ++ data Z) else data X ++ (data Y ++ data Z) := by
  by_cases ht : isData t = true
  · simp [data_append, data_cons_data _ ht, ht]
  · have ht' : isData t = false := by simpa using ht
    simp [data_append, data_cons_not _ ht', ht']

theorem data_move0 (X Y Z : List Tok) (t : Tok) :
    data (X ++ Y ++ t :: Z) = if isData t then data X ++ data Y ++ t :: data Z else data X ++ data Y ++ data Z := by
  by_cases ht : isData t = true
  · simp [data_append, data_cons_data _ ht, ht]
  · have ht' : isData t = false := by simpa using ht
    simp [data_append, data_cons_not _ ht', ht']

theorem R_symm_of_ne {a b : Tok} (h : R a b) (hne : a.retries ≠ b.retries) : R b a := by
  obtain ⟨h1, h2⟩ := h
  constructor
  · intro hle; exact h2 (by omega)
  · intro hlt; exact h1 (by omega)

/-- the view after the token `t` has jumped over `Y` -/
def moveV (v : View) (X Y Z : List Tok) (t : Tok) : View := { v with av := X ++ t :: (Y ++ Z) }

theorem VInv.moveLeft {v : View} (h : VInv v) (X Y Z : List Tok) (t : Tok) (hav : v.av = X ++ Y ++ t :: Z)
    (hne : isData t = true → ∀ y ∈ data Y, y.retries ≠ t.retries)
    (hlow : ∀ y ∈ data Y, y.retries ≤ v.pp.hwm)
    (hfin : t.kind = .fin → ∀ y ∈ data Y, Cov v.pp.expect t y) : VInv (moveV v X Y Z t) := by
  have hmem : ∀ x, x ∈ X ++ t :: (Y ++ Z) ↔ x ∈ v.av := by
    intro x; rw [hav]; simp only [List.mem_append, List.mem_cons]; grind
  have hdmem : ∀ x, x ∈ data (X ++ t :: (Y ++ Z)) ↔ x ∈ data v.av := by
    intro x; rw [mem_data, mem_data, hmem]
  refine ⟨fun k => ?_, h.bufx, ?_, h.ghw, h.gdesc, h.gdata, h.gbad, ?_, ?_, ?_, ?_, ?_, ?_, h.pinv⟩
  · show (v.gw ++ v.buf k ++ data (X ++ t :: (Y ++ Z))).Pairwise R
    have h0 := h.ord k
    rw [hav, data_move0] at h0
    rw [data_move]
    by_cases ht : isData t = true
    · simp only [ht, ↓reduceIte] at h0 ⊢
      have h1 : (v.gw ++ v.buf k ++ data X ++ data Y ++ t :: data Z).Pairwise R := by
        simpa [List.append_assoc] using h0
      have := pairwise_move_left h1 (fun b hb => by
        have hbt : R b t := by
          rw [List.pairwise_append] at h1
          exact h1.2.2 b (List.mem_append_right _ hb) t (List.mem_cons_self ..)
        exact R_symm_of_ne hbt (hne ht b hb))
      simpa [List.append_assoc] using this
    · simp only [ht, ↓reduceIte] at h0 ⊢
      simpa [List.append_assoc] using h0
  · intro g hg x hx
    refine h.low g hg x ?_
    rcases hx with hx | hx
    · exact Or.inl ((hdmem x).1 hx)
    · exact Or.inr hx
  · show Desc ((data (X ++ t :: (Y ++ Z))).filter (fun x => decide (v.pp.hwm < x.retries)))
    have h0 := h.hi
    rw [hav, data_move0] at h0
    rw [data_move]
    have hY : (data Y).filter (fun x => decide (v.pp.hwm < x.retries)) = [] := by
      simp only [List.filter_eq_nil_iff, decide_eq_true_eq]
      intro y hy; have := hlow y hy; omega
    cases ht : isData t with
    | true =>
      simp only [ht, ↓reduceIte, List.filter_append, List.filter_cons, hY, List.append_nil, List.nil_append] at h0 ⊢
      exact h0
    | false =>
      simp only [ht, Bool.false_eq_true, ↓reduceIte, List.filter_append, hY, List.append_nil, List.nil_append] at h0 ⊢
      exact h0
  · intro hg x hx; exact h.cap hg x ((hdmem x).1 hx)
  · show (X ++ t :: (Y ++ Z)).Pairwise (Cov v.pp.expect)
    have h0 := h.beh
    rw [hav] at h0
    refine pairwise_move_left h0 ?_
    intro y hy hk hyd
    exact hfin hk y (mem_data.2 ⟨hy, hyd⟩) hk hyd
  · intro f hf hk; exact h.fin1 f ((hmem f).1 hf) hk
  · show (finLevels (X ++ t :: (Y ++ Z))).Nodup
    have hp : (X ++ t :: (Y ++ Z)).Perm v.av := by
      rw [hav, List.append_assoc]
      exact (List.perm_middle (l₁ := Y) (l₂ := Z) (a := t)).symm.append_left X |>.symm.symm
    exact ((hp.filter _).map _).nodup_iff.2 h.fin2
  · intro x hx; exact h.nosyn x ((hmem x).1 hx)

theorem live_move {v : View} (X Y Z : List Tok) (t : Tok) (hav : v.av = X ++ Y ++ t :: Z) {i : Int}
    (h : LiveId (moveV v X Y Z t) i) : LiveId v i := by
  obtain ⟨x, hx, rfl⟩ := h
  refine ⟨x, ?_, rfl⟩
  rcases hx with hx | hx | hx
  · exact Or.inl hx
  · refine Or.inr (Or.inl ?_)
    change x ∈ data (X ++ t :: (Y ++ Z)) at hx
    rw [mem_data] at hx ⊢
    refine ⟨?_, hx.2⟩
    rw [hav]; have := hx.1
    simp only [List.mem_append, List.mem_cons] at this ⊢; grind
  · exact Or.inr (Or.inr hx)

/-- a block of data tokens jumps over `Y` (the answer to a failed produce set reaches the retries queue while the
    old workers are still draining) -/
theorem VInv.moveBlock : ∀ (B : List Tok) {v : View} (X Y Z : List Tok), VInv v → v.av = X ++ Y ++ B ++ Z →
    (∀ b ∈ B, isData b = true ∧ ∀ y ∈ data Y, y.retries ≠ b.retries) → (∀ y ∈ data Y, y.retries ≤ v.pp.hwm) →
    VInv { v with av := X ++ B ++ Y ++ Z } ∧ ∀ i, LiveId { v with av := X ++ B ++ Y ++ Z } i → LiveId v i := by
  intro B
  induction B with
  | nil =>
    intro v X Y Z h hav _ _
    have : ({ v with av := X ++ [] ++ Y ++ Z } : View) = v := by
      cases v; simp at hav ⊢; exact hav.symm
    rw [this]; exact ⟨h, fun _ hi => hi⟩
  | cons b B' ih =>
    intro v X Y Z h hav hB hlow
    have hav1 : v.av = X ++ Y ++ b :: (B' ++ Z) := by rw [hav]; simp [List.append_assoc]
    have hb := hB b (List.mem_cons_self ..)
    have h1 := h.moveLeft X Y (B' ++ Z) b hav1 (fun _ => hb.2) hlow
      (fun hk => by have := kind_of_data hb.1; rw [this] at hk; cases hk)
    have hav2 : (moveV v X Y (B' ++ Z) b).av = (X ++ [b]) ++ Y ++ B' ++ Z := by
      simp [moveV, List.append_assoc]
    obtain ⟨h2, l2⟩ := ih (v := moveV v X Y (B' ++ Z) b) (X ++ [b]) Y Z h1 hav2
      (fun x hx => hB x (List.mem_cons_of_mem _ hx)) hlow
    have e : ({ moveV v X Y (B' ++ Z) b with av := (X ++ [b]) ++ B' ++ Y ++ Z } : View) =
        { v with av := X ++ b :: B' ++ Y ++ Z } := by
      simp [moveV, List.append_assoc]
    rw [e] at h2 l2
    exact ⟨h2, fun i hi => live_move X Y (B' ++ Z) b hav1 (l2 i hi)⟩

end Lemmas.C02sys
