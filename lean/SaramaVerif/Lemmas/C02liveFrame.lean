/-
  C02 composition, progress: what a step leaves in place (frame facts used by the no-stuck-state argument).
-/
import SaramaVerif.Lemmas.C02chRun
import SaramaVerif.Lemmas.C02sysFifo

set_option linter.unusedSimpArgs false

namespace Lemmas.C02sys
open Model Model.Pipeline Model.BrokerProd

theorem pushW_inq (f : Nat → Worker) (w : Nat) (t : Tok) (k : Nat) :
    ∃ post, (pushW f w t k).inq = (f k).inq ++ post := by
  by_cases h : k = w
  · exact ⟨[t], by simp [pushW, setW, h]⟩
  · exact ⟨[], by simp [pushW, setW, h]⟩

theorem pushW_mem (f : Nat → Worker) (w : Nat) (t : Tok) : t ∈ (pushW f w t w).inq := by
  simp [pushW, setW]

/-- the partition producer's actions only append to the workers' input channels, never touch `pp`, and never
    clear the crash flag -/
theorem ppAct_grow (s : Sys) (lks : List (Option Nat)) (a : PartProd.Action) :
    (ppAct s lks a).1.pp = s.pp ∧ (s.crash = true → (ppAct s lks a).1.crash = true) ∧
    ∀ k, ∃ post, ((ppAct s lks a).1.wk k).inq = (s.wk k).inq ++ post := by
  cases a with
  | finSend l =>
    simp only [ppAct]; split
    · exact ⟨rfl, fun _ => rfl, fun k => ⟨[], by simp⟩⟩
    · exact ⟨rfl, fun h => h, fun k => pushW_inq _ _ _ k⟩
  | emit id l fin =>
    simp only [ppAct]; split
    · exact ⟨rfl, fun h => h, fun k => pushW_inq _ _ _ k⟩
    · split
      · rename_i w r
        refine ⟨rfl, fun h => h, fun k => ?_⟩
        obtain ⟨p1, h1⟩ := pushW_inq s.wk w synTok k
        obtain ⟨p2, h2⟩ := pushW_inq (pushW s.wk w synTok) w (mkTok id l fin) k
        refine ⟨p1 ++ p2, ?_⟩
        show (pushW (pushW s.wk w synTok) w (mkTok id l fin) k).inq = (s.wk k).inq ++ (p1 ++ p2)
        rw [h2, h1, List.append_assoc]
      · exact ⟨rfl, fun h => h, fun k => ⟨[], by simp⟩⟩
  | park id => exact ⟨rfl, fun h => h, fun k => ⟨[], by simp [ppAct]⟩⟩
  | finDone => exact ⟨rfl, fun h => h, fun k => ⟨[], by simp [ppAct]⟩⟩

theorem ppActs_grow (as : List PartProd.Action) : ∀ (s : Sys) (lks : List (Option Nat)),
    (ppActs s lks as).pp = s.pp ∧ (s.crash = true → (ppActs s lks as).crash = true) ∧
    ∀ k, ∃ post, ((ppActs s lks as).wk k).inq = (s.wk k).inq ++ post := by
  induction as with
  | nil => intro s lks; exact ⟨rfl, fun h => h, fun k => ⟨[], by simp [ppActs]⟩⟩
  | cons a r ih =>
    intro s lks
    obtain ⟨h1, h2, h3⟩ := ih (ppAct s lks a).1 (ppAct s lks a).2
    obtain ⟨g1, g2, g3⟩ := ppAct_grow s lks a
    refine ⟨h1.trans g1, fun h => h2 (g2 h), fun k => ?_⟩
    obtain ⟨p1, e1⟩ := g3 k
    obtain ⟨p2, e2⟩ := h3 k
    exact ⟨p1 ++ p2, by simp only [ppActs]; rw [e2, e1, List.append_assoc]⟩

/-- the worker's actions touch only the retries queue (append) and the outcome lists -/
theorem bpActs_keep (as : List BrokerProd.Action) : ∀ (s : Sys) (off : Nat),
    (bpActs s off as).wk = s.wk ∧ (bpActs s off as).pp = s.pp ∧ (bpActs s off as).crash = s.crash := by
  induction as with
  | nil => intro s off; exact ⟨rfl, rfl, rfl⟩
  | cons a r ih =>
    intro s off
    obtain ⟨h1, h2, h3⟩ := ih (bpAct s off a).1 (bpAct s off a).2
    have hb : (bpAct s off a).1.wk = s.wk ∧ (bpAct s off a).1.pp = s.pp ∧ (bpAct s off a).1.crash = s.crash := by
      cases a <;> exact ⟨rfl, rfl, rfl⟩
    exact ⟨h1.trans hb.1, h2.trans hb.2.1, h3.trans hb.2.2⟩

theorem bpRun_keep {M : Nat} {s s' : Sys} {w : Nat} {q : List Tok} {pend : Option (Pipeline.Verdict × Nat)}
    {off : Nat} {i : BrokerProd.In} (h : bpRun M s w q pend off i = some s') :
    s'.wk = setW s.wk w ⟨q, (BrokerProd.step M (s.wk w).bp i).1, pend⟩ ∧ s'.pp = s.pp ∧ s'.crash = s.crash ∧
    (BrokerProd.step M (s.wk w).bp i).2 ≠ [.disabled] := by
  simp only [bpRun] at h
  split at h
  · cases h
  · rename_i hd
    simp only [Option.some.injEq] at h
    rw [← h]
    obtain ⟨h1, h2, h3⟩ := bpActs_keep (BrokerProd.step M (s.wk w).bp i).2
      { s with wk := setW s.wk w ⟨q, (BrokerProd.step M (s.wk w).bp i).1, pend⟩ } off
    exact ⟨h1, h2, h3, hd⟩

theorem recv_fin_acts (M : Nat) (b : St) (t : Tok) (ov : Bool) (hw : b.wait = none) (hk : t.kind = .fin) :
    (step M b (.recv t ov)).2 = [Action.refuse t.id, retryMsg M t] := by
  cases hn : needsRetry b t.part <;> simp [step, recv, hw, hk, hn]

/-- a chaser taken by a worker goes to the retries queue, one level up -/
theorem bpRecv_fin {M : Nat} {s s' : Sys} {w : Nat} {t : Tok} {r : List Tok} {ov : Bool}
    (hq : (s.wk w).inq = t :: r) (hk : t.kind = .fin) (hm : t.retries < M)
    (h : sysStep M s (.bpRecv w ov) = some s') : ∃ f ∈ s'.ret, f.kind = .fin ∧ f.retries = t.retries + 1 := by
  simp only [sysStep, hq] at h
  have hd := (bpRun_keep h).2.2.2
  have hw := recv_disabled M _ t ov hd
  have ha := recv_fin_acts M (s.wk w).bp t ov hw hk
  simp only [bpRun, hd, if_false, Option.some.injEq] at h
  rw [ha] at h
  have hr : retryMsg M t = .requeue t.id t.part (t.retries + 1) true := by
    simp [retryMsg, Nat.not_le.2 hm, Tok.isFin, hk]
  refine ⟨⟨t.id, t.part, t.retries + 1, .fin⟩, ?_, rfl, rfl⟩
  rw [← h, hr]
  simp [bpActs, bpAct]

end Lemmas.C02sys
