import SaramaVerif.Model.ConsumerParseSpec
/-
  Generic offset-filter machinery for C03 / C11: the scan loop over ascending records, windows of a sorted
  record list, and the walk over "segments" (what the offset logic sees of one RecordsSet entry).
-/
namespace Lemmas.C03
open Model.ConsumerParse

theorem Asc.mono {b b' : Int} (h : b' ≤ b) : ∀ {l}, Asc b l → Asc b' l
  | [], _ => trivial
  | _ :: _, ⟨h1, h2⟩ => ⟨by omega, h2⟩

theorem Asc.all_gt : ∀ {l b}, Asc b l → ∀ r ∈ l, b < r.off
  | [], _, _, r, hr => by cases hr
  | x :: xs, b, ⟨h1, h2⟩, r, hr => by
      rcases List.mem_cons.1 hr with rfl | h
      · exact h1
      · have := Asc.all_gt h2 r h; omega

theorem Asc.append : ∀ {l1 l2 : List SRec} {b m : Int}, Asc b l1 → (∀ r ∈ l1, r.off ≤ m) → b ≤ m → Asc m l2 →
    Asc b (l1 ++ l2)
  | [], _, _, _, _, _, hb, h2 => Asc.mono hb h2
  | x :: xs, l2, b, m, ⟨h1, hx⟩, hle, _, h2 => by
      refine ⟨h1, Asc.append hx (fun r hr => hle r (List.mem_cons_of_mem _ hr)) ?_ h2⟩
      exact hle x (List.mem_cons_self)

theorem window_append (a b : Int) (l1 l2 : List SRec) : window a b (l1 ++ l2) = window a b l1 ++ window a b l2 := by
  simp [window, List.filter_append]

theorem window_nil_of_lt {a b : Int} {l : List SRec} (h : ∀ r ∈ l, r.off < a) : window a b l = [] := by
  unfold window
  apply List.filter_eq_nil_iff.2
  intro r hr; have := h r hr; simp; omega

theorem window_nil_of_ge {a b : Int} {l : List SRec} (h : ∀ r ∈ l, b ≤ r.off) : window a b l = [] := by
  unfold window
  apply List.filter_eq_nil_iff.2
  intro r hr; have := h r hr; simp; omega

theorem window_congr {a a' b b' : Int} {l : List SRec}
    (h : ∀ r ∈ l, (a ≤ r.off ∧ r.off < b) ↔ (a' ≤ r.off ∧ r.off < b')) : window a b l = window a' b' l := by
  unfold window
  apply List.filter_congr
  intro r hr; have := h r hr; simp only [decide_eq_decide]; exact this

/-- splitting a window of an ascending list -/
theorem window_split {bnd : Int} : ∀ {l : List SRec}, Asc bnd l → ∀ {a b c : Int}, a ≤ b → b ≤ c →
    window a c l = window a b l ++ window b c l
  | [], _, _, _, _, _, _ => rfl
  | x :: xs, ⟨_, hx⟩, a, b, c, hab, hbc => by
      have ih := window_split hx hab hbc (a := a) (b := b) (c := c)
      unfold window at *
      simp only [List.filter_cons]
      by_cases h1 : a ≤ x.off ∧ x.off < b
      · have e1 := decide_eq_true h1
        have e2 : decide (a ≤ x.off ∧ x.off < c) = true := decide_eq_true ⟨h1.1, by omega⟩
        have e3 : decide (b ≤ x.off ∧ x.off < c) = false := decide_eq_false (by omega)
        rw [e1, e2, e3, ih]; rfl
      · by_cases h2 : b ≤ x.off ∧ x.off < c
        · have e1 := decide_eq_false h1
          have e2 : decide (a ≤ x.off ∧ x.off < c) = true := decide_eq_true ⟨by omega, h2.2⟩
          have e3 := decide_eq_true h2
          -- everything after x is ≥ b: the left window of xs is empty
          have hl : xs.filter (fun r => decide (a ≤ r.off ∧ r.off < b)) = [] := by
            apply List.filter_eq_nil_iff.2
            intro r hr; have := Asc.all_gt hx r hr
            simp only [decide_eq_true_eq]; omega
          rw [e1, e2, e3, ih, hl]; rfl
        · have e1 := decide_eq_false h1
          have e2 : decide (a ≤ x.off ∧ x.off < c) = false := decide_eq_false (by omega)
          have e3 := decide_eq_false h2
          rw [e1, e2, e3, ih]; rfl

/-! ### scan over ascending records -/

theorem scan_fst (o : Int) : ∀ {l : List SRec} {bnd : Int}, Asc bnd l →
    (scan o l).1 = l.filter (fun r => decide (o ≤ r.off))
  | [], _, _ => rfl
  | x :: xs, _, ⟨_, hx⟩ => by
      unfold scan
      by_cases h : x.off < o
      · have h' : ¬ (o ≤ x.off) := by omega
        simp only [h, ↓reduceIte, List.filter_cons, h', decide_false, Bool.false_eq_true]
        exact scan_fst o hx
      · have h' : o ≤ x.off := by omega
        simp only [h, ↓reduceIte, List.filter_cons, h', decide_true]
        rw [scan_fst (x.off + 1) hx]
        congr 1
        apply List.filter_congr
        intro r hr; have := Asc.all_gt hx r hr
        simp only [decide_eq_decide]; omega

/-- the offset after a scan: unchanged if nothing was emitted, else last emitted + 1; in both cases every
    record of the list lies below it or below `o` -/
theorem scan_snd (o : Int) : ∀ {l : List SRec} {bnd : Int}, Asc bnd l →
    o ≤ (scan o l).2 ∧ (∀ r ∈ l, r.off < (scan o l).2 ∨ r.off < o) ∧
    ((scan o l).1 = [] → (scan o l).2 = o) ∧
    (∀ m, (∀ r ∈ l, r.off ≤ m) → (scan o l).1 ≠ [] → (scan o l).2 ≤ m + 1) ∧
    ((scan o l).1 ≠ [] → o < (scan o l).2)
  | [], _, _ => ⟨Int.le_refl _, (fun _ h => by cases h), (fun _ => rfl), (fun _ _ h => absurd rfl h),
                 (fun h => absurd rfl h)⟩
  | x :: xs, _, ⟨_, hx⟩ => by
      unfold scan
      by_cases h : x.off < o
      · simp only [h, ↓reduceIte]
        have ⟨i1, i2, i3, i4, i5⟩ := scan_snd o hx
        refine ⟨i1, ?_, i3, (fun m hm => i4 m (fun r hr => hm r (List.mem_cons_of_mem _ hr))), i5⟩
        intro r hr
        rcases List.mem_cons.1 hr with rfl | hr
        · exact Or.inr h
        · exact i2 r hr
      · simp only [h, ↓reduceIte]
        have ⟨i1, i2, i3, i4, _⟩ := scan_snd (x.off + 1) hx
        refine ⟨by omega, ?_, (fun hc => by cases hc), ?_, (fun _ => by omega)⟩
        · intro r hr
          rcases List.mem_cons.1 hr with rfl | hr
          · left; omega
          · rcases i2 r hr with h1 | h1
            · exact Or.inl h1
            · have := Asc.all_gt hx r hr; omega
        · intro m hm _
          by_cases he : (scan (x.off + 1) xs).1 = []
          · rw [i3 he]; have := hm x List.mem_cons_self; omega
          · exact i4 m (fun r hr => hm r (List.mem_cons_of_mem _ hr)) he

/-! ### segments -/

/-- what the offset logic sees of one RecordsSet entry: its records (absolute offsets), the last offset of
    its range, and whether its records are handed to the application -/
structure Seg where
  recs : List SRec
  hi : Int
  keep : Bool

def segStep (o : Int) (s : Seg) : List SRec × Int := bump (scan o s.recs)

def segWalk (o : Int) : List Seg → List SRec × Int
  | [] => ([], o)
  | s :: ss => ((if s.keep then (segStep o s).1 else []) ++ (segWalk (segStep o s).2 ss).1,
                (segWalk (segStep o s).2 ss).2)

/-- well-formed chain of segments above `bnd`: records ascending, inside (previous hi, hi], hi increasing -/
def SegsWF (bnd : Int) : List Seg → Prop
  | [] => True
  | s :: ss => Asc bnd s.recs ∧ (∀ r ∈ s.recs, r.off ≤ s.hi) ∧ bnd < s.hi ∧ SegsWF s.hi ss

def segVis (ss : List Seg) : List SRec := ss.flatMap (fun s => if s.keep then s.recs else [])
def segAll (ss : List Seg) : List SRec := ss.flatMap (·.recs)

theorem SegsWF.mono {b b' : Int} (h : b' ≤ b) : ∀ {ss}, SegsWF b ss → SegsWF b' ss
  | [], _ => trivial
  | _ :: _, ⟨h1, h2, h3, h4⟩ => ⟨Asc.mono h h1, h2, by omega, h4⟩

theorem SegsWF.hi_gt : ∀ {ss b}, SegsWF b ss → ∀ s ∈ ss, b < s.hi
  | [], _, _, _, hs => by cases hs
  | x :: xs, b, ⟨_, _, h3, h4⟩, s, hs => by
      rcases List.mem_cons.1 hs with rfl | h
      · exact h3
      · have := SegsWF.hi_gt h4 s h; omega

theorem SegsWF.recs_gt : ∀ {ss b}, SegsWF b ss → ∀ s ∈ ss, ∀ r ∈ s.recs, b < r.off
  | [], _, _, _, hs => by cases hs
  | x :: xs, b, ⟨h1, _, h3, h4⟩, s, hs => by
      intro r hr
      rcases List.mem_cons.1 hs with rfl | h
      · exact Asc.all_gt h1 r hr
      · have := SegsWF.recs_gt h4 s h r hr; omega

theorem SegsWF.recs_le_hi : ∀ {ss b}, SegsWF b ss → ∀ s ∈ ss, ∀ r ∈ s.recs, r.off ≤ s.hi
  | [], _, _, _, hs => by cases hs
  | x :: xs, b, ⟨_, h2, _, h4⟩, s, hs => by
      rcases List.mem_cons.1 hs with rfl | h
      · exact h2
      · exact SegsWF.recs_le_hi h4 s h

theorem SegsWF.filter (p : Seg → Bool) : ∀ {ss b}, SegsWF b ss → SegsWF b (ss.filter p)
  | [], _, _ => trivial
  | x :: xs, b, ⟨h1, h2, h3, h4⟩ => by
      simp only [List.filter_cons]
      split
      · exact ⟨h1, h2, h3, SegsWF.filter p h4⟩
      · exact SegsWF.mono (by omega) (SegsWF.filter p h4)

/-- splitting a chain -/
theorem SegsWF.append_left : ∀ {s1 s2 : List Seg} {b}, SegsWF b (s1 ++ s2) → SegsWF b s1
  | [], _, _, _ => trivial
  | _ :: _, _, _, ⟨h1, h2, h3, h4⟩ => ⟨h1, h2, h3, SegsWF.append_left h4⟩

def lastHi (b : Int) : List Seg → Int
  | [] => b
  | s :: ss => lastHi s.hi ss

theorem SegsWF.append_right : ∀ {s1 s2 : List Seg} {b}, SegsWF b (s1 ++ s2) → SegsWF (lastHi b s1) s2
  | [], _, _, h => h
  | x :: xs, s2, _, ⟨_, _, _, h4⟩ => SegsWF.append_right (s1 := xs) (s2 := s2) (b := x.hi) h4

theorem SegsWF.replace_tail : ∀ {s1 t t' : List Seg} {b}, SegsWF b (s1 ++ t) → SegsWF (lastHi b s1) t' → SegsWF b (s1 ++ t')
  | [], _, _, _, _, h => h
  | x :: xs, t, t', _, ⟨h1, h2, h3, h4⟩, h => ⟨h1, h2, h3, SegsWF.replace_tail (s1 := xs) (t := t) (b := x.hi) h4 h⟩

theorem SegsWF.le_lastHi : ∀ {ss b}, SegsWF b ss → b ≤ lastHi b ss ∧ ∀ s ∈ ss, s.hi ≤ lastHi b ss
  | [], _, _ => ⟨Int.le_refl _, fun _ h => by cases h⟩
  | x :: xs, b, ⟨_, _, h3, h4⟩ => by
      have ⟨i1, i2⟩ := SegsWF.le_lastHi h4
      refine ⟨by simp only [lastHi]; omega, ?_⟩
      intro s hs
      rcases List.mem_cons.1 hs with rfl | h
      · exact i1
      · exact i2 s h

theorem segVis_append (a b : List Seg) : segVis (a ++ b) = segVis a ++ segVis b := by
  simp [segVis, List.flatMap_append]

theorem segVis_mem {ss : List Seg} {r : SRec} (h : r ∈ segVis ss) : ∃ s ∈ ss, r ∈ s.recs := by
  unfold segVis at h
  rcases List.mem_flatMap.1 h with ⟨s, hs, hr⟩
  refine ⟨s, hs, ?_⟩
  split at hr
  · exact hr
  · cases hr

/-- all visible records of a chain ascend -/
theorem segVis_asc : ∀ {ss b}, SegsWF b ss → Asc b (segVis ss)
  | [], _, _ => trivial
  | x :: xs, b, ⟨h1, h2, h3, h4⟩ => by
      have ih := segVis_asc h4
      unfold segVis
      simp only [List.flatMap_cons]
      by_cases hk : x.keep = true
      · simp only [hk, ↓reduceIte]
        exact Asc.append h1 h2 (by omega) ih
      · simp only [hk, Bool.false_eq_true, ↓reduceIte, List.nil_append]
        exact Asc.mono (by omega) ih

/-- **walk specification**: over a well-formed chain whose first segment reaches the current offset the walk
    delivers exactly the kept records from the current offset up to the new offset, the offset grows strictly,
    stays within the chain, and passes every record of the chain. -/
theorem walk_spec : ∀ {ss : List Seg} {b o : Int}, SegsWF b ss → ss ≠ [] → (∀ s, ss.head? = some s → o ≤ s.hi) →
    (segWalk o ss).1 = window o (segWalk o ss).2 (segVis ss) ∧ o < (segWalk o ss).2 ∧
    (segWalk o ss).2 ≤ lastHi b ss + 1 ∧ (∀ s ∈ ss, ∀ r ∈ s.recs, r.off < (segWalk o ss).2)
  | [], _, _, _, hne, _ => absurd rfl hne
  | x :: xs, b, o, ⟨h1, h2, h3, h4⟩, _, hhd => by
      have ho : o ≤ x.hi := hhd x rfl
      have hf := scan_fst o h1
      have ⟨s1, s2, s3, s4, s5⟩ := scan_snd o h1
      -- facts about the step over x
      have step_gt : o < (segStep o x).2 := by
        unfold segStep bump; simp only
        split
        · omega
        · rename_i he
          have : (scan o x.recs).1 ≠ [] := by simpa using he
          exact s5 this
      have step_le : (segStep o x).2 ≤ x.hi + 1 := by
        unfold segStep bump; simp only
        split
        · rename_i he
          have : (scan o x.recs).1 = [] := by simpa using he
          rw [s3 this]; omega
        · rename_i he
          have : (scan o x.recs).1 ≠ [] := by simpa using he
          exact s4 x.hi h2 this
      have step_pass : ∀ r ∈ x.recs, r.off < (segStep o x).2 := by
        intro r hr
        have hb : (scan o x.recs).2 ≤ (segStep o x).2 := by
          unfold segStep bump; simp only; split <;> omega
        rcases s2 r hr with h | h <;> omega
      have step_fst : (segStep o x).1 = window o (segStep o x).2 x.recs := by
        have e : (segStep o x).1 = x.recs.filter (fun r => decide (o ≤ r.off)) := hf
        rw [e]; unfold window
        apply List.filter_congr
        intro r hr; have := step_pass r hr
        simp only [decide_eq_decide]; omega
      cases xs with
      | nil =>
        simp only [segWalk, List.append_nil, lastHi]
        refine ⟨?_, step_gt, step_le, ?_⟩
        · unfold segVis; simp only [List.flatMap_cons, List.flatMap_nil, List.append_nil]
          by_cases hk : x.keep = true
          · simp only [hk, ↓reduceIte]; exact step_fst
          · simp only [hk, Bool.false_eq_true, ↓reduceIte]; rfl
        · intro s hs r hr
          rcases List.mem_singleton.1 hs with rfl
          exact step_pass r hr
      | cons y ys =>
        have hy : (segStep o x).2 ≤ y.hi := by
          have := h4.2.2.1; omega
        have ⟨i1, i2, i3, i4⟩ := walk_spec (o := (segStep o x).2) h4 (List.cons_ne_nil _ _) (by
          intro s hs; simp only [List.head?_cons, Option.some.injEq] at hs; subst hs; exact hy)
        simp only [segWalk, lastHi] at *
        refine ⟨?_, by omega, i3, ?_⟩
        · -- delivered = window over (vis x ++ vis rest)
          have hv : segVis (x :: y :: ys) = (if x.keep then x.recs else []) ++ segVis (y :: ys) := by
            simp [segVis, List.flatMap_cons]
          rw [hv, window_append, i1]
          congr 1
          · by_cases hk : x.keep = true
            · simp only [hk, ↓reduceIte]
              rw [step_fst]
              apply window_congr
              intro r hr; have := step_pass r hr; omega
            · simp only [hk, Bool.false_eq_true, ↓reduceIte]; rfl
          · apply window_congr
            intro r hr
            rcases segVis_mem hr with ⟨s, hs, hrs⟩
            have := SegsWF.recs_gt h4 s hs r hrs
            omega
        · intro s hs r hr
          rcases List.mem_cons.1 hs with rfl | h
          · have := step_pass r hr; omega
          · exact i4 s h r hr

end Lemmas.C03
