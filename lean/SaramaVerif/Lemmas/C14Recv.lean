import SaramaVerif.Lemmas.C14Inv
/-
  C14 helper development, part 4: invariants of the receive loop – byte accounting of the server's stream,
  shape of the completion log (deliveries, then failures), well-formedness of what was delivered, and the
  sticky `dead`.
-/
namespace Lemmas.C14
open Model.BrokerConn

/-- `goodBytes` on a completion log -/
def gb (l : List DoneRec) : Bytes := ((l.filter isDeliv).map rawFrame).flatten

theorem goodBytes_eq (s : State) : goodBytes s = gb s.done := rfl

theorem gb_append_failed (l : List DoneRec) (x : DoneRec) (hx : isDeliv x = false) : gb (l ++ [x]) = gb l := by
  simp [gb, List.filter_append, hx]

theorem gb_append_deliv (l : List DoneRec) (x : DoneRec) (hx : isDeliv x = true) :
    gb (l ++ [x]) = gb l ++ rawFrame x := by
  simp [gb, List.filter_append, hx]

theorem split_append_failed (l : List DoneRec) (x : DoneRec) (hx : isDeliv x = false)
    (h : l = l.filter isDeliv ++ l.filter (fun d => !isDeliv d)) :
    l ++ [x] = (l ++ [x]).filter isDeliv ++ (l ++ [x]).filter (fun d => !isDeliv d) := by
  simp only [List.filter_append, List.filter_cons, hx, Bool.false_eq_true, ↓reduceIte, List.filter_nil,
    List.append_nil, Bool.not_false]
  rw [← List.append_assoc, ← h]

theorem split_append_deliv (l : List DoneRec) (x : DoneRec) (hx : isDeliv x = true)
    (hall : ∀ d ∈ l, isDeliv d = true) :
    l ++ [x] = (l ++ [x]).filter isDeliv ++ (l ++ [x]).filter (fun d => !isDeliv d) := by
  have h1 : l.filter isDeliv = l := List.filter_eq_self.2 hall
  have h2 : l.filter (fun d => !isDeliv d) = [] := by
    apply List.filter_eq_nil_iff.2
    intro d hd; simp [hall d hd]
  simp [List.filter_append, hx, h1, h2]

structure InvC (s : State) : Prop where
  bytes : s.sent = s.consumed ++ s.inbuf
  alive_all : s.dead = none → ∀ d ∈ s.done, isDeliv d = true
  split : s.done = s.done.filter isDeliv ++ s.done.filter (fun d => !isDeliv d)
  good_pref : gb s.done <+: s.consumed
  alive_cons : s.dead = none → s.consumed = gb s.done ++ curHdr s
  wf_done : ∀ d ∈ s.done, isDeliv d = true → WF s.cfg.maxResp d
  wf_cur : ∀ p hdr need, s.cur = some (p, .body hdr need) →
      ∃ len, decodeHeader s.cfg.maxResp p.hv hdr = .ok len p.cid ∧ hdr.length = headerLength p.hv ∧
        need = bodyLength len (headerLength p.hv)
  dead_cur : ∀ e, s.dead = some e → s.cur = none
  fail_err : ∀ d ∈ s.done, ∀ e, d.out = .failed e → s.dead = some e

theorem invC_init (cfg : Cfg) (c0 : Int) : InvC (init cfg c0) := by
  refine ⟨by simp [init], by simp [init], by simp [init], by simp [init, gb], by simp [init, gb, curHdr],
    by simp [init], by simp [init], by simp [init], by simp [init]⟩

/-- failing the promise in the receiver's hand keeps the invariant (some more bytes may have been consumed
    just before: `c'`, `i'` are the new consumed / buffered bytes) -/
theorem invC_fail {s : State} (I : InvC s) (p : Promise) (ph : Phase) (hcur : s.cur = some (p, ph))
    (c' i' : Bytes) (hb : s.sent = c' ++ i') (hp : s.consumed <+: c') (hdr : Bytes) (e : Err) :
    InvC (failCur { s with inbuf := i', consumed := c' } p hdr e) := by
  have hdead : s.dead = none := by
    cases hd : s.dead
    · rfl
    · have := I.dead_cur _ hd; simp [hcur] at this
  have hx : isDeliv ⟨p, .failed e, hdr⟩ = false := rfl
  refine ⟨hb, by simp [failCur], ?_, ?_, by simp [failCur], ?_, by simp [failCur], by simp [failCur], ?_⟩
  · exact split_append_failed _ _ hx I.split
  · simp only [failCur]; rw [gb_append_failed _ _ hx]; exact List.IsPrefix.trans I.good_pref hp
  · intro d hd hdl
    simp only [failCur, List.mem_append, List.mem_singleton] at hd
    rcases hd with hd | rfl
    · exact I.wf_done d hd hdl
    · simp [isDeliv] at hdl
  · intro d hd e' he'
    simp only [failCur, List.mem_append, List.mem_singleton] at hd ⊢
    rcases hd with hd | rfl
    · have := I.alive_all hdead d hd
      simp [isDeliv, he'] at this
    · simp only [Outcome.failed.injEq] at he'
      rw [he']

theorem cur_alive {s : State} (I : InvC s) {p : Promise} {ph : Phase} (hcur : s.cur = some (p, ph)) :
    s.dead = none := by
  cases hd : s.dead
  · rfl
  · have := I.dead_cur _ hd; simp [hcur] at this

theorem invC_step {s s' : State} {e : Event} (h : step s e = .ok s') (I : InvC s) : InvC s' := by
  cases e <;> simp only [step] at h
  case sendBegin c hv ex =>
    obtain ⟨hf, ⟨_, rfl⟩ | ⟨_, rfl⟩⟩ := sendBegin_inv h <;>
      exact ⟨I.1, I.2, I.3, I.4, I.5, I.6, I.7, I.8, I.9⟩
  case write c =>
    obtain ⟨hv, ex, hh, ⟨_, _, rfl⟩ | ⟨_, rfl⟩⟩ := write_inv h <;>
      exact ⟨I.1, I.2, I.3, I.4, I.5, I.6, I.7, I.8, I.9⟩
  case writeFail c =>
    obtain ⟨hv, ex, hh, rfl⟩ := writeFail_inv h
    exact ⟨I.1, I.2, I.3, I.4, I.5, I.6, I.7, I.8, I.9⟩
  case enqueue c =>
    obtain ⟨p, hh, _, _, rfl⟩ := enqueue_inv h
    exact ⟨I.1, I.2, I.3, I.4, I.5, I.6, I.7, I.8, I.9⟩
  case recvDeq =>
    obtain ⟨_, hcur, p, rest, hq, ⟨e, hd, rfl⟩ | ⟨hd, rfl⟩⟩ := recvDeq_inv h
    · have hx : isDeliv ⟨p, .failed e, []⟩ = false := rfl
      refine ⟨I.1, by simp [hd], ?_, ?_, by simp [hd], ?_, I.7, I.8, ?_⟩
      · exact split_append_failed _ _ hx I.split
      · simp only; rw [gb_append_failed _ _ hx]; exact I.good_pref
      · intro d hdm hdl
        simp only [List.mem_append, List.mem_singleton] at hdm
        rcases hdm with hdm | rfl
        · exact I.wf_done d hdm hdl
        · simp [isDeliv] at hdl
      · intro d hdm e' he'
        simp only [List.mem_append, List.mem_singleton] at hdm
        rcases hdm with hdm | rfl
        · exact I.fail_err d hdm e' he'
        · simp only [Outcome.failed.injEq] at he'
          simp [hd, he']
    · refine ⟨I.1, I.2, I.3, I.4, ?_, I.6, by simp, by simp [hd], I.9⟩
      intro hd'
      have := I.alive_cons hd
      simp only [curHdr, hcur, hdrOf] at this ⊢
      exact this
  case recvHeader =>
    obtain ⟨p, hcur, hlen, ⟨e, _, rfl⟩ | ⟨len, hdec, rfl⟩⟩ := recvHeader_inv h
    · exact invC_fail I p .header hcur _ _ (by simp [I.bytes]) (List.prefix_append _ _) _ e
    · have hdead := cur_alive I hcur
      refine ⟨by simp [afterTake, I.bytes], I.2, I.3, ?_, ?_, I.6, ?_, ?_, I.9⟩
      · exact List.IsPrefix.trans I.good_pref (List.prefix_append _ _)
      · intro _
        have := I.alive_cons hdead
        simp only [curHdr, hcur, hdrOf, List.append_nil] at this
        simp only [afterTake, curHdr, hdrOf, this]
      · intro q hdr need hq
        simp only [Option.some.injEq, Prod.mk.injEq, Phase.body.injEq] at hq
        obtain ⟨rfl, rfl, rfl⟩ := hq
        exact ⟨len, hdec, by simp [List.length_take]; omega, rfl⟩
      · intro e' he'
        simp only [afterTake] at he'
        simp [hdead] at he'
  case recvBody =>
    obtain ⟨p, hdr, need, hcur, hlen, rfl⟩ := recvBody_inv h
    have hdead := cur_alive I hcur
    have hall := I.alive_all hdead
    have hx : isDeliv ⟨p, .delivered (s.inbuf.take need), hdr⟩ = true := rfl
    obtain ⟨len, hdec, hhl, hneed⟩ := I.wf_cur p hdr need hcur
    have hcons := I.alive_cons hdead
    simp only [curHdr, hcur, hdrOf] at hcons
    refine ⟨by simp [I.bytes], ?_, ?_, ?_, ?_, ?_, by simp, by simp, ?_⟩
    · intro _ d hd
      simp only [List.mem_append, List.mem_singleton] at hd
      rcases hd with hd | rfl
      · exact hall d hd
      · rfl
    · exact split_append_deliv _ _ hx hall
    · simp only; rw [gb_append_deliv _ _ hx, hcons]
      simp [rawFrame, bodyOf]
    · intro _
      simp only; rw [gb_append_deliv _ _ hx, hcons]
      simp [rawFrame, bodyOf, curHdr]
    · intro d hd hdl
      simp only [List.mem_append, List.mem_singleton] at hd
      rcases hd with hd | rfl
      · exact I.wf_done d hd hdl
      · exact ⟨len, hdec, hhl, by simp [bodyOf, List.length_take, hneed]; omega⟩
    · intro d hd e' he'
      simp only [List.mem_append, List.mem_singleton] at hd
      rcases hd with hd | rfl
      · exact I.fail_err d hd e' he'
      · simp at he'
  case recvEOF =>
    obtain ⟨p, ph, hcur, _, _, rfl⟩ := recvEOF_inv h
    exact invC_fail I p ph hcur _ _ I.bytes (List.prefix_refl _) _ _
  case recvTimeout =>
    obtain ⟨p, ph, hcur, _, rfl⟩ := recvTimeout_inv h
    exact invC_fail I p ph hcur _ _ I.bytes (List.prefix_refl _) _ _
  case srvBytes bs =>
    obtain ⟨_, rfl⟩ := srvBytes_inv h
    exact ⟨by simp [I.bytes], I.2, I.3, I.4, I.5, I.6, I.7, I.8, I.9⟩
  case srvClose =>
    obtain ⟨_, rfl⟩ := srvClose_inv h
    exact ⟨I.1, I.2, I.3, I.4, I.5, I.6, I.7, I.8, I.9⟩
  case closeBegin =>
    obtain ⟨hf, _, rfl⟩ := closeBegin_inv h
    exact ⟨I.1, I.2, I.3, I.4, I.5, I.6, I.7, I.8, I.9⟩
  case recvExit =>
    obtain ⟨_, _, _, _, rfl⟩ := recvExit_inv h
    exact ⟨I.1, I.2, I.3, I.4, I.5, I.6, I.7, I.8, I.9⟩
  case closeEnd =>
    obtain ⟨hc, _, rfl⟩ := closeEnd_inv h
    exact ⟨I.1, I.2, I.3, I.4, I.5, I.6, I.7, I.8, I.9⟩

end Lemmas.C14
