/-
  C02 composition, handover chain: the tie between a system state and its view when the partition is handed from
  a broker worker to a FRESH successor at every retry-level change (what unrefBrokerProducer + getBrokerProducer do
  for a partition that has its worker for itself): one current worker, any number of old workers that only drain
  (bounce what is in their input queue, the chaser last).
      av = pp.input ++ p.input ++ retries ++ lanes of the old workers (oldest first) ++ tail of the current worker
-/
import SaramaVerif.Lemmas.C02chView
import SaramaVerif.Lemmas.C02sysStepD

set_option linter.unusedSimpArgs false

namespace Lemmas.C02sys
open Model Model.Pipeline

abbrev insW (s : Sys) (w : Nat) : List Tok := insideB (s.wk w).bp

/-- what an old worker is still going to bounce, counted at the next retry level -/
def lane (M : Nat) (s : Sys) (w : Nat) : List Tok := bumpF M (nosynq (s.wk w).inq)
def lanes (M : Nat) (s : Sys) (olds : List Nat) : List Tok := olds.flatMap (lane M s)

/-- the current worker: what it accepts (`gw`), what it is going to bounce (`tc`), whether it accepts -/
inductive CurRep (M : Nat) (s : Sys) : List Tok → List Tok → Bool → Prop
  | none : s.cur = none → CurRep M s [] [] true
  | closed (c : Nat) : s.cur = some c → (s.wk c).bp.closing = true → insW s c = [] → AllData (s.wk c).inq →
      CurRep M s [] (bumpF M (s.wk c).inq) false
  | normal (c : Nat) (mk G : List Tok) : s.cur = some c → (s.wk c).bp.closing = false → (s.wk c).bp.cr 0 = false →
      (s.wk c).inq = mk ++ G → AllData G → (mk = [] ∨ (mk = [synTok] ∧ (s.wk c).bp = {})) →
      CurRep M s (insW s c ++ G) [] true
  | failed (c : Nat) : s.cur = some c → (s.wk c).bp.closing = false → (s.wk c).bp.cr 0 = true → insW s c = [] →
      AllData (s.wk c).inq → CurRep M s [] (bumpF M (s.wk c).inq) false

/-- an old worker: nothing inside; its queue is empty (drained) or doomed data followed by the chaser -/
def OldOK (M : Nat) (s : Sys) (w : Nat) : Prop :=
  insW s w = [] ∧ ((s.wk w).inq = [] ∨
    (BrokerProd.needsRetry (s.wk w).bp 0 = true ∧ ∃ D k, (s.wk w).inq = D ++ [finTok k] ∧ AllData D ∧ k < M))

/-- level bands: the data of a lane lies (in real retry levels) between the previous chaser's next level and
    its own chaser; chaser levels increase along the chain -/
def Bands (M : Nat) (s : Sys) : Nat → List Nat → Prop
  | _, [] => True
  | prev, w :: r =>
    ((s.wk w).inq = [] ∧ Bands M s prev r) ∨
    (∃ D k, (s.wk w).inq = D ++ [finTok k] ∧ AllData D ∧ k < M ∧ prev ≤ k ∧
      (∀ d ∈ D, d.retries < M → prev ≤ d.retries ∧ d.retries ≤ k) ∧ Bands M s (k + 1) r)

theorem Bands.mono {M : Nat} {s : Sys} : ∀ {l : List Nat} {p q : Nat}, q ≤ p → Bands M s p l → Bands M s q l := by
  intro l
  induction l with
  | nil => intro _ _ _ _; trivial
  | cons w r ih =>
    intro p q hqp h
    rcases h with ⟨h1, h2⟩ | ⟨D, k, h1, h2, h3, h4, h5, h6⟩
    · exact Or.inl ⟨h1, ih hqp h2⟩
    · exact Or.inr ⟨D, k, h1, h2, h3, by omega, fun d hd hm => ⟨by have := (h5 d hd hm).1; omega, (h5 d hd hm).2⟩, h6⟩

theorem lane_of_shape {M : Nat} {s : Sys} {w : Nat} {D : List Tok} {k : Nat} (h : (s.wk w).inq = D ++ [finTok k])
    (hD : AllData D) (hk : k < M) : lane M s w = bumpF M D ++ [finTok (k + 1)] := by
  have : nosynq (D ++ [finTok k]) = D ++ [finTok k] := by
    rw [nosynq_append, nosynq_allData hD]; simp [nosynq, finTok]
  rw [lane, h, this, bumpF_append, bumpF_fin M k hk]

theorem lane_nil {M : Nat} {s : Sys} {w : Nat} (h : (s.wk w).inq = []) : lane M s w = [] := by
  simp [lane, h, nosynq, bumpF]

theorem mem_bumpF' {M : Nat} {l : List Tok} {d : Tok} (h : d ∈ bumpF M l) : ∃ t ∈ l, t.retries < M ∧ d = bump t := by
  simp only [bumpF, List.mem_map, List.mem_filter, decide_eq_true_eq] at h
  obtain ⟨t, ⟨ht, hm⟩, rfl⟩ := h
  exact ⟨t, ht, hm, rfl⟩

theorem lanes_cons (M : Nat) (s : Sys) (w : Nat) (r : List Nat) : lanes M s (w :: r) = lane M s w ++ lanes M s r := by
  simp [lanes]

theorem lanes_append (M : Nat) (s : Sys) (a b : List Nat) : lanes M s (a ++ b) = lanes M s a ++ lanes M s b := by
  simp [lanes]

/-- every token of the lanes before a worker `w` is covered by a chaser of those lanes, whose (virtual) level is at
    most the lower bound `p` of everything `w` and its successors hold -/
theorem bands_pre {M : Nat} {s : Sys} : ∀ (pre : List Nat) (prev w : Nat) (post : List Nat),
    Bands M s prev (pre ++ w :: post) →
    ∃ p, prev ≤ p ∧ Bands M s p (w :: post) ∧
      ∀ y ∈ lanes M s pre, ∃ hj, finTok hj ∈ lanes M s pre ∧ y.retries ≤ hj ∧ hj ≤ p := by
  intro pre
  induction pre with
  | nil => intro prev w post h; exact ⟨prev, Nat.le_refl _, h, fun y hy => by simp [lanes] at hy⟩
  | cons u pre' ih =>
    intro prev w post h
    rcases h with ⟨h1, h2⟩ | ⟨D, k, h1, h2, h3, h4, h5, h6⟩
    · obtain ⟨p, hp, hb, hy⟩ := ih prev w post h2
      refine ⟨p, hp, hb, ?_⟩
      intro y hyy
      rw [lanes_cons, lane_nil h1, List.nil_append] at hyy
      obtain ⟨hj, a, b, c⟩ := hy y hyy
      exact ⟨hj, by rw [lanes_cons]; exact List.mem_append_right _ a, b, c⟩
    · obtain ⟨p, hp, hb, hy⟩ := ih (k + 1) w post h6
      refine ⟨p, by omega, hb, ?_⟩
      intro y hyy
      rw [lanes_cons, lane_of_shape h1 h2 h3] at hyy ⊢
      have hfin : finTok (k + 1) ∈ bumpF M D ++ [finTok (k + 1)] ++ lanes M s pre' := by simp
      rcases List.mem_append.1 hyy with hyy | hyy
      · rcases List.mem_append.1 hyy with hyy | hyy
        · obtain ⟨d, hd, hdm, rfl⟩ := mem_bumpF' hyy
          exact ⟨k + 1, hfin, by rw [bump_retries]; have := (h5 d hd hdm).2; omega, hp⟩
        · rw [List.mem_singleton.1 hyy]; exact ⟨k + 1, hfin, Nat.le_refl _, hp⟩
      · obtain ⟨hj, a, b, c⟩ := hy y hyy
        exact ⟨hj, List.mem_append_right _ a, b, c⟩

/-- the view of a chain state; `olds` = the workers the partition producer has left, oldest first -/
def RepC (M : Nat) (s : Sys) (olds : List Nat) (v : View) : Prop :=
  ∃ gw tc g, CurRep M s gw tc g ∧ v = ⟨s.pp, gw, s.pq ++ s.dq ++ s.ret ++ (lanes M s olds ++ tc), g⟩

/-- concrete side conditions that every step of a worker keeps for simple reasons -/
structure ConcE (M : Nat) (s : Sys) (olds : List Nat) : Prop where
  pinv  : ∀ w, Props.C02bp.PInv (s.wk w).bp
  p0q   : P0 (s.pq ++ s.dq ++ s.ret)
  p0w   : ∀ w, P0 ((s.wk w).inq ++ insW s w)
  lvl   : ∀ t ∈ s.pq ++ s.dq ++ s.ret, t.retries ≤ M
  finq  : ∀ w, ∀ t ∈ (s.wk w).inq, t.kind = .fin → t.retries < M
  ret1  : ∀ t ∈ s.ret, 1 ≤ t.retries
  nodup : olds.Nodup
  curNo : ∀ c, s.cur = some c → c ∉ olds
  fresh : ∀ w, w ∉ olds → s.cur ≠ some w → s.wk w = {}
  crash : s.crash = false

/-- the side conditions that describe the chain -/
structure ConcH (M : Nat) (s : Sys) (olds : List Nat) (v : View) : Prop where
  oldok : ∀ w ∈ olds, OldOK M s w
  bands : Bands M s 0 olds
  tcHi  : ∀ c, s.cur = some c → BrokerProd.needsRetry (s.wk c).bp 0 = true →
            ∀ t ∈ (s.wk c).inq, t.kind = .data → v.pp.hwm ≤ t.retries
  noFin : ∀ c, s.cur = some c → ∀ t ∈ (s.wk c).inq, t.kind ≠ .fin
  capN  : s.cur = none → ∀ x ∈ data v.av, x.retries ≤ v.pp.hwm

structure ConcC (M : Nat) (s : Sys) (olds : List Nat) (v : View) : Prop extends ConcE M s olds, ConcH M s olds v

/-- the log and the successes against the live tokens of the view (any worker may have an answer pending; only a
    non-empty set matters) -/
structure LogInvC (s : Sys) (v : View) : Prop where
  K    : ∀ b ∈ s.log, ∀ a, LiveId v a → a < b → a ∈ s.log
  J    : ∀ a b, a < b → a ∈ s.log → b ∈ s.log → s.log.idxOf a < s.log.idxOf b
  S1   : ∀ p ∈ s.succ, ∀ a, LiveId v a → p.1 < a
  S3   : ∀ p ∈ s.succ, ∀ q ∈ s.succ, p.1 < q.1 → p.2 < q.2
  S5   : ∀ p ∈ s.succ, p.2 < s.log.length
  S6   : ∀ p ∈ s.succ, p.1 < (s.next : Int)
  idlt : ∀ a, LiveId v a → a < (s.next : Int)
  Llt  : ∀ b ∈ s.log, b < (s.next : Int)
  pend : ∀ w vd base, (s.wk w).pend = some (vd, base) →
    ∃ sent, (s.wk w).bp.sets = [sent] ∧ (sent ≠ [] → (∀ p ∈ s.succ, p.2 < base) ∧
      (vd = .ok → base + sent.length ≤ s.log.length))

structure GoodC (M : Nat) (s : Sys) (olds : List Nat) (v : View) : Prop where
  rep  : RepC M s olds v
  vinv : VInv v
  conc : ConcC M s olds v
  log  : LogInvC s v

end Lemmas.C02sys
