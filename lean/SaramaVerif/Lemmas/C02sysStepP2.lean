/-
  C02 composition: a step of the partition producer (`ppRecv`) keeps `Good` - assembly, branch by branch of
  `Model.PartProd.recv`.
-/
import SaramaVerif.Lemmas.C02sysStepP

set_option linter.unusedSimpArgs false

namespace Lemmas.C02sys
open Model Model.Pipeline

/-- side conditions after a step of the partition producer -/
theorem conc_log_pp {M : Nat} {s s' : Sys} {v v' : View} (h : Good M s v) (t : Tok) (r : List Tok)
    (hq : s.pq = t :: r) (e_pq : s'.pq = r) (e_dq : s'.dq = s.dq) (e_ret : s'.ret = s.ret)
    (e_next : s'.next = s.next) (e_log : s'.log = s.log) (e_succ : s'.succ = s.succ)
    (e_crash : s'.crash = s.crash) (e_bp : (W s').bp = (W s).bp) (e_pend : (W s').pend = (W s).pend)
    (hinq : ∀ y ∈ (W s').inq, y ∈ (W s).inq ∨ (y.part = 0 ∧ (y.kind = .fin → y.retries < M)))
    (hcur : s'.cur = none ∨ s'.cur = some 0) (hlive : ∀ a, LiveId v' a → LiveId v a)
    (hcap : s'.cur = none → ∀ x ∈ data v'.av, x.retries ≤ v'.pp.hwm) : Conc M s' v' ∧ LogInv s' v' := by
  have hc := h.conc
  have hl := h.log
  constructor
  · refine ⟨by rw [e_bp]; exact hc.pinv, ?_, ?_, ?_, by rw [e_ret]; exact hc.ret1, hcur, hcap,
      by rw [e_crash]; exact hc.crash⟩
    · intro x hx
      rw [e_pq, e_dq, e_ret, show ins s' = ins s from by simp [ins, e_bp]] at hx
      simp only [List.mem_append] at hx
      rcases hx with (((hx | hx) | hx) | hx) | hx
      · exact hc.p0 x (by simp [hq, hx])
      · exact hc.p0 x (by simp [hx])
      · exact hc.p0 x (by simp [hx])
      · rcases hinq x hx with hx | hx
        · exact hc.p0 x (by simp [hx])
        · exact hx.1
      · exact hc.p0 x (List.mem_append_right _ hx)
    · intro x hx
      rw [e_pq, e_dq, e_ret] at hx
      apply hc.lvl x
      simp only [List.mem_append, hq, List.mem_cons] at hx ⊢
      grind
    · intro x hx hk
      rcases hinq x hx with hx | hx
      · exact hc.finq x hx hk
      · exact hx.2 hk
  · refine ⟨by rw [e_log]; exact fun b hb a ha => hl.K b hb a (hlive a ha), by rw [e_log]; exact hl.J,
      by rw [e_succ]; exact fun p hp a ha => hl.S1 p hp a (hlive a ha), by rw [e_succ]; exact hl.S3,
      by rw [e_succ, e_log]; exact hl.S5, by rw [e_succ, e_next]; exact hl.S6,
      by rw [e_next]; exact fun a ha => hl.idlt a (hlive a ha), by rw [e_log, e_next]; exact hl.Llt, ?_⟩
    intro vd base hp
    rw [e_pend] at hp
    obtain ⟨sent, h1, h2, h3⟩ := hl.pend vd base hp
    exact ⟨sent, by rw [e_bp]; exact h1, by rw [e_succ]; exact h2, by rw [e_log]; exact h3⟩

theorem ofPP_toPP (t : Tok) (hp : t.part = 0) (hk : t.kind ≠ .syn) : ofPP (toPP t) = t := by
  cases t with
  | mk id part retries kind => cases kind <;> simp_all [ofPP, toPP, mkTok, BrokerProd.Tok.isFin]

theorem isFin_data {t : Tok} (h : t.kind = .data) : t.isFin = false := by simp [BrokerProd.Tok.isFin, h]
theorem isFin_fin {t : Tok} (h : t.kind = .fin) : t.isFin = true := by simp [BrokerProd.Tok.isFin, h]

/-- forwarding at most the head data token `t` (of the current level) keeps the ordering invariant -/
theorem vinv_push1 {v : View} (h : VInv v) (M : Nat) (t : Tok) (rest : List Tok) (hav : v.av = t :: rest)
    (ht : isData t = true) (hl : t.retries = v.pp.hwm) (kept : List Tok) (hk : kept = [] ∨ kept = [t]) :
    VInv (pushV M ⟨v.pp, v.gw, rest, v.good⟩ kept) ∧
      (∀ a, LiveId (pushV M ⟨v.pp, v.gw, rest, v.good⟩ kept) a → LiveId v a) := by
  rcases hk with rfl | rfl
  · rw [pushV_nil]
    have hsh : Shrink ⟨v.pp, v.gw, rest, v.good⟩ v := by
      refine ⟨rfl, rfl, List.Sublist.refl _, ?_, ?_⟩
      · show rest.Sublist v.av; rw [hav]; exact List.sublist_cons_self _ _
      · show rest.filter isFin = v.av.filter isFin
        rw [hav, List.filter_cons, notFin_of_data ht]; simp
    exact ⟨h.shrink hsh, fun a ha => live_shrink hsh ha⟩
  · rcases Bool.eq_false_or_eq_true v.good with hg | hg
    · have := h.emitGood t rest hav ht hl hg
      have e : pushV M ⟨v.pp, v.gw, rest, v.good⟩ [t] = ⟨v.pp, v.gw ++ [t], rest, v.good⟩ := by
        simp [pushV, hg]
      rw [e]
      exact ⟨this, fun a ha => live_emitGood t rest hav ht ha⟩
    · have := h.emitBad M t rest hav ht hl hg
      have e : pushV M ⟨v.pp, v.gw, rest, v.good⟩ [t] = ⟨v.pp, [], rest ++ bumpF M [t], false⟩ := by
        simp [pushV, h.gbad hg, hg]
      rw [e]
      exact ⟨this, fun a ha => live_emitBad M t rest hav ht ha⟩

theorem ppRecv_split {M : Nat} {s s' : Sys} {lks : List (Option Nat)} (h : sysStep M s (.ppRecv lks) = some s') :
    ∃ t r, s.pq = t :: r ∧
      s' = ppActs (popS s r (PartProd.recv s.pp (toPP t)).1) lks (PartProd.recv s.pp (toPP t)).2 := by
  simp only [sysStep] at h
  cases hq : s.pq with
  | nil => simp [hq] at h
  | cons t r => simp only [hq] at h; exact ⟨t, r, rfl, by simpa [popS] using h.symm⟩

/-- facts about the head of pp.input -/
theorem head_facts {M : Nat} {s : Sys} {v : View} (h : Good M s v) (t : Tok) (r : List Tok) (hq : s.pq = t :: r) :
    t.part = 0 ∧ t.kind ≠ .syn ∧ t.retries ≤ M ∧ t ∈ v.av := by
  obtain ⟨rest, hav, _⟩ := rep_pop h.rep t r hq s.pp
  have hm : t ∈ v.av := by rw [hav]; exact List.mem_cons_self ..
  exact ⟨h.conc.p0 t (by simp [hq]), h.vinv.nosyn t hm, h.conc.lvl t (by simp [hq]), hm⟩

/-- the partition producer step when nothing is forwarded (park, or a chaser below the watermark) -/
theorem good_pp_quiet {M : Nat} {s : Sys} {v v' : View} (h : Good M s v) (t : Tok) (r : List Tok)
    (hq : s.pq = t :: r) (pp' : PartProd.St) (rest : List Tok) (hv' : v' = ⟨pp', v.gw, rest, v.good⟩)
    (hav : v.av = t :: rest) (hvi : VInv v') (hlive : ∀ a, LiveId v' a → LiveId v a) (hhwm : pp'.hwm = v.pp.hwm) :
    Good M (popS s r pp') v' := by
  obtain ⟨rest', hav', hrep⟩ := rep_pop h.rep t r hq pp'
  have : rest' = rest := by rw [hav] at hav'; exact (List.cons.inj hav').2.symm
  subst this
  have hcl := conc_log_pp (s' := popS s r pp') (v' := v') h t r hq rfl rfl rfl rfl rfl rfl rfl rfl rfl
    (fun y hy => Or.inl hy) h.conc.cur01 hlive
    (by
      intro hcur x hx
      rw [hv'] at hx ⊢
      have : x ∈ data v.av := by rw [hav]; exact (data_sublist (List.sublist_cons_self _ _)).subset hx
      show x.retries ≤ pp'.hwm
      rw [hhwm]; exact h.conc.capN hcur x this)
  exact ⟨by rw [hv']; exact hrep, hvi, hcl.1, hcl.2⟩

/-- assembly: from a state `s1` (after taking the head of pp.input and possibly sending the chaser) the
    partition producer forwards the data tokens `E` -/
theorem good_pp_emits {M : Nat} {s s1 : Sys} {v w : View} (h : Good M s v) (t : Tok) (r : List Tok)
    (hq : s.pq = t :: r) (hrep1 : Rep M s1 w) (hcur1 : s1.cur = none ∨ s1.cur = some 0)
    (e_pq : s1.pq = r) (e_dq : s1.dq = s.dq) (e_ret : s1.ret = s.ret)
    (e_next : s1.next = s.next) (e_log : s1.log = s.log) (e_succ : s1.succ = s.succ)
    (e_crash : s1.crash = s.crash) (e_bp : (W s1).bp = (W s).bp) (e_pend : (W s1).pend = (W s).pend)
    (hinq : ∀ y ∈ (W s1).inq, y ∈ (W s).inq ∨ (y.part = 0 ∧ (y.kind = .fin → y.retries < M)))
    (E : List Tok) (hE : ∀ x ∈ E, x.kind = .data ∧ x.part = 0) (lks : List (Option Nat)) (hl : OkLks lks)
    (hV : ∀ kept, kept.Sublist E → VInv (pushV M w kept) ∧ (∀ a, LiveId (pushV M w kept) a → LiveId v a))
    (hcap : s1.cur = none → ∀ x ∈ data w.av, x.retries ≤ w.pp.hwm) :
    ∃ v', Good M (ppActs s1 lks (E.map emitA)) v' := by
  obtain ⟨kept, hk, hrep, f⟩ := emitsL E hE hrep1 hcur1 hl
  obtain ⟨hvi, hlive⟩ := hV kept hk
  have hcl := conc_log_pp (s' := ppActs s1 lks (E.map emitA)) (v' := pushV M w kept) h t r hq
    (f.pq.trans e_pq) (f.dq.trans e_dq) (f.ret.trans e_ret) (f.next.trans e_next) (f.log.trans e_log)
    (f.succ.trans e_succ) (f.crash.trans e_crash) (f.bp.trans e_bp) (f.pend.trans e_pend)
    (by
      intro y hy
      rcases f.inq y hy with hy | hy | hy
      · exact hinq y hy
      · right; rw [hy]; exact ⟨rfl, fun hk => by simp [synTok] at hk⟩
      · right
        have := hE y (hk.subset hy)
        exact ⟨this.2, fun hk' => by rw [this.1] at hk'; cases hk'⟩)
    f.cur01 hlive
    (by
      intro hcur
      rcases f.cur with hc | ⟨_, hc, hke⟩
      · rw [hc] at hcur; cases hcur
      · rw [hke, pushV_nil]; exact hcap hc)
  exact ⟨_, hrep, hvi, hcl.1, hcl.2⟩

end Lemmas.C02sys
