/-
  C02 composition: conservation of tokens - the census is kept by a step of the partition producer.
-/
import SaramaVerif.Lemmas.C02sysCons2
import SaramaVerif.Lemmas.C02sysFifo

set_option linter.unusedSimpArgs false

namespace Lemmas.C02sys
open Model Model.Pipeline

theorem W_bp_pushW (f : Nat → Worker) (w : Nat) (t : Tok) : (pushW f w t 0).bp = (f 0).bp := by
  by_cases hw : w = 0
  · subst hw; simp [pushW, setW]
  · have : ¬ 0 = w := fun e => hw e.symm
    simp [pushW, setW, this]

theorem ppAct_frame2 (s : Sys) (lks : List (Option Nat)) (a : PartProd.Action) :
    (ppAct s lks a).1.pp = s.pp ∧ (ppAct s lks a).1.succ = s.succ ∧ (ppAct s lks a).1.next = s.next ∧
    (W (ppAct s lks a).1).bp = (W s).bp := by
  cases a with
  | finSend l =>
    simp only [ppAct]; split
    · exact ⟨rfl, rfl, rfl, rfl⟩
    · rename_i w _; exact ⟨rfl, rfl, rfl, W_bp_pushW _ _ _⟩
  | emit id l fin =>
    simp only [ppAct]
    split
    · rename_i w _; exact ⟨rfl, rfl, rfl, W_bp_pushW _ _ _⟩
    · split
      · rename_i w _; exact ⟨rfl, rfl, rfl, (W_bp_pushW _ _ _).trans (W_bp_pushW _ _ _)⟩
      · exact ⟨rfl, rfl, rfl, rfl⟩
  | park id => exact ⟨rfl, rfl, rfl, rfl⟩
  | finDone => exact ⟨rfl, rfl, rfl, rfl⟩

theorem ppActs_frame2 (as : List PartProd.Action) : ∀ (s : Sys) (lks : List (Option Nat)),
    (ppActs s lks as).pp = s.pp ∧ (ppActs s lks as).succ = s.succ ∧ (ppActs s lks as).next = s.next ∧
    (W (ppActs s lks as)).bp = (W s).bp := by
  induction as with
  | nil => intro s lks; exact ⟨rfl, rfl, rfl, rfl⟩
  | cons a r ih =>
    intro s lks
    obtain ⟨h1, h2, h3, h4⟩ := ih (ppAct s lks a).1 (ppAct s lks a).2
    obtain ⟨g1, g2, g3, g4⟩ := ppAct_frame2 s lks a
    exact ⟨h1.trans g1, h2.trans g2, h3.trans g3, h4.trans g4⟩

/-- the census in terms of `mu` -/
theorem census_mu (M : Nat) (s : Sys) (i : Int) :
    census M s i = (dataIds s.pq).count i + (dataIds s.dq).count i + (dataIds s.ret).count i +
      (dataIds (ins s)).count i + (bufIdsUpTo (M + 1) s.pp.bufs).count i + (s.succ.map (·.1)).count i + mu s i := by
  simp only [census, mu]; omega

theorem census_ppActs (M : Nat) (s1 : Sys) (lks : List (Option Nat)) (as : List PartProd.Action) (i : Int) :
    census M (ppActs s1 lks as) i =
      (dataIds s1.pq).count i + (dataIds s1.dq).count i + (dataIds s1.ret).count i +
      (dataIds (ins s1)).count i + (bufIdsUpTo (M + 1) s1.pp.bufs).count i + (s1.succ.map (·.1)).count i +
      mu (ppActs s1 lks as) i := by
  obtain ⟨e1, e2, e3⟩ := ppActs_frame as s1 lks
  obtain ⟨f1, f2, _, f4⟩ := ppActs_frame2 as s1 lks
  rw [census_mu, e1, e2, e3, f1, f2, show ins (ppActs s1 lks as) = ins s1 from by simp [ins, f4]]

theorem mu_popS (s : Sys) (r : List Tok) (pp' : PartProd.St) (i : Int) : mu (popS s r pp') i = mu s i := rfl

theorem mu_finS (s : Sys) (l : Nat) (i : Int) : mu (finS s l) i = mu s i := by
  have : (finS s l).errs = s.errs := rfl
  simp [mu, W_finS, dataIds_append, dataIds, finTok, this]

theorem census_head (M : Nat) (s : Sys) (t : Tok) (r : List Tok) (hq : s.pq = t :: r) (i : Int) :
    census M s i = (dataIds [t]).count i + (dataIds r).count i + (dataIds s.dq).count i + (dataIds s.ret).count i +
      (dataIds (ins s)).count i + (bufIdsUpTo (M + 1) s.pp.bufs).count i + (s.succ.map (·.1)).count i + mu s i := by
  rw [census_mu, hq, count_dataIds_cons]

def parkPP (pp : PartProd.St) (px : PartProd.Tok) : PartProd.St :=
  { pp with bufs := PartProd.setBuf pp.bufs px.retries (pp.bufs px.retries ++ [px]) }

theorem cons_pp_park {M : Nat} {s : Sys} {v : View} (h : Good M s v) (hcs : Cons M s) (t : Tok) (r : List Tok)
    (hq : s.pq = t :: r) (lks : List (Option Nat)) (hk : t.kind = .data) (hlt : t.retries < s.pp.hwm) :
    Cons M (ppActs (popS s r (PartProd.recv s.pp (toPP t)).1) lks (PartProd.recv s.pp (toPP t)).2) := by
  obtain ⟨_, _, hM, _⟩ := head_facts h t r hq
  have hfin : (toPP t).fin = false := isFin_data hk
  have hrec : PartProd.recv s.pp (toPP t) = (parkPP s.pp (toPP t), [.park t.id]) :=
    recv_park s.pp (toPP t) (by show ¬ t.retries > s.pp.hwm; omega) hlt hfin
  rw [hrec]
  refine cons_of_eq hcs ((ppActs_frame2 _ _ _).2.2.1) (fun i => ?_)
  rw [census_ppActs, census_head M s t r hq i]
  have hb := count_range_flatMap_set (M + 1) s.pp.bufs t.retries (s.pp.bufs t.retries ++ [toPP t]) i
    (by omega)
  have hd : (dataIds [t]).count i = [t.id].count i := by simp [dataIds, hk]
  have hmu : mu (ppActs (popS s r (parkPP s.pp (toPP t))) lks [.park t.id]) i = mu s i := rfl
  rw [hmu]
  simp only [List.map_append, List.count_append, List.map_cons, List.map_nil] at hb
  have hid : (toPP t).id = t.id := rfl
  rw [hid] at hb
  show (dataIds r).count i + (dataIds s.dq).count i + (dataIds s.ret).count i + (dataIds (ins s)).count i +
    (bufIdsUpTo (M + 1) (PartProd.setBuf s.pp.bufs t.retries (s.pp.bufs t.retries ++ [toPP t]))).count i +
    (s.succ.map (·.1)).count i + mu s i = _
  omega

theorem cons_pp_finLow {M : Nat} {s : Sys} (hcs : Cons M s) (t : Tok) (r : List Tok)
    (hq : s.pq = t :: r) (lks : List (Option Nat)) (hk : t.kind = .fin) (hlt : t.retries < s.pp.hwm) :
    Cons M (ppActs (popS s r (PartProd.recv s.pp (toPP t)).1) lks (PartProd.recv s.pp (toPP t)).2) := by
  have hrec := recv_finLow s.pp (toPP t) (by show ¬ t.retries > s.pp.hwm; omega) hlt (isFin_fin hk)
  rw [hrec]
  refine cons_of_eq hcs ((ppActs_frame2 _ _ _).2.2.1) (fun i => ?_)
  rw [census_ppActs, census_head M s t r hq i]
  have hd : (dataIds [t]).count i = 0 := by simp [dataIds, hk]
  have hmu : mu (ppActs (popS s r { s.pp with expect := PartProd.setExp s.pp.expect (toPP t).retries false })
      lks [.finDone]) i = mu s i := rfl
  rw [hmu, hd]
  show (dataIds r).count i + (dataIds s.dq).count i + (dataIds s.ret).count i + (dataIds (ins s)).count i +
    (bufIdsUpTo (M + 1) s.pp.bufs).count i + (s.succ.map (·.1)).count i + mu s i = _
  omega

theorem cons_pp_emit {M : Nat} {s : Sys} {v : View} (h : Good M s v) (hcs : Cons M s) (t : Tok) (r : List Tok)
    (hq : s.pq = t :: r) (lks : List (Option Nat)) (hl : OkLks lks) (hk : t.kind = .data)
    (heq : t.retries = s.pp.hwm) :
    Cons M (ppActs (popS s r (PartProd.recv s.pp (toPP t)).1) lks (PartProd.recv s.pp (toPP t)).2) := by
  obtain ⟨hp0, _, _, _⟩ := head_facts h t r hq
  have hfin : (toPP t).fin = false := isFin_data hk
  have hrec := recv_emit s.pp (toPP t) (by show ¬ t.retries > s.pp.hwm; omega)
    (Or.inr ⟨by show ¬ t.retries < s.pp.hwm; omega, hfin⟩)
  rw [hrec]
  have hact : [PartProd.Action.emit (toPP t).id (toPP t).retries (toPP t).fin] = [t].map emitA := by
    simp [emitA, toPP, isFin_data hk]
  rw [hact]
  refine cons_of_eq hcs ((ppActs_frame2 _ _ _).2.2.1) (fun i => ?_)
  rw [census_ppActs, census_head M s t r hq i]
  have hmu := emits_count [t] (fun x hx => by rw [List.mem_singleton.1 hx]; exact ⟨hk, hp0⟩) i
    (s := popS s r s.pp) (lks := lks) h.conc.cur01 hl
  rw [hmu, mu_popS]
  have hd : (dataIds [t]).count i = ([t].map (·.id)).count i := by simp [dataIds, hk]
  rw [hd]
  show (dataIds r).count i + (dataIds s.dq).count i + (dataIds s.ret).count i + (dataIds (ins s)).count i +
    (bufIdsUpTo (M + 1) s.pp.bufs).count i + (s.succ.map (·.1)).count i + _ = _
  omega

theorem cons_pp_rise {M : Nat} {s : Sys} {v : View} (h : Good M s v) (hcs : Cons M s) (t : Tok) (r : List Tok)
    (hq : s.pq = t :: r) (lks : List (Option Nat)) (hl : OkLks lks) (hk : t.kind = .data)
    (hgt : t.retries > s.pp.hwm) :
    Cons M (ppActs (popS s r (PartProd.recv s.pp (toPP t)).1) lks (PartProd.recv s.pp (toPP t)).2) := by
  obtain ⟨hp0, _, _, _⟩ := head_facts h t r hq
  have hd : isData t = true := by simp [isData, hk]
  have hrec : PartProd.recv s.pp (toPP t) = (risePP s.pp t.retries,
      [.finSend (t.retries - 1), .emit t.id t.retries false]) := by
    rw [recv_rise s.pp (toPP t) hgt]; simp [risePP, toPP, isFin_data hk]
  rw [hrec]
  obtain ⟨rest, hav, _⟩ := rep_pop h.rep t r hq (risePP s.pp t.retries)
  have hcur : s.cur = some 0 := by
    rcases h.conc.cur01 with hc | hc
    · have := h.conc.capN hc t (by rw [hav, data_cons_data _ hd]; exact List.mem_cons_self ..)
      rw [rep_pp h.rep] at this; omega
    · exact hc
  have hact : ppActs (popS s r (risePP s.pp t.retries)) lks
      [.finSend (t.retries - 1), .emit t.id t.retries false] =
      ppActs (finS (popS s r (risePP s.pp t.retries)) (t.retries - 1)) lks ([t].map emitA) := by
    simp [ppActs, ppAct, popS, hcur, finS, pushS, emitA]
  rw [hact]
  refine cons_of_eq hcs ((ppActs_frame2 _ _ _).2.2.1) (fun i => ?_)
  rw [census_ppActs, census_head M s t r hq i]
  have hmu := emits_count [t] (fun x hx => by rw [List.mem_singleton.1 hx]; exact ⟨hk, hp0⟩) i
    (s := finS (popS s r (risePP s.pp t.retries)) (t.retries - 1)) (lks := lks) (Or.inl rfl) hl
  rw [hmu, mu_finS, mu_popS]
  have hd' : (dataIds [t]).count i = ([t].map (·.id)).count i := by simp [dataIds, hk]
  rw [hd']
  have hins : ins (finS (popS s r (risePP s.pp t.retries)) (t.retries - 1)) = ins s := by
    simp [ins, W_finS]; rfl
  rw [hins]
  show (dataIds r).count i + (dataIds s.dq).count i + (dataIds s.ret).count i + (dataIds (ins s)).count i +
    (bufIdsUpTo (M + 1) s.pp.bufs).count i + (s.succ.map (·.1)).count i + _ = _
  omega

theorem cons_pp_finTop {M : Nat} {s : Sys} {v : View} (h : Good M s v) (hcs : Cons M s) (t : Tok) (r : List Tok)
    (hq : s.pq = t :: r) (lks : List (Option Nat)) (hl : OkLks lks) (hk : t.kind = .fin)
    (heq : t.retries = s.pp.hwm) :
    Cons M (ppActs (popS s r (PartProd.recv s.pp (toPP t)).1) lks (PartProd.recv s.pp (toPP t)).2) := by
  obtain ⟨_, _, hM, hmem⟩ := head_facts h t r hq
  have hvp := rep_pp h.rep
  have hf1 := h.vinv.fin1 t hmem hk
  have hpos : s.pp.hwm > 0 := by rw [← heq]; omega
  have hrec : PartProd.recv s.pp (toPP t) = (flushPP s.pp, .finDone :: flushActs s.pp) :=
    recv_finTop s.pp (toPP t) heq hpos (isFin_fin hk)
  rw [hrec]
  have hform : ∀ a ∈ flushActs s.pp, ∃ id l, a = PartProd.Action.emit id l false := by
    intro a ha
    obtain ⟨l, px, hpx, rfl⟩ := flush_all_emit _ _ _ a ha
    have := h.vinv.pinv.typed l px (by rw [hvp]; exact hpx)
    exact ⟨px.id, px.retries, by rw [this.2]⟩
  have hact : ppActs (popS s r (flushPP s.pp)) lks (.finDone :: flushActs s.pp) =
      ppActs (popS s r (flushPP s.pp)) lks ((emToks (flushActs s.pp)).map emitA) := by
    rw [← emits_normal hform]; simp [ppActs, ppAct]
  rw [hact]
  refine cons_of_eq hcs ((ppActs_frame2 _ _ _).2.2.1) (fun i => ?_)
  rw [census_ppActs, census_head M s t r hq i]
  have hmu := emits_count (emToks (flushActs s.pp)) (emToks_data hform) i
    (s := popS s r (flushPP s.pp)) (lks := lks) h.conc.cur01 hl
  rw [hmu, mu_popS]
  have hd : (dataIds [t]).count i = 0 := by simp [dataIds, hk]
  have hfl := flush_count (M + 1) i s.pp.hwm s.pp.bufs (PartProd.setExp s.pp.expect s.pp.hwm false) (by omega)
  rw [hd]
  show (dataIds r).count i + (dataIds s.dq).count i + (dataIds s.ret).count i + (dataIds (ins s)).count i +
    (bufIdsUpTo (M + 1) (PartProd.flush s.pp.hwm s.pp.bufs (PartProd.setExp s.pp.expect s.pp.hwm false)).2.1).count i +
    (s.succ.map (·.1)).count i + (mu s i + ((emToks (PartProd.flush s.pp.hwm s.pp.bufs
      (PartProd.setExp s.pp.expect s.pp.hwm false)).2.2).map (·.id)).count i) = _
  omega

theorem cons_ppRecv {M : Nat} {s s' : Sys} {v : View} {lks : List (Option Nat)} (h : Good M s v) (hcs : Cons M s)
    (hl : OkLks lks) (hs : sysStep M s (.ppRecv lks) = some s') : Cons M s' := by
  obtain ⟨t, r, hq, rfl⟩ := ppRecv_split hs
  obtain ⟨_, hns, _, hmem⟩ := head_facts h t r hq
  have hvp := rep_pp h.rep
  rcases kind_cases t with hk | hk | hk
  · by_cases hgt : t.retries > s.pp.hwm
    · exact cons_pp_rise h hcs t r hq lks hl hk hgt
    · by_cases hlt : t.retries < s.pp.hwm
      · exact cons_pp_park h hcs t r hq lks hk hlt
      · exact cons_pp_emit h hcs t r hq lks hl hk (by omega)
  · exact absurd hk hns
  · have hf1 := h.vinv.fin1 t hmem hk
    rw [hvp] at hf1
    by_cases hlt : t.retries < s.pp.hwm
    · exact cons_pp_finLow hcs t r hq lks hk hlt
    · exact cons_pp_finTop h hcs t r hq lks hl hk (by omega)

end Lemmas.C02sys
