/-
  C02 composition, per-stay split: the relation between a run with re-selection (state `s`) and its handover chain
  (state `t`).  Ghost `g`: for every real worker the chain worker of the stay it is serving (`a`) and the chain
  workers of the stays still waiting behind it in its input channel (`L`, oldest first).  The real worker's input is
  the concatenation of their inputs; its state is the state of `a`; the waiting stays are untouched fresh workers.
-/
import SaramaVerif.Lemmas.C02splitInv
import SaramaVerif.Props.C02stays

set_option linter.unusedSimpArgs false

namespace Lemmas.C02sys
open Model Model.Pipeline Props.C02sys

abbrev Ghost := Nat → Option (Nat × List Nat)

def inqOf (t : Sys) (l : List Nat) : List Tok := l.flatMap (fun id => (t.wk id).inq)

def live (x : Nat × List Nat) : List Nat := x.1 :: x.2

/-- the chain worker that takes what the partition producer sends to the real worker: its newest stay -/
def lastOf (x : Nat × List Nat) : Nat := (x.1 :: x.2).getLast (by simp)

def mergeW (t : Sys) : Option (Nat × List Nat) → Worker
  | none => {}
  | some (a, L) => ⟨(t.wk a).inq ++ inqOf t L, (t.wk a).bp, (t.wk a).pend⟩

/-- the part of the relation that does not need the chain to be a reachable state -/
structure RelW (seen : List Nat) (g : Ghost) (s t : Sys) : Prop where
  next  : s.next = t.next
  dq    : s.dq = t.dq
  pq    : s.pq = t.pq
  pp    : s.pp = t.pp
  ret   : s.ret = t.ret
  ldr   : s.ldr = t.ldr
  log   : s.log = t.log
  succ  : s.succ = t.succ
  errs  : s.errs = t.errs
  crash : s.crash = t.crash
  wk    : ∀ w, s.wk w = mergeW t (g w)
  cur   : (s.cur = none ∧ t.cur = none) ∨ ∃ w x, s.cur = some w ∧ g w = some x ∧ t.cur = some (lastOf x)
  later : ∀ w a L, g w = some (a, L) → ∀ id ∈ L, (t.wk id).inq ≠ [] ∧ (t.wk id).bp = {} ∧ (t.wk id).pend = none
  actne : ∀ w a L, g w = some (a, L) → L ≠ [] → (t.wk a).inq ≠ []
  ids   : ∀ w x, g w = some x → ∀ id ∈ live x, id ∈ seen ∧ id / 64 = w / 64
  disj  : ∀ w w' x x', g w = some x → g w' = some x' → w ≠ w' → ∀ id ∈ live x, id ∉ live x'
  nd    : ∀ w x, g w = some x → (live x).Nodup
  idn   : ∀ id ∈ seen, id % 64 < seen.length
  blank : ∀ id, id ∉ seen → t.wk id = {}
  drained : ∀ w a, g w = some (a, []) → (t.wk a).inq = [] → t.cur ≠ some a → (t.wk a).bp = {} ∧ (t.wk a).pend = none

/-- the relation: `RelW` and the chain is a state of the proved scope -/
structure Rel (M : Nat) (seen : List Nat) (g : Ghost) (s t : Sys) : Prop extends RelW seen g s t where
  cinv : CInv M seen t
  p0   : P0Inv s

theorem rel_init (M : Nat) : Rel M [] (fun _ => none) {} {} :=
  { next := rfl, dq := rfl, pq := rfl, pp := rfl, ret := rfl, ldr := rfl, log := rfl, succ := rfl, errs := rfl,
    crash := rfl, wk := fun _ => rfl, cur := Or.inl ⟨rfl, rfl⟩,
    later := (fun _ _ _ h => by cases h), actne := (fun _ _ _ h => by cases h), ids := (fun _ _ h => by cases h),
    disj := (fun _ _ _ _ h => by cases h), nd := (fun _ _ h => by cases h), idn := (fun _ h => by cases h),
    blank := fun _ _ => rfl, drained := (fun _ _ h => by cases h), cinv := chain_init M, p0 := p0Inv_init }

theorem mergeW_congr {t t' : Sys} (h : t'.wk = t.wk) (x : Option (Nat × List Nat)) : mergeW t' x = mergeW t x := by
  cases x with
  | none => rfl
  | some p => obtain ⟨a, L⟩ := p; simp only [mergeW, inqOf, h]

/-- steps that leave the workers and the binding alone -/
theorem RelW.frame {seen : List Nat} {g : Ghost} {s t s' t' : Sys} (h : RelW seen g s t)
    (hw : s'.wk = s.wk) (hw' : t'.wk = t.wk) (hc : s'.cur = s.cur) (hc' : t'.cur = t.cur)
    (e1 : s'.next = t'.next) (e2 : s'.dq = t'.dq) (e3 : s'.pq = t'.pq) (e4 : s'.pp = t'.pp) (e5 : s'.ret = t'.ret)
    (e6 : s'.ldr = t'.ldr) (e7 : s'.log = t'.log) (e8 : s'.succ = t'.succ) (e9 : s'.errs = t'.errs)
    (e10 : s'.crash = t'.crash) : RelW seen g s' t' :=
  { next := e1, dq := e2, pq := e3, pp := e4, ret := e5, ldr := e6, log := e7, succ := e8, errs := e9, crash := e10,
    wk := fun w => by rw [hw, mergeW_congr hw']; exact h.wk w,
    cur := by rw [hc, hc']; exact h.cur,
    later := fun w a L hg id hid => by rw [hw']; exact h.later w a L hg id hid,
    actne := fun w a L hg hl => by rw [hw']; exact h.actne w a L hg hl,
    ids := h.ids, disj := h.disj, nd := h.nd, idn := h.idn,
    blank := fun id hid => by rw [hw']; exact h.blank id hid,
    drained := fun w a hg hi hcc => by rw [hw'] at hi ⊢; rw [hc'] at hcc; exact h.drained w a hg hi hcc }

theorem rel_of {M : Nat} {seen : List Nat} {g : Ghost} {s t s' t' : Sys} (hM : 1 ≤ M) (h : Rel M seen g s t)
    (c : Choice) (hl : lookupsOf c = []) (hs : sysStep M s c = some s') (ht : sysStep M t c = some t')
    (hr : RelW seen g s' t') : Rel M seen g s' t' := by
  have := chain_step hM c (fun w hw => by rw [hl] at hw; cases hw) h.cinv ht
  rw [hl, List.append_nil] at this
  exact { toRelW := hr, cinv := this, p0 := p0Inv_step hM h.p0 hs }

/-- submit, retryOut, dispatch, moveLeader: the chain does the same -/
theorem sim_plain {M : Nat} {seen : List Nat} {g : Ghost} {s t s' : Sys} (hM : 1 ≤ M) (h : Rel M seen g s t)
    (c : Choice) (hc : c = .submit ∨ c = .retryOut ∨ c = .dispatch ∨ ∃ b, c = .moveLeader b)
    (hs : sysStep M s c = some s') : ∃ t', sysStep M t c = some t' ∧ Rel M seen g s' t' := by
  rcases hc with rfl | rfl | rfl | ⟨b, rfl⟩
  · simp only [sysStep, Option.some.injEq] at hs; subst hs
    refine ⟨_, rfl, rel_of hM h .submit rfl rfl rfl ?_⟩
    exact h.toRelW.frame rfl rfl rfl rfl (by simp [h.next]) (by simp [h.dq, h.next]) h.pq h.pp h.ret h.ldr h.log
      h.succ h.errs h.crash
  · cases hr : s.ret with
    | nil => simp [sysStep, hr] at hs
    | cons x r =>
      have hr' : t.ret = x :: r := by rw [← h.ret]; exact hr
      simp only [sysStep, hr, Option.some.injEq] at hs; subst hs
      refine ⟨{ t with ret := r, dq := t.dq ++ [x] }, by simp [sysStep, hr'], ?_⟩
      refine rel_of hM h .retryOut rfl (by simp [sysStep, hr]) (by simp [sysStep, hr']) ?_
      exact h.toRelW.frame rfl rfl rfl rfl h.next (by simp [h.dq]) h.pq h.pp rfl h.ldr h.log h.succ h.errs h.crash
  · cases hr : s.dq with
    | nil => simp [sysStep, hr] at hs
    | cons x r =>
      have hr' : t.dq = x :: r := by rw [← h.dq]; exact hr
      simp only [sysStep, hr, Option.some.injEq] at hs; subst hs
      refine ⟨{ t with dq := r, pq := t.pq ++ [x] }, by simp [sysStep, hr'], ?_⟩
      refine rel_of hM h .dispatch rfl (by simp [sysStep, hr]) (by simp [sysStep, hr']) ?_
      exact h.toRelW.frame rfl rfl rfl rfl h.next rfl (by simp [h.pq]) h.pp h.ret h.ldr h.log h.succ h.errs h.crash
  · simp only [sysStep, Option.some.injEq] at hs; subst hs
    refine ⟨_, rfl, rel_of hM h (.moveLeader b) rfl rfl rfl ?_⟩
    exact h.toRelW.frame rfl rfl rfl rfl h.next h.dq h.pq h.pp h.ret rfl h.log h.succ h.errs h.crash

theorem inqOf_setW_not (t : Sys) (f : Nat → Worker) (hf : f = t.wk) (a : Nat) (k : Worker) (l : List Nat) (h : a ∉ l)
    (t' : Sys) (ht' : t'.wk = setW f a k) : inqOf t' l = inqOf t l := by
  subst hf
  simp only [inqOf, ht']
  induction l with
  | nil => rfl
  | cons x r ih =>
    have hx : x ≠ a := fun e => h (e ▸ List.mem_cons_self ..)
    have := ih (fun e => h (List.mem_cons_of_mem _ e))
    simp only [List.flatMap_cons, this]
    simp [setW, hx]

theorem mergeW_setW_other {t t' : Sys} {a : Nat} {k : Worker} (ht' : t'.wk = setW t.wk a k)
    (x : Nat × List Nat) (h : a ∉ live x) : mergeW t' (some x) = mergeW t (some x) := by
  obtain ⟨a', L⟩ := x
  have h1 : a' ≠ a := fun e => h (by simp [live, e])
  have h2 : a ∉ L := fun e => h (by simp [live, e])
  simp only [mergeW, inqOf_setW_not t t.wk rfl a k L h2 t' ht', ht', setW, h1, if_false]

/-- the chain worker `a` that real worker `w` is serving takes a step: both get the same new state; `q'` is what is
    left of `a`'s input -/
theorem relW_setAct {seen : List Nat} {g : Ghost} {s t s' t' : Sys} (h : RelW seen g s t) {w a : Nat} {L : List Nat}
    (hg : g w = some (a, L)) (q' : List Tok) (b' : BrokerProd.St) (p' : Option (Pipeline.Verdict × Nat))
    (hs' : s'.wk = setW s.wk w ⟨q' ++ inqOf t L, b', p'⟩) (ht' : t'.wk = setW t.wk a ⟨q', b', p'⟩)
    (hc : s'.cur = s.cur) (hc' : t'.cur = t.cur)
    (hact : L ≠ [] → q' ≠ []) (hdr : L = [] → q' = [] → t.cur ≠ some a → b' = {} ∧ p' = none)
    (e1 : s'.next = t'.next) (e2 : s'.dq = t'.dq) (e3 : s'.pq = t'.pq) (e4 : s'.pp = t'.pp) (e5 : s'.ret = t'.ret)
    (e6 : s'.ldr = t'.ldr) (e7 : s'.log = t'.log) (e8 : s'.succ = t'.succ) (e9 : s'.errs = t'.errs)
    (e10 : s'.crash = t'.crash) : RelW seen g s' t' := by
  have hnd := h.nd w _ hg
  have haL : a ∉ L := by simp only [live, List.nodup_cons] at hnd; exact hnd.1
  have hother : ∀ w' x', g w' = some x' → w' ≠ w → a ∉ live x' := by
    intro w' x' hg' hne hm
    exact h.disj w w' _ x' hg hg' (fun e => hne e.symm) a (by simp [live]) hm
  refine { next := e1, dq := e2, pq := e3, pp := e4, ret := e5, ldr := e6, log := e7, succ := e8, errs := e9,
           crash := e10, wk := ?_, cur := by rw [hc, hc']; exact h.cur, later := ?_, actne := ?_, ids := h.ids,
           disj := h.disj, nd := h.nd, idn := h.idn, blank := ?_, drained := ?_ }
  · intro w'
    by_cases hw : w' = w
    · subst hw
      rw [hs', hg]
      simp only [setW, if_true, mergeW, ht', inqOf_setW_not t t.wk rfl a _ L haL t' ht']
    · rw [hs']; simp only [setW, hw, if_false]
      rw [h.wk w']
      cases hg' : g w' with
      | none => rfl
      | some x' => exact (mergeW_setW_other ht' x' (hother w' x' hg' hw)).symm
  · intro w' a' L' hg' id hid
    have hne : id ≠ a := by
      intro e; subst e
      by_cases hw : w' = w
      · subst hw; rw [hg] at hg'; cases hg'; exact haL hid
      · exact hother w' _ hg' hw (by simp [live, hid])
    rw [ht']; simp only [setW, hne, if_false]; exact h.later w' a' L' hg' id hid
  · intro w' a' L' hg' hl
    by_cases hw : w' = w
    · subst hw; rw [hg] at hg'; cases hg'
      rw [ht']; simp only [setW, if_true]; exact hact hl
    · have hne : a' ≠ a := fun e => hother w' _ hg' hw (by simp [live, e])
      rw [ht']; simp only [setW, hne, if_false]; exact h.actne w' a' L' hg' hl
  · intro id hid
    have hne : id ≠ a := fun e => hid (e ▸ (h.ids w _ hg a (by simp [live])).1)
    rw [ht']; simp only [setW, hne, if_false]; exact h.blank id hid
  · intro w' a' hg' hi hcc
    rw [hc'] at hcc
    by_cases hw : w' = w
    · subst hw; rw [hg] at hg'; cases hg'
      rw [ht'] at hi ⊢; simp only [setW, if_true] at hi ⊢
      exact hdr rfl hi hcc
    · have hne : a' ≠ a := fun e => hother w' _ hg' hw (by simp [live, e])
      rw [ht'] at hi ⊢; simp only [setW, hne, if_false] at hi ⊢
      exact h.drained w' a' hg' hi hcc

end Lemmas.C02sys
