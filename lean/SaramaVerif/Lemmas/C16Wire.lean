import SaramaVerif.Model.ProduceSet
import SaramaVerif.Lemmas.C16Sets
/-
  Helper development for the request-size margin lemma of C16: the encoded size of an uncompressed request
  against the running estimate `bufferBytes`.
-/
namespace Lemmas.C16
open Model.ProduceSet

theorem zigzag_nonneg (x : Int) : 0 ≤ zigzag x := by unfold zigzag; split <;> omega

theorem varintLen_bounds (x : Int) : 1 ≤ varintLen x ∧ varintLen x ≤ 10 := by
  unfold varintLen
  repeat' split
  all_goals omega

/-- values of int32 magnitude take at most binary.MaxVarintLen32 = 5 bytes -/
theorem varintLen_le_5 (x : Int) (h : -2147483648 ≤ x ∧ x < 2147483648) : varintLen x ≤ 5 := by
  have hz : zigzag x < 4294967296 := by unfold zigzag; split <;> omega
  unfold varintLen
  repeat' split
  all_goals omega

theorem hdrsWire_bounds (hs : List (Nat × Nat)) (h : ∀ x ∈ hs, x.1 < 2147483648 ∧ x.2 < 2147483648) :
    0 ≤ hdrsWire hs ∧ hdrsWire hs ≤ headersSize hs := by
  induction hs with
  | nil => simp [hdrsWire, headersSize]
  | cons a t ih =>
    have ha := h a List.mem_cons_self
    have := ih (fun x hx => h x (List.mem_cons_of_mem _ hx))
    have := varintLen_le_5 a.1 (by omega)
    have := varintLen_le_5 a.2 (by omega)
    have := varintLen_bounds a.1
    have := varintLen_bounds a.2
    simp only [hdrsWire, headersSize, maxVarintLen32]; omega

theorem headers_small (hs : List (Nat × Nat)) (h : headersSize hs < 2147483648) :
    ∀ x ∈ hs, x.1 < 2147483648 ∧ x.2 < 2147483648 := by
  induction hs with
  | nil => simp
  | cons a t ih =>
    have := headersSize_nonneg t
    simp only [headersSize, maxVarintLen32] at h
    intro x hx
    rcases List.mem_cons.mp hx with hx | hx
    · subst hx; omega
    · exact ih (by omega) x hx

/-- the conservative per-record estimate of `add` / `byteSize(2)` -/
def recEst (r : Rec) : Int := maximumRecordOverhead + (r.keyLen : Int) + (r.valLen : Int) + headersSize r.headers

/-- an encoded record never exceeds the estimate (int32-sized fields) -/
theorem recWire_le (r : Rec) (hoff : 0 ≤ r.offset ∧ r.offset < 2147483648)
    (hn : r.headers.length < 2147483648) (hsz : recEst r < 2147483648) :
    0 ≤ recWire r ∧ recWire r ≤ recEst r := by
  have hh := headersSize_nonneg r.headers
  unfold recEst maximumRecordOverhead at hsz
  have hw := hdrsWire_bounds r.headers (headers_small r.headers (by omega))
  have h1 := varintLen_bounds r.tsDelta
  have h2 := varintLen_le_5 r.offset (by omega)
  have h2' := varintLen_bounds r.offset
  have h3 := varintLen_le_5 r.keyLen (by omega)
  have h3' := varintLen_bounds r.keyLen
  have h4 := varintLen_le_5 r.valLen (by omega)
  have h4' := varintLen_bounds r.valLen
  have h5 := varintLen_le_5 r.headers.length (by omega)
  have h5' := varintLen_bounds r.headers.length
  have hb : 0 ≤ recBody r ∧ recBody r ≤ 31 + (r.keyLen : Int) + (r.valLen : Int) + headersSize r.headers := by
    unfold recBody; omega
  have h6 := varintLen_le_5 (recBody r) (by omega)
  have h6' := varintLen_bounds (recBody r)
  unfold recWire recEst maximumRecordOverhead
  omega

theorem sumMap_nonneg {α : Type} (f : α → Int) (l : List α) (h : ∀ a ∈ l, 0 ≤ f a) : 0 ≤ sumMap f l := by
  induction l with
  | nil => simp [sumMap]
  | cons a t ih =>
    have := h a List.mem_cons_self
    have := ih (fun x hx => h x (List.mem_cons_of_mem _ hx))
    simp only [sumMap]; omega

/-- record batches: Σ encoded records ≤ Σ byteSize(2) of the messages they were made from -/
theorem sum_recWire_le (c : Conf) (hv : c.v2 = true) :
    ∀ (msgs : List Msg) (recs : List Rec) (i : Int),
      recs.map recSizes = msgs.map (msgSizes c) → 0 ≤ i → i + (recs.length : Int) ≤ 2147483648 →
      (∀ m ∈ msgs, byteSize 2 m < 2147483648 ∧ m.headers.length < 2147483648) →
      0 ≤ sumMap recWire (renumber i recs) ∧ sumMap recWire (renumber i recs) ≤ sumByteSize 2 msgs := by
  intro msgs
  induction msgs with
  | nil =>
    intro recs i h _ _ _
    cases recs with
    | nil => simp [renumber, sumMap, sumByteSize]
    | cons r t => simp at h
  | cons m ms ih =>
    intro recs i h hi hlen hsm
    cases recs with
    | nil => simp at h
    | cons r t =>
      simp only [List.map_cons, List.cons.injEq, recSizes, msgSizes, hv, ↓reduceIte, Prod.mk.injEq] at h
      obtain ⟨⟨hk, hvl, hh⟩, ht⟩ := h
      simp only [List.length_cons] at hlen
      have hm := hsm m List.mem_cons_self
      have hrec := ih t (i + 1) (by simpa [recSizes, msgSizes, hv] using ht) (by omega) (by omega)
        (fun x hx => hsm x (List.mem_cons_of_mem _ hx))
      have hest : recEst { r with offset := i } = byteSize 2 m := by
        simp [recEst, byteSize, hk, hvl, hh]; omega
      have hr := recWire_le { r with offset := i } (by simp; omega) (by simpa [hh] using hm.2) (by rw [hest]; exact hm.1)
      simp only [renumber, sumMap, sumByteSize]
      omega

/-- message sets: the encoded size is exact: Σ byteSize(1) + 8 per message for format 1 -/
theorem sum_msgWire_eq (c : Conf) (_hv : c.v2 = false) (magic : Int) :
    ∀ (msgs : List Msg) (recs : List Rec), recs.map recSizes = msgs.map (msgSizes c) →
      sumMap (msgWire magic) recs = sumByteSize 1 msgs + (if magic ≥ 1 then 8 else 0) * (msgs.length : Int) := by
  intro msgs
  induction msgs with
  | nil =>
    intro recs h
    cases recs with
    | nil => simp [sumMap, sumByteSize]
    | cons r t => simp at h
  | cons m ms ih =>
    intro recs h
    cases recs with
    | nil => simp at h
    | cons r t =>
      simp only [List.map_cons, List.cons.injEq, recSizes, msgSizes, Prod.mk.injEq] at h
      obtain ⟨⟨hk, hvl, _⟩, ht⟩ := h
      have := ih t (by simpa [recSizes, msgSizes] using ht)
      simp only [sumMap, sumByteSize, msgWire, byteSize, producerMessageOverhead, List.length_cons, this, hk, hvl]
      split <;> simp <;> omega

/-- the int32-size assumption under which the record estimate is conservative -/
def SmallSet (s : State) : Prop :=
  ∀ p ∈ s.parts, (p.msgs.length : Int) ≤ 2147483648 ∧
    ∀ m ∈ p.msgs, byteSize 2 m < 2147483648 ∧ m.headers.length < 2147483648

theorem reqVersion_uncompressed (c : Conf) (h : c.codec = 0) :
    reqVersion c = if c.v2 then 3 else if c.v1 then 2 else 0 := by
  unfold reqVersion; simp [h]

theorem buildBatch_legacy (c : Conf) (p : PSet) (hc : c.codec = 0) (hv : c.v2 = false) :
    buildBatch c p = .msgSet (if c.v1 then 1 else 0) p.recs := by
  unfold buildBatch
  rw [reqVersion_uncompressed c hc]
  cases h1 : c.v1 <;> simp [hv, hc]

theorem buildBatch_v2 (c : Conf) (p : PSet) (hc : c.codec = 0) (hv : c.v2 = true) :
    buildBatch c p =
      .recordBatch p.firstTs (if p.recs.length > 0 then (p.recs.length : Int) - 1 else 0) 0 (renumber 0 p.recs) := by
  unfold buildBatch
  rw [reqVersion_uncompressed c hc]
  simp [hv, hc]

theorem sumByteSize_nonneg (v : Int) (l : List Msg) : 0 ≤ sumByteSize v l := by
  induction l with
  | nil => simp [sumByteSize]
  | cons a t ih => have := byteSize_ge v a; simp only [sumByteSize]; omega

/-- one partition's encoded batch against its estimate (no compression) -/
theorem batchWire_le {c : Conf} {p : PSet} (hc : c.codec = 0) (hp : PInv c p)
    (hsm : (p.msgs.length : Int) ≤ 2147483648 ∧ ∀ m ∈ p.msgs, byteSize 2 m < 2147483648 ∧ m.headers.length < 2147483648) :
    0 ≤ batchWire (buildBatch c p) ∧
    batchWire (buildBatch c p) ≤ p.bufferBytes +
      (if c.v2 = true then 12 else if c.v1 = true then 8 * (p.msgs.length : Int) else 0) ∧
    (c.v2 = false → batchWire (buildBatch c p) = p.bufferBytes + (if c.v1 = true then 8 * (p.msgs.length : Int) else 0)) := by
  have hlen : p.recs.length = p.msgs.length := by
    have := congrArg List.length hp.sizes
    simpa using this
  have hb := hp.bytes
  rw [estimate_eq_sumByteSize c p.msgs hp.nonempty] at hb
  cases hv : c.v2
  · -- message set
    have hsz : sizeVersion c = 1 := by simp [sizeVersion, hv]
    rw [hsz] at hb
    rw [buildBatch_legacy c p hc hv]
    simp only [hv, Bool.false_eq_true, ↓reduceIte] at hb ⊢
    have hn := sumByteSize_nonneg 1 p.msgs
    cases h1 : c.v1
    · have := sum_msgWire_eq c hv 0 p.msgs p.recs hp.sizes
      simp only [Bool.false_eq_true, ↓reduceIte, batchWire]
      simp at this
      refine ⟨by omega, by omega, fun _ => by omega⟩
    · have := sum_msgWire_eq c hv 1 p.msgs p.recs hp.sizes
      simp only [↓reduceIte, batchWire]
      simp at this
      refine ⟨by omega, by omega, fun _ => by omega⟩
  · have hsz : sizeVersion c = 2 := by simp [sizeVersion, hv]
    rw [hsz] at hb
    rw [buildBatch_v2 c p hc hv]
    simp only [hv, ↓reduceIte, recordBatchOverhead] at hb ⊢
    have := sum_recWire_le c hv p.msgs p.recs 0 hp.sizes (by omega) (by rw [hlen]; omega) hsm.2
    simp only [batchWire]
    refine ⟨by omega, by omega, fun h => by cases h⟩

theorem sum_parts_le {c : Conf} (hc : c.codec = 0) :
    ∀ (ps : List PSet), (∀ p ∈ ps, PInv c p) →
      (∀ p ∈ ps, (p.msgs.length : Int) ≤ 2147483648 ∧ ∀ m ∈ p.msgs, byteSize 2 m < 2147483648 ∧ m.headers.length < 2147483648) →
      0 ≤ sumMap (fun p => 8 + batchWire (buildBatch c p)) ps ∧
      sumMap (fun p => 8 + batchWire (buildBatch c p)) ps ≤ sumBytes ps + 8 * (ps.length : Int) +
        (if c.v2 = true then 12 * (ps.length : Int) else if c.v1 = true then 8 * sumCount ps else 0) ∧
      (c.v2 = false → sumMap (fun p => 8 + batchWire (buildBatch c p)) ps = sumBytes ps + 8 * (ps.length : Int) +
        (if c.v1 = true then 8 * sumCount ps else 0)) := by
  intro ps
  induction ps with
  | nil => intro _ _; simp [sumMap, sumBytes, sumCount]
  | cons q t ih =>
    intro hinv hsm
    have hq := batchWire_le hc (hinv q List.mem_cons_self) (hsm q List.mem_cons_self)
    have ht := ih (fun x hx => hinv x (List.mem_cons_of_mem _ hx)) (fun x hx => hsm x (List.mem_cons_of_mem _ hx))
    simp only [sumMap, sumBytes, sumCount, List.length_cons]
    cases hv : c.v2 <;> cases h1 : c.v1 <;> simp [hv, h1] at hq ht ⊢ <;> omega

end Lemmas.C16
