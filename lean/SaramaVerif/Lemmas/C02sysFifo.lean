/-
  C02 composition, glue: the way back (p.retries → retryHandler → p.input → dispatcher → pp.input) is ONE FIFO for
  the bounced tokens - any number of workers, no invariant needed.
-/
import SaramaVerif.Model.Pipeline

namespace Lemmas.C02sys
open Model Model.Pipeline

/-- the bounced tokens (retry level ≥ 1, chasers included) on their way back to the partition producer, oldest
    first -/
def retryPath (s : Sys) : List Tok := (s.pq ++ s.dq ++ s.ret).filter (fun t => decide (0 < t.retries))

theorem ppAct_frame (s : Sys) (lks : List (Option Nat)) (a : PartProd.Action) :
    (ppAct s lks a).1.pq = s.pq ∧ (ppAct s lks a).1.dq = s.dq ∧ (ppAct s lks a).1.ret = s.ret := by
  cases a with
  | finSend l => simp only [ppAct]; split <;> exact ⟨rfl, rfl, rfl⟩
  | emit id l fin =>
    simp only [ppAct]
    split
    · exact ⟨rfl, rfl, rfl⟩
    · split <;> exact ⟨rfl, rfl, rfl⟩
  | park id => exact ⟨rfl, rfl, rfl⟩
  | finDone => exact ⟨rfl, rfl, rfl⟩

theorem ppActs_frame (as : List PartProd.Action) : ∀ (s : Sys) (lks : List (Option Nat)),
    (ppActs s lks as).pq = s.pq ∧ (ppActs s lks as).dq = s.dq ∧ (ppActs s lks as).ret = s.ret := by
  induction as with
  | nil => intro s lks; exact ⟨rfl, rfl, rfl⟩
  | cons a r ih =>
    intro s lks
    obtain ⟨h1, h2, h3⟩ := ih (ppAct s lks a).1 (ppAct s lks a).2
    obtain ⟨g1, g2, g3⟩ := ppAct_frame s lks a
    exact ⟨h1.trans g1, h2.trans g2, h3.trans g3⟩

theorem bpActs_frame (as : List BrokerProd.Action) : ∀ (s : Sys) (off : Nat),
    (bpActs s off as).pq = s.pq ∧ (bpActs s off as).dq = s.dq ∧ ∃ post, (bpActs s off as).ret = s.ret ++ post := by
  induction as with
  | nil => intro s off; exact ⟨rfl, rfl, [], by simp [bpActs]⟩
  | cons a r ih =>
    intro s off
    obtain ⟨h1, h2, post, h3⟩ := ih (bpAct s off a).1 (bpAct s off a).2
    have hb : (bpAct s off a).1.pq = s.pq ∧ (bpAct s off a).1.dq = s.dq ∧
        ∃ p1, (bpAct s off a).1.ret = s.ret ++ p1 := by
      cases a <;> first | exact ⟨rfl, rfl, _, rfl⟩ | exact ⟨rfl, rfl, [], by simp [bpAct]⟩
    obtain ⟨g1, g2, p1, g3⟩ := hb
    exact ⟨h1.trans g1, h2.trans g2, p1 ++ post, by simp only [bpActs]; rw [h3, g3, List.append_assoc]⟩

theorem bpRun_frame {M : Nat} {s s' : Sys} {w : Nat} {q : List Tok} {pend : Option (Pipeline.Verdict × Nat)}
    {off : Nat} {i : BrokerProd.In} (h : bpRun M s w q pend off i = some s') :
    s'.pq = s.pq ∧ s'.dq = s.dq ∧ ∃ post, s'.ret = s.ret ++ post := by
  simp only [bpRun] at h
  split at h
  · cases h
  · simp only [Option.some.injEq] at h
    rw [← h]
    exact bpActs_frame _ _ _

/-- **the retry path is a FIFO**: one step of the system takes at most the head of the path (the partition
    producer receives it) and appends at its tail (a broker worker bounces); nothing overtakes, and a fresh
    submission never enters it.  Holds for every state and every choice (any number of workers). -/
theorem retry_path_fifo (M : Nat) (s s' : Sys) (c : Choice) (h : sysStep M s c = some s') :
    ∃ pre mid post, retryPath s = pre ++ mid ∧ retryPath s' = mid ++ post ∧ pre.length ≤ 1 := by
  have same : ∀ {s' : Sys}, s'.pq ++ s'.dq ++ s'.ret = s.pq ++ s.dq ++ s.ret →
      ∃ pre mid post, retryPath s = pre ++ mid ∧ retryPath s' = mid ++ post ∧ pre.length ≤ 1 :=
    fun e => ⟨[], retryPath s, [], by simp, by simp [retryPath, e], by simp⟩
  have app : ∀ {s' : Sys}, s'.pq = s.pq → s'.dq = s.dq → (∃ post, s'.ret = s.ret ++ post) →
      ∃ pre mid post, retryPath s = pre ++ mid ∧ retryPath s' = mid ++ post ∧ pre.length ≤ 1 := by
    intro s' e1 e2 ⟨post, e3⟩
    exact ⟨[], retryPath s, post.filter (fun t => decide (0 < t.retries)), by simp,
      by simp [retryPath, e1, e2, e3], by simp⟩
  cases c with
  | submit =>
    simp only [sysStep, Option.some.injEq] at h
    rw [← h]
    exact ⟨[], retryPath s, [], by simp, by simp [retryPath, mkTok], by simp⟩
  | retryOut =>
    simp only [sysStep] at h
    cases hr : s.ret with
    | nil => simp [hr] at h
    | cons t r => simp only [hr, Option.some.injEq] at h; rw [← h]; exact same (by simp [hr])
  | dispatch =>
    simp only [sysStep] at h
    cases hr : s.dq with
    | nil => simp [hr] at h
    | cons t r => simp only [hr, Option.some.injEq] at h; rw [← h]; exact same (by simp [hr])
  | ppRecv lks =>
    simp only [sysStep] at h
    cases hr : s.pq with
    | nil => simp [hr] at h
    | cons t r =>
      simp only [hr, Option.some.injEq] at h
      obtain ⟨e1, e2, e3⟩ := ppActs_frame (PartProd.recv s.pp (toPP t)).2
        { s with pq := r, pp := (PartProd.recv s.pp (toPP t)).1 } lks
      rw [h] at e1 e2 e3
      have e1' : s'.pq = r := e1
      have e2' : s'.dq = s.dq := e2
      have e3' : s'.ret = s.ret := e3
      refine ⟨[t].filter (fun t => decide (0 < t.retries)), retryPath s', [], ?_, by simp, ?_⟩
      · simp only [retryPath, hr, e1', e2', e3', List.cons_append, List.filter_cons, List.filter_nil]
        split <;> simp
      · simp only [List.filter_cons, List.filter_nil]; split <;> simp
  | bpRecv w ov =>
    simp only [sysStep] at h
    cases hq : (s.wk w).inq with
    | nil => simp [hq] at h
    | cons t r =>
      simp only [hq] at h
      obtain ⟨e1, e2, e3⟩ := bpRun_frame h
      exact app e1 e2 e3
  | handover w =>
    simp only [sysStep] at h
    obtain ⟨e1, e2, e3⟩ := bpRun_frame h
    exact app e1 e2 e3
  | broker w v =>
    simp only [sysStep] at h
    split at h
    · split at h
      · cases h
      · simp only [Option.some.injEq] at h; rw [← h]; exact same rfl
    · cases h
  | deliver w still =>
    simp only [sysStep] at h
    split at h
    · cases h
    · obtain ⟨e1, e2, e3⟩ := bpRun_frame h
      exact app e1 e2 e3
  | moveLeader b =>
    simp only [sysStep, Option.some.injEq] at h
    rw [← h]; exact same rfl
  | closeW w => obtain ⟨_, rfl⟩ := closeW_spec h; exact same rfl

end Lemmas.C02sys
