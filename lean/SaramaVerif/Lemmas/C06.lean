import SaramaVerif.Model.OffsetMgr
/-
  Helper development for C06: the partition-level invariant `PInv`, its preservation by every step, and
  the projection of system runs onto partition runs.
-/
namespace Lemmas.C06
open Model.OffsetMgr

/-- invariant of every reachable partition state -/
structure PInv (p : PState) : Prop where
  /-- a block is in flight only for a registered, dirty partition -/
  infl_dirty : ∀ c, p.inflight = some c → p.dirty = true ∧ p.live = true
  /-- clean means stored -/
  clean_stored : p.obj = true → p.dirty = false → (p.offset, p.md) = fetched p.store
  live_obj : p.live = true → p.obj = true
  /-- the newest entry of the position log is the pending pair -/
  hist_head : p.obj = true → p.hist.head? = some (p.offset, p.md)
  store_hist : fetched p.store ∈ p.hist
  infl_hist : ∀ c, p.inflight = some c → c ∈ p.hist
  commits_hist : ∀ c ∈ p.commits, c ∈ p.hist

theorem pinv_init (st : Option Pair) : PInv (pinit st) := by
  constructor <;> simp [pinit]

theorem updateCommitted_false_iff {o m : Int} {d : Bool} {c : Pair} :
    updateCommitted o m d c.1 c.2 = false ↔ ((o, m) = c ∨ d = false) := by
  unfold updateCommitted
  constructor
  · intro h
    split at h
    · rename_i hc; left; exact Prod.ext hc.1 hc.2
    · right; exact h
  · intro h
    split
    · rfl
    · rename_i hc
      rcases h with h | h
      · exfalso; apply hc; cases h; exact ⟨rfl, rfl⟩
      · exact h

theorem pinv_step {p : PState} (h : PInv p) (op : POp) : PInv (pstep p op) := by
  obtain ⟨h1, h2, h3, h4, h5, h6, h7⟩ := h
  cases op with
  | nop => exact ⟨h1, h2, h3, h4, h5, h6, h7⟩
  | manage =>
    simp only [pstep]
    split
    · exact ⟨h1, h2, h3, h4, h5, h6, h7⟩
    · rename_i hl
      have hinf : p.inflight = none := by
        cases hi : p.inflight with
        | none => rfl
        | some c => exact absurd (h1 c hi).2 hl
      constructor <;> simp_all
  | mark o m =>
    simp only [pstep]
    split
    · refine ⟨?_, ?_, h3, ?_, ?_, ?_, ?_⟩
      · intro c hi; exact ⟨rfl, (h1 c hi).2⟩
      · intro _ hd; simp at hd
      · intro _; rfl
      · exact List.mem_cons_of_mem _ h5
      · intro c hi; exact List.mem_cons_of_mem _ (h6 c hi)
      · intro c hcm; exact List.mem_cons_of_mem _ (h7 c hcm)
    · exact ⟨h1, h2, h3, h4, h5, h6, h7⟩
  | reset o m =>
    simp only [pstep]
    split
    · refine ⟨?_, ?_, h3, ?_, ?_, ?_, ?_⟩
      · intro c hi; exact ⟨rfl, (h1 c hi).2⟩
      · intro _ hd; simp at hd
      · intro _; rfl
      · exact List.mem_cons_of_mem _ h5
      · intro c hi; exact List.mem_cons_of_mem _ (h6 c hi)
      · intro c hcm; exact List.mem_cons_of_mem _ (h7 c hcm)
    · exact ⟨h1, h2, h3, h4, h5, h6, h7⟩
  | aclose =>
    simp only [pstep]
    split
    · exact ⟨h1, h2, h3, h4, h5, h6, h7⟩
    · exact ⟨h1, h2, h3, h4, h5, h6, h7⟩
  | acloseLive =>
    simp only [pstep]
    split
    · exact ⟨h1, h2, h3, h4, h5, h6, h7⟩
    · exact ⟨h1, h2, h3, h4, h5, h6, h7⟩
  | snap =>
    simp only [pstep]
    split
    · rename_i hc
      have hobj := h3 hc.1
      have hh := h4 hobj
      have hmem : (p.offset, p.md) ∈ p.hist := List.mem_of_mem_head? (by rw [hh]; rfl)
      refine ⟨?_, h2, h3, h4, h5, ?_, ?_⟩
      · intro c _; exact ⟨hc.2, hc.1⟩
      · intro c hcc
        simp only [Option.some.injEq] at hcc
        rw [← hcc]; exact hmem
      · intro c hcc
        simp only [List.mem_cons] at hcc
        rcases hcc with rfl | hcc
        · exact hmem
        · exact h7 c hcc
    · exact ⟨h1, h2, h3, h4, h5, h6, h7⟩
  | verdict v =>
    simp only [pstep]
    cases hi : p.inflight with
    | none => exact ⟨h1, h2, h3, h4, h5, h6, h7⟩
    | some c =>
      have hd := h1 c hi
      have hch := h6 c hi
      cases v with
      | ok =>
        refine ⟨by simp, ?_, h3, h4, ?_, by simp, h7⟩
        · intro _ hdirty
          simp only at hdirty
          rcases updateCommitted_false_iff.mp hdirty with hh | hh
          · simpa [fetched] using hh
          · rw [hd.1] at hh; exact absurd hh (by decide)
        · simpa [fetched] using hch
      | okLost =>
        refine ⟨by simp, ?_, h3, h4, ?_, by simp, h7⟩
        · intro _ hdirty
          simp only at hdirty
          rw [hd.1] at hdirty; exact absurd hdirty (by decide)
        · simpa [fetched] using hch
      | fail =>
        exact ⟨by simp, h2, h3, h4, h5, by simp, h7⟩
  | release force =>
    simp only [pstep]
    split
    · rename_i hc
      refine ⟨?_, h2, by simp, h4, h5, h6, h7⟩
      intro c hcc
      simp only at hcc
      rw [hc.2.2] at hcc; exact absurd hcc (by simp)
    · exact ⟨h1, h2, h3, h4, h5, h6, h7⟩

theorem pinv_run {p : PState} (h : PInv p) (ops : List POp) : PInv (prun p ops) := by
  induction ops generalizing p with
  | nil => exact h
  | cons op ops ih => exact ih (pinv_step h op)

theorem prun_append (p : PState) (a b : List POp) : prun p (a ++ b) = prun (prun p a) b := by
  induction a generalizing p with
  | nil => rfl
  | cons x xs ih => exact ih (pstep p x)


/-! ### where the entries of the position log come from -/

/-- `op`, executed in state `q`, set the position to `c` (an accepted MarkOffset / ResetOffset) -/
def Accepts (q : PState) (op : POp) (c : Pair) : Prop :=
  q.obj = true ∧ ((op = .mark c.1 c.2 ∧ c.1 > q.offset) ∨ (op = .reset c.1 c.2 ∧ c.1 ≤ q.offset))

theorem hist_step {p : PState} (h : PInv p) (op : POp) :
    ∀ c ∈ (pstep p op).hist, c ∈ p.hist ∨ Accepts p op c := by
  intro c hc
  cases op with
  | nop => exact Or.inl hc
  | manage =>
    simp only [pstep] at hc
    split at hc
    · exact Or.inl hc
    · simp only [List.mem_cons] at hc
      rcases hc with rfl | hc
      · exact Or.inl h.store_hist
      · exact Or.inl hc
  | mark o m =>
    simp only [pstep] at hc
    split at hc
    · rename_i hg
      simp only [List.mem_cons] at hc
      rcases hc with rfl | hc
      · exact Or.inr ⟨hg.1, Or.inl ⟨rfl, hg.2⟩⟩
      · exact Or.inl hc
    · exact Or.inl hc
  | reset o m =>
    simp only [pstep] at hc
    split at hc
    · rename_i hg
      simp only [List.mem_cons] at hc
      rcases hc with rfl | hc
      · exact Or.inr ⟨hg.1, Or.inr ⟨rfl, hg.2⟩⟩
      · exact Or.inl hc
    · exact Or.inl hc
  | aclose => simp only [pstep] at hc; split at hc <;> exact Or.inl hc
  | acloseLive => simp only [pstep] at hc; split at hc <;> exact Or.inl hc
  | snap => simp only [pstep] at hc; split at hc <;> exact Or.inl hc
  | verdict v =>
    simp only [pstep] at hc
    split at hc
    · exact Or.inl hc
    · cases v <;> exact Or.inl hc
  | release f => simp only [pstep] at hc; split at hc <;> exact Or.inl hc

/-- every entry of the position log after a run was there before or is the argument of an accepted
    mark / reset of the run -/
theorem hist_run {p : PState} (h : PInv p) (ops : List POp) :
    ∀ c ∈ (prun p ops).hist,
      c ∈ p.hist ∨ ∃ pre op post, ops = pre ++ op :: post ∧ Accepts (prun p pre) op c := by
  induction ops generalizing p with
  | nil => intro c hc; exact Or.inl hc
  | cons op ops ih =>
    intro c hc
    rcases ih (pinv_step h op) c hc with h1 | ⟨pre, op', post, he, ha⟩
    · rcases hist_step h op c h1 with h2 | h2
      · exact Or.inl h2
      · exact Or.inr ⟨[], op, ops, rfl, h2⟩
    · refine Or.inr ⟨op :: pre, op', post, ?_, ha⟩
      rw [he]; rfl

/-! ### released partitions and committer steps -/

/-- the operations the committer performs on a partition (no application call, no ManagePartition) -/
def isCommitter : POp → Bool
  | .nop => true
  | .acloseLive => true
  | .snap => true
  | .verdict _ => true
  | .release _ => true
  | _ => false

theorem committer_pending {p : PState} {op : POp} (hop : isCommitter op = true) :
    (pstep p op).offset = p.offset ∧ (pstep p op).md = p.md ∧ (pstep p op).obj = p.obj ∧
      (p.done = true → (pstep p op).done = true) := by
  cases op with
  | nop => exact ⟨rfl, rfl, rfl, id⟩
  | acloseLive => simp only [pstep]; split <;> simp
  | snap => simp only [pstep]; split <;> simp
  | verdict v =>
    simp only [pstep]
    split
    · simp
    · cases v <;> simp
  | release f => simp only [pstep]; split <;> simp
  | manage => simp [isCommitter] at hop
  | mark o m => simp [isCommitter] at hop
  | reset o m => simp [isCommitter] at hop
  | aclose => simp [isCommitter] at hop


/-! ### application calls inside a commit window -/

theorem app_step_frame {p : PState} {op : POp} (h : op.isApp = true) :
    (pstep p op).live = p.live ∧ (pstep p op).inflight = p.inflight ∧ (pstep p op).store = p.store ∧
    (pstep p op).done = p.done ∧ (pstep p op).obj = p.obj ∧ (pstep p op).commits = p.commits ∧
    ((pstep p op).dirty = true ∨
      ((pstep p op).offset = p.offset ∧ (pstep p op).md = p.md ∧ (pstep p op).dirty = p.dirty)) := by
  cases op with
  | mark o m => simp only [pstep]; split <;> simp
  | reset o m => simp only [pstep]; split <;> simp
  | nop => simp [POp.isApp] at h
  | manage => simp [POp.isApp] at h
  | aclose => simp [POp.isApp] at h
  | acloseLive => simp [POp.isApp] at h
  | snap => simp [POp.isApp] at h
  | verdict v => simp [POp.isApp] at h
  | release f => simp [POp.isApp] at h

theorem app_run_frame {p : PState} {win : List POp} (h : ∀ op ∈ win, op.isApp = true) :
    (prun p win).live = p.live ∧ (prun p win).inflight = p.inflight ∧ (prun p win).store = p.store ∧
    (prun p win).done = p.done ∧ (prun p win).obj = p.obj ∧ (prun p win).commits = p.commits ∧
    ((prun p win).dirty = true ∨
      ((prun p win).offset = p.offset ∧ (prun p win).md = p.md ∧ (prun p win).dirty = p.dirty)) := by
  induction win generalizing p with
  | nil => simp [prun]
  | cons op ops ih =>
    have h1 := app_step_frame (p := p) (h op (List.mem_cons_self ..))
    have h2 := ih (p := pstep p op) (fun o ho => h o (List.mem_cons_of_mem _ ho))
    simp only [prun]
    refine ⟨h2.1.trans h1.1, h2.2.1.trans h1.2.1, h2.2.2.1.trans h1.2.2.1, h2.2.2.2.1.trans h1.2.2.2.1,
            h2.2.2.2.2.1.trans h1.2.2.2.2.1, h2.2.2.2.2.2.1.trans h1.2.2.2.2.2.1, ?_⟩
    rcases h2.2.2.2.2.2.2 with hd | ⟨ho, hm, hd⟩
    · exact Or.inl hd
    · rcases h1.2.2.2.2.2.2 with hd1 | ⟨ho1, hm1, hd1⟩
      · left; rw [hd, hd1]
      · right; exact ⟨ho.trans ho1, hm.trans hm1, hd.trans hd1⟩

theorem verdict_frame (p : PState) (v : PVerdict) :
    (pstep p (.verdict v)).offset = p.offset ∧ (pstep p (.verdict v)).md = p.md ∧
    (pstep p (.verdict v)).live = p.live ∧ (pstep p (.verdict v)).inflight = none ∧
    (pstep p (.verdict v)).commits = p.commits := by
  simp only [pstep]
  cases hi : p.inflight with
  | none => simp [hi]
  | some c => cases v <;> simp

theorem verdict_keeps_dirty (p : PState) (v : PVerdict) (hd : p.dirty = true)
    (hne : ∀ c, p.inflight = some c → c.1 ≠ p.offset) : (pstep p (.verdict v)).dirty = true := by
  simp only [pstep]
  cases hi : p.inflight with
  | none => simpa using hd
  | some c =>
    cases v with
    | ok =>
      simp only
      cases hu : updateCommitted p.offset p.md p.dirty c.1 c.2 with
      | true => rfl
      | false =>
        rcases updateCommitted_false_iff.mp hu with h | h
        · exact absurd (congrArg Prod.fst h).symm (hne c hi)
        · rw [hd] at h; exact absurd h (by decide)
    | okLost => simpa using hd
    | fail => simpa using hd

/-! ### positions along reset-free runs -/

/-- no ResetOffset of the run is accepted (moves the position) -/
def NoAcceptedReset : PState → List POp → Prop
  | _, [] => True
  | p, op :: ops =>
    (∀ o m, op = .reset o m → ¬ (p.obj = true ∧ o ≤ p.offset)) ∧ NoAcceptedReset (pstep p op) ops

theorem reset_rejected (p : PState) (o m : Int) (h : ¬ (p.obj = true ∧ o ≤ p.offset)) :
    pstep p (.reset o m) = p := by
  simp only [pstep]
  split
  · rename_i hc; exact absurd hc h
  · rfl

/-- anchor invariant for `commits_monotone_without_reset`: the position is at least `b`, and a partition
    that is not registered would be re-created at a position that is at least `b` -/
structure Anchor (b : Int) (p : PState) : Prop where
  inv : PInv p
  obj : p.obj = true
  pos : b ≤ p.offset
  back : p.live = true ∨ b ≤ (fetched p.store).1

theorem anchor_step {b : Int} {p : PState} (h : Anchor b p) (op : POp)
    (hr : ∀ o m, op = .reset o m → ¬ (p.obj = true ∧ o ≤ p.offset)) (hf : op ≠ .release true) :
    Anchor b (pstep p op) := by
  obtain ⟨hinv, hobj, hpos, hback⟩ := h
  have hinv' := pinv_step hinv op
  cases op with
  | nop => exact ⟨hinv', hobj, hpos, hback⟩
  | manage =>
    refine ⟨hinv', ?_, ?_, ?_⟩ <;> simp only [pstep] <;> split
    · exact hobj
    · rfl
    · exact hpos
    · rename_i hl
      rcases hback with h | h
      · exact absurd h hl
      · exact h
    · exact hback
    · left; rfl
  | mark o m =>
    refine ⟨hinv', ?_, ?_, ?_⟩ <;> simp only [pstep] <;> split
    · exact hobj
    · exact hobj
    · rename_i hc; simp only; omega
    · exact hpos
    · exact hback
    · exact hback
  | reset o m =>
    rw [reset_rejected p o m (hr o m rfl)]
    exact ⟨hinv, hobj, hpos, hback⟩
  | aclose =>
    refine ⟨hinv', ?_, ?_, ?_⟩ <;> simp only [pstep] <;> split <;> first | exact hobj | exact hpos | exact hback
  | acloseLive =>
    refine ⟨hinv', ?_, ?_, ?_⟩ <;> simp only [pstep] <;> split <;> first | exact hobj | exact hpos | exact hback
  | snap =>
    refine ⟨hinv', ?_, ?_, ?_⟩ <;> simp only [pstep] <;> split <;> first | exact hobj | exact hpos | exact hback
  | verdict v =>
    have hv := verdict_frame p v
    refine ⟨hinv', ?_, by rw [hv.1]; exact hpos, ?_⟩
    · simp only [pstep]
      split
      · exact hobj
      · cases v <;> exact hobj
    · rw [hv.2.2.1]
      cases hl : p.live with
      | true => exact Or.inl rfl
      | false =>
        right
        have hnone : p.inflight = none := by
          cases hi : p.inflight with
          | none => rfl
          | some c =>
            have := (hinv.infl_dirty c hi).2
            rw [hl] at this; exact absurd this (by decide)
        have hsame : pstep p (.verdict v) = p := by simp [pstep, hnone]
        rw [hsame]
        rcases hback with h | h
        · rw [hl] at h; exact absurd h (by decide)
        · exact h
  | release f =>
    cases f with
    | true => exact absurd rfl hf
    | false =>
      refine ⟨hinv', ?_, ?_, ?_⟩ <;> simp only [pstep] <;> split
      · exact hobj
      · exact hobj
      · exact hpos
      · exact hpos
      · rename_i hc
        right
        have hclean : p.dirty = false := by
          have := hc.2.1
          simp only [releaseDue, Bool.false_or, Bool.and_eq_true, Bool.not_eq_eq_eq_not, Bool.not_true] at this
          exact this.2
        have := hinv.clean_stored hobj hclean
        rw [← this]; exact hpos
      · exact hback


theorem snap_commits (p : PState) :
    ((pstep p .snap).commits = p.commits) ∨
    (p.live = true ∧ p.dirty = true ∧ (pstep p .snap).commits = (p.offset, p.md) :: p.commits) := by
  simp only [pstep]
  split
  · rename_i hc; exact Or.inr ⟨hc.1, hc.2, rfl⟩
  · exact Or.inl rfl

theorem nonsnap_commits (p : PState) (op : POp) (h : op ≠ .snap) : (pstep p op).commits = p.commits := by
  cases op with
  | snap => exact absurd rfl h
  | nop => rfl
  | manage => simp only [pstep]; split <;> rfl
  | mark o m => simp only [pstep]; split <;> rfl
  | reset o m => simp only [pstep]; split <;> rfl
  | aclose => simp only [pstep]; split <;> rfl
  | acloseLive => simp only [pstep]; split <;> rfl
  | verdict v => exact (verdict_frame p v).2.2.2.2
  | release f => simp only [pstep]; split <;> rfl

/-- along a run without accepted reset and without forced release, every pair committed is at or above the
    anchor, and the commits are ordered -/
theorem anchored_commits {b : Int} {p : PState} (h : Anchor b p) (ops : List POp)
    (hr : NoAcceptedReset p ops) (hf : ∀ op ∈ ops, op ≠ .release true) :
    ∃ new, (prun p ops).commits = new ++ p.commits ∧ (∀ c ∈ new, b ≤ c.1) ∧
      List.Pairwise (fun a c => c.1 ≤ a.1) new := by
  induction ops generalizing p b with
  | nil => exact ⟨[], rfl, by simp, List.Pairwise.nil⟩
  | cons op ops ih =>
    have hstep := anchor_step h op hr.1 (hf op (List.mem_cons_self ..))
    have hf' : ∀ o ∈ ops, o ≠ .release true := fun o ho => hf o (List.mem_cons_of_mem _ ho)
    simp only [prun]
    by_cases hs : op = .snap
    · subst hs
      rcases snap_commits p with hc | ⟨hlive, _, hc⟩
      · obtain ⟨new, h1, h2, h3⟩ := ih hstep hr.2 hf'
        exact ⟨new, by rw [h1, hc], h2, h3⟩
      · -- a commit of the pending pair: it becomes the new anchor
        have hoff : (pstep p .snap).offset = p.offset := (committer_pending (p := p) (op := .snap) rfl).1
        have hl' : (pstep p .snap).live = true := by
          simp only [pstep]; split <;> exact hlive
        have hstep' : Anchor p.offset (pstep p .snap) :=
          ⟨hstep.inv, hstep.obj, by rw [hoff]; exact Int.le_refl _, Or.inl hl'⟩
        obtain ⟨new, h1, h2, h3⟩ := ih hstep' hr.2 hf'
        refine ⟨new ++ [(p.offset, p.md)], ?_, ?_, ?_⟩
        · rw [h1, hc]; simp
        · intro c hcm
          rcases List.mem_append.mp hcm with hm | hm
          · exact Int.le_trans h.pos (h2 c hm)
          · simp only [List.mem_singleton] at hm; rw [hm]; exact h.pos
        · rw [List.pairwise_append]
          refine ⟨h3, List.pairwise_singleton _ _, ?_⟩
          intro a ha c hc3
          simp only [List.mem_singleton] at hc3
          rw [hc3]; exact h2 a ha
    · obtain ⟨new, h1, h2, h3⟩ := ih hstep hr.2 hf'
      exact ⟨new, by rw [h1, nonsnap_commits p op hs], h2, h3⟩

/-! ### the stored offset along reset-free runs -/

/-- the stored offset is below the block in flight, which is below the pending position -/
structure Below (p : PState) : Prop where
  store_pos : p.obj = true → (fetched p.store).1 ≤ p.offset
  infl : ∀ c, p.inflight = some c → (fetched p.store).1 ≤ c.1 ∧ c.1 ≤ p.offset

theorem below_init (st : Option Pair) : Below (pinit st) := by
  constructor <;> simp [pinit]

/-- a clean partition with nothing in flight is `Below` -/
theorem below_of_clean {p : PState} (h : PInv p) (hc : p.dirty = false) : Below p := by
  constructor
  · intro ho; rw [← h.clean_stored ho hc]; exact Int.le_refl _
  · intro c hi; have := (h.infl_dirty c hi).1; rw [hc] at this; exact absurd this (by decide)

theorem below_step {p : PState} (hinv : PInv p) (h : Below p) (op : POp)
    (hr : ∀ o m, op = .reset o m → ¬ (p.obj = true ∧ o ≤ p.offset)) :
    Below (pstep p op) ∧ (fetched p.store).1 ≤ (fetched (pstep p op).store).1 := by
  obtain ⟨h1, h2⟩ := h
  cases op with
  | nop => exact ⟨⟨h1, h2⟩, Int.le_refl _⟩
  | manage =>
    simp only [pstep]
    split
    · exact ⟨⟨h1, h2⟩, Int.le_refl _⟩
    · rename_i hl
      refine ⟨⟨fun _ => Int.le_refl _, ?_⟩, Int.le_refl _⟩
      intro c hi
      exact absurd (hinv.infl_dirty c hi).2 hl
  | mark o m =>
    simp only [pstep]
    split
    · rename_i hc
      refine ⟨⟨fun _ => ?_, fun c hi => ?_⟩, Int.le_refl _⟩
      · have := h1 hc.1; simp only; omega
      · have := h2 c hi; simp only at hi ⊢; exact ⟨this.1, by omega⟩
    · exact ⟨⟨h1, h2⟩, Int.le_refl _⟩
  | reset o m =>
    rw [reset_rejected p o m (hr o m rfl)]
    exact ⟨⟨h1, h2⟩, Int.le_refl _⟩
  | aclose => simp only [pstep]; split <;> exact ⟨⟨h1, h2⟩, Int.le_refl _⟩
  | acloseLive => simp only [pstep]; split <;> exact ⟨⟨h1, h2⟩, Int.le_refl _⟩
  | snap =>
    simp only [pstep]
    split
    · rename_i hc
      refine ⟨⟨h1, fun c hi => ?_⟩, Int.le_refl _⟩
      simp only [Option.some.injEq] at hi
      rw [← hi]
      exact ⟨h1 (hinv.live_obj hc.1), Int.le_refl _⟩
    · exact ⟨⟨h1, h2⟩, Int.le_refl _⟩
  | verdict v =>
    simp only [pstep]
    cases hi : p.inflight with
    | none => exact ⟨⟨h1, by simp [hi]⟩, Int.le_refl _⟩
    | some c =>
      have hc := h2 c hi
      cases v with
      | ok => exact ⟨⟨fun _ => by simpa [fetched] using hc.2, by simp⟩, by simpa [fetched] using hc.1⟩
      | okLost => exact ⟨⟨fun _ => by simpa [fetched] using hc.2, by simp⟩, by simpa [fetched] using hc.1⟩
      | fail => exact ⟨⟨h1, by simp⟩, Int.le_refl _⟩
  | release f => simp only [pstep]; split <;> exact ⟨⟨h1, h2⟩, Int.le_refl _⟩

theorem below_run {p : PState} (hinv : PInv p) (h : Below p) (ops : List POp) (hr : NoAcceptedReset p ops) :
    Below (prun p ops) ∧ (fetched p.store).1 ≤ (fetched (prun p ops).store).1 := by
  induction ops generalizing p with
  | nil => exact ⟨h, Int.le_refl _⟩
  | cons op ops ih =>
    have h1 := below_step hinv h op hr.1
    have h2 := ih (pinv_step hinv op) h1.1 hr.2
    exact ⟨h2.1, Int.le_trans h1.2 h2.2⟩


/-! ### the final flush of Close, one partition -/

/-- state of a partition during the final flush: closed by `asyncClosePOMs`, position frozen at `pend`;
    what is in flight is `pend`; once it is no longer registered the coordinator holds `pend` -/
structure Closing (pend : Pair) (p : PState) : Prop where
  inv : PInv p
  obj : p.obj = true
  pending : (p.offset, p.md) = pend
  done : p.done = true
  infl : ∀ c, p.inflight = some c → c = pend
  dead : p.live = false → fetched p.store = pend ∧ p.inflight = none

theorem closing_step {pend : Pair} {p : PState} (h : Closing pend p) (op : POp)
    (hc : isCommitter op = true) (hf : op ≠ .release true) :
    Closing pend (pstep p op) ∧ (fetched p.store = pend → fetched (pstep p op).store = pend) ∧
      ((pstep p op).live = true → p.live = true) := by
  obtain ⟨hinv, hobj, hpend, hdone, hinfl, hdead⟩ := h
  have hinv' := pinv_step hinv op
  have hcp := committer_pending (p := p) hc
  have hpend' : ((pstep p op).offset, (pstep p op).md) = pend := by rw [hcp.1, hcp.2.1]; exact hpend
  have hobj' : (pstep p op).obj = true := by rw [hcp.2.2.1]; exact hobj
  have hdone' : (pstep p op).done = true := hcp.2.2.2 hdone
  cases op with
  | nop => exact ⟨⟨hinv, hobj, hpend, hdone, hinfl, hdead⟩, id, id⟩
  | acloseLive =>
    refine ⟨⟨hinv', hobj', hpend', hdone', ?_, ?_⟩, ?_, ?_⟩ <;> simp only [pstep] <;> split <;>
      first | exact hinfl | exact hdead | exact id
  | snap =>
    refine ⟨⟨hinv', hobj', hpend', hdone', ?_, ?_⟩, ?_, ?_⟩ <;> simp only [pstep] <;> split
    · intro c hi; simp only [Option.some.injEq] at hi; rw [← hi]; exact hpend
    · exact hinfl
    · rename_i hg; intro hl; rw [hg.1] at hl; exact absurd hl (by decide)
    · exact hdead
    · exact id
    · exact id
    · exact id
    · exact id
  | verdict v =>
    have hv := verdict_frame p v
    cases hi : p.inflight with
    | none =>
      have hsame : pstep p (.verdict v) = p := by simp [pstep, hi]
      rw [hsame]
      exact ⟨⟨hinv, hobj, hpend, hdone, hinfl, hdead⟩, id, id⟩
    | some c =>
      have hcp2 := hinfl c hi
      have hlive := (hinv.infl_dirty c hi).2
      refine ⟨⟨hinv', hobj', hpend', hdone', ?_, ?_⟩, ?_, ?_⟩
      · intro c' hi'; rw [hv.2.2.2.1] at hi'; exact absurd hi' (by simp)
      · intro hl; rw [hv.2.2.1, hlive] at hl; exact absurd hl (by decide)
      · intro hs
        simp only [pstep, hi]
        cases v with
        | ok => simp only [fetched, Option.getD_some]; exact hcp2
        | okLost => simp only [fetched, Option.getD_some]; exact hcp2
        | fail => exact hs
      · intro _; exact hlive
  | release f =>
    cases f with
    | true => exact absurd rfl hf
    | false =>
      refine ⟨⟨hinv', hobj', hpend', hdone', ?_, ?_⟩, ?_, ?_⟩ <;> simp only [pstep] <;> split
      · exact hinfl
      · exact hinfl
      · rename_i hg
        intro _
        have hclean : p.dirty = false := by
          have := hg.2.1
          simp only [releaseDue, Bool.false_or, Bool.and_eq_true, Bool.not_eq_eq_eq_not, Bool.not_true] at this
          exact this.2
        exact ⟨by rw [← hinv.clean_stored hobj hclean]; exact hpend, hg.2.2⟩
      · exact hdead
      · exact id
      · exact id
      · rename_i hg; intro _; exact hg.1
      · exact id
  | manage => simp [isCommitter] at hc
  | mark o m => simp [isCommitter] at hc
  | reset o m => simp [isCommitter] at hc
  | aclose => simp [isCommitter] at hc

theorem closing_run {pend : Pair} {p : PState} (h : Closing pend p) (ops : List POp)
    (hc : ∀ op ∈ ops, isCommitter op = true ∧ op ≠ .release true) :
    Closing pend (prun p ops) ∧ (fetched p.store = pend → fetched (prun p ops).store = pend) ∧
      ((prun p ops).live = true → p.live = true) := by
  induction ops generalizing p with
  | nil => exact ⟨h, id, id⟩
  | cons op ops ih =>
    have h1 := closing_step h op (hc op (List.mem_cons_self ..)).1 (hc op (List.mem_cons_self ..)).2
    have h2 := ih h1.1 (fun o ho => hc o (List.mem_cons_of_mem _ ho))
    exact ⟨h2.1, fun hs => h2.2.1 (h1.2.1 hs), fun hl => h1.2.2 (h2.2.2 hl)⟩

/-- an attempt the coordinator answers (ok or lost answer) leaves the pair stored; an accepted one also
    unregisters the partition -/
theorem closing_attempt {pend : Pair} {p : PState} (h : Closing pend p) (hi : p.inflight = none)
    (v : PVerdict) (hv : v ≠ .fail) :
    fetched (closeAttemptP p v).store = pend ∧ (v = .ok → (closeAttemptP p v).live = false) := by
  obtain ⟨hinv, hobj, hpend, hdone, hinfl, hdead⟩ := h
  have hclean := hinv.clean_stored hobj
  cases hl : p.live with
  | false =>
    have hd := hdead hl
    have : closeAttemptP p v = p := by
      simp [closeAttemptP, pstep, hl, hi]
    rw [this]; exact ⟨hd.1, fun _ => hl⟩
  | true =>
    cases hdirty : p.dirty with
    | false =>
      have hst := hclean hdirty
      have : closeAttemptP p v = { p with live := false } := by
        simp [closeAttemptP, pstep, hl, hi, hdirty, releaseDue, hdone]
      rw [this]; exact ⟨by rw [← hst]; exact hpend, fun _ => rfl⟩
    | true =>
      cases v with
      | fail => exact absurd rfl hv
      | ok =>
        have hu : updateCommitted p.offset p.md true p.offset p.md = false := by simp [updateCommitted]
        constructor
        · simp [closeAttemptP, pstep, hl, hdirty, releaseDue, hdone, hu, fetched]
          exact hpend
        · intro _
          simp [closeAttemptP, pstep, hl, hdirty, releaseDue, hdone, hu]
      | okLost =>
        constructor
        · simp [closeAttemptP, pstep, hl, hdirty, releaseDue, hdone, fetched]
          exact hpend
        · intro h; exact absurd h (by decide)


theorem snap_inflight {p : PState} (hl : p.live = true) (hd : p.dirty = true) :
    (pstep p .snap).inflight = some (p.offset, p.md) := by
  simp [pstep, hl, hd]

theorem release_inflight (p : PState) (f : Bool) : (pstep p (.release f)).inflight = p.inflight := by
  simp only [pstep]; split <;> rfl

end Lemmas.C06
