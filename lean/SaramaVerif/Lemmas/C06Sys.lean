import SaramaVerif.Lemmas.C06
/-
  C06, system level: every partition of a system run is a partition-level run (projection), the system
  invariant, and the structure of the operations `Close` performs.
-/
namespace Lemmas.C06
open Model.OffsetMgr

theorem stepSys_parts (s : Sys) (op : Op) (i : Nat) :
    (stepSys s op).parts[i]? = (s.parts[i]?).map (fun p => pstep p (proj s i op)) := by
  simp only [stepSys, stepParts, List.getElem?_mapIdx]

theorem stepSys_length (s : Sys) (op : Op) : (stepSys s op).parts.length = s.parts.length := by
  simp only [stepSys, stepParts, List.length_mapIdx]

theorem run_length (s : Sys) (ops : List Op) : (run s ops).parts.length = s.parts.length := by
  induction ops generalizing s with
  | nil => rfl
  | cons op ops ih => simp only [run]; rw [ih, stepSys_length]

theorem run_append (s : Sys) (a b : List Op) : run s (a ++ b) = run (run s a) b := by
  induction a generalizing s with
  | nil => rfl
  | cons x xs ih => exact ih (stepSys s x)

/-- the partition-level operations partition `i` undergoes during a system run -/
def projRun (s : Sys) (i : Nat) : List Op → List POp
  | [] => []
  | op :: ops => proj s i op :: projRun (stepSys s op) i ops

theorem run_parts (s : Sys) (ops : List Op) (i : Nat) :
    (run s ops).parts[i]? = (s.parts[i]?).map (fun p => prun p (projRun s i ops)) := by
  induction ops generalizing s with
  | nil => simp [run, projRun, prun]
  | cons op ops ih =>
    simp only [run, projRun]
    rw [ih, stepSys_parts]
    cases s.parts[i]? <;> simp [prun]

theorem projRun_append (s : Sys) (i : Nat) (a b : List Op) :
    projRun s i (a ++ b) = projRun s i a ++ projRun (run s a) i b := by
  induction a generalizing s with
  | nil => rfl
  | cons x xs ih => simp only [List.cons_append, projRun, run]; rw [ih]

theorem projRun_mark {s : Sys} {i : Nat} {ops : List Op} {o m : Int}
    (h : POp.mark o m ∈ projRun s i ops) : Op.mark i o m ∈ ops := by
  induction ops generalizing s with
  | nil => simp [projRun] at h
  | cons op ops ih =>
    simp only [projRun, List.mem_cons] at h
    rcases h with h | h
    · have hop : op = Op.mark i o m := by
        cases op <;> simp only [proj] at h <;> (try split at h) <;> simp_all
      rw [hop]; exact List.mem_cons_self ..
    · exact List.mem_cons_of_mem _ (ih h)

theorem projRun_reset {s : Sys} {i : Nat} {ops : List Op} {o m : Int}
    (h : POp.reset o m ∈ projRun s i ops) : Op.reset i o m ∈ ops := by
  induction ops generalizing s with
  | nil => simp [projRun] at h
  | cons op ops ih =>
    simp only [projRun, List.mem_cons] at h
    rcases h with h | h
    · have hop : op = Op.reset i o m := by
        cases op <;> simp only [proj] at h <;> (try split at h) <;> simp_all
      rw [hop]; exact List.mem_cons_self ..
    · exact List.mem_cons_of_mem _ (ih h)

/-! ### system invariant -/

structure SInv (s : Sys) : Prop where
  parts : ∀ p ∈ s.parts, PInv p
  idle : s.active = false → ∀ p ∈ s.parts, p.inflight = none

theorem sinv_init (sts : List (Option Pair)) : SInv (sinit sts) := by
  constructor
  · intro p hp
    simp only [sinit, List.mem_map] at hp
    obtain ⟨st, _, rfl⟩ := hp
    exact pinv_init st
  · intro _ p hp
    simp only [sinit, List.mem_map] at hp
    obtain ⟨st, _, rfl⟩ := hp
    rfl

theorem mem_stepParts {s : Sys} {op : Op} {q : PState} (h : q ∈ stepParts s op) :
    ∃ i p, s.parts[i]? = some p ∧ q = pstep p (proj s i op) := by
  simp only [stepParts, List.mem_mapIdx] at h
  obtain ⟨i, hi, rfl⟩ := h
  exact ⟨i, s.parts[i], by simp [hi], rfl⟩

theorem mem_of_getElem? {l : List PState} {i : Nat} {p : PState} (h : l[i]? = some p) : p ∈ l :=
  List.mem_of_getElem? h

/-- operations other than the snapshot never put a block in flight -/
theorem nonsnap_inflight {p : PState} {op : POp} (hn : op ≠ .snap) (hi : p.inflight = none) :
    (pstep p op).inflight = none := by
  cases op with
  | snap => exact absurd rfl hn
  | nop => exact hi
  | manage => simp only [pstep]; split <;> exact hi
  | mark o m => simp only [pstep]; split <;> exact hi
  | reset o m => simp only [pstep]; split <;> exact hi
  | aclose => simp only [pstep]; split <;> exact hi
  | acloseLive => simp only [pstep]; split <;> exact hi
  | verdict v => exact (verdict_frame p v).2.2.2.1
  | release f => rw [release_inflight]; exact hi

theorem sinv_step {s : Sys} (h : SInv s) (op : Op) : SInv (stepSys s op) := by
  constructor
  · intro q hq
    obtain ⟨i, p, hp, rfl⟩ := mem_stepParts (s := s) (op := op) hq
    exact pinv_step (h.parts p (mem_of_getElem? hp)) _
  · intro hact q hq
    obtain ⟨i, p, hp, rfl⟩ := mem_stepParts (s := s) (op := op) hq
    have hpm := mem_of_getElem? hp
    cases op with
    | construct =>
      simp only [stepSys, stepActive] at hact
      split at hact
      · exact absurd hact (by decide)
      · rw [List.any_eq_false] at hact
        have := hact _ hq
        cases hq2 : (pstep p (proj s i Op.construct)).inflight with
        | none => rfl
        | some c => simp [hq2] at this
    | lookup ok =>
      simp only [stepSys, stepActive, Bool.and_eq_false_iff, Bool.not_eq_eq_eq_not, Bool.not_false] at hact
      rcases hact with hact | hact
      · have hlf : lookupFails s ok = false := by simp [lookupFails, hact]
        simp only [proj, hlf, Bool.false_eq_true, ↓reduceIte, pstep]
        exact h.idle hact p hpm
      · simp only [proj, hact, ↓reduceIte]
        exact (verdict_frame p _).2.2.2.1
    | reply r =>
      simp only [proj]
      split
      · exact (verdict_frame p _).2.2.2.1
      · rename_i hna
        simp only [pstep]
        exact h.idle (by simpa using hna) p hpm
    | manage k =>
      have hidle := h.idle (by simpa [stepSys, stepActive] using hact) p hpm
      simp only [proj]; split <;> exact nonsnap_inflight (by simp) hidle
    | mark k o m =>
      have hidle := h.idle (by simpa [stepSys, stepActive] using hact) p hpm
      simp only [proj]; split <;> exact nonsnap_inflight (by simp) hidle
    | reset k o m =>
      have hidle := h.idle (by simpa [stepSys, stepActive] using hact) p hpm
      simp only [proj]; split <;> exact nonsnap_inflight (by simp) hidle
    | next k ini =>
      exact h.idle (by simpa [stepSys, stepActive] using hact) p hpm
    | aclose k =>
      have hidle := h.idle (by simpa [stepSys, stepActive] using hact) p hpm
      simp only [proj]; split <;> exact nonsnap_inflight (by simp) hidle
    | acloseAll =>
      have hidle := h.idle (by simpa [stepSys, stepActive] using hact) p hpm
      exact nonsnap_inflight (by simp [proj]) hidle
    | release f =>
      have hidle := h.idle (by simpa [stepSys, stepActive] using hact) p hpm
      simp only [proj]; split <;> exact nonsnap_inflight (by simp) hidle
    | dropBroker =>
      exact h.idle (by simpa [stepSys, stepActive] using hact) p hpm
    | manageFailed b =>
      exact h.idle (by simpa [stepSys, stepActive] using hact) p hpm

theorem sinv_run {s : Sys} (h : SInv s) (ops : List Op) : SInv (run s ops) := by
  induction ops generalizing s with
  | nil => exact h
  | cons op ops ih => exact ih (sinv_step h op)


/-! ### the committer's system operations -/

def isCommitterOp : Op → Bool
  | .construct => true
  | .lookup _ => true
  | .reply _ => true
  | .release false => true
  | .acloseAll => true
  | .dropBroker => true
  | _ => false

theorem proj_committer (s : Sys) (i : Nat) {op : Op} (h : isCommitterOp op = true) :
    isCommitter (proj s i op) = true ∧ proj s i op ≠ .release true := by
  cases op with
  | construct => simp only [proj]; split <;> simp [isCommitter]
  | lookup ok => simp only [proj]; split <;> simp [isCommitter]
  | reply r => simp only [proj]; split <;> simp [isCommitter]
  | release f =>
    cases f with
    | false => simp [proj, isCommitter]
    | true => simp [isCommitterOp] at h
  | acloseAll => simp [proj, isCommitter]
  | dropBroker => simp [proj, isCommitter]
  | manageFailed b => simp [isCommitterOp] at h
  | manage k => simp [isCommitterOp] at h
  | mark k o m => simp [isCommitterOp] at h
  | reset k o m => simp [isCommitterOp] at h
  | next k ini => simp [isCommitterOp] at h
  | aclose k => simp [isCommitterOp] at h

theorem projRun_committer (s : Sys) (i : Nat) (ops : List Op) (h : ∀ op ∈ ops, isCommitterOp op = true) :
    ∀ pop ∈ projRun s i ops, isCommitter pop = true ∧ pop ≠ .release true := by
  induction ops generalizing s with
  | nil => intro pop hp; simp [projRun] at hp
  | cons op ops ih =>
    intro pop hp
    simp only [projRun, List.mem_cons] at hp
    rcases hp with rfl | hp
    · exact proj_committer s i (h op (List.mem_cons_self ..))
    · exact ih (stepSys s op) (fun o ho => h o (List.mem_cons_of_mem _ ho)) pop hp

theorem commitOps_committer (s : Sys) (a : Attempt) (hw : a.win = []) :
    ∀ op ∈ commitOps s a, isCommitterOp op = true := by
  intro op hop
  simp only [commitOps, flushOps, hw] at hop
  split at hop
  · split at hop
    · simp only [List.append_nil, List.cons_append, List.nil_append, List.mem_cons, List.mem_nil_iff, or_false] at hop
      rcases hop with rfl | rfl | rfl | rfl <;> rfl
    · simp only [List.cons_append, List.nil_append, List.mem_cons, List.mem_nil_iff, or_false] at hop
      rcases hop with rfl | rfl | rfl <;> rfl
  · simp only [List.cons_append, List.nil_append, List.mem_cons, List.mem_nil_iff, or_false] at hop
    rcases hop with rfl | rfl <;> rfl

theorem closeLoopOps_committer (script : List Attempt) (hw : ∀ a ∈ script, a.win = []) (s : Sys) :
    ∀ op ∈ closeLoopOps s script, isCommitterOp op = true := by
  induction script generalizing s with
  | nil => intro op hop; simp [closeLoopOps] at hop
  | cons a as ih =>
    intro op hop
    have hwa := hw a (List.mem_cons_self ..)
    simp only [closeLoopOps] at hop
    split at hop
    · exact commitOps_committer s a hwa op hop
    · rcases List.mem_append.mp hop with h | h
      · exact commitOps_committer s a hwa op h
      · exact ih (fun b hb => hw b (List.mem_cons_of_mem _ hb)) _ op h

theorem stepSys_active_release (s : Sys) (f : Bool) : (stepSys s (.release f)).active = s.active := rfl

theorem stepSys_active_reply (s : Sys) (r : Reply) : (stepSys s (.reply r)).active = false := rfl

/-- `Commit()` (without application calls in the window) ends with no request under way -/
theorem commit_idle (s : Sys) (a : Attempt) (hw : a.win = []) : (run s (commitOps s a)).active = false := by
  simp only [commitOps, flushOps, hw]
  split
  · split
    · simp only [List.append_nil, List.cons_append, List.nil_append, run]
      rfl
    · rename_i h2
      simp only [List.cons_append, List.nil_append, run, stepSys_active_release]
      simpa using h2
  · rename_i h1
    simp only [List.cons_append, List.nil_append, run, stepSys_active_release]
    simpa using h1

theorem verdict_none {p : PState} (h : p.inflight = none) (v : PVerdict) : pstep p (.verdict v) = p := by
  simp [pstep, h]

/-- an attempt the coordinator accepts: lookup succeeds, every partition's block is answered NoError, no
    application call in between -/
def Accepting (n : Nat) (a : Attempt) : Prop :=
  a.lk = true ∧ a.win = [] ∧ ∃ vs, a.r = .respond vs ∧ ∀ j, j < n → verdictAt vs j = .code 0

theorem classify_zero : classify 0 = .commit := by decide

/-- what an accepted `Commit()` does to partition `i`: snapshot, answer ok, releasePOMs(false) -/
theorem accepting_commit {s : Sys} (hs : SInv s) (hidle : s.active = false) {a : Attempt}
    (ha : Accepting s.parts.length a) {i : Nat} {p : PState} (hp : s.parts[i]? = some p) :
    (run s (commitOps s a)).parts[i]? = some (closeAttemptP p .ok) := by
  obtain ⟨hlk, hw, vs, hr, hvs⟩ := ha
  have hi : i < s.parts.length := by
    rcases List.getElem?_eq_some_iff.mp hp with ⟨h, _⟩; exact h
  rw [run_parts, hp]
  simp only [Option.map_some, Option.some.injEq]
  have hsnap : proj s i .construct = .snap := by simp [proj, hidle]
  have hs1 := sinv_step hs .construct
  have hp1 : (stepSys s .construct).parts[i]? = some (pstep p .snap) := by
    rw [stepSys_parts, hp, hsnap]; rfl
  simp only [commitOps, flushOps, hw, hlk]
  by_cases h1 : (stepSys s .construct).active = true
  · have h2 : (stepSys (stepSys s .construct) (.lookup true)).active = true := by
      simp [stepSys, stepActive, lookupFails] at h1 ⊢
      exact h1
    simp only [h1, h2, ↓reduceIte, List.append_nil, List.cons_append, List.nil_append, projRun, prun]
    have hl : proj (stepSys s .construct) i (.lookup true) = .nop := by simp [proj, lookupFails]
    have hrp : proj (stepSys (stepSys s .construct) (.lookup true)) i (.reply a.r) = .verdict .ok := by
      simp only [proj, h2, ↓reduceIte, hr, pverdictFor, hvs i hi, classify_zero]
    have hrl : ∀ t : Sys, proj t i (.release false) = .release false := by intro t; simp [proj]
    rw [hsnap, hl, hrp, hrl]
    rfl
  · have h1' : (stepSys s .construct).active = false := by simpa using h1
    simp only [h1', Bool.false_eq_true, ↓reduceIte, List.cons_append, List.nil_append, projRun, prun]
    have hrl : ∀ t : Sys, proj t i (.release false) = .release false := by intro t; simp [proj]
    rw [hsnap, hrl]
    have hnone : (pstep p .snap).inflight = none := hs1.idle h1' _ (mem_of_getElem? hp1)
    simp only [closeAttemptP, verdict_none hnone]

theorem remaining_zero {s : Sys} (h : remaining s = 0) : ∀ p ∈ s.parts, p.live = false := by
  intro p hp
  simp only [remaining, List.countP_eq_zero] at h
  have := h p hp
  simpa using this

/-- the final flush loop: if one of the scripted attempts is accepting, partition `i` ends released with its
    pending pair stored -/
theorem closeLoop_flushes {pend : Pair} (i : Nat) (script : List Attempt) :
    ∀ (s : Sys), SInv s → s.active = false → (∀ a ∈ script, a.win = []) →
      (∃ a ∈ script, Accepting s.parts.length a) →
      ∀ p, s.parts[i]? = some p → Closing pend p →
      ∃ r, (run s (closeLoopOps s script)).parts[i]? = some r ∧ Closing pend r ∧ r.live = false := by
  induction script with
  | nil => intro s _ _ _ hacc; obtain ⟨a, ha, _⟩ := hacc; simp at ha
  | cons a as ih =>
    intro s hs hidle hw hacc p hp hcl
    have hwa := hw a (List.mem_cons_self ..)
    have hw' : ∀ b ∈ as, b.win = [] := fun b hb => hw b (List.mem_cons_of_mem _ hb)
    -- the state after this attempt
    have hs1 : SInv (run s (commitOps s a)) := sinv_run hs _
    have hidle1 := commit_idle s a hwa
    have hlen1 : (run s (commitOps s a)).parts.length = s.parts.length := run_length s _
    have hp1 : (run s (commitOps s a)).parts[i]? = some (prun p (projRun s i (commitOps s a))) := by
      rw [run_parts, hp]; rfl
    have hcl1 := closing_run hcl (projRun s i (commitOps s a))
      (projRun_committer s i _ (commitOps_committer s a hwa))
    simp only [closeLoopOps]
    split
    · rename_i hz
      exact ⟨_, hp1, hcl1.1, remaining_zero hz _ (mem_of_getElem? hp1)⟩
    · rw [run_append]
      obtain ⟨b, hb, hacc_b⟩ := hacc
      simp only [List.mem_cons] at hb
      rcases hb with rfl | hb
      · -- this attempt is the accepting one: the partition is released now, and stays so
        have hacc1 := accepting_commit hs hidle hacc_b hp
        have hlive1 : (prun p (projRun s i (commitOps s b))).live = false := by
          rw [hp1] at hacc1
          simp only [Option.some.injEq] at hacc1
          rw [hacc1]
          exact (closing_attempt hcl (hs.idle hidle p (mem_of_getElem? hp)) .ok (by decide)).2 rfl
        have hrest := closing_run hcl1.1
          (projRun (run s (commitOps s b)) i (closeLoopOps (run s (commitOps s b)) as))
          (projRun_committer _ i _ (closeLoopOps_committer as hw' _))
        refine ⟨_, by rw [run_parts, hp1]; rfl, hrest.1, ?_⟩
        cases hl : (prun (prun p (projRun s i (commitOps s b)))
            (projRun (run s (commitOps s b)) i (closeLoopOps (run s (commitOps s b)) as))).live with
        | false => rfl
        | true => have := hrest.2.2 hl; rw [hlive1] at this; exact absurd this (by decide)
      · exact ih _ hs1 hidle1 hw' ⟨b, hb, by rw [hlen1]; exact hacc_b⟩ _ hp1 hcl1.1

end Lemmas.C06
