/-
  C02 composition, progress, variant: the partition producer's step makes `vmu` strictly smaller.
-/
import SaramaVerif.Lemmas.C02termStep

set_option linter.unusedSimpArgs false

namespace Lemmas.C02sys
open Model Model.Pipeline

def rowW (M : Nat) (l : List PartProd.Tok) : Nat := (l.map (fun x => dW M 18 x.retries)).sum

theorem bufW_eq (M B : Nat) (bufs : Nat → List PartProd.Tok) :
    bufW M B bufs = ((List.range B).map (fun k => rowW M (bufs k))).sum := rfl

theorem rowW_append (M : Nat) (a b : List PartProd.Tok) : rowW M (a ++ b) = rowW M a + rowW M b := by
  simp [rowW, List.sum_append]

/-- replacing the buffer of one level below the bound -/
theorem bufW_setBuf (M : Nat) (bufs : Nat → List PartProd.Tok) (l : Nat) (v : List PartProd.Tok) :
    ∀ B, l < B → bufW M B (PartProd.setBuf bufs l v) + rowW M (bufs l) = bufW M B bufs + rowW M v := by
  intro B
  induction B with
  | zero => intro h; omega
  | succ n ih =>
    intro h
    simp only [bufW_eq, List.range_succ, List.map_append, List.sum_append, List.map_cons, List.map_nil,
      List.sum_cons, List.sum_nil, Nat.add_zero] at ih ⊢
    by_cases hl : l = n
    · subst hl
      have same : ∀ m, m ≤ l → ((List.range m).map (fun k => rowW M (PartProd.setBuf bufs l v k))).sum =
          ((List.range m).map (fun k => rowW M (bufs k))).sum := by
        intro m
        induction m with
        | zero => intro _; rfl
        | succ j ihj =>
          intro hj
          simp only [List.range_succ, List.map_append, List.sum_append, List.map_cons, List.map_nil,
            List.sum_cons, List.sum_nil, Nat.add_zero]
          rw [ihj (by omega)]
          have : j ≠ l := by omega
          simp [PartProd.setBuf, this]
      rw [same l (Nat.le_refl _)]
      simp [PartProd.setBuf]; omega
    · have := ih (by omega)
      have hn : n ≠ l := fun e => hl e.symm
      simp only [PartProd.setBuf, hn, if_false] at this ⊢
      omega

/-- what an action of the partition producer can add to the workers' input channels -/
def aW (M : Nat) : PartProd.Action → Nat
  | .emit _ l fin => if fin then 5 else dW M 17 l
  | .finSend _ => 4
  | _ => 0

def asW (M : Nat) (as : List PartProd.Action) : Nat := (as.map (aW M)).sum

theorem asW_cons (M : Nat) (a : PartProd.Action) (l : List PartProd.Action) : asW M (a :: l) = aW M a + asW M l := by
  simp [asW]
theorem asW_append (M : Nat) (a b : List PartProd.Action) : asW M (a ++ b) = asW M a + asW M b := by
  simp [asW, List.sum_append]

/-- emitting a buffer costs less than it weighed -/
theorem asW_row (M : Nat) (l : List PartProd.Tok) :
    asW M (l.map (fun t => PartProd.Action.emit t.id t.retries t.fin)) ≤ rowW M l := by
  induction l with
  | nil => simp [asW, rowW]
  | cons t r ih =>
    simp only [List.map_cons, asW_cons, rowW, List.sum_cons] at ih ⊢
    have : aW M (.emit t.id t.retries t.fin) ≤ dW M 18 t.retries := by
      simp only [aW, dW]; split <;> omega
    omega

theorem flush_weight (M B : Nat) : ∀ (h : Nat) (bufs : Nat → List PartProd.Tok) (e : Nat → Bool), h ≤ B →
    bufW M B (PartProd.flush h bufs e).2.1 + asW M (PartProd.flush h bufs e).2.2 ≤ bufW M B bufs := by
  intro h
  induction h with
  | zero => intro bufs e _; simp [PartProd.flush, asW]
  | succ n ih =>
    intro bufs e hB
    have hset := bufW_setBuf M bufs n [] B (by omega)
    have hrow := asW_row M (bufs n)
    have r0 : rowW M [] = 0 := rfl
    rw [r0] at hset
    simp only [PartProd.flush]
    split
    · simp only; omega
    · split
      · simp only; omega
      · have := ih (PartProd.setBuf bufs n []) e (by omega)
        simp only [asW_append]
        omega

/-- weight of the token at the head of pp.input, as the partition producer sees it -/
def pqWp (M : Nat) (x : PartProd.Tok) : Nat := if x.fin then 1 else dW M 22 x.retries

/-- ONE STEP of the partition producer: buffers plus the cost of the actions weigh less than buffers plus the
    token taken -/
theorem pp_recv_weight (M B : Nat) (p : PartProd.St) (x : PartProd.Tok) (hB : p.hwm ≤ B)
    (hfin : x.fin = true → x.retries ≤ p.hwm ∧ 0 < p.hwm) :
    bufW M B (PartProd.recv p x).1.bufs + asW M (PartProd.recv p x).2 + 1 ≤ bufW M B p.bufs + pqWp M x := by
  simp only [PartProd.recv]
  split
  · rename_i hr
    have hf : x.fin = false := by
      cases h : x.fin with
      | false => rfl
      | true => have := (hfin h).1; omega
    simp only [asW, List.map_cons, List.map_nil, List.sum_cons, List.sum_nil, aW, pqWp, hf, dW]
    simp; omega
  · split
    · rename_i h0
      split
      · rename_i hl
        split
        · rename_i hf
          simp [asW, aW, pqWp, hf]
        · rename_i hf
          have hf' : x.fin = false := by cases h : x.fin <;> simp_all
          have := bufW_setBuf M p.bufs x.retries (p.bufs x.retries ++ [x]) B (by omega)
          rw [rowW_append] at this
          have r1 : rowW M [x] = dW M 18 x.retries := by simp [rowW]
          simp only [asW, List.map_cons, List.map_nil, List.sum_cons, List.sum_nil, aW, pqWp, hf', r1, dW] at this ⊢
          simp; omega
      · split
        · rename_i hf
          have := flush_weight M B p.hwm p.bufs (PartProd.setExp p.expect p.hwm false) hB
          simp only [asW_cons, aW, pqWp, hf, if_true]
          omega
        · rename_i hf
          have hf' : x.fin = false := by cases h : x.fin <;> simp_all
          simp only [asW, List.map_cons, List.map_nil, List.sum_cons, List.sum_nil, aW, pqWp, hf', dW]
          simp; omega
    · rename_i h0
      have hf : x.fin = false := by
        cases h : x.fin with
        | false => rfl
        | true => have := (hfin h).2; omega
      simp only [asW, List.map_cons, List.map_nil, List.sum_cons, List.sum_nil, aW, pqWp, hf, dW]
      simp; omega

theorem inW_mkTok (M : Nat) (id : Int) (l : Nat) (fin : Bool) :
    inW M (mkTok id l fin) = if fin then 4 else dW M 16 l := by
  cases fin <;> simp [inW, mkTok]

theorem ppAct_weight (M : Nat) {ws : List Nat} (hnd : ws.Nodup) (s : Sys) (lks : List (Option Nat))
    (a : PartProd.Action) (hcur : ∀ c, s.cur = some c → c ∈ ws) (hl : ∀ w, some w ∈ lks → w ∈ ws) :
    wsW M ws (ppAct s lks a).1.wk ≤ wsW M ws s.wk + aW M a := by
  cases a with
  | finSend l =>
    simp only [ppAct]
    cases hc : s.cur with
    | none => simp
    | some w =>
      simp only
      rw [wsW_pushW M ws hnd _ w _ (hcur w hc)]
      simp [inW, finTok, aW]
  | emit id l fin =>
    simp only [ppAct]
    cases hc : s.cur with
    | some w =>
      simp only
      rw [wsW_pushW M ws hnd _ w _ (hcur w hc), inW_mkTok]
      simp only [aW, dW]; split <;> omega
    | none =>
      simp only
      cases lks with
      | nil => simp
      | cons x r =>
        cases x with
        | none => simp
        | some w =>
          have hw : w ∈ ws := hl w (by simp)
          simp only
          rw [wsW_pushW M ws hnd _ w _ hw, wsW_pushW M ws hnd _ w _ hw, inW_mkTok]
          have : inW M synTok = 1 := by simp [inW, synTok]
          simp only [aW, dW, this]; split <;> omega
  | park id => simp [ppAct]
  | finDone => simp [ppAct]

theorem ppActs_weight (M : Nat) {ws : List Nat} (hnd : ws.Nodup) (as : List PartProd.Action) :
    ∀ (s : Sys) (lks : List (Option Nat)), (∀ c, s.cur = some c → c ∈ ws) → (∀ w, some w ∈ lks → w ∈ ws) →
    wsW M ws (ppActs s lks as).wk ≤ wsW M ws s.wk + asW M as := by
  induction as with
  | nil => intro s lks _ _; simp [ppActs, asW]
  | cons a r ih =>
    intro s lks hcur hl
    have h1 := ppAct_weight M hnd s lks a hcur hl
    obtain ⟨hc, hsub⟩ := ppAct_cur s lks a
    have h2 := ih (ppAct s lks a).1 (ppAct s lks a).2 (by
      intro c hcc
      rcases hc with e | e | ⟨w, hw, e⟩
      · exact hcur c (by rw [← e]; exact hcc)
      · rw [e] at hcc; cases hcc
      · rw [e] at hcc; cases hcc; exact hl _ hw) (fun w hw => hl w (hsub _ hw))
    simp only [ppActs, asW_cons]
    omega

theorem isFin_iff (t : Tok) : BrokerProd.Tok.isFin t = true ↔ t.kind = .fin := by
  cases h : t.kind <;> simp [BrokerProd.Tok.isFin, h]

theorem qW_toPP (M : Nat) (t : Tok) : qW M 22 1 t = pqWp M (toPP t) := by
  simp only [qW, pqWp, toPP]
  by_cases h : t.kind = .fin
  · simp [h, (isFin_iff t).2 h]
  · have : BrokerProd.Tok.isFin t = false := by
      cases hf : BrokerProd.Tok.isFin t with
      | false => rfl
      | true => exact absurd ((isFin_iff t).1 hf) h
    simp [h, this]

theorem mu_ppRecv {M B : Nat} {ws : List Nat} {s s' : Sys} {lks : List (Option Nat)} (hnd : ws.Nodup)
    (hcur : ∀ c, s.cur = some c → c ∈ ws) (hl : ∀ w, some w ∈ lks → w ∈ ws) (hB : s.pp.hwm ≤ B)
    (hfin1 : ∀ t r, s.pq = t :: r → t.kind = .fin → 1 ≤ t.retries ∧ t.retries ≤ s.pp.hwm)
    (hs : sysStep M s (.ppRecv lks) = some s') : vmu M B ws s' + 1 ≤ vmu M B ws s := by
  cases hq : s.pq with
  | nil => simp [sysStep, hq] at hs
  | cons t r =>
    simp only [sysStep, hq, Option.some.injEq] at hs
    obtain ⟨f1, f2, f3⟩ := ppActs_frame (PartProd.recv s.pp (toPP t)).2
      { s with pq := r, pp := (PartProd.recv s.pp (toPP t)).1 } lks
    obtain ⟨g1, _, _⟩ := ppActs_grow (PartProd.recv s.pp (toPP t)).2
      { s with pq := r, pp := (PartProd.recv s.pp (toPP t)).1 } lks
    have hw := ppActs_weight M hnd (PartProd.recv s.pp (toPP t)).2
      { s with pq := r, pp := (PartProd.recv s.pp (toPP t)).1 } lks hcur hl
    rw [hs] at f1 f2 f3 g1 hw
    simp only at f1 f2 f3 g1 hw
    have hpp := pp_recv_weight M B s.pp (toPP t) hB (by
      intro hf
      have hk : t.kind = .fin := (isFin_iff t).1 (by simpa [toPP] using hf)
      obtain ⟨a1, a2⟩ := hfin1 t r hq hk
      simp only [toPP]; omega)
    have hqw := qW_toPP M t
    simp only [vmu, f1, f2, f3, g1, hq, lW_cons]
    omega

/-- a worker outside the list of workers in use is in its initial state and has no enabled step -/
theorem default_disabled {M : Nat} {s s' : Sys} {w : Nat} (hd : s.wk w = {}) :
    (∀ ov, sysStep M s (.bpRecv w ov) ≠ some s') ∧ sysStep M s (.handover w) ≠ some s' ∧
    (∀ v, sysStep M s (.broker w v) ≠ some s') ∧ (∀ st, sysStep M s (.deliver w st) ≠ some s') := by
  refine ⟨fun ov h => ?_, fun h => ?_, fun v h => ?_, fun st h => ?_⟩
  · simp [sysStep, hd] at h
  · simp [sysStep, hd, bpRun, BrokerProd.step, BrokerProd.handover] at h
  · simp [sysStep, hd] at h
  · simp [sysStep, hd] at h

/-- **the variant decreases**: every token-moving choice makes `vmu` strictly smaller -/
theorem mu_step {M B : Nat} (hM : 1 ≤ M) {ws : List Nat} {s s' : Sys} {c : Choice} (hnd : ws.Nodup)
    (hmv : moves c = true) (hcur : ∀ c, s.cur = some c → c ∈ ws) (hlk : ∀ w ∈ lookupsOf c, w ∈ ws)
    (hsup : ∀ w, w ∉ ws → s.wk w = {}) (hB : s.pp.hwm ≤ B)
    (hfin1 : ∀ t r, s.pq = t :: r → t.kind = .fin → 1 ≤ t.retries ∧ t.retries ≤ s.pp.hwm)
    (hpend : ∀ w vd base, (s.wk w).pend = some (vd, base) → ∃ sent, (s.wk w).bp.sets = [sent])
    (hP : ∀ w, P0 (insideB (s.wk w).bp)) (hs : sysStep M s c = some s') : vmu M B ws s' + 1 ≤ vmu M B ws s := by
  cases c with
  | submit => cases hmv
  | moveLeader b => cases hmv
  | closeW w => cases hmv
  | retryOut => exact Nat.le_of_eq (mu_retryOut hs)
  | dispatch => exact Nat.le_of_eq (mu_dispatch hs)
  | ppRecv lks =>
    exact mu_ppRecv hnd hcur (fun w hw => hlk w (by simp [lookupsOf, hw])) hB hfin1 hs
  | bpRecv w ov =>
    by_cases hw : w ∈ ws
    · exact mu_bpRecv hnd hw hs
    · exact absurd hs ((default_disabled (hsup w hw)).1 ov)
  | handover w =>
    by_cases hw : w ∈ ws
    · exact mu_handover hnd hw hs
    · exact absurd hs (default_disabled (hsup w hw)).2.1
  | broker w v =>
    by_cases hw : w ∈ ws
    · exact mu_broker hnd hw hs
    · exact absurd hs ((default_disabled (hsup w hw)).2.2.1 v)
  | deliver w still =>
    by_cases hw : w ∈ ws
    · exact mu_deliver hM hnd hw (hpend w) (hP w) hs
    · exact absurd hs ((default_disabled (hsup w hw)).2.2.2 still)

/-- closing an idle current worker leaves the variant unchanged -/
theorem vmu_closeW {M B : Nat} {ws : List Nat} {s s' : Sys} {w : Nat} (hs : sysStep M s (.closeW w) = some s') :
    vmu M B ws s' = vmu M B ws s := by
  obtain ⟨hg, rfl⟩ := closeW_spec hs
  have hp : (s.wk w).pend = none := by
    simp only [canClose, Bool.and_eq_true, Option.isNone_iff_eq_none] at hg; exact hg.2
  have : ∀ k, wW M (setW s.wk w ⟨(s.wk w).inq, closeBp (s.wk w).bp, none⟩ k) = wW M (s.wk k) := by
    intro k
    by_cases hk : k = w
    · subst hk; simp [setW, wW, bpW, closeBp, hp]
    · simp [setW, hk]
  simp only [vmu, wsW, this]

end Lemmas.C02sys
