import SaramaVerif.Lemmas.C11Sort
/-
  C11: ground truth of a transactional log in relational form, and the agreement between a faithful
  aborted-transaction index and the ground truth.
-/
namespace Lemmas.C11
open Model.ConsumerParse Model.Txn

/-- last offsets strictly increase along the log -/
def HiSorted (L : List LUnit) : Prop := L.Pairwise (fun a b => unitHi a < unitHi b)

/-- relational ground truth: the control batch of `p` with the least last offset above `h` is an abort marker -/
def NextAbort (L : List LUnit) (p h : Int) : Prop :=
  ∃ mk, LUnit.bat mk ∈ L ∧ isAbortMarker p mk ∧ h < batchLast mk ∧
    ∀ c, LUnit.bat c ∈ L → isMarker p c → h < batchLast c → batchLast mk ≤ batchLast c

theorem hi_inj {L : List LUnit} (hs : HiSorted L) : ∀ {u v : LUnit}, u ∈ L → v ∈ L → unitHi u = unitHi v → u = v := by
  unfold HiSorted at hs
  induction L with
  | nil => intro u v hu; cases hu
  | cons x xs ih =>
    rw [List.pairwise_cons] at hs
    intro u v hu hv he
    rcases List.mem_cons.1 hu with hu1 | hu1
    · rcases List.mem_cons.1 hv with hv1 | hv1
      · rw [hu1, hv1]
      · have := hs.1 v hv1; rw [hu1] at he; omega
    · rcases List.mem_cons.1 hv with hv1 | hv1
      · have := hs.1 u hu1; rw [hv1] at he; omega
      · exact ih hs.2 hu1 hv1 he

theorem nextMarker_iff (p : Int) : ∀ (S : List LUnit), HiSorted S →
    (nextMarker p S = some Ctl.abort ↔
      ∃ mk, LUnit.bat mk ∈ S ∧ isAbortMarker p mk ∧ ∀ c, LUnit.bat c ∈ S → isMarker p c → batchLast mk ≤ batchLast c)
  | [], _ => by simp [nextMarker]
  | .blk x :: S', hs => by
      have ih := nextMarker_iff p S' (List.Pairwise.of_cons hs)
      simp only [nextMarker, ih, List.mem_cons, reduceCtorEq, false_or]
  | .bat b :: S', hs => by
      have ih := nextMarker_iff p S' (List.Pairwise.of_cons hs)
      have hlt : ∀ u ∈ S', batchLast b < unitHi u := (List.pairwise_cons.1 hs).1
      unfold nextMarker
      by_cases hm : b.control = true ∧ b.pid = p
      · simp only [hm, and_self, ↓reduceIte, Option.some.injEq]
        constructor
        · intro hc
          refine ⟨b, List.mem_cons_self, ⟨hm.1, hm.2, hc⟩, ?_⟩
          intro c hc' _
          rcases List.mem_cons.1 hc' with h | h
          · cases h; exact Int.le_refl _
          · have := hlt _ h; simp only [unitHi] at this; omega
        · rintro ⟨mk, hmk, hab, hmin⟩
          rcases List.mem_cons.1 hmk with h | h
          · cases h; exact hab.2.2
          · have h1 := hlt _ h
            have h2 := hmin b List.mem_cons_self hm
            simp only [unitHi] at h1; omega
      · simp only [hm, ↓reduceIte, ih]
        constructor
        · rintro ⟨mk, hmk, hab, hmin⟩
          refine ⟨mk, List.mem_cons_of_mem _ hmk, hab, ?_⟩
          intro c hc hcm
          rcases List.mem_cons.1 hc with h | h
          · cases h; exact absurd hcm hm
          · exact hmin c h hcm
        · rintro ⟨mk, hmk, hab, hmin⟩
          rcases List.mem_cons.1 hmk with h | h
          · cases h; exact absurd ⟨hab.1, hab.2.1⟩ hm
          · exact ⟨mk, h, hab, fun c hc hcm => hmin c (List.mem_cons_of_mem _ hc) hcm⟩

/-- executable ground truth (first control batch after `b`) = relational ground truth -/
theorem nextMarker_nextAbort (p : Int) (A S : List LUnit) (b : Batch) (hs : HiSorted (A ++ LUnit.bat b :: S)) :
    nextMarker p S = some Ctl.abort ↔ NextAbort (A ++ LUnit.bat b :: S) p (batchLast b) := by
  unfold HiSorted at hs
  rw [List.pairwise_append] at hs
  obtain ⟨_, hbs, hab⟩ := hs
  rw [List.pairwise_cons] at hbs
  have hS : ∀ u ∈ S, batchLast b < unitHi u := hbs.1
  have hA : ∀ a ∈ A, unitHi a < batchLast b := fun a ha => hab a ha _ List.mem_cons_self
  rw [nextMarker_iff p S hbs.2]
  constructor
  · rintro ⟨mk, hmk, hmab, hmin⟩
    refine ⟨mk, by simp [hmk], hmab, by have := hS _ hmk; simpa [unitHi] using this, ?_⟩
    intro c hc hcm hlt
    rcases List.mem_append.1 hc with h | h
    · have := hA _ h; simp only [unitHi] at this; omega
    · rcases List.mem_cons.1 h with h | h
      · cases h; omega
      · exact hmin c h hcm
  · rintro ⟨mk, hmk, hmab, hlt, hmin⟩
    have : LUnit.bat mk ∈ S := by
      rcases List.mem_append.1 hmk with h | h
      · have := hA _ h; simp only [unitHi] at this; omega
      · rcases List.mem_cons.1 h with h | h
        · cases h; omega
        · exact h
    refine ⟨mk, this, hmab, ?_⟩
    intro c hc hcm
    exact hmin c (by simp [hc]) hcm (by have := hS _ hc; simpa [unitHi] using this)

theorem exists_min {α : Type} (key : α → Int) (P : α → Prop) : ∀ (l : List α), (∃ x ∈ l, P x) →
    ∃ x ∈ l, P x ∧ ∀ y ∈ l, P y → key x ≤ key y
  | [], ⟨_, h, _⟩ => by cases h
  | a :: as, ⟨x, hx, hp⟩ => by
      by_cases hrest : ∃ y ∈ as, P y
      · obtain ⟨m, hm, hpm, hmin⟩ := exists_min key P as hrest
        by_cases hpa : P a
        · by_cases hle : key a ≤ key m
          · refine ⟨a, List.mem_cons_self, hpa, ?_⟩
            intro y hy hpy
            rcases List.mem_cons.1 hy with rfl | hy
            · exact Int.le_refl _
            · have := hmin y hy hpy; omega
          · refine ⟨m, List.mem_cons_of_mem _ hm, hpm, ?_⟩
            intro y hy hpy
            rcases List.mem_cons.1 hy with rfl | hy
            · omega
            · exact hmin y hy hpy
        · refine ⟨m, List.mem_cons_of_mem _ hm, hpm, ?_⟩
          intro y hy hpy
          rcases List.mem_cons.1 hy with rfl | hy
          · exact absurd hpy hpa
          · exact hmin y hy hpy
      · rcases List.mem_cons.1 hx with rfl | hx
        · refine ⟨x, List.mem_cons_self, hp, ?_⟩
          intro y hy hpy
          rcases List.mem_cons.1 hy with rfl | hy
          · exact Int.le_refl _
          · exact absurd ⟨y, hy, hpy⟩ hrest
        · exact absurd ⟨x, hx, hp⟩ hrest

/-- **a faithful index agrees with the ground truth**: for a transactional data batch `b` of producer `p` in the
    fetched run (`P` = the batches of the run before it): some listed transaction of `p` begins at or below
    `b`'s last offset without an abort marker of `p` in the run at or above its first offset before `b`
    ⟺ the next control batch of `p` after `b` in the log is an abort marker. -/
theorem index_agrees (L : List LUnit) (o hiEnd : Int) (idx : List (Int × Int)) (p : Int) (b : Batch)
    (Pb : Batch → Prop)
    (hs : HiSorted L) (hbase : BaseWF L) (hidx : FaithfulIndex L o hiEnd idx)
    (hb : LUnit.bat b ∈ L) (hbd : isTxnData p b) (hbo : o ≤ batchLast b) (hbe : batchLast b ≤ hiEnd)
    (hPin : ∀ c, Pb c → LUnit.bat c ∈ L ∧ batchLast c < batchLast b)
    (hrun : ∀ c, LUnit.bat c ∈ L → o ≤ batchLast c → batchLast c < batchLast b → Pb c) :
    (∃ f, (p, f) ∈ idx ∧ f ≤ batchLast b ∧ ∀ c, Pb c → isAbortMarker p c → batchLast c < f) ↔
    NextAbort L p (batchLast b) := by
  have hinj : ∀ {x y : Batch}, LUnit.bat x ∈ L → LUnit.bat y ∈ L → batchLast x = batchLast y → x = y := by
    intro x y hx hy he
    have := hi_inj hs hx hy (by simpa [unitHi] using he)
    cases this; rfl
  constructor
  · rintro ⟨f, hf, hfb, hclean⟩
    obtain ⟨m, ⟨d, mk, hd, hmk, hdd, hdf, hmab, hmm, hdm, hnom, _⟩, hom⟩ := hidx.2 p f hf (by omega)
    have hdle := hbase.1 d hd
    -- the abort marker lies after b
    have hbm : batchLast b < batchLast mk := by
      by_cases hlt : batchLast mk < batchLast b
      · have := hclean mk (hrun mk hmk (by omega) hlt) hmab
        omega
      · by_cases heq : batchLast mk = batchLast b
        · have := hinj hmk hb heq
          subst this
          have h1 := hmab.1; have h2 := hbd.1
          rw [h1] at h2; cases h2
        · omega
    refine ⟨mk, hmk, hmab, hbm, ?_⟩
    intro c hc hcm hlt
    by_cases hcm' : batchLast c < batchLast mk
    · exfalso
      -- then c lies strictly between d and the marker
      have hdc : batchLast d < batchLast c := by
        by_cases h1 : batchLast c < batchLast d
        · have := hbase.2 c d hc hd h1; omega
        · by_cases h2 : batchLast c = batchLast d
          · have := hinj hc hd h2
            subst this
            have h3 := hcm.1; have h4 := hdd.1
            rw [h3] at h4; cases h4
          · omega
      exact hnom c hc hcm ⟨hdc, by omega⟩
    · omega
  · rintro ⟨mk, hmk, hmab, hbm, hmin⟩
    -- first data batch of the transaction b belongs to
    let Q : LUnit → Prop := fun u => ∃ d, u = LUnit.bat d ∧ isTxnData p d ∧ batchLast d ≤ batchLast b ∧
      ∀ c, LUnit.bat c ∈ L → isMarker p c → ¬ (batchLast d < batchLast c ∧ batchLast c < batchLast b)
    have hQb : Q (LUnit.bat b) := ⟨b, rfl, hbd, Int.le_refl _, fun c _ _ h => by omega⟩
    obtain ⟨u, hu, ⟨d, rfl, hdd, hdb, hdclean⟩, hmin'⟩ := exists_min unitHi Q L ⟨_, hb, hQb⟩
    have hd : LUnit.bat d ∈ L := hu
    have hdle := hbase.1 d hd
    have habt : AbortedTxn L p d.base (batchLast mk) := by
      refine ⟨d, mk, hd, hmk, hdd, rfl, hmab, rfl, by omega, ?_, ?_⟩
      · intro c hc hcm ⟨h1, h2⟩
        by_cases h3 : batchLast c < batchLast b
        · exact hdclean c hc hcm ⟨h1, h3⟩
        · by_cases h4 : batchLast c = batchLast b
          · have := hinj hc hb h4
            subst this
            have h5 := hcm.1; have h6 := hbd.1
            rw [h5] at h6; cases h6
          · have := hmin c hc hcm (by omega); omega
      · intro d' hd' hdd' hlt
        apply Classical.byContradiction
        intro hno
        have hQd' : Q (LUnit.bat d') := by
          refine ⟨d', rfl, hdd', by omega, ?_⟩
          intro c hc hcm ⟨h1, h2⟩
          by_cases h3 : batchLast c < batchLast d
          · exact hno ⟨c, hc, hcm, h1, h3⟩
          · by_cases h4 : batchLast c = batchLast d
            · have := hinj hc hd h4
              subst this
              have h5 := hcm.1; have h6 := hdd.1
              rw [h5] at h6; cases h6
            · exact hdclean c hc hcm ⟨by omega, h2⟩
        have := hmin' _ hd' hQd'
        simp only [unitHi] at this; omega
    have hin := hidx.1 p d.base (batchLast mk) habt (by omega) (by omega)
    refine ⟨d.base, hin, by omega, ?_⟩
    intro c hPc hcab
    obtain ⟨hc, hcb⟩ := hPin c hPc
    have hcm : isMarker p c := ⟨hcab.1, hcab.2.1⟩
    by_cases h1 : batchLast c < batchLast d
    · exact hbase.2 c d hc hd h1
    · exfalso
      by_cases h2 : batchLast c = batchLast d
      · have := hinj hc hd h2
        subst this
        have h5 := hcm.1; have h6 := hdd.1
        rw [h5] at h6; cases h6
      · exact hdclean c hc hcm ⟨by omega, hcb⟩

end Lemmas.C11
