/-
  C02 composition, handover chain: which worker the partition producer is bound to after a step.
-/
import SaramaVerif.Lemmas.C02chStepP4
import SaramaVerif.Model.PipelineScope

set_option linter.unusedSimpArgs false

namespace Lemmas.C02sys
open Model Model.Pipeline

theorem ppAct_cur (s : Sys) (lks : List (Option Nat)) (a : PartProd.Action) :
    ((ppAct s lks a).1.cur = s.cur ∨ (ppAct s lks a).1.cur = none ∨
      ∃ w, some w ∈ lks ∧ (ppAct s lks a).1.cur = some w) ∧ (∀ x ∈ (ppAct s lks a).2, x ∈ lks) := by
  cases a with
  | finSend l =>
    simp only [ppAct]; split
    · exact ⟨Or.inl rfl, fun x hx => hx⟩
    · exact ⟨Or.inr (Or.inl rfl), fun x hx => hx⟩
  | emit id l fin =>
    simp only [ppAct]
    split
    · exact ⟨Or.inl rfl, fun x hx => hx⟩
    · split
      · rename_i w r
        exact ⟨Or.inr (Or.inr ⟨w, List.mem_cons_self .., rfl⟩), fun x hx => List.mem_cons_of_mem _ hx⟩
      · exact ⟨Or.inl rfl, fun x hx => List.mem_of_mem_tail hx⟩
  | park id => exact ⟨Or.inl rfl, fun x hx => hx⟩
  | finDone => exact ⟨Or.inl rfl, fun x hx => hx⟩

theorem ppActs_cur (as : List PartProd.Action) : ∀ (s : Sys) (lks : List (Option Nat)),
    (ppActs s lks as).cur = s.cur ∨ (ppActs s lks as).cur = none ∨ ∃ w, some w ∈ lks ∧ (ppActs s lks as).cur = some w := by
  induction as with
  | nil => intro s lks; exact Or.inl rfl
  | cons a r ih =>
    intro s lks
    obtain ⟨h1, h2⟩ := ppAct_cur s lks a
    rcases ih (ppAct s lks a).1 (ppAct s lks a).2 with h | h | ⟨w, hw, h⟩
    · simp only [ppActs]; rw [h]; exact h1
    · exact Or.inr (Or.inl h)
    · exact Or.inr (Or.inr ⟨w, h2 _ hw, h⟩)

theorem bpActs_cur (as : List BrokerProd.Action) : ∀ (s : Sys) (off : Nat), (bpActs s off as).cur = s.cur := by
  induction as with
  | nil => intro s off; rfl
  | cons a r ih =>
    intro s off
    simp only [bpActs]; rw [ih]
    cases a <;> rfl

theorem bpRun_cur {M : Nat} {s s' : Sys} {w : Nat} {q : List Tok} {pend : Option (Pipeline.Verdict × Nat)} {off : Nat}
    {i : BrokerProd.In} (h : bpRun M s w q pend off i = some s') : s'.cur = s.cur := by
  simp only [bpRun] at h
  split at h
  · cases h
  · simp only [Option.some.injEq] at h
    rw [← h, bpActs_cur]

/-- the worker the partition producer is bound to after a step: the old one, none, or one named by a lookup -/
theorem sysStep_cur {M : Nat} {s s' : Sys} {c : Choice} (h : sysStep M s c = some s') :
    s'.cur = s.cur ∨ s'.cur = none ∨ ∃ w ∈ lookupsOf c, s'.cur = some w := by
  cases c with
  | submit => simp only [sysStep, Option.some.injEq] at h; rw [← h]; exact Or.inl rfl
  | retryOut =>
    simp only [sysStep] at h
    split at h
    · cases h
    · simp only [Option.some.injEq] at h; rw [← h]; exact Or.inl rfl
  | dispatch =>
    simp only [sysStep] at h
    split at h
    · cases h
    · simp only [Option.some.injEq] at h; rw [← h]; exact Or.inl rfl
  | ppRecv lks =>
    simp only [sysStep] at h
    split at h
    · cases h
    · simp only [Option.some.injEq] at h
      rw [← h]
      rcases ppActs_cur _ _ lks with h1 | h1 | ⟨w, hw, h1⟩
      · exact Or.inl h1
      · exact Or.inr (Or.inl h1)
      · exact Or.inr (Or.inr ⟨w, by simp [lookupsOf, hw], h1⟩)
  | bpRecv w ov =>
    simp only [sysStep] at h
    split at h
    · cases h
    · exact Or.inl (bpRun_cur h)
  | handover w => simp only [sysStep] at h; exact Or.inl (bpRun_cur h)
  | broker w v =>
    simp only [sysStep] at h
    split at h
    · split at h
      · cases h
      · simp only [Option.some.injEq] at h; rw [← h]; exact Or.inl rfl
    · cases h
  | deliver w still =>
    simp only [sysStep] at h
    split at h
    · cases h
    · exact Or.inl (bpRun_cur h)
  | moveLeader b => simp only [sysStep, Option.some.injEq] at h; rw [← h]; exact Or.inl rfl
  | closeW w => obtain ⟨_, rfl⟩ := closeW_spec h; exact Or.inl rfl

end Lemmas.C02sys
