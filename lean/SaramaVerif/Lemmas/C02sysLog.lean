/-
  C02 composition: list facts behind the log clauses (first copies by `idxOf`, offsets of an acknowledged set).
-/
import SaramaVerif.Lemmas.C02sysRep

set_option linter.unusedSimpArgs false

namespace Lemmas.C02sys
open Model Model.Pipeline

theorem idxOf_cons_ne' {x b : Int} (r : List Int) (h : ¬ x = b) : (x :: r).idxOf b = r.idxOf b + 1 := by
  have : (x == b) = false := by simpa using h
  simp [List.idxOf_cons, this]

/-- in a strictly increasing list the smaller element comes first -/
theorem idxOf_lt_of_sorted {l : List Int} (h : l.Pairwise (· < ·)) {a b : Int} (ha : a ∈ l) (hb : b ∈ l)
    (hab : a < b) : l.idxOf a < l.idxOf b := by
  induction l with
  | nil => cases ha
  | cons x r ih =>
    rw [List.pairwise_cons] at h
    by_cases hxa : x = a
    · subst hxa
      have hne : ¬ x = b := by omega
      rw [List.idxOf_cons_self, idxOf_cons_ne' r hne]; omega
    · by_cases hxb : x = b
      · subst hxb
        have ha' : a ∈ r := by
          rcases List.mem_cons.1 ha with e | e
          · exact absurd e.symm hxa
          · exact e
        have := h.1 a ha'; omega
      · have ha' : a ∈ r := by
          rcases List.mem_cons.1 ha with e | e
          · exact absurd e.symm hxa
          · exact e
        have hb' : b ∈ r := by
          rcases List.mem_cons.1 hb with e | e
          · exact absurd e.symm hxb
          · exact e
        have := ih h.2 ha' hb'
        rw [idxOf_cons_ne' r hxa, idxOf_cons_ne' r hxb]; omega

/-- appending a strictly increasing batch keeps "first copies in id order", provided no id of the batch is new
    below an id that is already in the log -/
theorem J_append {log S : List Int}
    (hJ : ∀ a b, a < b → a ∈ log → b ∈ log → log.idxOf a < log.idxOf b) (hS : S.Pairwise (· < ·))
    (hK : ∀ b ∈ log, ∀ a ∈ S, a < b → a ∈ log) :
    ∀ a b, a < b → a ∈ log ++ S → b ∈ log ++ S → (log ++ S).idxOf a < (log ++ S).idxOf b := by
  intro a b hab ha hb
  rw [List.idxOf_append, List.idxOf_append]
  by_cases hal : a ∈ log <;> by_cases hbl : b ∈ log
  · simp only [hal, hbl, ↓reduceIte]; exact hJ a b hab hal hbl
  · simp only [hal, hbl, ↓reduceIte]
    have := List.idxOf_lt_length_iff.2 hal; omega
  · exfalso
    have haS : a ∈ S := by
      rcases List.mem_append.1 ha with h | h
      · exact absurd h hal
      · exact h
    exact hal (hK b hbl a haS hab)
  · simp only [hal, hbl, ↓reduceIte]
    have haS : a ∈ S := by
      rcases List.mem_append.1 ha with h | h
      · exact absurd h hal
      · exact h
    have hbS : b ∈ S := by
      rcases List.mem_append.1 hb with h | h
      · exact absurd h hbl
      · exact h
    have := idxOf_lt_of_sorted hS haS hbS hab; omega

/-- the (id, offset) pairs of an acknowledged set -/
theorem mem_offs {l : List Tok} {off : Nat} {p : Int × Nat} (h : p ∈ offs l off) :
    (∃ t ∈ l, t.id = p.1) ∧ off ≤ p.2 ∧ p.2 < off + l.length := by
  induction l generalizing off with
  | nil => cases h
  | cons t r ih =>
    simp only [offs, List.mem_cons] at h
    rcases h with rfl | h
    · exact ⟨⟨t, List.mem_cons_self .., rfl⟩, Nat.le_refl _, by simp⟩
    · obtain ⟨⟨x, hx, e⟩, h1, h2⟩ := ih h
      exact ⟨⟨x, List.mem_cons_of_mem _ hx, e⟩, by omega, by simp only [List.length_cons]; omega⟩

theorem offs_sorted {l : List Tok} (hl : l.Pairwise (fun a b => a.id < b.id)) {off : Nat} {p q : Int × Nat}
    (hp : p ∈ offs l off) (hq : q ∈ offs l off) (hpq : p.1 < q.1) : p.2 < q.2 := by
  induction l generalizing off with
  | nil => cases hp
  | cons t r ih =>
    rw [List.pairwise_cons] at hl
    simp only [offs, List.mem_cons] at hp hq
    rcases hp with rfl | hp <;> rcases hq with rfl | hq
    · simp at hpq
    · have := (mem_offs hq).2.1; simp only; omega
    · obtain ⟨⟨x, hx, e⟩, _⟩ := mem_offs hp
      have := hl.1 x hx; simp only at hpq; omega
    · exact ih hl.2 hp hq

theorem gw_sorted {v : View} (h : VInv v) : v.gw.Pairwise (fun a b => a.id < b.id) := by
  have h0 := h.ord 0
  rw [List.append_assoc, List.pairwise_append] at h0
  have := List.Pairwise.and h0.1 h.gdesc
  exact this.imp (fun hab => hab.1.1 hab.2)

/-- `Rep` only looks at the partition producer, the queues, `cur` and worker 0 -/
theorem rep_congr {M : Nat} {s s' : Sys} {v : View} (h : Rep M s v) (hpp : s'.pp = s.pp) (hpq : s'.pq = s.pq)
    (hdq : s'.dq = s.dq) (hret : s'.ret = s.ret) (hcur : s'.cur = s.cur) (hW : s'.wk 0 = s.wk 0) : Rep M s' v := by
  cases h with
  | closed h1 h2 =>
    have := Rep.closed (M := M) (s := s') (by simpa [W, hW] using h1) (by simpa [ins, W, hW] using h2)
    simpa [W, hW, hpp, hpq, hdq, hret] using this
  | normal mk G h1 h2 h3 h4 h5 h6 =>
    have := Rep.normal (M := M) (s := s') mk G (by simpa [W, hW] using h1) (by simpa [W, hW] using h2)
      (by simpa [W, hW] using h3) h4 (by simpa [ins, W, hW] using h5) (by simpa [ins, W, hW, hcur] using h6)
    simpa [ins, W, hW, hpp, hpq, hdq, hret] using this
  | failed h1 h2 h3 h4 h5 =>
    have := Rep.failed (M := M) (s := s') (by simpa [W, hW] using h1) (by simpa [W, hW] using h2)
      (by simpa [ins, W, hW] using h3) (by simpa [W, hW] using h4) (by rw [hcur]; exact h5)
    simpa [W, hW, hpp, hpq, hdq, hret] using this
  | reopen D k mk G h1 h2 h3 h4 h5 h6 h7 =>
    have := Rep.reopen (M := M) (s := s') D k mk G (by simpa [W, hW] using h1) (by simpa [W, hW] using h2)
      (by simpa [ins, W, hW] using h3) (by simpa [W, hW] using h4) h5 h6 (by rw [hcur]; exact h7)
    simpa [W, hW, hpp, hpq, hdq, hret] using this

/-- the set at the bridge is the front of `gw` -/
theorem sent_prefix {M : Nat} {s : Sys} {v : View} (h : Rep M s v) (sent : List Tok)
    (hs : (W s).bp.sets = [sent]) : ∃ rest, v.gw = sent ++ rest := by
  have hin : ins s = sent ++ ((W s).bp.buffer ++ (W s).bp.wait.toList) := by
    simp [ins, insideB, Props.C02bp.inside, hs]
  cases h with
  | normal mk G h1 h2 h3 h4 h5 h6 => exact ⟨(W s).bp.buffer ++ (W s).bp.wait.toList ++ G, by simp [hin]⟩
  | closed h1 h2 =>
    rw [h2] at hin
    have : sent = [] := by
      cases sent with
      | nil => rfl
      | cons x r => simp at hin
    exact ⟨[], by simp [this]⟩
  | failed h1 h2 h3 h4 h5 =>
    rw [h3] at hin
    have : sent = [] := by
      cases sent with
      | nil => rfl
      | cons x r => simp at hin
    exact ⟨[], by simp [this]⟩
  | reopen D k mk G h1 h2 h3 h4 h5 h6 h7 =>
    rw [h3] at hin
    have : sent = [] := by
      cases sent with
      | nil => rfl
      | cons x r => simp at hin
    exact ⟨G, by simp [this]⟩

end Lemmas.C02sys
