/-
  C02 composition, per-stay split: the simulation of the partition producer's step (ppRecv).
-/
import SaramaVerif.Lemmas.C02splitW

set_option linter.unusedSimpArgs false

namespace Lemmas.C02sys
open Model Model.Pipeline Props.C02sys

theorem inqOf_pushW_not (t : Sys) (id : Nat) (x : Tok) (l : List Nat) (h : id ∉ l) (t' : Sys)
    (ht' : t'.wk = pushW t.wk id x) : inqOf t' l = inqOf t l :=
  inqOf_setW_not t t.wk rfl id _ l h t' ht'

/-- pushing onto the last of a list of chain workers appends to the concatenation of their inputs -/
theorem inqOf_pushW_last (t t' : Sys) (x : Tok) : ∀ (l : List Nat) (hl : l ≠ []), l.Nodup →
    t'.wk = pushW t.wk (l.getLast hl) x → inqOf t' l = inqOf t l ++ [x] := by
  intro l
  induction l with
  | nil => intro hl; exact absurd rfl hl
  | cons a r ih =>
    intro hl hnd ht'
    simp only [List.nodup_cons] at hnd
    cases r with
    | nil =>
      simp only [List.getLast_singleton] at ht'
      simp [inqOf, ht', pushW, setW]
    | cons b r' =>
      rw [List.getLast_cons (by simp)] at ht'
      have hne : a ≠ (b :: r').getLast (by simp) := fun e => hnd.1 (e ▸ List.getLast_mem _)
      have := ih (by simp) hnd.2 ht'
      simp only [inqOf, List.flatMap_cons] at this ⊢
      rw [this]
      simp [ht', pushW, setW, hne, List.append_assoc]

theorem mergeW_push {t t' : Sys} {a : Nat} {L : List Nat} {x : Tok} (hnd : (live (a, L)).Nodup)
    (ht' : t'.wk = pushW t.wk (lastOf (a, L)) x) :
    mergeW t' (some (a, L)) = ⟨(mergeW t (some (a, L))).inq ++ [x], (mergeW t (some (a, L))).bp,
      (mergeW t (some (a, L))).pend⟩ := by
  cases L with
  | nil =>
    simp only [lastOf_nil] at ht'
    simp [mergeW, inqOf, ht', pushW, setW]
  | cons b r =>
    simp only [live] at hnd
    rw [List.nodup_cons] at hnd
    rw [lastOf_cons] at ht'
    have hne : a ≠ lastOf (b, r) := fun e => hnd.1 (by rw [e]; simp only [lastOf]; exact List.getLast_mem _)
    have h2 := inqOf_pushW_last t t' x (b :: r) (by simp) hnd.2 (by simpa [lastOf] using ht')
    simp only [mergeW, h2]
    simp [ht', pushW, setW, hne, List.append_assoc]

theorem pushW_parts (f : Nat → Worker) (id : Nat) (x : Tok) (j : Nat) :
    (pushW f id x j).bp = (f j).bp ∧ (pushW f id x j).pend = (f j).pend ∧
    ((j ≠ id ∧ (pushW f id x j).inq = (f j).inq) ∨ (j = id ∧ (pushW f id x j).inq = (f j).inq ++ [x])) := by
  by_cases h : j = id
  · subst h; simp [pushW, setW]
  · simp [pushW, setW, h]

/-- the partition producer sends a token to the worker it is bound to -/
theorem relW_push {seen : List Nat} {g : Ghost} {s t s' t' : Sys} (h : RelW seen g s t) {w : Nat}
    {xx : Nat × List Nat} (hg : g w = some xx) (tok : Tok)
    (hs' : s'.wk = pushW s.wk w tok) (ht' : t'.wk = pushW t.wk (lastOf xx) tok)
    (hc : (s'.cur = s.cur ∧ t'.cur = t.cur) ∨ (s'.cur = none ∧ t'.cur = none ∧ t.cur = some (lastOf xx)))
    (e1 : s'.next = t'.next) (e2 : s'.dq = t'.dq) (e3 : s'.pq = t'.pq) (e4 : s'.pp = t'.pp) (e5 : s'.ret = t'.ret)
    (e6 : s'.ldr = t'.ldr) (e7 : s'.log = t'.log) (e8 : s'.succ = t'.succ) (e9 : s'.errs = t'.errs)
    (e10 : s'.crash = t'.crash) : RelW seen g s' t' := by
  obtain ⟨a, L⟩ := xx
  have hnd := h.nd w _ hg
  have hidl : lastOf (a, L) ∈ live (a, L) := by simp only [lastOf, live]; exact List.getLast_mem _
  have hother : ∀ w' x', g w' = some x' → w' ≠ w → lastOf (a, L) ∉ live x' := by
    intro w' x' hg' hne hm
    exact h.disj w w' _ x' hg hg' (fun e => hne e.symm) _ hidl hm
  have hsetW : t'.wk = setW t.wk (lastOf (a, L)) { t.wk (lastOf (a, L)) with inq := (t.wk (lastOf (a, L))).inq ++ [tok] } := ht'
  have parts := fun j => pushW_parts t.wk (lastOf (a, L)) tok j
  refine { next := e1, dq := e2, pq := e3, pp := e4, ret := e5, ldr := e6, log := e7, succ := e8, errs := e9,
           crash := e10, wk := ?_, cur := ?_, later := ?_, actne := ?_, ids := h.ids, disj := h.disj, nd := h.nd,
           idn := h.idn, blank := ?_, drained := ?_ }
  · intro w'
    by_cases hw : w' = w
    · subst hw
      rw [hs', hg, mergeW_push hnd ht', ← hg, ← h.wk w']
      simp [pushW, setW]
    · rw [hs']; simp only [pushW, setW, hw, if_false]
      rw [h.wk w']
      cases hg' : g w' with
      | none => rfl
      | some x' => exact (mergeW_setW_other hsetW x' (hother w' x' hg' hw)).symm
  · rcases hc with ⟨c1, c2⟩ | ⟨c1, c2, _⟩
    · rw [c1, c2]; exact h.cur
    · exact Or.inl ⟨c1, c2⟩
  · intro w' a' L' hg' id hid
    obtain ⟨p1, p2, p3⟩ := parts id
    obtain ⟨q1, q2, q3⟩ := h.later w' a' L' hg' id hid
    rw [ht', p1, p2]
    refine ⟨?_, q2, q3⟩
    rcases p3 with ⟨_, e⟩ | ⟨_, e⟩
    · rw [e]; exact q1
    · rw [e]; simp
  · intro w' a' L' hg' hl
    obtain ⟨_, _, p3⟩ := parts a'
    have q1 := h.actne w' a' L' hg' hl
    rw [ht']
    rcases p3 with ⟨_, e⟩ | ⟨_, e⟩
    · rw [e]; exact q1
    · rw [e]; simp
  · intro id hid
    have hne : id ≠ lastOf (a, L) := fun e => hid (e ▸ (h.ids w _ hg _ hidl).1)
    rw [hsetW]; simp only [setW, hne, if_false]; exact h.blank id hid
  · intro w' a' hg' hi hcc
    obtain ⟨p1, p2, p3⟩ := parts a'
    rw [ht'] at hi ⊢
    rcases p3 with ⟨hne, e⟩ | ⟨_, e⟩
    · rw [e] at hi; rw [p1, p2]
      refine h.drained w' a' hg' hi ?_
      rcases hc with ⟨_, c2⟩ | ⟨_, _, c3⟩
      · rw [← c2]; exact hcc
      · rw [c3]; intro e'; exact hne (Option.some.inj e').symm
    · rw [e] at hi; simp at hi

def newId (w : Nat) (seen : List Nat) : Nat := (w / 64) * 64 + seen.length

theorem newId_fresh {seen : List Nat} (hidn : ∀ id ∈ seen, id % 64 < seen.length) (hlt : seen.length < 64) (w : Nat) :
    newId w seen ∉ seen ∧ newId w seen / 64 = w / 64 ∧ newId w seen % 64 = seen.length := by
  refine ⟨fun hm => ?_, by simp only [newId]; omega, by simp only [newId]; omega⟩
  have := hidn _ hm
  simp only [newId] at this; omega

theorem pushW2_at (f : Nat → Worker) (id : Nat) (x y : Tok) :
    pushW (pushW f id x) id y id = ⟨(f id).inq ++ [x, y], (f id).bp, (f id).pend⟩ := by
  simp [pushW, setW]

theorem pushW2_other (f : Nat → Worker) (id : Nat) (x y : Tok) {j : Nat} (h : j ≠ id) :
    pushW (pushW f id x) id y j = f j := by
  simp [pushW, setW, h]

theorem pushW2_setW (f : Nat → Worker) (id : Nat) (x y : Tok) :
    pushW (pushW f id x) id y = setW f id ⟨(f id).inq ++ [x, y], (f id).bp, (f id).pend⟩ := by
  funext j
  by_cases h : j = id
  · subst h; rw [pushW2_at]; simp [setW]
  · rw [pushW2_other f id x y h]; simp [setW, h]

/-- a lookup finds a real worker that is in its initial state for the partition (never used, or drained and reset
    by its chaser): a new stay at a fresh chain worker, which the real worker serves at once -/
theorem relW_openF {seen : List Nat} {g : Ghost} {s t s' t' : Sys} (h : RelW seen g s t) (w : Nat)
    (hct : t.cur = none) (hlt : seen.length < 64) (tok : Tok)
    (hw0 : s.wk w = {})
    (hs' : s'.wk = pushW (pushW s.wk w synTok) w tok)
    (ht' : t'.wk = pushW (pushW t.wk (newId w seen) synTok) (newId w seen) tok)
    (hc : s'.cur = some w) (hc' : t'.cur = some (newId w seen))
    (e1 : s'.next = t'.next) (e2 : s'.dq = t'.dq) (e3 : s'.pq = t'.pq) (e4 : s'.pp = t'.pp) (e5 : s'.ret = t'.ret)
    (e6 : s'.ldr = t'.ldr) (e7 : s'.log = t'.log) (e8 : s'.succ = t'.succ) (e9 : s'.errs = t'.errs)
    (e10 : s'.crash = t'.crash) :
    RelW (seen ++ [newId w seen]) (setG g w (some (newId w seen, []))) s' t' := by
  obtain ⟨hfr, hbr, hmod⟩ := newId_fresh h.idn hlt w
  have hblank := h.blank _ hfr
  have hset := pushW2_setW t.wk (newId w seen) synTok tok
  rw [← ht'] at hset
  have hgw : setG g w (some (newId w seen, [])) w = some (newId w seen, []) := by simp [setG]
  have hgo : ∀ w', w' ≠ w → setG g w (some (newId w seen, [])) w' = g w' := fun w' hw => by simp [setG, hw]
  have hlive : ∀ w' x', g w' = some x' → newId w seen ∉ live x' := fun w' x' hg' hm => hfr (h.ids w' x' hg' _ hm).1
  have tj : ∀ j, j ≠ newId w seen → t'.wk j = t.wk j := fun j hj => by rw [ht']; exact pushW2_other _ _ _ _ hj
  refine { next := e1, dq := e2, pq := e3, pp := e4, ret := e5, ldr := e6, log := e7, succ := e8, errs := e9,
           crash := e10, wk := ?_, cur := Or.inr ⟨w, _, hc, hgw, by rw [hc', lastOf_nil]⟩, later := ?_, actne := ?_,
           ids := ?_, disj := ?_, nd := ?_, idn := ?_, blank := ?_, drained := ?_ }
  · intro w'
    by_cases hw : w' = w
    · subst hw
      rw [hs', hgw, pushW2_at, hw0]
      simp only [mergeW, inqOf, List.flatMap_nil, List.append_nil, ht', pushW2_at, hblank]
    · rw [hs', pushW2_other _ _ _ _ hw, hgo w' hw, h.wk w']
      cases hg' : g w' with
      | none => rfl
      | some x' => exact (mergeW_setW_other hset x' (hlive w' x' hg')).symm
  · intro w' a' L' hg' id hid
    by_cases hw : w' = w
    · subst hw; rw [hgw] at hg'; cases hg'; cases hid
    · rw [hgo w' hw] at hg'
      have hne : id ≠ newId w seen := fun e => hlive w' _ hg' (by rw [← e]; simp [live, hid])
      rw [tj id hne]; exact h.later w' a' L' hg' id hid
  · intro w' a' L' hg' hl
    by_cases hw : w' = w
    · subst hw; rw [hgw] at hg'; cases hg'; exact absurd rfl hl
    · rw [hgo w' hw] at hg'
      have hne : a' ≠ newId w seen := fun e => hlive w' _ hg' (by rw [← e]; simp [live])
      rw [tj a' hne]; exact h.actne w' a' L' hg' hl
  · intro w' x hg' id hid
    by_cases hw : w' = w
    · subst hw; rw [hgw] at hg'; cases hg'
      simp only [live, List.mem_singleton] at hid; subst hid
      exact ⟨by simp, hbr⟩
    · rw [hgo w' hw] at hg'
      obtain ⟨q1, q2⟩ := h.ids w' x hg' id hid
      exact ⟨List.mem_append_left _ q1, q2⟩
  · intro w1 w2 x1 x2 h1 h2 hne id hid
    by_cases hw1 : w1 = w
    · subst hw1; rw [hgw] at h1; cases h1
      rw [hgo w2 (fun e => hne e.symm)] at h2
      simp only [live, List.mem_singleton] at hid; subst hid
      exact hlive w2 x2 h2
    · rw [hgo w1 hw1] at h1
      by_cases hw2 : w2 = w
      · subst hw2; rw [hgw] at h2; cases h2
        intro hm; simp only [live, List.mem_singleton] at hm; subst hm
        exact hlive w1 x1 h1 hid
      · rw [hgo w2 hw2] at h2; exact h.disj w1 w2 x1 x2 h1 h2 hne id hid
  · intro w' x hg'
    by_cases hw : w' = w
    · subst hw; rw [hgw] at hg'; cases hg'; simp [live]
    · rw [hgo w' hw] at hg'; exact h.nd w' x hg'
  · intro id hid
    rcases List.mem_append.1 hid with e | e
    · have := h.idn id e; simp; omega
    · rw [List.mem_singleton.1 e, hmod]; simp
  · intro id hid
    have h1 : id ∉ seen := fun e => hid (List.mem_append_left _ e)
    have h2 : id ≠ newId w seen := fun e => hid (by rw [e]; simp)
    rw [tj id h2]; exact h.blank id h1
  · intro w' a' hg' hi hcc
    by_cases hw : w' = w
    · subst hw; rw [hgw] at hg'; cases hg'
      rw [ht', pushW2_at] at hi; simp at hi
    · rw [hgo w' hw] at hg'
      have hne : a' ≠ newId w seen := fun e => hlive w' _ hg' (by rw [← e]; simp [live])
      rw [tj a' hne] at hi ⊢
      exact h.drained w' a' hg' hi (by rw [hct]; simp)

theorem lastOf_append (a : Nat) (L : List Nat) (id : Nat) : lastOf (a, L ++ [id]) = id := by
  induction L generalizing a with
  | nil => rfl
  | cons b r ih => rw [List.cons_append, lastOf_cons]; exact ih b

/-- a lookup finds a real worker that still has tokens of the partition's previous stay in its input channel (or
    serves an open stay): the new stay waits behind them -/
theorem relW_openA {seen : List Nat} {g : Ghost} {s t s' t' : Sys} (h : RelW seen g s t) (w a : Nat) (L : List Nat)
    (hg : g w = some (a, L)) (hne : L ≠ [] ∨ (t.wk a).inq ≠ [])
    (hct : t.cur = none) (hlt : seen.length < 64) (tok : Tok)
    (hs' : s'.wk = pushW (pushW s.wk w synTok) w tok)
    (ht' : t'.wk = pushW (pushW t.wk (newId w seen) synTok) (newId w seen) tok)
    (hc : s'.cur = some w) (hc' : t'.cur = some (newId w seen))
    (e1 : s'.next = t'.next) (e2 : s'.dq = t'.dq) (e3 : s'.pq = t'.pq) (e4 : s'.pp = t'.pp) (e5 : s'.ret = t'.ret)
    (e6 : s'.ldr = t'.ldr) (e7 : s'.log = t'.log) (e8 : s'.succ = t'.succ) (e9 : s'.errs = t'.errs)
    (e10 : s'.crash = t'.crash) :
    RelW (seen ++ [newId w seen]) (setG g w (some (a, L ++ [newId w seen]))) s' t' := by
  obtain ⟨hfr, hbr, hmod⟩ := newId_fresh h.idn hlt w
  have hblank := h.blank _ hfr
  have hset := pushW2_setW t.wk (newId w seen) synTok tok
  rw [← ht'] at hset
  have hgw : setG g w (some (a, L ++ [newId w seen])) w = some (a, L ++ [newId w seen]) := by simp [setG]
  have hgo : ∀ w', w' ≠ w → setG g w (some (a, L ++ [newId w seen])) w' = g w' := fun w' hw => by simp [setG, hw]
  have hlive : ∀ w' x', g w' = some x' → newId w seen ∉ live x' := fun w' x' hg' hm => hfr (h.ids w' x' hg' _ hm).1
  have tj : ∀ j, j ≠ newId w seen → t'.wk j = t.wk j := fun j hj => by rw [ht']; exact pushW2_other _ _ _ _ hj
  have tid : t'.wk (newId w seen) = ⟨[synTok, tok], {}, none⟩ := by rw [ht', pushW2_at, hblank]; rfl
  have hidL : newId w seen ∉ live (a, L) := hlive w _ hg
  have haid : a ≠ newId w seen := fun e => hidL (by rw [← e]; simp [live])
  have hLid : newId w seen ∉ L := fun e => hidL (by simp [live, e])
  refine { next := e1, dq := e2, pq := e3, pp := e4, ret := e5, ldr := e6, log := e7, succ := e8, errs := e9,
           crash := e10, wk := ?_, cur := Or.inr ⟨w, _, hc, hgw, by rw [hc', lastOf_append]⟩, later := ?_, actne := ?_,
           ids := ?_, disj := ?_, nd := ?_, idn := ?_, blank := ?_, drained := ?_ }
  · intro w'
    by_cases hw : w' = w
    · subst hw
      obtain ⟨q1, q2, q3⟩ := rel_bp h hg
      rw [hs', hgw, pushW2_at, q1, q2, q3]
      simp only [mergeW, tj a haid]
      have : inqOf t' (L ++ [newId w' seen]) = inqOf t L ++ [synTok, tok] := by
        simp only [inqOf, List.flatMap_append, List.flatMap_cons, List.flatMap_nil, List.append_nil, tid]
        congr 1
        exact inqOf_setW_not t t.wk rfl _ _ L hLid t' hset
      rw [this, List.append_assoc]
    · rw [hs', pushW2_other _ _ _ _ hw, hgo w' hw, h.wk w']
      cases hg' : g w' with
      | none => rfl
      | some x' => exact (mergeW_setW_other hset x' (hlive w' x' hg')).symm
  · intro w' a' L' hg' id hid
    by_cases hw : w' = w
    · subst hw; rw [hgw] at hg'; cases hg'
      rcases List.mem_append.1 hid with e | e
      · have hne' : id ≠ newId w' seen := fun e' => hLid (e' ▸ e)
        rw [tj id hne']; exact h.later w' a L hg id e
      · rw [List.mem_singleton.1 e, tid]; simp
    · rw [hgo w' hw] at hg'
      have hne' : id ≠ newId w seen := fun e => hlive w' _ hg' (by rw [← e]; simp [live, hid])
      rw [tj id hne']; exact h.later w' a' L' hg' id hid
  · intro w' a' L' hg' hl
    by_cases hw : w' = w
    · subst hw; rw [hgw] at hg'; cases hg'
      rw [tj a haid]
      rcases hne with e | e
      · exact h.actne w' a L hg e
      · exact e
    · rw [hgo w' hw] at hg'
      have hne' : a' ≠ newId w seen := fun e => hlive w' _ hg' (by rw [← e]; simp [live])
      rw [tj a' hne']; exact h.actne w' a' L' hg' hl
  · intro w' x hg' id hid
    by_cases hw : w' = w
    · subst hw; rw [hgw] at hg'; cases hg'
      simp only [live, List.mem_cons, List.mem_append, List.mem_singleton] at hid
      rcases hid with e | e | e
      · subst e; obtain ⟨q1, q2⟩ := h.ids w' _ hg id (by simp [live]); exact ⟨List.mem_append_left _ q1, q2⟩
      · obtain ⟨q1, q2⟩ := h.ids w' _ hg id (by simp [live, e]); exact ⟨List.mem_append_left _ q1, q2⟩
      · have e' : id = newId w' seen := by simpa using e
        rw [e']; exact ⟨by simp, hbr⟩
    · rw [hgo w' hw] at hg'
      obtain ⟨q1, q2⟩ := h.ids w' x hg' id hid
      exact ⟨List.mem_append_left _ q1, q2⟩
  · intro w1 w2 x1 x2 h1 h2 hne' id hid
    have key : ∀ y, y ∈ live (a, L ++ [newId w seen]) → y ∈ live (a, L) ∨ y = newId w seen := by
      intro y hy
      simp only [live, List.mem_cons, List.mem_append, List.mem_singleton] at hy ⊢
      rcases hy with e | e | e
      · exact Or.inl (Or.inl e)
      · exact Or.inl (Or.inr e)
      · exact Or.inr (by simpa using e)
    by_cases hw1 : w1 = w
    · subst hw1; rw [hgw] at h1; cases h1
      rw [hgo w2 (fun e => hne' e.symm)] at h2
      rcases key id hid with e | e
      · exact h.disj w1 w2 _ x2 hg h2 hne' id e
      · rw [e]; exact hlive w2 x2 h2
    · rw [hgo w1 hw1] at h1
      by_cases hw2 : w2 = w
      · subst hw2; rw [hgw] at h2; cases h2
        intro hm
        rcases key id hm with e | e
        · exact h.disj w1 w2 x1 _ h1 hg hne' id hid e
        · rw [e] at hid; exact hlive w1 x1 h1 hid
      · rw [hgo w2 hw2] at h2; exact h.disj w1 w2 x1 x2 h1 h2 hne' id hid
  · intro w' x hg'
    by_cases hw : w' = w
    · subst hw; rw [hgw] at hg'; cases hg'
      have := h.nd w' _ hg
      simp only [live] at this hidL ⊢
      rw [show a :: (L ++ [newId w' seen]) = (a :: L) ++ [newId w' seen] from rfl]
      exact List.nodup_append.2 ⟨this, by simp, fun x hx y hy => by
        rw [List.mem_singleton.1 hy]; intro e; exact hidL (e ▸ hx)⟩
    · rw [hgo w' hw] at hg'; exact h.nd w' x hg'
  · intro id hid
    rcases List.mem_append.1 hid with e | e
    · have := h.idn id e; simp; omega
    · rw [List.mem_singleton.1 e, hmod]; simp
  · intro id hid
    have h1 : id ∉ seen := fun e => hid (List.mem_append_left _ e)
    have h2 : id ≠ newId w seen := fun e => hid (by rw [e]; simp)
    rw [tj id h2]; exact h.blank id h1
  · intro w' a' hg' hi hcc
    by_cases hw : w' = w
    · subst hw; rw [hgw] at hg'
      simp only [Option.some.injEq, Prod.mk.injEq] at hg'
      have := hg'.2; simp at this
    · rw [hgo w' hw] at hg'
      have hne' : a' ≠ newId w seen := fun e => hlive w' _ hg' (by rw [← e]; simp [live])
      rw [tj a' hne'] at hi ⊢
      exact h.drained w' a' hg' hi (by rw [hct]; simp)

/-- ONE action of the partition producer in both runs: `lk` is what the chain uses of its lookup list (nothing, a
    failure, or the fresh worker of a new stay) -/
theorem sim_ppAct {seen : List Nat} {g : Ghost} {s t : Sys} (h : RelW seen g s t) (lks : List (Option Nat))
    (a : PartProd.Action) (hb : seen.length + (lks.filterMap id).length ≤ 64) :
    ∃ (lk : List (Option Nat)) (g' : Ghost) (t1 : Sys),
      (∀ j ∈ lk.filterMap id, j ∉ seen) ∧ (lk.filterMap id).Nodup ∧
      (lk.filterMap id).length + ((ppAct s lks a).2.filterMap id).length ≤ (lks.filterMap id).length ∧
      (∀ rest, ppAct t (lk ++ rest) a = (t1, rest)) ∧ RelW (seen ++ lk.filterMap id) g' (ppAct s lks a).1 t1 := by
  have none_case : ∀ (s1 t1 : Sys), (ppAct s lks a) = (s1, lks) → (∀ rest, ppAct t rest a = (t1, rest)) →
      RelW seen g s1 t1 → ∃ (lk : List (Option Nat)) (g' : Ghost) (t1 : Sys),
      (∀ j ∈ lk.filterMap id, j ∉ seen) ∧ (lk.filterMap id).Nodup ∧
      (lk.filterMap id).length + ((ppAct s lks a).2.filterMap id).length ≤ (lks.filterMap id).length ∧
      (∀ rest, ppAct t (lk ++ rest) a = (t1, rest)) ∧ RelW (seen ++ lk.filterMap id) g' (ppAct s lks a).1 t1 := by
    intro s1 t1 e1 e2 hr
    refine ⟨[], g, t1, by simp, by simp, by rw [e1]; simp, by simpa using e2, by rw [e1]; simpa using hr⟩
  cases a with
  | park i => exact none_case s t rfl (fun _ => rfl) h
  | finDone => exact none_case s t rfl (fun _ => rfl) h
  | finSend l =>
    rcases h.cur with ⟨c1, c2⟩ | ⟨w, x, c1, c2, c3⟩
    · refine none_case { s with crash := true } { t with crash := true } (by simp [ppAct, c1])
        (fun _ => by simp [ppAct, c2]) ?_
      exact h.frame rfl rfl rfl rfl h.next h.dq h.pq h.pp h.ret h.ldr h.log h.succ h.errs rfl
    · refine none_case { s with wk := pushW s.wk w (finTok l), cur := none }
        { t with wk := pushW t.wk (lastOf x) (finTok l), cur := none } (by simp [ppAct, c1])
        (fun _ => by simp [ppAct, c3]) ?_
      exact relW_push h c2 (finTok l) rfl rfl (Or.inr ⟨rfl, rfl, c3⟩) h.next h.dq h.pq h.pp h.ret h.ldr h.log h.succ
        h.errs h.crash
  | emit i l fin =>
    rcases h.cur with ⟨c1, c2⟩ | ⟨w, x, c1, c2, c3⟩
    · -- no worker bound: a lookup
      cases lks with
      | nil =>
        have hs1 : ppAct s [] (.emit i l fin) = ({ s with errs := if fin then s.errs else s.errs ++ [i] }, []) := by
          simp [ppAct, c1]
        refine ⟨[none], g, { t with errs := if fin then t.errs else t.errs ++ [i] }, by simp, by simp,
          by rw [hs1]; simp, fun rest => by simp [ppAct, c2], ?_⟩
        rw [hs1]
        have hr : RelW seen g { s with errs := if fin then s.errs else s.errs ++ [i] }
            { t with errs := if fin then t.errs else t.errs ++ [i] } :=
          h.frame rfl rfl rfl rfl h.next h.dq h.pq h.pp h.ret h.ldr h.log h.succ (by simp only [h.errs]) h.crash
        simpa using hr
      | cons o r =>
        cases o with
        | none =>
          have hs1 : ppAct s (none :: r) (.emit i l fin) =
              ({ s with errs := if fin then s.errs else s.errs ++ [i] }, r) := by simp [ppAct, c1]
          refine ⟨[none], g, { t with errs := if fin then t.errs else t.errs ++ [i] }, by simp, by simp,
            by rw [hs1]; simp, fun rest => by simp [ppAct, c2], ?_⟩
          rw [hs1]
          have hr : RelW seen g { s with errs := if fin then s.errs else s.errs ++ [i] }
              { t with errs := if fin then t.errs else t.errs ++ [i] } :=
            h.frame rfl rfl rfl rfl h.next h.dq h.pq h.pp h.ret h.ldr h.log h.succ (by simp only [h.errs]) h.crash
          simpa using hr
        | some w =>
          have hlt : seen.length < 64 := by simp at hb; omega
          obtain ⟨hfr, _, _⟩ := newId_fresh h.idn hlt w
          have hstep : ∀ rest, ppAct t ([some (newId w seen)] ++ rest) (.emit i l fin) =
              ({ t with cur := some (newId w seen),
                        wk := pushW (pushW t.wk (newId w seen) synTok) (newId w seen) (mkTok i l fin) }, rest) := by
            intro rest; simp [ppAct, c2]
          have hs1 : ppAct s (some w :: r) (.emit i l fin) =
              ({ s with cur := some w, wk := pushW (pushW s.wk w synTok) w (mkTok i l fin) }, r) := by
            simp [ppAct, c1]
          have hbound : (seen ++ [newId w seen]).length + (r.filterMap id).length ≤ 64 := by
            simp at hb ⊢; omega
          have fresh_case : s.wk w = {} →
              RelW (seen ++ [newId w seen]) (setG g w (some (newId w seen, [])))
                { s with cur := some w, wk := pushW (pushW s.wk w synTok) w (mkTok i l fin) }
                { t with cur := some (newId w seen),
                         wk := pushW (pushW t.wk (newId w seen) synTok) (newId w seen) (mkTok i l fin) } :=
            fun hw0 => relW_openF h w c2 hlt (mkTok i l fin) hw0 rfl rfl rfl rfl h.next h.dq h.pq h.pp h.ret h.ldr
              h.log h.succ h.errs h.crash
          cases hg : g w with
          | none =>
            have hw0 : s.wk w = {} := by have := h.wk w; rw [hg] at this; exact this
            exact ⟨[some (newId w seen)], _, _, by simpa using hfr, by simp, by rw [hs1]; simp; omega, hstep,
              by rw [hs1]; simpa using fresh_case hw0⟩
          | some xx =>
            obtain ⟨a, L⟩ := xx
            by_cases hdr : L = [] ∧ (t.wk a).inq = []
            · obtain ⟨hL, hi⟩ := hdr
              subst hL
              obtain ⟨d1, d2⟩ := h.drained w a hg hi (by rw [c2]; simp)
              have hw0 : s.wk w = {} := by
                have := h.wk w; rw [hg] at this; rw [this]
                simp only [mergeW, hi, d1, d2, inqOf, List.flatMap_nil, List.append_nil]
              exact ⟨[some (newId w seen)], _, _, by simpa using hfr, by simp, by rw [hs1]; simp; omega, hstep,
                by rw [hs1]; simpa using fresh_case hw0⟩
            · have hne : L ≠ [] ∨ (t.wk a).inq ≠ [] := by
                by_cases hL : L = []
                · exact Or.inr (fun e => hdr ⟨hL, e⟩)
                · exact Or.inl hL
              have := relW_openA h w a L hg hne c2 hlt (mkTok i l fin)
                (s' := { s with cur := some w, wk := pushW (pushW s.wk w synTok) w (mkTok i l fin) })
                (t' := { t with cur := some (newId w seen),
                                wk := pushW (pushW t.wk (newId w seen) synTok) (newId w seen) (mkTok i l fin) })
                rfl rfl rfl rfl h.next h.dq h.pq h.pp h.ret h.ldr h.log h.succ h.errs h.crash
              exact ⟨[some (newId w seen)], _, _, by simpa using hfr, by simp, by rw [hs1]; simp; omega, hstep,
                by rw [hs1]; simpa using this⟩
    · refine none_case { s with wk := pushW s.wk w (mkTok i l fin) }
        { t with wk := pushW t.wk (lastOf x) (mkTok i l fin) } (by simp [ppAct, c1]) (fun _ => by simp [ppAct, c3]) ?_
      exact relW_push h c2 _ rfl rfl (Or.inl ⟨rfl, rfl⟩) h.next h.dq h.pq h.pp h.ret h.ldr h.log h.succ h.errs h.crash

theorem sim_ppActs (as : List PartProd.Action) : ∀ (seen : List Nat) (g : Ghost) (s t : Sys) (lks : List (Option Nat)),
    RelW seen g s t → seen.length + (lks.filterMap id).length ≤ 64 →
    ∃ (lks' : List (Option Nat)) (g' : Ghost), (∀ j ∈ lks'.filterMap id, j ∉ seen) ∧ (lks'.filterMap id).Nodup ∧
      (lks'.filterMap id).length ≤ (lks.filterMap id).length ∧
      RelW (seen ++ lks'.filterMap id) g' (ppActs s lks as) (ppActs t lks' as) := by
  induction as with
  | nil => intro seen g s t lks h _; exact ⟨[], g, by simp, by simp, by simp, by simpa [ppActs] using h⟩
  | cons a r ih =>
    intro seen g s t lks h hb
    obtain ⟨lk, g1, t1, f1, f2, f3, f4, f5⟩ := sim_ppAct h lks a hb
    obtain ⟨lks2, g2, k1, k2, k4, k3⟩ := ih (seen ++ lk.filterMap id) g1 (ppAct s lks a).1 t1 (ppAct s lks a).2 f5
      (by simp only [List.length_append]; omega)
    refine ⟨lk ++ lks2, g2, ?_, ?_, by simp only [List.filterMap_append, List.length_append]; omega, ?_⟩
    · intro j hj
      rw [List.filterMap_append] at hj
      rcases List.mem_append.1 hj with e | e
      · exact f1 j e
      · exact fun hm => k1 j e (List.mem_append_left _ hm)
    · rw [List.filterMap_append]
      exact List.nodup_append.2 ⟨f2, k2, fun x hx y hy e => k1 y hy (by rw [← e]; exact List.mem_append_right _ hx)⟩
    · simp only [ppActs, f4 lks2]
      rw [List.filterMap_append, ← List.append_assoc]
      exact k3

theorem sim_ppRecv {M : Nat} {seen : List Nat} {g : Ghost} {s t s' : Sys} (hM : 1 ≤ M) (h : Rel M seen g s t)
    {lks : List (Option Nat)} (hb : seen.length + (lks.filterMap id).length ≤ 64)
    (hs : sysStep M s (.ppRecv lks) = some s') :
    ∃ lks' g' t', sysStep M t (.ppRecv lks') = some t' ∧ Rel M (seen ++ lookupsOf (.ppRecv lks')) g' s' t' ∧
      (lookupsOf (.ppRecv lks')).length ≤ (lookupsOf (.ppRecv lks)).length ∧
      (∀ j ∈ lookupsOf (.ppRecv lks'), j ∉ seen) ∧ (lookupsOf (.ppRecv lks')).Nodup := by
  cases hq : s.pq with
  | nil => simp [sysStep, hq] at hs
  | cons x r =>
    have hq' : t.pq = x :: r := by rw [← h.pq]; exact hq
    have hs0 := hs
    simp only [sysStep, hq, Option.some.injEq] at hs
    have h0 : RelW seen g { s with pq := r, pp := (PartProd.recv s.pp (toPP x)).1 }
        { t with pq := r, pp := (PartProd.recv t.pp (toPP x)).1 } :=
      h.toRelW.frame rfl rfl rfl rfl h.next h.dq rfl (by simp only [h.pp]) h.ret h.ldr h.log h.succ h.errs h.crash
    obtain ⟨lks', g', k1, k2, k4, k3⟩ := sim_ppActs (PartProd.recv s.pp (toPP x)).2 seen g _ _ lks h0 hb
    rw [hs] at k3
    have ht : sysStep M t (.ppRecv lks') = some (ppActs { t with pq := r, pp := (PartProd.recv t.pp (toPP x)).1 } lks'
        (PartProd.recv s.pp (toPP x)).2) := by
      simp only [sysStep, hq', h.pp]
    have hcinv := chain_step hM (.ppRecv lks') (fun w hw => k1 w (by simpa [lookupsOf] using hw)) h.cinv ht
    refine ⟨lks', g', _, ht, ?_, by simpa [lookupsOf] using k4, by simpa [lookupsOf] using k1, by simpa [lookupsOf] using k2⟩
    exact { toRelW := by simpa [lookupsOf] using k3, cinv := hcinv, p0 := p0Inv_step hM h.p0 hs0 }

end Lemmas.C02sys
