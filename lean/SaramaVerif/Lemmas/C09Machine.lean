import SaramaVerif.Model.CodecMachine
import SaramaVerif.Lemmas.C09Fmt
/-
  The operational machines (call sequences on prepEncoder / realEncoder) compute what the schema interpreters
  `size` / `enc` denote.
-/
namespace Lemmas.C09
open Model.Codec

theorem runPrepFrom_append (s : PrepSt) (a b : List Tok) : runPrepFrom s (a ++ b) = runPrepFrom (runPrepFrom s a) b := by
  simp only [runPrepFrom, List.foldl_append]

theorem runRealFrom_append (s : RealSt) (a b : List Tok) : runRealFrom s (a ++ b) = runRealFrom (runRealFrom s a) b := by
  simp only [runRealFrom, List.foldl_append]

theorem prep_countTok (s : PrepSt) (c : Count) (n : Option Nat) :
    runPrepFrom s (countTok c n) = { s with length := s.length + (prepCount c n : Nat) } := by
  cases c <;> cases n <;>
    simp [runPrepFrom, countTok, prepStep, prepCount, sizeP, prepVarint, prepUVarint]

theorem real_countTok (s : RealSt) (c : Count) (n : Option Nat) :
    runRealFrom s (countTok c n) = { s with buf := s.buf ++ putCount c n } := by
  cases c <;> cases n <;> simp [runRealFrom, countTok, realStep, putCount, encP, putCompactArrayLength]

/-- the prep machine on the call sequence of a schema adds `size` (both for fresh and for re-used length fields) -/
theorem prep_toks (fresh : Bool) (f : Fmt) (ver : Nat) : ∀ (v : Val) (s : PrepSt),
    runPrepFrom s (toks fresh f ver v) = { s with length := s.length + (size f ver v : Nat) } := by
  induction f with
  | prim p => intro v s; simp [runPrepFrom, toks, prepStep, size]
  | unit => intro v s; simp [runPrepFrom, toks, size]
  | seq a b iha ihb =>
    intro v s
    cases v <;> simp only [toks, size, runPrepFrom, List.foldl_nil, Int.natCast_zero, Int.add_zero]
    case pair x y =>
      have := runPrepFrom_append s (toks fresh a ver x) (toks fresh b ver y)
      simp only [runPrepFrom] at this
      rw [this]
      have h1 := iha x s
      simp only [runPrepFrom] at h1
      rw [h1]
      have h2 := ihb y { s with length := s.length + (size a ver x : Nat) }
      simp only [runPrepFrom] at h2
      rw [h2]
      simp only [Int.natCast_add, Int.add_assoc]
  | ite lo hi a b iha ihb =>
    intro v s
    simp only [toks, size]
    split
    · exact iha v s
    · exact ihb v s
  | arr c e ih =>
    intro v s
    cases v <;> simp only [toks, size, runPrepFrom, List.foldl_nil, Int.natCast_zero, Int.add_zero]
    case null => exact prep_countTok s c none
    case list vs =>
      have hA := runPrepFrom_append s (countTok c (some vs.length)) ((vs.map (toks fresh e ver)).flatten)
      simp only [runPrepFrom] at hA
      rw [hA]
      have hC := prep_countTok s c (some vs.length)
      simp only [runPrepFrom] at hC
      rw [hC]
      have key : ∀ (vs : List Val) (s : PrepSt),
          List.foldl prepStep s ((vs.map (toks fresh e ver)).flatten) =
            { s with length := s.length + ((vs.map (size e ver)).sum : Nat) } := by
        intro vs
        induction vs with
        | nil => intro s; simp
        | cons v vs ihv =>
          intro s
          simp only [List.map_cons, List.flatten_cons, List.foldl_append, List.sum_cons]
          have h1 := ih v s
          simp only [runPrepFrom] at h1
          rw [h1, ihv]
          simp only [Int.natCast_add, Int.add_assoc]
      rw [key]
      simp only [Int.natCast_add, Int.add_assoc]
  | len32 f ih =>
    intro v s
    simp only [toks, size, runPrepFrom, List.foldl_append, List.foldl_cons, List.foldl_nil, List.cons_append, List.nil_append]
    have h1 := ih v (prepStep s (.push .len32 0))
    simp only [runPrepFrom] at h1
    rw [h1]
    simp only [prepStep, reserveLength, Int.natCast_add]
    congr 1; omega
  | varlen f ih =>
    intro v s
    simp only [toks, size, runPrepFrom, List.foldl_append, List.foldl_cons, List.foldl_nil, List.cons_append, List.nil_append]
    have h1 := ih v (prepStep s (.push .varlen (if fresh = true then 0 else ((size f ver v : Nat) : Int))))
    simp only [runPrepFrom] at h1
    rw [h1]
    simp only [prepStep, adjustLength, reserveLength, Int.natCast_add]
    congr 1
    have e : s.length + ((prepVarint (if fresh = true then 0 else ((size f ver v : Nat) : Int)) : Nat) : Int) + (size f ver v : Nat) -
        s.length - ((prepVarint (if fresh = true then 0 else ((size f ver v : Nat) : Int)) : Nat) : Int) = ((size f ver v : Nat) : Int) := by omega
    rw [e]; omega
  | crc p f ih =>
    intro v s
    simp only [toks, size, runPrepFrom, List.foldl_append, List.foldl_cons, List.foldl_nil, List.cons_append, List.nil_append]
    have h1 := ih v (prepStep s (.push (.crc p) 0))
    simp only [runPrepFrom] at h1
    rw [h1]
    simp only [prepStep, reserveLength, Int.natCast_add]
    congr 1; omega

theorem patch_reserved (a z b fld : Bytes) (h : z.length = fld.length) :
    patch (a ++ z ++ b) a.length fld = a ++ fld ++ b := by
  unfold patch
  have e1 : (a ++ z ++ b).take a.length = a := by rw [List.append_assoc, List.take_left]
  have e2 : (a ++ z ++ b).drop (a.length + fld.length) = b := by
    rw [← h, ← List.length_append, List.drop_left]
  rw [e1, e2]

theorem zeros_length (n : Nat) : (zeros n).length = n := by simp [zeros]

/-- the real machine on the call sequence of a schema (length fields holding their body sizes) appends `enc` -/
theorem real_toks (f : Fmt) (ver : Nat) : ∀ (v : Val) (s : RealSt),
    runRealFrom s (toks false f ver v) = { s with buf := s.buf ++ enc f ver v } := by
  induction f with
  | prim p => intro v s; simp [runRealFrom, toks, realStep, enc]
  | unit => intro v s; simp [runRealFrom, toks, enc]
  | seq a b iha ihb =>
    intro v s
    cases v <;> simp only [toks, enc, runRealFrom, List.foldl_nil, List.append_nil]
    case pair x y =>
      have := runRealFrom_append s (toks false a ver x) (toks false b ver y)
      simp only [runRealFrom] at this
      rw [this]
      have h1 := iha x s
      simp only [runRealFrom] at h1
      rw [h1]
      have h2 := ihb y { s with buf := s.buf ++ enc a ver x }
      simp only [runRealFrom] at h2
      rw [h2]
      simp only [List.append_assoc]
  | ite lo hi a b iha ihb =>
    intro v s
    simp only [toks, enc]
    split
    · exact iha v s
    · exact ihb v s
  | arr c e ih =>
    intro v s
    cases v <;> simp only [toks, enc, runRealFrom, List.foldl_nil, List.append_nil]
    case null => exact real_countTok s c none
    case list vs =>
      have hA := runRealFrom_append s (countTok c (some vs.length)) ((vs.map (toks false e ver)).flatten)
      simp only [runRealFrom] at hA
      rw [hA]
      have hC := real_countTok s c (some vs.length)
      simp only [runRealFrom] at hC
      rw [hC]
      have key : ∀ (vs : List Val) (s : RealSt),
          List.foldl realStep s ((vs.map (toks false e ver)).flatten) =
            { s with buf := s.buf ++ (vs.map (enc e ver)).flatten } := by
        intro vs
        induction vs with
        | nil => intro s; simp
        | cons v vs ihv =>
          intro s
          simp only [List.map_cons, List.flatten_cons, List.foldl_append]
          have h1 := ih v s
          simp only [runRealFrom] at h1
          rw [h1, ihv]
          simp only [List.append_assoc]
      rw [key]
      simp only [List.append_assoc]
  | len32 f ih =>
    intro v s
    simp only [toks, enc, runRealFrom, List.foldl_append, List.foldl_cons, List.foldl_nil, List.cons_append, List.nil_append]
    have h1 := ih v (realStep s (.push .len32 0))
    simp only [runRealFrom] at h1
    rw [h1]
    simp only [realStep, reserveLength, putLen32]
    congr 1
    rw [patch_reserved s.buf (zeros (4 : Int).toNat) (enc f ver v) _ (by simp [zeros_length, putInt_length])]
    simp only [List.length_append, zeros_length, List.append_assoc]
    congr 3
    simp; omega
  | varlen f ih =>
    intro v s
    simp only [toks, enc, runRealFrom, List.foldl_append, List.foldl_cons, List.foldl_nil, List.cons_append, List.nil_append,
      Bool.false_eq_true, ↓reduceIte]
    have h1 := ih v (realStep s (.push .varlen ((size f ver v : Nat) : Int)))
    simp only [runRealFrom] at h1
    rw [h1]
    simp only [realStep, reserveLength, putVarLen]
    congr 1
    rw [patch_reserved s.buf _ (enc f ver v) _ (by simp [zeros_length, prepVarint])]
    simp only [List.append_assoc]
  | crc p f ih =>
    intro v s
    simp only [toks, enc, runRealFrom, List.foldl_append, List.foldl_cons, List.foldl_nil, List.cons_append, List.nil_append]
    have h1 := ih v (realStep s (.push (.crc p) 0))
    simp only [runRealFrom] at h1
    rw [h1]
    simp only [realStep, reserveLength, putCrc]
    congr 1
    have hd : (s.buf ++ zeros (4 : Int).toNat ++ enc f ver v).drop (s.buf.length + 4) = enc f ver v := by
      have : s.buf.length + 4 = (s.buf ++ zeros (4 : Int).toNat).length := by simp [zeros_length]
      rw [this, List.drop_left]
    rw [hd, patch_reserved s.buf (zeros (4 : Int).toNat) (enc f ver v) _ (by simp [zeros_length, be_length])]
    simp only [List.append_assoc]

end Lemmas.C09
