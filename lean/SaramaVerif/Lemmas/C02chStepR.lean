/-
  C02 composition, handover chain: the broker processes the set at the bridge of a worker (log append).
-/
import SaramaVerif.Lemmas.C02chStepH

set_option linter.unusedSimpArgs false

namespace Lemmas.C02sys
open Model Model.Pipeline

def brokerSw (s : Sys) (w : Nat) (vd : Pipeline.Verdict) (sent : List Tok) : Sys :=
  { s with log := if vd.appends then s.log ++ dataIds sent else s.log,
           wk := setW s.wk w { s.wk w with pend := some (vd, s.log.length) } }

theorem brokerW_split {M : Nat} {s s' : Sys} {w : Nat} {vd : Pipeline.Verdict}
    (h : sysStep M s (.broker w vd) = some s') :
    ∃ sent rest, (s.wk w).bp.sets = sent :: rest ∧ (s.wk w).pend = none ∧ s' = brokerSw s w vd sent := by
  simp only [sysStep] at h
  split at h
  · rename_i sent rest hs hp
    split at h
    · cases h
    · exact ⟨sent, rest, hs, hp, by simpa [brokerSw] using h.symm⟩
  · cases h

/-- the set at the bridge of any worker is the front of `gw` (it is empty unless the worker is the current one
    in normal mode) -/
theorem sent_prefixC {M : Nat} {s : Sys} {olds : List Nat} {v : View} (h : GoodC M s olds v) (w : Nat)
    (sent : List Tok) (hs : (s.wk w).bp.sets = [sent]) : ∃ rest, v.gw = sent ++ rest := by
  have hin : insW s w = sent ++ ((s.wk w).bp.buffer ++ (s.wk w).bp.wait.toList) := by
    simp [insW, insideB, Props.C02bp.inside, hs]
  have hnil : insW s w = [] → ∃ rest, v.gw = sent ++ rest := by
    intro e
    rw [e] at hin
    have : sent = [] := (List.append_eq_nil_iff.1 hin.symm).1
    exact ⟨v.gw, by simp [this]⟩
  by_cases ho : w ∈ olds
  · exact hnil (h.conc.oldok w ho).1
  · by_cases hc : s.cur = some w
    · obtain ⟨gw, tc, g, hcur, hv⟩ := h.rep
      cases hcur with
      | none h1 => rw [hc] at h1; cases h1
      | closed c h1 h2 h3 _ => rw [hc] at h1; cases h1; exact hnil h3
      | failed c h1 h2 h3 h4 h5 => rw [hc] at h1; cases h1; exact hnil h4
      | normal c mk G h1 h2 h3 h4 h5 h6 =>
        rw [hc] at h1; cases h1
        exact ⟨(s.wk w).bp.buffer ++ (s.wk w).bp.wait.toList ++ G, by rw [hv]; simp [hin]⟩
    · have := h.conc.fresh w ho hc
      rw [this] at hs; cases hs

theorem goodC_broker {M : Nat} {s s' : Sys} {olds : List Nat} {v : View} {w : Nat} {vd : Pipeline.Verdict}
    (h : GoodC M s olds v) (hs : sysStep M s (.broker w vd) = some s') : GoodC M s' olds v := by
  obtain ⟨sent, rest, hsets, hpend, rfl⟩ := brokerW_split hs
  have hrest : rest = [] := by
    have := (h.conc.pinv w).one; rw [hsets] at this
    simp only [List.length_cons] at this
    exact List.eq_nil_of_length_eq_zero (by omega)
  subst hrest
  have hused : w ∈ olds ∨ s.cur = some w := by
    by_cases ho : w ∈ olds
    · exact Or.inl ho
    · by_cases hc : s.cur = some w
      · exact Or.inr hc
      · have := h.conc.fresh w ho hc
        rw [this] at hsets; cases hsets
  have hp1 := partsC_sameW h.rep h.conc w hused ⟨(s.wk w).inq, (s.wk w).bp, some (vd, s.log.length)⟩
    ⟨rfl, rfl, rfl, rfl⟩ (h.conc.pinv w) (fun hb => hb)
  have hp2 := partsC_congr (s' := brokerSw s w vd sent) hp1.1 hp1.2 rfl rfl rfl rfl rfl rfl rfl
  obtain ⟨rest, hgw⟩ := sent_prefixC h w sent hsets
  have hsd : ∀ t ∈ sent, t.kind = .data := fun t ht => h.vinv.gdata t (by rw [hgw]; exact List.mem_append_left _ ht)
  have hids : dataIds sent = sent.map (·.id) := dataIds_allData hsd
  have hsorted := gw_sorted h.vinv
  rw [hgw, List.pairwise_append] at hsorted
  have hl := h.log
  have F3 : ∀ x ∈ sent, LiveId v x.id := fun x hx =>
    ⟨x, Or.inl (by rw [hgw]; exact List.mem_append_left _ hx), rfl⟩
  have F1 : ∀ x ∈ sent, ∀ a, LiveId v a → a < x.id → a ∈ sent.map (·.id) := by
    intro x hx a ⟨y, hy, hya⟩ hax
    have hxg : x ∈ v.gw := by rw [hgw]; exact List.mem_append_left _ hx
    rcases hy with hy | hy
    · rw [hgw] at hy
      rcases List.mem_append.1 hy with hy | hy
      · exact List.mem_map.2 ⟨y, hy, hya⟩
      · have := hsorted.2.2 x hx y hy; omega
    · have := h.vinv.low x hxg y hy; omega
  have F2 : (sent.map (·.id)).Pairwise (· < ·) := by
    rw [List.pairwise_map]; exact hsorted.1
  have hWw : (brokerSw s w vd sent).wk w = ⟨(s.wk w).inq, (s.wk w).bp, some (vd, s.log.length)⟩ := by
    simp [brokerSw, setW]
  have hWo : ∀ u, u ≠ w → (brokerSw s w vd sent).wk u = s.wk u := by
    intro u hu; simp [brokerSw, setW, hu]
  have hlen : s.log.length ≤ (brokerSw s w vd sent).log.length := by
    simp only [brokerSw]; split <;> simp
  -- the pending-answer clause
  have hpendC : ∀ u vd' base, ((brokerSw s w vd sent).wk u).pend = some (vd', base) →
      ∃ sent', ((brokerSw s w vd sent).wk u).bp.sets = [sent'] ∧ (sent' ≠ [] → (∀ p ∈ s.succ, p.2 < base) ∧
        (vd' = .ok → base + sent'.length ≤ (brokerSw s w vd sent).log.length)) := by
    intro u vd' base hp
    by_cases e : u = w
    · subst e
      rw [hWw] at hp ⊢
      simp only [Option.some.injEq, Prod.mk.injEq] at hp
      obtain ⟨rfl, rfl⟩ := hp
      refine ⟨sent, hsets, fun _ => ⟨hl.S5, fun hok => ?_⟩⟩
      subst hok
      simp [brokerSw, Pipeline.Verdict.appends, hids]
    · rw [hWo u e] at hp ⊢
      obtain ⟨sent', a, b⟩ := hl.pend u vd' base hp
      exact ⟨sent', a, fun hne => ⟨(b hne).1, fun hok => by have := (b hne).2 hok; omega⟩⟩
  refine ⟨hp2.1, h.vinv, hp2.2, ?_⟩
  cases ha : vd.appends with
  | false =>
    have hlog : (brokerSw s w vd sent).log = s.log := by simp [brokerSw, ha]
    exact ⟨by rw [hlog]; exact hl.K, by rw [hlog]; exact hl.J, hl.S1, hl.S3, by rw [hlog]; exact hl.S5, hl.S6,
      hl.idlt, by rw [hlog]; exact hl.Llt, hpendC⟩
  | true =>
    have hlog : (brokerSw s w vd sent).log = s.log ++ sent.map (·.id) := by simp [brokerSw, ha, hids]
    refine ⟨?_, ?_, hl.S1, hl.S3, ?_, hl.S6, hl.idlt, ?_, hpendC⟩
    · rw [hlog]; intro b hb a hla hab
      rcases List.mem_append.1 hb with hb | hb
      · exact List.mem_append_left _ (hl.K b hb a hla hab)
      · obtain ⟨x, hx, rfl⟩ := List.mem_map.1 hb
        exact List.mem_append_right _ (F1 x hx a hla hab)
    · rw [hlog]
      refine J_append hl.J F2 ?_
      intro b hb a ha' hab
      obtain ⟨x, hx, rfl⟩ := List.mem_map.1 ha'
      exact hl.K b hb x.id (F3 x hx) hab
    · rw [hlog]; intro p hp; have := hl.S5 p hp; simp only [List.length_append]; omega
    · rw [hlog]; intro b hb
      rcases List.mem_append.1 hb with hb | hb
      · exact hl.Llt b hb
      · obtain ⟨x, hx, rfl⟩ := List.mem_map.1 hb
        exact hl.idlt x.id (F3 x hx)

end Lemmas.C02sys
