import SaramaVerif.Lemmas.C08StickyAssign
/-
  Putting the sticky op model together: every accepted run keeps the invariant, the initial state has it for
  ANY prepopulated ownership, and the final plan is valid.
-/
namespace Model.Balance

theorem SInv.step {ms : Members} {ts : Topics} {env : SEnv} (wf : SWf ms ts env) {st : SState}
    (inv : SInv env st) (op : SOp) (hg : guard .guarded env st op = true) :
    SInv env (apply .guarded env st op) := by
  cases op with
  | assignAll us => exact inv.assignAll wf hg
  | park m => exact inv.park hg
  | snapshot => exact inv.snapshot hg
  | movePrev p q => exact inv.movePrev wf hg
  | moveOther p q => exact inv.moveOther wf hg
  | revert => exact inv.revert hg

theorem SInv.run {ms : Members} {ts : Topics} {env : SEnv} (wf : SWf ms ts env) :
    ∀ (ops : List SOp) (st st' : SState), SInv env st → runOps .guarded env st ops = some st' → SInv env st' := by
  intro ops
  induction ops with
  | nil => intro st st' inv h; simp only [runOps, Option.some.injEq] at h; subst h; exact inv
  | cons op rest ih =>
    intro st st' inv h
    rw [runOps] at h
    by_cases hg : guard .guarded env st op = true
    · rw [if_pos hg] at h
      exact ih _ _ (inv.step wf op hg) h
    · rw [if_neg hg] at h; cases h

/-- `assigned` is never reset -/
theorem assigned_mono (v : Variant) (env : SEnv) (st : SState) (op : SOp) (h : st.assigned = true) :
    (apply v env st op).assigned = true := by
  cases op with
  | assignAll us => rfl
  | park m => exact h
  | snapshot => exact h
  | movePrev p q =>
    simp only [apply]
    cases prevOf env p with
    | none => exact h
    | some pm => simp only; unfold processMove; cases ownerGet st.owner q <;> exact h
  | moveOther p q =>
    simp only [apply]
    cases newConsumerFor st.cur env.pot p with
    | none => exact h
    | some pm => simp only; unfold processMove; cases ownerGet st.owner q <;> exact h
  | revert =>
    simp only [apply]
    cases v <;> cases st.snap <;> exact h

/-! ### adding the fixed assignments back -/

theorem addFixed_spec {P : Member → TP → Prop} : ∀ (fixed cur : Asg), (AL.keys cur ++ AL.keys fixed).Nodup →
    PlanAll P cur → PlanAll P fixed →
    (∀ x, AL.countAll (addFixed cur fixed) x = AL.countAll cur x + AL.countAll fixed x) ∧
    AL.keys (addFixed cur fixed) = AL.keys cur ++ AL.keys fixed ∧
    PlanAll P (addFixed cur fixed) := by
  intro fixed
  induction fixed with
  | nil => intro cur _ hc _; exact ⟨fun x => by simp [addFixed, AL.countAll], by simp [addFixed, AL.keys], hc⟩
  | cons e r ih =>
    intro cur hnd hc hf
    obtain ⟨k, v⟩ := e
    have hk : k ∉ AL.keys cur := by
      intro hk
      exact (List.nodup_append.mp hnd).2.2 k hk k (by simp [AL.keys]) rfl
    have hks : AL.keys (AL.set cur k v) = AL.keys cur ++ [k] := AL.keys_set_of_not_mem v hk
    have hnd' : (AL.keys (AL.set cur k v) ++ AL.keys r).Nodup := by
      rw [hks, List.append_assoc]
      simpa [AL.keys] using hnd
    obtain ⟨h1, h2, h3⟩ := ih (AL.set cur k v) hnd'
      (planAll_set hc k v (fun tp htp => hf (k, v) List.mem_cons_self tp htp))
      (fun e he => hf e (List.mem_cons_of_mem _ he))
    have e0 : addFixed cur ((k, v) :: r) = addFixed (AL.set cur k v) r := by simp [addFixed]
    rw [e0]
    refine ⟨?_, ?_, h3⟩
    · intro x
      rw [h1 x, AL.countAll_set_of_not_mem v x hk]
      simp only [AL.countAll]; omega
    · rw [h2, hks]; simp [AL.keys]

/-- the plan assembled from a state that satisfies the invariant is valid -/
theorem SInv.finish_valid {ms : Members} {ts : Topics} {env : SEnv} (wf : SWf ms ts env) {st : SState}
    (inv : SInv env st) (hass : st.assigned = true) :
    validPlan ms ts (finish .guarded st) = true := by
  have c := inv.core
  obtain ⟨hcnt, hkeys, hall⟩ := addFixed_spec st.fixed st.cur c.keysNodup c.holdsC c.holdsF
  have hfin : finish .guarded st = addFixed st.cur st.fixed := by unfold finish; rfl
  rw [hfin]
  apply validPlan_of wf.ids
  · intro k hk
    rw [hkeys] at hk
    have := c.keysMem k hk
    rw [wf.pot_eq, keys_potOf] at this
    obtain ⟨e, he, hek⟩ := List.mem_map.mp this
    exact ⟨e, he, hek⟩
  · intro e he tp htp'
    have := hall e he tp htp'
    rw [wf.pot_eq, mem_get_potOf wf.ids wf.tkeys] at this
    exact ⟨this.1, ((mem_allParts wf.tkeys tp).mp this.2).2⟩
  · intro e he hs p hp
    have hpart : ((e.1, p) : TP) ∈ env.parts := by
      rw [wf.parts_eq]; unfold allParts; rw [List.mem_flatMap]
      exact ⟨e, he, List.mem_map.mpr ⟨p, hp, rfl⟩⟩
    have hcons : consumersOf env.pot (e.1, p) ≠ [] := by
      rw [consumersOf_ne_nil_iff]
      unfold hasSubscriber at hs
      rw [List.any_eq_true] at hs
      obtain ⟨e', he', hc'⟩ := hs
      have hin : ((e.1, p) : TP) ∈ AL.get env.pot e'.1 := by
        rw [wf.pot_eq, mem_get_potOf wf.ids wf.tkeys]
        exact ⟨⟨e', he', rfl, List.contains_iff_mem.mp hc'⟩, by rw [← wf.parts_eq]; exact hpart⟩
      exact ⟨_, AL.get_mem hin, hin⟩
    rw [hcnt]
    exact c.once hass _ hpart hcons

/-! ### the initial state, for any prepopulated ownership -/

theorem keepClaim_keys (ms : Members) (ts : Topics) (cur : Asg) (x : TP × Member × Option Member)
    (hk : ∀ m, isMember ms m = true → m ∈ AL.keys cur) : AL.keys (keepClaim ms ts cur x) = AL.keys cur := by
  unfold keepClaim
  split
  · rename_i h
    simp only [Bool.and_eq_true] at h
    exact AL.keys_set_of_mem _ (hk _ h.1.1)
  · rfl

theorem initCur_spec {ms : Members} {ts : Topics} (hids : (ms.map (·.1)).Nodup) (htk : (AL.keys ts).Nodup) :
    ∀ (pp : List (TP × Member × Option Member)) (cur : Asg), AL.keys cur = ms.map (·.1) →
      PlanAll (fun m tp => tp ∈ AL.get (potOf ms ts) m) cur →
      AL.keys (pp.foldl (keepClaim ms ts) cur) = ms.map (·.1) ∧
      PlanAll (fun m tp => tp ∈ AL.get (potOf ms ts) m) (pp.foldl (keepClaim ms ts) cur) ∧
      (∀ p, AL.countAll (pp.foldl (keepClaim ms ts) cur) p ≤ AL.countAll cur p + (pp.map (·.1)).count p) ∧
      (∀ e, e ∈ pp.foldl (keepClaim ms ts) cur → ∀ p, p ∈ e.2 →
        (∃ e0, e0 ∈ cur ∧ e0.1 = e.1 ∧ p ∈ e0.2) ∨
        (∃ x, x ∈ pp ∧ x.1 = p ∧ x.2.1 = e.1 ∧ (allParts ts).contains p = true)) := by
  intro pp
  induction pp with
  | nil => intro cur hk hp; exact ⟨hk, hp, fun p => by simp, fun e he p hp' => Or.inl ⟨e, he, rfl, hp'⟩⟩
  | cons x rest ih =>
    intro cur hk hp
    have hkm : ∀ m, isMember ms m = true → m ∈ AL.keys cur := by
      intro m hm; rw [hk]; exact List.contains_iff_mem.mp hm
    have hk1 : AL.keys (keepClaim ms ts cur x) = ms.map (·.1) := by rw [keepClaim_keys ms ts cur x hkm, hk]
    have hp1 : PlanAll (fun m tp => tp ∈ AL.get (potOf ms ts) m) (keepClaim ms ts cur x) := by
      unfold keepClaim
      split
      · rename_i h
        simp only [Bool.and_eq_true] at h
        apply planAll_set hp
        intro tp htp
        rcases List.mem_append.mp htp with h' | h'
        · exact planAll_get hp _ tp h'
        · simp only [List.mem_singleton] at h'; subst h'
          rw [mem_get_potOf hids htk]
          have hsub := List.contains_iff_mem.mp h.2
          exact ⟨⟨_, AL.get_mem hsub, rfl, hsub⟩, List.contains_iff_mem.mp h.1.2⟩
      · exact hp
    obtain ⟨h1, h2, h3, h4⟩ := ih (keepClaim ms ts cur x) hk1 hp1
    rw [List.foldl_cons]
    have hc1 : ∀ p, AL.countAll (keepClaim ms ts cur x) p ≤ AL.countAll cur p + (if x.1 = p then 1 else 0) := by
      intro p
      unfold keepClaim
      split
      · have h := AL.countAll_set cur x.2.1 (AL.get cur x.2.1 ++ [x.1]) p
        rw [List.count_append] at h
        by_cases hx : x.1 = p
        · subst hx; simp only [List.count_cons_self, List.count_nil, ↓reduceIte] at h ⊢; omega
        · have : List.count p [x.1] = 0 := by rw [List.count_eq_zero]; simp; exact fun e => hx e.symm
          simp only [this, hx, ↓reduceIte] at h ⊢; omega
      · omega
    refine ⟨h1, h2, ?_, ?_⟩
    · intro p
      have := h3 p
      have := hc1 p
      simp only [List.map_cons, List.count_cons, beq_iff_eq]
      omega
    · intro e he p hp'
      rcases h4 e he p hp' with ⟨e0, he0, hk0, hp0⟩ | ⟨y, hy, hy1, hy2, hy3⟩
      · -- e0 is an entry of keepClaim cur x
        unfold keepClaim at he0
        split at he0
        · rename_i h
          simp only [Bool.and_eq_true] at h
          rcases AL.mem_set he0 with rfl | he0
          · rcases List.mem_append.mp hp0 with h' | h'
            · exact Or.inl ⟨_, AL.get_mem h', hk0, h'⟩
            · simp only [List.mem_singleton] at h'
              exact Or.inr ⟨x, List.mem_cons_self, h'.symm, hk0, by rw [h']; exact h.1.2⟩
          · exact Or.inl ⟨e0, he0, hk0, hp0⟩
        · exact Or.inl ⟨e0, he0, hk0, hp0⟩
      · exact Or.inr ⟨y, List.mem_cons_of_mem _ hy, hy1, hy2, hy3⟩

theorem ownerGet_initOwner {ts : Topics} : ∀ (pp : List (TP × Member × Option Member)),
    (pp.map (·.1)).Nodup → ∀ x, x ∈ pp → (allParts ts).contains x.1 = true →
    ownerGet (initOwner ts pp) x.1 = some x.2.1 := by
  intro pp
  induction pp with
  | nil => intro _ x hx; simp at hx
  | cons y rest ih =>
    intro hnd x hx hc
    simp only [List.map_cons, List.nodup_cons] at hnd
    rcases List.mem_cons.mp hx with rfl | hx
    · unfold initOwner ownerGet
      rw [List.filter_cons, if_pos hc, List.map_cons, List.find?_cons_of_pos (by simp)]
      rfl
    · have hne : y.1 ≠ x.1 := by
        intro e
        exact hnd.1 (e ▸ List.mem_map.mpr ⟨x, hx, rfl⟩)
      have := ih hnd.2 x hx hc
      unfold initOwner ownerGet at this ⊢
      rw [List.filter_cons]
      split
      · rw [List.map_cons, List.find?_cons_of_neg (by simpa using hne)]
        exact this
      · exact this

theorem countAll_emptyEntries (ms : Members) (p : TP) :
    AL.countAll (ms.map (fun e => ((e.1, []) : Member × List TP))) p = 0 := by
  induction ms with
  | nil => rfl
  | cons e r ih => simp only [List.map_cons, AL.countAll, List.count_nil, Nat.zero_add]; exact ih

theorem SInv.init {ms : Members} {ts : Topics} {env : SEnv} (wf : SWf ms ts env)
    (pp : List (TP × Member × Option Member)) (hpp : (pp.map (·.1)).Nodup) :
    SInv env (initState ms ts pp) := by
  have hbase : AL.keys (ms.map (fun e => ((e.1, []) : Member × List TP))) = ms.map (·.1) := by
    unfold AL.keys; rw [List.map_map]; rfl
  have hbase0 : ∀ p, AL.countAll (ms.map (fun e => ((e.1, []) : Member × List TP))) p = 0 :=
    fun p => countAll_emptyEntries ms p
  have hbaseP : PlanAll (fun m tp => tp ∈ AL.get (potOf ms ts) m) (ms.map (fun e => ((e.1, []) : Member × List TP))) := by
    intro e he tp htp
    obtain ⟨e', _, rfl⟩ := List.mem_map.mp he
    simp at htp
  obtain ⟨h1, h2, h3, h4⟩ := initCur_spec wf.ids wf.tkeys pp _ hbase hbaseP
  have hcnt : ∀ p, AL.countAll (initCur ms ts pp) p ≤ 1 := by
    intro p
    have := h3 p
    rw [hbase0 p] at this
    have h1' : (pp.map (·.1)).count p ≤ 1 := List.nodup_iff_count.mp hpp p
    unfold initCur; omega
  unfold initState
  refine ⟨⟨?_, ?_, ?_, ?_, ?_, ?_, ?_, ?_⟩, ?_, ?_, ?_⟩
  · simp only [AL.keys, List.map_nil, List.append_nil]
    have : AL.keys (initCur ms ts pp) = ms.map (·.1) := h1
    unfold AL.keys at this; rw [this]; exact wf.ids
  · intro k hk
    simp only [AL.keys, List.map_nil, List.append_nil] at hk
    have : AL.keys (initCur ms ts pp) = ms.map (·.1) := h1
    unfold AL.keys at this; rw [this] at hk
    rw [wf.pot_eq, keys_potOf]; exact hk
  · rw [wf.pot_eq]; exact h2
  · intro e he; simp at he
  · intro p; simp only [AL.countAll, Nat.add_zero]; exact hcnt p
  · intro h; cases h
  · intro e he p hp
    rcases h4 e he p hp with ⟨e0, he0, _, hp0⟩ | ⟨x, hx, hx1, hx2, hx3⟩
    · obtain ⟨e', _, rfl⟩ := List.mem_map.mp he0
      simp at hp0
    · have := ownerGet_initOwner (ts := ts) pp hpp x hx (by rw [hx1]; exact hx3)
      rw [hx1, hx2] at this
      exact this
  · intro e he; simp at he
  · intro _
    refine ⟨rfl, rfl, rfl, ?_⟩
    intro k hk
    rw [wf.pot_eq, keys_potOf] at hk
    have : AL.keys (initCur ms ts pp) = ms.map (·.1) := h1
    rw [this]; exact hk
  · intro s hs; cases hs
  · intro e he; simp at he

end Model.Balance
