import SaramaVerif.Lemmas.C08StickyAL
/-
  The invariant of the sticky op model and its preservation by every accepted operation (guarded variant).
-/
namespace Model.Balance

/-- the core facts about a working assignment, its owner map and the parked assignments -/
structure Core (env : SEnv) (cur : Asg) (owner : OwnerMap) (fixed : Asg) (assigned : Bool) : Prop where
  keysNodup : (AL.keys cur ++ AL.keys fixed).Nodup
  keysMem : ∀ k, k ∈ AL.keys cur ++ AL.keys fixed → k ∈ AL.keys env.pot
  holdsC : PlanAll (fun m tp => tp ∈ AL.get env.pot m) cur
  holdsF : PlanAll (fun m tp => tp ∈ AL.get env.pot m) fixed
  atMost : ∀ p, AL.countAll cur p + AL.countAll fixed p ≤ 1
  once : assigned = true → ∀ p, p ∈ env.parts → consumersOf env.pot p ≠ [] →
    AL.countAll cur p + AL.countAll fixed p = 1
  ownerOK : ∀ e, e ∈ cur → ∀ p, p ∈ e.2 → ownerGet owner p = some e.1
  fixedOnly : ∀ e, e ∈ fixed → ∀ p, p ∈ e.2 → canPartitionParticipate env.pot p = false

theorem consumersOf_ne_nil_iff (pot : Asg) (p : TP) : consumersOf pot p ≠ [] ↔ ∃ e, e ∈ pot ∧ p ∈ e.2 := by
  unfold consumersOf
  constructor
  · intro h
    obtain ⟨m, hm⟩ := List.exists_mem_of_ne_nil _ h
    rw [List.mem_flatMap] at hm
    obtain ⟨e, he, hr⟩ := hm
    rw [List.mem_replicate] at hr
    exact ⟨e, he, List.count_pos_iff.mp (Nat.pos_of_ne_zero hr.1)⟩
  · rintro ⟨e, he, hp⟩ h
    have : e.1 ∈ List.flatMap (fun e => List.replicate (List.count p e.2) e.1) pot := by
      rw [List.mem_flatMap]
      exact ⟨e, he, List.mem_replicate.mpr ⟨Nat.ne_of_gt (List.count_pos_iff.mpr hp), rfl⟩⟩
    rw [h] at this; simp at this

theorem consumers_of_canPart {pot : Asg} {p : TP} (h : canPartitionParticipate pot p = true) :
    consumersOf pot p ≠ [] := by
  unfold canPartitionParticipate at h
  simp only [ge_iff_le, decide_eq_true_eq] at h
  intro h0; rw [h0] at h; simp at h

/-- a partition that can take part in reassignment and is assigned is held in the working assignment, by the
    member the owner map records -/
theorem Core.held {env : SEnv} {cur : Asg} {owner : OwnerMap} {fixed : Asg} (c : Core env cur owner fixed true)
    {q : TP} (hq : q ∈ env.parts) (hcan : canPartitionParticipate env.pot q = true) :
    ∃ old, ownerGet owner q = some old ∧ q ∈ AL.get cur old ∧ old ∈ AL.keys cur ∧ AL.countAll cur q = 1 ∧
      AL.countAll fixed q = 0 := by
  have h1 := c.once rfl q hq (consumers_of_canPart hcan)
  have hf : AL.countAll fixed q = 0 := by
    apply AL.countAll_eq_zero_of_not_mem
    intro e he hx
    have := c.fixedOnly e he q hx
    rw [hcan] at this; cases this
  have hc : AL.countAll cur q = 1 := by omega
  obtain ⟨e, he, hx⟩ := AL.exists_mem_of_countAll_pos (a := cur) (x := q) (by omega)
  have hnd : (AL.keys cur).Nodup := (List.nodup_append.mp c.keysNodup).1
  have hg : AL.get cur e.1 = e.2 := AL.get_of_mem_nodup hnd (by cases e; exact he)
  exact ⟨e.1, c.ownerOK e he q hx, by rw [hg]; exact hx, List.mem_map.mpr ⟨e, he, rfl⟩, hc, hf⟩

/-- one `processPartitionMovement` of an assigned, reassignable partition to a member of the working assignment
    that may take it keeps the core facts -/
theorem Core.move {env : SEnv} {cur : Asg} {owner : OwnerMap} {fixed : Asg} (c : Core env cur owner fixed true)
    {q : TP} {new old : Member} (hown : ownerGet owner q = some old) (hheld : q ∈ AL.get cur old)
    (hold : old ∈ AL.keys cur) (hc1 : AL.countAll cur q = 1)
    (hnew : new ∈ AL.keys cur) (hpot : q ∈ AL.get env.pot new) :
    Core env (AL.set (AL.set cur old ((AL.get cur old).erase q)) new
        (AL.get (AL.set cur old ((AL.get cur old).erase q)) new ++ [q]))
      (ownerSet owner q new) fixed true := by
  -- the intermediate assignment: q taken away from old
  have hk1 : AL.keys (AL.set cur old ((AL.get cur old).erase q)) = AL.keys cur := AL.keys_set_of_mem _ hold
  have hnew1 : new ∈ AL.keys (AL.set cur old ((AL.get cur old).erase q)) := by rw [hk1]; exact hnew
  have hk2 : AL.keys (AL.set (AL.set cur old ((AL.get cur old).erase q)) new
      (AL.get (AL.set cur old ((AL.get cur old).erase q)) new ++ [q])) = AL.keys cur := by
    rw [AL.keys_set_of_mem _ hnew1, hk1]
  have hcnt1 : ∀ p, AL.countAll (AL.set cur old ((AL.get cur old).erase q)) p =
      AL.countAll cur p - (if p = q then 1 else 0) := by
    intro p
    have h := AL.countAll_set cur old ((AL.get cur old).erase q) p
    by_cases hp : p = q
    · subst hp
      have : ((AL.get cur old).erase p).count p = (AL.get cur old).count p - 1 := List.count_erase_self
      have : 0 < (AL.get cur old).count p := List.count_pos_iff.mpr hheld
      simp only [↓reduceIte]; omega
    · have : ((AL.get cur old).erase q).count p = (AL.get cur old).count p :=
        List.count_erase_of_ne (fun e => hp e)
      simp only [hp, ↓reduceIte]; omega
  have hcnt2 : ∀ p, AL.countAll (AL.set (AL.set cur old ((AL.get cur old).erase q)) new
      (AL.get (AL.set cur old ((AL.get cur old).erase q)) new ++ [q])) p = AL.countAll cur p := by
    intro p
    have h := AL.countAll_set (AL.set cur old ((AL.get cur old).erase q)) new
      (AL.get (AL.set cur old ((AL.get cur old).erase q)) new ++ [q]) p
    rw [List.count_append, hcnt1 p] at h
    by_cases hp : p = q
    · subst hp
      simp only [↓reduceIte, List.count_cons_self, List.count_nil] at h
      omega
    · have : List.count p [q] = 0 := by
        rw [List.count_eq_zero]; simp [hp]
      simp only [hp, ↓reduceIte, this] at h
      omega
  have hholds1 : PlanAll (fun m tp => tp ∈ AL.get env.pot m) (AL.set cur old ((AL.get cur old).erase q)) :=
    planAll_set c.holdsC old _ (fun tp htp => planAll_get c.holdsC old tp (List.mem_of_mem_erase htp))
  have howner1 : ∀ e, e ∈ AL.set cur old ((AL.get cur old).erase q) → ∀ p, p ∈ e.2 → ownerGet owner p = some e.1 := by
    intro e he p hp
    rcases AL.mem_set he with rfl | he
    · have hp' : p ∈ AL.get cur old := List.mem_of_mem_erase hp
      exact c.ownerOK _ (AL.get_mem hp') p hp'
    · exact c.ownerOK e he p hp
  have hq0 : AL.countAll (AL.set cur old ((AL.get cur old).erase q)) q = 0 := by
    rw [hcnt1 q, hc1]; simp
  refine ⟨?_, ?_, ?_, c.holdsF, ?_, ?_, ?_, c.fixedOnly⟩
  · rw [hk2]; exact c.keysNodup
  · rw [hk2]; exact c.keysMem
  · apply planAll_set hholds1
    intro tp htp
    rcases List.mem_append.mp htp with h | h
    · exact planAll_get hholds1 new tp h
    · simp only [List.mem_singleton] at h; subst h; exact hpot
  · intro p; rw [hcnt2 p]; exact c.atMost p
  · intro _ p hp hcons; rw [hcnt2 p]; exact c.once rfl p hp hcons
  · intro e he p hp
    by_cases hpq : p = q
    · subst hpq
      rw [ownerGet_set_same]
      rcases AL.mem_set he with rfl | he
      · rfl
      · exact absurd hp (AL.not_mem_of_countAll_zero hq0 he)
    · rw [ownerGet_set_other _ _ _ _ hpq]
      rcases AL.mem_set he with rfl | he
      · rcases List.mem_append.mp hp with h | h
        · exact howner1 _ (AL.get_mem h) p h
        · simp only [List.mem_singleton] at h; exact absurd h hpq
      · exact howner1 e he p hp

end Model.Balance
