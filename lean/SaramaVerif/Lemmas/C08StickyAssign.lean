import SaramaVerif.Lemmas.C08StickyOps
/-
  The loop over `unassignedPartitions`: every partition somebody can take ends up held exactly once.
-/
namespace Model.Balance

/-- the facts the assignment loop maintains about (currentAssignment, currentPartitionConsumer) -/
structure ACore (env : SEnv) (cur : Asg) (owner : OwnerMap) : Prop where
  keysAll : ∀ k, k ∈ AL.keys env.pot → k ∈ AL.keys cur
  holdsC : PlanAll (fun m tp => tp ∈ AL.get env.pot m) cur
  ownerOK : ∀ e, e ∈ cur → ∀ p, p ∈ e.2 → ownerGet owner p = some e.1

theorem assignOne_spec {env : SEnv} {cur : Asg} {owner : OwnerMap} (hpn : (AL.keys env.pot).Nodup)
    (a : ACore env cur owner) {p : TP} (h0 : AL.countAll cur p = 0) :
    ACore env (assignOne env (cur, owner) p).1 (assignOne env (cur, owner) p).2 ∧
    AL.keys (assignOne env (cur, owner) p).1 = AL.keys cur ∧
    ∀ x, AL.countAll (assignOne env (cur, owner) p).1 x =
      AL.countAll cur x + (if x = p ∧ consumersOf env.pot p ≠ [] then 1 else 0) := by
  unfold assignOne
  by_cases hc : (consumersOf env.pot p).isEmpty = true
  · rw [if_pos hc]
    have : consumersOf env.pot p = [] := List.isEmpty_iff.mp hc
    exact ⟨a, rfl, fun x => by simp [this]⟩
  · rw [if_neg hc]
    have hne : consumersOf env.pot p ≠ [] := fun h => hc (List.isEmpty_iff.mpr h)
    obtain ⟨e, he, hpe⟩ := (consumersOf_ne_nil_iff _ _).mp hne
    have hek : e.1 ∈ AL.keys cur := a.keysAll _ (List.mem_map.mpr ⟨e, he, rfl⟩)
    unfold assignPartition
    cases hf : (sortMembers cur).find? (fun m => (AL.get env.pot m).contains p) with
    | none =>
      exfalso
      rw [List.find?_eq_none] at hf
      have hm2 : p ∈ AL.get env.pot e.1 := by
        have hg : AL.get env.pot e.1 = e.2 := AL.get_of_mem_nodup hpn (by cases e; exact he)
        rw [hg]; exact hpe
      have := hf e.1 ((mem_sortMembers _ _).mpr hek)
      simp only [Bool.not_eq_true] at this
      have h2 := List.contains_iff_mem.mpr hm2
      rw [h2] at this; cases this
    | some m =>
      simp only
      have hm : m ∈ AL.keys cur := (mem_sortMembers _ _).mp (List.mem_of_find?_eq_some hf)
      have hpot : p ∈ AL.get env.pot m := by
        have := List.find?_some hf
        exact List.contains_iff_mem.mp this
      have hcnt : ∀ x, AL.countAll (AL.set cur m (AL.get cur m ++ [p])) x =
          AL.countAll cur x + (if x = p ∧ consumersOf env.pot p ≠ [] then 1 else 0) := by
        intro x
        have h := AL.countAll_set cur m (AL.get cur m ++ [p]) x
        rw [List.count_append] at h
        by_cases hx : x = p
        · subst hx
          simp only [List.count_cons_self, List.count_nil] at h
          simp only [true_and, hne, ne_eq, not_false_eq_true, ↓reduceIte]
          omega
        · have : List.count x [p] = 0 := by rw [List.count_eq_zero]; simp [hx]
          simp only [hx, false_and, ↓reduceIte, this] at h ⊢
          omega
      refine ⟨⟨?_, ?_, ?_⟩, AL.keys_set_of_mem _ hm, hcnt⟩
      · intro k hk; rw [AL.keys_set_of_mem _ hm]; exact a.keysAll k hk
      · apply planAll_set a.holdsC
        intro tp htp
        rcases List.mem_append.mp htp with h | h
        · exact planAll_get a.holdsC m tp h
        · simp only [List.mem_singleton] at h; subst h; exact hpot
      · intro e' he' x hx
        by_cases hxp : x = p
        · subst hxp
          rw [ownerGet_set_same]
          rcases AL.mem_set he' with rfl | he'
          · rfl
          · exact absurd hx (AL.not_mem_of_countAll_zero h0 he')
        · rw [ownerGet_set_other _ _ _ _ hxp]
          rcases AL.mem_set he' with rfl | he'
          · rcases List.mem_append.mp hx with h | h
            · exact a.ownerOK _ (AL.get_mem h) x h
            · simp only [List.mem_singleton] at h; exact absurd h hxp
          · exact a.ownerOK e' he' x hx


theorem assignFold_spec {env : SEnv} (hpn : (AL.keys env.pot).Nodup) :
    ∀ (us : List TP) (cur : Asg) (owner : OwnerMap), us.Nodup → ACore env cur owner →
      (∀ u, u ∈ us → AL.countAll cur u = 0) →
      ACore env (us.foldl (assignOne env) (cur, owner)).1 (us.foldl (assignOne env) (cur, owner)).2 ∧
      AL.keys (us.foldl (assignOne env) (cur, owner)).1 = AL.keys cur ∧
      ∀ x, AL.countAll (us.foldl (assignOne env) (cur, owner)).1 x =
        AL.countAll cur x + (if x ∈ us ∧ consumersOf env.pot x ≠ [] then 1 else 0) := by
  intro us
  induction us with
  | nil => intro cur owner _ a _; exact ⟨a, rfl, fun x => by simp⟩
  | cons u rest ih =>
    intro cur owner hnd a h0
    rw [List.nodup_cons] at hnd
    obtain ⟨a1, hk1, hc1⟩ := assignOne_spec hpn a (h0 u List.mem_cons_self)
    have h0' : ∀ u', u' ∈ rest → AL.countAll (assignOne env (cur, owner) u).1 u' = 0 := by
      intro u' hu'
      have hne : u' ≠ u := fun e => hnd.1 (e ▸ hu')
      rw [hc1 u', h0 u' (List.mem_cons_of_mem _ hu')]
      simp [hne]
    obtain ⟨a2, hk2, hc2⟩ := ih (assignOne env (cur, owner) u).1 (assignOne env (cur, owner) u).2 hnd.2 a1 h0'
    rw [List.foldl_cons]
    refine ⟨a2, by rw [hk2, hk1], ?_⟩
    intro x
    rw [hc2 x, hc1 x]
    by_cases hxu : x = u
    · subst hxu
      have : x ∉ rest := hnd.1
      simp [this]
    · simp [hxu]

theorem SInv.assignAll {ms : Members} {ts : Topics} {env : SEnv} (wf : SWf ms ts env) {st : SState}
    (inv : SInv env st) {us : List TP} (hg : guard .guarded env st (.assignAll us) = true) :
    SInv env (apply .guarded env st (.assignAll us)) := by
  simp only [guard, Bool.and_eq_true, Bool.not_eq_true', Option.isNone_iff_eq_none] at hg
  obtain ⟨⟨⟨hass, hfix⟩, hsnap⟩, hperm⟩ := hg
  have hfx : st.fixed = [] := List.isEmpty_iff.mp hfix
  have hp : us.Perm (todoOf env st.cur) := List.isPerm_iff.mp hperm
  have hpn : (AL.keys env.pot).Nodup := by rw [wf.pot_eq, keys_potOf]; exact wf.ids
  have hpnd : env.parts.Nodup := by rw [wf.parts_eq]; exact wf.pnodup
  have hund : us.Nodup := (hp.nodup_iff).mpr (hpnd.filter _)
  have hmem : ∀ u, u ∈ us ↔ u ∈ env.parts ∧ AL.countAll st.cur u = 0 := by
    intro u
    rw [hp.mem_iff]
    unfold todoOf
    rw [List.mem_filter]
    simp
  have c := inv.core
  have a : ACore env st.cur st.owner := ⟨(inv.pre hass).2.2.2, c.holdsC, c.ownerOK⟩
  obtain ⟨a', hk, hc⟩ := assignFold_spec hpn us st.cur st.owner hund a (fun u hu => ((hmem u).mp hu).2)
  have hcf : ∀ x, AL.countAll st.fixed x = 0 := by intro x; rw [hfx]; rfl
  simp only [apply]
  refine ⟨⟨?_, ?_, a'.holdsC, c.holdsF, ?_, ?_, a'.ownerOK, c.fixedOnly⟩, ?_, ?_, inv.movesOK⟩
  · dsimp only; rw [hk]; exact c.keysNodup
  · dsimp only; rw [hk]; exact c.keysMem
  · intro p
    dsimp only
    rw [hc p, hcf p]
    have := c.atMost p
    rw [hcf p] at this
    by_cases hpu : p ∈ us
    · have := ((hmem p).mp hpu).2
      split <;> omega
    · simp only [hpu, false_and, ↓reduceIte]; omega
  · intro _ p hp' hcons
    dsimp only
    rw [hc p, hcf p]
    have hle := c.atMost p
    rw [hcf p] at hle
    by_cases h0 : AL.countAll st.cur p = 0
    · have : p ∈ us := (hmem p).mpr ⟨hp', h0⟩
      simp only [this, hcons, ne_eq, not_false_eq_true, and_self, ↓reduceIte, h0]
    · have : p ∉ us := fun h => h0 ((hmem p).mp h).2
      simp only [this, false_and, ↓reduceIte]; omega
  · intro h; dsimp only at h; cases h
  · intro s hs; dsimp only at hs; rw [hsnap] at hs; cases hs

end Model.Balance
