import SaramaVerif.Model.BalanceRoundRobin
import SaramaVerif.Lemmas.C08Assoc
/-
  The round-robin cursor loop: what `rrFind` returns, when it returns, and what `rrLoop` adds to the plan.
-/
namespace Model.Balance

/-- the member at cursor `k` has topic `t` -/
def rrHas (ms : Members) (t : Topic) (k : Nat) : Prop := ∃ e, ms[k % ms.length]? = some e ∧ e.2.contains t = true

theorem rrFind_some {ms : Members} {t : Topic} : ∀ {fuel i j : Nat}, rrFind ms t i fuel = some j →
    i ≤ j ∧ j < i + fuel ∧ rrHas ms t j ∧ ∀ k, i ≤ k → k < j → ¬ rrHas ms t k := by
  intro fuel
  induction fuel with
  | zero => intro i j h; simp [rrFind] at h
  | succ fuel ih =>
    intro i j h
    rw [rrFind] at h
    cases he : ms[i % ms.length]? with
    | none => rw [he] at h; simp at h
    | some e =>
      rw [he] at h
      simp only at h
      by_cases hc : e.2.contains t = true
      · rw [if_pos hc] at h
        injection h with h; subst h
        exact ⟨Nat.le_refl _, by omega, ⟨e, he, hc⟩, fun k h1 h2 => by omega⟩
      · rw [if_neg hc] at h
        obtain ⟨h1, h2, h3, h4⟩ := ih h
        refine ⟨by omega, by omega, h3, ?_⟩
        intro k hk1 hk2
        by_cases hki : k = i
        · subst hki
          rintro ⟨e', he', hc'⟩
          rw [he] at he'; injection he' with he'; subst he'
          exact hc hc'
        · exact h4 k (by omega) hk2

theorem rrFind_none {ms : Members} {t : Topic} (hne : ms ≠ []) : ∀ {fuel i : Nat}, rrFind ms t i fuel = none →
    ∀ k, i ≤ k → k < i + fuel → ¬ rrHas ms t k := by
  intro fuel
  induction fuel with
  | zero => intro i _ k h1 h2; omega
  | succ fuel ih =>
    intro i h k hk1 hk2
    rw [rrFind] at h
    have hlen : 0 < ms.length := List.length_pos_iff.mpr hne
    have hlt : i % ms.length < ms.length := Nat.mod_lt _ hlen
    cases he : ms[i % ms.length]? with
    | none => rw [List.getElem?_eq_none_iff] at he; omega
    | some e =>
      rw [he] at h
      simp only at h
      by_cases hc : e.2.contains t = true
      · rw [if_pos hc] at h; simp at h
      · rw [if_neg hc] at h
        by_cases hki : k = i
        · subst hki
          rintro ⟨e', he', hc'⟩
          rw [he] at he'; injection he' with he'; subst he'
          exact hc hc'
        · exact ih h k (by omega) (by omega)

/-- every residue is visited within `n` consecutive cursor positions -/
theorem exists_cursor (n i k : Nat) (hk : k < n) : ∃ j, i ≤ j ∧ j < i + n ∧ j % n = k := by
  have hn : 0 < n := by omega
  have hi : i % n < n := Nat.mod_lt _ hn
  refine ⟨i + (k + n - i % n) % n, by omega, ?_, ?_⟩
  · have := Nat.mod_lt (k + n - i % n) hn
    omega
  · rw [Nat.add_mod_mod]
    have hd := Nat.mod_add_div i n
    have e : i + (k + n - i % n) = k + n * (i / n + 1) := by rw [Nat.mul_add, Nat.mul_one]; omega
    rw [e, Nat.add_mul_mod_self_left, Nat.mod_eq_of_lt hk]

/-- with a subscriber the inner loop is left within `n` positions … -/
theorem rrFind_complete {ms : Members} {t : Topic} (h : hasSubscriber ms t = true) (i : Nat) :
    ∃ j, rrFind ms t i ms.length = some j := by
  cases hf : rrFind ms t i ms.length with
  | some j => exact ⟨j, rfl⟩
  | none =>
    exfalso
    unfold hasSubscriber at h
    rw [List.any_eq_true] at h
    obtain ⟨e, he, hc⟩ := h
    have hne : ms ≠ [] := by intro h0; subst h0; simp at he
    obtain ⟨k, hk, hke⟩ := List.getElem_of_mem he
    obtain ⟨j, hj1, hj2, hj3⟩ := exists_cursor ms.length i k hk
    apply rrFind_none hne hf j hj1 hj2
    exact ⟨e, by rw [hj3, List.getElem?_eq_getElem hk, hke], hc⟩

/-- … and without one it is not left, whatever the bound -/
theorem rrFind_diverges {ms : Members} {t : Topic} (h : hasSubscriber ms t = false) :
    ∀ (fuel i : Nat), rrFind ms t i fuel = none := by
  intro fuel
  induction fuel with
  | zero => intro i; rfl
  | succ fuel ih =>
    intro i
    rw [rrFind]
    cases he : ms[i % ms.length]? with
    | none => rfl
    | some e =>
      simp only
      have hm : e ∈ ms := List.mem_of_getElem? he
      have hc : e.2.contains t = false := by
        cases hc : e.2.contains t with
        | false => rfl
        | true =>
          have : hasSubscriber ms t = true := by
            unfold hasSubscriber; rw [List.any_eq_true]; exact ⟨e, hm, hc⟩
          rw [h] at this; cases this
      rw [hc]; simp only [Bool.false_eq_true, ↓reduceIte]
      exact ih (i + 1)

theorem rrMember_of_has {ms : Members} {t : Topic} {j : Nat} (h : rrHas ms t j) :
    ∃ e, e ∈ ms ∧ e.1 = rrMember ms j ∧ e.2.contains t = true := by
  obtain ⟨e, he, hc⟩ := h
  exact ⟨e, List.mem_of_getElem? he, by unfold rrMember; rw [he], hc⟩

/-- the assignment loop: terminates when every topic has a subscriber; adds each topic partition exactly once,
    to a member of the group that has the topic -/
theorem rrLoop_spec (ms : Members) : ∀ (tps : List TP) (i : Nat) (plan : Plan),
    (∀ tp, tp ∈ tps → hasSubscriber ms tp.1 = true) →
    ∃ out, rrLoop ms ms.length tps i plan = some out ∧
      (∀ x, AL.countAll out x = AL.countAll plan x + tps.count x) ∧
      (PlanAll (fun m tp => ∃ e, e ∈ ms ∧ e.1 = m ∧ e.2.contains tp.1 = true) plan →
        PlanAll (fun m tp => ∃ e, e ∈ ms ∧ e.1 = m ∧ e.2.contains tp.1 = true) out) := by
  intro tps
  induction tps with
  | nil => intro i plan _; exact ⟨plan, rfl, fun x => by simp, id⟩
  | cons tp rest ih =>
    intro i plan hs
    obtain ⟨j, hj⟩ := rrFind_complete (hs tp List.mem_cons_self) i
    obtain ⟨out, ho, hc, hp⟩ := ih (j + 1) (plan.add (rrMember ms j) tp.1 [tp.2])
      (fun tp' h => hs tp' (List.mem_cons_of_mem _ h))
    refine ⟨out, ?_, ?_, ?_⟩
    · rw [rrLoop, hj]; exact ho
    · intro x
      rw [hc x, countAll_add]
      obtain ⟨t', p'⟩ := x
      rw [count_map_pair, List.count_cons]
      obtain ⟨t, p⟩ := tp
      simp only [List.count_cons, List.count_nil, beq_iff_eq, Prod.mk.injEq]
      by_cases h1 : t' = t <;> by_cases h2 : p = p' <;> simp [h1, h2]
      all_goals first | omega | (intro e; exact h1 e.symm) | (intro e; exact h2 e.symm)
    · intro hpl
      apply hp
      apply planAll_add hpl
      intro p hp'
      simp only [List.mem_singleton] at hp'
      exact rrMember_of_has (rrFind_some hj).2.2.1

/-- a topic partition without subscriber stops the loop for every bound on the inner loop -/
theorem rrLoop_diverges (ms : Members) (fuel : Nat) : ∀ (tps : List TP) (i : Nat) (plan : Plan),
    (∃ tp, tp ∈ tps ∧ hasSubscriber ms tp.1 = false) → rrLoop ms fuel tps i plan = none := by
  intro tps
  induction tps with
  | nil => intro i plan h; obtain ⟨tp, h, _⟩ := h; simp at h
  | cons tp rest ih =>
    intro i plan h
    rw [rrLoop]
    cases hf : rrFind ms tp.1 i fuel with
    | none => rfl
    | some j =>
      simp only
      obtain ⟨tp', hm, hs⟩ := h
      rcases List.mem_cons.mp hm with rfl | hm
      · rw [rrFind_diverges hs] at hf; cases hf
      · exact ih _ _ ⟨tp', hm, hs⟩

end Model.Balance
