import SaramaVerif.Lemmas.C15Keyed
/-
  Helper lemmas for C15: what one `updateMetadata` step does to every component of the cache.
-/
namespace Lemmas.C15
open Model.Metadata

/-! ### frame: applyTopic touches only metadata / tracked / cached -/
theorem applyTopic_frame (a : Acc) (tm : TopicMeta) :
    (applyTopic a tm).s.brokers = a.s.brokers ∧ (applyTopic a tm).s.controller = a.s.controller ∧
    (applyTopic a tm).s.seeds = a.s.seeds ∧ (applyTopic a tm).s.dead = a.s.dead := by
  unfold applyTopic
  split <;> simp [storeTopic, rebuildCache, putMeta, forgetTopic]

theorem foldl_applyTopic_frame (ts : List TopicMeta) (a : Acc) :
    (ts.foldl applyTopic a).s.brokers = a.s.brokers ∧ (ts.foldl applyTopic a).s.controller = a.s.controller ∧
    (ts.foldl applyTopic a).s.seeds = a.s.seeds ∧ (ts.foldl applyTopic a).s.dead = a.s.dead := by
  induction ts generalizing a with
  | nil => simp
  | cons tm ts ih =>
    simp only [List.foldl_cons]
    have h1 := ih (applyTopic a tm)
    have h2 := applyTopic_frame a tm
    refine ⟨h1.1.trans h2.1, h1.2.1.trans h2.2.1, h1.2.2.1.trans h2.2.2.1, h1.2.2.2.trans h2.2.2.2⟩

/-- what a topic entry leaves in `client.metadata[name]` -/
def storedEntry (tm : TopicMeta) : Option (Topic × List PartMeta) :=
  if (topicClass tm.err).stores then some (tm.name, buildParts tm.parts) else none

/-- what a topic entry leaves in `client.cachedPartitionsResults[name]` -/
def storedCache (tm : TopicMeta) : Option (Topic × (List Int × List Int)) :=
  if (topicClass tm.err).stores then
    some (tm.name, (allIds (buildParts tm.parts), writableIds (buildParts tm.parts)))
  else none

theorem cacheLists_cons (t : Topic) (pm : List PartMeta) (md : List (Topic × List PartMeta)) :
    cacheLists ((t, pm) :: md) t = (allIds pm, writableIds pm) := by
  simp [cacheLists, setPartitionCache, kget_cons]

theorem applyTopic_metadata (a : Acc) (tm : TopicMeta) (t : Topic) :
    kget Prod.fst t (applyTopic a tm).s.metadata =
      if tm.name = t then storedEntry tm else kget Prod.fst t a.s.metadata := by
  unfold applyTopic storedEntry
  split <;> rename_i hc <;>
    simp only [hc, TopicClass.stores, storeTopic, rebuildCache, putMeta, forgetTopic, kget_cons, kget_kerase] <;>
    by_cases h : tm.name = t <;> simp [h] <;> (intro e; exact absurd e.symm h)

theorem applyTopic_cached (a : Acc) (tm : TopicMeta) (t : Topic) :
    kget Prod.fst t (applyTopic a tm).s.cached =
      if tm.name = t then storedCache tm else kget Prod.fst t a.s.cached := by
  unfold applyTopic storedCache
  split <;> rename_i hc <;>
    simp only [hc, TopicClass.stores, storeTopic, rebuildCache, putMeta, forgetTopic, kget_cons, kget_kerase,
      cacheLists_cons] <;>
    by_cases h : tm.name = t <;> simp [h] <;> (intro e; exact absurd e.symm h)

theorem applyTopic_tracked (a : Acc) (tm : TopicMeta) (t : Topic) :
    t ∈ (applyTopic a tm).s.tracked ↔ t = tm.name ∨ t ∈ a.s.tracked := by
  have hk : ∀ tr : List Topic, t ∈ track tm.name tr ↔ t = tm.name ∨ t ∈ tr := by
    intro tr
    unfold track
    split
    · rename_i h
      constructor
      · intro h'; exact Or.inr h'
      · rintro (e | h')
        · rw [e]; exact h
        · exact h'
    · simp
  unfold applyTopic
  split <;> simp [storeTopic, rebuildCache, putMeta, forgetTopic, hk]

/-! ### folds, stated on the reversed list (newest entry first) -/
theorem foldl_applyTopic_metadata (ts : List TopicMeta) (a : Acc) (t : Topic) :
    kget Prod.fst t (ts.foldl applyTopic a).s.metadata =
      match kget TopicMeta.name t ts.reverse with
      | some tm => storedEntry tm
      | none => kget Prod.fst t a.s.metadata := by
  induction ts generalizing a with
  | nil => simp [kget_nil]
  | cons tm ts ih =>
    simp only [List.foldl_cons, List.reverse_cons]
    rw [ih, kget_append, kget_cons, kget_nil]
    cases hk : kget TopicMeta.name t ts.reverse with
    | some x => simp
    | none =>
      simp only [Option.none_or]
      rw [applyTopic_metadata]
      by_cases h : tm.name = t <;> simp [h]

theorem foldl_applyTopic_cached (ts : List TopicMeta) (a : Acc) (t : Topic) :
    kget Prod.fst t (ts.foldl applyTopic a).s.cached =
      match kget TopicMeta.name t ts.reverse with
      | some tm => storedCache tm
      | none => kget Prod.fst t a.s.cached := by
  induction ts generalizing a with
  | nil => simp [kget_nil]
  | cons tm ts ih =>
    simp only [List.foldl_cons, List.reverse_cons]
    rw [ih, kget_append, kget_cons, kget_nil]
    cases hk : kget TopicMeta.name t ts.reverse with
    | some x => simp
    | none =>
      simp only [Option.none_or]
      rw [applyTopic_cached]
      by_cases h : tm.name = t <;> simp [h]

theorem foldl_applyTopic_tracked (ts : List TopicMeta) (a : Acc) (t : Topic) :
    t ∈ (ts.foldl applyTopic a).s.tracked ↔ (∃ tm ∈ ts, tm.name = t) ∨ t ∈ a.s.tracked := by
  induction ts generalizing a with
  | nil => simp
  | cons tm ts ih =>
    simp only [List.foldl_cons]
    rw [ih, applyTopic_tracked]
    constructor
    · rintro (⟨x, hx, e⟩ | e | h)
      · exact Or.inl ⟨x, by simp [hx], e⟩
      · exact Or.inl ⟨tm, by simp, e.symm⟩
      · exact Or.inr h
    · rintro (⟨x, hx, e⟩ | h)
      · rcases List.mem_cons.mp hx with e' | hx'
        · subst e'; exact Or.inr (Or.inl e.symm)
        · exact Or.inl ⟨x, hx', e⟩
      · exact Or.inr (Or.inr h)

/-! ### retry / err of the fold -/
/-- does this topic entry ask for a retry -/
def topicRetry (tm : TopicMeta) : Bool :=
  match topicClass tm.err with
  | .store => partsRetry tm.parts
  | .storeRetry => true
  | .forget => false
  | .forgetRetry => true

theorem applyTopic_retry (a : Acc) (tm : TopicMeta) : (applyTopic a tm).retry = (a.retry || topicRetry tm) := by
  unfold applyTopic topicRetry
  split <;> simp_all

theorem applyTopic_err (a : Acc) (tm : TopicMeta) :
    (applyTopic a tm).err = if (topicClass tm.err).stores then a.err else tm.err := by
  unfold applyTopic
  split <;> simp_all [TopicClass.stores]

theorem foldl_applyTopic_retry (ts : List TopicMeta) (a : Acc) :
    (ts.foldl applyTopic a).retry = (a.retry || ts.any topicRetry) := by
  induction ts generalizing a with
  | nil => simp
  | cons tm ts ih =>
    simp only [List.foldl_cons, List.any_cons]
    rw [ih, applyTopic_retry, Bool.or_assoc]

theorem foldl_applyTopic_err (ts : List TopicMeta) (a : Acc) :
    (ts.foldl applyTopic a).err =
      match ts.reverse.find? (fun tm => !(topicClass tm.err).stores) with
      | some tm => tm.err
      | none => a.err := by
  induction ts generalizing a with
  | nil => simp
  | cons tm ts ih =>
    simp only [List.foldl_cons, List.reverse_cons, List.find?_append]
    rw [ih]
    cases hk : ts.reverse.find? (fun tm => !(topicClass tm.err).stores) with
    | some x => simp
    | none =>
      simp only [Option.none_or, List.find?_cons, List.find?_nil]
      rw [applyTopic_err]
      by_cases h : (topicClass tm.err).stores = true <;> simp [h]

/-! ### brokers -/
theorem kget_regBroker (m : List (Int × Addr)) (b : Int × Addr) (k : Int) :
    kget Prod.fst k (regBroker m b) = if b.1 = k then some b else kget Prod.fst k m := by
  unfold regBroker
  split
  · exact kget_kset Prod.fst k b m
  · rename_i old hold
    split
    · exact kget_kset Prod.fst k b m
    · rename_i hne
      have hne' : b.2 = old.2 := by
        by_cases e : b.2 = old.2
        · exact e
        · exact absurd e hne
      by_cases h : b.1 = k
      · have h1 := (kget_some Prod.fst hold).1
        have : old = b := by
          cases old; cases b; simp_all
        subst h
        rw [hold, this]
        simp
      · simp [h]

theorem regBroker_nodup (m : List (Int × Addr)) (b : Int × Addr) (h : (keys Prod.fst m).Nodup) :
    (keys Prod.fst (regBroker m b)).Nodup := by
  unfold regBroker
  split
  · exact keys_kset_nodup Prod.fst h
  · split
    · exact keys_kset_nodup Prod.fst h
    · exact h

theorem kget_foldl_regBroker (news cur : List (Int × Addr)) (k : Int) :
    kget Prod.fst k (news.foldl regBroker cur) = (kget Prod.fst k news.reverse).or (kget Prod.fst k cur) := by
  induction news generalizing cur with
  | nil => simp [kget_nil]
  | cons b news ih =>
    simp only [List.foldl_cons, List.reverse_cons]
    rw [ih, kget_append, kget_regBroker, kget_cons, kget_nil]
    by_cases h : b.1 = k <;> simp [h]

theorem foldl_regBroker_nodup (news cur : List (Int × Addr)) (h : (keys Prod.fst cur).Nodup) :
    (keys Prod.fst (news.foldl regBroker cur)).Nodup := by
  induction news generalizing cur with
  | nil => simpa using h
  | cons b news ih => exact ih _ (regBroker_nodup cur b h)

/-- after `updateBroker(news)` every id answers with the LAST entry of `news` carrying it, and nothing else -/
theorem kget_updateBrokers (cur news : List (Int × Addr)) (k : Int) :
    kget Prod.fst k (updateBrokers cur news) = kget Prod.fst k news.reverse := by
  unfold updateBrokers
  rw [kget_filter_key Prod.fst (fun id => news.any (fun n => decide (n.1 = id))), kget_foldl_regBroker]
  by_cases hq : news.any (fun n => decide (n.1 = k)) = true
  · simp only [hq, ↓reduceIte]
    have : (kget Prod.fst k news.reverse).isSome := by
      rw [kget_isSome]
      rcases List.any_eq_true.mp hq with ⟨n, hn, e⟩
      exact ⟨n, by simpa using hn, by simpa using e⟩
    cases hg : kget Prod.fst k news.reverse with
    | some x => simp
    | none => simp [hg] at this
  · simp only [hq, Bool.false_eq_true, ↓reduceIte]
    symm
    rw [kget_none]
    intro a ha e
    apply hq
    exact List.any_eq_true.mpr ⟨a, by simpa using ha, by simpa using e⟩

theorem updateBrokers_nodup (cur news : List (Int × Addr)) (h : (keys Prod.fst cur).Nodup) :
    (keys Prod.fst (updateBrokers cur news)).Nodup := by
  unfold updateBrokers
  have := foldl_regBroker_nodup news cur h
  unfold keys at *
  exact List.Nodup.sublist (List.Sublist.map _ List.filter_sublist) this

/-! ### buildParts, the id lists -/
theorem kget_buildParts (ps : List PartMeta) (p : Int) :
    kget PartMeta.id p (buildParts ps) = kget PartMeta.id p ps.reverse := by
  unfold buildParts
  rw [kget_foldl_kset, kget_nil, Option.or_none]

theorem buildParts_nodup (ps : List PartMeta) : (keys PartMeta.id (buildParts ps)).Nodup := by
  unfold buildParts
  exact keys_foldl_kset_nodup PartMeta.id ps [] (by simp [keys])

theorem kget_of_mem_nodup {α : Type} (key : α → Int) {m : List α} {a : α} (h : (keys key m).Nodup) (ha : a ∈ m) :
    kget key (key a) m = some a := by
  induction m with
  | nil => simp at ha
  | cons b m ih =>
    unfold keys at h ih
    rw [List.map_cons, List.nodup_cons] at h
    rw [kget_cons]
    rcases List.mem_cons.mp ha with e | hm
    · subst e; simp
    · have : key b ≠ key a := by
        intro e
        apply h.1
        rw [e]
        exact List.mem_map.mpr ⟨a, hm, rfl⟩
      simp only [this, ↓reduceIte]
      exact ih h.2 hm

theorem allIds_spec (m : List PartMeta) (h : (keys PartMeta.id m).Nodup) :
    (allIds m).Pairwise (· < ·) ∧ ∀ p, p ∈ allIds m ↔ (kget PartMeta.id p m).isSome := by
  unfold allIds
  refine ⟨isort_strict h, ?_⟩
  intro p
  rw [mem_isort]
  exact mem_keys_iff PartMeta.id

theorem writableIds_spec (m : List PartMeta) (h : (keys PartMeta.id m).Nodup) :
    (writableIds m).Pairwise (· < ·) ∧
    ∀ p, p ∈ writableIds m ↔ ∃ pm, kget PartMeta.id p m = some pm ∧ pm.err ≠ errLeaderNotAvailable := by
  unfold writableIds
  constructor
  · apply isort_strict
    unfold keys at h
    exact List.Nodup.sublist (List.Sublist.map _ List.filter_sublist) h
  · intro p
    rw [mem_isort, List.mem_map]
    constructor
    · rintro ⟨pm, hpm, e⟩
      rw [List.mem_filter] at hpm
      refine ⟨pm, ?_, by simpa using hpm.2⟩
      rw [← e]
      exact kget_of_mem_nodup PartMeta.id h hpm.1
    · rintro ⟨pm, hg, he⟩
      have := kget_some PartMeta.id hg
      exact ⟨pm, List.mem_filter.mpr ⟨this.2, by simpa using he⟩, this.1⟩

end Lemmas.C15
