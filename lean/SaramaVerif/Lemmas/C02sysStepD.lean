/-
  C02 composition: the answer of the broker reaching worker 0 (`deliver`) keeps the invariant: successes and
  fatal errors drop the set from the view, a retriable answer or a connection error bounces everything the
  worker holds or would have accepted.
-/
import SaramaVerif.Lemmas.C02sysLog
import SaramaVerif.Lemmas.C02sysStepB

set_option linter.unusedSimpArgs false

namespace Lemmas.C02sys
open Model Model.Pipeline

/-- the system after worker 0 (new state `b'`) has handled an answer: `X` was bounced -/
def deliverS (M : Nat) (s : Sys) (b' : BrokerProd.St) (X : List Tok) (sc : List (Int × Nat)) (e : List Int) : Sys :=
  { afterW s ⟨(W s).inq, b', none⟩ with ret := s.ret ++ bumpF M X, succ := sc, errs := e }

theorem W_deliverS (M : Nat) (s : Sys) (b' : BrokerProd.St) (X : List Tok) (sc : List (Int × Nat)) (e : List Int) :
    W (deliverS M s b' X sc e) = ⟨(W s).inq, b', none⟩ := by
  simp [deliverS, afterW, W, setW]

theorem gw_nil_of_cur_none {M : Nat} {s : Sys} {v : View} (h : Rep M s v) (hc : s.cur = none) : v.gw = [] := by
  cases h with
  | closed => rfl
  | failed h1 h2 h3 h4 h5 => rfl
  | normal mk G h1 h2 h3 h4 h5 h6 =>
    rcases h6 with h6 | ⟨_, h6, h7⟩
    · rw [hc] at h6; cases h6
    · rw [h3] at h6
      have : G = [] := (List.append_eq_nil_iff.1 h6).2
      simp [h7, this]
  | reopen D k mk G h1 h2 h3 h4 h5 h6 h7 =>
    rcases h7 with ⟨_, h7, _⟩ | ⟨_, h7⟩
    · exact h7
    · rw [hc] at h7; cases h7

theorem conc_deliver {M : Nat} {s : Sys} {v v' : View} (hc : Conc M s v) (b' : BrokerProd.St)
    (hp : Props.C02bp.PInv b') (X : List Tok) (hX : P0 X) (hi : (insideB b').Sublist (ins s))
    (sc : List (Int × Nat)) (e : List Int)
    (hcap : s.cur = none → ∀ x ∈ data v'.av, x.retries ≤ v'.pp.hwm) :
    Conc M (deliverS M s b' X sc e) v' := by
  refine ⟨by rw [W_deliverS]; exact hp, ?_, ?_, by rw [W_deliverS]; exact hc.finq, ?_, hc.cur01, hcap, hc.crash⟩
  · show P0 (s.pq ++ s.dq ++ (s.ret ++ bumpF M X) ++ (W (deliverS M s b' X sc e)).inq ++
      ins (deliverS M s b' X sc e))
    rw [show ins (deliverS M s b' X sc e) = insideB b' from by simp [ins, W_deliverS],
      show (W (deliverS M s b' X sc e)).inq = (W s).inq from by rw [W_deliverS]]
    intro x hx
    simp only [List.mem_append] at hx
    rcases hx with (((hx | hx) | hx | hx) | hx) | hx
    · exact hc.p0 x (by simp [hx])
    · exact hc.p0 x (by simp [hx])
    · exact hc.p0 x (by simp [hx])
    · obtain ⟨y, hy, rfl⟩ := mem_bumpF hx; exact hX y hy
    · exact hc.p0 x (by simp [hx])
    · exact hc.p0 x (List.mem_append_right _ (hi.subset hx))
  · show ∀ t ∈ s.pq ++ s.dq ++ (s.ret ++ bumpF M X), t.retries ≤ M
    intro x hx
    simp only [List.mem_append] at hx
    rcases hx with (hx | hx) | hx | hx
    · exact hc.lvl x (by simp [hx])
    · exact hc.lvl x (by simp [hx])
    · exact hc.lvl x (by simp [hx])
    · simp only [bumpF, List.mem_map, List.mem_filter, decide_eq_true_eq] at hx
      obtain ⟨y, ⟨_, hy⟩, rfl⟩ := hx
      rw [bump_retries]; omega
  · show ∀ t ∈ s.ret ++ bumpF M X, 1 ≤ t.retries
    intro x hx
    rcases List.mem_append.1 hx with hx | hx
    · exact hc.ret1 x hx
    · obtain ⟨y, _, rfl⟩ := mem_bumpF hx; simp [bump_retries]

theorem log_deliver_same {M : Nat} {s : Sys} {v v' : View} (hl : LogInv s v)
    (hlive : ∀ a, LiveId v' a → LiveId v a) (b' : BrokerProd.St) (X : List Tok) (e : List Int) :
    LogInv (deliverS M s b' X s.succ e) v' := by
  refine ⟨fun b hb a ha => hl.K b hb a (hlive a ha), hl.J, fun p hp a ha => hl.S1 p hp a (hlive a ha), hl.S3,
    hl.S5, hl.S6, fun a ha => hl.idlt a (hlive a ha), hl.Llt, ?_⟩
  intro vd base hp; rw [W_deliverS] at hp; cases hp

theorem log_deliver_ok {M : Nat} {s : Sys} {v v' : View} (hl : LogInv s v)
    (hlive : ∀ a, LiveId v' a → LiveId v a) (b' : BrokerProd.St) (X : List Tok) (e : List Int)
    (sent : List Tok) (base : Nat) (hb1 : ∀ p ∈ s.succ, p.2 < base) (hb2 : base + sent.length ≤ s.log.length)
    (hsorted : sent.Pairwise (fun a b => a.id < b.id)) (hsl : ∀ x ∈ sent, LiveId v x.id)
    (hnew : ∀ x ∈ sent, ∀ a, LiveId v' a → x.id < a) :
    LogInv (deliverS M s b' X (s.succ ++ offs sent base) e) v' := by
  refine ⟨fun b hb a ha => hl.K b hb a (hlive a ha), hl.J, ?_, ?_, ?_, ?_, fun a ha => hl.idlt a (hlive a ha),
    hl.Llt, ?_⟩
  · intro p hp a ha
    rcases List.mem_append.1 hp with hp | hp
    · exact hl.S1 p hp a (hlive a ha)
    · obtain ⟨⟨x, hx, e1⟩, _⟩ := mem_offs hp
      rw [← e1]; exact hnew x hx a ha
  · intro p hp q hq hpq
    rcases List.mem_append.1 hp with hp | hp <;> rcases List.mem_append.1 hq with hq | hq
    · exact hl.S3 p hp q hq hpq
    · have := hb1 p hp; have := (mem_offs hq).2.1; omega
    · exfalso
      obtain ⟨⟨x, hx, e1⟩, _⟩ := mem_offs hp
      have := hl.S1 q hq x.id (hsl x hx); omega
    · exact offs_sorted hsorted hp hq hpq
  · intro p hp
    rcases List.mem_append.1 hp with hp | hp
    · exact hl.S5 p hp
    · have := (mem_offs hp).2.2
      show p.2 < s.log.length; omega
  · intro p hp
    rcases List.mem_append.1 hp with hp | hp
    · exact hl.S6 p hp
    · obtain ⟨⟨x, hx, e1⟩, _⟩ := mem_offs hp
      rw [← e1]; exact hl.idlt x.id (hsl x hx)
  · intro vd base' hp; rw [W_deliverS] at hp; cases hp

/-- the set `sent` leaves the worker with a terminal outcome (worker in normal mode) -/
theorem rep_deliver_shrink {M : Nat} {s : Sys} {v : View} (h : Rep M s v)
    (hn : BrokerProd.needsRetry (W s).bp 0 = false) (b' : BrokerProd.St) (hc : b'.closing = (W s).bp.closing)
    (hcr : b'.cr = (W s).bp.cr) (sent : List Tok) (hi : ins s = sent ++ insideB b')
    (sc : List (Int × Nat)) (e : List Int) :
    ∃ G, v.gw = sent ++ (insideB b' ++ G) ∧ v.good = true ∧
      Rep M (deliverS M s b' [] sc e) ⟨v.pp, insideB b' ++ G, v.av, v.good⟩ := by
  cases h with
  | closed h1 h2 => rw [needsRetry_iff, h1] at hn; cases hn
  | failed h1 h2 h3 h4 h5 => rw [needsRetry_iff, h1, h2] at hn; cases hn
  | reopen D k mk G h1 h2 h3 h4 h5 h6 h7 => rw [needsRetry_iff, h1, h2] at hn; cases hn
  | normal mk G h1 h2 h3 h4 h5 h6 =>
    refine ⟨G, by simp [hi, List.append_assoc], rfl, ?_⟩
    have hins' : ins (deliverS M s b' [] sc e) = insideB b' := by simp [ins, W_deliverS]
    have := Rep.normal (M := M) (s := deliverS M s b' [] sc e) mk G
      (by rw [W_deliverS]; simpa [hc] using h1) (by rw [W_deliverS]; simpa [hcr] using h2)
      (by rw [W_deliverS]; exact h3) h4
      (by
        rcases h5 with h5 | ⟨h5, h5'⟩
        · exact Or.inl h5
        · refine Or.inr ⟨h5, ?_⟩
          rw [hins']; rw [h5'] at hi
          exact (List.append_eq_nil_iff.1 hi.symm).2)
      (by
        rcases h6 with h6 | ⟨h6, h6', h6''⟩
        · exact Or.inl h6
        · refine Or.inr ⟨h6, by rw [W_deliverS]; exact h6', ?_⟩
          rw [hins']; rw [h6''] at hi
          exact (List.append_eq_nil_iff.1 hi.symm).2)
    rw [hins'] at this
    simpa [deliverS, afterW, bumpF_nil] using this

theorem nosynq_allData {G : List Tok} (h : AllData G) : nosynq G = G := by
  simp only [nosynq, List.filter_eq_self]; intro t ht; simp [h t ht]

theorem nosynq_append (a b : List Tok) : nosynq (a ++ b) = nosynq a ++ nosynq b := by simp [nosynq]

theorem nosynq_syn : nosynq [synTok] = [] := by simp [nosynq, synTok]

/-- the set fails while the worker is in normal mode: everything it holds or would accept is bounced -/
theorem rep_deliver_fail {M : Nat} {s : Sys} {v : View} (h : Rep M s v)
    (hn : BrokerProd.needsRetry (W s).bp 0 = false) (b' : BrokerProd.St) (hi : insideB b' = [])
    (hmode : b'.closing = true ∨ (b'.closing = false ∧ b'.cr 0 = true ∧ ins s ≠ []))
    (sc : List (Int × Nat)) (e : List Int) :
    v.good = true ∧ Rep M (deliverS M s b' (ins s) sc e) ⟨v.pp, [], v.av ++ bumpF M v.gw, false⟩ := by
  cases h with
  | closed h1 h2 => rw [needsRetry_iff, h1] at hn; cases hn
  | failed h1 h2 h3 h4 h5 => rw [needsRetry_iff, h1, h2] at hn; cases hn
  | reopen D k mk G h1 h2 h3 h4 h5 h6 h7 => rw [needsRetry_iff, h1, h2] at hn; cases hn
  | normal mk G h1 h2 h3 h4 h5 h6 =>
    refine ⟨rfl, ?_⟩
    have hins' : ins (deliverS M s b' (ins s) sc e) = [] := by simp [ins, W_deliverS, hi]
    rcases hmode with hcl | ⟨hcl, hcr, hne⟩
    · have := Rep.closed (M := M) (s := deliverS M s b' (ins s) sc e) (by rw [W_deliverS]; exact hcl) hins'
      have hq : nosynq (W s).inq = G := by
        rw [h3, nosynq_append, nosynq_allData h4]
        rcases h5 with rfl | ⟨rfl, _⟩
        · simp [nosynq]
        · simp [nosynq_syn]
      rw [W_deliverS] at this
      simp only [hq] at this
      simpa [deliverS, afterW, bumpF_append, List.append_assoc] using this
    · have hmk : mk = [] := by
        rcases h5 with h5 | ⟨_, h5⟩
        · exact h5
        · exact absurd h5 hne
      subst hmk
      have hcur : s.cur = some 0 := by
        rcases h6 with h6 | ⟨_, _, h6⟩
        · exact h6
        · exact absurd h6 hne
      have := Rep.failed (M := M) (s := deliverS M s b' (ins s) sc e) (by rw [W_deliverS]; exact hcl)
        (by rw [W_deliverS]; exact hcr) hins' (by rw [W_deliverS, h3]; simpa using h4) hcur
      rw [W_deliverS] at this
      simp only [h3, List.nil_append] at this
      simpa [deliverS, afterW, bumpF_append, List.append_assoc] using this

/-- an answer for an empty set while the worker refuses the partition anyway -/
theorem rep_deliver_empty {M : Nat} {s : Sys} {v : View} (h : Rep M s v)
    (hn : BrokerProd.needsRetry (W s).bp 0 = true) (b' : BrokerProd.St) (hcr : b'.cr = (W s).bp.cr)
    (hi : insideB b' = []) (hc : b'.closing = true ∨ b'.closing = (W s).bp.closing)
    (hfq : ∀ t ∈ (W s).inq, t.kind = .fin → t.retries < M) (sc : List (Int × Nat)) (e : List Int) :
    Rep M (deliverS M s b' [] sc e) v ∨
      (v.good = true ∧ Rep M (deliverS M s b' [] sc e) ⟨v.pp, [], v.av ++ bumpF M v.gw, false⟩) := by
  have hins' : ins (deliverS M s b' [] sc e) = [] := by simp [ins, W_deliverS, hi]
  cases h with
  | normal mk G h1 h2 h3 h4 h5 h6 => rw [needsRetry_iff, h1, h2] at hn; cases hn
  | closed h1 h2 =>
    left
    have hcl : b'.closing = true := by
      rcases hc with hc | hc
      · exact hc
      · rw [hc]; exact h1
    have := Rep.closed (M := M) (s := deliverS M s b' [] sc e) (by rw [W_deliverS]; exact hcl) hins'
    rw [W_deliverS] at this
    simpa [deliverS, afterW, bumpF_nil] using this
  | failed h1 h2 h3 h4 h5 =>
    left
    by_cases hcl : b'.closing = true
    · have := Rep.closed (M := M) (s := deliverS M s b' [] sc e) (by rw [W_deliverS]; exact hcl) hins'
      rw [W_deliverS] at this
      simp only [nosynq_allData h4] at this
      simpa [deliverS, afterW, bumpF_nil] using this
    · have hcl' : b'.closing = false := by
        rcases hc with hc | hc
        · exact absurd hc hcl
        · rw [hc]; exact h1
      have := Rep.failed (M := M) (s := deliverS M s b' [] sc e) (by rw [W_deliverS]; exact hcl')
        (by rw [W_deliverS, hcr]; exact h2) hins' (by rw [W_deliverS]; exact h4) h5
      rw [W_deliverS] at this
      simpa [deliverS, afterW, bumpF_nil] using this
  | reopen D k mk G h1 h2 h3 h4 h5 h6 h7 =>
    by_cases hcl : b'.closing = true
    · right
      refine ⟨rfl, ?_⟩
      have := Rep.closed (M := M) (s := deliverS M s b' [] sc e) (by rw [W_deliverS]; exact hcl) hins'
      rw [W_deliverS] at this
      have hk : k < M := hfq (finTok k) (by rw [h4]; simp) rfl
      have hq : bumpF M (nosynq (W s).inq) = bumpF M D ++ [finTok (k + 1)] ++ bumpF M G := by
        rw [h4, nosynq_append, nosynq_allData h5]
        have : nosynq (finTok k :: (mk ++ G)) = finTok k :: G := by
          rw [nosynq_cons_data _ (by simp [finTok]), nosynq_append, nosynq_allData h6]
          rcases h7 with ⟨rfl, _, _⟩ | ⟨rfl, _⟩
          · simp [nosynq]
          · simp [nosynq_syn]
        rw [this, bumpF_append, bumpF_cons, bumpF_fin M k hk]; simp [List.append_assoc]
      simp only [hq] at this
      simpa [deliverS, afterW, bumpF_nil, List.append_assoc] using this
    · left
      have hcl' : b'.closing = false := by
        rcases hc with hc | hc
        · exact absurd hc hcl
        · rw [hc]; exact h1
      have := Rep.reopen (M := M) (s := deliverS M s b' [] sc e) D k mk G (by rw [W_deliverS]; exact hcl')
        (by rw [W_deliverS, hcr]; exact h2) hins' (by rw [W_deliverS]; exact h4) h5 h6 h7
      simpa [deliverS, afterW, bumpF_nil] using this

end Lemmas.C02sys
