/-
  C02 composition, abstract layer (continued): the transitions that bounce tokens, raise the high watermark,
  flush the retry buffers, and the failure of a produce set.
-/
import SaramaVerif.Lemmas.C02sysView

namespace Lemmas.C02sys
open Model Model.Pipeline

theorem VInv.dropHead {v : View} (h : VInv v) (x : Tok) (rest : List Tok) (hav : v.av = x :: rest)
    (hx : isData x = true) : VInv ⟨v.pp, v.gw, rest, v.good⟩ := by
  refine h.shrink ⟨rfl, rfl, List.Sublist.refl _, ?_, ?_⟩
  · show rest.Sublist v.av
    rw [hav]; exact List.sublist_cons_self _ _
  · show rest.filter isFin = v.av.filter isFin
    rw [hav, List.filter_cons, notFin_of_data hx]; simp

theorem bumpF_single (M : Nat) (x : Tok) : bumpF M [x] = [] ∨ bumpF M [x] = [bump x] := by
  simp only [bumpF, List.filter_cons, List.filter_nil]
  split <;> simp

/-- the head of the arrival stream is a data token of the current level and the worker will bounce it -/
theorem VInv.emitBad {v : View} (h : VInv v) (M : Nat) (x : Tok) (rest : List Tok) (hav : v.av = x :: rest)
    (hx : isData x = true) (hl : x.retries = v.pp.hwm) (hg : v.good = false) :
    VInv ⟨v.pp, [], rest ++ bumpF M [x], false⟩ := by
  have h0 := h.dropHead x rest hav hx
  have hgw : v.gw = [] := h.gbad hg
  have hD : ∀ d ∈ bumpF M [x], d = bump x := by
    intro d hd; obtain ⟨t, ht, rfl⟩ := mem_bumpF hd; rw [List.mem_singleton.1 ht]
  refine h0.appendBad (bumpF M [x]) ?_ ?_ ?_ ?_
  · intro d hd; rw [hD d hd]
    exact ⟨bump_data hx, by show v.pp.hwm < (bump x).retries; rw [bump_retries]; omega⟩
  · rcases bumpF_single M x with he | he <;> rw [he]
    · exact List.Pairwise.nil
    · exact List.pairwise_singleton _ _
  · intro a _ ha d hd; rw [hD d hd, bump_retries]
    have : v.pp.hwm < a.retries := ha
    omega
  · intro k
    show (v.buf k ++ (data rest ++ bumpF M [x])).Pairwise R
    have hk := h.ord k
    rw [hgw, hav, data_cons_data _ hx, List.nil_append] at hk
    have hbase : (v.buf k ++ data rest).Pairwise R :=
      hk.sublist ((List.Sublist.refl _).append (List.sublist_cons_self _ _))
    rcases bumpF_single M x with he | he <;> rw [he]
    · simpa using hbase
    · rw [← List.append_assoc]
      refine List.pairwise_append.2 ⟨hbase, List.pairwise_singleton _ _, ?_⟩
      intro a ha b hb
      rw [List.mem_singleton.1 hb]
      rcases List.mem_append.1 ha with ha | ha
      · have := head_vs_buf h hav hx (by omega) ha
        exact ⟨fun h1 => by rw [bump_retries] at h1; omega, fun _ => by rw [bump_id]; exact this.1⟩
      · have := head_vs_rest h hav hx ha
        exact ⟨fun h1 => by rw [bump_retries] at h1; rw [bump_id]; exact this.2 (by omega),
               fun h1 => by rw [bump_retries] at h1; rw [bump_id]; exact this.1 (by omega)⟩

/-- newHighWatermark: the chaser goes (virtually, with its next level) to the end of the arrival stream -/
def riseV (v : View) (l : Nat) (g' : Bool) : View :=
  ⟨{ v.pp with hwm := l, expect := PartProd.setExp v.pp.expect l true }, v.gw, v.av ++ [finTok l], g'⟩

theorem finTok_kind (l : Nat) : (finTok l).kind = .fin := rfl
theorem finTok_notData (l : Nat) : isData (finTok l) = false := rfl
theorem finTok_isFin (l : Nat) : isFin (finTok l) = true := rfl

theorem rise_bad {v : View} (h : VInv v) {x : Tok} {rest : List Tok} (hav : v.av = x :: rest)
    (hx : isData x = true) (hl : v.pp.hwm < x.retries) : v.good = false := by
  cases hg : v.good with
  | false => rfl
  | true =>
    have := h.cap hg x (by rw [hav, data_cons_data _ hx]; exact List.mem_cons_self ..)
    omega

/-- everything in the arrival stream is at most at the level of the head that raises the watermark -/
theorem rise_cap {v : View} (h : VInv v) {x : Tok} {rest : List Tok} (hav : v.av = x :: rest)
    (hx : isData x = true) (hl : v.pp.hwm < x.retries) : ∀ y ∈ data v.av, y.retries ≤ x.retries := by
  intro y hy
  by_cases hy' : v.pp.hwm < y.retries
  · have h0 := h.hi
    rw [hav, data_cons_data _ hx, List.filter_cons] at h0
    have : decide (v.pp.hwm < x.retries) = true := by simpa using hl
    rw [this] at h0
    rw [hav, data_cons_data _ hx] at hy
    rcases List.mem_cons.1 hy with rfl | hy
    · exact Nat.le_refl _
    · exact (List.pairwise_cons.1 h0).1 y (List.mem_filter.2 ⟨hy, by simpa using hy'⟩)
  · omega

theorem VInv.rise {v : View} (h : VInv v) (x : Tok) (rest : List Tok) (hav : v.av = x :: rest)
    (hx : isData x = true) (hl : v.pp.hwm < x.retries) (g' : Bool) : VInv (riseV v x.retries g') := by
  have hbad := rise_bad h hav hx hl
  have hgw : v.gw = [] := h.gbad hbad
  have hcap := rise_cap h hav hx hl
  have hd : data (v.av ++ [finTok x.retries]) = data v.av := by
    rw [data_append, data_cons_not _ (finTok_notData _)]; simp [data]
  refine ⟨fun k => ?_, h.bufx, ?_, ?_, ?_, h.gdata, fun _ => hgw, ?_, ?_, ?_, ?_, ?_, ?_, ?_⟩
  · show (v.gw ++ v.buf k ++ data (v.av ++ [finTok x.retries])).Pairwise R
    rw [hd]; exact h.ord k
  · intro g hg; rw [show (riseV v x.retries g').gw = v.gw from rfl, hgw] at hg; cases hg
  · intro g hg; rw [show (riseV v x.retries g').gw = v.gw from rfl, hgw] at hg; cases hg
  · show Desc v.gw
    rw [hgw]; exact List.Pairwise.nil
  · show Desc ((data (v.av ++ [finTok x.retries])).filter (fun t => decide (x.retries < t.retries)))
    rw [hd]
    have : (data v.av).filter (fun t => decide (x.retries < t.retries)) = [] := by
      simp only [List.filter_eq_nil_iff, decide_eq_true_eq]
      intro y hy; have := hcap y hy; omega
    rw [this]; exact List.Pairwise.nil
  · intro _ y hy
    change y ∈ data (v.av ++ [finTok x.retries]) at hy
    rw [hd] at hy; exact hcap y hy
  · have hmono : v.av.Pairwise (Cov (riseV v x.retries g').pp.expect) := by
      refine h.beh.imp ?_
      intro a b hab ha hb
      rcases hab ha hb with h1 | h1 | ⟨k, k1, k2, k3⟩
      · exact Or.inl h1
      · exact Or.inr (Or.inl h1)
      · refine Or.inr (Or.inr ⟨k, k1, ?_, k3⟩)
        simp only [riseV, PartProd.setExp]
        split
        · rfl
        · exact k2
    refine List.pairwise_append.2 ⟨hmono, List.pairwise_singleton _ _, ?_⟩
    intro a _ b hb _ hk
    rw [List.mem_singleton.1 hb, finTok_kind] at hk; cases hk
  · intro f hf hk
    rcases List.mem_append.1 hf with hf | hf
    · have h1 := h.fin1 f hf hk
      have hne : ¬ f.retries = x.retries := by omega
      refine ⟨h1.1, by show f.retries ≤ x.retries; omega, ?_⟩
      simp only [riseV, PartProd.setExp, hne, ↓reduceIte]; exact h1.2.2
    · rw [List.mem_singleton.1 hf]
      refine ⟨by show 1 ≤ x.retries; omega, Nat.le_refl _, ?_⟩
      simp [riseV, PartProd.setExp, finTok]
  · show (finLevels (v.av ++ [finTok x.retries])).Nodup
    simp only [finLevels, List.filter_append, List.map_append, List.filter_cons, finTok_isFin, ↓reduceIte,
      List.filter_nil, List.map_cons, List.map_nil]
    refine List.nodup_append.2 ⟨h.fin2, (by simp), ?_⟩
    intro a ha b hb
    rw [List.mem_singleton.1 hb]
    simp only [List.mem_map, List.mem_filter] at ha
    obtain ⟨f, ⟨hf, hk⟩, rfl⟩ := ha
    have := (h.fin1 f hf (by simpa [isFin] using hk)).2.1
    show f.retries ≠ (finTok x.retries).retries
    simp only [finTok]; omega
  · intro y hy
    rcases List.mem_append.1 hy with hy | hy
    · exact h.nosyn y hy
    · rw [List.mem_singleton.1 hy, finTok_kind]; simp
  · exact ⟨fun l hl' => h.pinv.above l (by have : x.retries ≤ l := hl'; omega), h.pinv.typed⟩

/-- the produce set fails (retriable verdict or connection error): everything the worker holds or would have
    accepted is bounced, in order -/
theorem VInv.fail {v : View} (h : VInv v) (M : Nat) (hg : v.good = true) :
    VInv ⟨v.pp, [], v.av ++ bumpF M v.gw, false⟩ := by
  have hD : ∀ d ∈ bumpF M v.gw, ∃ g ∈ v.gw, d = bump g := fun d hd => mem_bumpF hd
  refine h.appendBad (bumpF M v.gw) ?_ ?_ ?_ ?_
  · intro d hd; obtain ⟨g, hg', rfl⟩ := hD d hd
    refine ⟨bump_data (by simp [isData, h.gdata g hg']), ?_⟩
    rw [bump_retries]; have := h.ghw g hg'; omega
  · simp only [bumpF, Desc]
    refine List.Pairwise.map _ (fun a b hab => ?_) (h.gdesc.sublist List.filter_sublist)
    simp only [bump_retries]; omega
  · intro a ha hlt; have := h.cap hg a ha; omega
  · intro k
    have hk := h.ord k
    rw [List.append_assoc, List.pairwise_append] at hk
    have hgwR : v.gw.Pairwise R := hk.1
    rw [← List.append_assoc]
    refine List.pairwise_append.2 ⟨hk.2.1, pairwise_bumpF hgwR, ?_⟩
    intro y hy d hd
    obtain ⟨g, hg', rfl⟩ := hD d hd
    have hlow : g.id < y.id := by
      apply h.low g hg' y
      rcases List.mem_append.1 hy with hy | hy
      · exact Or.inr ⟨k, hy⟩
      · exact Or.inl hy
    have hyl : y.retries ≤ v.pp.hwm := by
      rcases List.mem_append.1 hy with hy | hy
      · have hk' : k < v.pp.hwm := by
          apply Nat.lt_of_not_le; intro hle; rw [buf_above h hle] at hy; simp at hy
        rw [(buf_typed h hy).1]; omega
      · exact h.cap hg y hy
    have := h.ghw g hg'
    exact ⟨fun h1 => by rw [bump_retries] at h1; omega, fun _ => by rw [bump_id]; exact hlow⟩

/-! ### flushRetryBuffers, one level at a time -/

/-- after the chaser of the current level has been consumed: the arrival stream has only fresh tokens and
    tokens above the current level -/
def ZV (v : View) : Prop := ∀ y ∈ data v.av, y.retries = 0 ∨ v.pp.hwm < y.retries ∨
  ∃ k, k < v.pp.hwm ∧ v.pp.expect k = true ∧ y.retries ≤ k

/-- what `ZV` says at level `j + 1`: nothing in the arrival stream sits exactly at that level -/
theorem ZV.split {v : View} (hz : ZV v) {j : Nat} (hj : v.pp.hwm = j + 1) :
    ∀ y ∈ data v.av, y.retries ≤ j ∨ j + 1 < y.retries := by
  intro y hy
  rcases hz y hy with h | h | ⟨k, k1, _, k3⟩
  · left; omega
  · right; omega
  · left; omega

def downPP (pp : PartProd.St) (j : Nat) : PartProd.St :=
  { pp with hwm := j, bufs := PartProd.setBuf pp.bufs j [] }

theorem down_buf (v : View) (j : Nat) (gw av : List Tok) (g : Bool) (k : Nat) :
    View.buf ⟨downPP v.pp j, gw, av, g⟩ k = if k = j then [] else v.buf k := by
  by_cases hk : k = j <;> simp [View.buf, downPP, PartProd.setBuf, hk]

theorem down_mem {v : View} {j : Nat} {gw av : List Tok} {g : Bool} {k : Nat} {a : Tok}
    (ha : a ∈ View.buf ⟨downPP v.pp j, gw, av, g⟩ k) : a ∈ v.buf k ∧ k ≠ j := by
  rw [down_buf] at ha
  split at ha
  · cases ha
  · exact ⟨ha, by assumption⟩

theorem down_pinv {v : View} (h : VInv v) {j : Nat} (hj : v.pp.hwm = j + 1) : Props.C02.PPInv (downPP v.pp j) := by
  refine ⟨fun l hl => ?_, fun l t ht => ?_⟩
  · simp only [downPP, PartProd.setBuf]
    split
    · rfl
    · exact h.pinv.above l (by have : j ≤ l := hl; omega)
  · simp only [downPP, PartProd.setBuf] at ht
    split at ht
    · cases ht
    · exact h.pinv.typed l t ht

/-- go down one level, forgetting (for the moment) the buffer of that level -/
theorem VInv.down0 {v : View} (h : VInv v) (hz : ZV v) {j : Nat} (hj : v.pp.hwm = j + 1)
    (he : v.pp.expect (j + 1) = false) : VInv ⟨downPP v.pp j, v.gw, v.av, v.good⟩ := by
  refine ⟨fun k => ?_, ?_, ?_, ?_, h.gdesc, h.gdata, h.gbad, ?_, ?_, h.beh, ?_, h.fin2, h.nosyn, down_pinv h hj⟩
  · rw [down_buf]
    split
    · exact (h.ord k).sublist (by simp)
    · exact h.ord k
  · intro k k' a b ha hb hkk; exact h.bufx k k' a b (down_mem ha).1 (down_mem hb).1 hkk
  · intro g hg x hx
    refine h.low g hg x ?_
    rcases hx with hx | ⟨k, hx⟩
    · exact Or.inl hx
    · exact Or.inr ⟨k, (down_mem hx).1⟩
  · intro g hg; have := h.ghw g hg; show j ≤ g.retries; omega
  · show Desc ((data v.av).filter (fun t => decide (j < t.retries)))
    have : (data v.av).filter (fun t => decide (j < t.retries)) =
        (data v.av).filter (fun t => decide (v.pp.hwm < t.retries)) := by
      apply List.filter_congr
      intro y hy
      rcases hz.split hj y hy with h0 | h1
      · have a1 : ¬ j < y.retries := by omega
        have a2 : ¬ v.pp.hwm < y.retries := by omega
        simp [a1, a2]
      · have h2 : j < y.retries := by omega
        have h3 : v.pp.hwm < y.retries := by omega
        simp [h3, h2]
    rw [this]; exact h.hi
  · intro hg y hy
    have := h.cap hg y hy
    rcases hz.split hj y hy with h0 | h1
    · exact h0
    · omega
  · intro f hf hk
    have := h.fin1 f hf hk
    refine ⟨this.1, ?_, this.2.2⟩
    show f.retries ≤ j
    have hne : f.retries ≠ j + 1 := fun e => by rw [e, he] at this; exact absurd this.2.2 (by simp)
    omega

theorem VInv.flushGood {v : View} (h : VInv v) (hz : ZV v) {j : Nat} (hj : v.pp.hwm = j + 1)
    (he : v.pp.expect (j + 1) = false) (hg : v.good = true) :
    VInv ⟨downPP v.pp j, v.gw ++ v.buf j, v.av, v.good⟩ := by
  have h0 := h.down0 hz hj he
  have hlvl0 : ∀ y ∈ data v.av, y.retries ≤ j := by
    intro y hy
    have := h.cap hg y hy
    rcases hz.split hj y hy with h1 | h1 <;> omega
  have hbj : ∀ b ∈ v.buf j, ∀ x, (x ∈ data v.av ∨ ∃ k, k ≠ j ∧ x ∈ v.buf k) → b.id < x.id := by
    intro b hb x hx
    rcases hx with hx | ⟨k, hkj, hx⟩
    · have hk := h.ord j
      rw [List.pairwise_append] at hk
      have := hk.2.2 b (List.mem_append_right _ hb) x hx
      exact this.1 (by rw [(buf_typed h hb).1]; exact hlvl0 x hx)
    · have hk' : k < v.pp.hwm := by
        apply Nat.lt_of_not_le; intro hle; rw [buf_above h hle] at hx; simp at hx
      exact h.bufx k j x b hx hb (by omega)
  refine ⟨fun k => ?_, h0.bufx, ?_, ?_, ?_, ?_, ?_, h0.hi, h0.cap, h0.beh, h0.fin1, h0.fin2, h0.nosyn, h0.pinv⟩
  · rw [down_buf]
    split
    · have := h.ord j; simpa [List.append_assoc] using this
    · rename_i hkj
      have hk := h.ord k
      have hjj := h.ord j
      rw [List.append_assoc, List.pairwise_append] at hk hjj
      rw [List.append_assoc, List.pairwise_append]
      refine ⟨?_, hk.2.1, ?_⟩
      · exact (List.pairwise_append.2 hjj).sublist (by simp)
      · intro a ha b hb
        rcases List.mem_append.1 ha with ha | ha
        · exact hk.2.2 a ha b hb
        · have hlt : a.id < b.id := by
            apply hbj a ha b
            rcases List.mem_append.1 hb with hb | hb
            · exact Or.inr ⟨k, hkj, hb⟩
            · exact Or.inl hb
          refine ⟨fun _ => hlt, fun hl => ?_⟩
          exfalso
          rcases List.mem_append.1 hb with hb | hb
          · have hk' : k < v.pp.hwm := by
              apply Nat.lt_of_not_le; intro hle; rw [buf_above h hle] at hb; simp at hb
            rw [(buf_typed h ha).1, (buf_typed h hb).1] at hl; omega
          · have := hlvl0 b hb; rw [(buf_typed h ha).1] at hl; omega
  · intro g hg' x hx
    rcases List.mem_append.1 hg' with hg' | hg'
    · exact h0.low g hg' x hx
    · apply hbj g hg' x
      rcases hx with hx | ⟨k, hx⟩
      · exact Or.inl hx
      · exact Or.inr ⟨k, (down_mem hx).2, (down_mem hx).1⟩
  · intro g hg'
    rcases List.mem_append.1 hg' with hg' | hg'
    · exact h0.ghw g hg'
    · show j ≤ g.retries; rw [(buf_typed h hg').1]; exact Nat.le_refl _
  · refine List.pairwise_append.2 ⟨h.gdesc, ?_, ?_⟩
    · refine List.Pairwise.imp_of_mem ?_
        (List.pairwise_of_forall (l := v.buf j) (fun _ _ => trivial) : (v.buf j).Pairwise fun _ _ => True)
      intro a b ha hb _
      rw [(buf_typed h ha).1, (buf_typed h hb).1]; exact Nat.le_refl _
    · intro a ha b hb
      have := h.ghw a ha
      rw [(buf_typed h hb).1]; omega
  · intro g hg'
    rcases List.mem_append.1 hg' with hg' | hg'
    · exact h.gdata g hg'
    · exact (buf_typed h hg').2
  · intro hb; rw [hg] at hb; cases hb

theorem VInv.flushBad {v : View} (h : VInv v) (hz : ZV v) (M : Nat) {j : Nat} (hj : v.pp.hwm = j + 1)
    (he : v.pp.expect (j + 1) = false) (hg : v.good = false) :
    VInv ⟨downPP v.pp j, [], v.av ++ bumpF M (v.buf j), false⟩ := by
  have h0 := h.down0 hz hj he
  have hgw : v.gw = [] := h.gbad hg
  have hD : ∀ d ∈ bumpF M (v.buf j), ∃ b ∈ v.buf j, d = bump b := fun d hd => mem_bumpF hd
  have hbR : (v.buf j).Pairwise R := by
    have := h.ord j; rw [hgw, List.nil_append, List.pairwise_append] at this; exact this.1
  refine h0.appendBad (bumpF M (v.buf j)) ?_ ?_ ?_ ?_
  · intro d hd; obtain ⟨b, hb, rfl⟩ := hD d hd
    refine ⟨bump_data (by simp [isData, (buf_typed h hb).2]), ?_⟩
    show j < (bump b).retries
    rw [bump_retries, (buf_typed h hb).1]; omega
  · refine List.Pairwise.imp_of_mem ?_ (List.pairwise_of_forall (l := bumpF M (v.buf j)) (fun _ _ => trivial) :
      (bumpF M (v.buf j)).Pairwise fun _ _ => True)
    intro a b ha hb _
    obtain ⟨a', ha', rfl⟩ := hD a ha
    obtain ⟨b', hb', rfl⟩ := hD b hb
    rw [bump_retries, bump_retries, (buf_typed h ha').1, (buf_typed h hb').1]; exact Nat.le_refl _
  · intro a ha hlt d hd
    obtain ⟨b, hb, rfl⟩ := hD d hd
    have h1 : j < a.retries := hlt
    rw [bump_retries, (buf_typed h hb).1]
    rcases hz.split hj a ha with h2 | h2 <;> omega
  · intro k
    show (View.buf ⟨downPP v.pp j, v.gw, v.av, v.good⟩ k ++ (data v.av ++ bumpF M (v.buf j))).Pairwise R
    rw [← List.append_assoc]
    refine List.pairwise_append.2 ⟨?_, pairwise_bumpF hbR, ?_⟩
    · have := h0.ord k; rw [hgw, List.nil_append] at this; exact this
    · intro y hy d hd
      obtain ⟨b, hb, rfl⟩ := hD d hd
      have hbl := (buf_typed h hb).1
      rcases List.mem_append.1 hy with hy | hy
      · have hy' := down_mem hy
        have hk' : k < v.pp.hwm := by
          apply Nat.lt_of_not_le; intro hle; rw [buf_above h hle] at hy'; simp at hy'
        have hyl := (buf_typed h hy'.1).1
        have := h.bufx k j y b hy'.1 hb (by have := hy'.2; omega)
        exact ⟨fun h1 => by rw [bump_retries] at h1; omega, fun _ => by rw [bump_id]; exact this⟩
      · have hk := h.ord j
        rw [hgw, List.nil_append, List.pairwise_append] at hk
        have := hk.2.2 b hb y hy
        exact ⟨fun h1 => by rw [bump_retries] at h1; rw [bump_id]; exact this.2 (by omega),
               fun h1 => by rw [bump_retries] at h1; rw [bump_id]; exact this.1 (by omega)⟩

/-- one level of flushRetryBuffers in the view -/
def stepV (M : Nat) (v : View) (j : Nat) : View :=
  ⟨downPP v.pp j, v.gw ++ (if v.good then v.buf j else []),
   v.av ++ (if v.good then [] else bumpF M (v.buf j)), v.good⟩

theorem VInv.flushOne {v : View} (h : VInv v) (hz : ZV v) (M : Nat) {j : Nat} (hj : v.pp.hwm = j + 1)
    (he : v.pp.expect (j + 1) = false) :
    VInv (stepV M v j) ∧ (v.pp.expect j = false → ZV (stepV M v j)) := by
  have hold : v.pp.expect j = false → ∀ y ∈ data v.av, y.retries = 0 ∨ j < y.retries ∨
      ∃ k, k < j ∧ v.pp.expect k = true ∧ y.retries ≤ k := by
    intro hej y hy
    rcases hz y hy with h1 | h1 | ⟨k, k1, k2, k3⟩
    · exact Or.inl h1
    · right; left; omega
    · have : k ≠ j := fun e => by rw [e, hej] at k2; cases k2
      exact Or.inr (Or.inr ⟨k, by omega, k2, k3⟩)
  cases hg : v.good with
  | true =>
    have := h.flushGood hz hj he hg
    refine ⟨by simpa [stepV, hg] using this, ?_⟩
    intro hej y hy
    have hy' : y ∈ data v.av := by simpa [stepV, hg] using hy
    exact hold hej y hy'
  | false =>
    have := h.flushBad hz M hj he hg
    have hgw : v.gw = [] := h.gbad hg
    refine ⟨by simpa [stepV, hg, hgw] using this, ?_⟩
    intro hej y hy
    have hy' : y ∈ data (v.av ++ bumpF M (v.buf j)) := by simpa [stepV, hg] using hy
    rw [data_append] at hy'
    rcases List.mem_append.1 hy' with hy' | hy'
    · exact hold hej y hy'
    · obtain ⟨b, hb, rfl⟩ := mem_bumpF (mem_data.1 hy').1
      right; left
      show j < (bump b).retries
      rw [bump_retries, (buf_typed h hb).1]; omega

def emTok : PartProd.Action → Option Tok
  | .emit id l f => some (mkTok id l f)
  | _ => none

def emToks (as : List PartProd.Action) : List Tok := as.filterMap emTok

theorem emToks_append (a b : List PartProd.Action) : emToks (a ++ b) = emToks a ++ emToks b := by
  simp [emToks]

theorem emToks_buf (l : List PartProd.Tok) :
    emToks (l.map (fun t => PartProd.Action.emit t.id t.retries t.fin)) = l.map ofPP := by
  induction l with
  | nil => rfl
  | cons t ts ih =>
    simp only [emToks, List.map_cons, List.filterMap_cons, emTok] at ih ⊢
    rw [ih]; rfl

/-- the whole of flushRetryBuffers in the view -/
def flushV (M : Nat) (v : View) : View :=
  ⟨{ hwm := (PartProd.flush v.pp.hwm v.pp.bufs v.pp.expect).1,
     bufs := (PartProd.flush v.pp.hwm v.pp.bufs v.pp.expect).2.1, expect := v.pp.expect },
   v.gw ++ (if v.good then emToks (PartProd.flush v.pp.hwm v.pp.bufs v.pp.expect).2.2 else []),
   v.av ++ (if v.good then [] else bumpF M (emToks (PartProd.flush v.pp.hwm v.pp.bufs v.pp.expect).2.2)),
   v.good⟩

theorem flushV_stop (M : Nat) (v : View) (j : Nat) (hj : v.pp.hwm = j + 1)
    (hs : v.pp.expect j = true ∨ j = 0) : flushV M v = stepV M v j := by
  have hf : PartProd.flush (j + 1) v.pp.bufs v.pp.expect =
      (j, PartProd.setBuf v.pp.bufs j [], (v.pp.bufs j).map (fun t => PartProd.Action.emit t.id t.retries t.fin)) := by
    rw [PartProd.flush]
    rcases hs with hs | hs
    · simp [hs]
    · subst hs; split <;> simp
  simp only [flushV, hj, hf, emToks_buf, stepV, downPP, View.buf]

theorem flushV_cont (M : Nat) (v : View) (j : Nat) (hj : v.pp.hwm = j + 1)
    (he : v.pp.expect j = false) (h0 : j ≠ 0) : flushV M v = flushV M (stepV M v j) := by
  have hf : PartProd.flush (j + 1) v.pp.bufs v.pp.expect =
      ((PartProd.flush j (PartProd.setBuf v.pp.bufs j []) v.pp.expect).1,
       (PartProd.flush j (PartProd.setBuf v.pp.bufs j []) v.pp.expect).2.1,
       (v.pp.bufs j).map (fun t => PartProd.Action.emit t.id t.retries t.fin) ++
         (PartProd.flush j (PartProd.setBuf v.pp.bufs j []) v.pp.expect).2.2) := by
    rw [PartProd.flush]; simp [he, h0]
  cases hg : v.good <;>
    simp [flushV, hj, hf, emToks_append, emToks_buf, stepV, downPP, View.buf, hg, bumpF_append, List.append_assoc]

/-- flushRetryBuffers keeps the ordering invariant -/
theorem VInv.flushAll (M : Nat) : ∀ (n : Nat) {v : View}, VInv v → ZV v → v.pp.hwm = n + 1 →
    v.pp.expect (n + 1) = false → VInv (flushV M v) := by
  intro n
  induction n with
  | zero =>
    intro v h hz hj he
    rw [flushV_stop M v 0 hj (Or.inr rfl)]
    exact (h.flushOne hz M hj he).1
  | succ n ih =>
    intro v h hz hj he
    have h1 := h.flushOne hz M hj he
    by_cases hs : v.pp.expect (n + 1) = true
    · rw [flushV_stop M v (n + 1) hj (Or.inl hs)]; exact h1.1
    · have hs' : v.pp.expect (n + 1) = false := by simpa using hs
      rw [flushV_cont M v (n + 1) hj hs' (by omega)]
      exact ih h1.1 (h1.2 hs') rfl hs'

end Lemmas.C02sys
