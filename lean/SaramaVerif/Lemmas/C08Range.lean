import SaramaVerif.Model.BalanceRange
import SaramaVerif.Lemmas.C08Assoc
/-
  Arithmetic of the relational range spec and the slice algebra.
-/
namespace Model.Balance

theorem rangeBoundaryB_iff (n m : Nat) (r : Nat → Nat) : rangeBoundaryB n m r = true ↔ RangeBoundary n m r := by
  unfold rangeBoundaryB RangeBoundary
  simp only [Bool.and_eq_true, beq_iff_eq, List.all_eq_true, List.mem_range, decide_eq_true_eq]
  constructor
  · rintro ⟨⟨h0, hm⟩, h⟩
    exact ⟨h0, hm, fun i hi => h i (by omega)⟩
  · rintro ⟨h0, hm, h⟩
    exact ⟨⟨h0, hm⟩, fun i hi => h i (by omega)⟩

/-- consecutive bounds never go backwards -/
theorem RangeBoundary.step_le {n m : Nat} {r : Nat → Nat} (hb : RangeBoundary n m r) {i : Nat} (hi : i < m) :
    r i ≤ r (i + 1) := by
  obtain ⟨_, _, h⟩ := hb
  have h1 := (h i (by omega)).1
  have h2 := (h (i + 1) (by omega)).2
  rw [Nat.add_mul, Nat.one_mul] at h2
  apply Nat.le_of_not_lt
  intro hlt
  have h3 : m * (r (i + 1) + 1) ≤ m * r i := Nat.mul_le_mul_left m hlt
  rw [Nat.mul_add, Nat.mul_one] at h3
  have hn : n = 0 := by omega
  subst hn
  have h4 : m ≤ m * r i := Nat.le_mul_of_pos_right m (by omega)
  omega

theorem RangeBoundary.mono {n m : Nat} {r : Nat → Nat} (hb : RangeBoundary n m r) {i j : Nat} (hij : i ≤ j)
    (hj : j ≤ m) : r i ≤ r j := by
  induction j with
  | zero => have : i = 0 := by omega
            subst this; exact Nat.le_refl _
  | succ j ih =>
    by_cases h : i = j + 1
    · subst h; exact Nat.le_refl _
    · exact Nat.le_trans (ih (by omega) (by omega)) (hb.step_le (by omega))

theorem RangeBoundary.le_n {n m : Nat} {r : Nat → Nat} (hb : RangeBoundary n m r) {i : Nat} (hi : i ≤ m) :
    r i ≤ n := by
  have := hb.mono hi (Nat.le_refl m)
  rw [hb.2.1] at this; exact this

/-- when `m` divides `n` the closed half-unit tolerance pins every bound to the exact point -/
theorem RangeBoundary.exact {q m : Nat} {r : Nat → Nat} (hb : RangeBoundary (q * m) m r) {i : Nat} (hi : i ≤ m)
    (hm : 0 < m) : r i = i * q := by
  obtain ⟨_, _, h⟩ := hb
  obtain ⟨h1, h2⟩ := h i hi
  have e : i * (q * m) = m * (i * q) := by ac_rfl
  rw [e] at h1 h2
  rcases Nat.lt_trichotomy (r i) (i * q) with hlt | heq | hgt
  · have h3 : m * (r i + 1) ≤ m * (i * q) := Nat.mul_le_mul_left m hlt
    rw [Nat.mul_add, Nat.mul_one] at h3
    omega
  · exact heq
  · have h3 : m * (i * q + 1) ≤ m * r i := Nat.mul_le_mul_left m hgt
    rw [Nat.mul_add, Nat.mul_one] at h3
    omega

theorem RangeBoundary.size_exact {q m : Nat} {r : Nat → Nat} (hb : RangeBoundary (q * m) m r) {i : Nat} (hi : i < m) :
    r (i + 1) - r i = q := by
  rw [hb.exact (i := i) (by omega) (by omega), hb.exact (i := i + 1) (by omega) (by omega), Nat.add_mul, Nat.one_mul]
  omega

/-- size of a slice is within less than one member-share of n/m: |n − d·m| < m  (⇔ d = ⌊n/m⌋ or ⌈n/m⌉) -/
theorem RangeBoundary.size_bounds {n m : Nat} {r : Nat → Nat} (hb : RangeBoundary n m r) {i : Nat} (hi : i < m) :
    (r (i + 1) - r i) * m < n + m ∧ n < (r (i + 1) - r i) * m + m := by
  have hle := hb.step_le hi
  have hb' := hb
  obtain ⟨_, _, h⟩ := hb
  obtain ⟨a1, a2⟩ := h i (by omega)
  obtain ⟨b1, b2⟩ := h (i + 1) (by omega)
  rw [Nat.add_mul, Nat.one_mul] at b1 b2
  have hd : (r (i + 1) - r i) * m + m * r i = m * r (i + 1) := by
    rw [Nat.mul_comm (r (i + 1) - r i) m, ← Nat.mul_add, Nat.sub_add_cancel hle]
  have w1 : (r (i + 1) - r i) * m ≤ n + m := by omega
  have w2 : n ≤ (r (i + 1) - r i) * m + m := by omega
  constructor
  · apply Nat.lt_of_le_of_ne w1
    intro heq
    have hd1 : 1 ≤ r (i + 1) - r i := by
      apply Nat.pos_of_ne_zero; intro h0; rw [h0] at heq; omega
    have hn : n = (r (i + 1) - r i - 1) * m := by
      have : (r (i + 1) - r i) * m = (r (i + 1) - r i - 1) * m + m := by
        conv => lhs; rw [← Nat.sub_add_cancel hd1]
        rw [Nat.add_mul, Nat.one_mul]
      omega
    rw [hn] at hb'
    have := hb'.size_exact hi
    omega
  · apply Nat.lt_of_le_of_ne w2
    intro heq
    have hn : n = (r (i + 1) - r i + 1) * m := by rw [Nat.add_mul, Nat.one_mul]; exact heq
    rw [hn] at hb'
    have := hb'.size_exact hi
    omega

/-- concatenating adjacent slices -/
theorem take_drop_append (ps : List Int) {a b c : Nat} (hab : a ≤ b) (hbc : b ≤ c) :
    (ps.drop a).take (b - a) ++ (ps.drop b).take (c - b) = (ps.drop a).take (c - a) := by
  have e : c - a = (b - a) + (c - b) := by omega
  rw [e, List.take_add, List.drop_drop]
  congr 3
  omega


theorem mem_slice {r : Nat → Nat} {ps : List Int} {i : Nat} {p : Int} (h : p ∈ slice r ps i) : p ∈ ps :=
  List.mem_of_mem_drop (List.mem_of_mem_take h)

/-- what the `coreFn` loop adds to the plan, counted per topic partition: the slices i … i+|ms| glued together -/
theorem countAll_rangeCoreFrom (r : Nat → Nat) (t : Topic) (ps : List Int) (M : Nat)
    (hmono : ∀ j k, j ≤ k → k ≤ M → r j ≤ r k) (t' : Topic) (p : Int) :
    ∀ (ms : List Member) (i : Nat) (plan : Plan), i + ms.length ≤ M →
      AL.countAll (rangeCoreFrom r t ps i ms plan) (t', p) =
        AL.countAll plan (t', p) +
          (if t' = t then ((ps.drop (r i)).take (r (i + ms.length) - r i)).count p else 0) := by
  intro ms
  induction ms with
  | nil => intro i plan _; simp [rangeCoreFrom]
  | cons m ms ih =>
    intro i plan hM
    simp only [List.length_cons] at hM
    rw [rangeCoreFrom, ih (i + 1) _ (by omega), countAll_add, count_map_pair]
    by_cases ht : t' = t
    · simp only [ht, ↓reduceIte]
      have e : i + (ms.length + 1) = i + 1 + ms.length := by omega
      rw [List.length_cons, e, ← take_drop_append ps (hmono i (i + 1) (by omega) (by omega))
        (hmono (i + 1) (i + 1 + ms.length) (by omega) (by omega)), List.count_append]
      unfold slice
      omega
    · simp [ht]

theorem planAll_rangeCoreFrom {P : Member → TP → Prop} (r : Nat → Nat) (t : Topic) (ps : List Int) :
    ∀ (ms : List Member) (i : Nat) (plan : Plan), PlanAll P plan → (∀ m, m ∈ ms → ∀ p, p ∈ ps → P m (t, p)) →
      PlanAll P (rangeCoreFrom r t ps i ms plan) := by
  intro ms
  induction ms with
  | nil => intro i plan h _; exact h
  | cons m ms ih =>
    intro i plan h hp
    rw [rangeCoreFrom]
    apply ih
    · exact planAll_add h m t _ (fun p hp' => hp m List.mem_cons_self p (mem_slice hp'))
    · exact fun m' hm' => hp m' (List.mem_cons_of_mem _ hm')

/-- one whole topic: under `RangeBoundary` the slices add up to the partition list -/
theorem countAll_rangeCore {n : Nat} (r : Nat → Nat) (plan : Plan) (ms : List Member) (t : Topic) (ps : List Int)
    (hn : ps.length = n) (hb : RangeBoundary n ms.length r) (t' : Topic) (p : Int) :
    AL.countAll (rangeCore r plan ms t ps) (t', p) =
      AL.countAll plan (t', p) + (if t' = t then ps.count p else 0) := by
  unfold rangeCore
  rw [countAll_rangeCoreFrom r t ps ms.length (fun j k hjk hk => hb.mono hjk hk) t' p ms 0 plan (by omega)]
  rw [Nat.zero_add, hb.1, hb.2.1, Nat.sub_zero, List.drop_zero, ← hn, List.take_length]

theorem AL.get_of_mem_nodup {α : Type} {a : AL α} {k : Nat} {v : List α} (hnd : (AL.keys a).Nodup)
    (h : (k, v) ∈ a) : AL.get a k = v := by
  induction a with
  | nil => simp at h
  | cons e rest ih =>
    obtain ⟨k', v'⟩ := e
    simp only [AL.keys, List.map_cons, List.nodup_cons] at hnd
    rcases List.mem_cons.mp h with h | h
    · injection h with h1 h2; subst h1; subst h2; simp [AL.get]
    · have : k' ≠ k := by
        intro e; subst e
        exact hnd.1 (List.mem_map.mpr ⟨(k', v), h, rfl⟩)
      simp only [AL.get, this, ↓reduceIte]
      exact ih hnd.2 h

/-- the whole plan: every topic of `mbt` contributes its partition list once -/
theorem countAll_rangePlan (r : Topic → Nat → Nat) (ts : Topics) (t' : Topic) (p : Int) :
    ∀ (mbt : AL Member) (plan : Plan), (AL.keys mbt).Nodup →
      (∀ e, e ∈ mbt → RangeBoundary (partsOf ts e.1).length e.2.length (r e.1)) →
      AL.countAll (rangePlan r ts mbt plan) (t', p) =
        AL.countAll plan (t', p) + (if t' ∈ AL.keys mbt then (partsOf ts t').count p else 0) := by
  intro mbt
  induction mbt with
  | nil => intro plan _ _; simp [rangePlan, AL.keys]
  | cons e rest ih =>
    intro plan hnd hr
    obtain ⟨t, ms⟩ := e
    simp only [AL.keys, List.map_cons, List.nodup_cons] at hnd
    rw [rangePlan, ih _ hnd.2 (fun e he => hr e (List.mem_cons_of_mem _ he)),
      countAll_rangeCore (r t) plan ms t (partsOf ts t) rfl (hr (t, ms) List.mem_cons_self)]
    simp only [AL.keys, List.map_cons, List.mem_cons]
    by_cases h : t' = t
    · subst h
      have : ¬ (t' ∈ List.map (fun x => x.fst) rest) := hnd.1
      simp [this]
    · by_cases hh : t' ∈ List.map (fun x => x.fst) rest <;> simp [h, hh]

theorem planAll_rangePlan {P : Member → TP → Prop} (r : Topic → Nat → Nat) (ts : Topics) :
    ∀ (mbt : AL Member) (plan : Plan), PlanAll P plan →
      (∀ e, e ∈ mbt → ∀ m, m ∈ e.2 → ∀ p, p ∈ partsOf ts e.1 → P m (e.1, p)) →
      PlanAll P (rangePlan r ts mbt plan) := by
  intro mbt
  induction mbt with
  | nil => intro plan h _; exact h
  | cons e rest ih =>
    intro plan h hp
    obtain ⟨t, ms⟩ := e
    rw [rangePlan]
    apply ih
    · exact planAll_rangeCoreFrom (r t) t _ ms 0 plan h (hp (t, ms) List.mem_cons_self)
    · exact fun e he => hp e (List.mem_cons_of_mem _ he)

end Model.Balance
