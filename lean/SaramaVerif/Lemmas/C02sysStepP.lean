/-
  C02 composition: micro-steps of the partition producer on the representation (`Rep`): taking the head of
  pp.input, sending the chaser, selecting the worker (syn), forwarding a data token.
-/
import SaramaVerif.Lemmas.C02sysStepD

set_option linter.unusedSimpArgs false

namespace Lemmas.C02sys
open Model Model.Pipeline

/-- pp.input loses its head and the partition producer state becomes `pp'` -/
def popS (s : Sys) (r : List Tok) (pp' : PartProd.St) : Sys := { s with pq := r, pp := pp' }

theorem rep_pop {M : Nat} {s : Sys} {v : View} (h : Rep M s v) (t : Tok) (r : List Tok) (hq : s.pq = t :: r)
    (pp' : PartProd.St) : ∃ rest, v.av = t :: rest ∧ Rep M (popS s r pp') ⟨pp', v.gw, rest, v.good⟩ := by
  cases h with
  | closed h1 h2 =>
    refine ⟨r ++ s.dq ++ s.ret ++ bumpF M (nosynq (W s).inq), by simp [hq], ?_⟩
    have := Rep.closed (M := M) (s := popS s r pp') h1 h2
    simpa [popS, List.append_assoc] using this
  | normal mk G h1 h2 h3 h4 h5 h6 =>
    refine ⟨r ++ s.dq ++ s.ret, by simp [hq], ?_⟩
    have := Rep.normal (M := M) (s := popS s r pp') mk G h1 h2 h3 h4 h5 h6
    simpa [popS, List.append_assoc] using this
  | failed h1 h2 h3 h4 h5 =>
    refine ⟨r ++ s.dq ++ s.ret ++ bumpF M (W s).inq, by simp [hq], ?_⟩
    have := Rep.failed (M := M) (s := popS s r pp') h1 h2 h3 h4 h5
    simpa [popS, List.append_assoc] using this
  | reopen D k mk G h1 h2 h3 h4 h5 h6 h7 =>
    refine ⟨r ++ s.dq ++ s.ret ++ (bumpF M D ++ [finTok (k + 1)]), by simp [hq], ?_⟩
    have := Rep.reopen (M := M) (s := popS s r pp') D k mk G h1 h2 h3 h4 h5 h6 h7
    simpa [popS, List.append_assoc] using this

/-- a token is put on the input channel of worker 0 -/
def pushS (s : Sys) (x : Tok) : Sys := { s with wk := pushW s.wk 0 x }

theorem W_pushS (s : Sys) (x : Tok) : W (pushS s x) = ⟨(W s).inq ++ [x], (W s).bp, (W s).pend⟩ := by
  simp [pushS, pushW, W, setW]

/-- the view after the partition producer forwarded the data tokens `E` to the worker -/
def pushV (M : Nat) (v : View) (E : List Tok) : View :=
  ⟨v.pp, v.gw ++ (if v.good then E else []), v.av ++ (if v.good then [] else bumpF M E), v.good⟩

theorem rep_push_data {M : Nat} {s : Sys} {v : View} (h : Rep M s v) (hcur : s.cur = some 0) (x : Tok)
    (hx : x.kind = .data) : Rep M (pushS s x) (pushV M v [x]) := by
  have hns : nosynq [x] = [x] := by simp [nosynq, hx]
  cases h with
  | closed h1 h2 =>
    have := Rep.closed (M := M) (s := pushS s x) (by rw [W_pushS]; exact h1) (by simpa [ins, W_pushS] using h2)
    rw [W_pushS] at this
    simpa [pushS, pushV, nosynq_append, hns, bumpF_append, List.append_assoc] using this
  | normal mk G h1 h2 h3 h4 h5 h6 =>
    have := Rep.normal (M := M) (s := pushS s x) mk (G ++ [x]) (by rw [W_pushS]; exact h1)
      (by rw [W_pushS]; exact h2) (by rw [W_pushS]; simp [h3])
      (by intro y hy; rcases List.mem_append.1 hy with hy | hy
          · exact h4 y hy
          · rw [List.mem_singleton.1 hy]; exact hx)
      (by simpa [ins, W_pushS] using h5) (Or.inl hcur)
    rw [show ins (pushS s x) = ins s from by simp [ins, W_pushS]] at this
    simpa [pushS, pushV, List.append_assoc] using this
  | failed h1 h2 h3 h4 h5 =>
    have := Rep.failed (M := M) (s := pushS s x) (by rw [W_pushS]; exact h1) (by rw [W_pushS]; exact h2)
      (by simpa [ins, W_pushS] using h3)
      (by rw [W_pushS]; intro y hy; rcases List.mem_append.1 hy with hy | hy
          · exact h4 y hy
          · rw [List.mem_singleton.1 hy]; exact hx) hcur
    rw [W_pushS] at this
    simpa [pushS, pushV, bumpF_append, List.append_assoc] using this
  | reopen D k mk G h1 h2 h3 h4 h5 h6 h7 =>
    have hmk : mk = [synTok] := by
      rcases h7 with ⟨_, _, h7⟩ | ⟨h7, _⟩
      · rw [hcur] at h7; cases h7
      · exact h7
    subst hmk
    have := Rep.reopen (M := M) (s := pushS s x) D k [synTok] (G ++ [x]) (by rw [W_pushS]; exact h1)
      (by rw [W_pushS]; exact h2) (by simpa [ins, W_pushS] using h3) (by rw [W_pushS]; simp [h4]) h5
      (by intro y hy; rcases List.mem_append.1 hy with hy | hy
          · exact h6 y hy
          · rw [List.mem_singleton.1 hy]; exact hx)
      (Or.inr ⟨rfl, hcur⟩)
    simpa [pushS, pushV, List.append_assoc] using this

/-- updateLeader selects worker 0: a syn goes on its input channel -/
def synS (s : Sys) : Sys := { pushS s synTok with cur := some 0 }

theorem W_synS (s : Sys) : W (synS s) = ⟨(W s).inq ++ [synTok], (W s).bp, (W s).pend⟩ := by
  simp [synS, pushS, pushW, W, setW]

theorem rep_push_syn {M : Nat} {s : Sys} {v : View} (h : Rep M s v) (hcur : s.cur = none) :
    Rep M (synS s) v := by
  have hins : ins (synS s) = ins s := by simp [ins, W_synS]
  cases h with
  | closed h1 h2 =>
    have := Rep.closed (M := M) (s := synS s) (by rw [W_synS]; exact h1) (by rw [hins]; exact h2)
    rw [W_synS] at this
    simpa [synS, pushS, nosynq_append, nosynq_syn] using this
  | failed h1 h2 h3 h4 h5 => rw [hcur] at h5; cases h5
  | normal mk G h1 h2 h3 h4 h5 h6 =>
    rcases h6 with h6 | ⟨_, hq, hi⟩
    · rw [hcur] at h6; cases h6
    · have hG : G = [] := by rw [h3] at hq; exact (List.append_eq_nil_iff.1 hq).2
      subst hG
      have := Rep.normal (M := M) (s := synS s) [synTok] [] (by rw [W_synS]; exact h1)
        (by rw [W_synS]; exact h2) (by rw [W_synS, hq]; rfl) (fun _ hy => by cases hy)
        (Or.inr ⟨rfl, by rw [hins]; exact hi⟩) (Or.inl rfl)
      rw [hins] at this
      simpa [synS, pushS] using this
  | reopen D k mk G h1 h2 h3 h4 h5 h6 h7 =>
    rcases h7 with ⟨rfl, rfl, _⟩ | ⟨_, h7⟩
    · have := Rep.reopen (M := M) (s := synS s) D k [synTok] [] (by rw [W_synS]; exact h1)
        (by rw [W_synS]; exact h2) (by rw [hins]; exact h3) (by rw [W_synS, h4]; simp) h5
        (fun _ hy => by cases hy) (Or.inr ⟨rfl, rfl⟩)
      simpa [synS, pushS] using this
    · rw [hcur] at h7; cases h7

/-- newHighWatermark: the chaser goes to the current worker, which is then dropped -/
def finS (s : Sys) (l : Nat) : Sys := { pushS s (finTok l) with cur := none }

theorem W_finS (s : Sys) (l : Nat) : W (finS s l) = ⟨(W s).inq ++ [finTok l], (W s).bp, (W s).pend⟩ := by
  simp [finS, pushS, pushW, W, setW]

theorem rep_finSend {M : Nat} {s : Sys} {v : View} (h : Rep M s v) (hg : v.good = false) (l : Nat) (hl : l < M) :
    ∃ g', Rep M (finS s l) ⟨v.pp, v.gw, v.av ++ [finTok (l + 1)], g'⟩ := by
  have hins : ins (finS s l) = ins s := by simp [ins, W_finS]
  cases h with
  | normal mk G h1 h2 h3 h4 h5 h6 => cases hg
  | reopen D k mk G h1 h2 h3 h4 h5 h6 h7 => cases hg
  | closed h1 h2 =>
    refine ⟨false, ?_⟩
    have := Rep.closed (M := M) (s := finS s l) (by rw [W_finS]; exact h1) (by rw [hins]; exact h2)
    rw [W_finS] at this
    have hns : nosynq [finTok l] = [finTok l] := by simp [nosynq, finTok]
    simpa [finS, pushS, nosynq_append, hns, bumpF_append, bumpF_fin M l hl, List.append_assoc] using this
  | failed h1 h2 h3 h4 h5 =>
    refine ⟨true, ?_⟩
    have := Rep.reopen (M := M) (s := finS s l) (W s).inq l [] [] (by rw [W_finS]; exact h1)
      (by rw [W_finS]; exact h2) (by rw [hins]; exact h3) (by rw [W_finS]; simp) h4
      (fun _ hy => by cases hy) (Or.inl ⟨rfl, rfl, rfl⟩)
    simpa [finS, pushS, List.append_assoc] using this

/-- what forwarding data tokens `E` leaves untouched -/
structure Frame (s s2 : Sys) (E : List Tok) : Prop where
  pp : s2.pp = s.pp
  pq : s2.pq = s.pq
  dq : s2.dq = s.dq
  ret : s2.ret = s.ret
  next : s2.next = s.next
  log : s2.log = s.log
  succ : s2.succ = s.succ
  crash : s2.crash = s.crash
  bp : (W s2).bp = (W s).bp
  pend : (W s2).pend = (W s).pend
  inq : ∀ y ∈ (W s2).inq, y ∈ (W s).inq ∨ y = synTok ∨ y ∈ E
  cur : s2.cur = some 0 ∨ (s2.cur = none ∧ s.cur = none ∧ E = [])

theorem pushV_pushV (M : Nat) (v : View) (a b : List Tok) : pushV M (pushV M v a) b = pushV M v (a ++ b) := by
  cases hg : v.good <;> simp [pushV, hg, bumpF_append, List.append_assoc]

theorem pushV_nil (M : Nat) (v : View) : pushV M v [] = v := by
  cases v with
  | mk pp gw av good => cases good <;> simp [pushV, bumpF_nil]

theorem Frame.trans {s s2 s3 : Sys} {a b : List Tok} (h1 : Frame s s2 a) (h2 : Frame s2 s3 b) :
    Frame s s3 (a ++ b) := by
  refine ⟨h2.pp.trans h1.pp, h2.pq.trans h1.pq, h2.dq.trans h1.dq, h2.ret.trans h1.ret, h2.next.trans h1.next,
    h2.log.trans h1.log, h2.succ.trans h1.succ, h2.crash.trans h1.crash, h2.bp.trans h1.bp, h2.pend.trans h1.pend,
    ?_, ?_⟩
  · intro y hy
    rcases h2.inq y hy with hy | hy | hy
    · rcases h1.inq y hy with hy | hy | hy
      · exact Or.inl hy
      · exact Or.inr (Or.inl hy)
      · exact Or.inr (Or.inr (List.mem_append_left _ hy))
    · exact Or.inr (Or.inl hy)
    · exact Or.inr (Or.inr (List.mem_append_right _ hy))
  · rcases h2.cur with h | ⟨h, h', hb⟩
    · exact Or.inl h
    · rcases h1.cur with g | ⟨_, g', ha⟩
      · rw [g] at h'; cases h'
      · exact Or.inr ⟨h, g', by rw [ha, hb]; rfl⟩

theorem mkTok_eq (x : Tok) (hx : x.kind = .data) (hp : x.part = 0) : mkTok x.id x.retries false = x := by
  cases x with
  | mk id part retries kind => simp_all [mkTok]

def emitA (x : Tok) : PartProd.Action := .emit x.id x.retries false

def OkLks (lks : List (Option Nat)) : Prop := ∀ l ∈ lks, l = none ∨ l = some 0

theorem emit1 {M : Nat} {s : Sys} {v : View} {lks : List (Option Nat)} (h : Rep M s v)
    (hc : s.cur = none ∨ s.cur = some 0) (hl : OkLks lks) (x : Tok) (hx : x.kind = .data) (hp : x.part = 0) :
    ∃ kept, (kept = [] ∨ kept = [x]) ∧ Rep M (ppAct s lks (emitA x)).1 (pushV M v kept) ∧
      Frame s (ppAct s lks (emitA x)).1 kept ∧ OkLks (ppAct s lks (emitA x)).2 := by
  rcases hc with hc | hc
  · -- a leader lookup is needed
    have hfail : ∀ lks', ppAct s lks (emitA x) = ({ s with errs := s.errs ++ [x.id] }, lks') → OkLks lks' →
        ∃ kept, (kept = [] ∨ kept = [x]) ∧ Rep M (ppAct s lks (emitA x)).1 (pushV M v kept) ∧
          Frame s (ppAct s lks (emitA x)).1 kept ∧ OkLks (ppAct s lks (emitA x)).2 := by
      intro lks' he hok
      rw [he]
      refine ⟨[], Or.inl rfl, ?_, ?_, hok⟩
      · rw [pushV_nil]; exact rep_congr h rfl rfl rfl rfl rfl rfl
      · exact ⟨rfl, rfl, rfl, rfl, rfl, rfl, rfl, rfl, rfl, rfl, fun y hy => Or.inl hy, Or.inr ⟨hc, hc, rfl⟩⟩
    cases lks with
    | nil => exact hfail [] (by simp [ppAct, emitA, hc]) (fun _ hl' => by cases hl')
    | cons l0 r =>
      have hr : OkLks r := fun l hl' => hl l (List.mem_cons_of_mem _ hl')
      rcases hl l0 (List.mem_cons_self ..) with rfl | rfl
      · exact hfail r (by simp [ppAct, emitA, hc]) hr
      · have he : ppAct s (some 0 :: r) (emitA x) = (pushS (synS s) x, r) := by
          simp [ppAct, emitA, hc, pushS, synS, mkTok_eq x hx hp]
        rw [he]
        refine ⟨[x], Or.inr rfl, rep_push_data (rep_push_syn h hc) rfl x hx, ?_, hr⟩
        refine ⟨rfl, rfl, rfl, rfl, rfl, rfl, rfl, rfl, ?_, ?_, ?_, Or.inl rfl⟩
        · rw [W_pushS, W_synS]
        · rw [W_pushS, W_synS]
        · intro y hy
          rw [W_pushS, W_synS] at hy
          simp only [List.mem_append, List.mem_singleton] at hy
          rcases hy with (hy | hy) | hy
          · exact Or.inl hy
          · exact Or.inr (Or.inl hy)
          · exact Or.inr (Or.inr (by simp [hy]))
  · have he : ppAct s lks (emitA x) = (pushS s x, lks) := by
      simp [ppAct, emitA, hc, pushS, mkTok_eq x hx hp]
    rw [he]
    refine ⟨[x], Or.inr rfl, rep_push_data h hc x hx, ?_, hl⟩
    refine ⟨rfl, rfl, rfl, rfl, rfl, rfl, rfl, rfl, by rw [W_pushS], by rw [W_pushS], ?_, Or.inl hc⟩
    intro y hy
    rw [W_pushS] at hy
    rcases List.mem_append.1 hy with hy | hy
    · exact Or.inl hy
    · exact Or.inr (Or.inr hy)

theorem Frame.cur01 {s s2 : Sys} {E : List Tok} (h : Frame s s2 E) : s2.cur = none ∨ s2.cur = some 0 := by
  rcases h.cur with h | ⟨h, _⟩
  · exact Or.inr h
  · exact Or.inl h

theorem emitsL {M : Nat} (E : List Tok) (hE : ∀ x ∈ E, x.kind = .data ∧ x.part = 0) :
    ∀ {s : Sys} {v : View} {lks : List (Option Nat)}, Rep M s v → (s.cur = none ∨ s.cur = some 0) → OkLks lks →
      ∃ kept, kept.Sublist E ∧ Rep M (ppActs s lks (E.map emitA)) (pushV M v kept) ∧
        Frame s (ppActs s lks (E.map emitA)) kept := by
  induction E with
  | nil =>
    intro s v lks h hc _
    refine ⟨[], List.Sublist.refl _, by rw [pushV_nil]; exact h, ?_⟩
    refine ⟨rfl, rfl, rfl, rfl, rfl, rfl, rfl, rfl, rfl, rfl, fun y hy => Or.inl hy, ?_⟩
    rcases hc with hc | hc
    · exact Or.inr ⟨hc, hc, rfl⟩
    · exact Or.inl hc
  | cons x E' ih =>
    intro s v lks h hc hl
    obtain ⟨hx, hp⟩ := hE x (List.mem_cons_self ..)
    obtain ⟨k1, hk1, r1, f1, l1⟩ := emit1 h hc hl x hx hp
    obtain ⟨k2, hk2, r2, f2⟩ := ih (fun y hy => hE y (List.mem_cons_of_mem _ hy)) r1 f1.cur01 l1
    refine ⟨k1 ++ k2, ?_, ?_, ?_⟩
    · rcases hk1 with rfl | rfl
      · simpa using hk2.trans (List.sublist_cons_self x E')
      · simpa using hk2.cons_cons x
    · rw [pushV_pushV] at r2; exact r2
    · exact f1.trans f2

end Lemmas.C02sys
