import SaramaVerif.Lemmas.C14Inv
/-
  C14 helper development, part 3: FIFO conservation (every enqueued promise is completed, in the receiver's
  hand, or still queued – in this order), the capacity bound and the Close protocol flags.
-/
namespace Lemmas.C14
open Model.BrokerConn

structure InvB (s : State) : Prop where
  mpos : 1 ≤ s.cfg.maxOpen
  fifo : s.enq = s.done.map (·.p) ++ curList s ++ s.queue
  bound : s.queue.length + curCount s ≤ s.cfg.maxOpen
  bound_res : s.cfg.reserve = true → ∀ p, s.holder = .written p →
      s.queue.length + curCount s + 1 ≤ s.cfg.maxOpen
  closed_lock : s.chanClosed = true → (s.holder = .closing ∨ (s.holder = .free ∧ s.connNil = true))
  exited : s.recvExited = true → s.chanClosed = true ∧ s.queue = [] ∧ s.cur = none
  nil_closed : s.connNil = true → s.chanClosed = true

theorem invB_init (cfg : Cfg) (c0 : Int) (hm : 1 ≤ cfg.maxOpen) : InvB (init cfg c0) := by
  refine ⟨hm, by simp [init, curList], by simp [init, curCount], by simp [init], by simp [init],
    by simp [init], by simp [init]⟩

theorem invB_step {s s' : State} {e : Event} (h : step s e = .ok s') (I : InvB s) : InvB s' := by
  cases e <;> simp only [step] at h
  case sendBegin c hv ex =>
    obtain ⟨hf, ⟨hn, rfl⟩ | ⟨hn, rfl⟩⟩ := sendBegin_inv h
    · exact ⟨I.1, I.2, I.3, I.4, I.5, I.6, I.7⟩
    · refine ⟨I.1, I.2, I.3, by simp, ?_, I.6, I.7⟩
      intro hc
      rcases I.5 hc with h1 | ⟨_, h2⟩
      · simp [hf] at h1
      · simp [hn] at h2
  case write c =>
    obtain ⟨hv, ex, hh, ⟨_, hg, rfl⟩ | ⟨_, rfl⟩⟩ := write_inv h
    · refine ⟨I.1, I.2, I.3, ?_, ?_, I.6, I.7⟩
      · intro hr p _
        have := hg hr
        simp only [curCount] at this ⊢
        omega
      · intro hc
        rcases I.5 hc with h1 | ⟨h1, _⟩ <;> simp [hh] at h1
    · refine ⟨I.1, I.2, I.3, by simp, ?_, I.6, I.7⟩
      intro hc
      rcases I.5 hc with h1 | ⟨h1, _⟩ <;> simp [hh] at h1
  case writeFail c =>
    obtain ⟨hv, ex, hh, rfl⟩ := writeFail_inv h
    refine ⟨I.1, I.2, I.3, by simp, ?_, I.6, I.7⟩
    intro hc
    rcases I.5 hc with h1 | ⟨h1, _⟩ <;> simp [hh] at h1
  case enqueue c =>
    obtain ⟨p, hh, _, hg, rfl⟩ := enqueue_inv h
    have hnc : s.chanClosed = false := by
      cases hcc : s.chanClosed
      · rfl
      · rcases I.5 hcc with h1 | ⟨h1, _⟩ <;> simp [hh] at h1
    refine ⟨I.1, ?_, ?_, by simp, ?_, ?_, I.7⟩
    · have := I.2
      simp only [curList] at this ⊢
      rw [this]; simp
    · have := I.3
      have hm := I.1
      simp only [curCount, List.length_append, List.length_singleton] at this ⊢
      rcases hg with hg | ⟨hq, hc⟩
      · split <;> omega
      · simp only [hq, hc, List.length_nil]; omega
    · intro hc; simp [hnc] at hc
    · intro hx
      have := (I.6 hx).1
      simp [hnc] at this
  case recvDeq =>
    obtain ⟨hx, hcur, p, rest, hq, ⟨e, _, rfl⟩ | ⟨_, rfl⟩⟩ := recvDeq_inv h
    · refine ⟨I.1, ?_, ?_, ?_, I.5, ?_, I.7⟩
      · have := I.2
        simp only [curList, hcur, hq] at this ⊢
        rw [this]; simp
      · have := I.3
        simp only [curCount, hcur, hq, List.length_cons] at this ⊢
        omega
      · intro hr q hw
        have := I.4 hr q hw
        simp only [curCount, hcur, hq, List.length_cons] at this ⊢
        omega
      · intro hx'; simp [hx] at hx'
    · refine ⟨I.1, ?_, ?_, ?_, I.5, ?_, I.7⟩
      · have := I.2
        simp only [curList, hcur, hq] at this ⊢
        rw [this]; simp
      · have := I.3
        simp only [curCount, hcur, hq, List.length_cons] at this ⊢
        omega
      · intro hr q hw
        have := I.4 hr q hw
        simp only [curCount, hcur, hq, List.length_cons] at this ⊢
        omega
      · intro hx'; simp [hx] at hx'
  case recvHeader =>
    obtain ⟨p, hcur, _, ⟨e, _, rfl⟩ | ⟨len, _, rfl⟩⟩ := recvHeader_inv h
    · have hx : s.recvExited = false := by
        cases hxx : s.recvExited
        · rfl
        · have := (I.6 hxx).2.2; simp [hcur] at this
      refine ⟨I.1, ?_, ?_, ?_, I.5, ?_, I.7⟩
      · have := I.2
        simp only [curList, hcur, failCur, afterTake] at this ⊢
        rw [this]; simp
      · have := I.3
        simp only [curCount, hcur, failCur, afterTake] at this ⊢
        omega
      · intro hr q hw
        have := I.4 hr q hw
        simp only [curCount, hcur, failCur, afterTake] at this ⊢
        omega
      · intro hx'; simp [failCur, afterTake, hx] at hx'
    · have hx : s.recvExited = false := by
        cases hxx : s.recvExited
        · rfl
        · have := (I.6 hxx).2.2; simp [hcur] at this
      refine ⟨I.1, ?_, ?_, ?_, I.5, ?_, I.7⟩
      · have := I.2
        simp only [curList, hcur, afterTake] at this ⊢
        exact this
      · have := I.3
        simp only [curCount, hcur, afterTake] at this ⊢
        exact this
      · intro hr q hw
        have := I.4 hr q hw
        simp only [curCount, hcur, afterTake] at this ⊢
        exact this
      · intro hx'; simp [afterTake, hx] at hx'
  case recvBody =>
    obtain ⟨p, hdr, need, hcur, _, rfl⟩ := recvBody_inv h
    have hx : s.recvExited = false := by
      cases hxx : s.recvExited
      · rfl
      · have := (I.6 hxx).2.2; simp [hcur] at this
    refine ⟨I.1, ?_, ?_, ?_, I.5, ?_, I.7⟩
    · have := I.2
      simp only [curList, hcur] at this ⊢
      rw [this]; simp
    · have := I.3
      simp only [curCount, hcur] at this ⊢
      omega
    · intro hr q hw
      have := I.4 hr q hw
      simp only [curCount, hcur] at this ⊢
      omega
    · intro hx'; simp [hx] at hx'
  case recvEOF =>
    obtain ⟨p, ph, hcur, _, _, rfl⟩ := recvEOF_inv h
    have hx : s.recvExited = false := by
      cases hxx : s.recvExited
      · rfl
      · have := (I.6 hxx).2.2; simp [hcur] at this
    refine ⟨I.1, ?_, ?_, ?_, I.5, ?_, I.7⟩
    · have := I.2
      simp only [curList, hcur, failCur] at this ⊢
      rw [this]; simp
    · have := I.3
      simp only [curCount, hcur, failCur] at this ⊢
      omega
    · intro hr q hw
      have := I.4 hr q hw
      simp only [curCount, hcur, failCur] at this ⊢
      omega
    · intro hx'; simp [failCur, hx] at hx'
  case recvTimeout =>
    obtain ⟨p, ph, hcur, _, rfl⟩ := recvTimeout_inv h
    have hx : s.recvExited = false := by
      cases hxx : s.recvExited
      · rfl
      · have := (I.6 hxx).2.2; simp [hcur] at this
    refine ⟨I.1, ?_, ?_, ?_, I.5, ?_, I.7⟩
    · have := I.2
      simp only [curList, hcur, failCur] at this ⊢
      rw [this]; simp
    · have := I.3
      simp only [curCount, hcur, failCur] at this ⊢
      omega
    · intro hr q hw
      have := I.4 hr q hw
      simp only [curCount, hcur, failCur] at this ⊢
      omega
    · intro hx'; simp [failCur, hx] at hx'
  case srvBytes bs =>
    obtain ⟨_, rfl⟩ := srvBytes_inv h
    exact ⟨I.1, I.2, I.3, I.4, I.5, I.6, I.7⟩
  case srvClose =>
    obtain ⟨_, rfl⟩ := srvClose_inv h
    exact ⟨I.1, I.2, I.3, I.4, I.5, I.6, I.7⟩
  case closeBegin =>
    obtain ⟨hf, hn, rfl⟩ := closeBegin_inv h
    refine ⟨I.1, I.2, I.3, by simp, by simp, ?_, by simp⟩
    intro hx
    have := I.6 hx
    exact ⟨rfl, this.2⟩
  case recvExit =>
    obtain ⟨_, hc, hcur, hq, rfl⟩ := recvExit_inv h
    exact ⟨I.1, I.2, I.3, I.4, I.5, fun _ => ⟨hc, hq, hcur⟩, I.7⟩
  case closeEnd =>
    obtain ⟨hc, hx, rfl⟩ := closeEnd_inv h
    refine ⟨I.1, I.2, I.3, by simp, ?_, I.6, ?_⟩
    · intro _; exact .inr ⟨rfl, rfl⟩
    · intro _; exact (I.6 hx).1

end Lemmas.C14
