/-
  C02 composition: the steps that only move tokens between the queues in front of the partition producer
  (submit, retryOut, dispatch) and the leader move keep the invariant `Good`.
-/
import SaramaVerif.Lemmas.C02sysRep

set_option linter.unusedSimpArgs false

namespace Lemmas.C02sys
open Model Model.Pipeline

theorem good_retryOut {M : Nat} {s : Sys} {v : View} (h : Good M s v) (t : Tok) (r : List Tok)
    (hr : s.ret = t :: r) : Good M { s with ret := r, dq := s.dq ++ [t] } v := by
  obtain ⟨hrep, hv, hc, hl⟩ := h
  refine ⟨?_, hv, ?_, ?_⟩
  · cases hrep with
    | closed h1 h2 =>
      have := Rep.closed (M := M) (s := { s with ret := r, dq := s.dq ++ [t] }) h1 h2
      simpa [hr, List.append_assoc] using this
    | normal mk G h1 h2 h3 h4 h5 h6 =>
      have := Rep.normal (M := M) (s := { s with ret := r, dq := s.dq ++ [t] }) mk G h1 h2 h3 h4 h5 h6
      simpa [hr, List.append_assoc] using this
    | failed h1 h2 h3 h4 h5 =>
      have := Rep.failed (M := M) (s := { s with ret := r, dq := s.dq ++ [t] }) h1 h2 h3 h4 h5
      simpa [hr, List.append_assoc] using this
    | reopen D k mk G h1 h2 h3 h4 h5 h6 h7 =>
      have := Rep.reopen (M := M) (s := { s with ret := r, dq := s.dq ++ [t] }) D k mk G h1 h2 h3 h4 h5 h6 h7
      simpa [hr, List.append_assoc] using this
  · refine ⟨hc.pinv, ?_, ?_, hc.finq, ?_, hc.cur01, hc.capN, hc.crash⟩
    · intro x hx
      apply hc.p0 x
      simp only [List.mem_append, List.mem_cons, List.mem_singleton, hr] at hx ⊢
      grind
    · intro x hx
      apply hc.lvl x
      simp only [List.mem_append, List.mem_cons, List.mem_singleton, hr] at hx ⊢
      grind
    · intro x hx; exact hc.ret1 x (by rw [hr]; exact List.mem_cons_of_mem _ hx)
  · exact ⟨hl.K, hl.J, hl.S1, hl.S3, hl.S5, hl.S6, hl.idlt, hl.Llt, hl.pend⟩

theorem good_dispatch {M : Nat} {s : Sys} {v : View} (h : Good M s v) (t : Tok) (r : List Tok)
    (hr : s.dq = t :: r) : Good M { s with dq := r, pq := s.pq ++ [t] } v := by
  obtain ⟨hrep, hv, hc, hl⟩ := h
  refine ⟨?_, hv, ?_, ?_⟩
  · cases hrep with
    | closed h1 h2 =>
      have := Rep.closed (M := M) (s := { s with dq := r, pq := s.pq ++ [t] }) h1 h2
      simpa [hr, List.append_assoc] using this
    | normal mk G h1 h2 h3 h4 h5 h6 =>
      have := Rep.normal (M := M) (s := { s with dq := r, pq := s.pq ++ [t] }) mk G h1 h2 h3 h4 h5 h6
      simpa [hr, List.append_assoc] using this
    | failed h1 h2 h3 h4 h5 =>
      have := Rep.failed (M := M) (s := { s with dq := r, pq := s.pq ++ [t] }) h1 h2 h3 h4 h5
      simpa [hr, List.append_assoc] using this
    | reopen D k mk G h1 h2 h3 h4 h5 h6 h7 =>
      have := Rep.reopen (M := M) (s := { s with dq := r, pq := s.pq ++ [t] }) D k mk G h1 h2 h3 h4 h5 h6 h7
      simpa [hr, List.append_assoc] using this
  · refine ⟨hc.pinv, ?_, ?_, hc.finq, hc.ret1, hc.cur01, hc.capN, hc.crash⟩
    · intro x hx
      apply hc.p0 x
      simp only [List.mem_append, List.mem_cons, List.mem_singleton, hr] at hx ⊢
      grind
    · intro x hx
      apply hc.lvl x
      simp only [List.mem_append, List.mem_cons, List.mem_singleton, hr] at hx ⊢
      grind
  · exact ⟨hl.K, hl.J, hl.S1, hl.S3, hl.S5, hl.S6, hl.idlt, hl.Llt, hl.pend⟩

theorem good_moveLeader {M : Nat} {s : Sys} {v : View} (h : Good M s v) (b : Nat) :
    Good M { s with ldr := b } v := by
  obtain ⟨hrep, hv, hc, hl⟩ := h
  refine ⟨?_, hv, ⟨hc.pinv, hc.p0, hc.lvl, hc.finq, hc.ret1, hc.cur01, hc.capN, hc.crash⟩,
    ⟨hl.K, hl.J, hl.S1, hl.S3, hl.S5, hl.S6, hl.idlt, hl.Llt, hl.pend⟩⟩
  cases hrep with
  | closed h1 h2 => exact Rep.closed (s := { s with ldr := b }) h1 h2
  | normal mk G h1 h2 h3 h4 h5 h6 => exact Rep.normal (s := { s with ldr := b }) mk G h1 h2 h3 h4 h5 h6
  | failed h1 h2 h3 h4 h5 => exact Rep.failed (s := { s with ldr := b }) h1 h2 h3 h4 h5
  | reopen D k mk G h1 h2 h3 h4 h5 h6 h7 => exact Rep.reopen (s := { s with ldr := b }) D k mk G h1 h2 h3 h4 h5 h6 h7

def submitS (s : Sys) : Sys := { s with next := s.next + 1, dq := s.dq ++ [mkTok (s.next : Int) 0 false] }

theorem rep_submit {M : Nat} {s : Sys} {v : View} (h : Rep M s v) :
    ∃ l2, v.av = (s.pq ++ s.dq) ++ l2 ∧ (∀ t ∈ l2, t ∈ s.ret ∨ 1 ≤ t.retries) ∧
      Rep M (submitS s) { v with av := (s.pq ++ s.dq) ++ freshTok (s.next : Int) :: l2 } := by
  cases h with
  | closed h1 h2 =>
    refine ⟨s.ret ++ bumpF M (nosynq (W s).inq), by simp [List.append_assoc], ?_, ?_⟩
    · intro t ht
      rcases List.mem_append.1 ht with ht | ht
      · exact Or.inl ht
      · obtain ⟨y, _, rfl⟩ := mem_bumpF ht; right; simp [bump_retries]
    · have := Rep.closed (M := M) (s := submitS s) h1 h2
      simpa [submitS, freshTok, List.append_assoc] using this
  | normal mk G h1 h2 h3 h4 h5 h6 =>
    refine ⟨s.ret, by simp [List.append_assoc], fun t ht => Or.inl ht, ?_⟩
    have := Rep.normal (M := M) (s := submitS s) mk G h1 h2 h3 h4 h5 h6
    simpa [submitS, freshTok, List.append_assoc] using this
  | failed h1 h2 h3 h4 h5 =>
    refine ⟨s.ret ++ bumpF M (W s).inq, by simp [List.append_assoc], ?_, ?_⟩
    · intro t ht
      rcases List.mem_append.1 ht with ht | ht
      · exact Or.inl ht
      · obtain ⟨y, _, rfl⟩ := mem_bumpF ht; right; simp [bump_retries]
    · have := Rep.failed (M := M) (s := submitS s) h1 h2 h3 h4 h5
      simpa [submitS, freshTok, List.append_assoc] using this
  | reopen D k mk G h1 h2 h3 h4 h5 h6 h7 =>
    refine ⟨s.ret ++ (bumpF M D ++ [finTok (k + 1)]), by simp [List.append_assoc], ?_, ?_⟩
    · intro t ht
      rcases List.mem_append.1 ht with ht | ht
      · exact Or.inl ht
      · right
        rcases List.mem_append.1 ht with ht | ht
        · obtain ⟨y, _, rfl⟩ := mem_bumpF ht; simp [bump_retries]
        · rw [List.mem_singleton.1 ht]; simp [finTok]
    · have := Rep.reopen (M := M) (s := submitS s) D k mk G h1 h2 h3 h4 h5 h6 h7
      simpa [submitS, freshTok, List.append_assoc] using this

theorem good_submit {M : Nat} {s : Sys} {v : View} (h : Good M s v) : ∃ v', Good M (submitS s) v' := by
  obtain ⟨hrep, hv, hc, hl⟩ := h
  obtain ⟨l2, hav, hl2, hrep'⟩ := rep_submit hrep
  have hidlt : ∀ x, (x ∈ v.gw ∨ x ∈ data v.av ∨ ∃ k, x ∈ v.buf k) → x.id < (s.next : Int) :=
    fun x hx => hl.idlt x.id ⟨x, hx, rfl⟩
  have hl2' : ∀ x ∈ data l2, 1 ≤ x.retries := by
    intro x hx
    rcases hl2 x (mem_data.1 hx).1 with h1 | h1
    · exact hc.ret1 x h1
    · exact h1
  have hv' := hv.fresh (s.pq ++ s.dq) l2 (s.next : Int) hav hidlt hl2'
  have hlive : ∀ a, LiveId { v with av := (s.pq ++ s.dq) ++ freshTok (s.next : Int) :: l2 } a →
      LiveId v a ∨ a = (s.next : Int) := fun a ha => live_fresh _ _ _ hav ha
  refine ⟨_, hrep', hv', ?_, ?_⟩
  · refine ⟨hc.pinv, ?_, ?_, hc.finq, hc.ret1, hc.cur01, ?_, hc.crash⟩
    · intro x hx
      simp only [submitS, List.mem_append, List.mem_singleton] at hx
      rcases hx with (((hx | hx | hx) | hx) | hx) | hx
      · exact hc.p0 x (by simp [hx])
      · exact hc.p0 x (by simp [hx])
      · rw [hx]; rfl
      · exact hc.p0 x (by simp [hx])
      · exact hc.p0 x (by simp [hx])
      · exact hc.p0 x (List.mem_append_right _ hx)
    · intro x hx
      simp only [submitS, List.mem_append, List.mem_singleton] at hx
      rcases hx with (hx | hx | hx) | hx
      · exact hc.lvl x (by simp [hx])
      · exact hc.lvl x (by simp [hx])
      · rw [hx]; exact Nat.zero_le _
      · exact hc.lvl x (by simp [hx])
    · intro hcur x hx
      change x ∈ data ((s.pq ++ s.dq) ++ freshTok (s.next : Int) :: l2) at hx
      rw [data_append, data_cons_data _ (freshTok_data _)] at hx
      simp only [List.mem_append, List.mem_cons] at hx
      rcases hx with hx | rfl | hx
      · exact hc.capN hcur x (by rw [hav, data_append]; exact List.mem_append_left _ hx)
      · exact Nat.zero_le _
      · exact hc.capN hcur x (by rw [hav, data_append]; exact List.mem_append_right _ hx)
  · have hnext : ((submitS s).next : Int) = (s.next : Int) + 1 := by simp [submitS]
    refine ⟨?_, hl.J, ?_, hl.S3, hl.S5, ?_, ?_, ?_, hl.pend⟩
    · intro b hb a ha hab
      rcases hlive a ha with ha | ha
      · exact hl.K b hb a ha hab
      · have := hl.Llt b hb; omega
    · intro p hp a ha
      rcases hlive a ha with ha | ha
      · exact hl.S1 p hp a ha
      · rw [ha]; exact hl.S6 p hp
    · intro p hp; have := hl.S6 p hp; rw [hnext]; omega
    · intro a ha
      rw [hnext]
      rcases hlive a ha with ha | ha
      · have := hl.idlt a ha; omega
      · omega
    · intro b hb; have := hl.Llt b hb; rw [hnext]; omega

end Lemmas.C02sys
