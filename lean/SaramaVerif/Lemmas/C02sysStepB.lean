/-
  C02 composition: a token arriving at worker 0 and the handover of its buffer to the bridge keep `Good`
  (and do not change the view: bounces were already counted, accepted tokens stay in `gw`).
-/
import SaramaVerif.Lemmas.C02sysRep

set_option linter.unusedSimpArgs false

namespace Lemmas.C02sys
open Model Model.Pipeline

/-- the system after worker 0 has run `i`, before its actions are applied -/
def midS (M : Nat) (s : Sys) (q : List Tok) (pend : Option (Pipeline.Verdict × Nat)) (i : BrokerProd.In) : Sys :=
  { s with wk := setW s.wk 0 ⟨q, (BrokerProd.step M (W s).bp i).1, pend⟩ }

theorem bpRun_eq {M : Nat} {s s' : Sys} {q : List Tok} {pend : Option (Pipeline.Verdict × Nat)} {off : Nat}
    {i : BrokerProd.In} (h : bpRun M s 0 q pend off i = some s') :
    (BrokerProd.step M (W s).bp i).2 ≠ [.disabled] ∧
    s' = bpActs (midS M s q pend i) off (BrokerProd.step M (W s).bp i).2 := by
  simp only [bpRun] at h
  split at h
  · cases h
  · rename_i hd
    exact ⟨hd, by simpa [midS, W] using h.symm⟩

theorem W_mid (M : Nat) (s : Sys) (q : List Tok) (pend : Option (Pipeline.Verdict × Nat)) (i : BrokerProd.In) :
    W (midS M s q pend i) = ⟨q, (BrokerProd.step M (W s).bp i).1, pend⟩ := by
  simp [W, midS, setW]

/-- the side conditions survive a step of worker 0 that takes the head `t` of its queue and either keeps it
    inside, or bounces it, or (syn) consumes it -/
theorem conc_log_recv {M : Nat} {s s' : Sys} {v : View} (h : Good M s v) (t : Tok) (r : List Tok)
    (hq : (W s).inq = t :: r)
    (hsame : s'.pp = s.pp ∧ s'.pq = s.pq ∧ s'.dq = s.dq ∧ s'.cur = s.cur ∧ s'.next = s.next ∧ s'.log = s.log ∧
      s'.succ = s.succ ∧ s'.crash = s.crash)
    (hW : (W s').inq = r ∧ (W s').pend = (W s).pend ∧ (W s').bp.sets = (W s).bp.sets ∧
      Props.C02bp.PInv (W s').bp)
    (hins : ins s' = ins s ∨ ins s' = ins s ++ [t])
    (hret : s'.ret = s.ret ∨ s'.ret = s.ret ++ bumpF M [t]) : Conc M s' v ∧ LogInv s' v := by
  obtain ⟨hrep, hv, hc, hl⟩ := h
  obtain ⟨e1, e2, e3, e4, e5, e6, e7, e8⟩ := hsame
  obtain ⟨w1, w2, w3, w4⟩ := hW
  have htp : t.part = 0 := hc.p0 t (by simp [hq])
  have hmem : ∀ x, x ∈ s'.pq ++ s'.dq ++ s'.ret ++ (W s').inq ++ ins s' →
      x ∈ s.pq ++ s.dq ++ s.ret ++ (W s).inq ++ ins s ∨ x ∈ bumpF M [t] := by
    intro x hx
    rw [e2, e3, w1] at hx
    rcases hret with hr | hr <;> rcases hins with hi | hi <;> rw [hr, hi] at hx <;>
      simp only [List.mem_append, List.mem_singleton, hq, List.mem_cons] at hx ⊢ <;> grind
  constructor
  · refine ⟨w4, ?_, ?_, ?_, ?_, by rw [e4]; exact hc.cur01, by rw [e4]; exact hc.capN, by rw [e8]; exact hc.crash⟩
    · intro x hx
      rcases hmem x hx with hx | hx
      · exact hc.p0 x hx
      · obtain ⟨y, hy, rfl⟩ := mem_bumpF hx; rw [List.mem_singleton.1 hy]; exact htp
    · intro x hx
      rw [e2, e3] at hx
      have : x ∈ s.pq ++ s.dq ++ s.ret ∨ x ∈ bumpF M [t] := by
        rcases hret with hr | hr <;> rw [hr] at hx
        · exact Or.inl hx
        · simp only [List.mem_append] at hx ⊢; grind
      rcases this with hx | hx
      · exact hc.lvl x hx
      · simp only [bumpF, List.mem_map, List.mem_filter, decide_eq_true_eq] at hx
        obtain ⟨y, ⟨_, hy⟩, rfl⟩ := hx
        rw [bump_retries]; omega
    · intro x hx hk; rw [w1] at hx; exact hc.finq x (by rw [hq]; exact List.mem_cons_of_mem _ hx) hk
    · intro x hx
      rcases hret with hr | hr <;> rw [hr] at hx
      · exact hc.ret1 x hx
      · rcases List.mem_append.1 hx with hx | hx
        · exact hc.ret1 x hx
        · obtain ⟨y, _, rfl⟩ := mem_bumpF hx; simp [bump_retries]
  · refine ⟨by rw [e6]; exact hl.K, by rw [e6]; exact hl.J, by rw [e7]; exact hl.S1, by rw [e7]; exact hl.S3,
      by rw [e6, e7]; exact hl.S5, by rw [e5, e7]; exact hl.S6, by rw [e5]; exact hl.idlt,
      by rw [e5, e6]; exact hl.Llt, ?_⟩
    intro vd base hp
    rw [w2] at hp
    obtain ⟨sent, h1, h2, h3⟩ := hl.pend vd base hp
    exact ⟨sent, by rw [w3]; exact h1, by rw [e7]; exact h2, by rw [e6]; exact h3⟩

theorem bpRecv_split {M : Nat} {s s' : Sys} {ov : Bool} (h : sysStep M s (.bpRecv 0 ov) = some s') :
    ∃ t r, (W s).inq = t :: r ∧ (W s).bp.wait = none ∧
      s' = bpActs (midS M s r (W s).pend (.recv t ov)) 0 (BrokerProd.step M (W s).bp (.recv t ov)).2 := by
  simp only [sysStep] at h
  cases hq : (s.wk 0).inq with
  | nil => simp [hq] at h
  | cons t r =>
    simp only [hq] at h
    obtain ⟨hd, he⟩ := bpRun_eq h
    exact ⟨t, r, rfl, recv_disabled M _ t ov hd, he⟩

theorem mid_fields (M : Nat) (s : Sys) (q : List Tok) (pend : Option (Pipeline.Verdict × Nat)) (i : BrokerProd.In) :
    (midS M s q pend i).pp = s.pp ∧ (midS M s q pend i).pq = s.pq ∧ (midS M s q pend i).dq = s.dq ∧
    (midS M s q pend i).cur = s.cur ∧ (midS M s q pend i).next = s.next ∧ (midS M s q pend i).log = s.log ∧
    (midS M s q pend i).succ = s.succ ∧ (midS M s q pend i).crash = s.crash :=
  ⟨rfl, rfl, rfl, rfl, rfl, rfl, rfl, rfl⟩

theorem ins_mid (M : Nat) (s : Sys) (q : List Tok) (pend : Option (Pipeline.Verdict × Nat)) (i : BrokerProd.In) :
    ins (midS M s q pend i) = insideB (BrokerProd.step M (W s).bp i).1 := by
  simp [ins, W_mid]

theorem bumpF_cons (M : Nat) (t : Tok) (l : List Tok) : bumpF M (t :: l) = bumpF M [t] ++ bumpF M l := by
  rw [← bumpF_append]; rfl

theorem nosynq_cons_data {t : Tok} (l : List Tok) (h : t.kind ≠ .syn) : nosynq (t :: l) = t :: nosynq l := by
  simp [nosynq, h]

theorem nosynq_cons_syn {t : Tok} (l : List Tok) (h : t.kind = .syn) : nosynq (t :: l) = nosynq l := by
  simp [nosynq, h]

theorem needsRetry_iff (b : BrokerProd.St) : BrokerProd.needsRetry b 0 = (b.closing || b.cr 0) := rfl

/-- the head of the worker's queue is a data token and the worker bounces it: the view does not change -/
theorem rep_bounce_data {M : Nat} {s : Sys} {v : View} (h : Rep M s v) (t : Tok) (r : List Tok)
    (hq : (W s).inq = t :: r) (hk : t.kind = .data) (hn : BrokerProd.needsRetry (W s).bp 0 = true)
    (e : List Int) :
    Rep M { s with wk := setW s.wk 0 ⟨r, (W s).bp, (W s).pend⟩, ret := s.ret ++ bumpF M [t], errs := e } v := by
  have hns : t.kind ≠ .syn := by rw [hk]; simp
  cases h with
  | closed h1 h2 =>
    have := Rep.closed (M := M)
      (s := { s with wk := setW s.wk 0 ⟨r, (W s).bp, (W s).pend⟩, ret := s.ret ++ bumpF M [t], errs := e })
      (by simpa [W, setW] using h1) (by simpa [ins, W, setW] using h2)
    simpa [W, setW, hq, nosynq_cons_data _ hns, bumpF_cons M t (nosynq r), List.append_assoc] using this
  | normal mk G h1 h2 h3 h4 h5 h6 =>
    rw [needsRetry_iff, h1, h2] at hn; cases hn
  | failed h1 h2 h3 h4 h5 =>
    have := Rep.failed (M := M)
      (s := { s with wk := setW s.wk 0 ⟨r, (W s).bp, (W s).pend⟩, ret := s.ret ++ bumpF M [t], errs := e })
      (by simpa [W, setW] using h1) (by simpa [W, setW] using h2) (by simpa [ins, W, setW] using h3)
      (by intro x hx; exact h4 x (by rw [hq]; exact List.mem_cons_of_mem _ (by simpa [W, setW] using hx))) h5
    simpa [W, setW, hq, bumpF_cons M t r, List.append_assoc] using this
  | reopen D k mk G h1 h2 h3 h4 h5 h6 h7 =>
    cases D with
    | nil =>
      rw [hq] at h4; simp only [List.nil_append, List.cons.injEq] at h4
      rw [h4.1] at hk; cases hk
    | cons d D' =>
      rw [hq] at h4; simp only [List.cons_append, List.cons.injEq] at h4
      obtain ⟨rfl, h4⟩ := h4
      have := Rep.reopen (M := M)
        (s := { s with wk := setW s.wk 0 ⟨r, (W s).bp, (W s).pend⟩, ret := s.ret ++ bumpF M [t], errs := e })
        D' k mk G (by simpa [W, setW] using h1) (by simpa [W, setW] using h2) (by simpa [ins, W, setW] using h3)
        (by simpa [W, setW] using h4) (fun x hx => h5 x (List.mem_cons_of_mem _ hx)) h6 h7
      simpa [W, setW, bumpF_cons M t D', List.append_assoc] using this

/-- the head of the worker's queue is a data token and the worker keeps it: the view does not change -/
theorem rep_add {M : Nat} {s : Sys} {v : View} (h : Rep M s v) (t : Tok) (r : List Tok)
    (hq : (W s).inq = t :: r) (hk : t.kind = .data) (hn : BrokerProd.needsRetry (W s).bp 0 = false)
    (b' : BrokerProd.St) (hc : b'.closing = (W s).bp.closing) (hcr : b'.cr = (W s).bp.cr)
    (hi : insideB b' = ins s ++ [t]) :
    Rep M { s with wk := setW s.wk 0 ⟨r, b', (W s).pend⟩ } v := by
  cases h with
  | closed h1 h2 => rw [needsRetry_iff, h1] at hn; cases hn
  | failed h1 h2 h3 h4 h5 => rw [needsRetry_iff, h1, h2] at hn; cases hn
  | reopen D k mk G h1 h2 h3 h4 h5 h6 h7 => rw [needsRetry_iff, h1, h2] at hn; cases hn
  | normal mk G h1 h2 h3 h4 h5 h6 =>
    rcases h5 with rfl | ⟨rfl, _⟩
    · cases G with
      | nil => rw [hq] at h3; cases h3
      | cons g G' =>
        rw [hq] at h3; simp only [List.nil_append, List.cons.injEq] at h3
        obtain ⟨rfl, rfl⟩ := h3
        have hcur : s.cur = some 0 := by
          rcases h6 with h6 | ⟨_, h6, _⟩
          · exact h6
          · rw [hq] at h6; cases h6
        have := Rep.normal (M := M) (s := { s with wk := setW s.wk 0 ⟨r, b', (W s).pend⟩ }) [] r
          (by simpa [W, setW, hc] using h1) (by simpa [W, setW, hcr] using h2) (by simp [W, setW])
          (fun x hx => h4 x (List.mem_cons_of_mem _ hx)) (Or.inl rfl) (Or.inl hcur)
        simpa [ins, W, setW, hi, List.append_assoc] using this
    · rw [hq] at h3; simp only [List.cons_append, List.nil_append, List.cons.injEq] at h3
      rw [h3.1] at hk; cases hk

def afterW (s : Sys) (w : Worker) : Sys := { s with wk := setW s.wk 0 w }

/-- the head of the worker's queue is a syn: it clears the retry flag (a no-op in every reachable phase) -/
theorem rep_syn {M : Nat} {s : Sys} {v : View} (h : Rep M s v) (t : Tok) (r : List Tok)
    (hq : (W s).inq = t :: r) (hk : t.kind = .syn) :
    Rep M (afterW s ⟨r, { (W s).bp with cr := BrokerProd.setCr (W s).bp.cr 0 false }, (W s).pend⟩) v := by
  cases h with
  | closed h1 h2 =>
    have := Rep.closed (M := M) (s := afterW s ⟨r, { (W s).bp with cr := BrokerProd.setCr (W s).bp.cr 0 false }, (W s).pend⟩)
      (by simpa [afterW, W, setW] using h1) (by simpa [afterW, ins, W, setW, insideB, Props.C02bp.inside] using h2)
    simpa [afterW, W, setW, hq, nosynq_cons_syn _ hk] using this
  | failed h1 h2 h3 h4 h5 =>
    have := h4 t (by rw [hq]; exact List.mem_cons_self ..); rw [hk] at this; cases this
  | reopen D k mk G h1 h2 h3 h4 h5 h6 h7 =>
    cases D with
    | nil =>
      rw [hq] at h4; simp only [List.nil_append, List.cons.injEq] at h4
      rw [h4.1] at hk; cases hk
    | cons d D' =>
      rw [hq] at h4; simp only [List.cons_append, List.cons.injEq] at h4
      have := h5 d (List.mem_cons_self ..); rw [← h4.1, hk] at this; cases this
  | normal mk G h1 h2 h3 h4 h5 h6 =>
    rcases h5 with rfl | ⟨rfl, h5⟩
    · cases G with
      | nil => rw [hq] at h3; cases h3
      | cons g G' =>
        rw [hq] at h3; simp only [List.nil_append, List.cons.injEq] at h3
        have := h4 g (List.mem_cons_self ..); rw [← h3.1, hk] at this; cases this
    · rw [hq] at h3; simp only [List.cons_append, List.nil_append, List.cons.injEq] at h3
      obtain ⟨_, rfl⟩ := h3
      have hcur : s.cur = some 0 := by
        rcases h6 with h6 | ⟨_, h6, _⟩
        · exact h6
        · rw [hq] at h6; cases h6
      have := Rep.normal (M := M) (s := afterW s ⟨r, { (W s).bp with cr := BrokerProd.setCr (W s).bp.cr 0 false }, (W s).pend⟩) [] r
        (by simpa [afterW, W, setW] using h1) (by simp [afterW, W, setW, BrokerProd.setCr]) (by simp [afterW, W, setW])
        h4 (Or.inl rfl) (Or.inl hcur)
      simpa [afterW, ins, W, setW, insideB, Props.C02bp.inside] using this

theorem bumpF_nil (M : Nat) : bumpF M [] = [] := rfl

theorem bumpF_fin (M k : Nat) (h : k < M) : bumpF M [finTok k] = [finTok (k + 1)] := by
  simp [bumpF, finTok, h, bump]

/-- the head of the worker's queue is a fin chaser: it is bounced, and (unless closing) the worker accepts the
    partition again -/
theorem rep_fin {M : Nat} {s : Sys} {v : View} (h : Rep M s v) (t : Tok) (r : List Tok)
    (hq : (W s).inq = t :: r) (hk : t.kind = .fin) (hlt : t.retries < M)
    (b' : BrokerProd.St) (hc : b'.closing = (W s).bp.closing)
    (hcr : b'.cr 0 = if (W s).bp.closing then (W s).bp.cr 0 else false)
    (hi : insideB b' = ins s) (e : List Int) :
    Rep M { afterW s ⟨r, b', (W s).pend⟩ with ret := s.ret ++ bumpF M [t], errs := e } v := by
  have hns : t.kind ≠ .syn := by rw [hk]; simp
  cases h with
  | closed h1 h2 =>
    have := Rep.closed (M := M) (s := { afterW s ⟨r, b', (W s).pend⟩ with ret := s.ret ++ bumpF M [t], errs := e })
      (by simpa [afterW, W, setW, hc] using h1) (by simpa [afterW, ins, W, setW, hi] using h2)
    simpa [afterW, W, setW, hq, nosynq_cons_data _ hns, bumpF_cons M t (nosynq r), List.append_assoc] using this
  | failed h1 h2 h3 h4 h5 =>
    have := h4 t (by rw [hq]; exact List.mem_cons_self ..); rw [hk] at this; cases this
  | normal mk G h1 h2 h3 h4 h5 h6 =>
    rcases h5 with rfl | ⟨rfl, h5⟩
    · cases G with
      | nil => rw [hq] at h3; cases h3
      | cons g G' =>
        rw [hq] at h3; simp only [List.nil_append, List.cons.injEq] at h3
        have := h4 g (List.mem_cons_self ..); rw [← h3.1, hk] at this; cases this
    · rw [hq] at h3; simp only [List.cons_append, List.nil_append, List.cons.injEq] at h3
      rw [h3.1] at hk; cases hk
  | reopen D k mk G h1 h2 h3 h4 h5 h6 h7 =>
    cases D with
    | cons d D' =>
      rw [hq] at h4; simp only [List.cons_append, List.cons.injEq] at h4
      have := h5 d (List.mem_cons_self ..); rw [← h4.1, hk] at this; cases this
    | nil =>
      rw [hq] at h4; simp only [List.nil_append, List.cons.injEq] at h4
      obtain ⟨rfl, rfl⟩ := h4
      have hk' : k < M := hlt
      have hins : ins { afterW s ⟨mk ++ G, b', (W s).pend⟩ with
          ret := s.ret ++ bumpF M [finTok k], errs := e } = [] := by
        simpa [afterW, ins, W, setW, hi] using h3
      have := Rep.normal (M := M)
        (s := { afterW s ⟨mk ++ G, b', (W s).pend⟩ with ret := s.ret ++ bumpF M [finTok k], errs := e }) mk G
        (by simpa [afterW, W, setW, hc] using h1) (by simp [afterW, W, setW, hcr, h1]) (by simp [afterW, W, setW])
        h6 (by
          rcases h7 with ⟨rfl, _, _⟩ | ⟨rfl, _⟩
          · exact Or.inl rfl
          · exact Or.inr ⟨rfl, hins⟩)
        (by
          rcases h7 with ⟨rfl, rfl, hcur⟩ | ⟨_, hcur⟩
          · exact Or.inr ⟨hcur, by simp [afterW, W, setW], hins⟩
          · exact Or.inl hcur)
      rw [hins] at this
      simpa [afterW, W, setW, bumpF_fin M k hk', bumpF_nil, List.append_assoc] using this

theorem kind_cases (t : Tok) : t.kind = .data ∨ t.kind = .syn ∨ t.kind = .fin := by
  cases t.kind <;> simp

/-- the system after worker 0 (new state `b'`) has bounced the head `t` of its queue -/
def bounceS (M : Nat) (s : Sys) (r : List Tok) (b' : BrokerProd.St) (t : Tok) : Sys :=
  { afterW s ⟨r, b', (W s).pend⟩ with ret := s.ret ++ bumpF M [t], errs := s.errs ++ errOut M [t] }

theorem good_bpRecv {M : Nat} {s s' : Sys} {v : View} {ov : Bool} (h : Good M s v)
    (hs : sysStep M s (.bpRecv 0 ov) = some s') : Good M s' v := by
  obtain ⟨t, r, hq, hw, rfl⟩ := bpRecv_split hs
  have htp : t.part = 0 := h.conc.p0 t (by simp [hq])
  have hpinv := (Props.C02bp.step_fifo M (W s).bp (.recv t ov) h.conc.pinv).2
  rcases kind_cases t with hk | hk | hk
  · cases hn : BrokerProd.needsRetry (W s).bp 0 with
    | true =>
      have hst := recv_refuse_spec M (W s).bp t ov hw hk htp hn
      have hs' : bpActs (midS M s r (W s).pend (.recv t ov)) 0 (BrokerProd.step M (W s).bp (.recv t ov)).2 =
          bounceS M s r (W s).bp t := by
        rw [hst, bpActs_bounce1 M t (by rw [hk]; simp)]; simp [midS, hst, bounceS, afterW]
      rw [hs']
      have hcl := conc_log_recv (s' := bounceS M s r (W s).bp t) h t r hq
        ⟨rfl, rfl, rfl, rfl, rfl, rfl, rfl, rfl⟩
        ⟨by simp [bounceS, afterW, W, setW], by simp [bounceS, afterW, W, setW],
         by simp [bounceS, afterW, W, setW], by simpa [bounceS, afterW, W, setW] using h.conc.pinv⟩
        (Or.inl (by simp [bounceS, afterW, ins, W, setW])) (Or.inr rfl)
      exact ⟨rep_bounce_data h.rep t r hq hk hn _, h.vinv, hcl.1, hcl.2⟩
    | false =>
      obtain ⟨a1, a2, a3, a4, a5, _⟩ := recv_add_spec M (W s).bp t ov hw hk htp hn
      have hs' : bpActs (midS M s r (W s).pend (.recv t ov)) 0 (BrokerProd.step M (W s).bp (.recv t ov)).2 =
          afterW s ⟨r, (BrokerProd.step M (W s).bp (.recv t ov)).1, (W s).pend⟩ := by
        rw [a5]; rfl
      rw [hs']
      have hcl := conc_log_recv (M := M)
        (s' := afterW s ⟨r, (BrokerProd.step M (W s).bp (.recv t ov)).1, (W s).pend⟩) h t r hq
        ⟨rfl, rfl, rfl, rfl, rfl, rfl, rfl, rfl⟩
        ⟨by simp [afterW, W, setW], by simp [afterW, W, setW],
         by simpa [afterW, W, setW] using a3, by simpa [afterW, W, setW] using hpinv⟩
        (Or.inr (by simpa [afterW, ins, W, setW] using a4)) (Or.inl rfl)
      exact ⟨rep_add h.rep t r hq hk hn _ a1 a2 a4, h.vinv, hcl.1, hcl.2⟩
  · have hst := recv_syn_spec M (W s).bp t ov hw hk htp
    have hs' : bpActs (midS M s r (W s).pend (.recv t ov)) 0 (BrokerProd.step M (W s).bp (.recv t ov)).2 =
        afterW s ⟨r, { (W s).bp with cr := BrokerProd.setCr (W s).bp.cr 0 false }, (W s).pend⟩ := by
      rw [hst]; simp [midS, hst, afterW, bpActs, bpAct]
    rw [hs']
    rw [hst] at hpinv
    have hcl := conc_log_recv (M := M)
      (s' := afterW s ⟨r, { (W s).bp with cr := BrokerProd.setCr (W s).bp.cr 0 false }, (W s).pend⟩) h t r hq
      ⟨rfl, rfl, rfl, rfl, rfl, rfl, rfl, rfl⟩
      ⟨by simp [afterW, W, setW], by simp [afterW, W, setW],
       by simp [afterW, W, setW], by simpa [afterW, W, setW] using hpinv⟩
      (Or.inl (by simp [afterW, ins, W, setW, insideB, Props.C02bp.inside])) (Or.inl rfl)
    exact ⟨rep_syn h.rep t r hq hk, h.vinv, hcl.1, hcl.2⟩
  · obtain ⟨f1, f2, f3, f4, f5, f6⟩ := recv_fin_spec M (W s).bp t ov hw hk htp
    have hlt : t.retries < M := h.conc.finq t (by rw [hq]; exact List.mem_cons_self ..) hk
    have hs' : bpActs (midS M s r (W s).pend (.recv t ov)) 0 (BrokerProd.step M (W s).bp (.recv t ov)).2 =
        bounceS M s r (BrokerProd.step M (W s).bp (.recv t ov)).1 t := by
      rw [f1, bpActs_bounce1 M t (by rw [hk]; simp)]; simp [midS, bounceS, afterW]
    rw [hs']
    have hins : insideB (BrokerProd.step M (W s).bp (.recv t ov)).1 = ins s := by
      simp [ins, insideB, Props.C02bp.inside, f3, f4, f5]
    have hcl := conc_log_recv (s' := bounceS M s r (BrokerProd.step M (W s).bp (.recv t ov)).1 t) h t r hq
      ⟨rfl, rfl, rfl, rfl, rfl, rfl, rfl, rfl⟩
      ⟨by simp [bounceS, afterW, W, setW], by simp [bounceS, afterW, W, setW],
       by simpa [bounceS, afterW, W, setW] using f4, by simpa [bounceS, afterW, W, setW] using hpinv⟩
      (Or.inl (by simpa [bounceS, afterW, ins, W, setW] using hins)) (Or.inr rfl)
    exact ⟨rep_fin h.rep t r hq hk hlt _ f2 f6 hins _, h.vinv, hcl.1, hcl.2⟩

/-- a step of worker 0 that changes neither its queue, nor `closing`/`cr`, nor `inside` keeps `Rep` -/
theorem rep_sameW {M : Nat} {s : Sys} {v : View} (h : Rep M s v) (b' : BrokerProd.St) (p : Option (Pipeline.Verdict × Nat))
    (hc : b'.closing = (W s).bp.closing) (hcr : b'.cr = (W s).bp.cr) (hi : insideB b' = ins s) :
    Rep M (afterW s ⟨(W s).inq, b', p⟩) v := by
  cases h with
  | closed h1 h2 =>
    have := Rep.closed (M := M) (s := afterW s ⟨(W s).inq, b', p⟩)
      (by simpa [afterW, W, setW, hc] using h1) (by simpa [afterW, ins, W, setW, hi] using h2)
    simpa [afterW, W, setW] using this
  | normal mk G h1 h2 h3 h4 h5 h6 =>
    have := Rep.normal (M := M) (s := afterW s ⟨(W s).inq, b', p⟩) mk G
      (by simpa [afterW, W, setW, hc] using h1) (by simpa [afterW, W, setW, hcr] using h2)
      (by simpa [afterW, W, setW] using h3) h4
      (by simpa [afterW, ins, W, setW, hi] using h5) (by simpa [afterW, ins, W, setW, hi] using h6)
    simpa [afterW, ins, W, setW, hi] using this
  | failed h1 h2 h3 h4 h5 =>
    have := Rep.failed (M := M) (s := afterW s ⟨(W s).inq, b', p⟩)
      (by simpa [afterW, W, setW, hc] using h1) (by simpa [afterW, W, setW, hcr] using h2)
      (by simpa [afterW, ins, W, setW, hi] using h3) (by simpa [afterW, W, setW] using h4) h5
    simpa [afterW, W, setW] using this
  | reopen D k mk G h1 h2 h3 h4 h5 h6 h7 =>
    have := Rep.reopen (M := M) (s := afterW s ⟨(W s).inq, b', p⟩) D k mk G
      (by simpa [afterW, W, setW, hc] using h1) (by simpa [afterW, W, setW, hcr] using h2)
      (by simpa [afterW, ins, W, setW, hi] using h3) (by simpa [afterW, W, setW] using h4) h5 h6 h7
    simpa [afterW, W, setW] using this

theorem conc_sameW {M : Nat} {s : Sys} {v : View} (hc : Conc M s v) (b' : BrokerProd.St)
    (p : Option (Pipeline.Verdict × Nat)) (hp : Props.C02bp.PInv b') (hi : insideB b' = ins s) :
    Conc M (afterW s ⟨(W s).inq, b', p⟩) v := by
  refine ⟨by simpa [afterW, W, setW] using hp, ?_, hc.lvl, ?_, hc.ret1, hc.cur01, hc.capN, hc.crash⟩
  · have := hc.p0
    simpa [afterW, ins, W, setW, hi] using this
  · have := hc.finq
    simpa [afterW, W, setW] using this

theorem good_handover {M : Nat} {s s' : Sys} {v : View} (h : Good M s v)
    (hs : sysStep M s (.handover 0) = some s') : Good M s' v := by
  simp only [sysStep] at hs
  obtain ⟨hd, rfl⟩ := bpRun_eq hs
  obtain ⟨a1, a2, a3, a4, ⟨sent, a5⟩, a6⟩ := handover_spec M (W s).bp hd
  have hpinv := (Props.C02bp.step_fifo M (W s).bp .handover h.conc.pinv).2
  rw [a6]
  have hm : midS M s (s.wk 0).inq (s.wk 0).pend .handover =
      afterW s ⟨(W s).inq, (BrokerProd.step M (W s).bp .handover).1, (W s).pend⟩ := rfl
  rw [hm]
  refine ⟨rep_sameW h.rep _ _ a1 a2 a3, h.vinv, conc_sameW h.conc _ _ hpinv a3, ?_⟩
  have hl := h.log
  refine ⟨hl.K, hl.J, hl.S1, hl.S3, hl.S5, hl.S6, hl.idlt, hl.Llt, ?_⟩
  intro vd base hp
  have hp' : (W s).pend = some (vd, base) := by simpa [afterW, W, setW] using hp
  obtain ⟨x, hx, _⟩ := hl.pend vd base hp'
  rw [a4] at hx; cases hx

end Lemmas.C02sys
