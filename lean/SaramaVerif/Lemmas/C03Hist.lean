import SaramaVerif.Lemmas.C03Resp
/-
  C03: static keep annotation (everything except control batches), the decoder's removal of empty batches,
  the single-response theorem on `parseBlock` and the induction over fetch histories.
-/
namespace Lemmas.C03
open Model.ConsumerParse

theorem SegsWF.sublist : ∀ {l' l : List Seg}, List.Sublist l' l → ∀ {b}, SegsWF b l → SegsWF b l'
  | _, _, .slnil, _, h => h
  | _, _, .cons _ hs, _, ⟨_, _, h3, h4⟩ => SegsWF.mono (by omega) (SegsWF.sublist hs h4)
  | _, _, .cons₂ _ hs, _, ⟨h1, h2, h3, h4⟩ => ⟨h1, h2, h3, SegsWF.sublist hs h4⟩

theorem SegsWF.head_le : ∀ {s0 : Seg} {rest : List Seg} {b}, SegsWF b (s0 :: rest) → ∀ s ∈ s0 :: rest, s0.hi ≤ s.hi := by
  intro s0 rest b h s hs
  rcases List.mem_cons.1 hs with rfl | hs
  · exact Int.le_refl _
  · have := SegsWF.hi_gt h.2.2.2 s hs; omega

/-- static annotation: a unit is kept iff it is not a control batch -/
def statL (L : List LUnit) : List (LUnit × Bool) := L.map (fun u => (u, !unitIsControl u))

def staticKeep : Entry → Bool
  | .legacy _ => true
  | .batch b => !b.control

theorem logWF_iff (tsw : Bool) : ∀ (L : List LUnit) (b : Int), LogWF tsw b L ↔ SegsWF b (annSegs tsw (statL L))
  | [], _ => Iff.rfl
  | u :: us, b => by
      have ih := logWF_iff tsw us (unitHi u)
      simp only [LogWF, statL, annSegs, List.map_cons, SegsWF, unitSeg] at *
      rw [ih]

theorem visible_eq (tsw : Bool) : ∀ (L : List LUnit), visible tsw L = segVis (annSegs tsw (statL L))
  | [] => rfl
  | u :: us => by
      have ih := visible_eq tsw us
      simp only [visible, statL, annSegs, segVis, List.map_cons, List.flatMap_cons, unitSeg] at *
      rw [ih]
      cases h : unitIsControl u <;> simp

theorem statL_append (a b : List LUnit) : statL (a ++ b) = statL a ++ statL b := by simp [statL]

theorem annUnits_static : ∀ (es : List Entry), annUnits es (es.map staticKeep) = statL (es.flatMap entryUnits)
  | [] => rfl
  | .legacy blks :: es => by
      simp only [List.map_cons, annUnits, List.flatMap_cons, statL_append, annUnits_static es]
      congr 1
      simp [statL, entryUnits, unitIsControl]
  | .batch b :: es => by
      simp only [List.map_cons, annUnits, List.flatMap_cons, statL_append, annUnits_static es]
      simp [statL, entryUnits, unitIsControl, staticKeep]

/-- isolation hypothesis of C03: read-uncommitted, or no transactional batch in the response -/
def IsoOK (cfg : Cfg) (es : List Entry) : Prop :=
  cfg.readCommitted = false ∨ ∀ b, Entry.batch b ∈ es → b.txn = false

theorem keeps_static (cfg : Cfg) : ∀ (es : List Entry) (rem : List (Int × Int)) (abs : List Int), IsoOK cfg es →
    keeps cfg es rem abs = es.map staticKeep
  | [], _, _, _ => rfl
  | .legacy _ :: es, rem, abs, h => by
      have h' : IsoOK cfg es := h.imp id (fun h b hb => h b (List.mem_cons_of_mem _ hb))
      simp [keeps, staticKeep, keeps_static cfg es _ _ h']
  | .batch b :: es, rem, abs, h => by
      have h' : IsoOK cfg es := h.imp id (fun h b hb => h b (List.mem_cons_of_mem _ hb))
      unfold keeps
      by_cases hc : b.control = true
      · simp [hc, staticKeep, keeps_static cfg es _ _ h']
      · have hn : ¬ (cfg.readCommitted = true ∧ b.txn = true ∧ b.pid ∈ (consumeAborted (batchLast b) rem abs).2) := by
          rintro ⟨h1, h2, _⟩
          rcases h with h | h
          · rw [h] at h1; cases h1
          · rw [h b List.mem_cons_self] at h2; cases h2
        simp [hc, hn, staticKeep, keeps_static cfg es _ _ h']

/-! ### the decoder drops empty record sets -/

theorem decodeView_cons (e : Entry) (es : List Entry) :
    decodeView (e :: es) = if entryCount e ≠ 0 then e :: decodeView es else decodeView es := by
  simp only [decodeView, List.filter_cons]
  by_cases h : entryCount e = 0 <;> simp [h]

theorem decodeView_units_sublist : ∀ (es : List Entry),
    ((decodeView es).flatMap entryUnits).Sublist (es.flatMap entryUnits)
  | [] => List.Sublist.slnil
  | e :: es => by
      rw [decodeView_cons]
      split
      · simp only [List.flatMap_cons]
        exact List.Sublist.append (List.Sublist.refl _) (decodeView_units_sublist es)
      · simp only [List.flatMap_cons]
        exact (decodeView_units_sublist es).trans (List.sublist_append_right _ _)

theorem entry_empty_visible (tsw : Bool) (e : Entry) (h : entryCount e = 0) : visible tsw (entryUnits e) = [] := by
  cases e with
  | legacy blks =>
    have : blks = [] := List.eq_nil_of_length_eq_zero h
    subst this; rfl
  | batch b =>
    have : b.recs = [] := List.eq_nil_of_length_eq_zero h
    simp [visible, entryUnits, unitRecs, batchRecs, this]

theorem visible_append (tsw : Bool) (a b : List LUnit) : visible tsw (a ++ b) = visible tsw a ++ visible tsw b := by
  simp [visible, List.flatMap_append]

theorem decodeView_visible (tsw : Bool) : ∀ (es : List Entry),
    visible tsw ((decodeView es).flatMap entryUnits) = visible tsw (es.flatMap entryUnits)
  | [] => rfl
  | e :: es => by
      rw [decodeView_cons]
      split
      · simp only [List.flatMap_cons, visible_append, decodeView_visible tsw es]
      · rename_i h
        have h0 : entryCount e = 0 := by simpa using h
        simp only [List.flatMap_cons, visible_append, decodeView_visible tsw es, entry_empty_visible tsw e h0,
          List.nil_append]

theorem decodeView_ne_nil {es : List Entry} (h : nRecs es ≠ 0) : decodeView es ≠ [] := by
  intro hn
  apply h
  unfold nRecs
  have : ∀ e ∈ es, entryCount e = 0 := by
    intro e he
    by_cases hc : entryCount e = 0
    · exact hc
    · have : e ∈ decodeView es := by
        simp only [decodeView, List.mem_filter]; exact ⟨he, by simpa using hc⟩
      rw [hn] at this; cases this
  clear h hn
  induction es with
  | nil => rfl
  | cons e es ih =>
    simp only [List.map_cons, List.sum_cons]
    rw [this e List.mem_cons_self, ih (fun x hx => this x (List.mem_cons_of_mem _ hx))]

theorem decodeView_mem {es : List Entry} {e : Entry} (h : e ∈ decodeView es) : e ∈ es := by
  simp only [decodeView, List.mem_filter] at h; exact h.1

/-- **single response (C03)**: a faithful data response with at least one record, read-uncommitted or without
    transactional batches: the messages handed over are exactly the visible records of the LOG with
    `asked ≤ offset < next`, the next offset is strictly larger, the verdict is ok and the fetch size is reset. -/
theorem resp_static (cfg : Cfg) (L : List LUnit) (b0 : Int) (st : PState) (es : List Entry) (pt : Bool)
    (ab : List (Int × Int)) (hwf : LogWF cfg.tsFromWrapper b0 L) (hf : FaithfulData L st.offset es)
    (hiso : IsoOK cfg es) (hn : nRecs es ≠ 0) :
    (parseBlock cfg st (.data es pt ab)).1 =
      window st.offset (parseBlock cfg st (.data es pt ab)).2.1.offset (visible cfg.tsFromWrapper L) ∧
    st.offset < (parseBlock cfg st (.data es pt ab)).2.1.offset ∧
    (parseBlock cfg st (.data es pt ab)).2.2 = .ok ∧
    (parseBlock cfg st (.data es pt ab)).2.1.fetchSize = cfg.fetchDefault ∧
    (∀ e ∈ decodeView es, ∀ r ∈ entryRecs cfg.tsFromWrapper e, r.off < (parseBlock cfg st (.data es pt ab)).2.1.offset) := by
  obtain ⟨pre, post, hL, hpre, hhead, hne, hbad⟩ := hf
  have hbad' : ∀ e ∈ decodeView es, entryBadCtl e = false := fun e he => hbad e (decodeView_mem he)
  have hiso' : IsoOK cfg (decodeView es) := hiso.imp id (fun h b hb => h b (decodeView_mem hb))
  have hne' : ∀ blks, Entry.legacy blks ∈ decodeView es → blks ≠ [] := fun bl hb => hne bl (decodeView_mem hb)
  have hdn := decodeView_ne_nil hn
  -- the log without the dropped units
  have hsub : (pre ++ (decodeView es).flatMap entryUnits ++ post).Sublist L := by
    rw [hL]
    exact List.Sublist.append (List.Sublist.append (List.Sublist.refl _) (decodeView_units_sublist es)) (List.Sublist.refl _)
  have hwf0 := (logWF_iff _ L b0).1 hwf
  have hwf' : SegsWF b0 (annSegs cfg.tsFromWrapper (statL (pre ++ (decodeView es).flatMap entryUnits ++ post))) :=
    SegsWF.sublist (by unfold annSegs statL; exact (hsub.map _).map _) hwf0
  have hvis : visible cfg.tsFromWrapper L =
      segVis (annSegs cfg.tsFromWrapper (statL (pre ++ (decodeView es).flatMap entryUnits ++ post))) := by
    rw [← visible_eq, hL]
    simp only [visible_append, decodeView_visible]
  have hstat : statL (pre ++ (decodeView es).flatMap entryUnits ++ post) =
      statL pre ++ annUnits (decodeView es) ((decodeView es).map staticKeep) ++ statL post := by
    rw [statL_append, statL_append, annUnits_static]
  -- the first remaining unit still reaches the asked offset
  have hhead' : ∀ p, (annUnits (decodeView es) ((decodeView es).map staticKeep)).head? = some p → st.offset ≤ unitHi p.1 := by
    intro p hp
    rw [annUnits_static] at hp
    have hpm : p ∈ statL ((decodeView es).flatMap entryUnits) := List.mem_of_mem_head? hp
    have hpu : p.1 ∈ es.flatMap entryUnits := by
      unfold statL at hpm
      rcases List.mem_map.1 hpm with ⟨u, hu, rfl⟩
      exact (decodeView_units_sublist es).subset hu
    match hU : es.flatMap entryUnits with
    | [] => rw [hU] at hpu; cases hpu
    | u0 :: us =>
      have h0 := hhead u0 (by rw [hU]; rfl)
      -- chain starting at u0
      have hc : SegsWF (lastHi b0 (annSegs cfg.tsFromWrapper (statL pre)))
          (annSegs cfg.tsFromWrapper (statL (u0 :: us)) ++ annSegs cfg.tsFromWrapper (statL post)) := by
        have : annSegs cfg.tsFromWrapper (statL L) = annSegs cfg.tsFromWrapper (statL pre) ++
            (annSegs cfg.tsFromWrapper (statL (u0 :: us)) ++ annSegs cfg.tsFromWrapper (statL post)) := by
          rw [hL, hU]; simp [annSegs, statL, List.map_append, List.append_assoc]
        rw [this] at hwf0
        exact SegsWF.append_right hwf0
      have hc' := SegsWF.append_left hc
      rw [hU] at hpu
      have hmem : unitSeg cfg.tsFromWrapper (p.1, !unitIsControl p.1) ∈ annSegs cfg.tsFromWrapper (statL (u0 :: us)) := by
        unfold annSegs statL
        exact List.mem_map.2 ⟨(p.1, !unitIsControl p.1), List.mem_map.2 ⟨p.1, hpu, rfl⟩, rfl⟩
      have := SegsWF.head_le (s0 := unitSeg cfg.tsFromWrapper (u0, !unitIsControl u0)) (by simpa [annSegs, statL] using hc') _
        (by simpa [annSegs, statL] using hmem)
      simp only [unitSeg] at this
      omega
  have hlen : ((decodeView es).map staticKeep).length = (decodeView es).length := by simp
  rw [hstat] at hwf' hvis
  have ⟨r1, r2, r3⟩ := resp_core cfg.tsFromWrapper (decodeView es) ((decodeView es).map staticKeep) (statL pre) (statL post) b0
    st.offset hlen hwf' (by
      intro p hp; unfold statL at hp
      rcases List.mem_map.1 hp with ⟨u, hu, rfl⟩; exact hpre u hu) hhead' hne' hdn
  have hpe := parse_eq_walk cfg (decodeView es) st.offset (sortAborted ab) [] hbad'
  rw [keeps_static cfg _ _ _ hiso'] at hpe
  have r3' : ∀ e ∈ decodeView es, ∀ r ∈ entryRecs cfg.tsFromWrapper e,
      r.off < (segWalk st.offset (entrySegs cfg.tsFromWrapper (decodeView es) ((decodeView es).map staticKeep))).2 := by
    intro e he r hr
    obtain ⟨s, hs, hrs⟩ := entrySegs_mem cfg.tsFromWrapper hlen e he
    exact r3 s hs r (by rw [hrs]; exact hr)
  simp only [parseBlock, hn, ↓reduceIte, hpe, hvis]
  first | exact ⟨r1, r2, r3'⟩ | exact ⟨r1, r2, trivial, trivial, r3'⟩

end Lemmas.C03
