import SaramaVerif.Model.DecoderFmt
/-
  Helper lemmas for Props/C10.lean: composition of the safety statement, bounds of the varint reader,
  values of the length getters, counted loops and `for remaining() > 0` loops.  Core-only.
-/
namespace Lemmas.C10
open Model.Decoder Go

macro "safe_arith" : tactic => `(tactic| (simp only [SafeN]; omega))

/-! ### arithmetic -/

theorem alloc_add {c a1 a2 o m n : Nat} (h1 : a1 ≤ c * (m - o)) (h2 : a2 ≤ c * (n - m)) (hom : o ≤ m) (hmn : m ≤ n) :
    a1 + a2 ≤ c * (n - o) := by
  have e : n - o = (m - o) + (n - m) := by omega
  rw [e, Nat.mul_add]; omega

theorem mul_le_of_le {c a b : Nat} (h : a ≤ b) : c * a ≤ c * b := Nat.mul_le_mul_left c h

/-! ### SafeN: monotonicity, map, bind -/

theorem SafeN.mono {α} {c c' m m' : Nat} {raw : Bytes} {off : Nat} {r : Res α}
    (h : SafeN c m raw off r) (hc : c ≤ c') (hm : m' ≤ m) : SafeN c' m' raw off r := by
  cases r with
  | ok v off' a =>
    obtain ⟨h1, h2, h3⟩ := h
    exact ⟨by omega, h2, Nat.le_trans h3 (Nat.mul_le_mul_right _ hc)⟩
  | err e off' a =>
    obtain ⟨h1, h2, h3⟩ := h
    exact ⟨h1, h2, Nat.le_trans h3 (Nat.mul_le_mul_right _ hc)⟩
  | panic a => exact h
  | hang => exact h

theorem SafeN.map {α β} {c m : Nat} {raw : Bytes} {off : Nat} {r : Res α} (f : α → β)
    (h : SafeN c m raw off r) : SafeN c m raw off (r.map f) := by
  cases r <;> exact h

theorem SafeN.unit {α} {c m : Nat} {raw : Bytes} {off : Nat} {r : Res α}
    (h : SafeN c m raw off r) : SafeN c m raw off (unit r) := SafeN.map _ h

theorem SafeN.bind {α β} {c m m2 : Nat} {raw : Bytes} {off : Nat} {r : Res α} {f : α → Nat → Res β}
    (h : SafeN c m raw off r)
    (hf : ∀ v off1 a, r = .ok v off1 a → SafeN c m2 raw off1 (f v off1)) :
    SafeN c (m + m2) raw off (r.bind f) := by
  cases r with
  | ok v off1 a =>
    obtain ⟨h1, h2, h3⟩ := h
    have hf' := hf v off1 a rfl
    simp only [Res.bind]
    cases hfr : f v off1 with
    | ok w off2 a2 =>
      rw [hfr] at hf'
      obtain ⟨g1, g2, g3⟩ := hf'
      exact ⟨by omega, g2, alloc_add h3 g3 (by omega) (by omega)⟩
    | err e off2 a2 =>
      rw [hfr] at hf'
      obtain ⟨g1, g2, g3⟩ := hf'
      refine ⟨by omega, g2, ?_⟩
      exact alloc_add h3 g3 (by omega) h2
    | panic a2 => rw [hfr] at hf'; exact hf'
    | hang => rw [hfr] at hf'; exact hf'
  | err e off1 a => exact h
  | panic a => exact h
  | hang => exact h

theorem SafeN.addAlloc_zero {α} {c m : Nat} {raw : Bytes} {off : Nat} {r : Res α}
    (h : SafeN c m raw off r) : SafeN c m raw off (r.addAlloc 0) := by
  cases r <;> simp only [Res.addAlloc, Nat.zero_add] <;> exact h

/-- value/offset facts travel through `bind` -/
theorem bind_ok {α β} {r : Res α} {f : α → Nat → Res β} {w : β} {off2 a2 : Nat}
    (h : r.bind f = .ok w off2 a2) :
    ∃ v off1 a a', r = .ok v off1 a ∧ f v off1 = .ok w off2 a' ∧ a2 = a + a' := by
  cases r with
  | ok v off1 a =>
    simp only [Res.bind] at h
    cases hfr : f v off1 with
    | ok w' off2' a' =>
      rw [hfr] at h; simp only [Res.addAlloc, Res.ok.injEq] at h
      obtain ⟨h1, h2, h3⟩ := h
      exact ⟨v, off1, a, a', rfl, by rw [hfr, h1, h2], h3.symm⟩
    | err e off2' a' => rw [hfr] at h; simp [Res.addAlloc] at h
    | panic a' => rw [hfr] at h; simp [Res.addAlloc] at h
    | hang => rw [hfr] at h; simp [Res.addAlloc] at h
  | err e off1 a => simp [Res.bind] at h
  | panic a => simp [Res.bind] at h
  | hang => simp [Res.bind] at h

theorem map_ok {α β} {r : Res α} {f : α → β} {w : β} {off2 a2 : Nat}
    (h : r.map f = .ok w off2 a2) : ∃ v, r = .ok v off2 a2 ∧ f v = w := by
  cases r with
  | ok v off1 a => simp only [Res.map, Res.ok.injEq] at h; exact ⟨v, by rw [h.2.1, h.2.2], h.1⟩
  | err e off1 a => simp [Res.map] at h
  | panic a => simp [Res.map] at h
  | hang => simp [Res.map] at h

/-! ### the varint reader -/

theorem uvarintGo_n (l : Bytes) : ∀ (i x s : Nat),
    (uvarintGo l i x s).2 = 0 ∨
    ((i : Int) < (uvarintGo l i x s).2 ∧ (uvarintGo l i x s).2 ≤ (i : Int) + l.length) ∨
    ((uvarintGo l i x s).2 < 0 ∧ (i : Int) < -(uvarintGo l i x s).2 ∧ -(uvarintGo l i x s).2 ≤ (i : Int) + l.length) := by
  induction l with
  | nil => intro i x s; left; rfl
  | cons b rest ih =>
    intro i x s
    unfold uvarintGo
    simp only [List.length_cons]
    split
    · right; right; simp only []; omega
    · split
      · split
        · right; right; simp only []; omega
        · right; left; simp only []; omega
      · have := ih (i + 1) (x + (b.toNat % 128) * 2 ^ s) (s + 7)
        omega

theorem uvarintGo_val (l : Bytes) : ∀ (i x s : Nat),
    0 < (uvarintGo l i x s).2 → (uvarintGo l i x s).1 < 18446744073709551616 := by
  induction l with
  | nil => intro i x s h; simp [uvarintGo] at h
  | cons b rest ih =>
    intro i x s
    unfold uvarintGo
    split
    · intro h; simp only [] at h; omega
    · split
      · split
        · intro h; simp only [] at h; omega
        · intro _; simp only []; omega
      · exact ih _ _ _

theorem length_drop_le (raw : Bytes) (off : Nat) (_h : off ≤ raw.length) : (raw.drop off).length = raw.length - off := by
  simp [List.length_drop]


/-! ### what a successful getter returns -/

theorem getInt16_ok {raw : Bytes} {off : Nat} {n : Int} {off1 a : Nat} (h : getInt16 raw off = .ok n off1 a) :
    off1 = off + 2 ∧ a = 0 ∧ off + 2 ≤ raw.length := by
  unfold getInt16 rem at h
  split at h
  · cases h
  · simp only [Res.ok.injEq] at h; omega

theorem getInt32_ok {raw : Bytes} {off : Nat} {n : Int} {off1 a : Nat} (h : getInt32 raw off = .ok n off1 a) :
    off1 = off + 4 ∧ a = 0 ∧ off + 4 ≤ raw.length := by
  unfold getInt32 rem at h
  split at h
  · cases h
  · simp only [Res.ok.injEq] at h; omega

theorem getUVarint_ok {raw : Bytes} {off : Nat} {n : Nat} {off1 a : Nat} (hoff : off ≤ raw.length)
    (h : getUVarint raw off = .ok n off1 a) :
    off < off1 ∧ off1 ≤ raw.length ∧ a = 0 ∧ n < 18446744073709551616 := by
  have hb := uvarintGo_n (raw.drop off) 0 0 0
  have hv := uvarintGo_val (raw.drop off) 0 0 0
  have hl := length_drop_le raw off hoff
  unfold getUVarint at h
  split at h
  · cases h
  · split at h
    · cases h
    · simp only [Res.ok.injEq] at h
      obtain ⟨h1, h2, h3⟩ := h
      have := hv (by omega)
      omega

theorem getVarint_ok {raw : Bytes} {off : Nat} {n : Int} {off1 a : Nat} (hoff : off ≤ raw.length)
    (h : getVarint raw off = .ok n off1 a) :
    off < off1 ∧ off1 ≤ raw.length ∧ a = 0 := by
  have hb := uvarintGo_n (raw.drop off) 0 0 0
  have hl := length_drop_le raw off hoff
  unfold getVarint at h
  split at h
  · cases h
  · split at h
    · cases h
    · simp only [Res.ok.injEq] at h
      omega

theorem arrayLengthTail_ok {v : Variant} {tmp : Int} {len off : Nat} {n : Int} {off1 a : Nat}
    (h : arrayLengthTail v tmp len off = .ok n off1 a) :
    n = tmp ∧ off1 = off ∧ a = 0 ∧ n ≤ (len : Int) - off ∧ n ≤ 131070 ∧ (v = .checked → -1 ≤ n) := by
  unfold arrayLengthTail at h
  split at h
  · cases h
  · split at h
    · cases h
    · split at h
      · cases h
      · simp only [Res.ok.injEq] at h
        obtain ⟨h1, h2, h3⟩ := h
        refine ⟨h1.symm, h2.symm, h3.symm, by omega, by omega, ?_⟩
        intro hv
        rename_i hc
        simp only [hv, true_and, Int.not_lt] at hc
        omega

theorem getArrayLength_ok {v : Variant} {raw : Bytes} {off : Nat} {n : Int} {off1 a : Nat}
    (h : getArrayLength v raw off = .ok n off1 a) :
    off1 = off + 4 ∧ off1 ≤ raw.length ∧ a = 0 ∧ n ≤ rem raw off1 ∧ n ≤ 131070 ∧ (v = .checked → -1 ≤ n) := by
  unfold getArrayLength rem at h
  split at h
  · cases h
  · have ⟨e1, e2, e3, e4, e5, e6⟩ := arrayLengthTail_ok h
    unfold rem
    exact ⟨by omega, by omega, e3, by omega, e5, e6⟩

theorem stringLengthTail_ok {n : Int} {len off : Nat} {m : Int} {off1 a : Nat}
    (h : stringLengthTail n len off = .ok m off1 a) :
    m = n ∧ off1 = off ∧ a = 0 ∧ -1 ≤ m ∧ m ≤ (len : Int) - off := by
  unfold stringLengthTail at h
  split at h
  · cases h
  · split at h
    · cases h
    · simp only [Res.ok.injEq] at h; omega

theorem getStringLength_ok {raw : Bytes} {off : Nat} {n : Int} {off1 a : Nat}
    (h : getStringLength raw off = .ok n off1 a) :
    off1 = off + 2 ∧ off1 ≤ raw.length ∧ a = 0 ∧ -1 ≤ n ∧ n ≤ rem raw off1 := by
  unfold getStringLength at h
  obtain ⟨v, o1, a1, a2, h1, h2, h3⟩ := bind_ok h
  have e1 := getInt16_ok h1
  have e2 := stringLengthTail_ok h2
  unfold rem
  omega

theorem getCompactArrayLength_checked_ok {raw : Bytes} {off : Nat} {n : Int} {off1 a : Nat} (hoff : off ≤ raw.length)
    (h : getCompactArrayLength .checked raw off = .ok n off1 a) :
    off < off1 ∧ off1 ≤ raw.length ∧ a = 0 ∧ 0 ≤ n ∧ n ≤ rem raw off1 := by
  unfold getCompactArrayLength at h
  obtain ⟨u, o1, a1, a2, h1, h2, h3⟩ := bind_ok h
  have e1 := getUVarint_ok hoff h1
  simp only [true_and] at h2
  split at h2
  · simp only [Res.ok.injEq] at h2; unfold rem; omega
  · split at h2
    · cases h2
    · simp only [Res.ok.injEq] at h2
      rename_i hc
      obtain ⟨h21, h22, h23⟩ := h2
      rw [← h21, ← h22]
      omega

/-! ### loops -/

theorem getRawBytes_ok {raw : Bytes} {off : Nat} {n : Int} {sub : Bytes} {off2 a : Nat} (hoff : off ≤ raw.length)
    (h : getRawBytes raw off n = .ok sub off2 a) :
    0 ≤ n ∧ off2 = off + n.toNat ∧ off2 ≤ raw.length ∧ a = 0 ∧ sub.length = n.toNat := by
  unfold getRawBytes rem at h
  split at h
  · cases h
  · split at h
    · cases h
    · simp only [Res.ok.injEq] at h
      obtain ⟨h1, h2, h3⟩ := h
      refine ⟨by omega, h2.symm, by omega, h3.symm, ?_⟩
      rw [← h1]
      simp only [slice, List.length_take, List.length_drop]
      omega

theorem iter_safe {c : Nat} {raw : Bytes} {step : Nat → Res Unit}
    (hstep : ∀ off, off ≤ raw.length → SafeN c 1 raw off (step off)) :
    ∀ (n off : Nat), off ≤ raw.length → SafeN c n raw off (iter step n off) := by
  intro n
  induction n with
  | zero => intro off h; simp only [iter]; safe_arith
  | succ k ih =>
    intro off h
    simp only [iter]
    refine SafeN.mono (SafeN.bind (m2 := k) (hstep off h) ?_) (Nat.le_refl _) (by omega)
    intro u off1 a hs
    have hg := hstep off h
    rw [hs] at hg
    simp only [SafeN] at hg
    exact ih off1 hg.2.1

theorem loopRem_safe {c : Nat} {raw : Bytes} {step : Nat → Res Unit} (p : Bool)
    (hstep : ∀ off, off ≤ raw.length → SafeN c 1 raw off (step off)) :
    ∀ (fuel off : Nat), off ≤ raw.length → raw.length - off < fuel →
      SafeN c 0 raw off (loopRem p raw.length step fuel off) := by
  intro fuel
  induction fuel with
  | zero => intro off h hf; omega
  | succ k ih =>
    intro off h hf
    simp only [loopRem]
    by_cases hlt : off < raw.length
    · simp only [hlt, not_true_eq_false, ↓reduceIte]
      have hg := hstep off h
      cases hs : step off with
      | ok u off1 a =>
        rw [hs] at hg
        simp only [SafeN] at hg
        have hi := ih off1 hg.2.1 (by omega)
        simp only []
        cases hr : loopRem p raw.length step k off1 with
        | ok u2 off2 a2 =>
          rw [hr] at hi; simp only [SafeN] at hi
          simp only [Res.addAlloc, SafeN]
          exact ⟨by omega, hi.2.1, alloc_add hg.2.2 hi.2.2 (by omega) (by omega)⟩
        | err e off2 a2 =>
          rw [hr] at hi; simp only [SafeN] at hi
          simp only [Res.addAlloc, SafeN]
          exact ⟨by omega, hi.2.1, alloc_add hg.2.2 hi.2.2 (by omega) hg.2.1⟩
        | panic a2 => rw [hr] at hi; exact hi.elim
        | hang => rw [hr] at hi; exact hi.elim
      | err e off1 a =>
        rw [hs] at hg
        simp only [SafeN] at hg
        simp only []
        split
        · simp only [SafeN]
          refine ⟨by omega, Nat.le_refl _, ?_⟩
          exact hg.2.2
        · simp only [SafeN]; exact hg
      | panic a => rw [hs] at hg; exact hg.elim
      | hang => rw [hs] at hg; exact hg.elim
    · simp only [hlt, not_false_eq_true, ↓reduceIte]
      safe_arith

/-- the fuel of `loopRem` is not a modelling artefact: any two fuels above the remaining bytes give the same result
    when every iteration that continues consumed at least one byte -/
theorem loopRem_fuel_irrelevant {len : Nat} {step : Nat → Res Unit} (p : Bool)
    (hprog : ∀ off u off1 a, off ≤ len → step off = .ok u off1 a → off < off1 ∧ off1 ≤ len) :
    ∀ (f1 f2 off : Nat), off ≤ len → len - off < f1 → len - off < f2 →
      loopRem p len step f1 off = loopRem p len step f2 off := by
  intro f1
  induction f1 with
  | zero => intro f2 off h h1 h2; omega
  | succ k ih =>
    intro f2 off h h1 h2
    cases f2 with
    | zero => omega
    | succ j =>
      simp only [loopRem]
      by_cases hlt : off < len
      · simp only [hlt, not_true_eq_false, ↓reduceIte]
        cases hs : step off with
        | ok u off1 a =>
          have := hprog off u off1 a h hs
          simp only []
          rw [ih j off1 this.2 (by omega) (by omega)]
        | err e off1 a => rfl
        | panic a => rfl
        | hang => rfl
      · simp only [hlt, not_false_eq_true, ↓reduceIte]

end Lemmas.C10
