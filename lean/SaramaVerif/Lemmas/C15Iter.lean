import SaramaVerif.Lemmas.C15Update
/-
  Helper lemmas for C15: the candidate iteration of tryRefreshMetadata (seeds first, then known brokers).
-/
namespace Lemmas.C15
open Model.Metadata

/-- brokers are a map: ids unique -/
def BNodup (s : State) : Prop := (keys Prod.fst s.brokers).Nodup

/-- the addresses a refresh may ask: seeds first, then the known brokers -/
def candidates (s : State) : List Addr := s.seeds ++ s.brokers.map Prod.snd

theorem pickKnown_nil (pick : List (Int × Addr) → Nat) : pickKnown pick [] = none := by
  simp [pickKnown]

theorem pickKnown_mem (pick : List (Int × Addr) → Nat) {bs : List (Int × Addr)} (h : bs ≠ []) :
    ∃ b, pickKnown pick bs = some b ∧ b ∈ bs := by
  have hl : 0 < bs.length := List.length_pos_iff.mpr h
  have hi : pick bs % bs.length < bs.length := Nat.mod_lt _ hl
  refine ⟨bs[pick bs % bs.length], ?_, List.getElem_mem hi⟩
  unfold pickKnown
  exact List.getElem?_eq_getElem hi

theorem pickKnown_some_mem (pick : List (Int × Addr) → Nat) {bs : List (Int × Addr)} {b : Int × Addr}
    (h : pickKnown pick bs = some b) : b ∈ bs := by
  unfold pickKnown at h
  exact List.mem_of_getElem? h

theorem length_kerase_lt {bs : List (Int × Addr)} {b : Int × Addr} (h : b ∈ bs) :
    (kerase Prod.fst b.1 bs).length < bs.length := by
  unfold kerase
  apply List.length_filter_lt_length_iff_exists.mpr
  exact ⟨b, h, by simp⟩

theorem kerase_nodup {bs : List (Int × Addr)} (k : Int) (h : (keys Prod.fst bs).Nodup) :
    (keys Prod.fst (kerase Prod.fst k bs)).Nodup := keys_kerase_nodup Prod.fst h

/-- with unique ids, two entries with the same id are the same entry -/
theorem eq_of_same_id {bs : List (Int × Addr)} {b b' : Int × Addr} (h : (keys Prod.fst bs).Nodup)
    (hb : b ∈ bs) (hb' : b' ∈ bs) (e : b.1 = b'.1) : b = b' := by
  have h1 := kget_of_mem_nodup Prod.fst h hb
  have h2 := kget_of_mem_nodup Prod.fst h hb'
  rw [e] at h1
  rw [h1] at h2
  exact Option.some.inj h2

/-! ### known brokers -/
theorem passKnown_frame (pick : List (Int × Addr) → Nat) (reach : Addr → Reach) (n : Nat) (s : State) (tr : List Addr) :
    (passKnown pick reach n s tr).s.seeds = s.seeds ∧ (passKnown pick reach n s tr).s.dead = s.dead ∧
    (passKnown pick reach n s tr).s.metadata = s.metadata ∧ (passKnown pick reach n s tr).s.cached = s.cached ∧
    (passKnown pick reach n s tr).s.tracked = s.tracked ∧ (passKnown pick reach n s tr).s.controller = s.controller ∧
    (∀ b, b ∈ (passKnown pick reach n s tr).s.brokers → b ∈ s.brokers) ∧
    (BNodup s → BNodup (passKnown pick reach n s tr).s) := by
  induction n generalizing s tr with
  | zero => simp [passKnown]
  | succ n ih =>
    unfold passKnown
    split
    · simp
    · rename_i b hb
      split
      · simp
      · simp
      · have h := ih (deregisterKnown s b.1) (tr ++ [b.2])
        refine ⟨h.1, h.2.1, h.2.2.1, h.2.2.2.1, h.2.2.2.2.1, h.2.2.2.2.2.1, ?_, ?_⟩
        · intro x hx
          have := h.2.2.2.2.2.2.1 x hx
          simp only [deregisterKnown] at this
          exact ((mem_kerase Prod.fst).mp this).1
        · intro hn
          apply h.2.2.2.2.2.2.2
          unfold BNodup deregisterKnown
          exact kerase_nodup b.1 hn

theorem passKnown_tried_len (pick : List (Int × Addr) → Nat) (reach : Addr → Reach) (n : Nat) (s : State) (tr : List Addr) :
    (passKnown pick reach n s tr).tried.length ≤ tr.length + s.brokers.length := by
  induction n generalizing s tr with
  | zero => simp [passKnown]
  | succ n ih =>
    unfold passKnown
    split
    · simp
    · rename_i b hb
      have hm := pickKnown_some_mem pick hb
      have hpos : 0 < s.brokers.length := List.length_pos_of_mem hm
      split
      · simp; omega
      · simp; omega
      · have h := ih (deregisterKnown s b.1) (tr ++ [b.2])
        have hl := length_kerase_lt hm
        have e1 : (deregisterKnown s b.1).brokers.length = (kerase Prod.fst b.1 s.brokers).length := rfl
        have e2 : (tr ++ [b.2]).length = tr.length + 1 := by simp
        omega

/-- nobody answers: every known broker is asked and dropped, the loop ends with no candidate left -/
theorem passKnown_all_fail (pick : List (Int × Addr) → Nat) (reach : Addr → Reach) (n : Nat) (s : State) (tr : List Addr)
    (hn : s.brokers.length ≤ n) (hf : ∀ b ∈ s.brokers, reach b.2 = .fail) :
    (passKnown pick reach n s tr).out = .outOfBrokers ∧ (passKnown pick reach n s tr).s.brokers = [] := by
  induction n generalizing s tr with
  | zero =>
    have : s.brokers = [] := List.eq_nil_of_length_eq_zero (by omega)
    simp [passKnown, this]
  | succ n ih =>
    unfold passKnown
    split
    · rename_i hp
      by_cases he : s.brokers = []
      · simp [he]
      · rcases pickKnown_mem pick he with ⟨b, hb, _⟩
        rw [hb] at hp
        cases hp
    · rename_i b hb
      have hm := pickKnown_some_mem pick hb
      rw [hf b hm]
      simp only
      apply ih
      · have := length_kerase_lt hm
        simp only [deregisterKnown]
        omega
      · intro x hx
        simp only [deregisterKnown] at hx
        exact hf x ((mem_kerase Prod.fst).mp hx).1

/-- somebody answers (and nobody is fatal): the loop reaches an answering broker, which stays registered -/
theorem passKnown_answer (pick : List (Int × Addr) → Nat) (reach : Addr → Reach) (n : Nat) (s : State) (tr : List Addr)
    (hn : s.brokers.length ≤ n) (hnd : BNodup s)
    (hnf : ∀ b ∈ s.brokers, ∀ e, reach b.2 ≠ .fatal e)
    (ha : ∃ b ∈ s.brokers, ∃ r, reach b.2 = .answer r) :
    ∃ b r, b ∈ s.brokers ∧ reach b.2 = .answer r ∧ (passKnown pick reach n s tr).out = .answered r ∧
      b ∈ (passKnown pick reach n s tr).s.brokers ∧ (passKnown pick reach n s tr).tried.getLast? = some b.2 := by
  induction n generalizing s tr with
  | zero =>
    rcases ha with ⟨b, hb, _⟩
    have : s.brokers = [] := List.eq_nil_of_length_eq_zero (by omega)
    rw [this] at hb
    simp at hb
  | succ n ih =>
    rcases ha with ⟨b, hb, r, hr⟩
    have he : s.brokers ≠ [] := List.ne_nil_of_mem hb
    rcases pickKnown_mem pick he with ⟨b0, hb0, hm0⟩
    unfold passKnown
    rw [hb0]
    simp only
    cases h0 : reach b0.2 with
    | answer r0 =>
      simp only
      exact ⟨b0, r0, hm0, h0, rfl, hm0, by simp⟩
    | fatal e => exact absurd h0 (hnf b0 hm0 e)
    | fail =>
      simp only
      have hne : b.1 ≠ b0.1 := by
        intro e
        have := eq_of_same_id hnd hb hm0 e
        rw [this, h0] at hr
        cases hr
      have hb' : b ∈ (deregisterKnown s b0.1).brokers := by
        simp only [deregisterKnown]
        exact (mem_kerase Prod.fst).mpr ⟨hb, hne⟩
      have hl := length_kerase_lt hm0
      rcases ih (deregisterKnown s b0.1) (tr ++ [b0.2]) (by simp only [deregisterKnown]; omega)
          (by unfold BNodup deregisterKnown; exact kerase_nodup b0.1 hnd)
          (by intro x hx e; simp only [deregisterKnown] at hx; exact hnf x ((mem_kerase Prod.fst).mp hx).1 e)
          ⟨b, hb', r, hr⟩ with ⟨b1, r1, hb1, hr1, hout, hin, hlast⟩
      refine ⟨b1, r1, ?_, hr1, hout, hin, hlast⟩
      simp only [deregisterKnown] at hb1
      exact ((mem_kerase Prod.fst).mp hb1).1

/-- every address the loop asks is a known broker's (or was asked before) -/
theorem passKnown_tried_sub (pick : List (Int × Addr) → Nat) (reach : Addr → Reach) (n : Nat) (s : State) (tr : List Addr) :
    ∀ x ∈ (passKnown pick reach n s tr).tried, x ∈ tr ∨ x ∈ s.brokers.map Prod.snd := by
  induction n generalizing s tr with
  | zero => intro x hx; exact Or.inl (by simpa [passKnown] using hx)
  | succ n ih =>
    unfold passKnown
    split
    · intro x hx; exact Or.inl hx
    · rename_i b hb
      have hm := pickKnown_some_mem pick hb
      have hmem : b.2 ∈ s.brokers.map Prod.snd := List.mem_map.mpr ⟨b, hm, rfl⟩
      split
      · intro x hx
        rcases List.mem_append.mp hx with h | h
        · exact Or.inl h
        · simp at h; rw [h]; exact Or.inr hmem
      · intro x hx
        rcases List.mem_append.mp hx with h | h
        · exact Or.inl h
        · simp at h; rw [h]; exact Or.inr hmem
      · intro x hx
        rcases ih (deregisterKnown s b.1) (tr ++ [b.2]) x hx with h | h
        · rcases List.mem_append.mp h with h | h
          · exact Or.inl h
          · simp at h; rw [h]; exact Or.inr hmem
        · right
          rcases List.mem_map.mp h with ⟨y, hy, e⟩
          simp only [deregisterKnown] at hy
          exact List.mem_map.mpr ⟨y, ((mem_kerase Prod.fst).mp hy).1, e⟩

/-! ### seeds -/
/-- all remaining seeds fail: they all move to the dead list, in order, and the known brokers take over -/
theorem passSeeds_all_fail (pick : List (Int × Addr) → Nat) (reach : Addr → Reach) (s0 : State)
    (seeds dead tr : List Addr) (hf : ∀ a ∈ seeds, reach a = .fail) :
    passSeeds pick reach s0 seeds dead tr =
      passKnown pick reach s0.brokers.length { s0 with seeds := [], dead := dead ++ seeds } (tr ++ seeds) := by
  induction seeds generalizing dead tr with
  | nil => simp [passSeeds]
  | cons a rest ih =>
    unfold passSeeds
    rw [hf a (by simp)]
    simp only
    rw [ih (dead ++ [a]) (tr ++ [a]) (fun x hx => hf x (by simp [hx]))]
    simp [List.append_assoc]

/-- the first seed that does not fail answers: the failed prefix is set aside, the answering seed stays head -/
theorem passSeeds_first_answer (pick : List (Int × Addr) → Nat) (reach : Addr → Reach) (s0 : State)
    (pre : List Addr) (a : Addr) (post dead tr : List Addr) (r : Resp)
    (hf : ∀ x ∈ pre, reach x = .fail) (ha : reach a = .answer r) :
    passSeeds pick reach s0 (pre ++ a :: post) dead tr =
      ⟨{ s0 with seeds := a :: post, dead := dead ++ pre }, .answered r, tr ++ pre ++ [a]⟩ := by
  induction pre generalizing dead tr with
  | nil =>
    simp only [List.nil_append, List.append_nil]
    unfold passSeeds
    rw [ha]
  | cons x pre ih =>
    simp only [List.cons_append]
    unfold passSeeds
    rw [hf x (by simp)]
    simp only
    rw [ih (dead ++ [x]) (tr ++ [x]) (fun y hy => hf y (by simp [hy]))]
    simp [List.append_assoc]

/-- without fatal answers a seed list either fails entirely or splits at its first answering seed -/
theorem seeds_split (reach : Addr → Reach) (seeds : List Addr) (hnf : ∀ a ∈ seeds, ∀ e, reach a ≠ .fatal e) :
    (∀ a ∈ seeds, reach a = .fail) ∨
    ∃ pre a post r, seeds = pre ++ a :: post ∧ (∀ x ∈ pre, reach x = .fail) ∧ reach a = .answer r := by
  induction seeds with
  | nil => left; simp
  | cons a rest ih =>
    cases h : reach a with
    | answer r => right; exact ⟨[], a, rest, r, by simp, by simp, h⟩
    | fatal e => exact absurd h (hnf a (by simp) e)
    | fail =>
      rcases ih (fun x hx e => hnf x (by simp [hx]) e) with hall | ⟨pre, b, post, r, e, hp, hb⟩
      · left
        intro x hx
        rcases List.mem_cons.mp hx with e | hx
        · rw [e]; exact h
        · exact hall x hx
      · right
        refine ⟨a :: pre, b, post, r, by simp [e], ?_, hb⟩
        intro x hx
        rcases List.mem_cons.mp hx with e | hx
        · rw [e]; exact h
        · exact hp x hx

end Lemmas.C15
