/-
  C02 composition, handover chain: `deliver` keeps the chain invariant (assembly).
-/
import SaramaVerif.Lemmas.C02chStepD2

set_option linter.unusedSimpArgs false

namespace Lemmas.C02sys
open Model Model.Pipeline

theorem others_empty {M : Nat} {s : Sys} {olds : List Nat} {v : View} (h : GoodC M s olds v) (c : Nat)
    (hc : s.cur = some c) : ∀ u, u ≠ c → ∀ sent', (s.wk u).bp.sets = [sent'] → sent' = [] := by
  intro u hu sent' hs
  by_cases ho : u ∈ olds
  · have hin : insW s u = [] := (h.conc.oldok u ho).1
    have : sent' ++ ((s.wk u).bp.buffer ++ (s.wk u).bp.wait.toList) = [] := by
      simpa [insW, insideB, Props.C02bp.inside, hs] using hin
    exact (List.append_eq_nil_iff.1 this).1
  · have := h.conc.fresh u ho (by rw [hc]; intro e; cases e; exact hu rfl)
    rw [this] at hs; cases hs

theorem goodC_deliver_cur {M : Nat} (hM : 1 ≤ M) {s s' : Sys} {olds : List Nat} {v : View} {c : Nat} {still : Bool}
    (h : GoodC M s olds v) (hc : s.cur = some c) (hs : sysStep M s (.deliver c still) = some s') :
    ∃ v', GoodC M s' olds v' := by
  obtain ⟨vd, base, hpend, hd, rfl⟩ := deliverW_split hs
  obtain ⟨sent, hsets, hb⟩ := h.log.pend c vd base hpend
  have hP : P0 (insideB (s.wk c).bp) := fun x hx => h.conc.p0w c x (List.mem_append_right _ hx)
  have hN : NoSyn (insideB (s.wk c).bp) := fun t ht => by rw [(h.conc.pinv c).data t ht]; simp
  have hpinv := (Props.C02bp.step_fifo M (s.wk c).bp (.resp vd.toResp still) (h.conc.pinv c)).2
  have hins : insW s c = sent ++ ((s.wk c).bp.buffer ++ (s.wk c).bp.wait.toList) := by
    simp [insW, insideB, Props.C02bp.inside, hsets]
  have hnp : (s.wk c).bp ≠ {} := by
    intro e; rw [e] at hsets; cases hsets
  cases hn : BrokerProd.needsRetry (s.wk c).bp 0 with
  | false =>
    cases vd with
    | ok =>
      obtain ⟨a1, a2, a3, a4, a5⟩ := resp_ok_spec M (s.wk c).bp sent still hsets hn hP
      rw [a5]
      obtain ⟨v', r1, r2, r4, r5, r6, r7⟩ := cur_shrink_core h c hc hn hnp _ hpinv a1 a2 sent
        (by rw [hins, a4]) (s.succ ++ offs sent base) s.errs
      refine ⟨v', r1.1, r2, r1.2, ?_⟩
      by_cases hse : sent = []
      · subst hse
        have := logC_deliver_same (M := M) h.log r4 c
          (BrokerProd.step M (s.wk c).bp (.resp Pipeline.Verdict.ok.toResp still)).1 [] s.errs
        simpa [offs] using this
      · exact logC_deliver_ok h.log r4 c _ _ _ sent base (hb hse).1 ((hb hse).2 rfl) r6 r7 r5 (others_empty h c hc)
    | fatal =>
      obtain ⟨a1, a2, a3, a4, a5⟩ := resp_fatal_spec M hM (s.wk c).bp sent still hsets hn hP
      rw [a5]
      obtain ⟨v', r1, r2, r4, _⟩ := cur_shrink_core h c hc hn hnp _ hpinv a1 a2 sent
        (by rw [hins, a4]) s.succ (s.errs ++ sent.map (·.id))
      exact ⟨v', r1.1, r2, r1.2, logC_deliver_same h.log r4 c _ _ _⟩
    | retriable a =>
      cases sent with
      | nil =>
        obtain ⟨a1, a2, a3, a4, a5⟩ := resp_retr_nil_spec M (s.wk c).bp a still hsets hn hP
        rw [a5]
        obtain ⟨v', r1, r2, r4, _⟩ := cur_shrink_core h c hc hn hnp _ hpinv a1 a2 []
          (by rw [hins, a4]) s.succ s.errs
        exact ⟨v', r1.1, r2, r1.2, logC_deliver_same h.log r4 c _ _ _⟩
      | cons t r =>
        obtain ⟨a1, a2, a3, a4, a5⟩ := resp_retr_cons_spec M hM (s.wk c).bp t r a still hsets hP hN
        rw [a5]
        have hcl : (s.wk c).bp.closing = false := by
          rw [needsRetry_iff] at hn; cases hcc : (s.wk c).bp.closing <;> simp_all
        obtain ⟨v', r1, r2, r4⟩ := cur_fail_core h c hc hn (fun e => absurd e hnp) _ hpinv a4
          (Or.inr ⟨by rw [a1]; exact hcl, a2, by rw [hins]; simp⟩) s.succ (s.errs ++ errOut M (insW s c))
        have hl := logC_deliver_same (M := M) h.log r4 c (BrokerProd.step M (s.wk c).bp
          (.resp (Pipeline.Verdict.retriable a).toResp still)).1 (insW s c) (s.errs ++ errOut M (insW s c))
        refine ⟨v', ?_, r2, ?_, ?_⟩
        · simpa [deliverSw, afterWw, bumpF_nil] using r1.1
        · simpa [deliverSw, afterWw, bumpF_nil] using r1.2
        · simpa [deliverSw, afterWw, bumpF_nil] using hl
    | conn a =>
      obtain ⟨a1, a2, a3, a4, a5⟩ := resp_conn_spec M (s.wk c).bp sent a still hsets hP hN
      rw [a5]
      obtain ⟨v', r1, r2, r4⟩ := cur_fail_core h c hc hn (fun e => absurd e hnp) _ hpinv a4 (Or.inl a1) s.succ
        (s.errs ++ errOut M (insW s c))
      have hl := logC_deliver_same (M := M) h.log r4 c (BrokerProd.step M (s.wk c).bp
        (.resp (Pipeline.Verdict.conn a).toResp still)).1 (insW s c) (s.errs ++ errOut M (insW s c))
      refine ⟨v', ?_, r2, ?_, ?_⟩
      · simpa [deliverSw, afterWw, bumpF_nil] using r1.1
      · simpa [deliverSw, afterWw, bumpF_nil] using r1.2
      · simpa [deliverSw, afterWw, bumpF_nil] using hl
  | true =>
    have hempty : insW s c = [] := by
      have := (h.conc.pinv c).quiet 0 hn
      rwa [onPart_P0 hP] at this
    obtain ⟨a1, a3, a4, a5⟩ := empty_resp hM (s.wk c).bp (h.conc.pinv c) hempty vd still hd
    rw [a5]
    have hp := cur_empty_core h c hc hn _ hpinv a1 a3 a4 s.succ s.errs
    exact ⟨v, hp.1, h.vinv, hp.2, logC_deliver_same h.log (fun a ha => ha) c _ _ _⟩

theorem goodC_deliver {M : Nat} (hM : 1 ≤ M) {s s' : Sys} {olds : List Nat} {v : View} {w : Nat} {still : Bool}
    (h : GoodC M s olds v) (hs : sysStep M s (.deliver w still) = some s') : ∃ v', GoodC M s' olds v' := by
  by_cases hc : s.cur = some w
  · exact goodC_deliver_cur hM h hc hs
  · by_cases ho : w ∈ olds
    · exact ⟨v, goodC_deliver_old hM h ho hs⟩
    · have := h.conc.fresh w ho hc
      simp [sysStep, this] at hs

end Lemmas.C02sys
