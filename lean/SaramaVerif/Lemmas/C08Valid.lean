import SaramaVerif.Lemmas.C08Range
import SaramaVerif.Lemmas.C08RR
/-
  From the counting / membership facts about a plan to the executable validity predicate `validPlan`.
-/
namespace Model.Balance

/-- a property of the keys of a plan -/
def PlanKeys (Q : Member → Prop) (plan : Plan) : Prop := ∀ k, k ∈ AL.keys plan → Q k

theorem planKeys_add {Q : Member → Prop} {plan : Plan} (h : PlanKeys Q plan) (m : Member) (t : Topic) (ps : List Int)
    (hm : Q m) : PlanKeys Q (plan.add m t ps) := by
  unfold Plan.add
  split
  · exact h
  · intro k hk
    rcases (AL.keys_set _ _ _ _).mp hk with rfl | hk
    · exact hm
    · exact h k hk

theorem planKeys_rangeCoreFrom {Q : Member → Prop} (r : Nat → Nat) (t : Topic) (ps : List Int) :
    ∀ (ms : List Member) (i : Nat) (plan : Plan), PlanKeys Q plan → (∀ m, m ∈ ms → Q m) →
      PlanKeys Q (rangeCoreFrom r t ps i ms plan) := by
  intro ms
  induction ms with
  | nil => intro i plan h _; exact h
  | cons m ms ih =>
    intro i plan h hq
    rw [rangeCoreFrom]
    exact ih _ _ (planKeys_add h m t _ (hq m List.mem_cons_self)) (fun m' hm' => hq m' (List.mem_cons_of_mem _ hm'))

theorem planKeys_rangePlan {Q : Member → Prop} (r : Topic → Nat → Nat) (ts : Topics) :
    ∀ (mbt : AL Member) (plan : Plan), PlanKeys Q plan → (∀ e, e ∈ mbt → ∀ m, m ∈ e.2 → Q m) →
      PlanKeys Q (rangePlan r ts mbt plan) := by
  intro mbt
  induction mbt with
  | nil => intro plan h _; exact h
  | cons e rest ih =>
    intro plan h hq
    obtain ⟨t, ms⟩ := e
    rw [rangePlan]
    exact ih _ (planKeys_rangeCoreFrom (r t) t _ ms 0 plan h (hq (t, ms) List.mem_cons_self))
      (fun e he => hq e (List.mem_cons_of_mem _ he))

theorem AL.get_eq_nil_of_not_mem_keys {α : Type} {a : AL α} {k : Nat} (h : k ∉ AL.keys a) : AL.get a k = [] := by
  induction a with
  | nil => rfl
  | cons e rest ih =>
    obtain ⟨k', v'⟩ := e
    simp only [AL.keys, List.map_cons, List.mem_cons, not_or] at h
    have : k' ≠ k := fun e => h.1 e.symm
    simp only [AL.get, this, ↓reduceIte]
    exact ih h.2

theorem AL.mem_of_mem_keys {α : Type} {a : AL α} {k : Nat} (h : k ∈ AL.keys a) : (k, AL.get a k) ∈ a := by
  induction a with
  | nil => simp [AL.keys] at h
  | cons e rest ih =>
    obtain ⟨k', v'⟩ := e
    by_cases hk : k' = k
    · subst hk; simp [AL.get]
    · simp only [AL.keys, List.map_cons, List.mem_cons] at h
      rcases h with h | h
      · exact absurd h.symm hk
      · simp only [AL.get, hk, ↓reduceIte]
        exact List.mem_cons_of_mem _ (ih h)

theorem subscribed_of_mem {ms : Members} (hnd : (ms.map (·.1)).Nodup) {e : Member × List Topic} (he : e ∈ ms)
    {t : Topic} (ht : t ∈ e.2) : subscribed ms e.1 t = true := by
  unfold subscribed
  have : AL.get ms e.1 = e.2 := AL.get_of_mem_nodup (a := ms) hnd (by cases e; exact he)
  rw [this]
  exact List.contains_iff_mem.mpr ht

theorem isMember_of_mem {ms : Members} {e : Member × List Topic} (he : e ∈ ms) : isMember ms e.1 = true := by
  unfold isMember
  exact List.contains_iff_mem.mpr (List.mem_map.mpr ⟨e, he, rfl⟩)

theorem count_eq_one_of_mem_nodup {l : List Int} {p : Int} (hnd : l.Nodup) (hp : p ∈ l) : l.count p = 1 := by
  rw [hnd.count, if_pos hp]

theorem AL.countAll_pos_of_mem {plan : Plan} {e : Member × List TP} {tp : TP} (he : e ∈ plan) (htp : tp ∈ e.2) :
    0 < AL.countAll plan tp := by
  induction plan with
  | nil => simp at he
  | cons e' rest ih =>
    simp only [AL.countAll]
    rcases List.mem_cons.mp he with rfl | he
    · have := List.count_pos_iff.mpr htp; omega
    · have := ih he; omega

/-- the executable validity predicate from its three ingredients -/
theorem validPlan_of {ms : Members} {ts : Topics} {plan : Plan}
    (hids : (ms.map (·.1)).Nodup)
    (hkeys : PlanKeys (fun m => ∃ e, e ∈ ms ∧ e.1 = m) plan)
    (hall : PlanAll (fun m tp => (∃ e, e ∈ ms ∧ e.1 = m ∧ tp.1 ∈ e.2) ∧ tp.2 ∈ partsOf ts tp.1) plan)
    (hcov : ∀ e, e ∈ ts → hasSubscriber ms e.1 = true → ∀ p, p ∈ e.2 → AL.countAll plan (e.1, p) = 1) :
    validPlan ms ts plan = true := by
  unfold validPlan plannedOK coveredOnce
  simp only [Bool.and_eq_true, List.all_eq_true, Bool.or_eq_true, Bool.not_eq_true', beq_iff_eq]
  constructor
  · intro e he
    constructor
    · obtain ⟨e', he', hm⟩ := hkeys e.1 (List.mem_map.mpr ⟨e, he, rfl⟩)
      rw [← hm]; exact isMember_of_mem he'
    · intro tp htp
      obtain ⟨⟨e', he', hm, ht⟩, hp⟩ := hall e he tp htp
      constructor
      · rw [← hm]; exact subscribed_of_mem hids he' ht
      · exact List.contains_iff_mem.mpr hp
  · intro e he
    cases hs : hasSubscriber ms e.1 with
    | false => exact Or.inl rfl
    | true => exact Or.inr (fun p hp => hcov e he hs p hp)

end Model.Balance
