import SaramaVerif.Lemmas.C08RR
/-
  Round-robin with identical subscriptions: the cursor never skips, so member number k gets the positions
  congruent to k, and the totals are ⌊L/n⌋ or ⌈L/n⌉.
-/
namespace Model.Balance

/-- F c k = number of j < c with j % n = k (closed form) -/
def rrShare (n c k : Nat) : Nat := c / n + (if k < c % n then 1 else 0)

theorem rrShare_succ {n c k : Nat} (hn : 0 < n) (hk : k < n) :
    rrShare n (c + 1) k = rrShare n c k + (if c % n = k then 1 else 0) := by
  unfold rrShare
  have hd := Nat.div_add_mod c n
  have hlt := Nat.mod_lt c hn
  by_cases h : c % n + 1 < n
  · have e : c + 1 = (c % n + 1) + n * (c / n) := by omega
    have e1 : (c + 1) / n = c / n := by
      rw [e, Nat.add_mul_div_left _ _ hn, Nat.div_eq_of_lt h]; omega
    have e2 : (c + 1) % n = c % n + 1 := by
      rw [e, Nat.add_mul_mod_self_left, Nat.mod_eq_of_lt h]
    rw [e1, e2]
    by_cases h1 : k < c % n
    · have : k < c % n + 1 := by omega
      have h3 : ¬ (c % n = k) := by omega
      simp [h1, this, h3]
    · by_cases h2 : c % n = k
      · have : k < c % n + 1 := by omega
        simp [h1, this, h2]
      · have : ¬ (k < c % n + 1) := by omega
        simp [h1, this, h2]
  · have e : c + 1 = n * (c / n + 1) := by rw [Nat.mul_add, Nat.mul_one]; omega
    have e1 : (c + 1) / n = c / n + 1 := by rw [e, Nat.mul_div_cancel_left _ hn]
    have e2 : (c + 1) % n = 0 := by rw [e, Nat.mul_mod_right]
    rw [e1, e2]
    by_cases h1 : k < c % n
    · have h3 : ¬ (c % n = k) := by omega
      simp [h1, h3]
    · have h2 : c % n = k := by omega
      simp [h1, h2]

/-- how often the cursor positions i, …, i+L-1 fall on member number k -/
def rrHits (n : Nat) : Nat → Nat → Nat → Nat
  | _, 0, _ => 0
  | i, L + 1, k => (if i % n = k then 1 else 0) + rrHits n (i + 1) L k

theorem rrHits_share {n k : Nat} (hn : 0 < n) (hk : k < n) :
    ∀ (L i : Nat), rrHits n i L k + rrShare n i k = rrShare n (i + L) k := by
  intro L
  induction L with
  | zero => intro i; simp [rrHits]
  | succ L ih =>
    intro i
    have := ih (i + 1)
    rw [rrShare_succ hn hk] at this
    rw [rrHits]
    have e : i + (L + 1) = i + 1 + L := by omega
    rw [e]; omega

theorem size_add_one (plan : Plan) (m a : Member) (t : Topic) (p : Int) :
    size (plan.add m t [p]) a = size plan a + (if m = a then 1 else 0) := by
  unfold size Plan.add
  simp only [List.isEmpty_cons, Bool.false_eq_true, ↓reduceIte]
  by_cases h : m = a
  · subst h; rw [AL.get_set_same]; simp
  · rw [AL.get_set_other _ _ _ _ h]; simp [h]

theorem rrFind_now {ms : Members} {t : Topic} {i fuel : Nat} {e : Member × List Topic}
    (he : ms[i % ms.length]? = some e) (hc : e.2.contains t = true) : rrFind ms t i (fuel + 1) = some i := by
  rw [rrFind, he]; simp only; rw [if_pos hc]

/-- how often the cursor positions i, …, i+L-1 fall on member `a` -/
def rrVisits (ms : Members) : Nat → Nat → Member → Nat
  | _, 0, _ => 0
  | i, L + 1, a => (if rrMember ms i = a then 1 else 0) + rrVisits ms (i + 1) L a

/-- all members have all topics: the loop never skips -/
theorem rrLoop_identical (ms : Members) (hne : ms ≠ []) (a : Member) :
    ∀ (tps : List TP) (i : Nat) (plan : Plan),
      (∀ e, e ∈ ms → ∀ tp, tp ∈ tps → e.2.contains tp.1 = true) →
      ∃ out, rrLoop ms ms.length tps i plan = some out ∧
        size out a = size plan a + rrVisits ms i tps.length a := by
  have hlen : 0 < ms.length := List.length_pos_iff.mpr hne
  intro tps
  induction tps with
  | nil => intro i plan _; exact ⟨plan, rfl, by simp [rrVisits]⟩
  | cons tp rest ih =>
    intro i plan hall
    have hlt : i % ms.length < ms.length := Nat.mod_lt _ hlen
    have he : ms[i % ms.length]? = some ms[i % ms.length] := List.getElem?_eq_getElem hlt
    have hc := hall _ (List.getElem_mem hlt) tp List.mem_cons_self
    obtain ⟨out, ho, hs⟩ := ih (i + 1) (plan.add (rrMember ms i) tp.1 [tp.2])
      (fun e he' tp' htp' => hall e he' tp' (List.mem_cons_of_mem _ htp'))
    refine ⟨out, ?_, ?_⟩
    · have : ms.length = (ms.length - 1) + 1 := by omega
      rw [rrLoop, this, rrFind_now he hc, ← this]
      exact ho
    · rw [hs, size_add_one, List.length_cons, rrVisits]
      omega

/-- position ↔ member id, for distinct member ids -/
theorem rrMember_eq_iff {ms : Members} (hids : (ms.map (·.1)).Nodup) {k : Nat} (hk : k < ms.length) (c : Nat) :
    rrMember ms c = (ms[k]).1 ↔ c % ms.length = k := by
  have hlen : 0 < ms.length := by omega
  have hlt : c % ms.length < ms.length := Nat.mod_lt _ hlen
  unfold rrMember
  rw [List.getElem?_eq_getElem hlt]
  simp only
  have h1 : c % ms.length < (ms.map (·.1)).length := by simpa using hlt
  have h2 : k < (ms.map (·.1)).length := by simpa using hk
  have := List.getElem_inj (h₀ := h1) (h₁ := h2) hids
  simp only [List.getElem_map] at this
  exact this

theorem rrVisits_eq_hits {ms : Members} (hids : (ms.map (·.1)).Nodup) {k : Nat} (hk : k < ms.length) :
    ∀ (L i : Nat), rrVisits ms i L (ms[k]).1 = rrHits ms.length i L k := by
  intro L
  induction L with
  | zero => intro i; rfl
  | succ L ih =>
    intro i
    rw [rrVisits, rrHits, ih (i + 1)]
    by_cases h : rrMember ms i = (ms[k]).1
    · have := (rrMember_eq_iff hids hk i).mp h
      rw [if_pos h, if_pos this]
    · have : ¬ (i % ms.length = k) := fun e => h ((rrMember_eq_iff hids hk i).mpr e)
      rw [if_neg h, if_neg this]

end Model.Balance
