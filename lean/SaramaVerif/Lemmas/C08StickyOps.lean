import SaramaVerif.Lemmas.C08StickyEnv
/-
  The state invariant of the sticky op model and its preservation by park / snapshot / the two move branches /
  revert (guarded variant).  The assignment loop is in C08StickyAssign.lean.
-/
namespace Model.Balance

structure SInv (env : SEnv) (st : SState) : Prop where
  core : Core env st.cur st.owner st.fixed st.assigned
  pre : st.assigned = false →
    st.fixed = [] ∧ st.snap = none ∧ st.moves = [] ∧ ∀ k, k ∈ AL.keys env.pot → k ∈ AL.keys st.cur
  snapOK : ∀ s, st.snap = some s → Core env s.1 s.2 st.fixed true ∧ st.assigned = true
  movesOK : ∀ e, e ∈ st.moves → canPartitionParticipate env.pot e.1 = true ∧ e.1 ∈ env.parts

theorem mem_movePartition {mv : Movements} {p : TP} {old new : Member} {e : TP × Member × Member}
    (h : e ∈ movePartition mv p old new) : e ∈ mv ∨ e.1 = p := by
  unfold movePartition at h
  cases hg : movGet mv p with
  | none =>
    rw [hg] at h
    simp only [List.mem_append, List.mem_singleton] at h
    rcases h with h | h
    · exact Or.inl h
    · exact Or.inr (by rw [h])
  | some ex =>
    rw [hg] at h
    simp only at h
    split at h
    · simp only [List.mem_append, List.mem_singleton] at h
      rcases h with h | h
      · exact Or.inl (List.mem_filter.mp h).1
      · exact Or.inr (by rw [h])
    · exact Or.inl (List.mem_filter.mp h).1

/-- a move of an assigned, reassignable partition to a member of the working assignment that may take it -/
theorem SInv.processMove {env : SEnv} {st : SState} (inv : SInv env st) (hass : st.assigned = true) {q : TP}
    {new : Member} (hq : q ∈ env.parts) (hcan : canPartitionParticipate env.pot q = true)
    (hnew : new ∈ AL.keys st.cur) (hpot : q ∈ AL.get env.pot new) : SInv env (processMove st q new) := by
  have c : Core env st.cur st.owner st.fixed true := by have := inv.core; rw [hass] at this; exact this
  obtain ⟨old, hown, hheld, hold, hc1, _⟩ := c.held hq hcan
  unfold Model.Balance.processMove
  rw [hown]
  simp only
  refine ⟨?_, ?_, ?_, ?_⟩
  · simp only [hass]
    exact c.move hown hheld hold hc1 hnew hpot
  · intro h; simp only [hass] at h; cases h
  · intro s hs
    exact inv.snapOK s hs
  · intro e he
    rcases mem_movePartition he with he | he
    · exact inv.movesOK e he
    · rw [he]; exact ⟨hcan, hq⟩

theorem SInv.park {env : SEnv} {st : SState} (inv : SInv env st) {m : Member}
    (hg : guard .guarded env st (.park m) = true) : SInv env (apply .guarded env st (.park m)) := by
  simp only [guard, Bool.and_eq_true, Bool.not_eq_true', Option.isNone_iff_eq_none] at hg
  obtain ⟨⟨⟨hass, hsnap⟩, hkey⟩, hcp⟩ := hg
  have hm : m ∈ AL.keys st.cur := AL.hasKey_iff.mp hkey
  have c := inv.core
  have hmf : m ∉ AL.keys st.fixed := by
    intro hf
    exact (List.nodup_append.mp c.keysNodup).2.2 m hm m hf rfl
  have hany : ∀ p, p ∈ AL.get st.cur m → canPartitionParticipate env.pot p = false := by
    intro p hp
    unfold canConsumerParticipate at hcp
    simp only [Bool.or_eq_false_iff] at hcp
    have := hcp.2
    rw [List.any_eq_false] at this
    have := this p hp
    simpa using this
  simp only [apply]
  refine ⟨⟨?_, ?_, ?_, ?_, ?_, ?_, ?_, ?_⟩, ?_, ?_, inv.movesOK⟩
  · rw [AL.keys_erase, AL.keys_set_of_not_mem _ hmf]
    have p1 : (AL.keys st.cur ++ AL.keys st.fixed).Perm (m :: ((AL.keys st.cur).erase m ++ AL.keys st.fixed)) :=
      (List.perm_cons_erase hm).append_right _
    have p2 : ((AL.keys st.cur).erase m ++ (AL.keys st.fixed ++ [m])).Perm
        (m :: ((AL.keys st.cur).erase m ++ AL.keys st.fixed)) := by
      rw [← List.append_assoc]; exact List.perm_append_singleton _ _
    exact (p2.nodup_iff).mpr ((p1.nodup_iff).mp c.keysNodup)
  · intro k hk
    rw [AL.keys_erase, AL.keys_set_of_not_mem _ hmf] at hk
    apply c.keysMem
    simp only [List.mem_append, List.mem_singleton] at hk ⊢
    rcases hk with hk | hk | hk
    · exact Or.inl (List.mem_of_mem_erase hk)
    · exact Or.inr hk
    · exact Or.inl (hk ▸ hm)
  · intro e he tp htp; exact c.holdsC e (AL.mem_erase he) tp htp
  · exact planAll_set c.holdsF m _ (planAll_get c.holdsC m)
  · intro p
    have h1 := AL.countAll_erase st.cur m p
    have h2 := AL.countAll_set_of_not_mem (AL.get st.cur m) p hmf
    have := c.atMost p
    dsimp only
    omega
  · intro ha p hp hcons
    have h1 := AL.countAll_erase st.cur m p
    have h2 := AL.countAll_set_of_not_mem (AL.get st.cur m) p hmf
    have := c.once ha p hp hcons
    dsimp only
    omega
  · intro e he p hp; exact c.ownerOK e (AL.mem_erase he) p hp
  · intro e he p hp
    rcases AL.mem_set he with rfl | he
    · exact hany p hp
    · exact c.fixedOnly e he p hp
  · intro h; rw [hass] at h; cases h
  · intro s hs; rw [hsnap] at hs; cases hs

theorem SInv.snapshot {env : SEnv} {st : SState} (inv : SInv env st)
    (hg : guard .guarded env st .snapshot = true) : SInv env (apply .guarded env st .snapshot) := by
  simp only [guard, Bool.and_eq_true, Option.isNone_iff_eq_none] at hg
  obtain ⟨hass, _⟩ := hg
  simp only [apply]
  refine ⟨inv.core, ?_, ?_, inv.movesOK⟩
  · intro h; dsimp only at h; rw [hass] at h; cases h
  intro s hs
  dsimp only at hs
  injection hs with hs
  subst hs
  have := inv.core
  rw [hass] at this
  exact ⟨this, hass⟩

theorem SInv.revert {env : SEnv} {st : SState} (inv : SInv env st)
    (hg : guard .guarded env st .revert = true) : SInv env (apply .guarded env st .revert) := by
  simp only [guard, Bool.and_eq_true] at hg
  obtain ⟨_, hs⟩ := hg
  cases hsn : st.snap with
  | none => rw [hsn] at hs; cases hs
  | some s =>
    simp only [apply, hsn]
    obtain ⟨hc, hass⟩ := inv.snapOK s hsn
    refine ⟨by simp only [hass]; exact hc, ?_, ?_, inv.movesOK⟩
    · intro h; simp only [hass] at h; cases h
    · intro s' hs'
      simp only at hs'
      injection hs' with hs'
      subst hs'
      exact ⟨hc, hass⟩


/-- what both move branches need about the partition actually moved -/
theorem moved_partition_ok {ms : Members} {ts : Topics} {env : SEnv} (wf : SWf ms ts env) {st : SState}
    (inv : SInv env st) {p q : TP} {c new : Member} (hre : env.reassignable.contains p = true)
    (hact : actualOK st.moves p q c new = true) (hpot : p ∈ AL.get env.pot new) :
    q ∈ env.parts ∧ canPartitionParticipate env.pot q = true ∧ q ∈ AL.get env.pot new := by
  have hp := wf.reass p (List.contains_iff_mem.mp hre)
  rcases actualOK_cases hact with rfl | ⟨ht, e, he, heq⟩
  · exact ⟨hp.2, hp.1, hpot⟩
  · have := inv.movesOK e he
    rw [heq] at this
    exact ⟨this.2, this.1, pot_topic_closed wf hpot ht this.2⟩

theorem SInv.moveOther {ms : Members} {ts : Topics} {env : SEnv} (wf : SWf ms ts env) {st : SState}
    (inv : SInv env st) {p q : TP} (hg : guard .guarded env st (.moveOther p q) = true) :
    SInv env (apply .guarded env st (.moveOther p q)) := by
  simp only [guard, Bool.and_eq_true] at hg
  obtain ⟨⟨⟨⟨hsnap, _⟩, hre⟩, _⟩, hm⟩ := hg
  cases ho : ownerGet st.owner p with
  | none => rw [ho] at hm; simp at hm
  | some c =>
    cases hn : newConsumerFor st.cur env.pot p with
    | none => rw [ho, hn] at hm; simp at hm
    | some new =>
      rw [ho, hn] at hm
      simp only [Bool.and_eq_true] at hm
      simp only [apply, hn]
      obtain ⟨s, hs⟩ := Option.isSome_iff_exists.mp hsnap
      have hass := (inv.snapOK s hs).2
      unfold newConsumerFor at hn
      have hnew : new ∈ AL.keys st.cur := (mem_sortMembers _ _).mp (List.mem_of_find?_eq_some hn)
      have hpot : p ∈ AL.get env.pot new := by
        have := List.find?_some hn
        exact List.contains_iff_mem.mp this
      obtain ⟨h1, h2, h3⟩ := moved_partition_ok wf inv hre hm.2 hpot
      exact inv.processMove hass h1 h2 hnew h3

theorem SInv.movePrev {ms : Members} {ts : Topics} {env : SEnv} (wf : SWf ms ts env) {st : SState}
    (inv : SInv env st) {p q : TP} (hg : guard .guarded env st (.movePrev p q) = true) :
    SInv env (apply .guarded env st (.movePrev p q)) := by
  simp only [guard, Bool.and_eq_true] at hg
  obtain ⟨⟨⟨⟨hsnap, _⟩, hre⟩, _⟩, hm⟩ := hg
  cases ho : ownerGet st.owner p with
  | none => rw [ho] at hm; simp at hm
  | some c =>
    cases hn : prevOf env p with
    | none => rw [ho, hn] at hm; simp at hm
    | some pm =>
      rw [ho, hn] at hm
      simp only [Bool.and_eq_true] at hm
      simp only [apply, hn]
      obtain ⟨s, hs⟩ := Option.isSome_iff_exists.mp hsnap
      have hass := (inv.snapOK s hs).2
      have hnew : pm ∈ AL.keys st.cur := AL.hasKey_iff.mp hm.2.1
      have hpot : p ∈ AL.get env.pot pm := List.contains_iff_mem.mp hm.2.2
      obtain ⟨h1, h2, h3⟩ := moved_partition_ok wf inv hre hm.1.2 hpot
      exact inv.processMove hass h1 h2 hnew h3

end Model.Balance
