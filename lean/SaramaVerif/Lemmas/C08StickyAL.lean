import SaramaVerif.Model.BalanceSticky
import SaramaVerif.Lemmas.C08Valid
/-
  Association-list, owner-map and sorting lemmas used by the invariant proof of the sticky op model.
-/
namespace Model.Balance
namespace AL
variable {α : Type}

theorem hasKey_iff {a : AL α} {k : Nat} : hasKey a k = true ↔ k ∈ keys a := by
  unfold hasKey; exact List.contains_iff_mem

theorem keys_set_of_mem {a : AL α} {k : Nat} (v : List α) (h : k ∈ keys a) : keys (set a k v) = keys a := by
  induction a with
  | nil => simp [keys] at h
  | cons e r ih =>
    obtain ⟨k', v'⟩ := e
    by_cases h1 : k' = k
    · subst h1; simp [set, keys]
    · simp only [keys, List.map_cons, List.mem_cons] at h
      rcases h with h | h
      · exact absurd h.symm h1
      · simp only [set, h1, ↓reduceIte, keys, List.map_cons]
        congr 1
        exact ih h

theorem keys_set_of_not_mem {a : AL α} {k : Nat} (v : List α) (h : k ∉ keys a) :
    keys (set a k v) = keys a ++ [k] := by
  induction a with
  | nil => simp [set, keys]
  | cons e r ih =>
    obtain ⟨k', v'⟩ := e
    simp only [keys, List.map_cons, List.mem_cons, not_or] at h
    have h1 : k' ≠ k := fun e => h.1 e.symm
    simp only [set, h1, ↓reduceIte, keys, List.map_cons, List.cons_append]
    congr 1
    exact ih h.2

theorem countAll_set_of_not_mem [BEq α] {a : AL α} {k : Nat} (v : List α) (x : α) (h : k ∉ keys a) :
    countAll (set a k v) x = countAll a x + v.count x := by
  have := countAll_set a k v x
  rw [get_eq_nil_of_not_mem_keys h] at this
  simpa using this

theorem mem_erase {a : AL α} {k : Nat} {e : Nat × List α} (h : e ∈ erase a k) : e ∈ a := by
  induction a with
  | nil => simp [erase] at h
  | cons e' r ih =>
    obtain ⟨k', v'⟩ := e'
    by_cases h1 : k' = k
    · simp only [erase, h1, ↓reduceIte] at h
      exact List.mem_cons_of_mem _ h
    · simp only [erase, h1, ↓reduceIte, List.mem_cons] at h
      rcases h with h | h
      · rw [h]; exact List.mem_cons_self
      · exact List.mem_cons_of_mem _ (ih h)

theorem countAll_erase [BEq α] (a : AL α) (k : Nat) (x : α) :
    countAll (erase a k) x + (get a k).count x = countAll a x := by
  induction a with
  | nil => simp [erase, get, countAll]
  | cons e r ih =>
    obtain ⟨k', v'⟩ := e
    by_cases h1 : k' = k
    · simp only [erase, get, h1, ↓reduceIte, countAll]; omega
    · simp only [erase, get, h1, ↓reduceIte, countAll]; omega

theorem keys_erase (a : AL α) (k : Nat) : keys (erase a k) = (keys a).erase k := by
  induction a with
  | nil => rfl
  | cons e r ih =>
    obtain ⟨k', v'⟩ := e
    by_cases h1 : k' = k
    · subst h1; simp [erase, keys]
    · simp only [erase, h1, ↓reduceIte, keys, List.map_cons]
      rw [List.erase_cons_tail (by simpa using h1)]
      congr 1

theorem exists_mem_of_countAll_pos [BEq α] [LawfulBEq α] {a : AL α} {x : α} (h : 0 < countAll a x) :
    ∃ e, e ∈ a ∧ x ∈ e.2 := by
  induction a with
  | nil => simp [countAll] at h
  | cons e r ih =>
    obtain ⟨k', v'⟩ := e
    simp only [countAll] at h
    by_cases hc : 0 < v'.count x
    · exact ⟨(k', v'), List.mem_cons_self, List.count_pos_iff.mp hc⟩
    · obtain ⟨e, he, hx⟩ := ih (by omega)
      exact ⟨e, List.mem_cons_of_mem _ he, hx⟩

theorem not_mem_of_countAll_zero [BEq α] [LawfulBEq α] {a : AL α} {x : α} (h : countAll a x = 0)
    {e : Nat × List α} (he : e ∈ a) : x ∉ e.2 := by
  intro hx
  have := countAll_pos_of_mem' he hx
  omega
where
  countAll_pos_of_mem' {a : AL α} {x : α} {e : Nat × List α} (he : e ∈ a) (hx : x ∈ e.2) : 0 < countAll a x := by
    induction a with
    | nil => simp at he
    | cons e' rest ih =>
      simp only [countAll]
      rcases List.mem_cons.mp he with rfl | he
      · have := List.count_pos_iff.mpr hx; omega
      · have := ih he; omega

theorem count_le_countAll [BEq α] {a : AL α} {x : α} {e : Nat × List α} (he : e ∈ a) :
    e.2.count x ≤ countAll a x := by
  induction a with
  | nil => simp at he
  | cons e' rest ih =>
    simp only [countAll]
    rcases List.mem_cons.mp he with rfl | he
    · omega
    · have := ih he; omega

end AL

theorem planAll_set {P : Member → TP → Prop} {a : Asg} (h : PlanAll P a) (k : Member) (v : List TP)
    (hv : ∀ tp, tp ∈ v → P k tp) : PlanAll P (AL.set a k v) := by
  intro e he tp htp
  rcases AL.mem_set he with rfl | he
  · exact hv tp htp
  · exact h e he tp htp

theorem planAll_get {P : Member → TP → Prop} {a : Asg} (h : PlanAll P a) (k : Member) :
    ∀ tp, tp ∈ AL.get a k → P k tp :=
  fun tp htp => h _ (AL.get_mem htp) tp htp

theorem ownerGet_set_same (o : OwnerMap) (p : TP) (m : Member) : ownerGet (ownerSet o p m) p = some m := by
  simp [ownerGet, ownerSet]

theorem ownerGet_set_other (o : OwnerMap) (p q : TP) (m : Member) (h : q ≠ p) :
    ownerGet (ownerSet o p m) q = ownerGet o q := by
  unfold ownerGet ownerSet
  have h1 : ((p, m).1 == q) = false := by simpa using fun e => h e.symm
  rw [List.find?_cons_of_neg (by simpa using h1)]
  congr 1
  induction o with
  | nil => rfl
  | cons e r ih =>
    by_cases he : e.1 = p
    · have h2 : (e.1 == q) = false := by rw [he]; simpa using fun e => h e.symm
      simp only [List.filter_cons, he, beq_self_eq_true, Bool.not_true, Bool.false_eq_true, ↓reduceIte]
      rw [List.find?_cons_of_neg (by rw [he]; simpa using fun e => h e.symm)]
      exact ih
    · have : (!(e.1 == p)) = true := by simpa using he
      simp only [List.filter_cons, this, ↓reduceIte]
      by_cases hq : e.1 = q
      · rw [List.find?_cons_of_pos (by simpa using hq), List.find?_cons_of_pos (by simpa using hq)]
      · rw [List.find?_cons_of_neg (by simpa using hq), List.find?_cons_of_neg (by simpa using hq)]
        exact ih

theorem mem_insertMember (cur : Asg) (x y : Member) (l : List Member) :
    y ∈ insertMember cur x l ↔ y = x ∨ y ∈ l := by
  induction l with
  | nil => simp [insertMember]
  | cons z r ih =>
    simp only [insertMember]
    split
    · simp only [List.mem_cons, ih]
      constructor
      · rintro (h | h | h)
        · exact Or.inr (Or.inl h)
        · exact Or.inl h
        · exact Or.inr (Or.inr h)
      · rintro (h | h | h)
        · exact Or.inr (Or.inl h)
        · exact Or.inl h
        · exact Or.inr (Or.inr h)
    · simp [List.mem_cons]

theorem mem_sortMembers (cur : Asg) (m : Member) : m ∈ sortMembers cur ↔ m ∈ AL.keys cur := by
  unfold sortMembers
  have : ∀ (ks acc : List Member), m ∈ ks.foldl (fun acc x => insertMember cur x acc) acc ↔ m ∈ ks ∨ m ∈ acc := by
    intro ks
    induction ks with
    | nil => intro acc; simp
    | cons k r ih =>
      intro acc
      rw [List.foldl_cons, ih, mem_insertMember, List.mem_cons]
      constructor
      · rintro (h | h | h)
        · exact Or.inl (Or.inr h)
        · exact Or.inl (Or.inl h)
        · exact Or.inr h
      · rintro ((h | h) | h)
        · exact Or.inr (Or.inl h)
        · exact Or.inl h
        · exact Or.inr (Or.inr h)
  rw [this]; simp

end Model.Balance
