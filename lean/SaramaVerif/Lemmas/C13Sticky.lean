import SaramaVerif.Lemmas.C08StickyFinal
/-
  C13, sticky: soundness of the balance test, what blocks reassignment, re-planning a complete balanced plan.
-/
namespace Model.Balance

/-! ### pigeonhole for duplicate-free lists -/

theorem nodup_subset_length_le {α : Type} [BEq α] [LawfulBEq α] : ∀ (l2 l1 : List α), l1.Nodup →
    (∀ x, x ∈ l1 → x ∈ l2) → l1.length ≤ l2.length := by
  intro l2
  induction l2 with
  | nil =>
    intro l1 _ hs
    cases l1 with
    | nil => simp
    | cons a r => exact absurd (hs a List.mem_cons_self) (by simp)
  | cons x r ih =>
    intro l1 hnd hs
    have h1 := ih (l1.erase x) (hnd.erase x) (by
      intro y hy
      rw [hnd.mem_erase_iff] at hy
      rcases List.mem_cons.mp (hs y hy.2) with h | h
      · exact absurd h hy.1
      · exact h)
    have := @List.length_erase α _ _ x l1
    simp only [List.length_cons]
    split at this <;> omega

theorem nodup_subset_of_length_le {α : Type} [BEq α] [LawfulBEq α] : ∀ (l2 l1 : List α), l1.Nodup →
    (∀ x, x ∈ l1 → x ∈ l2) → l2.length ≤ l1.length → ∀ x, x ∈ l2 → x ∈ l1 := by
  intro l2
  induction l2 with
  | nil => intro l1 _ _ _ x hx; simp at hx
  | cons y r ih =>
    intro l1 hnd hs hlen x hx
    by_cases hy : y ∈ l1
    · have hsub : ∀ z, z ∈ l1.erase y → z ∈ r := by
        intro z hz
        rw [hnd.mem_erase_iff] at hz
        rcases List.mem_cons.mp (hs z hz.2) with h | h
        · exact absurd h hz.1
        · exact h
      have hl : r.length ≤ (l1.erase y).length := by
        rw [List.length_erase_of_mem hy]; simp only [List.length_cons] at hlen; omega
      rcases List.mem_cons.mp hx with rfl | hx
      · exact hy
      · exact List.mem_of_mem_erase (ih (l1.erase y) (hnd.erase y) hsub hl x hx)
    · exfalso
      have hsub : ∀ z, z ∈ l1 → z ∈ r := by
        intro z hz
        rcases List.mem_cons.mp (hs z hz) with h | h
        · exact absurd (h ▸ hz) hy
        · exact h
      have := nodup_subset_length_le r l1 hnd hsub
      simp only [List.length_cons] at hlen
      omega

/-! ### min / max of the sizes -/

theorem le_foldl_max (l : Asg) : ∀ (acc : Nat), acc ≤ l.foldl (fun acc x => max acc x.2.length) acc ∧
    ∀ e, e ∈ l → e.2.length ≤ l.foldl (fun acc x => max acc x.2.length) acc := by
  induction l with
  | nil => intro acc; exact ⟨Nat.le_refl _, fun e he => by simp at he⟩
  | cons x r ih =>
    intro acc
    obtain ⟨h1, h2⟩ := ih (max acc x.2.length)
    rw [List.foldl_cons]
    refine ⟨Nat.le_trans (Nat.le_max_left _ _) h1, ?_⟩
    intro e he
    rcases List.mem_cons.mp he with rfl | he
    · exact Nat.le_trans (Nat.le_max_right _ _) h1
    · exact h2 e he

theorem foldl_min_le (l : Asg) : ∀ (acc : Nat), l.foldl (fun acc x => min acc x.2.length) acc ≤ acc ∧
    ∀ e, e ∈ l → l.foldl (fun acc x => min acc x.2.length) acc ≤ e.2.length := by
  induction l with
  | nil => intro acc; exact ⟨Nat.le_refl _, fun e he => by simp at he⟩
  | cons x r ih =>
    intro acc
    obtain ⟨h1, h2⟩ := ih (min acc x.2.length)
    rw [List.foldl_cons]
    refine ⟨Nat.le_trans h1 (Nat.min_le_left _ _), ?_⟩
    intro e he
    rcases List.mem_cons.mp he with rfl | he
    · exact Nat.le_trans h1 (Nat.min_le_right _ _)
    · exact h2 e he

theorem size_le_maxSize {cur : Asg} {e : Member × List TP} (he : e ∈ cur) : e.2.length ≤ maxSize cur :=
  (le_foldl_max cur 0).2 e he

theorem minSize_le_size {cur : Asg} {e : Member × List TP} (he : e ∈ cur) : minSize cur ≤ e.2.length := by
  cases cur with
  | nil => simp at he
  | cons x r =>
    unfold minSize
    rcases List.mem_cons.mp he with rfl | he
    · exact (foldl_min_le r _).1
    · exact (foldl_min_le r _).2 e he

/-- with pairwise disjoint lists the holder found by `isBalanced` is the member that holds the partition -/
theorem holderIn_eq : ∀ {cur : Asg} {a : Member} {la : List TP} {p : TP}, AL.countAll cur p ≤ 1 →
    (a, la) ∈ cur → p ∈ la → holderIn cur p = some a := by
  intro cur
  induction cur with
  | nil => intro a la p _ h; simp at h
  | cons e r ih =>
    intro a la p hc hm hp
    unfold holderIn
    simp only [AL.countAll] at hc
    by_cases hpe : p ∈ e.2
    · rw [List.find?_cons_of_pos (by simpa using hpe)]
      rcases List.mem_cons.mp hm with h | h
      · rw [← h]; rfl
      · exfalso
        have h1 := List.count_pos_iff.mpr hpe
        have h2 := AL.countAll_pos_of_mem (plan := r) h hp
        omega
    · rw [List.find?_cons_of_neg (by simpa using hpe)]
      rcases List.mem_cons.mp hm with h | h
      · exact absurd (h ▸ hp) hpe
      · have := ih (a := a) (la := la) (p := p) (by omega) h hp
        unfold holderIn at this
        exact this

/-- SOUNDNESS of the balance test.  If `isBalanced` answers true for a working assignment with distinct members,
    pairwise disjoint duplicate-free lists, in which everybody holds only what it may hold, then the assignment is balanced in Kafka's sense: a member `a` holding a partition that another
    member `b` could take has at most one partition more than `b`. -/
theorem isBalanced_sound (cur pot : Asg) (hone : ∀ p, AL.countAll cur p ≤ 1)
    (hholds : PlanAll (fun m tp => tp ∈ AL.get pot m) cur)
    (hb : isBalanced cur pot = true) :
    ∀ a b, a ∈ AL.keys cur → b ∈ AL.keys cur → a ≠ b →
      ∀ p, p ∈ AL.get cur a → p ∈ AL.get pot b → sizeIn cur a ≤ sizeIn cur b + 1 := by
  intro a b ha hb' hab p hpa hpb
  have hma := AL.mem_of_mem_keys ha
  have hmb := AL.mem_of_mem_keys hb'
  unfold sizeIn
  unfold isBalanced at hb
  rw [Bool.or_eq_true] at hb
  rcases hb with h | h
  · simp only [ge_iff_le, decide_eq_true_eq] at h
    have h1 := size_le_maxSize hma
    have h2 := minSize_le_size hmb
    simp only at h1 h2
    omega
  · rw [List.all_eq_true] at h
    have hbe := h _ hmb
    simp only [Bool.or_eq_true, decide_eq_true_eq, List.all_eq_true, Bool.not_eq_true',
      decide_eq_false_iff_not, Nat.not_lt] at hbe
    -- p is not held by b (lists are disjoint and a ≠ b)
    have hnb : p ∉ AL.get cur b := by
      intro hpb'
      have e1 := holderIn_eq (hone p) hma hpa
      have e2 := holderIn_eq (hone p) hmb hpb'
      rw [e1] at e2; injection e2 with e2; exact hab e2
    rcases hbe with hfull | hrest
    · -- b holds as many partitions as it may hold at all, so it holds p: contradiction
      exfalso
      have hbn : (AL.get cur b).Nodup := by
        rw [List.nodup_iff_count]
        intro x
        exact Nat.le_trans (AL.count_le_countAll (a := cur) (x := x) hmb) (hone x)
      exact hnb (nodup_subset_of_length_le (AL.get pot b) (AL.get cur b) hbn
        (fun x hx => hholds _ hmb x hx) (by omega) p hpb)
    · rcases hrest p hpb with hc | hsz
      · exact absurd (List.contains_iff_mem.mp hc) hnb
      · unfold holderSize at hsz
        rw [holderIn_eq (hone p) hma hpa] at hsz
        simp only at hsz
        omega

/-! ### what blocks reassignment -/

/-- while the balance test passes, neither branch of `performReassignments` can move anything (in any variant) -/
theorem balanced_blocks_moves (v : Variant) (env : SEnv) (st : SState) (hb : isBalanced st.cur env.pot = true)
    (p q : TP) : guard v env st (.movePrev p q) = false ∧ guard v env st (.moveOther p q) = false := by
  constructor <;> simp [guard, hb]

/-- without a move there is nothing to revert -/
theorem revert_needs_move (v : Variant) (env : SEnv) (st : SState) (h : st.performed = false) :
    guard v env st .revert = false := by
  simp [guard, h]


/-! ### re-planning -/

theorem get_erase_other {α : Type} (a : AL α) (k m : Nat) (h : k ≠ m) : AL.get (AL.erase a k) m = AL.get a m := by
  induction a with
  | nil => rfl
  | cons e r ih =>
    obtain ⟨k', v'⟩ := e
    by_cases h1 : k' = k
    · subst h1; simp [AL.erase, AL.get, h]
    · by_cases h2 : k' = m
      · subst h2; simp [AL.erase, AL.get, h1]
      · simp [AL.erase, AL.get, h1, h2, ih]

theorem get_addFixed_congr : ∀ (fixed c c' : Asg) (m : Member), AL.get c m = AL.get c' m →
    AL.get (addFixed c fixed) m = AL.get (addFixed c' fixed) m := by
  intro fixed
  induction fixed with
  | nil => intro c c' m h; exact h
  | cons e r ih =>
    intro c c' m h
    have e1 : ∀ c, addFixed c (e :: r) = addFixed (AL.set c e.1 e.2) r := fun c => by simp [addFixed]
    rw [e1, e1]
    apply ih
    by_cases hk : e.1 = m
    · subst hk; rw [AL.get_set_same, AL.get_set_same]
    · rw [AL.get_set_other _ _ _ _ hk, AL.get_set_other _ _ _ _ hk]; exact h

theorem get_addFixed_not_mem : ∀ (fixed c : Asg) (m : Member), m ∉ AL.keys fixed →
    AL.get (addFixed c fixed) m = AL.get c m := by
  intro fixed
  induction fixed with
  | nil => intro c m _; rfl
  | cons e r ih =>
    intro c m hm
    simp only [AL.keys, List.map_cons, List.mem_cons, not_or] at hm
    have e1 : addFixed c (e :: r) = addFixed (AL.set c e.1 e.2) r := by simp [addFixed]
    rw [e1, ih _ m hm.2, AL.get_set_other _ _ _ _ (fun h => hm.1 h.symm)]

theorem addFixed_snoc (c fixed : Asg) (k : Member) (v : List TP) :
    addFixed c (fixed ++ [(k, v)]) = AL.set (addFixed c fixed) k v := by
  simp [addFixed, List.foldl_append]

theorem set_eq_snoc_of_not_mem {α : Type} {a : AL α} {k : Nat} (v : List α) (h : k ∉ AL.keys a) :
    AL.set a k v = a ++ [(k, v)] := by
  induction a with
  | nil => rfl
  | cons e r ih =>
    obtain ⟨k', v'⟩ := e
    simp only [AL.keys, List.map_cons, List.mem_cons, not_or] at h
    have : k' ≠ k := fun e => h.1 e.symm
    simp only [AL.set, this, ↓reduceIte, List.cons_append]
    congr 1
    exact ih h.2

/-- parking members does not change the plan that will be assembled -/
theorem run_parks (v : Variant) (env : SEnv) (tail : List SOp) : ∀ (ps : List Member) (st st' : SState),
    (AL.keys st.cur ++ AL.keys st.fixed).Nodup →
    runOps v env st (ps.map SOp.park ++ tail) = some st' →
    ∃ stp, runOps v env stp tail = some st' ∧ stp.cur = ps.foldl AL.erase st.cur ∧
      stp.snap = st.snap ∧ stp.performed = st.performed ∧ stp.reverted = st.reverted ∧
      stp.assigned = st.assigned ∧ stp.moves = st.moves ∧
      (∀ m, AL.get (addFixed stp.cur stp.fixed) m = AL.get (addFixed st.cur st.fixed) m) := by
  intro ps
  induction ps with
  | nil => intro st st' _ h; exact ⟨st, h, rfl, rfl, rfl, rfl, rfl, rfl, fun m => rfl⟩
  | cons m0 ps ih =>
    intro st st' hnd h
    simp only [List.map_cons, List.cons_append] at h
    rw [runOps] at h
    by_cases hg : guard v env st (.park m0) = true
    · rw [if_pos hg] at h
      simp only [guard, Bool.and_eq_true] at hg
      have hm : m0 ∈ AL.keys st.cur := AL.hasKey_iff.mp hg.1.2
      have hmf : m0 ∉ AL.keys st.fixed := fun hf => (List.nodup_append.mp hnd).2.2 m0 hm m0 hf rfl
      have hnd' : (AL.keys (apply v env st (.park m0)).cur ++ AL.keys (apply v env st (.park m0)).fixed).Nodup := by
        simp only [apply]
        rw [AL.keys_erase, AL.keys_set_of_not_mem _ hmf]
        have p1 : (AL.keys st.cur ++ AL.keys st.fixed).Perm (m0 :: ((AL.keys st.cur).erase m0 ++ AL.keys st.fixed)) :=
          (List.perm_cons_erase hm).append_right _
        have p2 : ((AL.keys st.cur).erase m0 ++ (AL.keys st.fixed ++ [m0])).Perm
            (m0 :: ((AL.keys st.cur).erase m0 ++ AL.keys st.fixed)) := by
          rw [← List.append_assoc]; exact List.perm_append_singleton _ _
        exact (p2.nodup_iff).mpr ((p1.nodup_iff).mp hnd)
      obtain ⟨stp, h1, h2, h3, h4, h5, h6, h7, h8⟩ := ih (apply v env st (.park m0)) st' hnd' h
      refine ⟨stp, h1, by rw [h2]; rfl, by rw [h3]; rfl, by rw [h4]; rfl, by rw [h5]; rfl, by rw [h6]; rfl,
        by rw [h7]; rfl, ?_⟩
      intro m
      rw [h8 m]
      simp only [apply]
      rw [set_eq_snoc_of_not_mem _ hmf, addFixed_snoc]
      by_cases hmm : m0 = m
      · subst hmm
        rw [AL.get_set_same, get_addFixed_not_mem _ _ _ hmf]
      · rw [AL.get_set_other _ _ _ _ hmm]
        exact get_addFixed_congr _ _ _ m (get_erase_other _ _ _ hmm)
    · rw [if_neg hg] at h; cases h

theorem assignFold_noop (env : SEnv) : ∀ (us : List TP) (co : Asg × OwnerMap),
    (∀ u, u ∈ us → consumersOf env.pot u = []) → us.foldl (assignOne env) co = co := by
  intro us
  induction us with
  | nil => intro co _; rfl
  | cons u r ih =>
    intro co h
    rw [List.foldl_cons]
    have : assignOne env co u = co := by
      unfold assignOne
      rw [h u List.mem_cons_self]; rfl
    rw [this]
    exact ih co (fun u' hu' => h u' (List.mem_cons_of_mem _ hu'))

end Model.Balance
