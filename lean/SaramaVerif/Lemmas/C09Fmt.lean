import SaramaVerif.Model.CodecFmt
import SaramaVerif.Lemmas.C09Prim
/-
  Helper lemmas for C09 about the schema interpreters of Model/CodecFmt.lean.
-/
namespace Lemmas.C09
open Model.Codec

/-! ### primitives as `Prim` -/

theorem intsOf_length (vs : List Val) : (intsOf vs).length = vs.length := by simp [intsOf]
theorem bytesOf_length (vs : List Val) : (bytesOf vs).length = vs.length := by simp [bytesOf]

theorem allInt_spec (n : Nat) (vs : List Val) (h : allInt n vs = true) :
    (intsOf vs).map Val.int = vs ∧ ∀ x ∈ intsOf vs, InInt n x := by
  induction vs with
  | nil => simp [intsOf]
  | cons v vs ih =>
    cases v with
    | int i =>
      simp only [allInt, Bool.and_eq_true, decide_eq_true_eq] at h
      have := ih h.2
      constructor
      · simp only [intsOf, List.map_cons, List.map_map] at *; rw [this.1]
      · intro x hx
        simp only [intsOf, List.map_cons, List.mem_cons] at hx
        rcases hx with hx | hx
        · rw [hx]; exact h.1
        · exact this.2 x hx
    | _ => simp [allInt] at h

theorem allStr_spec (vs : List Val) (h : allStr vs = true) :
    (bytesOf vs).map Val.bytes = vs ∧ ∀ s ∈ bytesOf vs, s.length < 2 ^ 15 := by
  induction vs with
  | nil => simp [bytesOf]
  | cons v vs ih =>
    cases v with
    | bytes b =>
      simp only [allStr, Bool.and_eq_true, decide_eq_true_eq] at h
      have := ih h.2
      constructor
      · simp only [bytesOf, List.map_cons, List.map_map] at *; rw [this.1]
      · intro x hx
        simp only [bytesOf, List.map_cons, List.mem_cons] at hx
        rcases hx with hx | hx
        · rw [hx]; exact h.1
        · exact this.2 x hx
    | _ => simp [allStr] at h

theorem prepUVarint_zero : prepUVarint 0 = putEmptyTagged.length := by decide

/-- both encoder passes agree on every primitive, for every value (also ill-typed ones: nothing is written) -/
theorem sizeP_eq (p : Prim) (v : Val) : sizeP p v = (encP p v).length := by
  cases p <;> cases v <;>
    simp only [sizeP, encP, putInt_length, prepVarint, prepUVarint, prepBytes_eq, prepVarintBytes_eq,
      prepCompactBytes_eq, prepString_eq, prepNullableString_eq, prepCompactString_eq,
      prepNullableCompactString_eq, prepIntArray_eq, prepCompactInt32Array_eq, prepNullableCompactInt32Array_eq,
      prepStringArray_eq, List.length_nil, putBool, putEmptyTagged]

/-- every getter inverts its putter -/
theorem decP_encP (p : Prim) (v : Val) (rest : Bytes) (h : wtP p v = true) :
    decP p (encP p v ++ rest) = some (v, rest) := by
  cases p <;> cases v <;> simp only [wtP, Bool.false_eq_true, Bool.and_eq_true, decide_eq_true_eq] at h <;>
    simp only [decP, encP]
  case i8.int x => rw [getInt_putInt 1 x rest (by decide) h]; rfl
  case i16.int x => rw [getInt_putInt 2 x rest (by decide) h]; rfl
  case i32.int x => rw [getInt_putInt 4 x rest (by decide) h]; rfl
  case i64.int x => rw [getInt_putInt 8 x rest (by decide) h]; rfl
  case varint.int x => rw [getVarint_putVarint x rest h]; rfl
  case uvarint.int x =>
    have hx : x.toNat < 2 ^ 64 := by
      have h2 := h.2
      simp only [Nat.reducePow, Int.reducePow] at *
      omega
    rw [getUVarint_putUVarint x.toNat rest hx]
    simp only [mapFst, Int.toNat_of_nonneg h.1]
  case bool.int x =>
    rw [getBool_putBool]
    rcases h with h | h <;> subst h <;> rfl
  case bytes.bytes b => rw [getBytes_putBytes (some b) rest (by intro b' hb; cases hb; exact h)]; rfl
  case bytes.null => rw [getBytes_putBytes none rest (by intro b' hb; cases hb)]; rfl
  case vbytes.bytes b => rw [getVarintBytes_put (some b) rest (by intro b' hb; cases hb; exact h)]; rfl
  case vbytes.null => rw [getVarintBytes_put none rest (by intro b' hb; cases hb)]; rfl
  case cbytes.bytes b => rw [getCompactBytes_put b rest h]; rfl
  case str.bytes s => rw [getString_putString s rest h]; rfl
  case nstr.bytes s => rw [getNullableString_put (some s) rest (by intro b' hb; cases hb; exact h)]; rfl
  case nstr.null => rw [getNullableString_put none rest (by intro b' hb; cases hb)]; rfl
  case cstr.bytes s => rw [getCompactString_put s rest h]; rfl
  case ncstr.bytes s => rw [getCompactNullableString_put (some s) rest (by intro b' hb; cases hb; exact h)]; rfl
  case ncstr.null => rw [getCompactNullableString_put none rest (by intro b' hb; cases hb)]; rfl
  case i32arr.list vs =>
    have hs := allInt_spec 4 vs h.2
    rw [getIntArray_put 4 (by decide) _ rest (by rw [intsOf_length]; exact h.1) hs.2]
    simp only [mapFst, hs.1]
  case i64arr.list vs =>
    have hs := allInt_spec 8 vs h.2
    rw [getIntArray_put 8 (by decide) _ rest (by rw [intsOf_length]; exact h.1) hs.2]
    simp only [mapFst, hs.1]
  case ci32arr.list vs =>
    have hs := allInt_spec 4 vs h.2
    rw [getCompactInt32Array_put _ rest (by rw [intsOf_length]; exact h.1) hs.2]
    simp only [mapFst, hs.1]
  case nci32arr.list vs =>
    have hs := allInt_spec 4 vs h.2
    rw [getCompactInt32Array_putNullable (some (intsOf vs)) rest
      (by intro xs hx; cases hx; exact ⟨by rw [intsOf_length]; exact h.1, hs.2⟩)]
    simp only [mapFst, hs.1]
  case nci32arr.null =>
    rw [getCompactInt32Array_putNullable none rest (by intro xs hx; cases hx)]; rfl
  case strarr.list vs =>
    have hs := allStr_spec vs h.2
    rw [getStringArray_put _ rest (by rw [bytesOf_length]; exact h.1) hs.2]
    simp only [mapFst, hs.1]
  case tagged.unit => rw [getEmptyTagged_put]; rfl
  case raw.bytes n b => subst h; rw [getRaw_append]; rfl

/-! ### counts -/

theorem prepCount_eq (c : Count) (n : Option Nat) : prepCount c n = (putCount c n).length := by
  cases c <;> cases n <;>
    simp [prepCount, putCount, putArrayLength, putInt_length, putCompactArrayLength, prepUVarint, prepVarint]

theorem getCount_putCount_some (c : Count) (n : Nat) (body rest : Bytes)
    (h : countOK c n body.length = true) :
    getCount c (putCount c (some n) ++ (body ++ rest)) = some (some n, body ++ rest) := by
  cases c <;> simp only [getCount, putCount] <;> simp only [countOK, decide_eq_true_eq] at h
  · rw [getArrayLength_put n _ (inInt4_len n (by simp only [Nat.reducePow]; omega))
      (by simp only [List.length_append]; omega) (by omega) (by omega)]
    simp only [show ¬ ((n : Int) < 0) by omega, ↓reduceIte, Int.toNat_natCast]
  · rw [getArrayLength_put n _ (inInt4_len n (by simp only [Nat.reducePow]; omega))
      (by simp only [List.length_append]; omega) (by omega) (by omega)]
    simp only [show ¬ ((n : Int) < 0) by omega, show ¬ ((n : Int) = -1) by omega, ↓reduceIte, Int.toNat_natCast]
  · rw [getCompactArrayLength_put n _ h.1 (by simp only [List.length_append]; omega)]
  · rw [getVarint_putVarint n _ (inInt8_len n h.1)]
    simp only [List.length_append, show ¬ ((n : Int) > ((body.length + rest.length : Nat) : Int)) by omega, ↓reduceIte,
      Int.toNat_natCast]

theorem getCount_putCount_null (rest : Bytes) :
    getCount .i32null (putCount .i32null none ++ rest) = some (none, rest) := by
  simp only [getCount, putCount]
  rw [getArrayLength_put (-1) rest (inInt_neg1 4 (by decide)) (by omega) (by omega) (by omega)]
  simp only [↓reduceIte]

/-! ### generic theorems -/

theorem sum_map_length_flatten {α : Type} (g : α → Bytes) (s : α → Nat) (vs : List α) (h : ∀ v, s v = (g v).length) :
    (vs.map s).sum = ((vs.map g).flatten).length := by
  induction vs with
  | nil => rfl
  | cons v vs ih => simp only [List.map_cons, List.sum_cons, List.flatten_cons, List.length_append, ih, h]

/-- GT: the sizing pass and the writing pass agree exactly, for every schema, version and value -/
theorem size_eq_enc_length (f : Fmt) (ver : Nat) : ∀ v : Val, size f ver v = (enc f ver v).length := by
  induction f with
  | prim p => intro v; exact sizeP_eq p v
  | unit => intro v; rfl
  | seq a b iha ihb => intro v; cases v <;> simp only [size, enc, List.length_nil, List.length_append, iha, ihb]
  | ite lo hi a b iha ihb =>
    intro v; simp only [size, enc]; split
    · exact iha v
    · exact ihb v
  | arr c e ih =>
    intro v
    cases v <;> simp only [size, enc, List.length_nil, List.length_append, prepCount_eq]
    case list vs => rw [sum_map_length_flatten (enc e ver) (size e ver) vs ih]
  | len32 f ih => intro v; simp only [size, enc, putLen32, List.length_append, putInt_length, ih]
  | varlen f ih => intro v; simp only [size, enc, putVarLen, List.length_append, prepVarint, ih]
  | crc p f ih => intro v; simp only [size, enc, putCrc, List.length_append, be_length, ih]

theorem allWT_spec (w : Val → Bool) (vs : List Val) (h : allWT w vs = true) : ∀ v ∈ vs, w v = true := by
  induction vs with
  | nil => intro v hv; cases hv
  | cons x xs ih =>
    simp only [allWT, Bool.and_eq_true] at h
    intro v hv
    rcases List.mem_cons.mp hv with e | e
    · rw [e]; exact h.1
    · exact ih h.2 v e

theorem decMany_flatten (d : Bytes → Option (Val × Bytes)) (g : Val → Bytes) (vs : List Val) (rest : Bytes)
    (h : ∀ v ∈ vs, ∀ r, d (g v ++ r) = some (v, r)) :
    decMany d vs.length ((vs.map g).flatten ++ rest) = some (vs, rest) := by
  induction vs with
  | nil => simp [decMany]
  | cons v vs ih =>
    simp only [List.map_cons, List.flatten_cons, List.append_assoc, List.length_cons, decMany]
    rw [h v List.mem_cons_self]
    simp only []
    rw [ih (fun x hx => h x (List.mem_cons_of_mem _ hx))]

theorem length_append_sub (a rest : Bytes) : (a ++ rest).length - rest.length = a.length := by
  simp only [List.length_append]; omega

/-- GT: decoding what was encoded (followed by anything) gives the value back and leaves the rest -/
theorem dec_enc (f : Fmt) (ver : Nat) : ∀ (v : Val) (rest : Bytes), WT f ver v = true →
    dec f ver (enc f ver v ++ rest) = some (v, rest) := by
  induction f with
  | prim p => intro v rest h; exact decP_encP p v rest h
  | unit => intro v rest h; cases v <;> simp only [WT, Bool.false_eq_true] at h; rfl
  | seq a b iha ihb =>
    intro v rest h
    cases v <;> simp only [WT, Bool.false_eq_true, Bool.and_eq_true] at h
    case pair x y =>
      simp only [enc, dec, List.append_assoc]
      rw [iha x _ h.1]
      simp only []
      rw [ihb y _ h.2]
  | ite lo hi a b iha ihb =>
    intro v rest h
    simp only [WT] at h
    simp only [enc, dec]
    split
    · rename_i hc; exact iha v rest (by simpa [hc] using h)
    · rename_i hc; exact ihb v rest (by simpa [hc] using h)
  | arr c e ih =>
    intro v rest h
    cases v <;> simp only [WT, Bool.false_eq_true, Bool.and_eq_true, beq_iff_eq] at h
    case null =>
      subst h
      simp only [enc, dec, getCount_putCount_null]
    case list vs =>
      have hall := allWT_spec _ _ h.1
      simp only [enc, dec, List.append_assoc]
      rw [getCount_putCount_some c vs.length _ rest h.2]
      simp only []
      rw [decMany_flatten (dec e ver) (enc e ver) vs rest (fun v hv r => ih v r (hall v hv))]
  | len32 f ih =>
    intro v rest h
    simp only [WT, Bool.and_eq_true, decide_eq_true_eq] at h
    simp only [enc, dec, putLen32, List.append_assoc]
    rw [getInt_putInt 4 _ _ (by decide) (inInt4_len _ h.2)]
    simp only [List.length_append, show ¬ (((enc f ver v).length : Int) > (((enc f ver v).length + rest.length : Nat) : Int)) by omega,
      ↓reduceIte]
    rw [ih v rest h.1]
    simp only [show (enc f ver v).length + rest.length - rest.length = (enc f ver v).length by omega, ↓reduceIte]
  | varlen f ih =>
    intro v rest h
    simp only [WT, Bool.and_eq_true, decide_eq_true_eq] at h
    simp only [enc, dec, putVarLen, List.append_assoc, size_eq_enc_length]
    rw [getVarint_putVarint _ _ (inInt8_len _ h.2)]
    simp only []
    rw [ih v rest h.1]
    simp only [length_append_sub, ↓reduceIte]
  | crc p f ih =>
    intro v rest h
    simp only [WT] at h
    simp only [enc, dec, putCrc, List.append_assoc]
    rw [getUInt_be 4 _ _ (crc32_lt p _)]
    simp only []
    rw [ih v rest h]
    simp only [length_append_sub, List.take_left, ↓reduceIte]

end Lemmas.C09
