/-
  C02 composition, progress: every chaser the partition producer still expects is on its way (`FinS`), so a
  message parked in a retry buffer is never left alone.
-/
import SaramaVerif.Lemmas.C02liveFrame

set_option linter.unusedSimpArgs false

namespace Lemmas.C02sys
open Model Model.Pipeline

theorem flush_top : ∀ (h : Nat) (bufs : Nat → List PartProd.Tok) (e : Nat → Bool),
    0 < (PartProd.flush h bufs e).1 → e (PartProd.flush h bufs e).1 = true := by
  intro h
  induction h with
  | zero => intro bufs e h0; simp [PartProd.flush] at h0
  | succ h ih =>
    intro bufs e h0
    simp only [PartProd.flush] at h0 ⊢
    split
    · rename_i he; exact he
    · rename_i he
      rw [if_neg he] at h0
      split
      · rename_i hz; rw [if_pos hz] at h0; simp at h0
      · rename_i hz; rw [if_neg hz] at h0; exact ih _ _ h0

/-- the top level of the partition producer expects its chaser -/
theorem recv_top (p : PartProd.St) (x : PartProd.Tok) (h : 0 < p.hwm → p.expect p.hwm = true) :
    0 < (PartProd.recv p x).1.hwm → (PartProd.recv p x).1.expect (PartProd.recv p x).1.hwm = true := by
  simp only [PartProd.recv]
  split
  · intro _; simp [PartProd.setExp]
  · split
    · rename_i h0
      split
      · rename_i hl
        split
        · intro _
          have : p.hwm ≠ x.retries := by omega
          simpa [PartProd.setExp, this] using h h0
        · intro _; exact h h0
      · split
        · intro hp
          have := flush_top p.hwm p.bufs (PartProd.setExp p.expect p.hwm false) hp
          exact this
        · intro _; exact h h0
    · intro hp; exact h hp

/-- a chaser that arrives at or below the high watermark is no longer expected -/
theorem recv_fin_clears (p : PartProd.St) (x : PartProd.Tok) (hf : x.fin = true) (hl : x.retries ≤ p.hwm)
    (h0 : 0 < p.hwm) : (PartProd.recv p x).1.expect x.retries = false := by
  simp only [PartProd.recv]
  rw [if_neg (by omega), if_pos h0]
  split
  · simp [hf, PartProd.setExp]
  · have : x.retries = p.hwm := by omega
    simp [hf, PartProd.setExp, this]

/-- a level is expected after the step only if it was before, or it is the new high watermark -/
theorem recv_expect (p : PartProd.St) (x : PartProd.Tok) (k : Nat)
    (h : (PartProd.recv p x).1.expect k = true) :
    p.expect k = true ∨ (p.hwm < x.retries ∧ k = x.retries) := by
  simp only [PartProd.recv] at h
  split at h
  · rename_i hr
    by_cases hk : k = x.retries
    · exact Or.inr ⟨hr, hk⟩
    · exact Or.inl (by simpa [PartProd.setExp, hk] using h)
  · split at h
    · split at h
      · split at h
        · by_cases hk : k = x.retries
          · simp [PartProd.setExp, hk] at h
          · exact Or.inl (by simpa [PartProd.setExp, hk] using h)
        · exact Or.inl h
      · split at h
        · by_cases hk : k = p.hwm
          · simp [PartProd.setExp, hk] at h
          · exact Or.inl (by simpa [PartProd.setExp, hk] using h)
        · exact Or.inl h
    · exact Or.inl h

/-- when the partition producer sends a chaser and does not crash, the chaser is in a worker's input channel -/
theorem finSend_lands (s0 : Sys) (lks : List (Option Nat)) (l : Nat) (as : List PartProd.Action)
    (hc : (ppActs s0 lks (.finSend l :: as)).crash = false) :
    ∃ w, finTok l ∈ ((ppActs s0 lks (.finSend l :: as)).wk w).inq := by
  simp only [ppActs] at hc ⊢
  obtain ⟨_, g2, g3⟩ := ppActs_grow as (ppAct s0 lks (.finSend l)).1 (ppAct s0 lks (.finSend l)).2
  cases hcur : s0.cur with
  | none =>
    have : (ppAct s0 lks (.finSend l)).1.crash = true := by simp [ppAct, hcur]
    rw [g2 this] at hc; cases hc
  | some w =>
    refine ⟨w, ?_⟩
    obtain ⟨post, e⟩ := g3 w
    rw [e]
    have : finTok l ∈ ((ppAct s0 lks (.finSend l)).1.wk w).inq := by
      simp only [ppAct, hcur]; exact pushW_mem _ _ _
    exact List.mem_append_left _ this

/-- the chaser of level `k` is on its way: in the retry path at level `k`, or in a worker's input channel one
    level below (the worker will bounce it) -/
def finAt (s : Sys) (k : Nat) : Prop :=
  (∃ f ∈ s.pq ++ s.dq ++ s.ret, f.kind = .fin ∧ f.retries = k) ∨
  (∃ w, ∃ f ∈ (s.wk w).inq, f.kind = .fin ∧ f.retries + 1 = k)

structure FinS (s : Sys) : Prop where
  top  : 0 < s.pp.hwm → s.pp.expect s.pp.hwm = true
  fin3 : ∀ k, s.pp.expect k = true → finAt s k

theorem finS_init : FinS {} := ⟨fun h => by simp at h, fun k h => by simp at h⟩

theorem finAt_mono {s s' : Sys} {k : Nat}
    (hq : ∀ f ∈ s.pq ++ s.dq ++ s.ret, f ∈ s'.pq ++ s'.dq ++ s'.ret)
    (hw : ∀ w, ∀ f ∈ (s.wk w).inq, f ∈ (s'.wk w).inq) (h : finAt s k) : finAt s' k := by
  rcases h with ⟨f, hf, h1, h2⟩ | ⟨w, f, hf, h1, h2⟩
  · exact Or.inl ⟨f, hq f hf, h1, h2⟩
  · exact Or.inr ⟨w, f, hw w f hf, h1, h2⟩

theorem finS_mono {s s' : Sys} (h : FinS s) (hp : s'.pp = s.pp)
    (hq : ∀ f ∈ s.pq ++ s.dq ++ s.ret, f ∈ s'.pq ++ s'.dq ++ s'.ret)
    (hw : ∀ w, ∀ f ∈ (s.wk w).inq, f ∈ (s'.wk w).inq) : FinS s' :=
  ⟨by rw [hp]; exact h.top, fun k hk => finAt_mono hq hw (h.fin3 k (by rw [hp] at hk; exact hk))⟩

theorem setW_inq_same (f : Nat → Worker) (w : Nat) (b : BrokerProd.St) (p : Option (Pipeline.Verdict × Nat))
    (k : Nat) : (setW f w ⟨(f w).inq, b, p⟩ k).inq = (f k).inq := by
  by_cases h : k = w
  · simp [setW, h]
  · simp [setW, h]

theorem finS_bpRecv {M : Nat} {s s' : Sys} {w : Nat} {ov : Bool} (h : FinS s)
    (hfinq : ∀ w, ∀ t ∈ (s.wk w).inq, t.kind = .fin → t.retries < M)
    (hs : sysStep M s (.bpRecv w ov) = some s') : FinS s' := by
  cases hq : (s.wk w).inq with
  | nil => simp [sysStep, hq] at hs
  | cons t r =>
    have hs0 := hs
    simp only [sysStep, hq] at hs
    obtain ⟨hwk, hpp, _, _⟩ := bpRun_keep hs
    obtain ⟨hpq, hdq, post, hret⟩ := bpRun_frame hs
    have hqs : ∀ f ∈ s.pq ++ s.dq ++ s.ret, f ∈ s'.pq ++ s'.dq ++ s'.ret := by
      intro f hf; rw [hpq, hdq, hret]; simp only [List.mem_append] at hf ⊢; grind
    have hws : ∀ k, ∀ f ∈ (s.wk k).inq, f ≠ t ∨ k ≠ w → f ∈ (s'.wk k).inq := by
      intro k f hf hne
      rw [hwk]
      by_cases hk : k = w
      · subst hk
        rw [hq] at hf
        rcases List.mem_cons.1 hf with e | e
        · rcases hne with h1 | h1
          · exact absurd e h1
          · exact absurd rfl h1
        · simpa [setW] using e
      · simpa [setW, hk] using hf
    refine ⟨by rw [hpp]; exact h.top, fun k hk => ?_⟩
    rw [hpp] at hk
    rcases h.fin3 k hk with ⟨f, hf, h1, h2⟩ | ⟨k', f, hf, h1, h2⟩
    · exact Or.inl ⟨f, hqs f hf, h1, h2⟩
    · by_cases he : f = t ∧ k' = w
      · obtain ⟨e1, e2⟩ := he
        subst e1; subst e2
        obtain ⟨g, hg, g1, g2⟩ := bpRecv_fin hq h1 (hfinq _ f hf h1) hs0
        exact Or.inl ⟨g, by simp only [List.mem_append]; exact Or.inr hg, g1, by omega⟩
      · exact Or.inr ⟨k', f, hws k' f hf (by grind), h1, h2⟩

theorem recv_rise_acts (p : PartProd.St) (x : PartProd.Tok) (h : p.hwm < x.retries) :
    (PartProd.recv p x).2 = [.finSend (x.retries - 1), .emit x.id x.retries x.fin] := by
  simp [PartProd.recv, h]

theorem finS_ppRecv {M : Nat} {s s' : Sys} {lks : List (Option Nat)} (h : FinS s)
    (hfin1 : ∀ t r, s.pq = t :: r → t.kind = .fin → 1 ≤ t.retries ∧ t.retries ≤ s.pp.hwm)
    (hcr : s'.crash = false) (hs : sysStep M s (.ppRecv lks) = some s') : FinS s' := by
  cases hq : s.pq with
  | nil => simp [sysStep, hq] at hs
  | cons t r =>
    simp only [sysStep, hq, Option.some.injEq] at hs
    obtain ⟨f1, f2, f3⟩ := ppActs_frame (PartProd.recv s.pp (toPP t)).2
      { s with pq := r, pp := (PartProd.recv s.pp (toPP t)).1 } lks
    obtain ⟨g1, _, g3⟩ := ppActs_grow (PartProd.recv s.pp (toPP t)).2
      { s with pq := r, pp := (PartProd.recv s.pp (toPP t)).1 } lks
    rw [hs] at f1 f2 f3 g1 g3
    simp only at f1 f2 f3 g1 g3
    refine ⟨by rw [g1]; exact recv_top _ _ h.top, fun k hk => ?_⟩
    rw [g1] at hk
    rcases recv_expect _ _ _ hk with he | ⟨hr, hkk⟩
    · rcases h.fin3 k he with ⟨f, hf, h1, h2⟩ | ⟨w, f, hf, h1, h2⟩
      · rw [hq] at hf
        have hf' : f = t ∨ f ∈ r ++ s.dq ++ s.ret := by
          simp only [List.mem_append, List.cons_append, List.mem_cons] at hf ⊢; grind
        rcases hf' with e | e
        · subst e
          obtain ⟨a1, a2⟩ := hfin1 f r hq h1
          have := recv_fin_clears s.pp (toPP f) (by simp [toPP, BrokerProd.Tok.isFin, h1]) a2 (by omega)
          simp only [toPP] at this hk
          rw [← h2] at hk; rw [this] at hk; cases hk
        · exact Or.inl ⟨f, by rw [f1, f2, f3]; exact e, h1, h2⟩
      · obtain ⟨post, e⟩ := g3 w
        exact Or.inr ⟨w, f, by rw [e]; exact List.mem_append_left _ hf, h1, h2⟩
    · have ha := recv_rise_acts s.pp (toPP t) hr
      rw [ha] at hs
      have := finSend_lands _ lks _ _ (by rw [hs]; exact hcr)
      rw [hs] at this
      obtain ⟨w, hw⟩ := this
      refine Or.inr ⟨w, _, hw, rfl, ?_⟩
      simp only [finTok, toPP] at hr ⊢
      simp only [toPP] at hkk
      omega

theorem finS_bpRun {M : Nat} {s s' : Sys} {w : Nat} {pend : Option (Pipeline.Verdict × Nat)} {off : Nat}
    {i : BrokerProd.In} (h : FinS s) (hs : bpRun M s w (s.wk w).inq pend off i = some s') : FinS s' := by
  obtain ⟨hwk, hpp, _, _⟩ := bpRun_keep hs
  obtain ⟨hpq, hdq, post, hret⟩ := bpRun_frame hs
  refine finS_mono h hpp ?_ ?_
  · intro f hf; rw [hpq, hdq, hret]; simp only [List.mem_append] at hf ⊢; grind
  · intro k f hf; rw [hwk, setW_inq_same]; exact hf

/-- `FinS` is an invariant, given three facts of the safety invariant: a chaser at the head of pp.input is at or
    below the high watermark, chasers at workers have a retry left, and the step does not crash -/
theorem finS_step {M : Nat} {s s' : Sys} {c : Choice} (h : FinS s)
    (hfin1 : ∀ t r, s.pq = t :: r → t.kind = .fin → 1 ≤ t.retries ∧ t.retries ≤ s.pp.hwm)
    (hfinq : ∀ w, ∀ t ∈ (s.wk w).inq, t.kind = .fin → t.retries < M)
    (hcr : s'.crash = false) (hs : sysStep M s c = some s') : FinS s' := by
  cases c with
  | submit =>
    simp only [sysStep, Option.some.injEq] at hs; subst hs
    exact finS_mono h rfl (by intro f hf; simp only [List.mem_append] at hf ⊢; grind) (fun _ _ hf => hf)
  | retryOut =>
    cases hr : s.ret with
    | nil => simp [sysStep, hr] at hs
    | cons t r =>
      simp only [sysStep, hr, Option.some.injEq] at hs; subst hs
      exact finS_mono h rfl (by intro f hf; rw [hr] at hf; simp only [List.mem_append, List.mem_cons] at hf ⊢; grind)
        (fun _ _ hf => hf)
  | dispatch =>
    cases hr : s.dq with
    | nil => simp [sysStep, hr] at hs
    | cons t r =>
      simp only [sysStep, hr, Option.some.injEq] at hs; subst hs
      exact finS_mono h rfl (by intro f hf; rw [hr] at hf; simp only [List.mem_append, List.mem_cons] at hf ⊢; grind)
        (fun _ _ hf => hf)
  | ppRecv lks => exact finS_ppRecv h hfin1 hcr hs
  | bpRecv w ov => exact finS_bpRecv h hfinq hs
  | handover w => exact finS_bpRun h (by simpa [sysStep] using hs)
  | broker w v =>
    simp only [sysStep] at hs
    split at hs
    · split at hs
      · cases hs
      · simp only [Option.some.injEq] at hs; subst hs
        exact finS_mono h rfl (fun _ hf => hf) (fun k f hf => by
          show f ∈ (setW s.wk w _ k).inq
          by_cases hk : k = w
          · simpa [setW, hk] using (hk ▸ hf)
          · simpa [setW, hk] using hf)
    · cases hs
  | deliver w still =>
    simp only [sysStep] at hs
    split at hs
    · cases hs
    · exact finS_bpRun h hs
  | moveLeader b =>
    simp only [sysStep, Option.some.injEq] at hs; subst hs
    exact finS_mono h rfl (fun _ hf => hf) (fun _ _ hf => hf)
  | closeW w =>
    obtain ⟨_, rfl⟩ := closeW_spec hs
    exact finS_mono h rfl (fun _ hf => hf) (fun k f hf => by
      show f ∈ (setW s.wk w ⟨(s.wk w).inq, closeBp (s.wk w).bp, none⟩ k).inq
      rw [setW_inq_same]; exact hf)

end Lemmas.C02sys
